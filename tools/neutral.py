#!/venv/bin/python
"""False-alarm probes: property-preserving changes produced by independent sub-agents.

  tools/neutral.py import <worktree> <group>      copy neutral_*.diff + neutral.json into /verif/neutral/<group>/
  tools/neutral.py run <group> PROP [PROP ...]    for every diff: scratch copy of /repo/src + patch, run the quick check
                                                  of each property with GALLIA_SRC; any exit code != 0 is a candidate
                                                  false alarm (or a change that is not neutral after all): results.json
"""
from __future__ import annotations

import json
import os
import shutil
import subprocess
import sys
import tempfile
from pathlib import Path

ROOT = Path(__file__).resolve().parent.parent
NEUT = ROOT / "neutral"


def sh(cmd: str, cwd: str | None = None, env: dict[str, str] | None = None, timeout: int = 3600) -> tuple[int, str]:
    e = dict(os.environ)
    if env:
        e.update(env)
    p = subprocess.run(cmd, shell=True, cwd=cwd, env=e, capture_output=True, text=True, timeout=timeout)
    return p.returncode, (p.stdout + p.stderr)[-4000:]


def do_import(wt: str, group: str) -> int:
    d = NEUT / group
    d.mkdir(parents=True, exist_ok=True)
    n = 0
    for f in sorted(Path(wt).glob("neutral_*.diff")):
        shutil.copy(f, d / f.name)
        n += 1
    if (Path(wt) / "neutral.json").exists():
        shutil.copy(Path(wt) / "neutral.json", d / "neutral.json")
    print(f"imported {n} diffs into {d}")
    return 0 if n else 1


def do_run(group: str, props: list[str]) -> int:
    d = NEUT / group
    results = json.loads((d / "results.json").read_text()) if (d / "results.json").exists() else {}
    bad = 0
    for f in sorted(d.glob("neutral_*.diff")):
        tmp = tempfile.mkdtemp(prefix="neutrun-")
        try:
            shutil.copytree("/repo/src", f"{tmp}/src")
            rc, out = sh(f"patch -p1 -s < {f}", cwd=tmp)
            if rc != 0:
                results[f.name] = {"applies": False, "out": out[-300:]}
                print(f.name, "does not apply")
                continue
            r = {}
            for p in props:
                ev = ROOT / "evidence" / f"{p}.json"
                keep = ev.read_text() if ev.exists() else None
                rc, out = sh(f"./check {p} --tier quick", cwd=str(ROOT), env={"GALLIA_SRC": f"{tmp}/src"})
                lines = [l for l in out.splitlines() if l.startswith(("VIOLATION", "  violated", "OK ", "MACHINERY"))]
                r[p] = {"rc": rc, "lines": lines[:6]}
                if keep is not None:
                    ev.write_text(keep)
                if rc != 0:
                    bad += 1
                print(f.name, p, "rc=", rc, "|", " | ".join(lines[:3]))
            results.setdefault(f.name, {}).update(r)
        finally:
            shutil.rmtree(tmp, ignore_errors=True)
    (d / "results.json").write_text(json.dumps(results, indent=1))
    return 1 if bad else 0


if __name__ == "__main__":
    if sys.argv[1] == "import":
        sys.exit(do_import(sys.argv[2], sys.argv[3]))
    if sys.argv[1] == "run":
        sys.exit(do_run(sys.argv[2], sys.argv[3:]))
    print(__doc__)
