#!/bin/sh
# regenerates the tables between the TABLES markers of DESIGN.md
/venv/bin/python - <<'PY'
import subprocess,re
t=subprocess.check_output(['/verif/tools/design_tables.py']).decode()
p='/verif/DESIGN.md'
s=open(p).read()
new='<!-- TABLES:BEGIN -->\n### 9.9 Generated tables (tools/design_tables.py)\n\n'+t+'\n<!-- TABLES:END -->'
i=s.index('<!-- TABLES:BEGIN -->'); j=s.index('<!-- TABLES:END -->')+len('<!-- TABLES:END -->')
open(p,'w').write(s[:i]+new+s[j:])
PY
