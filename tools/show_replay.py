#!/venv/bin/python
import json, sys, collections
d = json.load(open(sys.argv[1]))
full = len(sys.argv) > 2
c = collections.OrderedDict()
for v in d["violations"]:
    k = (v["clause"], json.dumps(v["sig"], sort_keys=True))
    c.setdefault(k, []).append(v)
print("total", d["n_violations"], "distinct", len(c))
for (cl, sg), vs in c.items():
    print(len(vs), cl, sg)
    if full:
        det = vs[0]["detail"]
        for kk, vv in det.items():
            if kk == "events":
                for e in vv: print("      ", e)
            else:
                print("    ", kk, "=", str(vv)[:300])
