#!/bin/sh
# tools/applyfix.sh <diff> "<commit subject (without 'fix: ')>" "<body>"
set -e
D=$(readlink -f "$1")
cd /repo
git apply --recount "$D" 2>/dev/null || patch -p1 -s < "$D"
/venv/bin/python -m pytest -q -p no:cacheprovider --timeout=900 2>&1 | tail -1
git commit -qam "fix: $2

$3"
git log --oneline | head -1
