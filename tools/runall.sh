#!/bin/sh
# tools/runall.sh [tier] [ids...]   run the checks one after the other, one summary line each
cd "$(dirname "$0")/.."
TIER=${1:-quick}; shift 2>/dev/null
IDS=${*:-C01 C02 C03 C04 C05 C06 C07 C08 C09 C10 C11 C12 C13 C14 C15 C16 C17 C18 C19 C20 X01 X02 X03 X04 X05 X06 X07 X08 X09 X10 X11 X12 X13 X14 X15 X16 X17 X18 X19 X20 X21 X22 X23 X24}
rc=0
for c in $IDS; do
  out=$(./check $c --tier $TIER 2>&1); r=$?
  echo "$c rc=$r $(echo "$out" | grep -E '^(OK|VIOLATION|MACHINERY|KNOWN-FINDING)' | head -3 | tr '\n' '|')"
  [ $r -ne 0 ] && rc=1 && echo "$out" | grep -E "violated|Error|error" | head -5
done
exit $rc
