#!/venv/bin/python
"""Prints the markdown tables of DESIGN.md section 9 that are derived from files:
   fixed/known findings (KNOWN_FINDINGS.json) and the seeded-change kill matrix (seeded/*/meta.json)."""
import json, sys
from pathlib import Path
ROOT = Path(__file__).resolve().parent.parent
kf = json.loads((ROOT / "KNOWN_FINDINGS.json").read_text())
print("#### Known findings (recorded, not repaired)\n")
for f in kf["findings"]:
    print(f"* **{f['property']} / {f['id']}** — {f['what']}. Not repaired because: {f.get('why_not_fixed','')}. Match: `{json.dumps(f['match'])}`.")
print("\n#### Repaired defects (`fix:` commits in /repo)\n")
print("| property | commit | what failed |\n|---|---|---|")
for l in kf["fixed"]:
    _, rest = l.split("property=", 1)
    prop, commit, what = rest.split(" ", 2)
    print(f"| {prop} | `{commit}` | {what} |")
print("\n#### Seeded changes (independent sub-agents; property text + scratch worktree only)\n")
print("| seed | property | what the change does | needs to manifest | caught by (quick tier) |\n|---|---|---|---|---|")
for d in sorted((ROOT / "seeded").iterdir()):
    m = d / "meta.json"
    if not m.exists():
        continue
    j = json.loads(m.read_text())
    runs = j.get("check_runs", {})
    caught = []
    for p, r in runs.items():
        if r["rc"] == 1:
            cl = sorted({l.split("violated ")[1].split(" sig=")[0] for l in r["lines"] if "violated " in l})
            caught.append(f"{p}: {', '.join(cl[:3])}")
        else:
            caught.append(f"{p}: rc={r['rc']} (missed)")
    summ = str(j.get("summary", "")).replace("|", "/").replace("\n", " ")[:260]
    needs = str(j.get("needs", "")).replace("|", "/").replace("\n", " ")[:220]
    if j.get("judged"):
        caught = [f"not demanded: {j['judged']}"]
    print(f"| {d.name} | {j.get('property')} | {summ} | {needs} | {'; '.join(caught) or 'not run yet'} |")
