#!/venv/bin/python
"""Regenerates MANIFEST.json from the table below (single source of truth)."""
import json, subprocess, sys
from pathlib import Path

ROOT = Path(__file__).resolve().parent.parent
BASELINE = ("cd /repo && env -u GALLIA_VERIF /venv/bin/python -m pytest -ra -q -p no:cacheprovider --timeout=900 "
            "--continue-on-collection-errors")

TRUST = ("TLC 1.8 + CommunityModules Json/IOUtils; the virtual-time asyncio loop and scripted fakes of /verif/harness; "
         "CPython 3.12.1 and the third-party versions installed in /venv (pydantic 2.13.5, aiosqlite 0.22.1)")

# id -> (technique, level text, level note, design_ref)
CHECKS = {
 "C04": ("TLA+ model of request_unsafe checked by TLC against a declarative outcome function (Implied); "
         "TLC trace validation of real UDSClient.request() executions enumerated over all event scripts; "
         "TLC-simulated behaviours replayed into the code",
         "Exhaustive model checking of the retry/busy/pending state machine for max_retry 0..3 with small limits, "
         "and TLC validation (contract layer) of every real execution for all event scripts up to the stated depth "
         "plus long scripts across the 120-pending / 40-poll limits. Exhaustive over the enumerated scripts only.",
         "reply classes are constructed byte strings; classification itself is C03's subject. " + TRUST,
         "DESIGN.md section 4, C04"),
 "C06": ("TLA+ design model of DoIPConnection (reader task, read queue, FIFO mutex, ack wait, alive check; maximal-progress "
         "timers) model-checked by TLC; timed contract monitor (DoipContract) used by TLC to validate traces of the real "
         "DoIPTransport on a hand-fed StreamReader under virtual time; TLC-simulated schedules replayed into the code",
         "Exhaustive model checking of all gateway frame sequences up to 4 (quick) / 5-6 (thorough) frames interleaved with "
         "three client programs; TLC trace validation of every real execution for all gateway choice vectors up to the "
         "frame budget at every phase-relative injection point, every single split point of canonical exchanges, all 256 "
         "activation types and response codes. Not a proof: conformance is exhaustive over the enumerated families only.",
         "in-memory TCP stream (real asyncio.StreamReader, recording writer); ISO 13400-2 timing constants 2000/500 ms. " + TRUST,
         "DESIGN.md section 4, C06"),
 "C07": ("TLA+ design model of HSFZConnection (reader task, read queue, ack wait, control words; maximal-progress timers) "
         "model-checked by TLC; timed contract monitor (HsfzContract) used by TLC to validate traces of the real "
         "HSFZTransport on a hand-fed StreamReader under virtual time; TLC-simulated schedules replayed into the code",
         "Exhaustive model checking of all gateway frame sequences up to 4 (quick) / 5-6 (thorough) frames interleaved with "
         "three client programs; TLC trace validation of every real execution for all gateway choice vectors up to the "
         "frame budget at every phase-relative injection point for ack timeouts 200/1000/3000 ms, all seven error control "
         "words at every phase, every single split point of canonical exchanges. Exhaustive over the enumerated families only.",
         "in-memory TCP stream (real asyncio.StreamReader, recording writer). " + TRUST,
         "DESIGN.md section 4, C07"),
 "C05": ("TLA+ model of N callers sharing one client lock (FIFO hand-over, per-caller reply scripts, cancellation at any "
         "await point) model-checked by TLC; exchange-atomicity monitor (UdsClientMutexContract) used by TLC to validate "
         "the transport log of real concurrent ECU/UDSClient users, enumerated over arrival orders, delays, reply scripts "
         "and cancellation points; the lock core (UdsClientLockInd, refined by the TLC model) carries an inductive "
         "invariant discharged by Apalache for 6 callers and behaviours of any length (DESIGN 9.10)",
         "Exhaustive model checking for 2-3 (thorough: 4) callers x all reply scripts x one cancellation anywhere; TLC trace "
         "validation of every real schedule of 2-3 tasks (incl. the real tester-present worker and reconnect) up to the "
         "enumeration depth, 4-5 tasks sampled. Exhaustive over the enumerated schedules only.",
         "scripted transport tags every call with the calling task; TracedECU subclass only adds entry/exit records. " + TRUST,
         "DESIGN.md section 4, C05"),
 "C08": ("TLA+ model of request / cut / peer restart / reconnect (Reconnect.tla, liveness Cut ~> ended) model-checked by TLC; "
         "loss monitor (LossContract L1-L4) used by TLC to validate traces of the real tcp-lines, unix-lines, DoIP and HSFZ "
         "transports and of UDSClient.request() with the peer cutting at every byte offset of its answer",
         "Every cut point (each frame boundary and byte offset, before the request, after the answer) x {EOF, reset, silence} "
         "x 4 transports x caller timeout on/off x cut delay; client level x max_retry 0..2 x restart delays; all traces "
         "validated by TLC. Exhaustive over that family only; real kernel sockets are not used.",
         "in-memory streams emulate EOF/reset the way asyncio's selector transport reports them (call_soon). " + TRUST,
         "DESIGN.md section 4, C08"),
 "C17": ("TLA+ contract of forward/reverse/head/tail/filter slices (PenlogContract) and design model of the lazy offset-table "
         "reader (Penlog.tla) model-checked by TLC; TLC validates sessions of the real writer (zst log handler) and the real "
         "PenlogReader / hr entry point; TLC-simulated reader behaviours replayed into the code",
         "Exhaustive TLC model checking over logs of length 0..4 x modes x counts x offsets with four negative controls; TLC "
         "validation of every real reader session over all logs of length 0..3 (0..4) x all model operations alone and in "
         "pairs (fresh and used readers), 5 containers, plus seeded hostile-Unicode / long-line / large logs.",
         "text equality checked on a sample as code-point sequences, elsewhere by injective record ids. " + TRUST,
         "DESIGN.md section 4, C17"),
 "C09": ("TLA+ contract ReachWithin/path validity (SessionScanContract) and design model of the level-wise session search over ALL "
         "session graphs (SessionScan.tla) model-checked by TLC; TLC validates traces of the real SessionsScanner run over the real "
         "ECU client, tcp-lines transport and virtual-ECU server loop against scripted session graphs; simulated design "
         "behaviours replayed",
         "Exhaustive model checking over all 64 ISO three-session graphs x depth 1..4 x all skips x thorough on/off (thorough: "
         "4-session graphs, 5-session shape families); every real scan (64 graphs x depths + seeded 4-6 session draws, two ECU "
         "realisations) validated by TLC against the contract (probe order free).",
         "assumes ISO 14229-1: the default session can be entered from every session; graphs outside are reported, not judged; "
         "the default session is exempt from the skip clause (S16 judged outside the statement). " + TRUST,
         "DESIGN.md section 4, C09"),
 "C12": ("TLA+ model of client state tracker || replaying server tracker || row cursor (DbReplay.tla, update rules in DbReplayRules) "
         "model-checked by TLC over all histories up to length 3/4; TLC validates record-then-replay transcripts of the real ECU + "
         "DBHandler + DBUDSServer; every TLC behaviour replayed into the code",
         "Exhaustive over abstract histories of length <= 3 (thorough 4) x reply classes; every such behaviour and seeded random "
         "histories recorded against RandomUDSServer and replayed from databases with extra runs/ECUs/property sets; TLC compares "
         "per step <<request, recorded reply, replayed reply, client state, server state>>.",
         "security seeds of the recording ECU are made reproducible by a seeded subclass; the ecu table is linked by direct SQL. " + TRUST,
         "DESIGN.md section 4, C12"),
 "C15": ("TLA+ model of the run lifecycle (RunLifecycle.tla: lock, artifacts, log, hooks, db, setup/main/teardown, META, exit) with "
         "the documented exit-code mapping as contract; TLC enumerates kind x resources x failure point x exit kind and the "
         "expected final state; each case executed against the real entry_point (in-process and subprocess with real SIGINT) "
         "and the observed final state validated by TLC",
         "All 1696 lifecycle cases model-checked; quick executes ~680 of them (33 in subprocesses, 23 with real SIGINT), thorough "
         "~2070 incl. all SIGINT cases; every observation is judged by TLC clause by clause (X1..X6).",
         "Ctrl-C inside the finally block / hooks / DB open is not injected; test commands are subclasses defined in the harness. " + TRUST,
         "DESIGN.md section 4, C15"),
 "C16": ("TLA+ model of the random ECU generator over all coin-flip outcomes (VEcuModel.tla) with well-formedness invariants; TLC "
         "validates model dumps and request transcripts produced by separate interpreter processes (different PYTHONHASHSEED, "
         "import order, clock, global RNG state) for equal (seed, arguments)",
         "Generator design model-checked exhaustively for 3-4 candidate sessions (graph set equals the real generator's under a "
         "scripted RNG); 60 (thorough 1500) process runs x fixed request history validated by TLC: well-formedness per dump, "
         "byte equality per pair except RequestSeed seeds.",
         "part (b) is transcript equality with one exception; TLC's share there is thin and stated as such. " + TRUST,
         "DESIGN.md section 4, C16"),
 "C18": ("TLA+ model of option resolution CLI > env > file > default with validity (ConfigPrecedence.tla) as contract and design; "
         "TLC enumerates presence x validity x field-class cases and their expected outcome; every case instantiated on every "
         "option of every command through the real parser, outcomes validated by TLC; reload identity and template keys likewise",
         "1242 abstract cases x 817 option instances of 34 commands (quick: all presence patterns on every option, validity "
         "patterns rotated; thorough: everything x 3 value variants), stored-config reload via dump, META.json + Rerunner and a "
         "run_meta row, --template keys fed back.",
         "which options are env/file-configurable is read from the class sources via ast, independent of pydantic's model_fields; "
         "positional options: precedence vacuous (S30 unspecified). " + TRUST,
         "DESIGN.md section 4, C18"),
 "C20": ("TLA+ denotational semantics of range expressions and the URI build/parse identity contract (RangeExprContract, "
         "TargetUriContract) with design layers; TLC enumerates ASTs / URI part combinations and is the batch oracle for the real "
         "unravel/unravel_2d/Ranges/Ranges2D/TargetURI/split_host_port/transport Config results",
         "All 1-D ASTs of <= 3 items over 0..6 (thorough) and 2-D forms, several spellings each; host classes x ports x parameter "
         "subsets x integer notations for DoIP/HSFZ/ISO-TP incl. the shapes the discovery scanners emit; thorough: ports 0..65535.",
         "enumeration + independent denotation (DESIGN 1.4): TLC adds independence and exhaustive case generation. " + TRUST,
         "DESIGN.md section 4, C20"),
 "C01": ("ISO 14229-1 request layouts transcribed into TLA+ (UdsLayoutContract: field tables, Enc/Dec/Range/registry); TLC "
         "enumerates the abstract case space (kind x boundary classes x suppress bit x group counts x widths) and is the batch "
         "oracle for constructor / .pdu / from_pdu / parse_dynamic / client-method wire bytes of the real code",
         "Every abstract case generated by TLC executed at least once (5710 cases over 40 request classes found by reflection, 34 "
         "client methods); thorough adds ~1e5 sampled values; design layer (codec pipelines with Dev_S1..S7) model-checked "
         "against the contract with seven negative controls.",
         "transcribe-the-case-analysis style (DESIGN 1.4): TLC adds independence and exhaustive case enumeration; a request class "
         "without a layout row is a machinery error. " + TRUST,
         "DESIGN.md section 4, C01"),
 "C02": ("ISO 14229-1 response layouts in TLA+ (UdsLayoutContract R1-R3); TLC is the oracle for exhaustive byte-string sweeps "
         "through the real response parser and for valid responses / mutated neighbours generated from the layouts",
         "All byte strings of length 1..2 (thorough 1..3: 1.3 million) for all 20 response SIDs incl. 0x7F through parse_dynamic, "
         "<Class>.from_pdu on all strings of length 1..2, every TLC-generated valid response and its truncations / extensions / "
         "bit flips; completeness of the verdict tables checked by TLC.",
         "conditional ISO fields are unspecified (R3 does not apply); known finding S6 (repeated DTCs collapsed) is listed in "
         "KNOWN_FINDINGS.json. " + TRUST,
         "DESIGN.md section 4, C02"),
 "C03": ("TLA+ classification Expected(request, reply) in {Accept, Mismatch, Malformed, Unspecified} from the statement "
         "(UdsMatchContract) and a design model of parse_pdu's decision procedure (UdsMatch.tla) model-checked over the abstract "
         "pair space; TLC validates the real parse_pdu and UDSClient.request() on every concretised pair",
         "5633 abstract pairs model-checked and replayed into the code; 14k (thorough 90k) concrete (request, reply) pairs: every "
         "request kind x genuine / foreign / echo-byte-changed / suppress-bit / negative responses with all 256 codes / "
         "truncated / extended replies, each through parse_pdu and end-to-end through the client.",
         "secondary echoes the statement does not name are unspecified. " + TRUST,
         "DESIGN.md section 4, C03"),
 "C10": ("TLA+ contracts for the expected result of service and identifier scans over an abstract ECU model (ServiceScanContract, "
         "IdentScanContract) with design models of both scanners model-checked by TLC; TLC validates traces of the real "
         "ServicesScanner / ScanIdentifiers run over the full in-memory tcp-lines stack against scripted and random ECUs",
         "Small abstract ECU models enumerated exhaustively with eight negative controls; ~830 (thorough 11k) real scans: session "
         "lists x skip maps (through the real range parsers) x check-session x services 0x22/0x27/0x2E/0x31 x identifier ranges "
         "incl. boundaries x RandomUDSServer seeds; probe order and extra probe lengths are free.",
         "power cycling stubbed (no power supply); ECUs that refuse the session read are outside the family. " + TRUST,
         "DESIGN.md section 4, C10"),
 "C11": ("TLA+ model of ECU._request -> queue -> writer task -> rows with implicit toggle, abort at any point and disconnect "
         "(DbLog.tla) model-checked by TLC incl. liveness of draining; TLC validates wire log vs rows read back with sqlite3 from "
         "real UDSScanner runs with the real ECU and DBHandler",
         "Histories up to length 3 (thorough 4) x six outcome classes x abort everywhere model-checked with four negative "
         "controls; ~900 (thorough 6.5k) real runs: all 42 request kinds x outcome classes, cancellation at every await point, "
         "raises at every step, random histories, concurrent lanes; rows compared byte-exact by TLC.",
         "database write faults (OperationalError retry) are outside the quantifier; back-off shortened in the harness. " + TRUST,
         "DESIGN.md section 4, C11"),
 "C19": ("TLA+ Framing module (parsed frames independent of segmentation) and LinesStream contract/design (T1-T3) model-checked by "
         "TLC; TLC validates traces of the real tcp-lines / unix-lines transports and the virtual ECU's server loop on hand-fed "
         "streams for every segmentation, timeout position and close offset",
         "Exhaustive model checking for 3 messages x all segmentations x timeout/close at every point; ~7.8k (thorough 140k) real "
         "executions: every single and double split point, every choice vector per byte boundary of short streams, bursts of 100 "
         "messages up to 4095 bytes, real loopback/unix sockets cross-checking the in-memory fakes.",
         "wire format differences are drift, not violations. " + TRUST,
         "DESIGN.md section 4, C19"),
 "C13": ("TLA+ contract of the ISO 14229-1 default response chain (VEcuContract: Chain, suppression, state update) and a design "
         "model of UDSServer.respond/update_state (VEcu.tla) model-checked by TLC over all 2^9 behaviour-switch subsets; TLC "
         "validates every exchange of the real virtual ECU and TLC transitions are replayed into it",
         "Exhaustive model checking of small models x all switch subsets x structural request classes x histories <= 3 with "
         "negative controls; 164k (thorough 1.3M) real exchanges: one model/session exhaustive over all requests with 0-1 "
         "payload bytes, all 512 switch subsets, all sub-function bytes, structured valid requests; 25k (214k) TLC transitions "
         "replayed.",
         "service-specific payloads are unconstrained; 'parsable' is taken from gallia's request codec (C01); the 10 s inactivity "
         "reset is kept out of play by patching time in the harness. " + TRUST,
         "DESIGN.md section 4, C13"),
 "C14": ("Same VEcu specification (invariants A1-A3: never raises, session stays offered, reply well formed and accepted); TLC "
         "validates exchanges of the real virtual ECU through handle_request, the real UDSClient.request() and the real "
         "handle_client loop over in-memory tcp-lines streams",
         "38k (thorough 1.1M) exchanges: random byte strings of length 1..64, every service id x 0..8 payload bytes, structured "
         "valid requests incl. multi-identifier and suppress-bit variants, 4095/4096-byte requests, for seeds x randomness "
         "parameters; the client's own parse_pdu verdict is recorded per exchange and judged by TLC.",
         "A3 uses the real client's verdict plus a structural well-formedness check in TLA+. " + TRUST,
         "DESIGN.md section 4, C14"),
}
PENDING = {}

def main():
    props = [json.loads(l) for l in (ROOT / "properties.jsonl").read_text().splitlines() if l.strip()]
    checks = []
    na = []
    for p in props:
        pid = p["id"]
        if pid in CHECKS:
            tech, text, note, ref = CHECKS[pid]
            checks.append({
                "property_id": pid,
                "quick_cmd": f"./check {pid} --tier quick",
                "thorough_cmd": f"./check {pid} --tier thorough",
                "evidence_file": f"/verif/evidence/{pid}.json",
                "replay_cmd_template": f"./check {pid} --replay {{path}}",
                "engine": "tlc+conformance",
                "level_claimed": {"category": "model_checking", "text": text, "design_ref": ref},
                "level_note": note,
                "technique": tech,
            })
        else:
            na.append({"property_id": pid, "reason": PENDING.get(pid, "check under construction in this session; not claimed until its TLA+ spec, trace validation and evidence exist")})
    hooks_commits = []
    hf = ROOT / "HOOK_COMMITS"
    if hf.exists():
        hooks_commits = [l.split()[0] for l in hf.read_text().splitlines() if l.strip()]
    man = {
        "version": 1,
        "setup_cmd": "./setup.sh",
        "hooks": {
            "guard": "GALLIA_VERIF",
            "enable": "checks import /repo/src as is (PYTHONPATH=/repo/src, fresh interpreter per check); ./check exports GALLIA_VERIF=1; no hook in gallia reads it so far",
            "baseline_off_cmd": BASELINE,
            "source_commits": hooks_commits,
            "add_only": True,
        },
        "engines": [{"name": "tlc+conformance", "path": "/verif/check",
                     "serves_properties": sorted(CHECKS), 
                     "kind_free_text": "explicit TLA+ specifications (spec/*.tla) model-checked by TLC; bound to the Python implementation by TLC trace validation of recorded executions (code->spec) and replay of TLC-generated behaviours/cases into the real objects (spec->code)"}],
        "checks": checks,
        "not_applicable": na,
        "notes": "See DESIGN.md. KNOWN_FINDINGS.json lists recorded and fixed defects. Exit codes: 0 held, 1 VIOLATION, 2 machinery failure.",
    }
    (ROOT / "MANIFEST.json").write_text(json.dumps(man, indent=1) + "\n")
    print(f"{len(checks)} checks, {len(na)} not_applicable")

main()
