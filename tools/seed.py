#!/venv/bin/python
"""Seeded-change bookkeeping.

  tools/seed.py import <worktree> <id> <PROP>   copy patch.diff / demo / meta.json from a sub-agent's worktree into
                                                /verif/seeded/<id>/, then confirm in a FRESH scratch worktree:
                                                (1) 31 repo tests pass with the change, (2) demo fails with it,
                                                (3) demo passes without it.  Records what was run in meta.json.
  tools/seed.py run <id> [PROP ...]             git -C /repo apply the patch, run ./check PROP --tier quick for each
                                                property (default: the one in meta.json), undo, report caught/missed.
"""
from __future__ import annotations

import json
import os
import shutil
import subprocess
import sys
import tempfile
from pathlib import Path

ROOT = Path(__file__).resolve().parent.parent
SEEDED = ROOT / "seeded"
PY = "/venv/bin/python"


def sh(cmd: str, cwd: str | None = None, env: dict[str, str] | None = None, timeout: int = 1800) -> tuple[int, str]:
    e = dict(os.environ)
    if env:
        e.update(env)
    p = subprocess.run(cmd, shell=True, cwd=cwd, env=e, capture_output=True, text=True, timeout=timeout)
    return p.returncode, (p.stdout + p.stderr)[-3000:]


def do_import(wt: str | None, sid: str, prop: str) -> int:
    dst = SEEDED / sid
    dst.mkdir(parents=True, exist_ok=True)
    meta = {}
    if wt is not None:
        src = Path(wt)
        patch = subprocess.run("git diff -- src", shell=True, cwd=wt, capture_output=True, text=True).stdout
        if not patch.strip() and (src / "patch.diff").exists():
            patch = (src / "patch.diff").read_text()
        (dst / "patch.diff").write_text(patch)
        demos = sorted(src.glob("demo_*.py"))
        if not demos:
            print("no demo_*.py in", wt)
            return 2
        demo = demos[0]
        shutil.copy(demo, dst / demo.name)
        if (src / "meta.json").exists():
            try:
                meta = json.loads((src / "meta.json").read_text())
            except Exception as e:  # noqa: BLE001
                meta = {"meta_parse_error": str(e)}
    else:  # re-confirm an already imported seed
        demo = sorted(dst.glob("demo_*.py"))[0]
        meta = json.loads((dst / "meta.json").read_text())
    # confirm in a fresh scratch worktree
    tmp = tempfile.mkdtemp(prefix="seedchk-")
    wt2 = os.path.join(tmp, "wt")
    ran = []
    try:
        rc, out = sh(f"git -C /repo worktree add --detach {wt2} HEAD")
        assert rc == 0, out
        shutil.copy(dst / demo.name, wt2)
        env = {"PYTHONPATH": f"{wt2}/src"}
        rc0, out0 = sh(f"{PY} {demo.name}", cwd=wt2, env=env, timeout=900)
        ran.append({"cmd": f"demo without change", "rc": rc0})
        rc, out = sh(f"git apply {dst / 'patch.diff'}", cwd=wt2)
        assert rc == 0, "patch does not apply: " + out
        rc1, out1 = sh(f"{PY} {demo.name}", cwd=wt2, env=env, timeout=900)
        ran.append({"cmd": "demo with change", "rc": rc1, "tail": out1[-400:]})
        rct, outt = sh(f"{PY} -m pytest -q -p no:cacheprovider --timeout=900 tests/pytest", cwd=wt2, env=env, timeout=1800)
        ran.append({"cmd": "repo tests with change", "rc": rct, "tail": outt[-200:]})
    finally:
        sh(f"git -C /repo worktree remove --force {wt2}")
        shutil.rmtree(tmp, ignore_errors=True)
    ok = rc0 == 0 and rc1 != 0 and rct == 0
    meta.update({"property": prop, "id": sid, "confirmed": ok, "confirmation_runs": ran, "demo": demo.name})
    (dst / "meta.json").write_text(json.dumps(meta, indent=1))
    print(f"seed {sid}: demo_without rc={rc0} demo_with rc={rc1} tests_with rc={rct} => {'CONFIRMED' if ok else 'REJECTED'}")
    return 0 if ok else 1


def do_run(sid: str, props: list[str], in_repo: bool = False) -> int:
    """Default: run the checks against a scratch copy of /repo/src with the patch applied (GALLIA_SRC), so that
    nothing else using /repo is disturbed; --in-repo applies the patch to /repo itself and undoes it afterwards."""
    d = SEEDED / sid
    meta = json.loads((d / "meta.json").read_text())
    props = props or [meta["property"]]
    tmp = None
    env = {}
    if in_repo:
        rc, out = sh("git -C /repo status --porcelain")
        if out.strip():
            print("refusing: /repo has uncommitted changes:\n" + out)
            return 2
        rc, out = sh(f"git -C /repo apply {d / 'patch.diff'}")
        if rc != 0:
            print("patch does not apply to /repo:", out)
            return 2
    else:
        tmp = tempfile.mkdtemp(prefix="seedrun-")
        shutil.copytree("/repo/src", f"{tmp}/src")
        rc, out = sh(f"patch -p1 -s < {d / 'patch.diff'}", cwd=tmp)
        if rc != 0 and (d / "patch.rebased.diff").exists():
            # later fix: commits moved the code the seed touches; the same change, re-made by hand on HEAD
            shutil.rmtree(tmp, ignore_errors=True)
            tmp = tempfile.mkdtemp(prefix="seedrun-")
            shutil.copytree("/repo/src", f"{tmp}/src")
            rc, out = sh(f"patch -p1 -s < {d / 'patch.rebased.diff'}", cwd=tmp)
            meta["rebased"] = True
        if rc != 0:
            print("patch does not apply:", out)
            shutil.rmtree(tmp, ignore_errors=True)
            return 2
        env = {"GALLIA_SRC": f"{tmp}/src"}
    results = {}
    try:
        for p in props:
            ev = ROOT / "evidence" / f"{p}.json"
            keep = ev.read_text() if ev.exists() else None
            rc, out = sh(f"./check {p} --tier quick", cwd=str(ROOT), env=env, timeout=3600)
            lines = [l for l in out.splitlines() if l.startswith(("VIOLATION", "  violated", "OK ", "MACHINERY", "KNOWN"))]
            results[p] = {"rc": rc, "lines": lines[:8], "mode": "in-repo" if in_repo else "GALLIA_SRC copy"}
            if keep is not None:
                ev.write_text(keep)  # evidence must describe the unchanged tree
            print(p, "rc=", rc, "|", " | ".join(lines[:4]))
    finally:
        if in_repo:
            sh("git -C /repo checkout -- .")
        if tmp:
            shutil.rmtree(tmp, ignore_errors=True)
    meta.setdefault("check_runs", {}).update(results)
    meta["caught_by"] = sorted(p for p, r in meta["check_runs"].items() if r["rc"] == 1)
    (d / "meta.json").write_text(json.dumps(meta, indent=1))
    return 0


if __name__ == "__main__":
    if sys.argv[1] == "import":
        sys.exit(do_import(sys.argv[2], sys.argv[3], sys.argv[4]))
    if sys.argv[1] == "confirm":
        sys.exit(do_import(None, sys.argv[2], sys.argv[3]))
    if sys.argv[1] == "run":
        args = [a for a in sys.argv[3:] if a != "--in-repo"]
        sys.exit(do_run(sys.argv[2], args, in_repo="--in-repo" in sys.argv))
    print(__doc__)
