------------------------- MODULE VEcuModelContract -------------------------
(* Property C16 -- "A virtual ECU is fully determined by its seed and arguments".

   Contract layer: operators only, written from the property statement.

   (a) Well-formedness of the model a random virtual ECU offers
       (clauses W0..W4, one per sentence part of the statement):
         "Mandatory sessions and services are always present,
          every offered session is reachable from the default session
          and can return to it."
   (b) Determinism as a Mealy contract (clauses M0, M1, D1, D2):
         "Two random virtual ECUs started with the same seed and the same
          arguments ... offer the identical session/service/sub-function model
          and give byte-identical answers to the same request history, the only
          exception being security-access seeds, which are deliberately fresh."

   Abstract model  M = [sess, svc, T, B]:
     sess  set of offered sessions
     svc   [sess -> set of offered service ids]
     T     set of pairs <<s, t>>: in session s the model announces a session
           change to t (DiagnosticSessionControl sub-function list), s, t \in sess
     B     further ways back to the default session the model announces (a
           session that offers ECUReset with at least one reset type: an ECU
           reset ends in the default session by ISO 14229-1).  Only used for
           "can return", never for "reachable from the default session".
*)
EXTENDS Naturals, Sequences, FiniteSets, TLC

DefaultSession == 1

----------------------------------------------------------------------------
(* ------------------------ (a) reachability ------------------------------ *)

\* one step of forward image
Succ(T, X) == X \cup { e[2] : e \in { f \in T : f[1] \in X } }

RECURSIVE ReachFrom(_, _)
\* least fixpoint: everything reachable from the set X along T (reflexive)
ReachFrom(T, X) == LET Y == Succ(T, X) IN IF Y = X THEN X ELSE ReachFrom(T, Y)

Inverse(T) == { <<e[2], e[1]>> : e \in T }

\* all nodes from which x can be reached (reflexive)
CanReach(T, x) == ReachFrom(Inverse(T), {x})

\* Declarative transitive closure (Warshall), the definition the statement's
\* "reachable" refers to; ReachFrom is the cheap way to evaluate it on big
\* extracted models.  MC_VEcuModel checks that both agree on every small graph.
NodesOf(R) == { e[1] : e \in R } \cup { e[2] : e \in R }
RECURSIVE Warshall(_, _)
Warshall(R, K) ==
  IF K = {} THEN R
  ELSE LET k == CHOOSE x \in K : TRUE
           P == Warshall(R, K \ {k})
           N == NodesOf(R)
       IN  P \cup { <<a, b>> \in N \X N : <<a, k>> \in P /\ <<k, b>> \in P }
TC(R) == Warshall(R, NodesOf(R))

Reachable(T, a, b) == a = b \/ <<a, b>> \in TC(T)

----------------------------------------------------------------------------
(* ------------------------ (a) well-formedness --------------------------- *)

W0_DefaultOffered(M)            == DefaultSession \in M.sess
W1_MandatorySessions(M, mandS)  == mandS \subseteq M.sess
W2_MandatoryServices(M, mandV)  == \A s \in M.sess : mandV \subseteq M.svc[s]
W3_ReachableFromDefault(M)      == M.sess \subseteq ReachFrom(M.T, {DefaultSession})
W4_CanReturnToDefault(M)        == M.sess \subseteq CanReach(M.T \cup M.B, DefaultSession)

WellFormed(M, mandS, mandV) ==
  /\ W0_DefaultOffered(M) /\ W1_MandatorySessions(M, mandS) /\ W2_MandatoryServices(M, mandV)
  /\ W3_ReachableFromDefault(M) /\ W4_CanReturnToDefault(M)

\* total verdict: "ok" or the label of the first clause broken
WFVerdict(M, mandS, mandV) ==
  IF ~W0_DefaultOffered(M)                THEN "W0/default-session-offered"
  ELSE IF ~W1_MandatorySessions(M, mandS) THEN "W1/mandatory-sessions-present"
  ELSE IF ~W2_MandatoryServices(M, mandV) THEN "W2/mandatory-services-present"
  ELSE IF ~W3_ReachableFromDefault(M)     THEN "W3/session-reachable-from-default"
  ELSE IF ~W4_CanReturnToDefault(M)       THEN "W4/session-can-return-to-default"
  ELSE "ok"

----------------------------------------------------------------------------
(* ------------------------ (b) determinism ------------------------------- *)
(* A transcript is a sequence of steps
      [q |-> request bytes, o |-> "r" | "n" | "x", r |-> reply bytes]
   o = "r": the ECU answered r; "n": it stayed silent; "x": the request handler
   raised (C14's business; here only "both runs do the same").

   Run B is compared with the reference run A step by step (a Mealy machine:
   the same input history must give the same outputs).  The trace spec folds
   StepClass over the two transcripts, carrying the seed bookkeeping sa, sb.

   The exception of the statement, stated precisely:
   E1  the bytes AFTER the first two of a positive response to a SecurityAccess
       requestSeed request (67 <odd type> <seed...>) are free (length included).
   E2  the ECU may compare later key bytes with its own fresh seed, and a tester
       that answers the challenge sends different bytes in the two runs.  A
       sendKey request (27 <even type> <key...>) is *seed-determined* iff its
       bytes are the same in both runs ("the same request history") and either
       no seed has been issued so far in either run, or the latest seed issued
       is known in both runs (no requestSeed request since then went
       unanswered) and "key = that seed" has the same truth value in both runs.
       Only seed-determined sendKey steps must agree.  A sendKey step that is
       not seed-determined is unspecified; if the two runs then disagree, the
       rest of the history OF THAT ECU INSTANCE is unspecified too (its
       security state may differ for a reason the statement allows); the
       comparison resumes with the next freshly started ECU. *)

SA == 39         \* 0x27 SecurityAccess
SAPos == 103     \* 0x67

IsSeedRequest(q) == Len(q) >= 2 /\ q[1] = SA /\ (q[2] % 128) % 2 = 1
IsKeyRequest(q)  == Len(q) >= 2 /\ q[1] = SA /\ (q[2] % 128) % 2 = 0
IsSeedReply(st)  == /\ Len(st.q) >= 1 /\ st.q[1] = SA
                    /\ st.o = "r" /\ Len(st.r) >= 2 /\ st.r[1] = SAPos /\ st.r[2] % 2 = 1
SeedOf(st) == SubSeq(st.r, 3, Len(st.r))
KeyOf(q)   == SubSeq(q, 3, Len(q))

SameAnswer(a, b) == a.o = b.o /\ (a.o = "r" => a.r = b.r)

\* seed bookkeeping of one run: the latest seed this run was shown, unless a later
\* requestSeed request got no visible answer (then a seed may exist unseen).  A
\* requestSeed request that was visibly refused issues no new seed; whether the
\* earlier one stays valid is the ECU's business (both runs must agree on it).
NoSeed     == [t |-> "none"]
Hidden     == [t |-> "hidden"]
Seed(x)    == [t |-> "seed", v |-> x]
AfterStep(sd, st) ==
  IF IsSeedReply(st) THEN Seed(SeedOf(st))
  ELSE IF IsSeedRequest(st.q) /\ st.o = "n" THEN Hidden
  ELSE sd

SeedDetermined(sa, qa, sb, qb) ==
  /\ qa = qb
  /\ CASE sa.t = "none" /\ sb.t = "none" -> TRUE
       [] sa.t = "seed" /\ sb.t = "seed" -> (KeyOf(qa) = sa.v) = (KeyOf(qb) = sb.v)
       [] OTHER -> FALSE

(* Classification of step (a of run A, b of run B) given the bookkeeping before it:
     "ok"      the answers agree as the statement demands
     "unspec"  sendKey step that is not seed-determined, answers happen to agree
     "taint"   sendKey step that is not seed-determined, answers differ: the rest of this
               ECU instance's history is unspecified
     "D1/..", "D2/.."  the clause broken *)
StepClass(a, b, sa, sb) ==
  IF IsKeyRequest(a.q) /\ IsKeyRequest(b.q) /\ ~SeedDetermined(sa, a.q, sb, b.q)
  THEN IF SameAnswer(a, b) THEN "unspec" ELSE "taint"                            \* E2
  ELSE IF IsSeedReply(a) \/ IsSeedReply(b)
  THEN IF IsSeedReply(a) /\ IsSeedReply(b) /\ SubSeq(a.r, 1, 2) = SubSeq(b.r, 1, 2)
       THEN "ok"                                                                 \* E1
       ELSE "D2/seed-reply-differs-outside-the-seed"
  ELSE IF SameAnswer(a, b) THEN "ok" ELSE "D1/answer-differs"
=============================================================================
