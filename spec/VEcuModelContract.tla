------------------------- MODULE VEcuModelContract -------------------------
(* Property C16 -- "A virtual ECU is fully determined by its seed and arguments".

   Contract layer: operators only, written from the property statement.

   (a) Well-formedness of the model a random virtual ECU offers
       (clauses W0..W4, one per sentence part of the statement):
         "Mandatory sessions and services are always present,
          every offered session is reachable from the default session
          and can return to it."
   (b) Determinism as a Mealy contract (clauses M0, M1, D1, D2):
         "Two random virtual ECUs started with the same seed and the same
          arguments ... offer the identical session/service/sub-function model
          and give byte-identical answers to the same request history, the only
          exception being security-access seeds, which are deliberately fresh."

   Abstract model  M = [sess, svc, T, B]:
     sess  set of offered sessions
     svc   [sess -> set of offered service ids]
     T     set of pairs <<s, t>>: in session s the model announces a session
           change to t (DiagnosticSessionControl sub-function list), s, t \in sess
     B     further ways back to the default session the model announces (a
           session that offers ECUReset with at least one reset type: an ECU
           reset ends in the default session by ISO 14229-1).  Only used for
           "can return", never for "reachable from the default session".
*)
EXTENDS Naturals, Sequences, FiniteSets, TLC

DefaultSession == 1

----------------------------------------------------------------------------
(* ------------------------ (a) reachability ------------------------------ *)

\* one step of forward image
Succ(T, X) == X \cup { e[2] : e \in { f \in T : f[1] \in X } }

RECURSIVE ReachFrom(_, _)
\* least fixpoint: everything reachable from the set X along T (reflexive)
ReachFrom(T, X) == LET Y == Succ(T, X) IN IF Y = X THEN X ELSE ReachFrom(T, Y)

Inverse(T) == { <<e[2], e[1]>> : e \in T }

\* all nodes from which x can be reached (reflexive)
CanReach(T, x) == ReachFrom(Inverse(T), {x})

\* Declarative transitive closure (Warshall), the definition the statement's
\* "reachable" refers to; ReachFrom is the cheap way to evaluate it on big
\* extracted models.  MC_VEcuModel checks that both agree on every small graph.
NodesOf(R) == { e[1] : e \in R } \cup { e[2] : e \in R }
RECURSIVE Warshall(_, _)
Warshall(R, K) ==
  IF K = {} THEN R
  ELSE LET k == CHOOSE x \in K : TRUE
           P == Warshall(R, K \ {k})
           N == NodesOf(R)
       IN  P \cup { <<a, b>> \in N \X N : <<a, k>> \in P /\ <<k, b>> \in P }
TC(R) == Warshall(R, NodesOf(R))

Reachable(T, a, b) == a = b \/ <<a, b>> \in TC(T)

----------------------------------------------------------------------------
(* ------------------------ (a) well-formedness --------------------------- *)

W0_DefaultOffered(M)            == DefaultSession \in M.sess
W1_MandatorySessions(M, mandS)  == mandS \subseteq M.sess
W2_MandatoryServices(M, mandV)  == \A s \in M.sess : mandV \subseteq M.svc[s]
W3_ReachableFromDefault(M)      == M.sess \subseteq ReachFrom(M.T, {DefaultSession})
W4_CanReturnToDefault(M)        == M.sess \subseteq CanReach(M.T \cup M.B, DefaultSession)

WellFormed(M, mandS, mandV) ==
  /\ W0_DefaultOffered(M) /\ W1_MandatorySessions(M, mandS) /\ W2_MandatoryServices(M, mandV)
  /\ W3_ReachableFromDefault(M) /\ W4_CanReturnToDefault(M)

\* total verdict: "ok" or the label of the first clause broken
WFVerdict(M, mandS, mandV) ==
  IF ~W0_DefaultOffered(M)                THEN "W0/default-session-offered"
  ELSE IF ~W1_MandatorySessions(M, mandS) THEN "W1/mandatory-sessions-present"
  ELSE IF ~W2_MandatoryServices(M, mandV) THEN "W2/mandatory-services-present"
  ELSE IF ~W3_ReachableFromDefault(M)     THEN "W3/session-reachable-from-default"
  ELSE IF ~W4_CanReturnToDefault(M)       THEN "W4/session-can-return-to-default"
  ELSE "ok"

----------------------------------------------------------------------------
(* ------------------------ (b) determinism ------------------------------- *)
(* A transcript is a sequence of steps
      [q |-> request bytes, o |-> "r" | "n" | "x", r |-> reply bytes]
   o = "r": the ECU answered r; "n": it stayed silent; "x": the request handler
   raised (C14's business; here only "both runs do the same").

   The exception of the statement, stated precisely:
   E1  the bytes AFTER the first two of a positive response to a SecurityAccess
       requestSeed request (67 <odd type> <seed...>) are free (length included).
   E2  the ECU may compare later key bytes with its own fresh seed.  A sendKey
       request (27 <even type> <key...>) is *seed-determined* iff no seed has
       been issued so far in either run, or the latest seed issued is known in
       both runs (no requestSeed request since then went unanswered) and
       "key = that seed" has the same truth value in both runs.
       Only seed-determined sendKey steps must agree; a sendKey step that is
       not seed-determined is unspecified, and if the runs then disagree the
       rest of the history is unspecified too (the security state may differ
       for a reason the statement allows). *)

SA == 39         \* 0x27 SecurityAccess
SAPos == 103     \* 0x67

IsSeedRequest(q) == Len(q) >= 2 /\ q[1] = SA /\ (q[2] % 128) % 2 = 1
IsKeyRequest(q)  == Len(q) >= 2 /\ q[1] = SA /\ (q[2] % 128) % 2 = 0
IsSeedReply(st)  == /\ Len(st.q) >= 1 /\ st.q[1] = SA
                    /\ st.o = "r" /\ Len(st.r) >= 2 /\ st.r[1] = SAPos /\ st.r[2] % 2 = 1
SeedOf(st) == SubSeq(st.r, 3, Len(st.r))
KeyOf(q)   == SubSeq(q, 3, Len(q))

SameAnswer(a, b) == a.o = b.o /\ (a.o = "r" => a.r = b.r)

\* seed bookkeeping of one run: the latest seed this run was shown, unless a later
\* requestSeed request got no visible answer (then a seed may exist unseen).  A
\* requestSeed request that was visibly refused issues no new seed; whether the
\* earlier one stays valid is the ECU's business (both runs must agree on it).
NoSeed     == [t |-> "none"]
Hidden     == [t |-> "hidden"]
Seed(x)    == [t |-> "seed", v |-> x]
AfterStep(sd, st) ==
  IF IsSeedReply(st) THEN Seed(SeedOf(st))
  ELSE IF IsSeedRequest(st.q) /\ st.o = "n" THEN Hidden
  ELSE sd

SeedDetermined(sa, qa, sb, qb) ==
  CASE sa.t = "none" /\ sb.t = "none" -> TRUE
    [] sa.t = "seed" /\ sb.t = "seed" -> (KeyOf(qa) = sa.v) = (KeyOf(qb) = sb.v)
    [] OTHER -> FALSE

(* Compare run B with the reference run A from step i on.
   Result: [v |-> verdict label, at |-> first offending step (0 if ok), u |-> number of unspecified steps]. *)
RECURSIVE Compare(_, _, _, _, _, _)
Compare(A, B, i, sa, sb, u) ==
  IF i > Len(A) THEN [v |-> "ok", at |-> 0, u |-> u]
  ELSE
    LET a == A[i]
        b == B[i]
        next(u2) == Compare(A, B, i + 1, AfterStep(sa, a), AfterStep(sb, b), u2)
    IN
    IF IsKeyRequest(a.q) /\ IsKeyRequest(b.q) /\ ~SeedDetermined(sa, a.q, sb, b.q)
    THEN IF SameAnswer(a, b) THEN next(u + 1)
         ELSE [v |-> "ok", at |-> 0, u |-> u + (Len(A) - i + 1)]          \* E2: rest unspecified
    ELSE IF IsSeedReply(a) \/ IsSeedReply(b)
    THEN IF IsSeedReply(a) /\ IsSeedReply(b) /\ SubSeq(a.r, 1, 2) = SubSeq(b.r, 1, 2)
         THEN next(u)                                                      \* E1
         ELSE [v |-> "D2/seed-reply-differs-outside-the-seed", at |-> i, u |-> u]
    ELSE IF SameAnswer(a, b) THEN next(u)
         ELSE [v |-> "D1/answer-differs", at |-> i, u |-> u]

Determinism(A, B) ==
  IF Len(A) # Len(B) THEN [v |-> "H0/history-length-differs", at |-> 0, u |-> 0]
  ELSE Compare(A, B, 1, NoSeed, NoSeed, 0)
=============================================================================
