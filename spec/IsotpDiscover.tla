--------------------------- MODULE IsotpDiscover ---------------------------
(* Growth item X14, design layer: the ISO-TP discovery scanner (src/gallia/commands/discover/uds/isotp.py) shaped like
   the code: sniff the idle traffic, set the deny filter, then per id: sleep, (drop what is waiting in the receive
   queue), send the single frame, wait for the first answer, keep reading until the bus has been quiet for a while
   ("flush"), report.  One action per await point.  Time is a counter in ms; the bus is a time-ordered list of frames
   under way (`wire`) and the scanner's receive queue (`queue`).

   Environment: every assignment of an ECU behaviour to every swept id (beh), normal / extended addressing (ext), a
   cyclic background node present or not (bg).

   Deviation constants (negative controls; all FALSE = the design that satisfies the contract):
     Dev_F1_FixedDeadline      the wait for the first answer is 100 ms whatever --timeout says        (tree as found)
     Dev_F2_SameIdIsSweptValue "the same CAN id answered" compares with the swept value, not with the CAN id the
                               probe was sent on (differs with --extended-addr)                        (tree as found)
     Dev_F3_NoDrain            frames waiting in the receive queue are not dropped before a probe      (tree as found)
     Dev_NoFilter              the deny filter for the idle traffic is not in force
     Dev_ReportBroadcast       a probe answered from two CAN ids is reported as an endpoint
     Dev_SkipLast              the sweep stops one id short of --stop
     Dev_NoPadding             --padding is ignored when the frame is built
     Dev_ReportPerFrame        one report per frame received in the flush loop                                       *)
EXTENDS IsotpDiscoverContract, TLC

CONSTANTS Ids, BehNames, PadV, Export,
          Dev_F1_FixedDeadline, Dev_F2_SameIdIsSweptValue, Dev_F3_NoDrain, Dev_NoFilter, Dev_ReportBroadcast,
          Dev_SkipLast, Dev_NoPadding, Dev_ReportPerFrame

Tester  == 1777     \* 0x6F1
BgId    == 256      \* 0x100: the cyclic node
Timeout == 500
Gap     == 100      \* quiet time that ends the flush loop (the design's choice; the contract does not know it)
Sleep   == 10
SniffT  == 1000
Pdu     == <<62, 0>>
MinI == CHOOSE a \in Ids : \A b \in Ids : a <= b
MaxI == CHOOSE a \in Ids : \A b \in Ids : a >= b
Rx(id)  == id + 8
Rx2(id) == id + 24

VARIABLES
  beh, ext, bg,   \* environment
  now,            \* ms
  pc,             \* "sniff" | "pick" | "drain" | "send" | "recv1" | "flush" | "report" | "done"
  todo, cur,      \* ids still to probe, id being probed
  wire,           \* frames under way, ordered by arrival time: [a, c, t, b0]
  queue,          \* the scanner's receive queue
  idle,           \* deny list
  probes,         \* observation (shape of the contract)
  first, bc,      \* main(): addr, is_broadcast
  found, repFile, repDb
vars == <<beh, ext, bg, now, pc, todo, cur, wire, queue, idle, probes, first, bc, found, repFile, repDb>>

Cfg == [start |-> MinI, stop |-> MaxI, ext |-> ext, tester |-> Tester, pad |-> PadV, pdu |-> Pdu, timeout |-> Timeout,
        xid |-> FALSE, fd |-> FALSE, iface |-> "vcan0", query |-> FALSE, did |-> 61847, art |-> TRUE, db |-> TRUE]
O0 == [cfg |-> Cfg]
CanOf(id) == IF ext THEN Tester ELSE id
B0 == IF ext THEN Tester % 256 ELSE 2

\* frames an ECU behaviour sends in answer to the probe of `id`: <<CAN id, ms after the probe>>
Frames(id, b) ==
  CASE b = "silent"  -> <<>>
    [] b \in {"sf", "neg", "ff", "fc"} -> << <<Rx(id), 10>> >>
    [] b = "two"     -> << <<Rx(id), 10>>, <<Rx(id), 20>> >>
    [] b = "bcast"   -> << <<Rx(id), 10>>, <<Rx2(id), 15>> >>
    [] b = "slow"    -> << <<Rx(id), 300>> >>
    [] b = "late"    -> << <<Rx(id), 800>> >>
    [] b = "echo"    -> << <<CanOf(id), 5>> >>
    [] b = "echo_sf" -> << <<CanOf(id), 5>>, <<Rx(id), 10>> >>
    [] b = "idleans" -> << <<BgId, 10>> >>
    [] b = "gap"     -> << <<Rx(id), 10>>, <<Rx(id), 115>> >>
    [] b = "lowid"   -> << <<id, 10>> >>

RECURSIVE Asc(_, _), Insert(_, _), InsertAll(_, _)
Asc(a, b) == IF a > b THEN <<>> ELSE <<a>> \o Asc(a + 1, b)
Insert(s, f) == IF s = <<>> THEN <<f>>
                ELSE IF Head(s).t <= f.t THEN <<Head(s)>> \o Insert(Tail(s), f) ELSE <<f>> \o s
InsertAll(s, fs) == IF fs = <<>> THEN s ELSE InsertAll(Insert(s, Head(fs)), Tail(fs))

Init ==
  /\ beh \in [Ids -> BehNames] /\ ext \in BOOLEAN /\ bg \in BOOLEAN
  /\ now = 0 /\ pc = "sniff" /\ todo = <<>> /\ cur = -1 /\ wire = <<>> /\ queue = <<>> /\ idle = {}
  /\ probes = <<>> /\ first = -1 /\ bc = FALSE /\ found = <<>> /\ repFile = <<>> /\ repDb = <<>>

\* ------------------------------------------------------------------ time: frames due by `t` reach the receive queue
Due(t)  == SelectSeq(wire, LAMBDA f : f.t <= t)
Rest(t) == SelectSeq(wire, LAMBDA f : f.t > t)
N == Len(probes)
DlRec(f) == [a |-> f.a, dt |-> f.t - probes[N].t0, c |-> f.c]
RdRec(f, at) == [a |-> f.a, c |-> f.c, b0 |-> f.b0, tdl |-> f.t - probes[N].t0, w |-> (f.t > now)]
SeqMap(s, M(_)) == [i \in 1..Len(s) |-> M(s[i])]
\* advance to time t, then (if rd) take the head of the queue
Step(t, rd) ==
  LET q2 == queue \o Due(t) IN
  /\ now' = t /\ wire' = Rest(t)
  /\ queue' = IF rd /\ q2 # <<>> THEN Tail(q2) ELSE q2
  /\ probes' = IF N = 0 THEN probes
               ELSE [probes EXCEPT ![N].dl = @ \o SeqMap(Due(t), DlRec),
                                   ![N].rd = IF rd /\ q2 # <<>> THEN Append(@, RdRec(Head(q2), t)) ELSE @]
\* a receive with a deadline: the time at which it returns and whether it returns a frame
RecvT(d)  == IF queue # <<>> THEN now ELSE IF wire # <<>> /\ Head(wire).t <= now + d THEN Head(wire).t ELSE now + d
RecvGot(d) == queue # <<>> \/ (wire # <<>> /\ Head(wire).t <= now + d)
RecvFrame(d) == IF queue # <<>> THEN Head(queue) ELSE Head(wire)

\* ------------------------------------------------------------------ the scanner
\* get_idle_traffic + set_filter
Sniff ==
  /\ pc = "sniff" /\ pc' = "pick"
  /\ idle' = IF bg THEN {BgId} ELSE {}
  /\ now' = SniffT
  /\ todo' = Asc(MinI, IF Dev_SkipLast THEN MaxI - 1 ELSE MaxI)
  /\ UNCHANGED <<beh, ext, bg, cur, wire, queue, probes, first, bc, found, repFile, repDb>>

\* for ID in range(start, stop + 1): await asyncio.sleep(sleep)
Pick ==
  /\ pc = "pick"
  /\ IF todo = <<>>
     THEN pc' = "report" /\ UNCHANGED <<now, todo, cur, wire, queue, probes>>
     ELSE /\ pc' = "drain" /\ cur' = Head(todo) /\ todo' = Tail(todo)
          /\ Step(now + Sleep, FALSE)
  /\ UNCHANGED <<beh, ext, bg, idle, first, bc, found, repFile, repDb>>

\* frames that arrived meanwhile cannot be answers to the next probe: read and drop them
Drain ==
  /\ pc = "drain"
  /\ IF queue = <<>> \/ Dev_F3_NoDrain
     THEN pc' = "send" /\ UNCHANGED <<now, wire, queue, probes>>
     ELSE pc' = "drain" /\ Step(now, TRUE)
  /\ UNCHANGED <<beh, ext, bg, todo, cur, idle, first, bc, found, repFile, repDb>>

\* transport.sendto(frame, dst): the ECUs addressed answer as their behaviour says; the deny filter hides idle ids
Send ==
  /\ pc = "send" /\ pc' = "recv1"
  /\ LET fr   == Frames(cur, beh[cur])
         bgfr == IF bg /\ Dev_NoFilter THEN << <<BgId, 5>> >> ELSE <<>>
         vis(x) == Dev_NoFilter \/ x[1] \notin idle
         data == IF Dev_NoPadding THEN ProbeData([cfg |-> [Cfg EXCEPT !.pad = -1]], cur) ELSE ProbeData(O0, cur)
         rec  == [ok |-> TRUE, can |-> CanOf(cur), eff |-> FALSE, rtr |-> FALSE, fd |-> FALSE, d |-> data,
                  pend |-> Len(queue), t0 |-> now,
                  an |-> SeqMap(fr, LAMBDA x : [a |-> x[1], dt |-> x[2], vis |-> vis(x)]),
                  dl |-> <<>>, rd |-> <<>>]
         mine == SeqMap(SelectSeq(fr, vis), LAMBDA x : [a |-> x[1], c |-> N + 1, t |-> now + x[2], b0 |-> B0])
         other == SeqMap(bgfr, LAMBDA x : [a |-> x[1], c |-> 0, t |-> now + x[2], b0 |-> 0])
     IN /\ probes' = Append(probes, rec)
        /\ wire' = InsertAll(wire, mine \o other)
  /\ first' = -1 /\ bc' = FALSE
  /\ UNCHANGED <<beh, ext, bg, now, todo, cur, queue, idle, found, repFile, repDb>>

\* addr, payload = await transport.recvfrom(timeout)
Recv1 ==
  /\ pc = "recv1"
  /\ LET d    == IF Dev_F1_FixedDeadline THEN 100 ELSE Timeout
         same == IF Dev_F2_SameIdIsSweptValue THEN cur ELSE CanOf(cur)
     IN IF RecvGot(d)
        THEN /\ Step(RecvT(d), TRUE)
             /\ IF RecvFrame(d).a = same
                THEN pc' = "pick" /\ UNCHANGED first          \* "The same CAN ID answered. Skipping"
                ELSE pc' = "flush" /\ first' = RecvFrame(d).a
        ELSE /\ Step(RecvT(d), FALSE) /\ pc' = "pick" /\ UNCHANGED first
  /\ UNCHANGED <<beh, ext, bg, todo, cur, idle, bc, found, repFile, repDb>>

\* while True: new_addr, _ = await transport.recvfrom(gap)
Flush ==
  /\ pc = "flush"
  /\ IF RecvGot(Gap)
     THEN /\ Step(RecvT(Gap), TRUE) /\ pc' = "flush"
          /\ bc' = (bc \/ RecvFrame(Gap).a # first)
          /\ found' = IF Dev_ReportPerFrame THEN Append(found, [id |-> cur, dst |-> first]) ELSE found
     ELSE /\ Step(RecvT(Gap), FALSE) /\ pc' = "pick" /\ UNCHANGED bc
          /\ found' = IF ~bc \/ Dev_ReportBroadcast THEN Append(found, [id |-> cur, dst |-> first]) ELSE found
  /\ UNCHANGED <<beh, ext, bg, todo, cur, idle, first, repFile, repDb>>

Uri(p) == [ok |-> TRUE, host |-> "vcan0", src |-> IF ext THEN Tester ELSE p.id, dst |-> p.dst, xid |-> FALSE, fd |-> FALSE,
           ea |-> IF ext THEN p.id ELSE -1, rea |-> IF ext THEN Tester % 256 ELSE -1, txpad |-> PadV, rxpad |-> PadV]
\* "finished; found N UDS endpoints", ECUs.txt, database
Report ==
  /\ pc = "report" /\ pc' = "done"
  /\ repFile' = SeqMap(found, Uri) /\ repDb' = SeqMap(found, Uri)
  /\ Export => PrintT(<<"C", beh, ext, bg, found>>)
  /\ UNCHANGED <<beh, ext, bg, now, todo, cur, wire, queue, idle, probes, first, bc, found>>

Next == Sniff \/ Pick \/ Drain \/ Send \/ Recv1 \/ Flush \/ Report
Spec == Init /\ [][Next]_vars

Obs ==
  [kind |-> "scan", cfg |-> Cfg, idle |-> idle, seen |-> idle, probes |-> probes, file |-> repFile, db |-> repDb,
   hasFile |-> TRUE, q |-> <<>>, done |-> IF pc = "done" THEN "ok" ELSE "running"]

Done == pc = "done"
Inv_P1_EveryIdProbed   == Done => P1_EveryIdProbed(Obs)
Inv_P2_Configured      == P2_OnlyConfiguredFrames(Obs)
Inv_P3_Ascending       == P3_Ascending(Obs)
Inv_F1_Sound           == Done => F1_Sound(Obs)
Inv_I1_Idle            == Done => I1_IdleNeverReported(Obs)
Inv_F3_NoStale         == Done => F3_NoStaleAnswer(Obs)
Inv_F2_Complete        == Done => F2_Complete(Obs)
Inv_B1_Broadcast       == Done => B1_BroadcastNotAnEndpoint(Obs)
Inv_E1_Once            == Done => E1_ExactlyOnce(Obs)
Inv_U1_Uris            == Done => U1_Uris(Obs)
Inv_Verdict            == Done => Verdict(Obs) = "ok"
\* T0: no state short of the end lacks a successor
Inv_T0_Progress        == pc # "done" => ENABLED Next
=============================================================================
