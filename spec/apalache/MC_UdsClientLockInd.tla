------------------------- MODULE MC_UdsClientLockInd -------------------------
EXTENDS Naturals, Sequences, FiniteSets, Apalache

\* @type: Set(Str);
Callers == {"c1", "c2", "c3", "c4", "c5", "c6"}

VARIABLES
  \* @type: Str -> Str;
  pc,
  \* @type: Str;
  holder,
  \* @type: Seq(Str);
  waiters,
  \* @type: Str;
  cur

Dev_ReleaseInPending == FALSE

INSTANCE UdsClientLockInd

\* arbitrary state satisfying the inductive invariant
IndInit ==
  /\ pc = Gen(6)
  /\ holder = Gen(1)
  /\ waiters = Gen(6)
  /\ cur = Gen(1)
  /\ IndInv
=============================================================================
