--------------------------- MODULE MC_DbWriterInd ---------------------------
EXTENDS Naturals, Sequences, Apalache

CONSTANTS
  \* @type: Int;
  N,
  \* @type: Int;
  Faults

Dev_RequeueAtTail == FALSE

VARIABLES
  \* @type: Int;
  nlogged,
  \* @type: Seq(Int);
  queue,
  \* @type: Seq(Int);
  rows,
  \* @type: Int;
  budget,
  \* @type: Bool;
  closing,
  \* @type: Bool;
  ended

INSTANCE DbWriterInd

\* N up to 8 exchanges (the bound of the symbolic sequences), ANY number of transient failures
ConstInit == N \in 0..8 /\ Faults \in Nat

IndInit ==
  /\ nlogged = Gen(1) /\ budget = Gen(1) /\ closing = Gen(1) /\ ended = Gen(1)
  /\ queue = Gen(8) /\ rows = Gen(8)
  /\ IndInv
=============================================================================
