----------------------------- MODULE VEcuModel -----------------------------
(* Design layer for C16(a): the GENERATOR of the random virtual ECU,
   gallia.services.uds.server.RandomUDSServer.randomize(), as a state machine
   over ALL outcomes of its coin flips.

       level = 0; level_sessions = {1}; transitions[1] = {1}
       while level_sessions:                                   -- LevelBegin
           available = sessions with transitions
           for session in level_sessions:                      -- Flip (one per session)
               tr = [c in mandatory+optional if coin()]
               transitions[session] |= tr; next_level |= tr
           for session in next_level: transitions[session] |= {1}   -- AddDefault
           level_sessions = next_level - available; level += 1
       for m in mandatory_sessions:                            -- Attach (one per mandatory session)
           if not transitions[m]:
               transitions[choice(available)] |= {m}; transitions[m] = {1}
       for every session with transitions:                     -- Services
           offered services = mandatory + coin-flipped optional ones;
           DiagnosticSessionControl sub-functions = transitions[session]

   Probabilities are abstracted away: every coin may fall either way (0 < p < 1);
   p = 0 / p = 1 give subsets of these behaviours.

   Services are abstracted to the two that matter for the session graph:
   DiagnosticSessionControl (16) and ECUReset (17).

   The contract (VEcuModelContract!WellFormed) is checked on the final model of
   every behaviour.  Deviation constants (negative controls / findings):
     Dev_NoBackEdge     the "add default" loop is missing
     Dev_NoAttach       mandatory sessions are not attached
     Dev_AttachNoEdge   a mandatory session gets its own entry but no incoming edge
     Dev_DscNotForced   AS FOUND in the pinned tree: DiagnosticSessionControl is
                        offered in a session only if it is a mandatory service or
                        its optional coin came up; harmless while DscMandatory,
                        breaks W3/W4 when the user removes it from the mandatory list.
*)
EXTENDS VEcuModelContract

CONSTANTS
  Cand,             \* set: mandatory_sessions + optional_sessions (the candidates of every flip)
  MandSeq,          \* sequence: mandatory_sessions in argument order
  DscMandatory,     \* BOOLEAN: DiagnosticSessionControl \in mandatory_services
  FlipReset,        \* BOOLEAN: ECUReset is an optional service (coin per session), else never offered
  Export,           \* BOOLEAN: print every final transition graph (spec -> code)
  Dev_NoBackEdge, Dev_NoAttach, Dev_AttachNoEdge, Dev_DscNotForced

DSC == 16
RST == 17

RangeOf(f) == { f[i] : i \in DOMAIN f }
All == Cand \cup {DefaultSession} \cup RangeOf(MandSeq)
MandSvc == IF DscMandatory THEN {DSC} ELSE {}

VARIABLES pc, level, cur, todo, nxt, avail, trans, mi, dsc, rst
vars == <<pc, level, cur, todo, nxt, avail, trans, mi, dsc, rst>>

WithTrans == { s \in All : trans[s] # {} }
Min(S) == CHOOSE x \in S : \A y \in S : x <= y

Init ==
  /\ pc = "level" /\ level = 0 /\ cur = {DefaultSession}
  /\ todo = {} /\ nxt = {} /\ avail = {}
  /\ trans = [s \in All |-> IF s = DefaultSession THEN {DefaultSession} ELSE {}]
  /\ mi = 1
  /\ dsc = [s \in All |-> FALSE] /\ rst = [s \in All |-> FALSE]

\* while len(level_sessions) > 0: ... available_sessions = [...]
LevelBegin ==
  /\ pc = "level" /\ cur # {}
  /\ avail' = WithTrans /\ todo' = cur /\ nxt' = {}
  /\ pc' = "flip"
  /\ UNCHANGED <<level, cur, trans, mi, dsc, rst>>

LoopExit ==
  /\ pc = "level" /\ cur = {}
  /\ pc' = "attach"
  /\ UNCHANGED <<level, cur, todo, nxt, avail, trans, mi, dsc, rst>>

\* one iteration of `for session in level_sessions` with all |Cand| coins at once.
\* The flips of different sessions commute, so a fixed order (ascending) loses nothing.
Flip ==
  /\ pc = "flip" /\ todo # {}
  /\ LET s == Min(todo) IN
     \E tr \in SUBSET Cand :
       /\ trans' = [trans EXCEPT ![s] = @ \cup tr]
       /\ nxt' = nxt \cup tr
       /\ todo' = todo \ {s}
  /\ UNCHANGED <<pc, level, cur, avail, mi, dsc, rst>>

\* for session in next_level_sessions: transitions[session].add(default)
AddDefault ==
  /\ pc = "flip" /\ todo = {}
  /\ trans' = [s \in All |-> IF s \in nxt /\ ~Dev_NoBackEdge THEN trans[s] \cup {DefaultSession} ELSE trans[s]]
  /\ cur' = nxt \ avail
  /\ level' = level + 1
  /\ pc' = "level"
  /\ UNCHANGED <<todo, nxt, avail, mi, dsc, rst>>

\* for session in mandatory_sessions: attach if it has no transitions yet
Attach ==
  /\ pc = "attach" /\ mi <= Len(MandSeq)
  /\ LET m == MandSeq[mi] IN
     IF trans[m] = {} /\ ~Dev_NoAttach
     THEN \E a \in WithTrans :
            trans' = [s \in All |-> IF s = m THEN {DefaultSession}
                                   ELSE IF s = a /\ ~Dev_AttachNoEdge THEN trans[s] \cup {m}
                                   ELSE trans[s]]
     ELSE UNCHANGED trans
  /\ mi' = mi + 1
  /\ UNCHANGED <<pc, level, cur, todo, nxt, avail, dsc, rst>>

AttachEnd ==
  /\ pc = "attach" /\ mi > Len(MandSeq)
  /\ pc' = "services"
  /\ (Export => PrintT(<<"G", [s \in All |-> trans[s]]>>))
  /\ UNCHANGED <<level, cur, todo, nxt, avail, trans, mi, dsc, rst>>

\* per offered session: mandatory services + coin-flipped optional services
Services ==
  /\ pc = "services"
  /\ \E d \in [WithTrans -> BOOLEAN], r \in [WithTrans -> BOOLEAN] :
       /\ \A s \in WithTrans : DscMandatory => d[s]
       /\ \A s \in WithTrans : ~Dev_DscNotForced => d[s]
       /\ \A s \in WithTrans : ~FlipReset => ~r[s]
       /\ dsc' = [s \in All |-> IF s \in WithTrans THEN d[s] ELSE FALSE]
       /\ rst' = [s \in All |-> IF s \in WithTrans THEN r[s] ELSE FALSE]
  /\ pc' = "done"
  /\ UNCHANGED <<level, cur, todo, nxt, avail, trans, mi>>

Next == LevelBegin \/ LoopExit \/ Flip \/ AddDefault \/ Attach \/ AttachEnd \/ Services
Spec == Init /\ [][Next]_vars /\ WF_vars(Next)

----------------------------------------------------------------------------
\* the model the finished generator offers (what `server.services` holds)
Offered == WithTrans
Model ==
  [sess |-> Offered,
   svc  |-> [s \in Offered |-> (IF dsc[s] THEN {DSC} ELSE {}) \cup (IF rst[s] THEN {RST} ELSE {})],
   T    |-> { e \in Offered \X Offered : dsc[e[1]] /\ e[2] \in trans[e[1]] },
   B    |-> { <<s, DefaultSession>> : s \in { x \in Offered : rst[x] } }]

MandSet == RangeOf(MandSeq)

TypeOK ==
  /\ pc \in {"level", "flip", "attach", "services", "done"}
  /\ cur \subseteq All /\ todo \subseteq All /\ nxt \subseteq All /\ avail \subseteq All
  /\ trans \in [All -> SUBSET All]
  /\ level \in 0..(Cardinality(All) + 1)          \* every level consumes at least one new session
  /\ mi \in 1..(Len(MandSeq) + 1)

\* contract clauses on the finished model, one INVARIANT each
Inv_W0 == pc = "done" => W0_DefaultOffered(Model)
Inv_W1 == pc = "done" => W1_MandatorySessions(Model, MandSet)
Inv_W2 == pc = "done" => W2_MandatoryServices(Model, MandSvc)
Inv_W3 == pc = "done" => W3_ReachableFromDefault(Model)
Inv_W4 == pc = "done" => W4_CanReturnToDefault(Model)
Inv_Verdict == pc = "done" => WFVerdict(Model, MandSet, MandSvc) = "ok"

\* the loop invariant that makes W3/W4 true (graph of raw transitions, before services):
\* every session that has transitions is reachable from 1 and has an edge path back to 1
RawT == { e \in All \X All : e[2] \in trans[e[1]] /\ trans[e[2]] # {} }
Inv_LoopGraph ==
  (pc \in {"level", "attach", "services"} /\ ~Dev_NoBackEdge /\ ~Dev_AttachNoEdge)
    => /\ WithTrans \subseteq ReachFrom(RawT, {DefaultSession})
       /\ WithTrans \subseteq CanReach(RawT, DefaultSession)

\* the fixpoint used on big extracted models agrees with the declarative closure
Inv_ClosureAgrees ==
  pc \in {"level", "done"} =>
    \A s \in All : (s \in ReachFrom(RawT, {DefaultSession})) = Reachable(RawT, DefaultSession, s)

Terminates == <>(pc = "done")
=============================================================================
