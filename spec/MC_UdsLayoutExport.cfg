SPECIFICATION Spec
CONSTANTS
  Side = "req"
  KindSel <- KS1
  MaxGroups = 3
  Dev_S1_CdtcsNoSuppressBit = FALSE
  Dev_S2_ClearDddiInverted = FALSE
  Dev_S3_Type6Pack = FALSE
  Dev_S4_ExtDataWidths = FALSE
  Dev_S5_WmbaTrailing = FALSE
  Dev_S6_DtcDictCollapse = FALSE
  Dev_S7_ClearDddiLen3 = FALSE
INVARIANT TypeOK
INVARIANT L0_TablesRoundTrip
INVARIANT Q1_Constructible
INVARIANT Q1_Layout
INVARIANT Q3_NeverRaw
INVARIANT Q3_SameFields
INVARIANT Q4_Refused
INVARIANT R1_Fields
INVARIANT R2_Reencode
INVARIANT R3_LengthRule

CHECK_DEADLOCK FALSE
