---- MODULE MC_DbWriter ----
EXTENDS DbWriter
====
