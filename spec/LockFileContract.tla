------------------------- MODULE LockFileContract -------------------------
(* Growth item X22, contract layer: `--lock-file PATH` serialises concurrent gallia runs
   (gallia.command.base: BaseCommandConfig.lock_file, FlockMixin._open_lockfile / _aquire_flock / _release_flock,
   their place in BaseCommand.entry_point()).

   Sources of the clauses (docs/*.md do not mention the option; everything below is help text, POSIX/Linux flock
   semantics named by the help text, or documented intent visible in the code)
     L1  help text of --lock-file: "path to file used for a posix lock" + entry_point(): the lock is taken FIRST
         (before artifacts dir, pre-hook, db, setup/main/teardown, META.json) and released LAST (after the
         post-hook).  An exclusive flock(2) on one file is held by at most one open file description: the guarded
         sections of two runs that name the same file (by any spelling of its path: the lock belongs to the inode)
         never overlap, and while a run is inside its section nobody else can take the lock.
     L2  comment in _aquire_flock: "First do a non blocking flock. If waiting is required, log a message and do a
         blocking wait afterwards." + logger.notice("waiting for flock…"): a run that finds the lock taken SAYS
         that it waits (a log record shown on the console by default, i.e. level >= INFO -- help text of --verbose:
         "0: INFO" -- that a run which finds the lock free does not emit; the text is not part of the contract).
     L3  "blocking wait" + flock(2): the waiter proceeds when the lock becomes free -- the holder has left its
         section by returning from entry_point() or by dying (the kernel releases the flock of a dead process).
     L4  comment in entry_point(): "`asyncio.run()` delivers Ctrl-C as a cancellation of the main task", handler
         `except (KeyboardInterrupt, asyncio.CancelledError): exit_code = 128 + signal.SIGINT`, commit 8b1ca34
         ("Ctrl-C ... the post-hook and the unlock were skipped, while the process exited with 130"), and
         `await asyncio.to_thread(...)` in _aquire_flock (the wait is deliberately not done on the event loop):
         Ctrl-C ends a run, also one that is still waiting for the lock: it ends with the interrupt status
         (130 or death by SIGINT) WITHOUT the holder having to release the lock first, it never enters its
         guarded section, and the others keep / get the lock as if it had not been there.
     L5  entry_point() ends with `if self._lock_file_fd is not None: self._release_flock()` before `return
         exit_code`, on every path that returns an exit code (normal end, exception, sys.exit, Ctrl-C): once
         entry_point() has RETURNED the lock is free although the process may live on
         (docs/plugins.md: `sys.exit(HelloWorld(parser).entry_point(...))`; `gallia script rerun` runs a second
         entry_point() inside its own run).
     L6  posix lock on a FILE: runs with different lock files (or none) do not wait for each other.
     L7  handler in entry_point(): `except OSError as e: logger.critical(f"Unable to lock {p}: {e}");
         return exitcodes.OSFILE` (exitcodes.py: "Some system file ... does not exist, cannot be opened"):
         a lock file that cannot be created/opened is reported (log record of level >= WARNING) and the run
         ends, without entering its guarded section, by entry_point() returning a non-zero exit code.
   Where these sources are silent every outcome is accepted: order in which several waiters are admitted, exit
   codes of the runs (C15's business), what a run logs otherwise, Ctrl-C inside hooks.

   One recorded execution = process table `procs` (procs[p].g: lock group > 0 = runs naming the same file;
   0 = no --lock-file; -1 = a path that cannot be opened) + the sequence `ev` of uniform records
   [k, p, ph, n, m, t] in the order of the shared O_APPEND event file (t = CLOCK_MONOTONIC microseconds):
     start/go/int/kill/skip  driver: action on run p (written before the signal / token is sent)
     try                     p calls entry_point()
     log  n=level m=text id  p: log record of gallia
     B / E  ph=phase         p: begin / end of a phase INSIDE the guarded section (pre, setup, main, teardown, post)
     at   ph=phase           p rests at a checkpoint
     ret  ph="ret" n=rc | ph="raised"   entry_point() returned rc / an exception left asyncio.run()
     blocked ph=how          driver: p was seen waiting for the lock
     probe m=group n=free    driver: non-blocking flock attempt on the lock file of group m (1 = it got the lock)
     exit n=status           driver: wait status of p (negative: killed by that signal)
     stuck ph=why n          driver: a real-time deadline expired (why = not-entered: n = 1 / 0 the driver's own
                             non-blocking attempt on the lock file succeeded / failed at that moment)
   `baseline` = ids of the log texts a run emits before its section when it finds the lock free.                  *)
EXTENDS Integers, Sequences, FiniteSets, TLC

Idx(ev) == 1..Len(ev)
P(procs) == 1..Len(procs)
Min(S) == CHOOSE x \in S : \A y \in S : x <= y
Max(S) == CHOOSE x \in S : \A y \in S : x >= y

SecIdx(ev, p) == {i \in Idx(ev) : ev[i].p = p /\ ev[i].k \in {"B", "E"}}
Entered(ev, p) == SecIdx(ev, p) # {}
First(ev, p) == Min(SecIdx(ev, p))
Of(ev, p, k) == {i \in Idx(ev) : ev[i].p = p /\ ev[i].k = k}
\* a run that is killed inside its section (before entry_point() returned) is inside up to the kill record
KillEnd(ev, p) == {i \in Of(ev, p, "kill") : First(ev, p) < i /\ ~\E j \in Of(ev, p, "ret") : j < i}
Last(ev, p) == Max(SecIdx(ev, p) \cup KillEnd(ev, p))
SameLock(procs, p, q) == p # q /\ procs[p].g > 0 /\ procs[p].g = procs[q].g
\* p is inside its guarded section at position i of the record file
Inside(ev, p, i) == Entered(ev, p) /\ First(ev, p) < i /\ i < Last(ev, p)
AnyInside(procs, ev, p, i) == \E q \in P(procs) : SameLock(procs, p, q) /\ Inside(ev, q, i)

\* ---- L1
OverlapIdx(procs, ev) ==
  \E p, q \in P(procs) : /\ SameLock(procs, p, q) /\ Entered(ev, p) /\ Entered(ev, q)
                         /\ First(ev, p) < Last(ev, q) /\ First(ev, q) < Last(ev, p)
OverlapTime(procs, ev) ==
  \E p, q \in P(procs) : /\ SameLock(procs, p, q) /\ Entered(ev, p) /\ Entered(ev, q)
                         /\ ev[First(ev, p)].t < ev[Last(ev, q)].t /\ ev[First(ev, q)].t < ev[Last(ev, p)].t
ProbeFree(procs, ev) ==
  \E i \in Idx(ev) : /\ ev[i].k = "probe" /\ ev[i].n = 1
                     /\ \E p \in P(procs) : procs[p].g = ev[i].m /\ Inside(ev, p, i)

\* ---- L2
HadToWait(procs, ev, p) == \E i \in Of(ev, p, "try") : AnyInside(procs, ev, p, i)
Said(ev, p, baseline) ==
  \E i \in Of(ev, p, "log") : /\ \E j \in Of(ev, p, "try") : j < i
                              /\ (Entered(ev, p) => i < First(ev, p))
                              /\ ev[i].n >= 20 /\ ev[i].m \notin baseline
Silent(procs, ev, baseline) == \E p \in P(procs) : HadToWait(procs, ev, p) /\ ~Said(ev, p, baseline)

\* ---- L4: p was interrupted before it entered its section
IntWaiting(ev, p) == \E i \in Of(ev, p, "int") : ~(Entered(ev, p) /\ First(ev, p) < i)
IntEntered(procs, ev) == \E p \in P(procs) : IntWaiting(ev, p) /\ Entered(ev, p)
IntHangs(procs, ev) == \E p \in P(procs) : IntWaiting(ev, p) /\ \E i \in Of(ev, p, "stuck") : ev[i].ph \in {"int-not-ended", "int-not-ended-2"}
IntStatus(procs, ev) == \E p \in P(procs) : IntWaiting(ev, p) /\ Of(ev, p, "kill") = {}
                                            /\ \E i \in Of(ev, p, "exit") : ev[i].n \notin {130, -2}

\* ---- L3 / L5 / L6: a run that could have entered did not (within the driver's deadline / at all)
Lingering(ev, q, i) == (\E j \in Of(ev, q, "ret") : j < i) /\ \A j \in Of(ev, q, "exit") : i < j
NotEntered(ev, i) == ev[i].k = "stuck" /\ ev[i].ph = "not-entered"
StuckFree(procs, ev, i) == NotEntered(ev, i) /\ procs[ev[i].p].g >= 0 /\ ~AnyInside(procs, ev, ev[i].p, i)
\* the driver tried the lock itself when the deadline expired: ev[i].n = 0 the lock was TAKEN (by nobody inside a section)
StillHeld(procs, ev, i) == ev[i].n = 0 /\ \E q \in P(procs) : SameLock(procs, ev[i].p, q) /\ Lingering(ev, q, i)
HeldAfterReturn(procs, ev) == \E i \in Idx(ev) : StuckFree(procs, ev, i) /\ StillHeld(procs, ev, i)
HeldUpByOtherFile(procs, ev) ==
  \E i \in Idx(ev) : /\ StuckFree(procs, ev, i) /\ ~StillHeld(procs, ev, i)
                     /\ \E q \in P(procs) : q # ev[i].p /\ ~SameLock(procs, ev[i].p, q) /\ Inside(ev, q, i)
NotAdmitted(procs, ev) == \E i \in Idx(ev) : StuckFree(procs, ev, i)
\* only meaningful for a COMPLETE recording (every run was driven to its end)
NeverAdmitted(procs, ev) ==
  \E p \in P(procs) : /\ procs[p].g >= 0 /\ Of(ev, p, "try") # {} /\ ~Entered(ev, p)
                       /\ Of(ev, p, "int") = {} /\ Of(ev, p, "kill") = {}

\* ---- L7
BadPath(procs) == {p \in P(procs) : procs[p].g = -1}
BadEntered(procs, ev) == \E p \in BadPath(procs) : Entered(ev, p)
BadNoError(procs, ev) ==
  \E p \in BadPath(procs) : /\ Of(ev, p, "try") # {} /\ Of(ev, p, "kill") = {} /\ Of(ev, p, "int") = {}
                            /\ ~\E i \in Of(ev, p, "ret") : /\ ev[i].ph = "ret" /\ ev[i].n # 0
                                                           /\ \A j \in Of(ev, p, "exit") : ev[j].n = ev[i].n
BadNotReported(procs, ev) ==
  \E p \in BadPath(procs) : /\ Of(ev, p, "try") # {} /\ Of(ev, p, "kill") = {} /\ Of(ev, p, "int") = {}
                            /\ ~\E i \in Of(ev, p, "log") : ev[i].n >= 30 /\ \A j \in Of(ev, p, "ret") : i < j

\* ---- the recording itself
Broken(procs, ev) ==
  \/ \E i \in Idx(ev) : ev[i].k = "stuck" /\ ev[i].ph \in {"no-progress", "drain"}
  \/ \E i \in Idx(ev) : ev[i].k \in {"B", "E", "try", "ret", "at"} /\ ev[i].p \notin P(procs)
  \/ \E p \in P(procs) : Cardinality(Of(ev, p, "try")) > 1

\* clauses that can be judged on every prefix of a recording
VerdictSafety(procs, ev, baseline) ==
  CASE Broken(procs, ev)            -> "harness/run-made-no-progress-or-malformed-recording"
    [] OverlapIdx(procs, ev)        -> "L1/guarded-sections-overlap"
    [] ProbeFree(procs, ev)         -> "L1/lock-free-inside-a-guarded-section"
    [] OverlapTime(procs, ev)       -> "L1/guarded-sections-overlap-in-time"
    [] BadEntered(procs, ev)        -> "L7/run-entered-its-section-without-a-lock-file"
    [] BadNoError(procs, ev)        -> "L7/unusable-lock-file-not-answered-with-an-error-exit-code"
    [] BadNotReported(procs, ev)    -> "L7/unusable-lock-file-not-reported"
    [] IntEntered(procs, ev)        -> "L4/interrupted-waiter-entered-its-section"
    [] IntHangs(procs, ev)          -> "L4/interrupted-waiter-does-not-end-while-the-lock-is-held"
    [] IntStatus(procs, ev)         -> "L4/interrupted-waiter-exit-status"
    [] Silent(procs, ev, baseline)  -> "L2/waiting-not-announced"
    [] HeldAfterReturn(procs, ev)   -> "L5/lock-still-held-after-entry_point-returned"
    [] HeldUpByOtherFile(procs, ev) -> "L6/held-up-by-a-run-with-a-different-lock-file"
    [] NotAdmitted(procs, ev)       -> "L3/waiter-not-admitted-although-the-lock-is-free"
    [] OTHER                        -> "ok"
\* complete recordings
Verdict(procs, ev, baseline) ==
  LET v == VerdictSafety(procs, ev, baseline)
  IN IF v # "ok" THEN v
     ELSE IF NeverAdmitted(procs, ev) THEN "L3/waiter-never-admitted" ELSE "ok"

LabelsL1 == {"L1/guarded-sections-overlap", "L1/lock-free-inside-a-guarded-section", "L1/guarded-sections-overlap-in-time"}
LabelsL2 == {"L2/waiting-not-announced"}
LabelsL3 == {"L3/waiter-not-admitted-although-the-lock-is-free", "L3/waiter-never-admitted"}
LabelsL4 == {"L4/interrupted-waiter-entered-its-section", "L4/interrupted-waiter-does-not-end-while-the-lock-is-held",
             "L4/interrupted-waiter-exit-status"}
LabelsL5 == {"L5/lock-still-held-after-entry_point-returned"}
LabelsL6 == {"L6/held-up-by-a-run-with-a-different-lock-file"}
LabelsL7 == {"L7/run-entered-its-section-without-a-lock-file", "L7/unusable-lock-file-not-answered-with-an-error-exit-code",
             "L7/unusable-lock-file-not-reported"}
=============================================================================
