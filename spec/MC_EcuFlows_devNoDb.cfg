\* negative control: no database fall-back
SPECIFICATION Spec
CONSTANTS
  Cfgs <- MCSetSmall
  BookSymbols <- MCBookSymbols
  BookLen = 0
  Dev_S1_FallbackStepsIgnoreSkipHooks = FALSE
  Dev_S2_TinyBlockLengthSendsNothing = FALSE
  Dev_NoCounterWrap = FALSE
  Dev_NoWaitAfterReset = FALSE
  Dev_NoPowerCycle = FALSE
  Dev_NoDbFallback = TRUE
  Dev_RefreshIgnoresAnswer = FALSE
  Dev_KeyLevelOffByOne = FALSE
  Dev_NoPostHook = FALSE
INVARIANT ContractHolds
INVARIANT DoneIsTotal
INVARIANT Progress
PROPERTY Terminates
CHECK_DEADLOCK FALSE
