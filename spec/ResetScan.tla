----------------------------- MODULE ResetScan -----------------------------
(* Design layer of the ECUReset scanner, shaped like gallia.commands.scan.uds.reset.ResetScanner
   (main / perform_scan) and the ECU helpers it calls (check_and_set_session, wait_for_ecu /
   _wait_for_ecu_endless_loop, leave_session; power_cycle() returns False: no power supply): one action per
   await point.  The environment is an abstract ECU chosen nondeterministically in Init: per (session,
   sub-function) a response class, how long it is silent after a positive reset (0 / short / long), whether it
   drops the connection then, for how long it refuses new connections, whether the reset brings it back to the
   default session, whether its session can be read.  Time is abstract: "short" is a silence wait_for_ecu
   outlasts, "long" one it does not.  TLC checks that the design satisfies every clause of ResetScanContract for
   every ECU model and configuration; with one deviation constant TRUE it must not. *)
EXTENDS ResetScanContract

CONSTANTS
  Sfs,            \* representative sub-functions (1 = hardReset is also the scanner's tool)
  ModelSessions,  \* sessions of the ECU; each can be entered from each
  Classes,        \* response classes an ECU may show for one (session, sub-function)
  Downs,          \* silences after a positive reset: subset of {0, Short, Long}
  Drops,          \* subset of BOOLEAN: the ECU closes the connection after the positive reset response
  Refuses,        \* subset of {0, Short, Long}: refusal of new connections after such a close
  Fallbacks,      \* subset of BOOLEAN: reset brings the ECU back to the default session
  SessReads,      \* subset of BOOLEAN: 22 F1 86 readable
  Cfgs,           \* scanner configurations (records, see MC_ResetScan)
  Dev_S1_RefusedReconnectRaises,  \* suspected defect S1: a refused reconnect inside wait_for_ecu ends the wait with an exception
  Dev_NoWait,                     \* negative control: no wait_for_ecu after a positive reset response
  Dev_NoReenter,                  \* negative control: the session is not set again after a reset
  Dev_SkipIgnored,                \* negative control: --skip entries are probed
  Dev_ErrIncludesNotSupported,    \* negative control: not-supported answers land in the error list
  Dev_TimeoutSwallowed            \* negative control: an unanswered probe is neither listed nor fatal

Short == 3000
Long  == 20000

VARIABLES M, C, pc, after, queue, cur, todo, sf, truth, down, conn, refusing, lok, lerr, lto, hist, out, verdict
vars == <<M, C, pc, after, queue, cur, todo, sf, truth, down, conn, refusing, lok, lerr, lto, hist, out, verdict>>

\* ------------------------------------------------------------ abstract ECU
Cls(k, c) == [k |-> k, c |-> c]
ClsNS  == Cls(NS, 18)     \* subFunctionNotSupported
ClsNS2 == Cls(NS, 126)    \* subFunctionNotSupportedInActiveSession
ClsNEG == Cls(NEG, 34)    \* conditionsNotCorrect
ClsNEG2 == Cls(NEG, 51)   \* securityAccessDenied
ClsPOS == Cls(POS, 0)
ClsSIL == Cls(NONE, 0)

ClassOf(s, x) == M.cls[<<s, x>>]

CC == [has |-> C.has, req |-> ToSet(C.sessions), skipAll |-> C.skipAll, skip |-> C.skip, check |-> C.check,
       start |-> 1, U |-> Sfs]
EE == [dom |-> ModelSessions,
       cls |-> [k \in ModelSessions \X Sfs |-> M.cls[k].k],
       nrc |-> [k \in ModelSessions \X Sfs |-> M.cls[k].c],
       refuse |-> IF M.drop THEN M.refuse ELSE 0]

MinOf(S) == CHOOSE x \in S : \A y \in S : x <= y

Q(t, p, r, c, w, d) == [k |-> "q", t |-> t, p |-> p, n |-> Len(p), r |-> r, c |-> c, w |-> w, d |-> d]
DscEv(t, s)  == Q(t, <<16, s>>, IF s \in ModelSessions THEN POS ELSE NS, IF s \in ModelSessions THEN 0 ELSE 18, 0, 0)
ReadEv(t)    == Q(t, <<34, 241, 134>>, IF M.sessRead THEN POS ELSE NEG, IF M.sessRead THEN 0 ELSE 49, 0, 0)
PingEv(t, r, w) == Q(t, <<62, 0>>, r, 0, w, 0)
ResetEv(t, x, cl, d) == Q(t, <<17, x>>, cl.k, cl.c, 0, d)
LostEv(t, p) == Q(t, p, NONE, 0, down, 0)       \* request while the ECU is rebooting

Init ==
  /\ M \in [cls : [ModelSessions \X Sfs -> Classes], down : Downs, drop : Drops, refuse : Refuses,
            fallback : Fallbacks, sessRead : SessReads]
  /\ (~M.drop) => M.refuse = 0
  /\ C \in Cfgs
  /\ pc = "Start" /\ after = "" /\ queue = <<>> /\ cur = 0 /\ todo = {} /\ sf = 0 /\ truth = 1
  /\ down = 0 /\ conn = TRUE /\ refusing = 0
  /\ lok = {} /\ lerr = {} /\ lto = {} /\ hist = <<>> /\ out = "?" /\ verdict = "?"

Stop(o) == pc' = "Judge" /\ out' = o

\* main()
Start ==
  /\ pc = "Start"
  /\ IF C.has THEN queue' = C.sessions /\ pc' = "NextSess" /\ UNCHANGED todo
              ELSE pc' = "Sf" /\ todo' = Sfs /\ UNCHANGED queue
  /\ UNCHANGED <<M, C, after, cur, sf, truth, down, conn, refusing, lok, lerr, lto, hist, out, verdict>>

\* resp = await self.ecu.set_session(session); negative: "Switching to session .. failed", continue
NextSess ==
  /\ pc = "NextSess"
  /\ IF queue = <<>>
     THEN Stop("ok") /\ UNCHANGED <<queue, cur, todo, truth, hist, lok, lerr, lto>>
     ELSE LET s == Head(queue) IN
          /\ queue' = Tail(queue)
          /\ hist' = Append(hist, DscEv(truth, s))
          /\ lok' = {} /\ lerr' = {} /\ lto' = {}
          /\ IF s \in ModelSessions
             THEN truth' = s /\ cur' = s /\ todo' = Sfs /\ pc' = "Sf"
             ELSE UNCHANGED <<truth, cur, todo>> /\ pc' = "NextSess"
          /\ UNCHANGED out
  /\ UNCHANGED <<M, C, after, sf, down, conn, refusing, verdict>>

IsSkipped(s, x) == ~Dev_SkipIgnored /\ C.has /\ (s \in C.skipAll \/ <<s, x>> \in C.skip)

\* for sub_func in range(0x01, 0x80): skip filter
SfStep ==
  /\ pc = "Sf"
  /\ IF todo = {}
     THEN pc' = "Report" /\ UNCHANGED <<todo, sf>>
     ELSE LET x == MinOf(todo) IN
          /\ todo' = todo \ {x}
          /\ IF IsSkipped(cur, x) THEN pc' = "Sf" /\ UNCHANGED sf
             ELSE sf' = x /\ pc' = (IF C.has /\ C.check THEN "Check" ELSE "Probe")
  /\ UNCHANGED <<M, C, after, queue, cur, truth, down, conn, refusing, lok, lerr, lto, hist, out, verdict>>

\* await self.ecu.check_and_set_session(session)
Check ==
  /\ pc = "Check"
  /\ IF M.sessRead /\ truth # cur
     THEN /\ hist' = hist \o <<ReadEv(truth), DscEv(truth, cur), ReadEv(cur)>>
          /\ truth' = cur
     ELSE /\ hist' = Append(hist, ReadEv(truth))
          /\ UNCHANGED truth
  /\ pc' = "Probe"
  /\ UNCHANGED <<M, C, after, queue, cur, todo, sf, down, conn, refusing, lok, lerr, lto, out, verdict>>

\* effects of a positive reset response on the ECU and the connection
ResetEffects ==
  /\ truth' = IF M.fallback THEN 1 ELSE truth
  /\ down' = M.down
  /\ conn' = IF M.drop THEN FALSE ELSE conn
  /\ refusing' = IF M.drop THEN M.refuse ELSE refusing

\* resp = await self.ecu.ecu_reset(sub_func)
Probe ==
  /\ pc = "Probe"
  /\ LET cl == ClassOf(truth, sf) IN
     /\ hist' = Append(hist, ResetEv(truth, sf, cl, IF cl.k = POS THEN M.down ELSE 0))
     /\ CASE cl.k = NS   -> /\ pc' = "Sf"
                            /\ lerr' = IF Dev_ErrIncludesNotSupported THEN lerr \cup {<<sf, cl.c>>} ELSE lerr
                            /\ UNCHANGED <<after, truth, down, conn, refusing, lok, lto, out>>
          [] cl.k = NEG  -> /\ pc' = "Sf" /\ lerr' = lerr \cup {<<sf, cl.c>>}
                            /\ UNCHANGED <<after, truth, down, conn, refusing, lok, lto, out>>
          [] cl.k = NONE -> \* except TimeoutError: l_timeout.append; no power cycle: "ECU did not respond ..; exit"
                            /\ IF Dev_TimeoutSwallowed
                               THEN pc' = "Sf" /\ UNCHANGED <<lto, out>>
                               ELSE lto' = lto \cup {sf} /\ Stop("exit")
                            /\ UNCHANGED <<after, truth, down, conn, refusing, lok, lerr>>
          [] cl.k = POS  -> /\ lok' = lok \cup {sf}
                            /\ ResetEffects
                            /\ after' = "Restore"
                            /\ pc' = IF Dev_NoWait THEN "Restore" ELSE "Wait"
                            /\ UNCHANGED <<lerr, lto, out>>
  /\ UNCHANGED <<M, C, queue, cur, todo, sf, verdict>>

\* await self.ecu.wait_for_ecu(): sleep, ping, on a connection error reconnect, until a ping is answered (or timeout)
Wait ==
  /\ pc = "Wait"
  /\ IF ~conn
     THEN \* the ping fails on the closed connection (nothing reaches the ECU): reconnect
          IF refusing > 0
          THEN IF Dev_S1_RefusedReconnectRaises
               THEN \* ConnectionRefusedError leaves wait_for_ecu; the scanner's handler reconnects again: refused again
                    Stop("exc") /\ UNCHANGED <<hist, down, conn, refusing>>
               ELSE IF refusing >= Long
               THEN \* wait_for_ecu gives up; the next request's reconnect is refused as well: ConnectionRefusedError
                    Stop("exc") /\ UNCHANGED <<hist, down, conn, refusing>>
               ELSE \* keep waiting: the refusal ends (the silence runs in parallel)
                    /\ refusing' = 0 /\ down' = IF down > refusing THEN down ELSE 0
                    /\ UNCHANGED <<hist, conn, pc, out>>
          ELSE conn' = TRUE /\ UNCHANGED <<hist, down, refusing, pc, out>>
     ELSE IF down = 0
     THEN hist' = Append(hist, PingEv(truth, POS, 0)) /\ pc' = after /\ UNCHANGED <<down, conn, refusing, out>>
     ELSE IF down < Long
     THEN \* unanswered pings, then the ECU is back
          hist' = Append(hist, PingEv(truth, NONE, down)) /\ down' = 0 /\ UNCHANGED <<conn, refusing, pc, out>>
     ELSE \* "Timeout while waiting for ECU!": wait_for_ecu returns False, the scanner goes on
          hist' = Append(hist, PingEv(truth, NONE, down)) /\ pc' = after /\ UNCHANGED <<down, conn, refusing, out>>
  /\ UNCHANGED <<M, C, after, queue, cur, todo, sf, truth, lok, lerr, lto, verdict>>

\* a request of the scanner while the ECU is still rebooting: lost; the UDS client gives up -> the scan ends
Lost(p, o) ==
  /\ hist' = Append(hist, LostEv(truth, p))
  /\ Stop(o)

\* "Reboot ECU to restore default conditions": resp = await self.ecu.ecu_reset(0x01)
Restore ==
  /\ pc = "Restore"
  /\ IF ~conn
     THEN Stop("exit") /\ UNCHANGED <<hist, after, truth, down, conn, refusing, lto>>   \* only with Dev_NoWait
     ELSE IF down > 0
     THEN Lost(<<17, 1>>, "exit") /\ lto' = lto \cup {sf} /\ UNCHANGED <<after, truth, down, conn, refusing>>
     ELSE LET cl == ClassOf(truth, 1) IN
          /\ hist' = Append(hist, ResetEv(truth, 1, cl, IF cl.k = POS THEN M.down ELSE 0))
          /\ CASE cl.k \in {NS, NEG} -> pc' = "Reread" /\ UNCHANGED <<after, truth, down, conn, refusing, lto, out>>
               [] cl.k = NONE -> lto' = lto \cup {sf} /\ Stop("exit") /\ UNCHANGED <<after, truth, down, conn, refusing>>
               [] cl.k = POS  -> /\ ResetEffects /\ after' = "Reread"
                                 /\ pc' = IF Dev_NoWait THEN "Reread" ELSE "Wait"
                                 /\ UNCHANGED <<lto, out>>
  /\ UNCHANGED <<M, C, queue, cur, todo, sf, lok, lerr, verdict>>

\* current_session = await self.ecu.read_session()  (only logged)
Reread ==
  /\ pc = "Reread"
  /\ IF C.has /\ C.check
     THEN IF ~conn THEN Stop("exc") /\ UNCHANGED hist
          ELSE IF down > 0 THEN Lost(<<34, 241, 134>>, "exc")
          ELSE hist' = Append(hist, ReadEv(truth)) /\ pc' = "Reenter" /\ UNCHANGED out
     ELSE pc' = (IF C.has THEN "Reenter" ELSE "Sf") /\ UNCHANGED <<hist, out>>
  /\ UNCHANGED <<M, C, after, queue, cur, todo, sf, truth, down, conn, refusing, lok, lerr, lto, verdict>>

\* "Setting session": await self.ecu.set_session(session)
Reenter ==
  /\ pc = "Reenter"
  /\ IF Dev_NoReenter THEN pc' = "Sf" /\ UNCHANGED <<hist, truth, out>>
     ELSE IF ~conn THEN Stop("exc") /\ UNCHANGED <<hist, truth>>
     ELSE IF down > 0 THEN Lost(<<16, cur>>, "exc") /\ UNCHANGED truth
     ELSE hist' = Append(hist, DscEv(truth, cur)) /\ truth' = cur /\ pc' = "Sf" /\ UNCHANGED out
  /\ UNCHANGED <<M, C, after, queue, cur, todo, sf, down, conn, refusing, lok, lerr, lto, verdict>>

AsSeq(S) == SetToSeq(S)

\* logger.result(ok / timeout / with error)
Report ==
  /\ pc = "Report"
  /\ hist' = hist \o << [k |-> "ok", l |-> AsSeq(lok)], [k |-> "to", l |-> AsSeq(lto)], [k |-> "err", l |-> AsSeq(lerr)] >>
  /\ IF C.has THEN pc' = "Leave" /\ UNCHANGED out ELSE Stop("ok")
  /\ UNCHANGED <<M, C, after, queue, cur, todo, sf, truth, down, conn, refusing, lok, lerr, lto, verdict>>

\* await self.ecu.leave_session(session): ecu_reset(0x01); negative: power_cycle() (no power supply) and reconnect;
\* wait_for_ecu(); set_session(0x01)
Leave ==
  /\ pc = "Leave"
  /\ LET cl == ClassOf(truth, 1) IN
     /\ hist' = Append(hist, ResetEv(truth, 1, cl, IF cl.k = POS THEN M.down ELSE 0))
     /\ CASE cl.k \in {NS, NEG} -> after' = "LeaveSet" /\ pc' = "Wait" /\ UNCHANGED <<truth, down, conn, refusing, out>>
          [] cl.k = NONE -> Stop("exc") /\ UNCHANGED <<after, truth, down, conn, refusing>>   \* MissingResponse is not handled here
          [] cl.k = POS  -> ResetEffects /\ after' = "LeaveSet" /\ pc' = "Wait" /\ UNCHANGED out
  /\ UNCHANGED <<M, C, queue, cur, todo, sf, lok, lerr, lto, verdict>>

LeaveSet ==
  /\ pc = "LeaveSet"
  /\ IF down > 0 THEN Lost(<<16, 1>>, "exc") /\ UNCHANGED truth
     ELSE hist' = Append(hist, DscEv(truth, 1)) /\ truth' = 1 /\ pc' = "NextSess" /\ UNCHANGED out
  /\ UNCHANGED <<M, C, after, queue, cur, todo, sf, down, conn, refusing, lok, lerr, lto, verdict>>

\* the run has ended: the contract's verdict on it
Judge ==
  /\ pc = "Judge"
  /\ verdict' = Verdict(CC, EE, hist, out)
  /\ pc' = "Done"
  /\ UNCHANGED <<M, C, after, queue, cur, todo, sf, truth, down, conn, refusing, lok, lerr, lto, hist, out>>

Next == Start \/ NextSess \/ SfStep \/ Check \/ Probe \/ Wait \/ Restore \/ Reread \/ Reenter \/ Report
        \/ Leave \/ LeaveSet \/ Judge
Spec == Init /\ [][Next]_vars /\ WF_vars(Next)

\* ------------------------------------------------------------ properties (one invariant per clause)
TypeOK == pc \in {"Start", "NextSess", "Sf", "Check", "Probe", "Wait", "Restore", "Reread", "Reenter", "Report",
                  "Leave", "LeaveSet", "Judge", "Done"}
Done == pc = "Done"
M0_Model      == verdict # "M0/fake-ecu-inconsistent-with-its-model"
T0_Terminates == verdict # "T0/scan-does-not-terminate"
R2_InSess     == verdict # "R2/probe-outside-claimed-session"
R4_Skip       == verdict \notin {"R4/skipped-was-probed", "R4/skipped-was-reported"}
R6_Wait       == verdict # "R6/request-before-the-ecu-answered-a-ping-again"
R1_Probed     == verdict \notin {"R1/report-for-a-session-not-entered", "R1/sub-function-not-probed",
                                 "R1/requested-session-not-attempted"}
R3_Ok         == verdict \notin {"R3/ok-but-not-answered-positively", "R3/answered-positively-but-not-ok"}
R3_Err        == verdict \notin {"R3/error-entry-not-answered-so", "R3/negative-answer-not-in-error-list"}
R3_To         == verdict \notin {"R3/timeout-entry-was-answered", "R3/never-answered-but-not-in-timeout-list"}
R0_Envelope   == verdict \notin {"R0/scan-dies-although-the-ecu-came-back", "R0/enterable-session-not-scanned-to-the-end",
                                 "R0/clean-scan-reports-failure"}
VerdictOk     == Done => verdict = "ok"
Progress      == pc # "Done" => ENABLED Next
Terminates    == <>Done
=============================================================================
