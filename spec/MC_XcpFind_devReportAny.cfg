SPECIFICATION FSpec
CONSTANTS
  Udp = TRUE
  Ports <- Ports3
  Classes <- UdpClasses
  Dev_F3_UdpShortAborts = FALSE
  Dev_NoDisconnect = FALSE
  Dev_ReportAny = TRUE
  Dev_NoHeader = FALSE
  Dev_StopAtSilent = FALSE
INVARIANT F_Find_Inv
PROPERTY FTerminates
CHECK_DEADLOCK FALSE
