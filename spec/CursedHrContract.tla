------------------------- MODULE CursedHrContract -------------------------
(* X18 (growth): contract of the interactive log viewer `cursed-hr` (gallia.cli.cursed_hr.CursedHR).
   Variable-free: operators over a LOG (what the harness wrote), a CONFIGURATION (which records qualify),
   OBSERVATIONS (what the user sees while the viewer waits for the next key) and KEYS.

   Sources of the clauses (statement: /verif/growth/X18.json) -- nothing else is demanded:
   [DOC]   class docstring of CursedHR: "interactive display of penlog files (similar to less)", "sectional
           filtering based on priority", "filtering based on any penlog entry attribute".
   [CDE]   docstring of calculate_display_entries: the list starts from the given entry, holds the entries "which
           qualify to be displayed by having a sufficient priority as well as passing any other filter", "is
           limited by the number of lines in the console", "is guaranteed to be not empty. If there would be no
           entries to be displayed there will be an info message".
   [DE]    docstring of DisplayEntry: one element = "one single line of a single formatted penlog entry as
           displayed"; entry_line_number = index in the list of lines of that entry; last_line.
   [NSE]   docstrings of next_/previous_sufficient_entry: the NEXT / PREVIOUS entry "which has a sufficiently high
           priority to be displayed and also passes any filters".
   [PZ]    docstring of PriorityZone ("continuous range (including start and end) of entries for which a certain
           priority filter applies") and of update_zones ("the zones are always ordered and do not overlap",
           "contains the previous zones and the new zone").
   [HELP]  the help screen (help_message): f "Enter filter input mode", g "Jump to the start of the file",
           G "Jump to the end of the file", p "Change the log level (priority) for the selected range, followed by
           the corresponding log level key", P "... for the entire file ...", q "Quit the application or this very
           help message", r "Redo the last undone action (as long as no new action has been done)", u "Undo the last
           action", v "Start marking ranges (for further actions)", ? "Show this help message",
           "Move cursor with arrow keys or Page Up / Page Down", "Press ESC to cancel an action or go back to the
           main view", "Existing filters can be traversed using the up and down arrow keys", log level keys
           m a c e w n i d t, "The following attributes of each line are exposed as a variable".
   [INT]   documented intent visible in the code: __init__ wraps everything in try/finally terminate_curses (the
           terminal is given back whatever happens); the filter input is validated with parse_filter inside
           try/except and shown in the warning colour when invalid (an unusable filter is refused, not fatal);
           assert / "It is guaranteed" comments in calculate_display_entries.

   Clauses
   Z0  no key sequence makes the viewer die with an exception or stop asking for keys      [INT][DOC]
   Z1  the viewer ends only when q is pressed in the main view; Z2 q in the main view ends it   [HELP q]
   Z3  however it ends, the terminal has been given back (endwin)                          [INT]
   V0  every screen line above the status line is a piece of one message line of one record
   V1  only qualifying records are shown (priority in force for the record, filter)       [CDE][PZ][HELP p P f]
   V2  the screen is a contiguous piece of the sequence of display lines of the qualifying records in file
       order: no line, no record skipped or repeated                                       [CDE][DE][NSE][DOC less]
   V3  the no-entries message is shown if and only if no record qualifies                   [CDE]
   V4  the cursor is on one of the shown lines                                             [HELP arrow keys]
   M1/M2  arrow up / down move the line under the cursor by exactly one display line (or not at all at the
       first / last line)                                                                  [HELP][DOC less]
   M3/M4  g shows the first line of the first qualifying record at the top, G the last line of the last
       qualifying record at the bottom                                                     [HELP g G]
   M5/M6  Page Down / Up never move the wrong way, never skip a line (the new screen overlaps or touches the
       old one) and are not stuck before the last / first line                             [HELP][DOC less]
   M7  arrow left / right leave the shown lines alone                                      [HELP]
   H1  leaving the help (q or ESC) shows the main view as it was                            [HELP q, ESC]
   C   configuration in force = result of the keys by [HELP p P u r f v ESC]; where the sources are silent
       (single-entry range, p without a fresh mark, other keys while a level key is awaited, a filter whose
       evaluation raises on some record, ...) the context becomes "unspec": every later outcome is accepted
       except Z0 / Z3.
   Not demanded: where the view stands after a configuration change / resize / x / t / i, cursor column, status
   line, colours, highlighting, the layout of the help, what a resize keeps. *)
EXTENDS Naturals, Integers, Sequences, FiniteSets

MinOf(S) == CHOOSE x \in S : \A y \in S : x <= y
MaxOf(S) == CHOOSE x \in S : \A y \in S : x >= y

OK == <<"ok", "ok">>
UNSPEC == <<"ok", "ok-unspecified">>

(* ---------------- log, configuration ----------------
   log  : sequence of [prio |-> 0..8, lens |-> sequence of the lengths of the message's lines, sat |-> sequence of
          BOOLEAN (sat[f]: the record passes filter f; ground truth of the harness)]
   cfg  : [thr |-> sequence (per record) of the priority in force, filt |-> 0 (none) or a filter number] *)
Qual(log, cfg, r) == /\ log[r].prio <= cfg.thr[r]
                     /\ (cfg.filt = 0 \/ log[r].sat[cfg.filt])
QualSet(log, cfg) == {r \in 1..Len(log) : Qual(log, cfg, r)}
NextQ(log, cfg, r) == LET S == {x \in QualSet(log, cfg) : x > r} IN IF S = {} THEN 0 ELSE MinOf(S)
PrevQ(log, cfg, r) == LET S == {x \in QualSet(log, cfg) : x < r} IN IF S = {} THEN 0 ELSE MaxOf(S)
FirstQ(log, cfg) == LET S == QualSet(log, cfg) IN IF S = {} THEN 0 ELSE MinOf(S)
LastQ(log, cfg) == LET S == QualSet(log, cfg) IN IF S = {} THEN 0 ELSE MaxOf(S)

(* ---------------- rows: [r, l, a, b] = characters a..b-1 of line l (0-based) of record r ---------------- *)
RowOK(log, x) == /\ x.r \in 1..Len(log)
                 /\ x.l >= 0 /\ x.l < Len(log[x.r].lens)
                 /\ LET n == log[x.r].lens[x.l + 1] IN
                      \/ (n = 0 /\ x.a = 0 /\ x.b = 0)
                      \/ (0 <= x.a /\ x.a < x.b /\ x.b <= n)
EndsLine(log, x) == x.b = log[x.r].lens[x.l + 1]
EndsRecord(log, x) == EndsLine(log, x) /\ x.l = Len(log[x.r].lens) - 1
StartsRecord(x) == x.l = 0 /\ x.a = 0
\* y is the display line right after x
Follows(log, cfg, x, y) ==
  IF ~EndsLine(log, x) THEN y.r = x.r /\ y.l = x.l /\ y.a = x.b
  ELSE IF ~EndsRecord(log, x) THEN y.r = x.r /\ y.l = x.l + 1 /\ y.a = 0
  ELSE y.r = NextQ(log, cfg, x.r) /\ StartsRecord(y)
Before(x, y) == \/ x.r < y.r
                \/ (x.r = y.r /\ x.l < y.l)
                \/ (x.r = y.r /\ x.l = y.l /\ x.a < y.a)
SameLine(x, y) == x.r = y.r /\ x.l = y.l /\ x.a = y.a
IsFirst(log, cfg, x) == x.r = FirstQ(log, cfg) /\ StartsRecord(x)
IsLast(log, cfg, x) == x.r = LastQ(log, cfg) /\ EndsRecord(log, x)
InRows(x, rows) == \E i \in 1..Len(rows) : SameLine(rows[i], x)

(* ---------------- observation: [kind |-> "log" | "none" | "other", rows, cur (1-based row under the cursor, 0 =
   none), other (screen lines that are no message text), h, w] ---------------- *)
CursorOnRow(o) == o.kind = "log" /\ o.cur >= 1 /\ o.cur <= Len(o.rows)
CurRec(o) == IF CursorOnRow(o) THEN o.rows[o.cur].r ELSE 0
SameRows(o1, o2) == o1.kind = o2.kind /\ o1.rows = o2.rows

ScreenVerdict(log, cfg, o) ==
  IF QualSet(log, cfg) = {} THEN
       IF o.kind = "none" THEN OK ELSE <<"V", "V3/no-entries-message-missing">>
  ELSE IF o.kind = "none" THEN <<"V", "V3/no-entries-message-though-records-qualify">>
  ELSE IF o.kind # "log" \/ Len(o.rows) = 0 THEN <<"V", "V3/nothing-shown">>
  ELSE IF o.other > 0 \/ \E i \in 1..Len(o.rows) : ~RowOK(log, o.rows[i]) THEN <<"V", "V0/garbled-line">>
  ELSE IF \E i \in 1..Len(o.rows) : ~Qual(log, cfg, o.rows[i].r) THEN <<"V", "V1/shows-non-qualifying-record">>
  ELSE IF \E i \in 1..(Len(o.rows) - 1) : ~Follows(log, cfg, o.rows[i], o.rows[i + 1])
       THEN <<"V", "V2/skips-or-repeats">>
  ELSE IF ~CursorOnRow(o) THEN <<"V", "V4/cursor-off-the-entries">>
  ELSE OK

Motion == {"up", "down", "ppage", "npage", "home", "end", "left", "right"}

MotionVerdict(log, cfg, t, o1, o2) ==
  LET C1 == o1.rows[o1.cur]
      C2 == o2.rows[o2.cur]
      T1 == o1.rows[1]
      T2 == o2.rows[1]
      B1 == o1.rows[Len(o1.rows)]
      B2 == o2.rows[Len(o2.rows)]
  IN
  CASE t = "up" ->
         IF Follows(log, cfg, C2, C1) \/ (SameLine(C1, C2) /\ IsFirst(log, cfg, C1)) THEN OK
         ELSE <<"M", "M1/up-not-one-line">>
    [] t = "down" ->
         IF Follows(log, cfg, C1, C2) \/ (SameLine(C1, C2) /\ IsLast(log, cfg, C1)) THEN OK
         ELSE <<"M", "M2/down-not-one-line">>
    [] t = "home" -> IF IsFirst(log, cfg, T2) THEN OK ELSE <<"M", "M3/home-not-at-the-start">>
    [] t = "end" -> IF IsLast(log, cfg, B2) THEN OK ELSE <<"M", "M4/end-not-at-the-end">>
    [] t = "npage" ->
         IF ~(InRows(T2, o1.rows) \/ Follows(log, cfg, B1, T2)) THEN <<"M", "M5/pagedown-skips">>
         ELSE IF Before(C2, C1) THEN <<"M", "M5/pagedown-goes-back">>
         ELSE IF ~(Before(C1, C2) \/ IsLast(log, cfg, C1)) THEN <<"M", "M5/pagedown-stuck">>
         ELSE OK
    [] t = "ppage" ->
         IF ~(InRows(B2, o1.rows) \/ Follows(log, cfg, B2, T1)) THEN <<"M", "M6/pageup-skips">>
         ELSE IF Before(C1, C2) THEN <<"M", "M6/pageup-goes-forward">>
         ELSE IF ~(Before(C2, C1) \/ IsFirst(log, cfg, C1)) THEN <<"M", "M6/pageup-stuck">>
         ELSE OK
    [] t \in {"left", "right"} -> IF SameRows(o1, o2) THEN OK ELSE <<"M", "M7/left-right-moves-the-view">>
    [] OTHER -> OK

(* ---------------- the context the keys build up (clause C) ----------------
   key : [t |-> token, n |-> number]  (n: level of a log level key, filter number of ENTER: >= 0 a filter the
         harness knows the meaning of, 0 = empty input = no filter, -1 = text the viewer must refuse, -2 = a filter
         whose meaning the sources do not fix)
   ctx : [mode, hist, idx, mark (0 none, -1 unknown, else record), hu (history position unknown), lvl ("known" |
          "unspec"), sv (main view saved when the help was opened), svok] *)
Cfg(ctx) == ctx.hist[ctx.idx]
InitCtx(log, prio0, filt0) ==
  [mode |-> "main", hist |-> << [thr |-> [r \in 1..Len(log) |-> prio0], filt |-> filt0] >>, idx |-> 1, mark |-> 0,
   hu |-> FALSE, lvl |-> "known", sv |-> [kind |-> "other", rows |-> <<>>, h |-> 0, w |-> 0], svok |-> FALSE]
Push(ctx, c) == [ctx EXCEPT !.hist = Append(SubSeq(ctx.hist, 1, ctx.idx), c), !.idx = ctx.idx + 1]
Unspec(ctx) == [ctx EXCEPT !.lvl = "unspec"]
Fade(m) == IF m = 0 THEN 0 ELSE -1

StepCtx(log, ctx, key, o1) ==
  IF ctx.lvl = "unspec" THEN ctx
  ELSE CASE ctx.mode = "main" ->
         CASE key.t \in Motion \cup {"x", "t", "z", "resize"} -> ctx
           [] key.t = "mark" -> [ctx EXCEPT !.mark = IF CurRec(o1) = 0 THEN -1 ELSE CurRec(o1)]
           [] key.t = "esc" -> [ctx EXCEPT !.mark = 0]
           [] key.t = "P" -> [ctx EXCEPT !.mode = "pendP"]
           [] key.t = "p" -> [ctx EXCEPT !.mode = "pendp"]
           [] key.t = "undo" -> IF ctx.hu THEN Unspec(ctx) ELSE [ctx EXCEPT !.idx = IF ctx.idx > 1 THEN ctx.idx - 1 ELSE 1]
           [] key.t = "redo" -> IF ctx.hu THEN Unspec(ctx)
                                ELSE [ctx EXCEPT !.idx = IF ctx.idx < Len(ctx.hist) THEN ctx.idx + 1 ELSE ctx.idx]
           [] key.t = "interp" -> Push(ctx, Cfg(ctx))
           [] key.t = "help" -> [ctx EXCEPT !.mode = "help", !.sv = o1, !.svok = TRUE]
           [] key.t = "f" -> [ctx EXCEPT !.mode = "filter"]
           [] key.t = "quit" -> [ctx EXCEPT !.mode = "gone"]
           [] OTHER -> Unspec(ctx)
    [] ctx.mode = "pendP" ->
         CASE key.t = "lvl" ->
                Push([ctx EXCEPT !.mode = "main", !.mark = Fade(ctx.mark)],
                     [thr |-> [r \in 1..Len(log) |-> key.n], filt |-> Cfg(ctx).filt])
           [] key.t = "esc" -> [ctx EXCEPT !.mode = "main", !.mark = 0]
           [] OTHER -> Unspec(ctx)
    [] ctx.mode = "pendp" ->
         CASE key.t = "lvl" ->
                IF ctx.mark = 0 THEN [ctx EXCEPT !.mode = "main", !.hu = TRUE]
                ELSE IF ctx.mark = -1 \/ CurRec(o1) = 0 \/ CurRec(o1) = ctx.mark THEN Unspec(ctx)
                ELSE LET lo == IF ctx.mark < CurRec(o1) THEN ctx.mark ELSE CurRec(o1)
                         hi == IF ctx.mark < CurRec(o1) THEN CurRec(o1) ELSE ctx.mark
                     IN Push([ctx EXCEPT !.mode = "main", !.mark = -1],
                             [thr |-> [r \in 1..Len(log) |-> IF lo <= r /\ r <= hi THEN key.n ELSE Cfg(ctx).thr[r]],
                              filt |-> Cfg(ctx).filt])
           [] key.t = "esc" -> [ctx EXCEPT !.mode = "main", !.mark = 0]
           [] OTHER -> Unspec(ctx)
    [] ctx.mode = "filter" ->
         CASE key.t = "ch" -> ctx
           [] key.t = "enter" ->
                IF key.n >= 0 THEN Push([ctx EXCEPT !.mode = "main"], [thr |-> Cfg(ctx).thr, filt |-> key.n])
                ELSE IF key.n = -1 THEN ctx
                ELSE Unspec(ctx)
           [] key.t = "esc" -> [ctx EXCEPT !.mode = "main", !.mark = Fade(ctx.mark)]
           [] OTHER -> Unspec(ctx)
    [] ctx.mode = "help" ->
         CASE key.t \in {"quit", "esc"} -> [ctx EXCEPT !.mode = "main", !.mark = Fade(ctx.mark)]
           [] key.t \in Motion -> ctx
           [] key.t = "resize" -> [ctx EXCEPT !.svok = FALSE]
           [] OTHER -> Unspec(ctx)
    [] OTHER -> ctx

\* verdict about the screen o2 shown after `key` was handled in context c1 (c2 = StepCtx(log, c1, key, o1))
StepVerdict(log, c1, c2, key, o1, o2) ==
  IF c2.lvl = "unspec" THEN UNSPEC
  ELSE IF c2.mode # "main" THEN OK
  ELSE LET sv == ScreenVerdict(log, Cfg(c2), o2) IN
       IF sv # OK THEN sv
       ELSE IF c1.mode = "help" THEN
              IF c1.svok /\ c1.sv.h = o2.h /\ c1.sv.w = o2.w /\ ~SameRows(c1.sv, o2)
              THEN <<"H", "H1/main-view-not-restored">> ELSE OK
       ELSE IF c1.mode = "main" /\ key.t \in Motion /\ CursorOnRow(o1) /\ CursorOnRow(o2)
               /\ ScreenVerdict(log, Cfg(c1), o1) = OK
            THEN MotionVerdict(log, Cfg(c2), key.t, o1, o2)
       ELSE OK

\* how the session ended: how in {"end" (the scripted user stopped typing), "quit", "crash", "hang"}
EndVerdict(ctx, how, restored) ==
  IF how = "crash" THEN <<"Z", "Z0/crash">>
  ELSE IF how = "hang" THEN <<"Z", "Z0/hang">>
  ELSE IF ~restored THEN <<"Z", "Z3/terminal-not-restored">>
  ELSE IF ctx.lvl = "unspec" THEN UNSPEC
  ELSE IF how = "quit" /\ ctx.mode # "gone" THEN <<"Z", "Z1/unexpected-exit">>
  ELSE IF how = "end" /\ ctx.mode = "gone" THEN <<"Z", "Z2/quit-ignored">>
  ELSE OK
=============================================================================
