------------------------ MODULE IdentScanContract ------------------------
(* Property C10, second sentence (identifier scan), contract layer: operators only.

   "The identifier scan counts as positive exactly the identifiers in the requested range for
    which the ECU returns a positive response, for each of the supported services and
    sub-functions."

   (I1) the positive counter reported for a session = number of (sub-function, identifier) pairs
        with identifier in [start..end] minus the skipped ones, for which the ECU model answers the
        ISO request of the scanned service positively in that session;
   (I2) the ECU was asked: each such pair's ISO 14229-1 request reached the ECU (I2b), and every
        probe is a well-formed request of the scanned service carrying the configured payload (I2a);
   (I3) probes reach the ECU while its ground-truth session is the session the scan announced;
   (I4) a requested session the ECU let the scanner enter gets a count.

   Not demanded (statement silent; counted as "unspecified", never a violation): probes of
   identifiers outside the range or of skipped identifiers that the ECU answers negatively
   (they cannot change the count), the abnormal / timeout counters, probe order, retries.

   Layouts (ISO 14229-1), not taken from the scanner:
     0x22 ReadDataByIdentifier   22 hi lo            0x2E WriteDataByIdentifier  2E hi lo data..
     0x31 RoutineControl         31 sf hi lo ..      sf in {1 start, 2 stop, 3 requestResults}
     0x27 SecurityAccess         27 sf ..            the "identifier" is the 7-bit sub-function    *)
EXTENDS Naturals, Sequences, FiniteSets, SequencesExt, TLC

POS == 4      \* response class code of a positive response (as in ServiceScanContract)

Universe(svc) == IF svc = 39 THEN 0..127 ELSE 0..65535
SubFns(svc)   == IF svc = 49 THEN {1, 2, 3} ELSE {0}
HdrLen(svc)   == CASE svc = 39 -> 2 [] svc = 49 -> 4 [] OTHER -> 3

IsoReq(svc, sf, id, pay) ==
  (CASE svc = 39 -> <<39, id>>
     [] svc = 49 -> <<49, sf, id \div 256, id % 256>>
     [] OTHER    -> <<svc, id \div 256, id % 256>>) \o pay

\* decode a request of the scanned service: <<sub-function, identifier>>
DecSf(svc, p) == IF svc = 49 THEN p[2] ELSE 0
DecId(svc, p) == CASE svc = 39 -> p[2] [] svc = 49 -> p[3] * 256 + p[4] [] OTHER -> p[2] * 256 + p[3]

(* Configuration C (denotation of the option strings):
     C.has, C.req, C.skipAll, C.skip (set of <<session, identifier>>), C.svc, C.start, C.end,
     C.payload (sequence of bytes appended to each request), C.start_session
   ECU model E:  E.pos  set of <<session, sub-function, identifier>> answered positively,
                 E.lo, E.hi   identifier window in which E.pos is complete (covers the range +-2)
   Events (in the order they happened, ECU side and scanner log interleaved):
     [k |-> "q", t, r, p]   request p seen by the ECU in ground-truth session t, answer class r
     [k |-> "start", s]     result record "Starting scan in session s"
     [k |-> "pos", n]       result record "Positive replies: n"
     [k |-> "end", s]       result record "Scan in session s is complete"                    *)

IdRange(C)   == {i \in C.start..C.end : i \in Universe(C.svc)}
Skipped(C, s) == IF ~C.has THEN {} ELSE IF s \in C.skipAll THEN IdRange(C) ELSE {i \in IdRange(C) : <<s, i>> \in C.skip}
Wanted(C, s)  == SubFns(C.svc) \X (IdRange(C) \ Skipped(C, s))
TruthOf(C, s) == IF C.has THEN s ELSE C.start_session

IsSessRead(p) == p = <<34, 241, 134>>
IsProbe(C, e) == e.k = "q" /\ e.p[1] = C.svc /\ ~IsSessRead(e.p)
IsDscOk(e)    == e.k = "q" /\ Len(e.p) = 2 /\ e.p[1] = 16 /\ e.r = POS

WellFormed(C, p) ==
  /\ Len(p) = HdrLen(C.svc) + Len(C.payload)
  /\ SubSeq(p, HdrLen(C.svc) + 1, Len(p)) = C.payload
  /\ DecSf(C.svc, p) \in SubFns(C.svc)

A0 == [cl |-> 0, probed |-> {}, wrong |-> {}, bad |-> {}, reports |-> {}, entered |-> {}, m0 |-> {}, nrep |-> 0]

Step(C, E, a, e) ==
  CASE e.k = "start" -> [a EXCEPT !.cl = e.s]
    [] e.k = "end"   -> [a EXCEPT !.cl = 0]
    [] e.k = "pos"   -> [a EXCEPT !.reports = @ \cup {<<a.cl, e.n>>}, !.nrep = @ + 1]
    [] IsDscOk(e)    -> [a EXCEPT !.entered = @ \cup {e.p[2] % 128}]
    [] IsProbe(C, e) ->
         IF Len(e.p) < HdrLen(C.svc) \/ ~WellFormed(C, e.p)
         THEN [a EXCEPT !.bad = @ \cup {e.p}]
         ELSE LET sf == DecSf(C.svc, e.p)
                  id == DecId(C.svc, e.p)
              IN [a EXCEPT !.probed = @ \cup {<<a.cl, sf, id>>},
                           !.wrong  = IF C.has /\ (e.t # a.cl \/ a.cl \notin C.req)
                                      THEN @ \cup {<<a.cl, e.t, id>>} ELSE @,
                           \* harness self-check: the fake answered as its model says
                           !.m0     = IF id >= E.lo /\ id <= E.hi /\ id \in Universe(C.svc)
                                         /\ ((e.r = POS) # (<<e.t, sf, id>> \in E.pos))
                                      THEN @ \cup {<<e.t, sf, id>>} ELSE @]
    [] OTHER -> a

Acc(C, E, ev) == FoldLeft(LAMBDA a, e : Step(C, E, a, e), A0, ev)

ExpectedCount(C, E, s) ==
  Cardinality({w \in Wanted(C, s) : <<TruthOf(C, s), w[1], w[2]>> \in E.pos})

M0_FakeConsistent(C, E, a) == a.m0 = {} /\ E.lo <= C.start /\ (C.end <= E.hi \/ C.svc = 39)
I3_InSession(C, a)   == a.wrong = {} /\ (C.has => \A r \in a.reports : r[1] \in C.req)
I2a_WellFormed(a)    == a.bad = {}
I2b_AllAsked(C, a)   == \A r \in a.reports : \A w \in Wanted(C, r[1]) : <<r[1], w[1], w[2]>> \in a.probed
I1_Count(C, E, a)    == \A r \in a.reports : r[2] = ExpectedCount(C, E, r[1])
I4_EveryEnteredCounted(C, a) ==
  IF C.has THEN \A s \in (C.req \ C.skipAll) : s \in a.entered => \E r \in a.reports : r[1] = s
           ELSE a.nrep >= 1

Verdict(C, E, ev) ==
  LET a == Acc(C, E, ev) IN
  IF ~M0_FakeConsistent(C, E, a)       THEN "M0/fake-ecu-inconsistent-with-its-model"
  ELSE IF ~I3_InSession(C, a)          THEN "I3/probe-outside-announced-session"
  ELSE IF ~I2a_WellFormed(a)           THEN "I2/probe-not-an-iso-request"
  ELSE IF ~I2b_AllAsked(C, a)          THEN "I2/identifier-in-range-not-asked"
  ELSE IF ~I4_EveryEnteredCounted(C, a) THEN "I4/entered-session-without-count"
  ELSE IF ~I1_Count(C, E, a)           THEN "I1/positive-count-differs"
  ELSE "ok"

\* probes the statement does not speak about: outside the wanted set of the announced session
Unspecified(C, E, ev) ==
  LET a == Acc(C, E, ev) IN Cardinality({p \in a.probed : <<p[2], p[3]>> \notin Wanted(C, p[1])})
=============================================================================
