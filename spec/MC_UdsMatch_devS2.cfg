SPECIFICATION Spec
CONSTANTS
  Cases <- MCCasesSmall
  Export = FALSE
  Dev_S8_NegIndex = FALSE
  Dev_S4_ExtDataNoRecord = FALSE
  Dev_S2_ClearDddiRaw = TRUE
INVARIANT TypeOK
INVARIANT G1_NegativeNamingRequestAccepted
INVARIANT G2_PositiveEchoingAccepted
INVARIANT G3_SidOnly
INVARIANT F1_OtherServiceMismatch
INVARIANT F2_NegativeOtherServiceMismatch
INVARIANT F3_EchoDiffersMismatch
INVARIANT F3_EchoDiffersNeverAccepted
INVARIANT M1_UndecodableMalformed
INVARIANT M2_UndecodableNegativeMalformed
INVARIANT U1_NegativeNeverMismatch
INVARIANT U2_RightEchoNeverMismatch
INVARIANT Progress
CHECK_DEADLOCK FALSE
