SPECIFICATION Spec
CONSTANTS
  Cand <- Cand3
  MandSeq <- Mand1
  DscMandatory = TRUE
  FlipReset = FALSE
  Export = TRUE
  Dev_NoBackEdge = FALSE
  Dev_NoAttach = FALSE
  Dev_AttachNoEdge = FALSE
  Dev_DscNotForced = TRUE
INVARIANT TypeOK
INVARIANT Inv_Verdict
CHECK_DEADLOCK FALSE
