--------------------------- MODULE UdsRequest ---------------------------
(* Design layer of one UDS client request, shaped like
   UDSClient.request_unsafe (one action per await point); checked by TLC
   against the contract layer in UdsRequestContract (property C04). *)
EXTENDS UdsRequestContract

----------------------------------------------------------------------------
(* ----------------------------- design layer ----------------------------- *)
CONSTANTS
  MaxRetry,     \* effective max_retry of the request
  MaxPending,   \* code: MAX_N_PENDING = 120
  MaxSilent,    \* code: max(timeout, 20) / 0.5 consecutive silent polls
  PollMs,       \* code: waiting_time = 0.5 s
  TimeoutMs,    \* request timeout
  Lim,          \* the contract limits record the design is checked against
  Dev_S9_PendingConnErrRaw,        \* as found: a connection error in the pending loop escapes raw
  Dev_S10_PendingLimitDropsFinal   \* as found: the final reply arriving as message #MaxPending is dropped

VARIABLES pc, i, nPend, nSil, hist, outcome, lastCause

vars == <<pc, i, nPend, nSil, hist, outcome, lastCause>>

Tok(e)     == [e |-> e]
TokT(d)    == [e |-> "Timeout", d |-> d]

Init ==
  /\ pc = "Send" /\ i = 0 /\ nPend = 0 /\ nSil = 0
  /\ hist = <<>> /\ outcome = [t |-> "None"] /\ lastCause = "none"

Finish(o) == pc' = "Done" /\ outcome' = o

\* next iteration of `for i in range(max_retry + 1)` or fall out of it
NextAttempt(cause) ==
  /\ lastCause' = cause
  /\ IF i < MaxRetry
     THEN pc' = "Send" /\ i' = i + 1 /\ UNCHANGED outcome
     ELSE Finish(Missing(cause)) /\ UNCHANGED i

Write ==
  /\ pc = "Send"
  /\ \/ /\ hist' = Append(hist, Tok("W")) /\ pc' = "Read"
        /\ UNCHANGED <<i, nPend, nSil, outcome, lastCause>>
     \/ \E f \in {"WConnErr", "WTimeout"} :
        /\ hist' = hist \o <<Tok("W"), Tok(f)>>
        /\ NextAttempt(IF f = "WConnErr" THEN "conn" ELSE "none")
        /\ UNCHANGED <<nPend, nSil>>

ReadEvents == {"Timeout", "ConnErr", "Empty", "Busy", "Pending", "Mismatch", "Malformed", "NegFinal", "PosFinal"}

ReadFirst(e) ==
  /\ pc = "Read"
  /\ hist' = Append(hist, IF e = "Timeout" THEN TokT(TimeoutMs) ELSE Tok(e))
  /\ LET k == Len(hist) + 1 IN
     CASE e = "Timeout" -> NextAttempt("none") /\ UNCHANGED <<nPend, nSil>>
       [] e \in {"ConnErr", "Empty"} -> NextAttempt("conn") /\ UNCHANGED <<nPend, nSil>>
       [] e = "Busy" ->
            IF i >= MaxRetry THEN Finish(Reply(k)) /\ UNCHANGED <<i, nPend, nSil, lastCause>>
            ELSE pc' = "Send" /\ i' = i + 1 /\ UNCHANGED <<nPend, nSil, outcome, lastCause>>
       [] e \in {"Mismatch", "Malformed"} -> Finish(Illegal(e, k)) /\ UNCHANGED <<i, nPend, nSil, lastCause>>
       [] e \in {"NegFinal", "PosFinal"} -> Finish(Reply(k)) /\ UNCHANGED <<i, nPend, nSil, lastCause>>
       [] e = "Pending" -> pc' = "PendRead" /\ nPend' = 1 /\ nSil' = 0 /\ UNCHANGED <<i, outcome, lastCause>>

ReadPending(e) ==
  /\ pc = "PendRead"
  /\ hist' = Append(hist, IF e = "Timeout" THEN TokT(PollMs) ELSE Tok(e))
  /\ LET k == Len(hist) + 1 IN
     CASE e = "Timeout" ->
            IF nSil + 1 >= MaxSilent
            THEN NextAttempt("none") /\ UNCHANGED <<nPend, nSil>>      \* `break`, then the for loop goes on
            ELSE nSil' = nSil + 1 /\ UNCHANGED <<pc, i, nPend, outcome, lastCause>>
       [] e \in {"ConnErr", "Empty"} ->
            IF Dev_S9_PendingConnErrRaw
            THEN Finish([t |-> "Raw", exc |-> "ConnectionError"]) /\ UNCHANGED <<i, nPend, nSil, lastCause>>
            ELSE NextAttempt("conn") /\ UNCHANGED <<nPend, nSil>>
       [] e \in {"Mismatch", "Malformed"} -> Finish(Illegal(e, k)) /\ UNCHANGED <<i, nPend, nSil, lastCause>>
       [] e = "Pending" ->
            IF nPend + 1 >= MaxPending
            THEN Finish(Stuck) /\ UNCHANGED <<i, nPend, nSil, lastCause>>
            ELSE nPend' = nPend + 1 /\ nSil' = 0 /\ UNCHANGED <<pc, i, outcome, lastCause>>
       [] e \in {"NegFinal", "PosFinal", "Busy"} ->
            IF Dev_S10_PendingLimitDropsFinal /\ nPend + 1 >= MaxPending
            THEN Finish(Stuck) /\ UNCHANGED <<i, nPend, nSil, lastCause>>
            ELSE Finish(Reply(k)) /\ UNCHANGED <<i, nPend, nSil, lastCause>>

Next == Write \/ (\E e \in ReadEvents : ReadFirst(e) \/ ReadPending(e))

Spec == Init /\ [][Next]_vars /\ WF_vars(Next)

----------------------------------------------------------------------------
(* ------------------------- properties (C04) ----------------------------- *)

K1_WriteBound      == NWrites(hist) <= MaxRetry + 1
K4_OutcomeImplied  == pc = "Done" => outcome \in Implied(Lim, hist, MaxRetry)
K4_Verdict         == pc = "Done" => Verdict(Lim, hist, MaxRetry, outcome) = "ok"
\* K3: a responsePending never causes a retransmission (action property)
K3_NoWriteInPending == [][pc = "PendRead" => NWrites(hist') = NWrites(hist) \/ pc' = "Done" \/ pc' = "Send"]_vars
\* while pending, the attempt counter only moves together with leaving the pending phase
K3b == [][pc = "PendRead" /\ pc' = "PendRead" => i' = i]_vars
K6_Terminates      == <>(pc = "Done")
K6_Bounded         == Len(hist) <= (MaxRetry + 1) * (2 + MaxPending * (MaxSilent + 1))
TypeOK == /\ pc \in {"Send", "Read", "PendRead", "Done"}
          /\ i \in 0..MaxRetry /\ nPend \in 0..MaxPending /\ nSil \in 0..MaxSilent
=============================================================================
