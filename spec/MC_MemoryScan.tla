--------------------------- MODULE MC_MemoryScan ---------------------------
(* Small-constant exhaustive configurations of MemoryScan (growth item X05). *)
EXTENDS MemoryScan

Cfg(se, svc, data, ck, re) == [session |-> se, svc |-> svc, data |-> data, check |-> ck, retries |-> re]

IsByte == <<0, 1, 255>>          \* byte boundary of the address field: 00, 01, FF / 00, 01 00, FF 00
IsRun  == <<0, 1, 2, 3>>
IsRun3 == <<0, 1, 2>>
DropsRun3 == {{}, {<<1>>}, {<<0>>}}         \* consecutive values: "every n-th address" is meaningful

Classes5 == {POSITIVE, 51, ROOR, NONE, LATE}
Classes4 == {POSITIVE, ROOR, NONE, LATE}
Classes3 == {POSITIVE, ROOR, NONE}
ClassesCrash == {POSITIVE, NONE, CRASH}
CfgsCrash == {Cfg(3, 35, <<>>, ck, re) : ck \in {0, 1, 2}, re \in {1, 2}}
Classes2 == {POSITIVE, NONE}
ClassesNeg == {POSITIVE, ROOR, 51}

NoDrop == {{}}
DropsRun == {{}, {<<1>>}, {<<3>>}, {<<0>>}}
DropsSim == {{<<1>>}, {<<0>>}}

Data3 == <<170, 187, 204>>

\* a: every answer class on every address, all four services, with and without client retries
CfgsA == {Cfg(3, svc, IF svc = 61 THEN Data3 ELSE <<>>, 0, re) : svc \in {35, 61, 52, 53}, re \in {0, 1}}
\* b: session handling -- drops, session read modes, change budgets, reset refused, check_session n
CfgsB == {Cfg(3, 35, <<>>, ck, 0) : ck \in {0, 1, 2, 3}} \cup {Cfg(2, 52, <<>>, 2, 1), Cfg(1, 53, <<>>, 1, 0)}
\* c: empty data record (unspecified layout), a session the ECU does not know
CfgsC == {Cfg(3, 61, <<>>, 0, 0), Cfg(4, 35, <<>>, 0, 0), Cfg(3, 61, <<1>>, 1, 1)}
\* quick-tier versions of a / b
CfgsAq == {Cfg(3, 35, <<>>, 0, 1), Cfg(3, 61, Data3, 0, 0), Cfg(2, 52, <<>>, 0, 1)}
Is2 == <<0, 255>>
CfgsBq == {Cfg(3, 35, <<>>, ck, 0) : ck \in {0, 1, 2}} \cup {Cfg(2, 52, <<>>, 2, 1)}
\* negative controls
CfgsN1 == {Cfg(3, svc, IF svc = 61 THEN Data3 ELSE <<>>, 0, 1) : svc \in {35, 61, 52}}
CfgsN2 == {Cfg(3, 35, <<>>, ck, 0) : ck \in {1, 2}}
CfgsN3 == {Cfg(3, 52, <<>>, 0, 1)}
CfgsN4 == {Cfg(3, 61, Data3, 0, 0)}
CfgsN5 == {Cfg(3, 35, <<>>, 2, 0)}
ClassesN == {POSITIVE, ROOR}
ClassesT == {POSITIVE, NONE}
DropsN == {{<<1>>}}
\* simulation (spec -> code)
CfgsSimA == {Cfg(3, 35, <<>>, 0, 0), Cfg(2, 61, Data3, 1, 1), Cfg(3, 52, <<>>, 1, 2), Cfg(2, 53, <<>>, 0, 1)}
CfgsSimB == {Cfg(3, 35, <<>>, 0, 1), Cfg(3, 61, Data3, 0, 0), Cfg(2, 52, <<>>, 0, 0), Cfg(3, 53, <<>>, 0, 2)}
=============================================================================
