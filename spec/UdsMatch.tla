------------------------------ MODULE UdsMatch ------------------------------
(* C03 -- design layer: the decision procedure of gallia's
   helpers.parse_pdu(reply, request), one action per step of the code:

     ParseRequest        service.UDSRequest.parse_dynamic(request.pdu)
                         (typed request, or RawRequest when it cannot be rebuilt)
     ParseResponse       service.UDSResponse.parse_dynamic(reply)
                         -> NegativeResponse | typed positive | RawPositiveResponse | exception
     NegativeFallback    except-branch, reply[0] = 0x7F  (RawNegativeResponse)
     PositiveFallback    except-branch, positive          (RawPositiveResponse)
     RawRequestFallback  RawRequest and positive reply: compare service ids only
     Matches             response.matches(parsed_request)
     Report              terminal; exports the decision (spec -> code replay)

   The environment chooses the pair (request, reply) in Init from Cases.
   With every Dev_* = FALSE this is the intended design and TLC checks
   decision \in Allowed(...) of the contract for all cases; a Dev_* = TRUE
   reproduces a defect observed in the pinned tree (negative controls).

   The length / registry tables below are shaped like the code on purpose
   (design layer): a disagreement between them and the code is DRIFT, only the
   contract (UdsMatchContract) can raise a violation.                      *)
EXTENDS UdsMatchContract, TLC

CONSTANTS Cases,                      \* set of [req, raw, reply, cls]
          Export,                     \* BOOLEAN: print one line per case in Report
          Dev_S8_NegIndex,            \* except-branch compares reply[2] (the NRC) with the request sid
          Dev_S4_ExtDataNoRecord,     \* 59 06 DTC status without a record number cannot be parsed
          Dev_S2_ClearDddiRaw         \* 2C 03 requests cannot be rebuilt -> RawRequest fallback

VARIABLES cs, pc, preq, presp, decision,
          path      \* observation only: names of the actions taken (exported; action coverage)
vars == <<cs, pc, preq, presp, decision, path>>

---------------------------------------------------------------------------
DCodes       == ValidNrc              \* members of UDSErrorCodes
DServices    == {16, 17, 39, 40, 62, 133, 34, 35, 44, 46, 61, 20, 25, 47, 49, 52, 53, 54, 55}
DSpecialized == {39, 44, 25, 49}
DSubFns(s)   == CASE s = 25 -> {1, 2, 15, 17, 18, 19, 10, 11, 12, 13, 14, 21, 6}
                  [] s = 44 -> {1, 2, 3}
                  [] s = 49 -> {1, 2, 3}
                  [] OTHER  -> {}
DDtcType6    == {10, 11, 12, 13, 14, 21}   \* request classes that cannot be rebuilt from bytes
(* constants.UDSIsoServicesEchoLength *)
DEchoLen(s)  == CASE s \in {16, 17, 39, 40, 62, 131, 133, 134, 135, 42, 25, 54} -> 1
                  [] s \in {34, 36, 46, 47} -> 2
                  [] s \in {44, 49} -> 3
                  [] OTHER -> 0 - 1

MemOk(x) == Len(x) >= 2 /\ Lo(x[2]) >= 1 /\ Hi(x[2]) >= 1 /\ Len(x) >= 2 + Lo(x[2]) + Hi(x[2])

(* does UDSRequest.parse_dynamic(request.pdu) yield a typed request? *)
DReqTyped(req) ==
  LET s  == req[1]
      n  == Len(req)
      sf == IF n >= 2 THEN req[2] % 128 ELSE 0 IN
  CASE s \in {16, 17} -> n = 2
    [] s = 39  -> n >= 2 /\ (sf % 2 = 1 \/ n >= 3)
    [] s = 40  -> n = 3
    [] s = 62  -> n = 2 /\ sf = 0
    [] s = 133 -> n >= 2 /\ req[2] < 128
    [] s = 34  -> n >= 3 /\ (n - 1) % 2 = 0
    [] s = 35  -> n >= 4 /\ n <= 32 /\ MemOk(req)
    [] s = 44  -> \/ (sf = 1 /\ n >= 8 /\ (n - 4) % 4 = 0)
                  \/ (sf = 2 /\ n >= 7 /\ Lo(req[5]) >= 1 /\ Hi(req[5]) >= 1
                              /\ (n - 5) % (Lo(req[5]) + Hi(req[5])) = 0)
                  \/ (sf = 3 /\ n \in {2, 4} /\ ~Dev_S2_ClearDddiRaw)
    [] s = 46  -> n >= 4
    [] s = 61  -> n >= 5 /\ MemOk(req)
    [] s = 20  -> n = 4
    [] s = 25  -> \/ (sf \in {1, 2, 15, 17, 18, 19} /\ n = 3)
                  \/ (sf = 6 /\ n = 6)
    [] s = 47  -> n >= 4
    [] s = 49  -> sf \in {1, 2, 3} /\ n >= 4
    [] s \in {52, 53} -> n >= 5 /\ Lo(req[3]) >= 1 /\ Hi(req[3]) >= 1
                         /\ n = 3 + Lo(req[3]) + Hi(req[3])
    [] s = 54  -> n >= 2
    [] s = 55  -> n >= 1
    [] OTHER   -> FALSE

(* from_pdu of the typed positive response class (length gates and checks) *)
DTypedOk(r) ==
  LET s == r[1] - 64
      n == Len(r) IN
  CASE s = 16 -> n >= 2 /\ r[2] < 128
    [] s = 17 -> n \in {2, 3} /\ r[2] < 128
    [] s = 39 -> n >= 2 /\ r[2] < 128
    [] s \in {40, 133} -> n = 2 /\ r[2] < 128
    [] s = 62 -> n = 2 /\ r[2] = 0
    [] s = 34 -> n >= 4
    [] s = 35 -> n >= 2
    [] s = 44 -> r[2] < 128 /\ IF r[2] = 3 THEN n \in 2..4 ELSE n = 4
    [] s = 46 -> n = 3
    [] s = 61 -> n >= 4 /\ n <= 32 /\ MemOk(r)
    [] s = 20 -> n = 1
    [] s = 25 -> /\ r[2] < 128
                 /\ CASE r[2] \in {1, 17, 18}        -> n = 6 /\ r[4] <= 3
                      [] r[2] \in {2, 15, 19, 10, 21} -> n >= 3 /\ (n - 3) % 4 = 0
                      [] r[2] \in {11, 12, 13, 14}    -> n \in {3, 7}
                      [] r[2] = 6 -> n >= (IF Dev_S4_ExtDataNoRecord THEN 7 ELSE 6)
                      [] OTHER -> FALSE
    [] s = 47 -> n >= 4
    [] s = 49 -> n >= 4 /\ r[2] < 128
    [] s \in {52, 53} -> n >= 3 /\ Lo(r[2]) = 0 /\ Hi(r[2]) >= 1 /\ n - 2 = Hi(r[2])
    [] s = 54 -> n >= 2
    [] s = 55 -> n >= 1
    [] OTHER  -> FALSE

DParse(r) ==
  LET n == Len(r) IN
  IF r[1] = NEG THEN (IF n = 3 /\ r[3] \in DCodes THEN "Neg" ELSE "Exc")
  ELSE IF r[1] < 64 \/ (r[1] - 64) \notin DServices THEN "RawPos"
  ELSE IF (r[1] - 64) \in DSpecialized /\ n < 2 THEN "Exc"
  ELSE IF (r[1] - 64) \in {25, 44, 49} /\ (r[2] % 128) \notin DSubFns(r[1] - 64) THEN "RawPos"
  ELSE IF DTypedOk(r) THEN "Typed" ELSE "Exc"

DSlice(x, L) == SubSeq(x, 2, Min(Len(x), L + 1))

(* response.matches(parsed_request) *)
DMatches(req, r, kind) ==
  LET s == req[1] IN
  IF kind = "Neg" THEN r[2] = s
  ELSE IF r[1] - 64 # s THEN FALSE
  ELSE IF kind = "RawPos"
       THEN (IF DEchoLen(s) >= 0 THEN DSlice(req, DEchoLen(s)) = DSlice(r, DEchoLen(s)) ELSE TRUE)
  ELSE CASE s \in {16, 17, 39, 40, 133, 25, 44} -> r[2] = req[2] % 128
         [] s \in {34, 46, 47} -> r[2] = req[2] /\ r[3] = req[3]
         [] s = 35 -> Len(r) - 1 = RmbaSize(req)
         [] s = 61 -> r[2] = req[2] /\ SubSeq(r, 3, 2 + Lo(r[2]) + Hi(r[2]))
                                        = SubSeq(req, 3, 2 + Lo(r[2]) + Hi(r[2]))
         [] s = 49 -> r[2] = req[2] % 128 /\ r[3] = req[3] /\ r[4] = req[4]
         [] s = 54 -> r[2] = req[2]
         [] OTHER  -> TRUE

---------------------------------------------------------------------------
Init ==
  /\ cs \in Cases
  /\ pc = "ParseRequest" /\ preq = "?" /\ presp = "?" /\ decision = "?" /\ path = << >>

ParseRequest ==
  /\ pc = "ParseRequest"
  /\ path' = Append(path, "ParseRequest")
  /\ preq' = IF DReqTyped(cs.req) THEN "Typed" ELSE "Raw"
  /\ pc' = "ParseResponse"
  /\ UNCHANGED <<cs, presp, decision>>

ParseResponse ==
  /\ pc = "ParseResponse"
  /\ path' = Append(path, "ParseResponse")
  /\ presp' = DParse(cs.reply)
  /\ pc' = IF presp' = "Exc"
           THEN (IF cs.reply[1] = NEG THEN "NegativeFallback" ELSE "PositiveFallback")
           ELSE IF preq = "Raw" /\ presp' # "Neg" THEN "RawRequestFallback"
           ELSE "Matches"
  /\ UNCHANGED <<cs, preq, decision>>

NegativeFallback ==
  /\ pc = "NegativeFallback"
  /\ path' = Append(path, "NegativeFallback")
  /\ LET r == cs.reply
         foreign == IF Dev_S8_NegIndex
                    THEN Len(r) >= 3 /\ r[3] # cs.req[1]
                    ELSE Len(r) >= 2 /\ r[2] # cs.req[1]
     IN decision' = IF foreign THEN "Mismatch" ELSE "Malformed"
  /\ pc' = "Done"
  /\ UNCHANGED <<cs, preq, presp>>

PositiveFallback ==
  /\ pc = "PositiveFallback"
  /\ path' = Append(path, "PositiveFallback")
  /\ decision' = IF cs.reply[1] - 64 # cs.req[1] THEN "Mismatch" ELSE "Malformed"
  /\ pc' = "Done"
  /\ UNCHANGED <<cs, preq, presp>>

RawRequestFallback ==
  /\ pc = "RawRequestFallback"
  /\ path' = Append(path, "RawRequestFallback")
  /\ decision' = IF cs.reply[1] - 64 # cs.req[1] THEN "Mismatch" ELSE "Accept"
  /\ pc' = "Done"
  /\ UNCHANGED <<cs, preq, presp>>

Matches ==
  /\ pc = "Matches"
  /\ path' = Append(path, "Matches")
  /\ decision' = IF DMatches(cs.req, cs.reply, presp) THEN "Accept" ELSE "Mismatch"
  /\ pc' = "Done"
  /\ UNCHANGED <<cs, preq, presp>>

Report ==
  /\ pc = "Done"
  /\ path' = Append(path, "Report")
  /\ pc' = "Reported"
  /\ Export => PrintT(<<"D", cs.req, cs.raw, cs.reply, cs.cls, decision,
                        Expected(cs.req, cs.raw, cs.reply), preq, presp, path'>>)
  /\ UNCHANGED <<cs, preq, presp, decision>>

Next == ParseRequest \/ ParseResponse \/ NegativeFallback \/ PositiveFallback
        \/ RawRequestFallback \/ Matches \/ Report
Spec == Init /\ [][Next]_vars

---------------------------------------------------------------------------
TypeOK ==
  /\ cs.raw \in BOOLEAN /\ Len(cs.req) >= 1 /\ Len(cs.reply) >= 1
  /\ pc \in {"ParseRequest", "ParseResponse", "NegativeFallback", "PositiveFallback",
             "RawRequestFallback", "Matches", "Done", "Reported"}
  /\ preq \in {"?", "Typed", "Raw"}
  /\ presp \in {"?", "Neg", "Typed", "RawPos", "Exc"}
  /\ decision \in Outcomes \cup {"?"}
  /\ Len(path) <= 5

Decided == pc \in {"Done", "Reported"}
Holds(label) ==
  (Decided /\ Clause(cs.req, cs.raw, cs.reply) = label)
     => decision \in Allowed(cs.req, cs.raw, cs.reply)

(* one invariant per sentence of the statement, so that TLC names the clause *)
G1_NegativeNamingRequestAccepted == Holds("G1/negative-naming-request-sid-accepted")
G2_PositiveEchoingAccepted       == Holds("G2/positive-echoing-request-accepted")
G3_SidOnly                       == Holds("G3/service-without-echo-fields-sid-only")
F1_OtherServiceMismatch          == Holds("F1/reply-of-another-service-is-mismatch")
F2_NegativeOtherServiceMismatch  == Holds("F2/negative-naming-another-service-is-mismatch")
F3_EchoDiffersMismatch           == Holds("F3/echoed-identifier-differs-is-mismatch")
F3_EchoDiffersNeverAccepted      == Holds("F3/echoed-identifier-differs-never-accepted")
M1_UndecodableMalformed          == Holds("M1/undecodable-reply-of-right-service-is-malformed")
M2_UndecodableNegativeMalformed  == Holds("M2/undecodable-negative-of-right-service-is-malformed")
U1_NegativeNeverMismatch         == Holds("U1/negative-of-right-service-never-mismatch")
U2_RightEchoNeverMismatch        == Holds("U2/right-service-right-echo-never-mismatch")

(* every pair is decided: the procedure is total (no state without a next
   step before the decision is reported; pc strictly advances, so it terminates) *)
Progress == pc # "Reported" => ENABLED Next
=============================================================================
