---------------------------- MODULE MC_UdsMatch ----------------------------
(* Model-checking wrapper of UdsMatch: the abstract pair space
     request kind  x  reply class
   concretised INSIDE TLA+ (representative requests, genuine replies built
   from the ISO layouts) so that TLC enumerates it exhaustively:

     genuine | positive reply of every other request of the table |
     each echoed byte changed | suppress bit set in the echoed sub-function |
     negative response naming the same sid x NRC (all 256 codes for three
     representative services, a boundary sample elsewhere) |
     negative response naming another sid x {valid, reserved, NRC = request sid} |
     negative responses of length 1, 2, 4 | every truncation | one-byte extension |
     truncated replies of other services                                     *)
EXTENDS UdsMatch

R(q, w) == [req |-> q, raw |-> w]

ReqTable == <<
  R(<<16, 3>>, FALSE),                       \*  1 DiagnosticSessionControl 10 03
  R(<<16, 131>>, FALSE),                     \*  2 ... suppressPosRsp        10 83
  R(<<17, 1>>, FALSE),                       \*  3 ECUReset hard             11 01
  R(<<17, 4>>, FALSE),                       \*  4 ECUReset rapid shutdown   11 04
  R(<<39, 1>>, FALSE),                       \*  5 SecurityAccess seed       27 01
  R(<<39, 2, 170, 187>>, FALSE),             \*  6 SecurityAccess key        27 02 AA BB
  R(<<40, 1, 1>>, FALSE),                    \*  7 CommunicationControl      28 01 01
  R(<<62, 0>>, FALSE),                       \*  8 TesterPresent             3E 00
  R(<<62, 128>>, FALSE),                     \*  9 ... suppressPosRsp        3E 80
  R(<<133, 1>>, FALSE),                      \* 10 ControlDTCSetting         85 01
  R(<<34, 18, 52>>, FALSE),                  \* 11 ReadDataByIdentifier      22 12 34
  R(<<34, 18, 52, 86, 120>>, FALSE),         \* 12 ... two identifiers       22 12 34 56 78
  R(<<35, 17, 35, 4>>, FALSE),               \* 13 ReadMemoryByAddress       23 11 23 04
  R(<<44, 1, 242, 0, 18, 52, 1, 1>>, FALSE), \* 14 DDDI defineByIdentifier   2C 01 F2 00 12 34 01 01
  R(<<44, 2, 242, 0, 17, 16, 4>>, FALSE),    \* 15 DDDI defineByMemoryAddr   2C 02 F2 00 11 10 04
  R(<<44, 3, 242, 0>>, FALSE),               \* 16 DDDI clear                2C 03 F2 00
  R(<<44, 3>>, FALSE),                       \* 17 DDDI clear all            2C 03
  R(<<46, 18, 52, 1>>, FALSE),               \* 18 WriteDataByIdentifier     2E 12 34 01
  R(<<61, 18, 16, 0, 2, 1, 2>>, FALSE),      \* 19 WriteMemoryByAddress      3D 12 10 00 02 01 02
  R(<<20, 255, 255, 255>>, FALSE),           \* 20 ClearDiagnosticInformation 14 FF FF FF
  R(<<25, 1, 255>>, FALSE),                  \* 21 ReadDTC number by mask    19 01 FF
  R(<<25, 2, 255>>, FALSE),                  \* 22 ReadDTC list by mask      19 02 FF
  R(<<25, 130, 255>>, FALSE),                \* 23 ... suppressPosRsp        19 82 FF
  R(<<25, 19, 255>>, FALSE),                 \* 24 ReadDTC emissions list    19 13 FF
  R(<<25, 6, 18, 52, 86, 1>>, FALSE),        \* 25 ReadDTC ext data record   19 06 12 34 56 01
  R(<<25, 10>>, TRUE),                       \* 26 ReadDTC supported (raw)   19 0A
  R(<<25, 11>>, TRUE),                       \* 27 ReadDTC first failed (raw) 19 0B
  R(<<47, 18, 52, 3, 170>>, FALSE),          \* 28 IOControlByIdentifier     2F 12 34 03 AA
  R(<<49, 1, 18, 52>>, FALSE),               \* 29 RoutineControl start      31 01 12 34
  R(<<49, 2, 18, 52, 170>>, FALSE),          \* 30 RoutineControl stop       31 02 12 34 AA
  R(<<49, 3, 18, 52>>, FALSE),               \* 31 RoutineControl results    31 03 12 34
  R(<<49, 129, 18, 52>>, FALSE),             \* 32 ... suppressPosRsp        31 81 12 34
  R(<<52, 0, 17, 35, 4>>, FALSE),            \* 33 RequestDownload           34 00 11 23 04
  R(<<53, 0, 17, 35, 4>>, FALSE),            \* 34 RequestUpload             35 00 11 23 04
  R(<<54, 1, 170, 187>>, FALSE),             \* 35 TransferData              36 01 AA BB
  R(<<55>>, FALSE),                          \* 36 RequestTransferExit       37
  R(<<186, 1>>, TRUE),                       \* 37 raw, vendor service       BA 01
  R(<<36, 18, 52>>, TRUE),                   \* 38 raw, ISO service w/o layout here  24 12 34
  R(<<34, 18, 52>>, TRUE),                   \* 39 raw bytes of a typed kind 22 12 34
  R(<<34>>, TRUE),                           \* 40 raw, too short            22
  R(<<133, 129>>, TRUE),                     \* 41 raw 85 81
  R(<<63, 0>>, TRUE)                         \* 42 raw 3F 00 (positive id would be 7F)
>>

N == Len(ReqTable)
(* all 256 response codes for: 0x22 (its sid is a defined NRC), 0x23 (its sid
   is a reserved NRC), 0x85 (sid >= 0x80, defined NRC) *)
Representative == {11, 13, 10}

RECURSIVE DidRecords(_, _)
DidRecords(req, j) ==
  IF 2 * j + 1 > Len(req) THEN << >>
  ELSE << req[2 * j], req[2 * j + 1], 170 + j >> \o DidRecords(req, j + 1)

Fill(n, b) == [i \in 1..n |-> b]

(* the genuine positive reply per ISO 14229-1 *)
Genuine(req) ==
  LET s  == req[1]
      sf == IF Len(req) >= 2 THEN req[2] % 128 ELSE 0 IN
  CASE s = 16 -> << 80, sf, 0, 50, 1, 244 >>
    [] s = 17 -> IF sf = 4 THEN << 81, sf, 10 >> ELSE << 81, sf >>
    [] s = 39 -> IF sf % 2 = 1 THEN << 103, sf, 222, 173 >> ELSE << 103, sf >>
    [] s = 40 -> << 104, sf >>
    [] s = 62 -> << 126, 0 >>
    [] s = 133 -> << 197, sf >>
    [] s = 34 -> IF Len(req) >= 3 THEN << 98 >> \o DidRecords(req, 1) ELSE << 98, 0, 0, 0 >>
    [] s = 35 -> << 99 >> \o Fill(RmbaSize(req), 85)
    [] s = 44 -> IF Len(req) >= 4 THEN << 108, sf, req[3], req[4] >> ELSE << 108, sf >>
    [] s = 46 -> << 110, req[2], req[3] >>
    [] s = 61 -> << 125 >> \o Echo(req)
    [] s = 20 -> << 84 >>
    [] s = 25 -> IF sf \in DtcCountTypes THEN << 89, sf, 255, 1, 0, 2 >>
                 ELSE IF sf = 6 THEN << 89, 6, req[3], req[4], req[5], 8, req[6], 1, 2 >>
                 ELSE << 89, sf, 255, 18, 52, 86, 8 >>
    [] s = 47 -> << 111, req[2], req[3], req[4], 0 >>
    [] s = 49 -> << 113, sf, req[3], req[4] >>
    [] s = 52 -> << 116, 32, 16, 0 >>
    [] s = 53 -> << 117, 32, 16, 0 >>
    [] s = 54 -> << 118, req[2] >>
    [] s = 55 -> << 119 >>
    [] OTHER  -> << (s + 64) % 256 >> \o Tail(req)

Bump(r, p, sfByte) == [r EXCEPT ![p] = IF sfByte THEN (r[p] + 1) % 128 ELSE (r[p] + 1) % 256]

NrcSample(i, s) == IF i \in Representative THEN 0..255
                   ELSE {49, 17, 120, 33, 1, 255, 149, 35, 133, s}
OtherSid(s) == IF s = 16 THEN 17 ELSE 16

(* the table with the genuine reply of every entry, as a set of concrete values *)
Entries == { [idx |-> i, req |-> ReqTable[i].req, raw |-> ReqTable[i].raw,
              gen |-> Genuine(ReqTable[i].req)] : i \in 1..N }

CasesOf(e, All) ==
  LET q == e.req
      s == e.req[1]
      g == e.gen
      k == Len(Echo(e.req))
      C(r, label) == [req |-> e.req, raw |-> e.raw, reply |-> r, cls |-> label] IN
       { C(g, "genuine") }
  \cup { C(o.gen, "other-positive") : o \in All \ {e} }
  \cup { C(Bump(g, p + 1, p = 1 /\ HasSf(s)), "echo-changed") :
            p \in 1..(IF ReqOk(q) /\ Len(g) > k THEN k ELSE 0) }
  \cup (IF HasSf(s) /\ Len(g) >= 2
        THEN { C([g EXCEPT ![2] = g[2] + 128], "suppress-bit"),
               C([g EXCEPT ![2] = ((g[2] + 1) % 128) + 128], "suppress-bit-other") }
        ELSE {})
  \cup { C(<< NEG, s, c >>, "neg-same") : c \in NrcSample(e.idx, s) }
  \cup { C(<< NEG, OtherSid(s), c >>, "neg-other") : c \in {49, 1, 255, 149, s} }
  \cup { C(<< NEG >>, "neg-len1"), C(<< NEG, s >>, "neg-same-len2"),
         C(<< NEG, OtherSid(s) >>, "neg-other-len2"),
         C(<< NEG, s, 49, 0 >>, "neg-same-len4"), C(<< NEG, s, 1, 0 >>, "neg-same-len4-reserved"),
         C(<< NEG, OtherSid(s), 49, 0 >>, "neg-other-len4") }
  \cup { C(SubSeq(g, 1, n), "truncated") : n \in 1..(Len(g) - 1) }
  \cup { C(g \o << 0 >>, "extended") }
  \cup { C(SubSeq(o.gen, 1, Min(n, Len(o.gen))), "other-truncated") : o \in All \ {e}, n \in {1, 2} }

(* (bound variables hold VALUES in TLC: the table is built once, not once per use) *)
MCCases == UNION { UNION { CasesOf(e, All) : e \in All } : All \in {Entries} }

(* reduced space for the negative controls: the three representative services
   plus the requests the deviations are about *)
SmallIdx == Representative \cup {16, 25}
MCCasesSmall == UNION { UNION { CasesOf(e, All) : e \in { x \in All : x.idx \in SmallIdx } } : All \in {Entries} }

(* sanity of the wrapper itself: the genuine reply of every well-formed,
   modelled request of the table is demanded to be accepted by the contract *)
ASSUME \A i \in 1..N :
         LET q == ReqTable[i].req IN
         (q[1] \in Modelled /\ ReqOk(q))
            => Allowed(q, ReqTable[i].raw, Genuine(q)) = {"Accept"}
=============================================================================
