--------------------------- MODULE MC_SessionScan ---------------------------
(* Model-checking wrapper of SessionScan: graph families and option sets
   (cfg files cannot hold tuples / sets of tuples).                          *)
EXTENDS SessionScan, Randomization

Back(S) == {<<s, Default>> : s \in S}                      \* ISO: default enterable from everywhere
Free(S) == {<<a, b>> : a \in S, b \in S \ {Default}}       \* the edges that are free under the assumption
IsoGraphs(S) == {Back(S) \cup F : F \in SUBSET Free(S)}
AllGraphs(S) == SUBSET (S \X S)

S3 == {1, 2, 3}
S4 == {1, 2, 3, 4}
S5 == {1, 2, 3, 4, 5}
\* candidates = the nodes plus one session id the ECU does not know
P3 == 1..4
P4 == 1..5
P5 == 1..6

Iso3 == IsoGraphs(S3)            \*  64 graphs
All3 == AllGraphs(S3)            \* 512 graphs (448 outside the assumption)
Iso4 == IsoGraphs(S4)            \* 4096 graphs
AllSkips3 == SUBSET S3
SmallSkips3 == {{}, {2}, {1}}
AllSkips4 == SUBSET S4
SmallSkips4 == {{}} \cup {{s} : s \in S4}
TinySkips4 == {{}, {2}}
D14 == 1..4
D13 == 1..3
D12 == 1..2
D15 == 1..5
BothModes == BOOLEAN
OnlyPlain == {FALSE}
OnlyThorough == {TRUE}

\* 5 sessions: 2^20 graphs are too many; shapes named in the quantifier of C09 --
\*  chains longer than the depth limit, unreachable components, sessions only reachable
\*  through non-default sessions, random graphs of varying density (with cycles).
Chain5 == {<<1, 2>>, <<2, 3>>, <<3, 4>>, <<4, 5>>}
Shapes5 ==
  {Back(S5) \cup Chain5 \cup X : X \in RandomSetOfSubsets(150, 2, Free(S5))}
  \cup {Back(S5) \cup {<<1, 2>>, <<2, 3>>} \cup X \cup Y : X \in SUBSET ({4, 5} \X {4, 5}),     \* unreachable component {4,5}
                                                     Y \in RandomSetOfSubsets(6, 1, {2, 3} \X {2, 3})}
  \cup {Back(S5) \cup X : X \in RandomSetOfSubsets(150, 3, Free(S5))}
  \cup {Back(S5) \cup X : X \in RandomSetOfSubsets(150, 7, Free(S5))}
  \cup {Back(S5) \cup X : X \in RandomSetOfSubsets(100, 13, Free(S5))}
Skips5 == {{}, {2}, {5}, {1}, {2, 4}}

\* spec -> code: behaviours of the design on 4-session graphs, request history kept;
\* every finished behaviour is exported (always TRUE, used as an INVARIANT with -workers 1)
SimGraphs4 == {Back(S4) \cup X : X \in RandomSetOfSubsets(7, 3, Free(S4))}
                \cup {Back(S4) \cup X : X \in RandomSetOfSubsets(7, 6, Free(S4))}
SimGraphs4T == {Back(S4) \cup X : X \in RandomSetOfSubsets(30, 3, Free(S4))}
                \cup {Back(S4) \cup X : X \in RandomSetOfSubsets(30, 6, Free(S4))}
                \cup {Back(S4) \cup X : X \in RandomSetOfSubsets(15, 9, Free(S4))}
SimSkips4 == {{}, {1}, {3}, {2, 4}}
Export == pc \in {"Done", "Abort"} =>
            PrintT(<<"B", [E |-> E, depth |-> depth, skip |-> skip, thorough |-> thorough, pc |-> pc,
                          hist |-> hist, result |-> result, rows |-> rows]>>)
=============================================================================
