SPECIFICATION Spec
CHECK_DEADLOCK FALSE
CONSTANTS
  Bools <- BoolsAll
  Resets <- ResetsAll
  Faults <- FaultsNone
  EcuResets <- EcuResetsNeg
  Silents <- Silents2
  MainMs <- MainMs1
  Export = FALSE
  Dev_S4_DbWarningRaises = FALSE
  Dev_NoTeardownAfterFailingMain = FALSE
  Dev_TpNotStopped = FALSE
INVARIANT Inv_D1_DbFaultTolerated
INVARIANT Inv_L1_MainOnce
INVARIANT Inv_L2_RunOutcome
INVARIANT Inv_R1_Reset
INVARIANT Inv_G1_Ping
INVARIANT Inv_G2_TesterPresent
INVARIANT Inv_G3_Stopped
INVARIANT Inv_H1_PropsRead
INVARIANT Inv_H2_PropsStored
INVARIANT Inv_H3_Compare
INVARIANT Inv_Verdict
INVARIANT Inv_Progress
