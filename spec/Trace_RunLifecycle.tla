------------------------ MODULE Trace_RunLifecycle ------------------------
(* Code -> spec for C15.  Every recorded execution of the real
   BaseCommand.entry_point() is a one-step trace  Case(c) -> Observed(o).
   TLC evaluates the contract (RunLifecycleContract!Labels) on it and prints a
   total verdict per execution:

     <<"V", id, verdict, labels, explain, blame>>

   verdict  "ok" or the label of the first clause broken ("malformed" if the
            observation record itself is ill-typed: machinery failure),
   labels   all broken clause labels, in statement order,
   explain  the smallest set of known deviations dv for which the design layer
            reproduces the observation exactly (Predict(c, dv) = o);
            {} = conforms to the intended design, {"none"} = no combination of
            known deviations explains it (a drift if the verdict is ok, an
            unexplained violation otherwise),
   blame    per broken label: the single deviations of `explain` that break
            that clause on their own for this case. *)
EXTENDS RunLifecycleSteps, Json, IOUtils

Batch == JsonDeserialize(IOEnv.TRACE_FILE)
T == Batch.traces

VARIABLES tid, verdict
tvars == <<tid, verdict>>

Out(x) ==
  LET c == x.c
      o == x.o
  IN IF ~ObsOK(o) THEN <<"V", x.id, "malformed", <<>>, {"none"}, <<>>>>
     ELSE LET labs == Labels(c, o)
              ex   == MinExplain(c, o)
          IN <<"V", x.id, Verdict(c, o), labs, ex, [i \in 1..Len(labs) |-> Blame(c, ex, labs[i])]>>

TInit == tid \in 1..Len(T) /\ verdict = "?"
TNext == /\ verdict = "?"
         /\ LET out == Out(T[tid]) IN verdict' = out[3] /\ PrintT(out)
         /\ tid' = tid
TSpec == TInit /\ [][TNext]_tvars
=============================================================================
