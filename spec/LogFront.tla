------------------------------ MODULE LogFront ------------------------------
(* Growth item X19 -- design layer: the logging front end of gallia shaped like
   the code (gallia/log.py, gallia/utils.py), checked against LogFrontContract.

   State: per logger node ("root" = logger "", "gallia") the console handlers
   installed by setup_logging (a sequence: the design has at most one, a
   deviation keeps the old ones), the file handlers of add_zst_log_handler
   (always on logger "gallia", as BaseCommand.entry_point does), what every sink
   received, the facts of the process environment (stderr a tty, NO_COLOR, the
   terminal width).  Actions: Setup (setup_logging), Add (add_zst_log_handler),
   Rm (remove_zst_log_handler), Log (a logger call on "gallia", a child of it or
   a logger outside the namespace), End.

   Every action appends the (action, observation) event the harness would have
   recorded to the contract state `cst` (LogFrontContract!Step), so that the
   invariants are the contract clauses themselves.  `hist` keeps the events for
   simulation export (KeepHist).

   Deviation constants (negative controls; *F1-F3 reproduce the tree as found):
     Dev_F1_AlwaysNeedsTty     _colorize_msg asks sys.stderr.isatty() again
     Dev_F2_ToLevelPartial     PenlogPriority.to_level raises for EMERGENCY / ALERT
     Dev_F3_VerboseWraps       get_log_level(n > 2) falls back to INFO
     Dev_NoCleanup             setup_logging keeps the handlers already installed
     Dev_NoHandlerLevel        the console listener ignores the handler level
     Dev_FileLevelFromConsole  the file handler takes the console's level
     Dev_RmLosesLast           closing a log file drops the record still queued
     Dev_RmKeepsRouting        a removed file handler still receives records
     Dev_AutoIgnoresNoColor    AUTO does not look at NO_COLOR
     Dev_NeverColours          NEVER still colours on a tty
     Dev_VolatileAll           volatile mode overwrites every level
     Dev_SetupKeepsLevel       a second setup_logging keeps the first level      *)
EXTENDS LogFrontContract

CONSTANTS Prios, EnvVals, Modes, Vols, Srcs, Shapes, Longs, SetupNodes,
          MaxLog, MaxSetup, MaxAdd, MaxSteps, KeepHist,
          Dev_F1_AlwaysNeedsTty, Dev_F2_ToLevelPartial, Dev_F3_VerboseWraps, Dev_NoCleanup,
          Dev_NoHandlerLevel, Dev_FileLevelFromConsole, Dev_RmLosesLast, Dev_RmKeepsRouting,
          Dev_AutoIgnoresNoColor, Dev_NeverColours, Dev_VolatileAll, Dev_SetupKeepsLevel

VARIABLES con, file, cst, hist, nlog, nsetup, nadd, tty, nocolor, cols, fin, lset
vars == <<con, file, cst, hist, nlog, nsetup, nadd, tty, nocolor, cols, fin, lset>>

Files == 1..2
Style(p) == CASE p = 2 -> "redbold" [] p = 3 -> "red" [] p = 4 -> "yellow" [] p = 5 -> "bold"
              [] p = 6 -> "nop" [] OTHER -> "gray"

\* ---------------------------------------------------------------- pure functions of the front end
DToLevel(p) == IF p >= 2 THEN p ELSE IF Dev_F2_ToLevelPartial THEN -1 ELSE 2     \* as a priority; -1: raises
DVerb(n) == IF n = 1 THEN 7 ELSE IF n = 2 THEN 8 ELSE IF n > 2 /\ ~Dev_F3_VerboseWraps THEN 8 ELSE 6
DFileLevel(hasTl, tl, verbose) == IF hasTl THEN (IF tl THEN 8 ELSE 7) ELSE IF verbose >= 2 THEN 8 ELSE 7
DResolve(mode, t, nc) ==
  CASE mode = "always" -> TRUE
    [] mode = "never" -> Dev_NeverColours /\ t
    [] OTHER -> IF nc /\ ~Dev_AutoIgnoresNoColor THEN FALSE ELSE t
PyOf == [p \in 2..8 |-> CASE p = 2 -> 50 [] p = 3 -> 40 [] p = 4 -> 30 [] p = 5 -> 25 [] p = 6 -> 20
                          [] p = 7 -> 10 [] OTHER -> 5]
NameOf == [p \in 2..8 |-> CASE p = 2 -> "CRITICAL" [] p = 3 -> "ERROR" [] p = 4 -> "WARNING" [] p = 5 -> "NOTICE"
                            [] p = 6 -> "INFO" [] p = 7 -> "DEBUG" [] OTHER -> "TRACE"]
DLevels == [kind |-> "levels",
            rows |-> [i \in 1..7 |-> [name |-> NameOf[i + 1], lv |-> PyOf[i + 1], prio |-> i + 1, back |-> PyOf[i + 1]]],
            tolevel |-> [i \in 1..9 |-> [p |-> i - 1, lv |-> IF DToLevel(i - 1) = -1 THEN -1 ELSE PyOf[DToLevel(i - 1)]]]]

\* ---------------------------------------------------------------- rendering (_format_record)
Chunk(c, p, shape, long, t) ==
  LET colored == c.colored /\ (Dev_F1_AlwaysNeedsTty => t)
      volatile == c.vol /\ (p >= 6 \/ Dev_VolatileAll)
      cut == volatile /\ long
  IN [sgr |-> IF colored THEN (IF p = 6 THEN 0 ELSE IF p = 2 THEN 2 ELSE 1) ELSE 0,
      rst |-> (IF colored /\ ~cut THEN 1 ELSE 0) + (IF volatile THEN 1 ELSE 0),
      esc |-> IF c.vol THEN 1 ELSE 0,
      whole |-> ~cut, name |-> ~cut, tags |-> ~cut, trace |-> shape = "exc" /\ ~cut,
      end |-> IF volatile THEN "cr" ELSE "nl",
      vis |-> IF cut THEN cols - 1 ELSE IF long THEN cols + 60 ELSE 50,
      th |-> 0, tm |-> 0, tsec |-> 0, tms |-> 0,
      style |-> IF colored THEN Style(p) ELSE "nop", colored |-> colored \/ volatile]
\* logging.lastResort: nobody handles the record => WARNING and above go to stderr as bare text
Bare(shape) == [sgr |-> 0, rst |-> 0, esc |-> 0, whole |-> TRUE, name |-> FALSE, tags |-> shape # "tags",
                trace |-> shape = "exc", end |-> "nl", vis |-> 20, th |-> -1, tm |-> -1, tsec |-> -1, tms |-> -1,
                style |-> "nop", colored |-> FALSE]

\* ---------------------------------------------------------------- state machine
Emit(e) == /\ cst' = Step(cst, e)
           /\ hist' = IF KeepHist THEN Append(hist, e) ELSE hist

Init == /\ con = [n \in Nodes |-> <<>>]
        /\ file = [f \in Files |-> [st |-> "none", lvl |-> -1, out |-> <<>>, rmlen |-> 0]]
        /\ cst = St0 /\ hist = <<>>
        /\ nlog = 0 /\ nsetup = 0 /\ nadd = 0 /\ fin = FALSE
        /\ tty \in BOOLEAN /\ nocolor \in BOOLEAN /\ cols = 80
        /\ lset = {}     \* loggers whose level setup_logging has set to 1 (before: root WARNING, others NOTSET)

Going == ~fin /\ nlog + nsetup + nadd < MaxSteps

Setup(node, lvl, envp, mode, vol) ==
  /\ Going /\ nsetup < MaxSetup
  /\ LET p0 == IF lvl # -1 THEN lvl ELSE IF envp = -1 THEN 7 ELSE DToLevel(envp)
         raises == p0 = -1
         keep == Dev_SetupKeepsLevel /\ con[node] # <<>>
         c == [lvl |-> IF keep THEN con[node][1].lvl ELSE p0, colored |-> DResolve(mode, tty, nocolor), vol |-> vol]
         e == [a |-> "setup", node |-> node, lvl |-> lvl, envp |-> envp, mode |-> mode, tty |-> tty,
               nocolor |-> nocolor, vol |-> vol, cols |-> cols, ok |-> ~raises]
     IN /\ Emit(e)
        /\ IF raises
           THEN fin' = TRUE /\ UNCHANGED <<con, file, lset>>
           ELSE /\ fin' = FALSE
                /\ lset' = lset \cup {node}
                /\ con' = [con EXCEPT ![node] = (IF Dev_NoCleanup THEN @ ELSE <<>>) \o <<c>>]
                \* setup_logging removes EVERY handler of the logger, also the queue handlers of open log files
                /\ file' = [f \in Files |-> IF node = "gallia" /\ file[f].st = "open" /\ ~Dev_NoCleanup
                                            THEN [file[f] EXCEPT !.st = "detached"] ELSE file[f]]
  /\ nsetup' = nsetup + 1
  /\ UNCHANGED <<nlog, nadd, tty, nocolor, cols>>

Add(f, lvl) ==
  /\ Going /\ nadd < MaxAdd /\ file[f].st \in {"none", "closed"}
  /\ LET l == IF Dev_FileLevelFromConsole /\ con["gallia"] # <<>> THEN con["gallia"][1].lvl
              ELSE IF Dev_FileLevelFromConsole /\ con["root"] # <<>> THEN con["root"][1].lvl ELSE lvl
     IN file' = [file EXCEPT ![f] = [st |-> "open", lvl |-> l, out |-> <<>>, rmlen |-> 0]]
  /\ Emit([a |-> "add", f |-> f, lvl |-> lvl, ok |-> TRUE])
  /\ nadd' = nadd + 1
  /\ UNCHANGED <<con, nlog, nsetup, tty, nocolor, cols, fin, lset>>

Rm(f) ==
  /\ ~fin /\ file[f].st \in {"open", "detached"}
  /\ LET o == file[f].out
         got == IF Dev_RmLosesLast /\ Len(o) > 0 THEN SubSeq(o, 1, Len(o) - 1) ELSE o
     IN /\ file' = [file EXCEPT ![f] = [@ EXCEPT !.st = IF Dev_RmKeepsRouting THEN "zombie" ELSE "closed", !.out = got,
                                                  !.rmlen = Len(got)]]
        /\ Emit([a |-> "rm", f |-> f, ok |-> TRUE, got |-> got])
  /\ UNCHANGED <<con, nlog, nsetup, nadd, tty, nocolor, cols, fin, lset>>

ChunksAt(node, src, p, shape, long) ==
  IF ~Covers(node, src) THEN <<>>
  ELSE LET hit == SelectSeq(con[node], LAMBDA c : p <= c.lvl \/ Dev_NoHandlerLevel)
       IN [i \in 1..Len(hit) |-> Chunk(hit[i], p, shape, long, tty)]

Log(src, prio, shape, long) ==
  /\ Going /\ nlog < MaxLog
  /\ LET p == IF shape = "result" THEN 5 ELSE prio
         w0 == ChunksAt("gallia", src, p, shape, long) \o ChunksAt("root", src, p, shape, long)
         found == Len(con["root"]) + (IF Covers("gallia", src) THEN Len(con["gallia"]) ELSE 0)
                  + Cardinality({f \in Files : file[f].st = "open" /\ Covers("gallia", src)})
         \* Logger.isEnabledFor: the effective level is 1 once setup_logging configured the logger or an ancestor,
         \* before that the root logger's WARNING
         enabled == (src \in {"gallia", "child"} /\ "gallia" \in lset) \/ "root" \in lset \/ p <= 4
         w == IF ~enabled THEN <<>> ELSE IF found = 0 /\ p <= 4 THEN <<Bare(shape)>> ELSE w0
         takes(f) == /\ enabled /\ file[f].st \in {"open", "zombie"} /\ Covers("gallia", src) /\ p <= file[f].lvl
     IN /\ file' = [f \in Files |-> IF takes(f) THEN [file[f] EXCEPT !.out = Append(@, nlog + 1)] ELSE file[f]]
        /\ Emit([a |-> "log", id |-> nlog + 1, src |-> src, prio |-> p, shape |-> shape, long |-> long,
                 eh |-> 0, em |-> 0, es |-> 0, ems |-> 0, w |-> w])
  /\ nlog' = nlog + 1
  /\ UNCHANGED <<con, nsetup, nadd, tty, nocolor, cols, fin, lset>>

End ==
  /\ ~fin /\ \A f \in Files : file[f].st \notin {"open", "detached"}
  /\ Emit([a |-> "end", files |-> [f \in Files |-> file[f].out],
           late |-> [f \in Files |-> IF file[f].st = "zombie" THEN Len(file[f].out) - file[f].rmlen ELSE 0]])
  /\ fin' = TRUE
  /\ UNCHANGED <<con, file, nlog, nsetup, nadd, tty, nocolor, cols, lset>>

SetupArgs == {<<l, -1>> : l \in Prios} \cup {<<-1, v>> : v \in EnvVals}

Next == \/ \E node \in SetupNodes, la \in SetupArgs, mode \in Modes, vol \in Vols : Setup(node, la[1], la[2], mode, vol)
        \/ \E f \in Files, l \in Prios : Add(f, l)
        \/ \E f \in Files : Rm(f)
        \/ \E s \in Srcs, p \in Prios, sh \in Shapes, lg \in Longs : Log(s, p, sh, lg)
        \/ End

Spec == Init /\ [][Next]_vars

\* ---------------------------------------------------------------- the contract as invariants
Now == ClosePalette(ClosePalette(cst, "root"), "gallia").bad
Inv_S1 == Now \notin {"S1/console-missing", "S1/console-below-level"}
Inv_S2 == Now \notin {"S2/file-holds-record-it-must-not", "S2/file-misses-record"}
Inv_S3 == Now \notin {"S3/console-duplicate", "S3/file-duplicate"}
Inv_S4 == Now # "S4/file-order"
Inv_S6 == Now \notin {"S6/remove-file-handler-raised", "S6/closed-file-changed", "S6/removed-handler-still-receives",
                      "S0/add-file-handler-raised"}
Inv_E1 == Now # "E1/setup-raised-for-documented-level"
Inv_K1 == Now # "K1/always-without-colour-codes"
Inv_K2 == Now \notin {"K2/colour-codes-with-colours-off", "K2/escape-codes-with-colours-off"}
Inv_K3 == Now # "K3/auto-on-a-tty-without-colour-codes"
Inv_O1 == Now \notin {"O1/message-not-complete", "O1/line-not-terminated"}
Inv_O3 == Now \notin {"O3/volatile-line-not-overwritable", "O3/volatile-line-wider-than-terminal",
                      "O3/volatile-line-cut-more-than-needed"}
Inv_R  == Now \notin {"R2/logger-name-missing", "R3/tags-missing", "R4/stack-trace-missing", "R5/timestamp"}
Inv_Ok == Now = "ok"

Inv_V  == fin \in BOOLEAN /\ \A n \in 0..6 : VerbVerdict([n |-> n, prio |-> DVerb(n)]) = "ok"
Inv_V3 == fin \in BOOLEAN /\ \A h \in BOOLEAN, t \in BOOLEAN, v \in 0..3 :
            FileLevelVerdict([has_tl |-> h, tl |-> h /\ t, verbose |-> v, prio |-> DFileLevel(h, h /\ t, v)]) = "ok"
Inv_M  == fin \in BOOLEAN /\ LevelsVerdict(DLevels) = "ok"
\* K1 as a pair: ALWAYS prints the same on a tty and elsewhere
Inv_K1pair == \A p \in 2..8, v \in BOOLEAN :
                LET c == [lvl |-> 8, colored |-> DResolve("always", FALSE, FALSE), vol |-> v]
                    d == [lvl |-> 8, colored |-> DResolve("always", TRUE, TRUE), vol |-> v]
                IN Chunk(c, p, "plain", FALSE, FALSE) = Chunk(d, p, "plain", FALSE, TRUE)
=============================================================================
