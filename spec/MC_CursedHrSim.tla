--------------------------- MODULE MC_CursedHrSim ---------------------------
EXTENDS MC_CursedHr
(* spec -> code: behaviours for replay into the real viewer; `lastkey` is a history variable naming the key of the
   step (simulation only: it would keep equal states apart in exhaustive runs) *)
VARIABLE lastkey
SimInit == Init /\ lastkey = [t |-> "", n |-> 0]
SimNext == \E key \in KeysOf(s) : (key.t # "quit" \/ TLCGet("level") > 10) /\ Do(key) /\ lastkey' = key
SimSpec == SimInit /\ [][SimNext]_<<vars, lastkey>>
MCLogsSim == MCLogs3 \cup MCLogs4
MCHeightsSim == {4, 5, 7}
MCLevelsSim == {5, 7, 8}
=============================================================================
