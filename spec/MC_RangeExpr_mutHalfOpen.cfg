SPECIFICATION Spec
CONSTANTS
  Asts1 <- S_Asts1
  Asts2 <- S_Asts2
  Export = FALSE
  Dev_Mut_HalfOpenRange = TRUE
  Dev_Mut_KeyedOverridesAll = FALSE
INVARIANT TypeOK
INVARIANT D1_SortedUnion
INVARIANT D2_NothingLost
INVARIANT D2_NothingAdded
INVARIANT D2_Partial
INVARIANT E1_OuterKeys
INVARIANT E2_BareMeansAll
INVARIANT E3_InnerUnion
INVARIANT VerdictOk
CHECK_DEADLOCK FALSE
