------------------------------ MODULE Reconnect ------------------------------
(* Design layer of C08: one UDS client request over a connection the peer may
   cut once, at any phase, in one of three ways; the peer may come back.
   Shaped like UDSClient.request_unsafe + BaseTransport.reconnect:

     send      transport.write(): succeeds unless the connection is already reset/closed
     wait      transport.read() with the caller's timeout
     timeout   => resend on the same connection (no reconnect)         [if attempts left]
     conn.err  => back-off, reconnect (close + connect), resend         [if attempts left]
     reconnect one attempt (line transports, HSFZ) or repeated attempts within a window (DoIP)

   Dev_S15_WaiterNotWoken reproduces the pinned DoIP/HSFZ connections: a reader
   blocked on the frame queue is not woken when the reader task dies on EOF; it
   only ends through the caller's timeout (and never without one).
*)
EXTENDS Naturals, Sequences, FiniteSets, TLC

CONSTANTS MaxRetry, HasTimeout, Retrying, Dev_S15_WaiterNotWoken

VARIABLES conn, peer, phase, attempt, outcome, cutKind, upAtReconnect
vars == <<conn, peer, phase, attempt, outcome, cutKind, upAtReconnect>>

Init == /\ conn = "up" /\ peer = "up" /\ phase = "send" /\ attempt = 0
        /\ outcome = "none" /\ cutKind = "none" /\ upAtReconnect = TRUE

Cut(k) == /\ cutKind = "none" /\ conn = "up" /\ phase \in {"send", "wait"}
          /\ (k = "silent" => HasTimeout)   \* silence without a caller timeout may block: that is specified
          /\ conn' = k /\ cutKind' = k
          /\ peer' = IF k \in {"eof", "reset"} THEN "down" ELSE "up"
          /\ UNCHANGED <<phase, attempt, outcome, upAtReconnect>>

Restart == /\ peer = "down" /\ peer' = "up"
           /\ UNCHANGED <<conn, phase, attempt, outcome, cutKind, upAtReconnect>>

Done(o) == phase' = "done" /\ outcome' = o

OnConnErr == IF attempt < MaxRetry THEN phase' = "reconnect" /\ UNCHANGED outcome ELSE Done("missing")
OnTimeout == IF attempt < MaxRetry THEN phase' = "send" /\ attempt' = attempt + 1 /\ UNCHANGED outcome
             ELSE Done("missing") /\ UNCHANGED attempt

Send == /\ phase = "send"
        /\ IF conn \in {"reset", "closed"} THEN OnConnErr ELSE phase' = "wait" /\ UNCHANGED outcome
        /\ UNCHANGED <<conn, peer, attempt, cutKind, upAtReconnect>>

Reply == /\ phase = "wait" /\ conn = "up" /\ Done("reply")
         /\ UNCHANGED <<conn, peer, attempt, cutKind, upAtReconnect>>

\* the loss is noticed by the pending read
Notice == /\ phase = "wait" /\ conn \in {"eof", "reset"}
          /\ ~(Dev_S15_WaiterNotWoken /\ conn = "eof")
          /\ OnConnErr
          /\ UNCHANGED <<conn, peer, attempt, cutKind, upAtReconnect>>

Timeout == /\ phase = "wait" /\ HasTimeout
           /\ conn = "silent" \/ (Dev_S15_WaiterNotWoken /\ conn = "eof")
           /\ OnTimeout
           /\ (IF Dev_S15_WaiterNotWoken /\ conn = "eof" THEN conn' = "closed" ELSE UNCHANGED conn)
           /\ UNCHANGED <<peer, cutKind, upAtReconnect>>

ReconnectOk == /\ phase = "reconnect" /\ peer = "up"
               /\ conn' = "up" /\ attempt' = attempt + 1 /\ phase' = "send"
               /\ UNCHANGED <<peer, outcome, cutKind, upAtReconnect>>

\* the peer is (still) down: a single attempt fails at once; a retrying transport may also give up
ReconnectFail == /\ phase = "reconnect" /\ peer = "down"
                 /\ upAtReconnect' = FALSE
                 /\ IF Retrying THEN (UNCHANGED <<phase, outcome>> \/ Done("error")) ELSE Done("error")
                 /\ UNCHANGED <<conn, peer, attempt, cutKind>>

Client == Send \/ Reply \/ Notice \/ Timeout \/ ReconnectOk \/ ReconnectFail
Next == (\E k \in {"eof", "reset", "silent"} : Cut(k)) \/ Restart \/ Client
Spec == Init /\ [][Next]_vars /\ WF_vars(Client) /\ WF_vars(Restart)

L1_Ends == <>(phase = "done")
L3_Recovers == (phase = "done" /\ MaxRetry >= 1 /\ cutKind \in {"eof", "reset"} /\ upAtReconnect) => outcome = "reply"
L2_NoFabrication == outcome = "reply" => conn = "up"
=============================================================================
