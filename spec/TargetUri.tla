------------------------------ MODULE TargetUri ------------------------------
(* Design layer for the URI half of C20: a small machine shaped like the code
   path  TargetURI.from_parts -> str -> TargetURI(...) -> hostname / port /
   qs_flat -> <Transport>Config(qs_flat as keywords)  and like net.join_host_port /
   net.split_host_port, on character level for the host:port part (texts are
   sequences of character codes).

   The environment is the choice of the case (Init): host class x port
   {none, 0, 1, 65535} x transport x subset of the transport's settings x
   integer notation (two families: Subs x Notas and Subs2 x Notas2), or a
   host/port pair (x default port) for split/join.  One action per function of the
   code path.  Property: the result is accepted by the contract
   (TargetUriContract), clause by clause.  With Export = TRUE every finished
   case is printed <<"C", ...>> for the harness, which concretises it and runs
   the real code (spec -> code).

   Deviation constants (FALSE = intended design; TRUE reproduces the defect of
   the pinned tree and must make TLC find a counterexample):
     Dev_S27_Ipv6JoinLiteral      join_host_port returns "[host]:port" literally
     Dev_S28_PortZero             split_host_port replaces port 0 by the default
     Dev_N1_Ipv6NoPortUnbracketed from_parts without a port does not bracket an
                                  IPv6 host                                     *)
EXTENDS TargetUriContract, SequencesExt, TLC

CONSTANTS Subs(_), Notas, Subs2(_), Notas2, HostClasses, HostOf(_), Export,
          Dev_S27_Ipv6JoinLiteral, Dev_S28_PortZero, Dev_N1_Ipv6NoPortUnbracketed

VARIABLES case, netloc, parsed, cfg, pc
vars == <<case, netloc, parsed, cfg, pc>>

LBR == 91
RBR == 93

----------------------------------------------------------------------------
(* the transports' settings as the code declares them:
   kind: int / bool; cls: "addr" (scanners write it in hex) / "dec" (scanners
   write it in decimal) / "bool"; base0: the Config class parses it with
   int(v, 0); req: no default *)
F(n, kind, cls, base0, req) == [n |-> n, kind |-> kind, cls |-> cls, base0 |-> base0, req |-> req]
Fields(tr) ==
  CASE tr = "doip" ->
        << F("src_addr", "int", "addr", TRUE, TRUE), F("target_addr", "int", "addr", TRUE, TRUE),
           F("activation_type", "int", "addr", TRUE, FALSE), F("protocol_version", "int", "dec", TRUE, FALSE) >>
    [] tr = "hsfz" ->
        << F("src_addr", "int", "addr", TRUE, TRUE), F("dst_addr", "int", "addr", TRUE, TRUE),
           F("ack_timeout", "int", "dec", FALSE, FALSE) >>
    [] tr = "isotp" ->
        << F("src_addr", "int", "addr", TRUE, TRUE), F("dst_addr", "int", "addr", TRUE, TRUE),
           F("is_extended", "bool", "bool", FALSE, FALSE), F("is_fd", "bool", "bool", FALSE, FALSE),
           F("frame_txtime", "int", "dec", FALSE, FALSE), F("ext_address", "int", "addr", TRUE, FALSE),
           F("rx_ext_address", "int", "addr", TRUE, FALSE), F("tx_padding", "int", "dec", TRUE, FALSE),
           F("rx_padding", "int", "dec", TRUE, FALSE), F("tx_dl", "int", "dec", FALSE, FALSE) >>

RECURSIVE DigitsOf(_, _)
DigitsOf(n, r) == IF n < r THEN <<n>> ELSE Append(DigitsOf(n \div r, r), n % r)
DecCodes(n) == LET d == DigitsOf(n, 10) IN [i \in 1..Len(d) |-> 48 + d[i]]

RadixFor(nota, i, cls) ==
  CASE nota = "scanner" -> IF cls = "addr" THEN 16 ELSE 10
    [] nota = "dec" -> 10 [] nota = "hex" -> 16 [] nota = "oct" -> 8 [] nota = "bin" -> 2
    [] nota = "mixed" -> <<10, 16, 8, 2>>[(i % 4) + 1]

FieldVal(i) == 9 + 7 * i   \* some value per setting; the harness picks real ones

\* the settings of a case, in the form the contract judges
SettingOf(tr, nota, i) ==
  LET f == Fields(tr)[i]
      r == RadixFor(nota, i, f.cls)
  IN [k |-> f.n, kind |-> f.kind, r |-> r, ds |-> DigitsOf(FieldVal(i), r), b |-> (i % 2 = 1),
      must |-> (f.kind = "bool" \/ f.cls = "addr" \/ r = 10)]
Idx(c) == SetToSortSeq(c.fields, LAMBDA a, b : a < b)
Settings(c) == LET ix == Idx(c) IN [j \in 1..Len(ix) |-> SettingOf(c.tr, c.nota, ix[j])]
Complete(c) == \A i \in 1..Len(Fields(c.tr)) : Fields(c.tr)[i].req => i \in c.fields
\* the parameter map as text: key and the literal as written
Params(c) == LET s == Settings(c) IN
  [j \in 1..Len(s) |-> [k |-> s[j].k, s |-> IF s[j].kind = "bool" THEN <<0, <<IF s[j].b THEN 1 ELSE 0>>>> ELSE <<s[j].r, s[j].ds>>]]

----------------------------------------------------------------------------
(* net.join_host_port *)
JoinHP(h, p) ==
  IF Has(h, COLON)
  THEN <<LBR>> \o h \o <<RBR, COLON>> \o (IF Dev_S27_Ipv6JoinLiteral THEN <<112, 111, 114, 116>> ELSE DecCodes(p))
  ELSE h \o <<COLON>> \o DecCodes(p)

(* TargetURI.from_parts: the netloc *)
NetlocOf(h, p) ==
  IF p # NoPort THEN JoinHP(h, p)
  ELSE IF Has(h, COLON) /\ ~Dev_N1_Ipv6NoPortUnbracketed THEN <<LBR>> \o h \o <<RBR>>
  ELSE h

(* what the user writes for host h and port p *)
Written(h, p) ==
  IF p = NoPort THEN h
  ELSE IF Has(h, COLON) THEN <<LBR>> \o h \o <<RBR, COLON>> \o DecCodes(p)
  ELSE h \o <<COLON>> \o DecCodes(p)

(* urllib: hostname / port of a netloc *)
IsDigits(s) == \A i \in 1..Len(s) : s[i] \in 48..57
NumOf(s) == LET f[i \in 0..Len(s)] == IF i = 0 THEN 0 ELSE f[i - 1] * 10 + (s[i] - 48) IN f[Len(s)]
PortOf(s) == IF Len(s) = 0 THEN [t |-> "ok", port |-> NoPort]
             ELSE IF IsDigits(s) /\ Len(s) <= 5 /\ NumOf(s) <= 65535 THEN [t |-> "ok", port |-> NumOf(s)]
             ELSE [t |-> "err"]
UrlHostPort(n) ==
  IF Len(n) > 0 /\ n[1] = LBR THEN
    LET rb == FirstPos(n, RBR)
        rest == SubSeq(n, rb + 1, Len(n))
        po == IF Len(rest) > 0 /\ rest[1] = COLON THEN PortOf(Tail(rest)) ELSE [t |-> "ok", port |-> NoPort]
    IN IF po.t = "err" THEN [t |-> "err"] ELSE [t |-> "ok", host |-> SubSeq(n, 2, rb - 1), port |-> po.port]
  ELSE
    LET c == FirstPos(n, COLON)
        po == IF c > Len(n) THEN [t |-> "ok", port |-> NoPort] ELSE PortOf(SubSeq(n, c + 1, Len(n)))
    IN IF po.t = "err" THEN [t |-> "err"] ELSE [t |-> "ok", host |-> SubSeq(n, 1, c - 1), port |-> po.port]

(* net.split_host_port *)
IsBareV6(s) == Len(s) > 0 /\ s[1] # LBR /\ Has(s, COLON)
               /\ V6Groups(SubSeq(s, 1, FirstPos(s, PERCENT) - 1)) # <<>>
SplitHP(s, dflt) ==
  IF IsBareV6(s) THEN [t |-> "ok", host |-> s, port |-> dflt]
  ELSE LET u == UrlHostPort(s) IN
       IF u.t = "err" THEN u
       ELSE [t |-> "ok", host |-> u.host,
             port |-> IF u.port = NoPort \/ (Dev_S28_PortZero /\ u.port = 0) THEN dflt ELSE u.port]

(* <Transport>Config(qs_flat as keywords) *)
ConfigOf(c) ==
  LET s == Settings(c)
      ix == Idx(c)
      accepts(j) == s[j].kind = "bool" \/ Fields(c.tr)[ix[j]].base0 \/ s[j].r = 10
  IN IF ~Complete(c) \/ \E j \in 1..Len(s) : ~accepts(j) THEN [t |-> "err"]
     ELSE [t |-> "ok", vals |-> [j \in 1..Len(s) |-> [k |-> s[j].k, v |-> SettingValue(s[j])]]]

----------------------------------------------------------------------------
None == [t |-> "none"]
Ports  == {NoPort, 0, 1, 65535}
AllNotas == {"scanner", "dec", "hex", "oct", "bin", "mixed"}
Trs    == {"doip", "hsfz", "isotp"}
Dflts  == {NoPort, 7}
\* nested quantifiers, not one big set of records: TLC enumerates them lazily
InitCase ==
  \/ \E tr \in Trs, hc \in HostClasses, p \in Ports, n \in Notas : \E fs \in Subs(tr) :
       case = [mode |-> "uri", tr |-> tr, hc |-> hc, host |-> HostOf(hc), port |-> p, fields |-> fs, nota |-> n]
  \/ \E tr \in Trs, hc \in HostClasses, p \in Ports, n \in Notas2 : \E fs \in Subs2(tr) :
       case = [mode |-> "uri", tr |-> tr, hc |-> hc, host |-> HostOf(hc), port |-> p, fields |-> fs, nota |-> n]
  \/ \E hc \in HostClasses, p \in Ports \ {NoPort}, d \in Dflts :
       case = [mode |-> "hp", hc |-> hc, host |-> HostOf(hc), port |-> p, dflt |-> d]
  \/ \E hc \in HostClasses, p \in Ports, d \in Dflts :
       case = [mode |-> "split", hc |-> hc, host |-> HostOf(hc), port |-> p, dflt |-> d]
Init == /\ InitCase
        /\ netloc = <<>> /\ parsed = None /\ cfg = None /\ pc = "start"

\* mode "uri": TargetURI.from_parts(...) -> str
BuildWithPort ==
  /\ pc = "start" /\ case.mode = "uri" /\ case.port # NoPort
  /\ netloc' = NetlocOf(case.host, case.port) /\ pc' = "built"
  /\ UNCHANGED <<case, parsed, cfg>>
BuildNoPort ==
  /\ pc = "start" /\ case.mode = "uri" /\ case.port = NoPort
  /\ netloc' = NetlocOf(case.host, case.port) /\ pc' = "built"
  /\ UNCHANGED <<case, parsed, cfg>>
\* TargetURI(str): scheme, hostname, port, qs_flat, location
ParseUri ==
  /\ pc = "built" /\ case.mode = "uri"
  /\ LET u == UrlHostPort(netloc) IN
       parsed' = IF u.t = "err" THEN [t |-> "err", stage |-> "parse"]
                 ELSE [t |-> "ok", scheme |-> case.tr, host |-> u.host, port |-> u.port,
                       params |-> Params(case), lhost |-> u.host, lport |-> u.port]
  /\ pc' = "parsed"
  /\ UNCHANGED <<case, netloc, cfg>>
Configure ==
  /\ pc = "parsed" /\ case.mode = "uri"
  /\ cfg' = ConfigOf(case) /\ pc' = "done"
  /\ (Export => PrintT(<<"C", "uri", case.tr, case.hc, case.port, Idx(case), case.nota, parsed.t, cfg'.t>>))
  /\ UNCHANGED <<case, netloc, parsed>>

\* mode "hp": split_host_port(join_host_port(h, p));  mode "split": split of the written text
Join ==
  /\ pc = "start" /\ case.mode = "hp"
  /\ netloc' = JoinHP(case.host, case.port) /\ pc' = "built"
  /\ UNCHANGED <<case, parsed, cfg>>
Write ==
  /\ pc = "start" /\ case.mode = "split"
  /\ netloc' = Written(case.host, case.port) /\ pc' = "built"
  /\ UNCHANGED <<case, parsed, cfg>>
Split ==
  /\ pc = "built" /\ case.mode \in {"hp", "split"}
  /\ parsed' = SplitHP(netloc, case.dflt) /\ pc' = "done"
  /\ (Export => PrintT(<<"C", case.mode, case.hc, case.port, case.dflt, parsed'.t>>))
  /\ UNCHANGED <<case, netloc, cfg>>

Next == BuildWithPort \/ BuildNoPort \/ ParseUri \/ Configure \/ Join \/ Write \/ Split
Spec == Init /\ [][Next]_vars /\ WF_vars(Next)

----------------------------------------------------------------------------
ASSUME Notas \subseteq AllNotas /\ Notas2 \subseteq AllNotas
TypeOK == pc \in {"start", "built", "parsed", "done"} /\ parsed.t \in {"none", "ok", "err"}
                                                       /\ cfg.t \in {"none", "ok", "err"}
DoneUri   == pc = "done" /\ case.mode = "uri"
UriV      == VerdictUri(case.tr, case.host, case.port, Params(case), parsed)
\* one invariant per clause
U0_RoundTripTotal == DoneUri => parsed.t = "ok"
U1_Scheme         == DoneUri => UriV # "U1/scheme-changed"
U2_Host           == DoneUri => UriV # "U2/host-changed"
U3_Port           == DoneUri => UriV # "U3/port-changed"
U4_Params         == DoneUri => UriV # "U4/parameters-changed"
U5_Location       == DoneUri => UriV # "U5/location-changed"
T_Config          == DoneUri => VerdictConfig(Settings(case), Complete(case), cfg) = "ok"
H1_JoinSplit      == (pc = "done" /\ case.mode = "hp") => VerdictJoinSplit(case.host, case.port, parsed) = "ok"
H2_Split          == (pc = "done" /\ case.mode = "split")
                       => VerdictSplit(case.host, case.port, case.dflt, parsed) = "ok"
Terminates        == <>(pc = "done")
=============================================================================
