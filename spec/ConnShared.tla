----------------------------- MODULE ConnShared -----------------------------
(* Design layer shared by C06 / C07: TWO tasks of the caller on ONE DoIP / HSFZ connection --
   a reader R (transport.read(): waits for a diagnostic message) and a writer W (transport.write():
   sends, then waits for the gateway's acknowledgement).  Both consume the same frame queue that the
   connection's reader task fills (asyncio.Queue: the longest waiting getter is served first); a frame a
   task is not waiting for is kept in the task's LOCAL list and handed back, in front, when its operation
   ends (DoIPConnection.read_diag_request_raw / HSFZConnection.read_diag_request, _read_ack).

   Locking as implemented (gallia/transports/doip.py, hsfz.py after b4d54b1):
     read_frame()              = async with mutex: read_frame_unsafe()      (per frame)
     write_*_request_raw()     = async with mutex: send; wait for the ack with read_frame_unsafe()
   so a getter can only be registered on the queue by the task that holds the mutex.

   Dev_ReaderNoMutex reproduces HSFZ as found (and seed-c06-4 for DoIP): read_frame() does not take
   the mutex; the blocked reader is the longest waiting getter and takes the writer's acknowledgement.
   Kept as negative control: must violate AckedWriteSucceeds.

   Timers: maximal progress (a timeout fires only when no step of the client is enabled); the gateway
   may send its frames at any time after the request went out, in any order, or never.
*)
EXTENDS Naturals, Sequences, FiniteSets, TLC

CONSTANTS MaxData,            \* diagnostic messages the gateway may send
          Dev_ReaderNoMutex

VARIABLES q,        \* frames queued by the connection's reader task: <<"ack", 0>> | <<"data", n>>
          unread,   \* frames handed back by finished operations (served before q)
          lockq,    \* FIFO of tasks waiting for / holding the mutex; Head = holder
          getters,  \* FIFO of tasks blocked in queue.get()
          rpc, wpc, \* "idle" | "lock" | "get" | "done"        (W also "send")
          rloc, wloc, \* local lists of skipped frames
          sentOut, ackSent, ndata, delivered, rres, wres, ackMissed

vars == <<q, unread, lockq, getters, rpc, wpc, rloc, wloc, sentOut, ackSent, ndata, delivered, rres, wres, ackMissed>>

Ack == <<"ack", 0>>
IsData(f) == f[1] = "data"

Init ==
  /\ q = <<>> /\ unread = <<>> /\ lockq = <<>> /\ getters = <<>>
  /\ rpc = "idle" /\ wpc = "idle" /\ rloc = <<>> /\ wloc = <<>>
  /\ sentOut = FALSE /\ ackSent = FALSE /\ ndata = 0 /\ delivered = <<>>
  /\ rres = "none" /\ wres = "none" /\ ackMissed = FALSE

Holder == IF lockq = <<>> THEN "none" ELSE Head(lockq)
Avail == unread # <<>> \/ q # <<>>
NextFrame == IF unread # <<>> THEN Head(unread) ELSE Head(q)
PopFrame == IF unread # <<>> THEN unread' = Tail(unread) /\ UNCHANGED q
            ELSE q' = Tail(q) /\ UNCHANGED unread
\* pop the frame the task consumes and hand its skipped frames back in front
PopAndHandBack(loc) == IF unread # <<>> THEN unread' = loc \o Tail(unread) /\ UNCHANGED q
                       ELSE unread' = loc /\ q' = Tail(q)
Release(t) == lockq' = IF Holder = t THEN Tail(lockq) ELSE lockq
Remove(s, t) == SelectSeq(s, LAMBDA x : x # t)

----------------------------------------------------------------------------
(* gateway: acknowledges the request once, sends up to MaxData messages for us *)
GwAck  == /\ sentOut /\ ~ackSent /\ ackSent' = TRUE /\ q' = Append(q, Ack)
          /\ UNCHANGED <<unread, lockq, getters, rpc, wpc, rloc, wloc, sentOut, ndata, delivered, rres, wres, ackMissed>>
GwData == /\ ndata < MaxData /\ ndata' = ndata + 1 /\ q' = Append(q, <<"data", ndata + 1>>)
          /\ UNCHANGED <<unread, lockq, getters, rpc, wpc, rloc, wloc, sentOut, ackSent, delivered, rres, wres, ackMissed>>

(* reader task R *)
RStart ==
  /\ rpc = "idle"
  /\ IF Dev_ReaderNoMutex
     THEN rpc' = "get" /\ getters' = Append(getters, "R") /\ UNCHANGED lockq
     ELSE rpc' = "lock" /\ lockq' = Append(lockq, "R") /\ UNCHANGED getters
  /\ UNCHANGED <<q, unread, wpc, rloc, wloc, sentOut, ackSent, ndata, delivered, rres, wres, ackMissed>>

RLocked ==            \* the mutex is ours: register on the queue
  /\ rpc = "lock" /\ Holder = "R"
  /\ rpc' = "get" /\ getters' = Append(getters, "R")
  /\ UNCHANGED <<q, unread, lockq, wpc, rloc, wloc, sentOut, ackSent, ndata, delivered, rres, wres, ackMissed>>

RTake ==
  /\ rpc = "get" /\ Avail /\ Head(getters) = "R"
  /\ LET f == NextFrame IN
     IF IsData(f)
     THEN /\ PopAndHandBack(rloc) /\ rloc' = <<>>
          /\ delivered' = Append(delivered, f[2]) /\ rres' = "ok" /\ rpc' = "done"
          /\ getters' = Tail(getters)
          /\ (IF Dev_ReaderNoMutex THEN UNCHANGED lockq ELSE Release("R"))
     ELSE \* not what we wait for: keep it locally, release the mutex, ask again (read_frame per frame)
          /\ PopFrame /\ rloc' = Append(rloc, f) /\ UNCHANGED <<delivered, rres>>
          /\ IF Dev_ReaderNoMutex
             THEN rpc' = "get" /\ getters' = Append(Tail(getters), "R") /\ UNCHANGED lockq
             ELSE rpc' = "lock" /\ getters' = Tail(getters) /\ lockq' = Append(Tail(lockq), "R")
  /\ UNCHANGED <<wpc, wloc, sentOut, ackSent, ndata, wres, ackMissed>>

(* writer task W *)
WStart ==
  /\ wpc = "idle"
  /\ wpc' = "lock" /\ lockq' = Append(lockq, "W")
  /\ UNCHANGED <<q, unread, getters, rpc, rloc, wloc, sentOut, ackSent, ndata, delivered, rres, wres, ackMissed>>

WSend ==
  /\ wpc = "lock" /\ Holder = "W"
  /\ sentOut' = TRUE /\ wpc' = "get" /\ getters' = Append(getters, "W")
  /\ UNCHANGED <<q, unread, lockq, rpc, rloc, wloc, ackSent, ndata, delivered, rres, wres, ackMissed>>

WTake ==
  /\ wpc = "get" /\ Avail /\ Head(getters) = "W"
  /\ LET f == NextFrame IN
     IF f = Ack
     THEN /\ PopAndHandBack(wloc) /\ wloc' = <<>> /\ wres' = "ok" /\ wpc' = "done"
          /\ getters' = Tail(getters) /\ Release("W")
     ELSE /\ PopFrame /\ wloc' = Append(wloc, f) /\ UNCHANGED <<wres, wpc, lockq>>
          /\ getters' = Append(Tail(getters), "W")    \* read_frame_unsafe() again, mutex kept
  /\ UNCHANGED <<rpc, rloc, sentOut, ackSent, ndata, delivered, rres, ackMissed>>

ClientEnabled ==
  \/ rpc = "idle" \/ wpc = "idle"
  \/ (rpc = "lock" /\ Holder = "R") \/ (wpc = "lock" /\ Holder = "W")
  \/ (Avail /\ getters # <<>>)

AckPresent == \E s \in {q, unread, rloc, wloc} : \E i \in 1..Len(s) : s[i] = Ack

AckTimeout ==         \* "no ack by gateway": the connection is given up
  /\ wpc = "get" /\ ~ClientEnabled
  /\ wres' = "brokenpipe" /\ wpc' = "done" /\ ackMissed' = AckPresent
  /\ unread' = wloc \o unread /\ wloc' = <<>>
  /\ getters' = Remove(getters, "W") /\ Release("W")
  /\ UNCHANGED <<q, rpc, rloc, sentOut, ackSent, ndata, delivered, rres>>

RTimeout ==
  /\ rpc \in {"get", "lock"} /\ ~ClientEnabled
  /\ rres' = "timeout" /\ rpc' = "done"
  /\ unread' = rloc \o unread /\ rloc' = <<>>
  /\ getters' = Remove(getters, "R") /\ lockq' = Remove(lockq, "R")
  /\ UNCHANGED <<q, wpc, wloc, sentOut, ackSent, ndata, delivered, wres, ackMissed>>

Client == RStart \/ RLocked \/ RTake \/ WStart \/ WSend \/ WTake \/ AckTimeout \/ RTimeout
Next == GwAck \/ GwData \/ Client
Spec == Init /\ [][Next]_vars /\ WF_vars(Client)

----------------------------------------------------------------------------
TypeOK ==
  /\ rpc \in {"idle", "lock", "get", "done"} /\ wpc \in {"idle", "lock", "get", "done"}
  /\ rres \in {"none", "ok", "timeout"} /\ wres \in {"none", "ok", "brokenpipe"}
  /\ Len(lockq) <= 2 /\ Len(getters) <= 2

\* D4 / H2: a write whose acknowledgement the gateway sent before the client gave up succeeds
AckedWriteSucceeds == ~ackMissed
\* D2 / H1: the reader gets the messages for us in order
InOrder == \A i \in 1..Len(delivered) : delivered[i] = i
\* D3 / H5: once both operations have ended nothing is kept in a local list (lost for later reads)
NothingKept == (rpc = "done" /\ wpc = "done") => (rloc = <<>> /\ wloc = <<>>)
\* a getter is registered only by the holder of the mutex (the design's discipline)
OnlyHolderWaits == Dev_ReaderNoMutex \/ (\A i \in 1..Len(getters) : getters[i] = Holder)
Terminates == <>(rpc = "done" /\ wpc = "done")
=============================================================================
