----------------------- MODULE HsfzDiscoverContract -----------------------
(* Growth item X12 part 1, contract layer (operators only): the HSFZ discovery scanner `discover hsfz`.

   Statement (growth/X12.json, first two sentences):
   "`discover hsfz` sends the documented discovery payload (a valid UDS request such as 10 01) over HSFZ with the
    configured tester address to every ECU address from --start to --stop, beginning at --start and ending at --stop
    (with --reversed in the opposite order), and reports as found - in ECUs.txt and in the database - exactly the
    addresses from which a UDS response (positive or negative) to that request arrives within the request timeout,
    not silent addresses and not addresses for which the gateway answers with an HSFZ error control word; a
    connection that is dropped (or an answer that is no response to the payload) costs at most that address, the scan
    goes on and terminates. Every emitted target URI parses back through TargetURI and HSFZConfig to the scanned
    host, port, tester address and ECU address."

   Sources of the clauses (documented behaviour only):
     P1/P2  docs/uds/scan_modes.md, Discovery Scan: "The basic idea of a discovery scan is sending a valid UDS payload
            to all valid ECU addresses with a fixed tester address."  "A well working payload is 1001 ... Payloads
            different from 1001 can be used as well; for instance 1003 ... Another well working example is 3E00"
            (Payloads below = exactly these three).  Help texts of HSFZDiscovererConfig: --src-addr "HSFZ source
            address", --start "set start address", --stop "set end address" (both ends belong to the range); log
            text "testing target <a>".
     P3     help text --reversed "scan in reversed order"; --start / --stop name where the scan starts and ends.
     F1/F2  docs/uds/scan_modes.md: "The idea is crafting a valid UDS payload which is valid and at least some answer
            is expected" (a negative response is an answer), "When a valid answer is received an ECU has been found";
            "when the gateway sends a NACK or just timeouts, no ECU is available on the tried" address (DoIP paragraph,
            same idea); log texts "found <a>", "Found N targets", "Writing urls to file: ECUs.txt", "Writing urls to
            database"; help text of --timeout "timeout value for request"; comment in _probe "Broadcast endpoints
            deliver more responses. Make sure to flush the receive queue properly." (further frames after the answer
            do not take the answer back).  HSFZ error control words 0x40..0x45, 0xFF are no diagnostic data
            (transports/hsfz.py HSFZStatus, handler "I can't even: <name>").
     U1     the emitted lines are target URIs for gallia's hsfz transport (docs/transports.md: src_addr, dst_addr
            "required"); they are read by TargetURI / HSFZConfig (HSFZTransport.connect).
     T0     dedicated handlers in probe(): `except TimeoutError: return None` (connect), `except (TimeoutError,
            ConnectionError): return None` with `finally: await conn.close()` (documented intent: a failed probe means
            "not found" and the sweep continues with a fresh connection); final log text "Found N targets".

   Not demanded (sources silent; every outcome accepted): whether an address is probed more than once; answers or
   acknowledgements that arrive later than the request timeout after the request; whether an address counts as found
   when it only sent something that is no response to the payload; the order and multiplicity of lines; the
   ack_timeout written into the URIs; gateways that refuse the TCP connection.

   Observation O of one execution (gateway-side ground truth + what the scanner reported):
     O.cfg    = [host, port, tester, start, stop, reversed, timeout (ms)]
     O.probes   sequence (in the order the gateway saw them) of
                [src, dst, d, ack, ackdt, anss]     request <<src, dst, d>>; ack: a proper Ack was sent, ackdt ms after
                                                    the request;
                anss = sequence of [a, to, d, dt, dl]   diagnostic data frames sent for this probe: source a, target
                                                    `to`, dt ms after the request, dl: delivered to the scanner
     O.repFile, O.repDb   sets of ECU addresses reported in ECUs.txt / handed to the database
     O.uris   set of [ok, host, port, src, dst]   every emitted URI parsed back by the real TargetURI/HSFZConfig
     O.done   "ok" | "exc" | "hang"                                                                                  *)
EXTENDS Naturals, Integers, Sequences, FiniteSets

Payloads == {<<16, 1>>, <<16, 3>>, <<62, 0>>}            \* 10 01, 10 03, 3E 00 (docs/uds/scan_modes.md)

\* ISO 14229-1: positive response = SID + 0x40 echoing the sub-function; negative response = 7F SID NRC
IsAnswerTo(req, d) ==
  \/ Len(d) >= 2 /\ Len(req) >= 2 /\ d[1] = req[1] + 64 /\ d[2] = req[2]
  \/ Len(d) = 3 /\ d[1] = 127 /\ d[2] = req[1]

Sweep(O) == O.cfg.start..O.cfg.stop
Idx(O)   == 1..Len(O.probes)

Configured(O, p) == p.src = O.cfg.tester /\ p.dst \in Sweep(O) /\ p.d \in Payloads

T0_Terminates(O) == O.done = "ok"

P1_EveryAddressProbed(O) ==
  O.done = "ok" => \A a \in Sweep(O) : \E i \in Idx(O) : O.probes[i].dst = a /\ Configured(O, O.probes[i])
P2_OnlyConfiguredRequests(O) == \A i \in Idx(O) : Configured(O, O.probes[i])

IsFirst(O, i) == \A k \in 1..(i - 1) : O.probes[k].dst # O.probes[i].dst
P3_Order(O) ==
  \A i, j \in Idx(O) : (i < j /\ IsFirst(O, i) /\ IsFirst(O, j)) =>
     IF O.cfg.reversed THEN O.probes[i].dst > O.probes[j].dst ELSE O.probes[i].dst < O.probes[j].dst

FromProbed(p, x) == x.dl /\ x.a = p.dst /\ x.to = p.src
\* sent by the gateway for the probed address; whether it could still be delivered is the scanner's business as long as
\* the request timeout has not elapsed (a scanner that hangs up early must not be excused by "not delivered")
SentFromProbed(p, x) == x.a = p.dst /\ x.to = p.src
AckTime == 1000   \* gallia's default HSFZ acknowledge timeout (ack_timeout, docs/transports.md): used only to WEAKEN the demand
AnsweredInTime(O, p) ==
  /\ p.ack /\ p.ackdt < O.cfg.timeout /\ p.ackdt < AckTime
  /\ \E k \in 1..Len(p.anss) : SentFromProbed(p, p.anss[k]) /\ p.anss[k].dt < O.cfg.timeout /\ IsAnswerTo(p.d, p.anss[k].d)
RespMust(O) == {O.probes[i].dst : i \in {j \in Idx(O) : Configured(O, O.probes[j]) /\ AnsweredInTime(O, O.probes[j])}}
RespMay(O)  == {O.probes[i].dst : i \in {j \in Idx(O) : \E k \in 1..Len(O.probes[j].anss) :
                                                            FromProbed(O.probes[j], O.probes[j].anss[k])}}
F1_FoundSound(O)    == O.repFile \subseteq RespMay(O) /\ O.repDb \subseteq RespMay(O)
F2_FoundComplete(O) == O.done = "ok" => RespMust(O) \subseteq O.repFile /\ RespMust(O) \subseteq O.repDb

U1_Uris(O) == \A u \in O.uris : /\ u.ok /\ u.host = O.cfg.host /\ u.port = O.cfg.port
                                /\ u.src = O.cfg.tester /\ u.dst \in Sweep(O)

Verdict(O) ==
  IF O.done = "hang"                       THEN "T0/scan-does-not-terminate"
  ELSE IF ~T0_Terminates(O)                THEN "T0/scan-aborts"
  ELSE IF ~U1_Uris(O)                      THEN "U1/emitted-uri-does-not-denote-the-endpoint"
  ELSE IF ~P2_OnlyConfiguredRequests(O)    THEN "P2/request-not-as-configured"
  ELSE IF ~P1_EveryAddressProbed(O)        THEN "P1/address-of-the-range-not-probed"
  ELSE IF ~P3_Order(O)                     THEN "P3/probe-order"
  ELSE IF ~F1_FoundSound(O)                THEN "F1/found-without-answer-from-that-address"
  ELSE IF ~F2_FoundComplete(O)             THEN "F2/answering-address-not-found"
  ELSE "ok"

\* cases the statement does not decide (counted, never a violation)
Unspecified(O) == Cardinality(RespMay(O) \ RespMust(O))
=============================================================================
