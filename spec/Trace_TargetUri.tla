--------------------------- MODULE Trace_TargetUri ---------------------------
(* Code -> spec for the URI half of C20: every recorded run of the real
   TargetURI.from_parts -> str -> TargetURI -> scheme/hostname/port/qs_flat ->
   <Transport>Config, and of net.split_host_port / join_host_port, is judged by
   the contract TargetUriContract.  One initial state per recorded case:
     [id, kind |-> "uri", scheme, host, port, params, got, settings, complete, cfg]
     [id, kind |-> "hp",    host, port, got]               split(join(h, p))
     [id, kind |-> "split", host, port, dflt, got]         split("h:p" as written)
     [id, kind |-> "hpx", mode |-> "hp" | "split", host, dflt, ports, hosts, hi, gp, ge]
        many ports for one host, results in columns: ge[i] = 1 raised, else host
        hosts[hi[i]] and port gp[i]
   Verdict line <<"V", id, label, k>> (k: index of the failing port for "hpx"). *)
EXTENDS TargetUriContract, Json, IOUtils, TLC

Batch == JsonDeserialize(IOEnv.TRACE_FILE)
T == Batch.cases

VARIABLES tid, verdict
tvars == <<tid, verdict>>

GotAt(x, i) == IF x.ge[i] = 1 THEN [t |-> "err"]
               ELSE [t |-> "ok", host |-> x.hosts[x.hi[i]], port |-> x.gp[i]]
OneHp(x, i) == IF x.mode = "hp" THEN VerdictJoinSplit(x.host, x.ports[i], GotAt(x, i))
               ELSE VerdictSplit(x.host, x.ports[i], x.dflt, GotAt(x, i))

FullVerdict(x) ==
  CASE x.kind = "uri" ->
         LET u == VerdictUri(x.scheme, x.host, x.port, x.params, x.got) IN
         IF u # "ok" THEN <<u, 0>> ELSE <<VerdictConfig(x.settings, x.complete, x.cfg), 0>>
    [] x.kind = "hp"    -> <<VerdictJoinSplit(x.host, x.port, x.got), 0>>
    [] x.kind = "split" -> <<VerdictSplit(x.host, x.port, x.dflt, x.got), 0>>
    [] x.kind = "hpx" ->
         LET bad == {i \in 1..Len(x.ports) : OneHp(x, i) # "ok"} IN
         IF bad = {} THEN <<"ok", 0>>
         ELSE LET i == CHOOSE i \in bad : \A j \in bad : i <= j IN <<OneHp(x, i), i>>
    [] OTHER -> <<"machinery/unknown-kind", 0>>

ScopedVerdict(x) == LET fv == FullVerdict(x) IN <<Scoped(x.host, fv[1]), fv[2]>>

TInit == tid \in 1..Len(T) /\ verdict = "?"
TNext == /\ verdict = "?"
         /\ LET fv == ScopedVerdict(T[tid]) IN
              /\ verdict' = fv[1]
              /\ PrintT(<<"V", T[tid].id, fv[1], fv[2]>>)
         /\ tid' = tid
TSpec == TInit /\ [][TNext]_tvars
=============================================================================
