SPECIFICATION Spec
CONSTANTS
  MaxLen = 6
  Kinds <- AllKinds
  Outcomes <- AllSeven
  Tags <- BothTags
  MayToggle = TRUE
  MayAbort = TRUE
  Dev_S17_RowLostNotSerialisable = FALSE
  Dev_LogOutsideFinally = FALSE
  Dev_NoJoin = FALSE
  Dev_StateAfterUpdate = FALSE
INVARIANT TypeOK
INVARIANT B1_OncePerExchangeInOrder
INVARIANT B2_RowHoldsTheExchange
INVARIANT B3_SilentWhileOff
INVARIANT B4_CompleteAfterClose
INVARIANT Contract
CHECK_DEADLOCK FALSE
