----------------------- MODULE RunLifecycleContract -----------------------
(* Contract layer of property C15: "every run leaves a consistent exit code,
   META.json, log file and database record".

   Written from the property statement and the documented exit-code mapping
   (gallia/exitcodes.py = sysexits.h; docs/config.md "Hooks"), NOT from
   BaseCommand.entry_point.  Operators only, no VARIABLES.

   A case  c  (what the environment does to one run):
     [kind  : "Script" | "Scanner" | "UDSScanner",
      art, db, lock, hooks : BOOLEAN,        resources configured on / off
      point : lifecycle point of the single injected failure,
      how   : exit kind, n : the n of sys.exit(n),
      where : "pre" | "post"  (before / after the base class' setup/teardown)]
   point = "LockWait" (only with lock = TRUE): the lock file is HELD by another
   process when the run starts, the run has to wait for it, and the failure
   (how = "CtrlC": Ctrl-C / cancellation) arrives while it is still waiting.

   An observation  o  (final state read back from OUTSIDE after entry_point()
   has ended): process exit status, META.json, run_meta row, log.json.zst read
   with PenlogReader, flock probe, environment seen by the hook script, phases
   entered by the command, rundir = an artifacts directory of this run (run-DATE)
   exists.  See harness/c15_worker.py for how each field is measured.
*)
EXTENDS Integers, Sequences, FiniteSets, TLC

Kinds        == {"Script", "Scanner", "UDSScanner"}
ScannerKinds == {"Scanner", "UDSScanner"}
RunPoints    == {"Setup", "Main", "Teardown"}
Points       == {"LockWait", "PreHook", "DbOpen"} \cup RunPoints \cup {"DbClose", "PostHook"}
RaisedHows   == {"SysExit", "ExpConn", "ExpUds", "Unexpected", "CtrlC", "KbdInt"}
Hows         == {"Return", "HookFails", "DbFails"} \cup RaisedHows

FullRun == <<"setup", "main", "teardown">>

(* The injected failure only exists if the resource it needs is switched on. *)
Effective(c) ==
  CASE c.how = "Return"    -> FALSE
    [] c.how = "HookFails" -> c.hooks
    [] c.how = "DbFails"   -> c.db
    [] OTHER               -> TRUE

----------------------------------------------------------------------------
(* X1: the documented mapping  0 / n / 74 / 70 / 130.
   Where the statement is silent the whole admissible set is returned and the
   case is counted as unspecified (UnspecifiedExit). *)
SysExits == 64..78

ExpectedExit(c) ==
  IF ~Effective(c) THEN {0}
  ELSE CASE c.how = "HookFails"  -> {0}                  \* a failing hook never alters the run
         [] c.how = "SysExit"    -> {c.n}
         [] c.how \in {"ExpConn", "ExpUds"} ->
              \* 74 for the commands that declare connection/UDS errors as expected
              \* (scanner kinds); a plain script does not: 70 or 74 are both accepted
              IF c.kind \in ScannerKinds THEN {74} ELSE {70, 74}
         [] c.how = "Unexpected" -> {70}
         [] c.how \in {"CtrlC", "KbdInt"} ->
              \* (a run that is interrupted while it still waits for the lock file has not done anything
              \*  else than being interrupted: 130, the documented status of Ctrl-C)
              IF c.how = "CtrlC" /\ c.point \notin RunPoints \cup {"LockWait"} THEN 0..255 ELSE {130}
         [] c.how = "DbFails" /\ c.point = "DbOpen"  -> 1..255          \* some failure status
         [] c.how = "DbFails" /\ c.point = "DbClose" -> {0} \cup SysExits
         [] OTHER -> 0..255

\* Ctrl-C is asynchronous: it can also arrive while the (blocking) pre-hook runs.  The statement maps exit kinds
\* "raised in setup, main or teardown"; for an interrupt outside the run proper it promises no particular status
\* (the run may be carried out or cut short), but "however a command ends" META.json is written, the log is closed
\* and the lock is released.
InterruptOutsideRun(c) == c.how = "CtrlC" /\ c.point \notin RunPoints \cup {"LockWait"}

\* The lock file can be held by another run: then the run waits for it, and Ctrl-C can arrive during that wait.
\* Such a run never got as far as its pre-hook, database or setup/main/teardown.  It MAY end without having created
\* anything (no artifacts directory, no run entry): then there is nothing that could be inconsistent.  But "every
\* run leaves a consistent exit code, META.json, log file": an artifacts directory that it DID create (o.rundir) is
\* an artifacts directory of a run that has ended, i.e. it carries META.json with the exit code of the process and a
\* closed, fully readable log; a run entry that it did create has its end time and the same exit code.  The lock
\* belongs to the other run: o.lockFree here means that the holder's lock was still in place (same file, still
\* locked) when the run had ended, and that the file was free as soon as the holder had released it.
InterruptedWaiter(c) == c.point = "LockWait" /\ c.how = "CtrlC"
\* the artifacts directory of this run has to exist / has to be consistent
HasArt(c, o) == c.art /\ (InterruptedWaiter(c) => o.rundir)

UnspecifiedExit(c) == Cardinality(ExpectedExit(c)) > 1
\* the run_meta row cannot be demanded when the database itself is what fails
UnspecifiedDb(c)   == Effective(c) /\ c.how = "DbFails"

----------------------------------------------------------------------------
(* One labelled clause per sentence of the statement.  Each entry is
   <<label, holds>>; Labels() returns the labels of the broken ones in order. *)
Clauses(c, o) == <<
  \* "however a command ends": it does end.  escaped = "Hang": the run had to be interrupted from outside because it
  \* did not end by itself (only observed for environment disturbances that the run is supposed to ride out)
  <<"X1/run-ends-by-itself",         o.escaped # "Hang">>,
  <<"X1/exit-code-follows-mapping",  o.escaped = "Hang" \/ o.exit \in ExpectedExit(c)>>,
  <<"X2/meta-json-written",          HasArt(c, o) => o.meta.present>>,
  <<"X2/meta-exit-code=process",     (HasArt(c, o) /\ o.meta.present /\ ~InterruptOutsideRun(c)) => o.meta.exit = o.exit>>,
  <<"X2/meta-start<=end",            (HasArt(c, o) /\ o.meta.present) => o.meta.timesOk>>,
  <<"X2/meta-config-recreates-run",  (HasArt(c, o) /\ o.meta.present) => o.meta.configOk>>,
  <<"X3/log-file-exists",            HasArt(c, o) => o.log.present>>,
  <<"X3/log-closed",                 (HasArt(c, o) /\ o.log.present) => o.log.complete>>,
  <<"X3/log-fully-readable",         (HasArt(c, o) /\ o.log.present /\ o.log.complete) =>
                                        (o.log.parsedAll /\ o.log.markers = o.phases)>>,
  <<"X4/lock-released",              c.lock => o.lockFree>>,
  <<"X5/db-run-entry-exists",        (c.db /\ ~UnspecifiedDb(c) /\ ~InterruptedWaiter(c)) => o.db.present>>,
  <<"X5/db-end-time-set",            (c.db /\ ~UnspecifiedDb(c) /\ o.db.present) => o.db.hasEnd>>,
  <<"X5/db-exit-code=process",       (c.db /\ ~UnspecifiedDb(c) /\ o.db.present /\ ~InterruptOutsideRun(c)) => o.db.exit = o.exit>>,
  <<"X6/failing-hook-reported",      (Effective(c) /\ c.how = "HookFails") => o.reported>>,
  <<"X6/failing-hook-never-aborts",  (Effective(c) /\ c.how = "HookFails") =>
                                        (o.phases = FullRun /\ o.pre = 1 /\ o.post.ran = 1)>>,
  \* docs/config.md: GALLIA_EXIT_CODE "is set to the exit_code which gallia will use",
  \* GALLIA_META "contains the JSON encoded content of META.json"
  <<"X6/post-hook-sees-exit-code",   (c.hooks /\ o.post.ran > 0 /\ ~InterruptOutsideRun(c)) =>
                                        (o.post.exit = o.exit /\ o.post.metaExit = o.exit)>>
>>

Labels(c, o) ==
  LET cl == Clauses(c, o)
      bad == SelectSeq(cl, LAMBDA p : ~p[2])
  IN  [i \in 1..Len(bad) |-> bad[i][1]]

Verdict(c, o) == LET l == Labels(c, o) IN IF Len(l) = 0 THEN "ok" ELSE l[1]

----------------------------------------------------------------------------
(* shape of an observation (used by TypeOK of the design layer and to make a
   malformed trace file a machinery failure instead of a wrong verdict) *)
ObsOK(o) ==
  /\ o.exit \in 0..255
  /\ o.escaped \in {"", "Error", "Interrupt", "Hang"}
  /\ o.meta.present \in BOOLEAN /\ o.meta.exit \in -1..255
  /\ o.meta.timesOk \in BOOLEAN /\ o.meta.configOk \in BOOLEAN
  /\ o.log.present \in BOOLEAN /\ o.log.complete \in BOOLEAN /\ o.log.parsedAll \in BOOLEAN
  /\ o.lockFree \in BOOLEAN
  /\ o.db.present \in BOOLEAN /\ o.db.hasEnd \in BOOLEAN /\ o.db.exit \in -1..255
  /\ o.pre \in 0..9 /\ o.post.ran \in 0..9 /\ o.post.exit \in -1..255 /\ o.post.metaExit \in -1..255
  /\ o.reported \in BOOLEAN
  /\ o.rundir \in BOOLEAN
=============================================================================
