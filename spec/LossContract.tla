---------------------------- MODULE LossContract ----------------------------
(* Contract layer of property C08 (connection loss), from the statement.
   Monitor over the timed event sequence recorded around a real transport
   (tcp-lines, unix-lines, DoIP, HSFZ) or around a real UDSClient on top of one:

     [e |-> "Msg", t, d]                 the peer has completely delivered message d (bytes) for us
     [e |-> "Cut", t, kind]              the peer closes ("EOF"), resets ("Reset") or goes silent ("Silence")
     [e |-> "Begin", t, op, tmo]         op \in {"write","read","request","close"}; tmo = -1: none
     [e |-> "End", t, op, res, d]        res \in {"ok","Empty","Timeout","ConnErr","Missing","Other","Hang"}
     [e |-> "Restart", t]                the peer accepts connections (or answers) again
     [e |-> "Accepted", t]               the peer accepted a new connection
     [e |-> "Final", t]

   cfg: [ackTime |-> protocol acknowledgement time (0 for the line transports), retries |-> max_retry of the
         client (requests only), expect |-> reply bytes the peer gives to the request, window |-> time after
         the failure during which the client keeps trying to reconnect]

   Clauses
     L1  after a cut the pending operation ends with Timeout | connection error | explicit
         end-of-stream no later than caller timeout + acknowledgement time; it never blocks forever
     L2  a read never returns data the peer did not send as a complete message (nothing fabricated,
         nothing truncated)
     L3  once the peer accepts again, a client with max_retry >= 1 obtains the correct reply
     L4  closing a transport twice or after loss is harmless
*)
EXTENDS Naturals, Integers, Sequences, FiniteSets, TLC

M0 == [msgs |-> <<>>, ndel |-> 0, cutAt |-> -1, cutKind |-> "", t0 |-> 0, tmo |-> -1, op |-> "none",
       restartAt |-> -1, fail |-> "ok"]
Fail(m, l) == [m EXCEPT !.fail = l]
Max(a, b) == IF a > b THEN a ELSE b

Deadline(c, m) == Max(m.t0, m.cutAt) + (IF m.tmo = -1 THEN 0 ELSE m.tmo) + c.ackTime

EndTransportOp(c, m, e) ==
  IF e.res = "Hang" THEN Fail(m, "L1/operation-blocks-forever")
  ELSE IF e.op = "read" /\ e.res = "ok" THEN
       IF m.ndel < Len(m.msgs) /\ e.d = m.msgs[m.ndel + 1] THEN [m EXCEPT !.ndel = @ + 1]
       ELSE Fail(m, "L2/read-returned-data-the-peer-did-not-send-as-a-complete-message")
  ELSE IF m.cutAt = -1 THEN
       \* no loss yet: only the generic outcomes are possible; other properties judge them
       (IF e.res \in {"ok", "Empty", "Timeout", "ConnErr"} THEN m ELSE Fail(m, "L1/unexpected-exception"))
  ELSE IF e.op = "write" /\ e.res = "ok" THEN m   \* the bytes left before/around the loss: not a fabricated result
  ELSE IF e.res \notin {"Timeout", "ConnErr", "Empty"} THEN Fail(m, "L1/loss-surfaced-as-something-else-than-timeout-connection-error-or-end-of-stream")
  ELSE IF e.t > Deadline(c, m) THEN Fail(m, "L1/operation-ended-later-than-caller-timeout-plus-acknowledgement-time")
  ELSE m

EndRequest(c, m, e) ==
  IF e.res = "Hang" THEN Fail(m, "L1/request-blocks-forever")
  ELSE IF e.res = "ok" THEN
       IF e.d = c.expect THEN m ELSE Fail(m, "L2/request-returned-a-reply-the-peer-did-not-send")
  ELSE IF e.res \notin {"Missing", "ConnErr", "Timeout"} THEN Fail(m, "L1/loss-surfaced-as-unexpected-exception")
  \* (only when the loss is the FIRST fault of this request: a peer that stays silent past the request timeout and
  \* drops the connection afterwards has already cost one retry by the time the loss is noticed)
  ELSE IF c.retries >= 1 /\ m.cutAt # -1 /\ m.restartAt # -1 /\ m.restartAt <= m.cutAt + c.window
          /\ (m.tmo = -1 \/ m.cutAt < m.t0 + m.tmo)
       THEN Fail(m, "L3/no-reply-although-the-peer-accepted-again-and-a-retry-was-configured")
  ELSE m

\* transport.reconnect(timeout = T): "attempts to reconnect every 100 ms until at max timeout" (its docstring).
\* A peer that accepts again ReconnectSlack before the deadline is found; the call never outlives its deadline.
ReconnectSlack == 400
EndReconnect(c, m, e) ==
  IF e.res = "Hang" THEN Fail(m, "L1/reconnect-blocks-forever")
  ELSE IF e.res = "ok" THEN m
  ELSE IF e.res \notin {"Timeout", "ConnErr"} THEN Fail(m, "L1/loss-surfaced-as-unexpected-exception")
  ELSE IF m.tmo # -1 /\ e.t > m.t0 + m.tmo + ReconnectSlack
       THEN Fail(m, "L1/reconnect-ended-later-than-its-timeout")
  ELSE IF m.tmo # -1 /\ m.restartAt # -1 /\ m.restartAt + ReconnectSlack <= m.t0 + m.tmo
       THEN Fail(m, "L3/reconnect-gave-up-although-the-peer-accepted-again-before-its-deadline")
  ELSE m

\* the NEXT request, issued after the peer accepts connections again: with a retry configured it recovers
EndNextRequest(c, m, e) ==
  IF e.res = "Hang" THEN Fail(m, "L1/request-blocks-forever")
  ELSE IF e.res = "ok" THEN
       IF e.d = c.expect THEN m ELSE Fail(m, "L2/request-returned-a-reply-the-peer-did-not-send")
  ELSE IF c.retries >= 1 /\ c.window # -1 /\ m.restartAt # -1 /\ m.restartAt <= m.t0
       THEN Fail(m, "L3/next-request-does-not-recover-although-the-peer-accepts-again")
  ELSE m

Step(c, m, e) ==
  CASE e.e = "Msg" -> [m EXCEPT !.msgs = Append(@, e.d)]
    [] e.e = "Cut" -> IF m.cutAt = -1 THEN [m EXCEPT !.cutAt = e.t, !.cutKind = e.kind] ELSE m
    [] e.e = "Restart" -> IF m.restartAt = -1 THEN [m EXCEPT !.restartAt = e.t] ELSE m
    [] e.e = "Accepted" -> m
    [] e.e = "Muted" -> m      \* a reconnect attempt whose DoIP routing activation the rebooting gateway left unanswered
    [] e.e = "Begin" -> [m EXCEPT !.op = e.op, !.t0 = e.t, !.tmo = e.tmo]
    [] e.e = "End" ->
         IF e.op = "close" THEN (IF e.res = "ok" THEN m ELSE Fail(m, "L4/close-raised"))
         ELSE IF e.op = "request" THEN EndRequest(c, m, e)
         ELSE IF e.op = "request2" THEN EndNextRequest(c, m, e)
         ELSE IF e.op = "reconnect" THEN EndReconnect(c, m, e)
         ELSE EndTransportOp(c, m, e)
    [] e.e = "Final" -> m
    [] OTHER -> Fail(m, "trace/unknown-event")
=============================================================================
