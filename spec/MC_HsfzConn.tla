---------------------------- MODULE MC_HsfzConn ----------------------------
EXTENDS HsfzConn
ScriptWRR == <<"write", "read", "read">>
ScriptRWR == <<"read", "write", "read">>
ScriptWWR == <<"write", "write", "read">>
=============================================================================
