SPECIFICATION CSpec
CONSTANTS
  B2 <- B2All
  Dev_LsbFirst = FALSE
  Dev_IgnoreByteOrder = FALSE
  Dev_PartialNoStrip = TRUE
INVARIANT LayoutAgrees
CHECK_DEADLOCK FALSE
