SPECIFICATION Spec
CONSTANTS
  N = 2
  Group <- G_10
  KeepHist = TRUE
  MaxInt = 0
  MaxKill = 1
  MaxProbe = 0
  Dev_ReleaseBeforePostHook = FALSE
  Dev_LockAfterPreHook = FALSE
  Dev_NoUnlockOnError = FALSE
  Dev_ThreadWait = FALSE
  Dev_SilentWait = FALSE
  Dev_LostWakeup = FALSE
CHECK_DEADLOCK FALSE
INVARIANT Inv_Contract
INVARIANT Inv_Final
INVARIANT MutexInv
INVARIANT LockInv
PROPERTY NoLostWakeup
PROPERTY Termination
INVARIANT Export
