SPECIFICATION Spec
CONSTANTS
  Alphabet = {10, 97}
  MaxLen = 3
  FrameLen <- MCGreedyRule
INVARIANT Independent
CHECK_DEADLOCK FALSE
