-------------------------- MODULE Trace_DbReplay --------------------------
(* Code -> spec for C12.  Every element of the batch is one replay observed on
   the REAL objects: a scan database written by ECU + DBHandler (recorded run
   plus other runs / ECUs / property sets), read back row by row, and the
   answers / states / cursor of a real DBUDSServer asked the recorded requests
   through UDSServerTransport.handle_request.

     x.rows  every scan_result row in id order (position = id):
               run (scan_run id), ecu (name linked to the run's address, "" = none),
               props (properties_pre of the run as [k, t, v]), st (logged state),
               req, rsp (bytes; <<>> = NULL)
     x.tgt   ids of the rows of the recorded run, in recorded order
     x.sel   selection the virtual ECU was started with
     x.obs   per request: ss (server state before), rep (answer; <<>> silence,
             <<-1>> raised), cur (DBUDSServer.last_response afterwards)
     x.obs2  the same for a second pass over the recorded sequence on the same
             server instance (statement silent: design-layer comparison only)
     x.base  answers of the replay on the database holding only the recorded run
     x.oob   out-of-band client state changes (see DbReplayContract)

   The VERDICT comes from the contract layer only.  The design layer is used to
   (a) name the deviation that explains an observed replay and (b) report
   DRIFT: an accepted replay that the intended design does not reproduce. *)
EXTENDS DbReplayContract, DbReplayRules, Json, IOUtils

Batch == JsonDeserialize(IOEnv.TRACE_FILE)
T == Batch.traces

VARIABLES tid, done
tvars == <<tid, done>>

Rows(x) == [i \in 1..Len(x.rows) |->
              [st |-> x.rows[i].st, req |-> x.rows[i].req, rsp |-> x.rows[i].rsp,
               eff |-> EffBytes(x.rows[i].rsp), ecu |-> x.rows[i].ecu, props |-> x.rows[i].props]]
Reqs(x) == [i \in 1..Len(x.tgt) |-> x.rows[x.tgt[i]].req]

TargetRun(x) == x.rows[x.tgt[1]].run
(* "selected by ECU name or properties": the selection picks exactly the rows of the recorded run *)
Isolating(x) ==
  \A i \in 1..Len(x.rows) : Selected(Intended, x.sel, Rows(x)[i]) <=> x.rows[i].run = TargetRun(x)

Obs(x) == [steps |-> [i \in 1..Len(x.obs) |->
                        [req |-> x.rows[x.tgt[i]].req, rec |-> x.rows[x.tgt[i]].rsp,
                         rep |-> x.obs[i].rep, cs |-> x.rows[x.tgt[i]].st, ss |-> x.obs[i].ss]],
           base |-> x.base, isolating |-> Isolating(x), oob |-> x.oob]

(* ---- design layer: which deviation record reproduces what was observed ---- *)
Same(r, o, withCur) ==
  /\ Len(r) = Len(o)
  /\ \A i \in 1..Len(o) : /\ StateEq(r[i].ss, o[i].ss) /\ r[i].rep = o[i].rep
                          /\ withCur => r[i].cur = o[i].cur
Match(x, d, withCur) == Same(Replay(d, Rows(x), x.sel, Reqs(x)), x.obs, withCur)
RECURSIVE FirstDev(_, _)
FirstDev(x, j) == IF j > Len(Devs) THEN "unexplained"
                  ELSE IF Match(x, Devs[j].d, FALSE) THEN Devs[j].n ELSE FirstDev(x, j + 1)
Explained(x) == FirstDev(x, 1)

(* drift notes (design layer only; never a violation) *)
Drift(x, expl) ==
  IF expl # "intended" THEN ""
  ELSE IF ~Match(x, Intended, TRUE) THEN "cursor"
  ELSE IF Len(x.obs2) > 0
          /\ ~Same(Replay(Intended, Rows(x), x.sel, Reqs(x) \o Reqs(x)), x.obs \o x.obs2, TRUE)
       THEN "second-pass"
  ELSE ""

TInit == tid \in 1..Len(T) /\ done = FALSE
TNext == /\ ~done /\ done' = TRUE /\ tid' = tid
         /\ LET x == T[tid]
                v == Verdict(Obs(x))
                e == Explained(x)
            IN PrintT(<<"V", x.id, v[1], v[2], v[3], e, Drift(x, e)>>)
TSpec == TInit /\ [][TNext]_tvars
=============================================================================
