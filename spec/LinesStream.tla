----------------------------- MODULE LinesStream -----------------------------
(* Design layer of C19: one direction of one tcp-lines / unix-lines connection,
   shaped like the code (gallia.transports.base.LinesTransportMixin.read on an
   asyncio.StreamReader; the server loop TCPUDSServerTransport.handle_client is
   the same machine with timeout "none" and the loop ending at end-of-stream).

     sent       the messages the peer writes, in order
     stream     their encoding hex(m) \o "\n" ..., still in flight  (Framing)
     buf        bytes that reached the reader and were not consumed  (Framing)
     delivered  messages returned by successful reads
     eof        the peer closed: what was in flight is lost, nothing more arrives
     rd         the reader: idle / reading(to) / done (end-of-stream was reported)
     mon        the contract monitor (LinesStreamContract) fed with the observable
                events of every step; the clauses T1..T3 are invariants on mon.v

   Environment: Deliver(k) for every k (all segmentations and coalescings),
   PeerClose at any moment (so: at every byte offset), ReadStart(to) with or
   without timeout.  Timers follow maximal progress: ReadTimeout fires only
   while readline() is really blocked (no complete line buffered, no EOF) --
   on the asyncio loop a buffered line is returned without suspending.

   Dev_S14_PartialLineAtEof = TRUE reproduces the code as found: at
   end-of-stream StreamReader.readline() hands out the unterminated rest of the
   buffer and the transport decodes it like a line. *)
EXTENDS LinesStreamContract, LinesCodec, FiniteSets

CONSTANTS
  Sents,                      \* set of message sequences to explore
  Timeouts,                   \* read timeouts in ms, 0 = none
  Dev_S14_PartialLineAtEof

VARIABLES sent, stream, buf, delivered, eof, rd, mon
vars == <<sent, stream, buf, delivered, eof, rd, mon>>

F == INSTANCE Framing WITH FrameLen <- LineEnd

\* content class of a byte string: position of the first equal message, 0 if none
Cid(b) == IF \E i \in 1..Len(sent) : sent[i] = b
          THEN CHOOSE i \in 1..Len(sent) : sent[i] = b /\ \A j \in 1..(i - 1) : sent[j] # b
          ELSE 0

RECURSIVE SendAll(_, _, _)
SendAll(m, ms, i) ==
  IF i > Len(ms) THEN m
  ELSE LET c == CHOOSE k \in 1..i : ms[k] = ms[i] /\ \A j \in 1..(k - 1) : ms[j] # ms[i]
       IN SendAll(Step(m, EvSend(c, Len(EncodeLine(ms[i])))), ms, i + 1)

Idle == [st |-> "idle", to |-> 0]

Init ==
  /\ sent \in Sents
  /\ stream = Encode(sent) /\ buf = <<>>
  /\ delivered = <<>> /\ eof = FALSE /\ rd = Idle
  /\ mon = SendAll(M0, sent, 1)

(* ------------------------------ environment ------------------------------ *)
Deliver(k) ==
  /\ ~eof
  /\ F!Deliver(k)
  /\ mon' = Step(mon, EvFeed(k))
  /\ UNCHANGED <<sent, delivered, eof, rd>>

PeerClose ==
  /\ ~eof /\ eof' = TRUE
  /\ F!Truncate
  /\ mon' = Step(mon, EvClose)
  /\ UNCHANGED <<sent, delivered, rd>>

ReadStart(to) ==
  /\ rd.st = "idle"
  /\ rd' = [st |-> "reading", to |-> to]
  /\ mon' = Step(mon, EvReadBegin(to))
  /\ UNCHANGED <<sent, stream, buf, delivered, eof>>

(* -------------------------------- reader -------------------------------- *)
\* hand the decoded line to the caller
Return(line) ==
  LET d == DecodeLine(line) IN
  IF d.ok /\ d.m # <<>>
  THEN /\ delivered' = Append(delivered, d.m)
       /\ mon' = Step(mon, EvReadEnd("Msg", Cid(d.m)))
       /\ rd' = Idle
  ELSE IF d.ok                                   \* an empty read: the caller takes it as end-of-stream
  THEN /\ mon' = Step(mon, EvReadEnd("Empty", 0)) /\ rd' = [st |-> "done", to |-> 0]
       /\ UNCHANGED delivered
  ELSE /\ mon' = Step(mon, EvReadEnd("Error", 0)) /\ rd' = Idle   \* unhexlify raised
       /\ UNCHANGED delivered

ReadReturn ==
  /\ rd.st = "reading"
  /\ \/ /\ F!FrameReady                           \* readline(): first line, exactly
        /\ Return(F!Frame)
        /\ F!ReadFrame
     \/ /\ ~F!FrameReady /\ eof                   \* readline() at end-of-stream
        /\ IF Dev_S14_PartialLineAtEof
           THEN Return(buf)                       \* as found: the unterminated rest is decoded
           ELSE /\ mon' = Step(mon, EvReadEnd("Empty", 0))
                /\ rd' = [st |-> "done", to |-> 0]
                /\ UNCHANGED delivered
        /\ F!ReadRest
  /\ UNCHANGED <<sent, eof>>

\* wait_for cancels the blocked readline(): nothing was consumed
ReadTimeout ==
  /\ rd.st = "reading" /\ rd.to # 0
  /\ ~F!FrameReady /\ ~eof
  /\ rd' = Idle
  /\ mon' = Step(mon, EvReadEnd("Timeout", 0))
  /\ UNCHANGED <<sent, stream, buf, delivered, eof>>

DeliverAny == \E k \in 1..Len(stream) : Deliver(k)

Next == \/ DeliverAny
        \/ PeerClose
        \/ \E to \in Timeouts : ReadStart(to)
        \/ ReadReturn
        \/ ReadTimeout

Spec == /\ Init /\ [][Next]_vars
        /\ WF_vars(DeliverAny) /\ WF_vars(PeerClose)
        /\ WF_vars(\E to \in Timeouts : ReadStart(to)) /\ WF_vars(ReadReturn)

(* ------------------------------ properties ------------------------------ *)
IsPrefix(s, t) == Len(s) <= Len(t) /\ SubSeq(t, 1, Len(s)) = s

\* contract clauses (monitor verdict), one invariant per clause
T1_PrefixOnePerRead      == mon.v \notin T1Labels
T2_TimeoutConsumesNothing == mon.v \notin T2Labels
T3_EndOfStreamDistinct   == mon.v \notin T3Labels
MonitorWellFormed        == mon.v \in {"ok"} \cup T1Labels \cup T2Labels \cup T3Labels

\* the same, stated directly on the design state
DeliveredPrefix  == IsPrefix(delivered, sent)
MonitorInSync    == (mon.v = "ok") => /\ mon.ndel = Len(delivered)
                                      /\ mon.closed = eof
                                      /\ (eof \/ mon.fed = Len(Encode(sent)) - Len(stream))
T2_Action        == [][ReadTimeout => UNCHANGED <<buf, stream, delivered>>]_vars
\* refinement of Framing: lines handed out + reference parse of the rest = parse of the whole
RECURSIVE LinesOf(_, _)
LinesOf(ms, i) == IF i > Len(ms) THEN <<>> ELSE <<EncodeLine(ms[i])>> \o LinesOf(ms, i + 1)
FramingRefined   == /\ F!PrefixStable
                    /\ IsPrefix(LinesOf(delivered, 1) \o F!Frames(buf \o stream), F!Frames(Encode(sent)))
\* every read sequence ends with end-of-stream being reported
Terminates       == <>(rd.st = "done")
\* ... and then everything that arrived completely has been delivered
AllDelivered     == [](rd.st = "done" => Len(delivered) = Cardinality({i \in 1..Len(mon.ends) : mon.ends[i] <= mon.fed}))

TypeOK == /\ rd.st \in {"idle", "reading", "done"} /\ rd.to \in Timeouts \cup {0}
          /\ eof \in BOOLEAN /\ Len(delivered) <= Len(sent)
=============================================================================
