------------------------- MODULE MC_UdsLayoutExport -------------------------
(* spec -> code: TLC enumerates the abstract case space of UdsLayout and writes
   the concretised cases, the layout tables and the design's prediction per
   case to IOEnv.CASES_OUT (JSON).  The harness executes every exported case
   against the real code. *)
EXTENDS MC_UdsLayout, Json, IOUtils, SequencesExt

ReqOut == {[kind |-> x.kind, abs |-> x.abs, f |-> x.f, expect |-> ExpectReq(x.kind, x.f)] :
             x \in ReqAbsCasesOf(ReqKinds)}
RespOut == RespAbsCasesOf(RespKinds)
ASSUME JsonSerialize(IOEnv.CASES_OUT,
         [req_layout |-> ReqLayout, resp_layout |-> RespLayout, variants |-> ReqVariant,
          req_cases |-> SetToSeq(ReqOut), resp_cases |-> SetToSeq(RespOut)])
ASSUME PrintT(<<"EXPORTED", Cardinality(ReqOut), Cardinality(RespOut)>>)
=============================================================================
