SPECIFICATION Spec
CONSTANTS
  MaxData = 1
  Dev_ReaderNoMutex = TRUE
INVARIANT TypeOK
INVARIANT AckedWriteSucceeds
CHECK_DEADLOCK FALSE
