----------------------------- MODULE MC_Dumpcap -----------------------------
(* Model-checking instances of the design layer Dumpcap (growth item X16). *)
EXTENDS Dumpcap

V4(a) == [a |-> a, fam |-> "ip"]
V6(a) == [a |-> a, fam |-> "ip6"]
Eth(addr, uriPort, port) == [kind |-> "eth", addrs |-> <<addr>>, port |-> port, uriPort |-> uriPort, iface |-> "",
                             ids |-> <<>>, named |-> 0]
Can(iface, ids) == [kind |-> "can", addrs |-> <<>>, port |-> -1, uriPort |-> -1, iface |-> iface, ids |-> ids, named |-> 0]
Unix == [kind |-> "unix", addrs |-> <<>>, port |-> -1, uriPort |-> -1, iface |-> "", ids |-> <<>>, named |-> 0]

\* every scheme: tcp / tcp-lines with a port, doip / hsfz with and without one, IPv4 and IPv6, ISO-TP, can-raw, unix
MCTargetsAll == { Eth(V4("127.0.0.1"), 1234, 1234), Eth(V6("::1"), 20162, 20162),
                  Eth(V4("192.168.5.5"), 13400, 13400), Eth(V4("192.168.5.5"), -1, 13400),
                  Eth(V6("fd00::5"), -1, 6801), Eth(V6("fd00::5"), 6801, 6801), Eth(V4("10.0.0.1"), -1, -1),
                  Can("can0", <<1780, 1620>>), Can("vcan1", <<>>), Can("can0", <<2015, 2047>>),
                  Can("can0", <<417792241, 1620>>), Can("can0", <<0, 1>>), Unix }
MCTargetsOne == { Eth(V4("127.0.0.1"), 1234, 1234) }
MCTargetsTwo == { Eth(V4("127.0.0.1"), 1234, 1234), Unix }

MCScriptsAll == [ready : {"header", "never", "die"}, on_term : {"exit", "tail", "ignore"}, then : {"idle", "exit"}]
MCScriptsHealthy == { [ready |-> "header", on_term |-> "tail", then |-> "idle"] }
MCScriptsObey == [ready : {"header"}, on_term : {"exit", "tail"}, then : {"idle", "exit"}]
=============================================================================
