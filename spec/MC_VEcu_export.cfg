SPECIFICATION Spec
CONSTANTS
  M <- MCM
  SfSids <- MCSfSids
  ReqSeq <- MCReqSeq
  BFamily <- BFamExport
  Export = TRUE
  CheckE4 = FALSE
  Dev_S20_RuleOffRaises = FALSE
  Dev_S20b_UnofferedSessionAsserts = FALSE
INVARIANT TypeOK
CHECK_DEADLOCK FALSE
