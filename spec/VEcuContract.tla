--------------------------- MODULE VEcuContract ---------------------------
(* Contract layer of the virtual ECU (gallia.services.uds.server.UDSServer /
   RandomUDSServer), written from the STATEMENTS of properties C13 and C14, not
   from the code.  Operators only, no VARIABLES.

   C13: "With its default behaviours enabled, the virtual ECU answers every
   request according to the general server response behaviour of ISO 14229-1:
     [R1a] a service unknown in every session gets serviceNotSupported,
     [R1b] one known only in another session serviceNotSupportedInActiveSession,
     [R2]  a sub-function service without sub-function byte
           incorrectMessageLengthOrInvalidFormat,
     [R3]  an unknown sub-function subFunctionNotSupported or its
           in-active-session variant (RoutineControl exempt),
     [R4]  an unparsable request again incorrectMessageLengthOrInvalidFormat,
     [ORD] in this priority order.
     [E2]  Positive replies are suppressed iff the suppress bit is set while
           negative ones never are,
     [E3]  session and security state change exactly on the positive replies
           that ISO defines,  (hence not between two requests, whatever happens
           to tester connections meanwhile -- but for ISO's own session
           time-out: [E3-between], StepVerdictEG)
     [E4]  and disabling one behaviour only removes that rule."  (Chain with
           B \ {r}; and the stages that remain do not decide by the premise
           of the removed rule: [E4-only-that-rule], StepVerdictE4T)
   C14: "[A1] neither raises nor drops the connection, [A2] stays in a session
   it offers, [A3] what it sends back is a well-formed UDS response that
   gallia's own client accepts as the answer to exactly that request."

   Data.
     M        model: function  session -> (function sid -> [sf |-> BOOLEAN,
              subs |-> set of sub-function values])   (sf: the service has a
              sub-function byte; for plain services subs = {})
     B        set of ENABLED behaviour switches, B \subseteq Rules
     st       [session |-> Nat, level |-> Int]   level = NoLevel: locked
     q        request  [b |-> first bytes (at most 4), n |-> total length >= 1,
              p |-> BOOLEAN]   p: the request is parsable by the request codec
              (that codec is the subject of C01; here it is an input)
     reply    [k |-> "none" | "bytes" | "somepos", n |-> length, b |-> first
              bytes (at most 6)]; "somepos" = a positive reply whose bytes were
              not observed (it was suppressed)

   Where the statement is silent the contract accepts every outcome; those
   choices are the option record o (see Opts) and are counted as `unspecified`
   by the trace spec.  Numbers below are ISO 14229-1 constants (service ids,
   response codes, the activeDiagnosticSession DID), not gallia constants. *)
EXTENDS Naturals, Integers, Sequences, FiniteSets, TLC

Rules == {"sns", "msf", "sfns", "fmt", "sc", "sr", "tp", "none", "supp"}
\* sns  default_response_if_service_not_supported       (R1a/R1b)
\* msf  default_response_if_missing_sub_function        (R2)
\* sfns default_response_if_sub_function_not_supported  (R3)
\* fmt  default_response_if_incorrect_format            (R4)
\* sc   default_response_if_session_change     sr  ..._session_read
\* tp   default_response_if_tester_present     none ..._none (generalReject)
\* supp default_response_if_suppress                    (E2)

NoLevel        == -1
DefaultSession == 1

NRC_GeneralReject == 16
NRC_SNS           == 17    \* serviceNotSupported
NRC_SFNS          == 18    \* subFunctionNotSupported
NRC_IMLOIF        == 19    \* incorrectMessageLengthOrInvalidFormat
NRC_SFNSIAS       == 126   \* subFunctionNotSupportedInActiveSession
NRC_SNSIAS        == 127   \* serviceNotSupportedInActiveSession

SID_DSC  == 16    \* DiagnosticSessionControl
SID_ER   == 17    \* ECUReset
SID_RDBI == 34    \* ReadDataByIdentifier
SID_SA   == 39    \* SecurityAccess
SID_RC   == 49    \* RoutineControl
SID_TP   == 62    \* TesterPresent
SID_NEG  == 127
DID_ActiveSession == 61830   \* 0xF186

----------------------------------------------------------------------------
(* ------------------------------ model view ------------------------------ *)
Known(M) == UNION {DOMAIN M[s] : s \in DOMAIN M}
\* V: the model plus two derived tables (computed once per model)
View(M) == [M     |-> M,
            known |-> Known(M),
            sf    |-> [sid \in Known(M) |-> \E s \in DOMAIN M : sid \in DOMAIN M[s] /\ M[s][sid].sf]]

----------------------------------------------------------------------------
(* -------------------------- requests and replies ------------------------- *)
Sid(q)   == q.b[1]
Has2(q)  == q.n >= 2
Sub(q)   == q.b[2] % 128         \* only if Has2(q)
Bit(q)   == q.b[2] >= 128        \* only if Has2(q)
Did(q)   == q.b[2] * 256 + q.b[3]   \* only if q.n >= 3

NoReply  == [k |-> "none",    n |-> 0, b |-> <<>>]
SomePos  == [k |-> "somepos", n |-> 0, b |-> <<>>]
Bytes(s) == [k |-> "bytes",   n |-> Len(s), b |-> s]

IsNeg(r)          == r.k = "bytes" /\ r.n = 3 /\ r.b[1] = SID_NEG
IsNegFor(r, sid)  == IsNeg(r) /\ r.b[2] = sid
NegIs(r, sid, c)  == IsNegFor(r, sid) /\ r.b[3] = c
IsPosFor(r, sid)  == \/ r.k = "somepos"
                     \/ r.k = "bytes" /\ r.n >= 1 /\ r.b[1] = sid + 64 /\ r.b[1] # SID_NEG

\* expected answer classes
Neg(rule, c) == [c |-> "neg",      nrc |-> c, rule |-> rule]
Cls(rule, c) == [c |-> c,          nrc |-> 0, rule |-> rule]

\* options = the points where the statement is silent
\*   sf      is a service that the model does not know at all a sub-function service?
\*   r3short does the unknown-sub-function rule apply when there is no sub-function byte
\*           (only reachable with R2 disabled)?
\*   multi   is a multi-identifier read whose first identifier is the session DID a
\*           "session read"?
Opts(V, B, q) ==
  [sf      : IF Sid(q) \in V.known THEN {V.sf[Sid(q)]} ELSE BOOLEAN,
   r3short : IF ~Has2(q) /\ "msf" \notin B /\ "sfns" \in B THEN BOOLEAN ELSE {FALSE},
   multi   : IF Sid(q) = SID_RDBI /\ q.n > 3 /\ "sr" \in B THEN BOOLEAN ELSE {FALSE}]

\* The ordered chain [ORD]: first applicable ENABLED rule.  [E4] is built in: the
\* answer under B \ {r} is the same chain with rule r skipped and nothing else changed.
Chain(V, B, st, q, o) ==
  LET sid     == Sid(q)
      M       == V.M
      act     == st.session \in DOMAIN M /\ sid \in DOMAIN M[st.session]
      subsAct == IF act THEN M[st.session][sid].subs ELSE {}
      other   == Has2(q) /\ \E s \in DOMAIN M : /\ s # st.session
                                                /\ sid \in DOMAIN M[s]
                                                /\ Sub(q) \in M[s][sid].subs
  IN
  IF "sns" \in B /\ ~act
  THEN IF sid \in V.known THEN Neg("R1b/serviceNotSupportedInActiveSession", NRC_SNSIAS)
                          ELSE Neg("R1a/serviceNotSupported", NRC_SNS)
  ELSE IF "msf" \in B /\ o.sf /\ ~Has2(q)
  THEN Neg("R2/missingSubFunction", NRC_IMLOIF)
  ELSE IF "sfns" \in B /\ o.sf /\ sid # SID_RC
          /\ (IF Has2(q) THEN Sub(q) \notin subsAct ELSE o.r3short)
  THEN IF other THEN Neg("R3/subFunctionNotSupportedInActiveSession", NRC_SFNSIAS)
                ELSE Neg("R3/subFunctionNotSupported", NRC_SFNS)
  ELSE IF "fmt" \in B /\ ~q.p
  THEN Neg("R4/incorrectFormat", NRC_IMLOIF)
  ELSE IF "sc" \in B /\ q.p /\ sid = SID_DSC /\ Has2(q)
  THEN Cls("sessionChange", "dsc")
  ELSE IF "sr" \in B /\ q.p /\ sid = SID_RDBI /\ q.n >= 3 /\ Did(q) = DID_ActiveSession
          /\ (q.n = 3 \/ o.multi)
  THEN Cls("sessionRead", "sessread")
  ELSE IF "tp" \in B /\ q.p /\ sid = SID_TP /\ Has2(q)
  THEN Cls("testerPresent", "tp")
  ELSE Cls("serviceSpecific", "specific")

\* [E1] does the reply `pre` (before suppression) belong to the class?
Matches(cls, B, st, q, pre) ==
  CASE cls.c = "neg"      -> NegIs(pre, Sid(q), cls.nrc)
    [] cls.c = "dsc"      -> \/ pre.k = "somepos"
                             \/ pre.k = "bytes" /\ pre.n >= 2 /\ pre.b[1] = SID_DSC + 64 /\ pre.b[2] = Sub(q)
    [] cls.c = "sessread" -> \/ pre.k = "somepos"
                             \/ pre.k = "bytes" /\ pre.n = 4
                                /\ pre.b = <<SID_RDBI + 64, 241, 134, st.session>>
    [] cls.c = "tp"       -> \/ pre.k = "somepos"
                             \/ pre.k = "bytes" /\ pre.n = 2 /\ pre.b[1] = SID_TP + 64 /\ pre.b[2] = Sub(q)
    \* service specific: any negative or positive reply OF THAT SERVICE; the
    \* generalReject rule turns "no answer" into a negative reply, so silence
    \* is admissible only with that rule disabled
    [] cls.c = "specific" -> \/ IsNegFor(pre, Sid(q))
                             \/ IsPosFor(pre, Sid(q))
                             \/ pre.k = "none" /\ "none" \notin B
    [] OTHER -> FALSE

\* [E2] what is sent, given the reply before suppression
SuppressBit(q, o) == o.sf /\ Has2(q) /\ Bit(q)
VisibleOk(B, q, o, pre, vis) ==
  IF IsPosFor(pre, Sid(q)) /\ pre.k # "none" /\ SuppressBit(q, o) /\ "supp" \in B
  THEN IF q.p THEN vis.k = "none"
              ELSE vis.k = "none" \/ vis = pre      \* suppress bit of an unparsable request: unspecified
  ELSE IF pre.k = "somepos" THEN FALSE              \* an unobserved positive reply must have been suppressed
  ELSE vis = pre                                    \* negative replies, unset bit, disabled rule: sent as is

\* [E3] admissible states after the exchange
Locked(s) == [session |-> s, level |-> NoLevel]
NextStates(st, q, pre) ==
  IF ~IsPosFor(pre, Sid(q)) \/ pre.k = "none" \/ ~Has2(q) THEN {st}
  ELSE LET sid == Sid(q) IN
    CASE sid = SID_DSC ->
           {Locked(Sub(q))}
           \cup (IF pre.k = "bytes" /\ pre.n >= 2 THEN {Locked(pre.b[2])} ELSE {})
           \* default -> default keeps or drops the security level: unspecified
           \cup (IF st.session = DefaultSession /\ Sub(q) = DefaultSession THEN {st} ELSE {})
      [] sid = SID_SA /\ Sub(q) % 2 = 0 ->
           IF Sub(q) = 0 THEN {st, [st EXCEPT !.level = NoLevel]}
           ELSE {[st EXCEPT !.level = Sub(q) - 1]}
      [] sid = SID_ER ->
           {Locked(DefaultSession)}
           \* enable/disableRapidPowerShutDown do not reset by themselves: unspecified
           \cup (IF Sub(q) \in {4, 5} THEN {st} ELSE {})
      [] OTHER -> {st}

----------------------------------------------------------------------------
(* ------------------------------- verdicts ------------------------------- *)
\* candidates for the reply before suppression when it was not observed
PreCands(pre, vis) ==
  IF pre.k # "unknown" THEN {pre}
  ELSE IF vis.k = "bytes" THEN {vis} ELSE {NoReply, SomePos}

\* Verdict of one exchange against E1..E4: "ok" or the label of the first
\* clause broken.  x = [q, pre, vis, raised, after]; `before` is the state in
\* which the request arrived.
StepVerdictE(V, B, before, x) ==
  LET q  == x.q
      os == Opts(V, B, q)
      cs == PreCands(x.pre, x.vis)
      canon == Chain(V, B, before, q, CHOOSE o \in os : TRUE)
      M1(o, p) == Matches(Chain(V, B, before, q, o), B, before, q, p)
  IN
  IF x.raised # "" THEN
       IF B = Rules THEN "E1/raises-instead-of-answering" ELSE "E4/rule-off-raises"
  ELSE IF \E o \in os, p \in cs : /\ M1(o, p)
                                  /\ VisibleOk(B, q, o, p, x.vis)
                                  /\ x.after \in NextStates(before, q, p)
       THEN "ok"
  ELSE IF ~\E o \in os, p \in cs : M1(o, p)
       THEN "E1/" \o canon.rule
  ELSE IF ~\E o \in os, p \in cs : M1(o, p) /\ VisibleOk(B, q, o, p, x.vis)
       THEN IF x.vis.k = "none" THEN "E2/negative-or-unset-bit-suppressed"
                                ELSE "E2/positive-not-suppressed"
  ELSE "E3/state-update"

\* [E3-between] "session and security state change EXACTLY on the positive replies that ISO defines": between two
\* requests nothing is answered, so nothing may change -- whatever happens to tester connections in between
\* (a tester hangs up, another one connects, the server drops a connection) is not a positive reply.  The one
\* exception ISO itself defines is the session time-out (ISO 14229-2, S3server = 5 s; gallia's virtual ECU uses
\* 10 s): a request that arrives `gap` seconds (of the server's clock) after the previous request may find the server
\* EITHER in the state the history left it in OR, once gap >= S3Server, in its power-on state (default session,
\* locked).  Which of the two is unspecified from S3Server upwards (any time-out constant >= S3server is admissible);
\* below S3Server only the state of the history is.
S3Server == 5
BeforeStates(st, gap) == {st} \cup (IF gap >= S3Server THEN {Locked(DefaultSession)} ELSE {})
StepVerdictEG(V, B, before, gap, x) ==
  IF StepVerdictE(V, B, before, x) = "ok" THEN "ok"
  ELSE IF \E b \in BeforeStates(before, gap) : StepVerdictE(V, B, b, x) = "ok" THEN "ok"
  \* diagnosis only: the exchange is exactly what a server in its power-on state would do, but no time-out can
  \* have happened -- the state was lost between two requests
  ELSE IF x.raised = "" /\ before # Locked(DefaultSession)
          /\ StepVerdictE(V, B, Locked(DefaultSession), x) = "ok"
       THEN "E3/state-falls-back-between-requests-without-positive-reply-or-timeout"
  ELSE StepVerdictE(V, B, before, x)

ChainRuleNames == {"R1a/serviceNotSupported", "R1b/serviceNotSupportedInActiveSession", "R2/missingSubFunction",
                   "R3/subFunctionNotSupported", "R3/subFunctionNotSupportedInActiveSession", "R4/incorrectFormat",
                   "sessionChange", "sessionRead", "testerPresent", "serviceSpecific"}
E1Labels == {"E1/" \o r : r \in ChainRuleNames} \cup {"E1/raises-instead-of-answering"}
E2Labels == {"E2/negative-or-unset-bit-suppressed", "E2/positive-not-suppressed"}
E3Labels == {"E3/state-update", "E3/state-falls-back-between-requests-without-positive-reply-or-timeout"}
E4Labels == {"E4/rule-off-raises"}

\* was any admissible explanation one that needed an `unspecified` option?
Unspecified(V, B, before, x) ==
  /\ x.raised = ""
  /\ Cardinality(Opts(V, B, x.q)) > 1
  /\ Cardinality({Chain(V, B, before, x.q, o) : o \in Opts(V, B, x.q)}) > 1

----------------------------------------------------------------------------
(* [E4-only-that-rule]  "disabling one behaviour ONLY removes that rule".

   Two of the rules read their premise off the model: sns ("the active session does not offer the service")
   and sfns ("... not this sub-function").  When such a rule is disabled and its premise holds, Chain sends
   the request on to the stages that remain -- in the end to the service-specific stage, whose replies the
   statement leaves open.  Open, but not free to re-introduce the removed rule: if, with the rule switched
   off, the answer (or the state change) still depended on the rule's premise, the request would still be
   decided by "the service / sub-function is not offered here" -- the rule would have moved, not gone
   (whatever response code it then uses, generalReject for "nobody answered" included).

   So the answer is compared with the answer of the SAME virtual ECU (same seed, parameters, switches,
   session and security state, same history) whose model differs in nothing but the premise: the twin
   offers the service and the sub-function in the active session (model V2).  The twin tells what the
   remaining stages say to this request when the removed rule has nothing to say; "only that rule removed"
   must give the same KIND of answer -- nothing sent / positive / negative with the same response code --
   and the same session and security state afterwards.  The payload of a positive reply is not compared
   (seeds and data records are random).  In particular "generalReject because no stage answered" is
   admissible exactly when no stage answers the twin either.

   The clause speaks only where everything is unambiguous: a model-reading rule is disabled, it (and nothing
   before it) would have answered were it enabled, the remaining chain ends in the service-specific stage for
   every admissible option, and in the twin neither model-reading rule applies even when enabled.  Both
   exchanges start from the same state and carry the same request (a SendKey may carry the key of its own
   seed).  y = [q, before, pre, vis, raised, after] is the twin's exchange. *)
ModelRules     == {"sns", "sfns"}
ModelRuleNames == {"R1a/serviceNotSupported", "R1b/serviceNotSupportedInActiveSession",
                   "R3/subFunctionNotSupported", "R3/subFunctionNotSupportedInActiveSession"}

ReplyOf(pre, vis) == IF pre.k # "unknown" THEN pre ELSE vis
Kind(r, sid) ==
  IF r.k = "none" THEN <<"none", 0>>
  ELSE IF IsNegFor(r, sid) THEN <<"neg", r.b[3]>>
  ELSE IF IsPosFor(r, sid) THEN <<"pos", 0>>
  ELSE <<"other", 0>>

SameRequest(q, q2) ==
  /\ Sid(q) = Sid(q2) /\ q.p = q2.p /\ Has2(q) = Has2(q2)
  /\ Has2(q) => q.b[2] = q2.b[2]
  /\ \/ q = q2
     \/ Sid(q) = SID_SA /\ Has2(q) /\ Sub(q) % 2 = 0      \* SendKey: each side answers its own seed

TwinJudged(V, V2, B, before, x, y) ==
  LET q  == x.q
      BM == B \cup ModelRules
  IN
  /\ ModelRules \ B # {}
  /\ x.raised = "" /\ y.raised = ""
  /\ y.before = before
  /\ SameRequest(q, y.q)
  /\ \A o \in Opts(V, B, q)    : Chain(V, B, before, q, o).c = "specific"
  /\ \A o \in Opts(V, BM, q)   : Chain(V, BM, before, q, o).rule \in ModelRuleNames
  /\ \A o \in Opts(V2, BM, y.q) : Chain(V2, BM, before, y.q, o).c = "specific"

StepVerdictE4T(V, V2, B, before, x, y) ==
  IF ~TwinJudged(V, V2, B, before, x, y) THEN "ok"
  ELSE IF Kind(ReplyOf(x.pre, x.vis), Sid(x.q)) # Kind(ReplyOf(y.pre, y.vis), Sid(x.q))
       THEN "E4/only-that-rule/disabled-rule-still-decides-the-reply"
  ELSE IF x.after # y.after
       THEN "E4/only-that-rule/disabled-rule-still-decides-the-state"
  ELSE "ok"

E4TwinLabels == {"E4/only-that-rule/disabled-rule-still-decides-the-reply",
                 "E4/only-that-rule/disabled-rule-still-decides-the-state"}

\* C14.  A1: no raise, connection loop still serving; a missing answer must be
\* explained by the suppress rule.  A2: session offered.  A3: reply well formed
\* for that request and accepted by the client (x.acc is the verdict of the
\* real client's matcher: "ok" or the exception class).
WellFormedFor(q, vis) ==
  \/ IsNegFor(vis, Sid(q))
  \/ vis.k = "bytes" /\ vis.n >= 1 /\ vis.b[1] = Sid(q) + 64 /\ vis.b[1] # SID_NEG
StepVerdictA(V, before, x) ==
  IF x.raised # "" THEN "A1/raises"
  ELSE IF ~x.alive THEN "A1/connection-dropped"
  ELSE IF x.vis.k = "none" /\ ~(Has2(x.q) /\ Bit(x.q)) THEN "A1/no-answer"
  ELSE IF x.after.session \notin DOMAIN V.M THEN "A2/session-not-offered"
  ELSE IF x.vis.k = "bytes" /\ ~WellFormedFor(x.q, x.vis) THEN "A3/reply-not-well-formed"
  ELSE IF x.vis.k = "bytes" /\ x.acc # "ok" THEN "A3/client-rejects-reply"
  ELSE IF x.vis.k = "none" /\ x.acc \notin {"ok", "silent"} THEN "A3/client-rejects-silence"
  ELSE "ok"
=============================================================================
