---------------------------- MODULE MC_CursedHr ----------------------------
(* Small-constant configurations of the X18 design layer (CursedHr). *)
EXTENDS CursedHr

Ones(n) == [i \in 1..n |-> 1]
\* all logs of 3 records: priority NOTICE(5) / TRACE(8), 1 or 2 display lines; filter 1 passes records 1 and 3,
\* filter 2 passes everything it can be evaluated on and raises on record 2
MCLogs3 ==
  { [i \in 1..3 |-> [prio |-> p[i], lens |-> Ones(n[i]), sat |-> <<i # 2, TRUE>>, und |-> <<FALSE, i = 2>>]] :
      p \in [1..3 -> {5, 8}], n \in [1..3 -> {1, 2}] }
\* 4 records, up to 3 lines, hidden records in between and at the end
MCLogs4 ==
  { [i \in 1..4 |-> [prio |-> p[i], lens |-> Ones(n[i]), sat |-> <<i \in {1, 4}, TRUE>>, und |-> <<FALSE, FALSE>>]] :
      p \in {<<5, 8, 5, 8>>, <<8, 5, 8, 5>>, <<5, 5, 8, 8>>, <<7, 8, 8, 7>>},
      n \in {<<2, 1, 3, 1>>, <<1, 3, 2, 2>>, <<3, 1, 1, 2>>} }
MCLogsCov == {l \in MCLogs3 : l[1].prio = 5 /\ l[2].prio = 8 /\ l[3].prio = 5 /\ Len(l[1].lens) = 2 /\ Len(l[3].lens) = 1}
MCLogsFew == {l \in MCLogs3 : l[1].prio = 5 /\ l[3].prio = 5 /\ Len(l[1].lens) = 1}
MCHeights == {3, 4}
MCHeight3 == {3}
MCHeights5 == {4, 5}
MCLevels == {5, 8}
MCWide == {TRUE}
MCTokAll == {"up", "down", "ppage", "npage", "home", "end", "left", "x", "esc", "mark", "P", "p", "lvl", "undo", "redo",
             "interp", "f", "ch", "enter", "help", "quit", "resize"}
MCTokSim == MCTokAll \ {"x"}
MCTokNav == {"up", "down", "ppage", "npage", "home", "end", "left", "x", "help", "esc", "quit", "resize", "P", "lvl"}
MCTokCfg == {"down", "end", "mark", "P", "p", "lvl", "undo", "redo", "interp", "f", "enter", "esc", "ppage"}
MCWidesBoth == {TRUE, FALSE}

=============================================================================
