---------------------------- MODULE CanTransports ----------------------------
(* X23 -- DESIGN LAYER: state machines shaped like gallia.transports.can / gallia.transports.isotp on top of a model of
   what the Linux kernel does with the system calls (CAN_RAW receive queue with CAN_RAW_FILTER / CAN_RAW_JOIN_FILTERS /
   CAN_INV_FILTER / CAN_RAW_FD_FRAMES, ISO-TP socket options refused once bound, sk_err reported by the next receive).
   Three parts, selected by the constant Part:

     "frames"  CANMessage.pack / CANMessage.unpack on one frame chosen in Init            (actions Pack, Unpack)
     "raw"     one RawCANTransport: other nodes put frames on the bus at any moment; the application calls
               set_filter / recvfrom / sendto / write / get_idle_traffic / close; one action per await point
     "iso"     ISOTPTransport.connect step by step (parse, CAN_ISOTP_OPTS, CAN_ISOTP_LL_OPTS, bind), then read / write /
               close against a kernel that queues PDUs and socket errors

   The design does not judge itself: every event it produces has exactly the layout of the recorded executions of the
   real code and is folded through the SAME contract operators (RawStep / IsoStep / PackVerdict / UnpackVerdict); the
   invariants say "the contract's verdict is not <clause>".  Deviation constants Dev_* reproduce defects (the five that
   were in the tree as found + others): with all FALSE every invariant holds, with one TRUE TLC must name the clause.

   Time: `now` counts receive time-outs (maximal progress: the clock only moves when the application waits on an
   empty queue). *)
EXTENDS CanTransportsContract, Bitwise, TLC

CONSTANTS
  Part,            \* "frames" | "raw" | "iso"
  Space,           \* frames: set of frames; raw: set of transport configurations; iso: set of URI configurations
  Ids,             \* raw: CAN identifiers on the bus, in filter lists and as destinations
  Lens,            \* raw: payload lengths; iso: PDU lengths
  Errnos,          \* iso: socket errors the kernel may report
  MaxFrames, MaxOps,
  Mixed,           \* raw: frames of the other identifier width occur as well
  Allow,           \* raw, iso: API calls the application makes in this instance
  Buf,             \* iso: receive buffer size of the transport
  Export,
  Dev_FdFlagDropped,      \* frames, raw: the FD flag of the message is ignored when packing
  Dev_RtrBit,             \* frames: RTR packed into bit 29
  Dev_UnpackNoCut,        \* frames: unpack returns the whole data field, not the first `len` bytes
  Dev_SffMaskAlways,      \* raw: filter mask CAN_SFF_MASK also for extended identifiers
  Dev_MaskSwapped,        \* raw: filter packed as (mask, id)
  Dev_JoinSticky,         \* raw (as found): CAN_RAW_JOIN_FILTERS is switched on by an inverted filter and never off again
  Dev_NoJoin,             \* raw: inverted filters without CAN_RAW_JOIN_FILTERS
  Dev_TimeoutEats,        \* raw: a receive that times out has consumed a frame
  Dev_DstTruthy,          \* raw (as found): write() takes dst_id 0 for "not set"
  Dev_CloseNoop,          \* raw (as found): close() leaves the socket open
  Dev_IdleStopsOnTimeout, \* raw: get_idle_traffic gives up at the first quiet second
  Dev_PadSwapped,         \* iso: tx_padding / rx_padding contents swapped
  Dev_ExtTruthy,          \* iso: ext_address 0 / tx_padding 0 taken for "absent"
  Dev_BindSwapped,        \* iso: bind((interface, tx id, rx id))
  Dev_BindFirst,          \* iso: bind before the socket options
  Dev_NoLLOpts,           \* iso: is_fd does not reach the socket
  Dev_HexRejected,        \* iso (as found): frame_txtime / tx_dl spelled 0x.. are refused
  Dev_EcommReraised,      \* iso: ECOMM re-raised as it is
  Dev_EilseqTimeout,      \* iso: EILSEQ reported as a time-out
  Dev_ErrSwallowed        \* iso: an unknown socket error makes read() return b""

VARIABLES cfg, k, pc, now, cst, aux, nops, hist
vars == <<cfg, k, pc, now, cst, aux, nops, hist>>
View == <<cfg, k, pc, now, cst, aux, nops>>

\* A deviation is active when its constant is TRUE or when the configuration chosen in Init names it (sweep instances:
\* Space holds configurations with a field `dev`; one TLC run then covers several negative controls, see SweepObs).
DvFdFlagDropped == Dev_FdFlagDropped \/ cfg.dev = "FdFlagDropped"
DvRtrBit == Dev_RtrBit \/ cfg.dev = "RtrBit"
DvUnpackNoCut == Dev_UnpackNoCut \/ cfg.dev = "UnpackNoCut"
DvSffMaskAlways == Dev_SffMaskAlways \/ cfg.dev = "SffMaskAlways"
DvMaskSwapped == Dev_MaskSwapped \/ cfg.dev = "MaskSwapped"
DvJoinSticky == Dev_JoinSticky \/ cfg.dev = "JoinSticky"
DvNoJoin == Dev_NoJoin \/ cfg.dev = "NoJoin"
DvTimeoutEats == Dev_TimeoutEats \/ cfg.dev = "TimeoutEats"
DvDstTruthy == Dev_DstTruthy \/ cfg.dev = "DstTruthy"
DvCloseNoop == Dev_CloseNoop \/ cfg.dev = "CloseNoop"
DvIdleStopsOnTimeout == Dev_IdleStopsOnTimeout \/ cfg.dev = "IdleStopsOnTimeout"
DvPadSwapped == Dev_PadSwapped \/ cfg.dev = "PadSwapped"
DvExtTruthy == Dev_ExtTruthy \/ cfg.dev = "ExtTruthy"
DvBindSwapped == Dev_BindSwapped \/ cfg.dev = "BindSwapped"
DvBindFirst == Dev_BindFirst \/ cfg.dev = "BindFirst"
DvNoLLOpts == Dev_NoLLOpts \/ cfg.dev = "NoLLOpts"
DvHexRejected == Dev_HexRejected \/ cfg.dev = "HexRejected"
DvEcommReraised == Dev_EcommReraised \/ cfg.dev = "EcommReraised"
DvEilseqTimeout == Dev_EilseqTimeout \/ cfg.dev = "EilseqTimeout"
DvErrSwallowed == Dev_ErrSwallowed \/ cfg.dev = "ErrSwallowed"
BufEff == IF cfg.dev = "BufSmall" THEN 2 ELSE Buf

RECURSIVE SeqOf(_)
SeqOf(S) == IF S = {} THEN <<>> ELSE LET m == CHOOSE m \in S : \A o \in S : m <= o IN <<m>> \o SeqOf(S \ {m})
Zeros(n) == [i \in 1..n |-> 0]

\* =========================================================================== part "frames"
\* cfg = [id, eff, rtr, err, fd, brs, esi, dlc, d]
DWord(f) ==     \* _compose_arbitration_id, native little endian
  LET b == Bytes4(f.id, TRUE) IN
  <<b[1], b[2], b[3],
    b[4] + (IF f.eff THEN 128 ELSE 0)
         + (IF f.rtr THEN (IF DvRtrBit THEN 32 ELSE 64) ELSE 0)
         + (IF f.err THEN 32 ELSE 0)>>
DPack(f) ==
  LET fd     == f.fd /\ ~DvFdFlagDropped
      maxlen == IF fd THEN 64 ELSE 8
      flags  == (IF f.brs THEN 1 ELSE 0) + (IF f.esi THEN 2 ELSE 0)
      n      == IF f.dlc >= 0 THEN f.dlc ELSE Len(f.d)
      body   == IF Len(f.d) >= maxlen THEN f.d ELSE f.d \o Zeros(maxlen - Len(f.d)) IN
  DWord(f) \o <<n, flags, 0, 0>> \o body

DUnpack(raw) ==
  LET top   == raw[4]
      eff   == top >= 128
      id29  == raw[1] + 256 * raw[2] + 65536 * raw[3] + 16777216 * (top % 32)
      isfd  == Len(raw) = 72
      flags == IF isfd THEN raw[6] ELSE 0
      n     == raw[5] IN
  [id  |-> IF eff THEN id29 ELSE id29 % 2048,
   eff |-> eff, rtr |-> Bit(top, 6) = 1, err |-> Bit(top, 5) = 1, fd |-> isfd,
   brs |-> Bit(flags, 0) = 1, esi |-> Bit(flags, 1) = 1, dlc |-> n,
   d   |-> [i \in 1..(IF 8 + n <= Len(raw) /\ ~DvUnpackNoCut THEN n ELSE Len(raw) - 8) |-> raw[8 + i]]]

FramesInit ==
  /\ cfg \in Space /\ k = <<>> /\ pc = "pack" /\ now = 0 /\ aux = <<>> /\ nops = 0 /\ hist = <<>>
  /\ cst = [v |-> "ok", u |-> 0]
Pack ==
  /\ Part = "frames" /\ pc = "pack"
  /\ LET x == cfg @@ [le |-> TRUE, res |-> "ok", packed |-> DPack(cfg)] IN
       /\ cst' = [v |-> PackVerdict(x), u |-> B2N(~PackDomain(x))]
       /\ (Export => PrintT(<<"F", cfg>>))
  /\ pc' = "unpack" /\ UNCHANGED <<cfg, k, now, aux, nops, hist>>
\* the frame as the kernel would hand it over is the CONTRACT's layout of the chosen frame
Unpack ==
  /\ Part = "frames" /\ pc = "unpack" /\ cst.v = "ok"
  /\ LET raw == ExpectedFrame(cfg @@ [le |-> TRUE])
         rawt == [i \in 1..Len(raw) |-> raw[i]]
         m == DUnpack(rawt)
         x == [raw |-> rawt, le |-> TRUE, res |-> "ok", m |-> m, again |-> DPack(m)] IN
       cst' = [v |-> UnpackVerdict(x), u |-> cst.u]
  /\ pc' = "done" /\ UNCHANGED <<cfg, k, now, aux, nops, hist>>

\* =========================================================================== part "raw"
\* cfg = [iface, xid, fd, dst, valid]; k = kernel side of the socket
\*   k.on / k.fs: CAN_RAW_FILTER list set? entries [id, inv, mask]; k.join; k.fdOn; k.q: sequence numbers queued;
\*   k.open; k.n: frames that were on the bus
IdsOf(xid) == IF xid THEN Ids ELSE {i \in Ids : i <= SffMax}
Data(id, n) == [i \in 1..n |-> (id + 16 * i) % 256]

\* linux/net/can/af_can.c can_rcv_filter + raw.c: what one filter entry lets through, and the join rule
Match(e, f) == (f.id & e.mask) = (e.id & e.mask)
Passes(f) ==
  IF ~k.on THEN TRUE
  ELSE LET hits == {e \in k.fs : Match(e, f) # e.inv} IN
       IF k.join THEN hits = k.fs ELSE hits # {}

OpEv(op, res, more) == [e |-> "op", op |-> op, t0 |-> now, t |-> now, res |-> res, mro |-> <<>>] @@ more
Emit2(e1, e2) == RawStep(RawStep(cst, cfg, e1), cfg, e2)

RawInitP ==
  /\ cfg \in Space
  /\ k = [on |-> FALSE, fs |-> {}, join |-> FALSE, fdOn |-> cfg.fd, q |-> <<>>, open |-> TRUE, n |-> 0]
  /\ pc = "ready" /\ now = 0 /\ aux = [t0 |-> 0, sniff |-> 0, seen |-> {}] /\ nops = 0 /\ hist = <<>>
  /\ cst = RawStep(RawInit, cfg, [e |-> "op", op |-> "connect", t0 |-> 0, t |-> 0, res |-> "ok", mro |-> <<>>,
                                  calls |-> <<[c |-> "bind", iface |-> cfg.iface, n |-> 1]>>])

BusFrame(id, eff, fd, n) ==
  /\ Part = "raw" /\ k.open /\ k.n < MaxFrames /\ pc # "closed"
  /\ (Mixed \/ eff = cfg.xid) /\ id <= (IF eff THEN EffMax ELSE SffMax) /\ (fd \/ n <= 8)
  /\ LET seq == k.n + 1
         f == [id |-> id]
         pass == (fd => k.fdOn) /\ Passes(f)
         ev == [e |-> "B", t |-> now, seq |-> seq, id |-> id, eff |-> eff, rtr |-> FALSE, err |-> FALSE, fd |-> fd,
                len |-> n, d |-> Data(id, n), ovr |-> FALSE] IN
       /\ k' = [k EXCEPT !.n = seq, !.q = IF pass THEN Append(@, seq) ELSE @]
       /\ cst' = RawStep(cst, cfg, ev)
       /\ hist' = Append(hist, <<"B", id, eff, fd, n, pass>>)
  /\ UNCHANGED <<cfg, pc, now, aux, nops>>

CanStart(op) == Part = "raw" /\ pc = "ready" /\ nops < MaxOps /\ op \in Allow

SetFilter(ids, inv) ==
  /\ CanStart("filter") /\ ids \subseteq IdsOf(cfg.xid)
  /\ LET mask == IF cfg.xid /\ ~DvSffMaskAlways THEN EffMax ELSE SffMax
         ent(i) == IF DvMaskSwapped THEN [id |-> mask, inv |-> FALSE, mask |-> i]
                   ELSE [id |-> i, inv |-> inv, mask |-> mask] IN
       k' = IF ids = {} THEN k
            ELSE [k EXCEPT !.on = TRUE, !.fs = {ent(i) : i \in ids},
                           !.join = IF inv THEN ~DvNoJoin ELSE (DvJoinSticky /\ @)]
  /\ cst' = RawStep(cst, cfg, OpEv("filter", "ok", [ids |-> SeqOf(ids), inv |-> inv]))
  /\ hist' = Append(hist, <<"filter", SeqOf(ids), inv>>)
  /\ nops' = nops + 1 /\ UNCHANGED <<cfg, pc, now, aux>>

RecvCall ==
  /\ CanStart("recv") /\ pc' = "rwait" /\ nops' = nops + 1 /\ hist' = Append(hist, <<"recv">>)
  /\ UNCHANGED <<cfg, k, now, cst, aux>>
RecvReturn ==
  /\ Part = "raw" /\ pc = "rwait" /\ k.q # <<>>
  /\ LET s == Head(k.q)  b == cst.fr[s] IN
       /\ cst' = Emit2([e |-> "R", seq |-> s], OpEv("recv", "frame", [id |-> b.id, d |-> b.d, timeout |-> 1000]))
       /\ hist' = Append(hist, <<"ret", b.id>>)
  /\ k' = [k EXCEPT !.q = Tail(@)] /\ pc' = "ready" /\ UNCHANGED <<cfg, now, aux, nops>>
RecvTimeout ==
  /\ Part = "raw" /\ pc = "rwait" /\ k.q = <<>>
  /\ now' = now + 1
  /\ cst' = RawStep(cst, cfg, [OpEv("recv", "timeout", [id |-> -1, d |-> <<>>, timeout |-> 1000]) EXCEPT !.t = now + 1])
  /\ hist' = Append(hist, <<"timeout">>)
  /\ pc' = "ready" /\ UNCHANGED <<cfg, k, aux, nops>>
RecvRace ==      \* the deadline and a frame at the same moment
  /\ Part = "raw" /\ pc = "rwait" /\ k.q # <<>> /\ DvTimeoutEats
  /\ cst' = Emit2([e |-> "R", seq |-> Head(k.q)], OpEv("recv", "timeout", [id |-> -1, d |-> <<>>, timeout |-> 1000]))
  /\ hist' = Append(hist, <<"timeout">>)
  /\ k' = [k EXCEPT !.q = Tail(@)] /\ pc' = "ready" /\ UNCHANGED <<cfg, now, aux, nops>>

DSent(dst, n) == [e |-> "W", ok |-> TRUE, id |-> dst, eff |-> cfg.xid, rtr |-> FALSE, err |-> FALSE,
                  fd |-> cfg.fd /\ ~DvFdFlagDropped, len |-> n, d |-> Data(dst, n)]
SendTo(dst, n) ==
  /\ CanStart("sendto") /\ (cfg.fd \/ n <= 8) /\ dst \in IdsOf(cfg.xid)
  /\ cst' = Emit2(DSent(dst, n), OpEv("sendto", "ok", [dst |-> dst, d |-> Data(dst, n), ret |-> n]))
  /\ hist' = Append(hist, <<"sendto", dst, n>>)
  /\ nops' = nops + 1 /\ UNCHANGED <<cfg, k, pc, now, aux>>
Write(n) ==
  /\ CanStart("write") /\ (cfg.fd \/ n <= 8)
  /\ LET set == IF DvDstTruthy THEN cfg.dst > 0 ELSE cfg.dst >= 0 IN
       cst' = IF set THEN Emit2(DSent(cfg.dst, n), OpEv("write", "ok", [d |-> Data(cfg.dst, n), ret |-> n]))
              ELSE RawStep(cst, cfg, OpEv("write", "exc", [d |-> Data(0, n), ret |-> -1]))
  /\ hist' = Append(hist, <<"write", n>>)
  /\ nops' = nops + 1 /\ UNCHANGED <<cfg, k, pc, now, aux>>

IdleStart(sn) ==
  /\ CanStart("idle") /\ pc' = "icheck" /\ aux' = [t0 |-> now, sniff |-> sn, seen |-> {}]
  /\ hist' = Append(hist, <<"idle", sn>>) /\ nops' = nops + 1 /\ UNCHANGED <<cfg, k, now, cst>>
IdleCheck ==
  /\ Part = "raw" /\ pc = "icheck"
  /\ pc' = IF now - aux.t0 < aux.sniff THEN "irecv" ELSE "idone"
  /\ UNCHANGED <<cfg, k, now, cst, aux, nops, hist>>
IdleRecvFrame ==
  /\ Part = "raw" /\ pc = "irecv" /\ k.q # <<>>
  /\ cst' = RawStep(cst, cfg, [e |-> "R", seq |-> Head(k.q)])
  /\ aux' = [aux EXCEPT !.seen = @ \cup {cst.fr[Head(k.q)].id}]
  /\ k' = [k EXCEPT !.q = Tail(@)] /\ pc' = "icheck" /\ UNCHANGED <<cfg, now, nops, hist>>
IdleRecvTimeout ==
  /\ Part = "raw" /\ pc = "irecv" /\ k.q = <<>>
  /\ now' = now + 1 /\ pc' = IF DvIdleStopsOnTimeout THEN "idone" ELSE "icheck"
  /\ hist' = Append(hist, <<"tick">>) /\ UNCHANGED <<cfg, k, cst, aux, nops>>
IdleDone ==
  /\ Part = "raw" /\ pc = "idone"
  /\ cst' = RawStep(cst, cfg, [OpEv("idle", "ok", [ids |-> SeqOf(aux.seen), sniff |-> aux.sniff]) EXCEPT !.t0 = aux.t0, !.t = now + 1])
  /\ hist' = Append(hist, <<"idleret", SeqOf(aux.seen)>>)
  /\ pc' = "ready" /\ UNCHANGED <<cfg, k, now, aux, nops>>

Close ==
  /\ CanStart("close")
  /\ k' = [k EXCEPT !.open = DvCloseNoop]
  /\ cst' = RawStep(cst, cfg, OpEv("close", "ok", [fdopen |-> DvCloseNoop]))
  /\ hist' = Append(hist, <<"close">>)
  /\ pc' = "closed" /\ nops' = nops + 1 /\ UNCHANGED <<cfg, now, aux>>

RawNext ==
  \/ \E id \in Ids : \E fd \in BOOLEAN : \E n \in Lens : \E eff \in BOOLEAN : BusFrame(id, eff, fd, n)
  \/ \E ids \in SUBSET Ids : \E inv \in BOOLEAN : SetFilter(ids, inv)
  \/ RecvCall \/ RecvReturn \/ RecvTimeout \/ RecvRace
  \/ \E dst \in Ids : \E n \in Lens : SendTo(dst, n)
  \/ \E n \in Lens : Write(n)
  \/ \E sn \in 0..2 : IdleStart(sn)
  \/ IdleCheck \/ IdleRecvFrame \/ IdleRecvTimeout \/ IdleDone
  \/ Close

\* =========================================================================== part "iso"
\* cfg = [iface, src, dst, xid, fd, txtime, ea, rea, txpad, rxpad, txdl, valid, hex]
\* k = [calls, bound, q (sequence numbers), open, n];  cst.it holds what the kernel queued
X == [cfg |-> cfg, le |-> TRUE]
Present(v) == IF DvExtTruthy THEN v > 0 ELSE v >= 0
DOpts ==
  LET flags == 2 * B2N(Present(cfg.ea)) + 4 * B2N(Present(cfg.txpad)) + 8 * B2N(cfg.rxpad >= 0) + 512 * B2N(cfg.rea >= 0)
      txp == IF Present(cfg.txpad) THEN cfg.txpad ELSE 0
      rxp == IF cfg.rxpad >= 0 THEN cfg.rxpad ELSE 0 IN
  <<flags % 256, flags \div 256, 0, 0>> \o Bytes4(IF cfg.txtime >= 0 THEN cfg.txtime ELSE 10, TRUE)
    \o <<IF Present(cfg.ea) THEN cfg.ea ELSE 0, IF DvPadSwapped THEN rxp ELSE txp, IF DvPadSwapped THEN txp ELSE rxp,
         IF cfg.rea >= 0 THEN cfg.rea ELSE 0>>
DAddr(id) == [id |-> id, eff |-> cfg.xid, rtr |-> FALSE, err |-> FALSE]
ConnEv(res) == [e |-> "op", op |-> "connect", t0 |-> 0, t |-> 0, res |-> res, mro |-> <<>>, calls |-> k.calls]

IsoInitP ==
  /\ cfg \in Space
  /\ k = [calls |-> <<>>, bound |-> FALSE, q |-> <<>>, open |-> TRUE, n |-> 0]
  /\ pc = "parse" /\ now = 0 /\ aux = <<>> /\ nops = 0 /\ hist = <<>> /\ cst = IsoInit

Parse ==
  /\ Part = "iso" /\ pc = "parse"
  /\ IF DvHexRejected /\ cfg.hex /\ (cfg.txtime >= 0 \/ cfg.txdl >= 0)
     THEN pc' = "dead" /\ cst' = IsoStep(cst, X, ConnEv("exc"))
     ELSE pc' = (IF DvBindFirst THEN "bind" ELSE "opts") /\ cst' = cst
  /\ UNCHANGED <<cfg, k, now, aux, nops, hist>>
SetOpts ==
  /\ Part = "iso" /\ pc = "opts"
  /\ LET call == [c |-> "opt", level |-> 106, opt |-> 1, v |-> DOpts, refused |-> k.bound] IN
       /\ k' = [k EXCEPT !.calls = Append(@, call)]
       /\ IF k.bound THEN pc' = "dead" /\ cst' = IsoStep(cst, X, [ConnEv("exc") EXCEPT !.calls = Append(k.calls, call)])
          ELSE pc' = "ll" /\ cst' = cst
  /\ UNCHANGED <<cfg, now, aux, nops, hist>>
SetLL ==
  /\ Part = "iso" /\ pc = "ll"
  /\ k' = IF cfg.fd /\ ~DvNoLLOpts
          THEN [k EXCEPT !.calls = Append(@, [c |-> "opt", level |-> 106, opt |-> 5, refused |-> FALSE,
                                              v |-> <<72, IF cfg.txdl >= 0 THEN cfg.txdl ELSE 64, 0>>])]
          ELSE k
  /\ pc' = IF DvBindFirst THEN "connected" ELSE "bind"
  /\ UNCHANGED <<cfg, now, cst, aux, nops, hist>>
Bind ==
  /\ Part = "iso" /\ pc = "bind"
  /\ k' = [k EXCEPT !.bound = TRUE,
                    !.calls = Append(@, [c |-> "bind", iface |-> cfg.iface, n |-> 3,
                                         rx |-> DAddr(IF DvBindSwapped THEN cfg.src ELSE cfg.dst),
                                         tx |-> DAddr(IF DvBindSwapped THEN cfg.dst ELSE cfg.src)])]
  /\ pc' = IF DvBindFirst THEN "opts" ELSE "connected"
  /\ UNCHANGED <<cfg, now, cst, aux, nops, hist>>
Connected ==
  /\ Part = "iso" /\ pc = "connected"
  /\ cst' = IsoStep(cst, X, ConnEv("ok"))
  /\ (Export => PrintT(<<"I", cfg, k.calls>>))
  /\ pc' = "ready" /\ UNCHANGED <<cfg, k, now, aux, nops, hist>>

PduData(n) == [i \in 1..n |-> (7 * i + n) % 256]
KernelPdu(n) ==
  /\ Part = "iso" /\ pc \in {"ready", "rwait"} /\ k.open /\ k.n < MaxFrames
  /\ k' = [k EXCEPT !.n = @ + 1, !.q = Append(@, k.n + 1)]
  /\ cst' = IsoStep(cst, X, [e |-> "P", t |-> now, seq |-> k.n + 1, k |-> "pdu", d |-> PduData(n), errno |-> 0, q |-> TRUE])
  /\ UNCHANGED <<cfg, pc, now, aux, nops, hist>>
KernelErr(eno) ==
  /\ Part = "iso" /\ pc \in {"ready", "rwait"} /\ k.open /\ k.n < MaxFrames
  /\ k' = [k EXCEPT !.n = @ + 1, !.q = Append(@, k.n + 1)]
  /\ cst' = IsoStep(cst, X, [e |-> "P", t |-> now, seq |-> k.n + 1, k |-> "err", d |-> <<>>, errno |-> eno, q |-> TRUE])
  /\ UNCHANGED <<cfg, pc, now, aux, nops, hist>>

IsoCanStart(op) == Part = "iso" /\ pc = "ready" /\ nops < MaxOps /\ op \in Allow
IOp(op, res, more) == [e |-> "op", op |-> op, t0 |-> now, t |-> now, res |-> res, mro |-> <<>>] @@ more
ReadCall == IsoCanStart("read") /\ pc' = "rwait" /\ nops' = nops + 1 /\ UNCHANGED <<cfg, k, now, cst, aux, hist>>
ReadReturn ==
  /\ Part = "iso" /\ pc = "rwait" /\ k.q # <<>>
  /\ LET s == Head(k.q)  it == cst.it[s]
         got == IF Len(it.d) > BufEff THEN SubSeq(it.d, 1, BufEff) ELSE it.d
         out == IF it.k = "pdu" THEN IOp("read", "data", [d |-> got, timeout |-> 1000])
                ELSE IF it.errno = ECOMM /\ ~DvEcommReraised
                     THEN [IOp("read", "exc", [d |-> <<>>, timeout |-> 1000]) EXCEPT !.mro = <<"BrokenPipeError", "ConnectionError", "OSError">>]
                ELSE IF it.errno = EILSEQ /\ ~DvEilseqTimeout
                     THEN [IOp("read", "exc", [d |-> <<>>, timeout |-> 1000]) EXCEPT !.mro = <<"BrokenPipeError", "ConnectionError", "OSError">>]
                ELSE IF it.errno \in {ETIMEDOUT, EILSEQ} THEN IOp("read", "timeout", [d |-> <<>>, timeout |-> 1000])
                ELSE IF DvErrSwallowed /\ it.errno \notin {ECOMM, EILSEQ, ETIMEDOUT} THEN IOp("read", "data", [d |-> <<>>, timeout |-> 1000])
                ELSE [IOp("read", "exc", [d |-> <<>>, timeout |-> 1000]) EXCEPT !.mro = <<"OSError">>] IN
       cst' = IsoStep(IsoStep(cst, X, [e |-> "R", seq |-> s]), X, out)
  /\ k' = [k EXCEPT !.q = Tail(@)] /\ pc' = "ready" /\ UNCHANGED <<cfg, now, aux, nops, hist>>
ReadTimeout ==
  /\ Part = "iso" /\ pc = "rwait" /\ k.q = <<>>
  /\ now' = now + 1 /\ cst' = IsoStep(cst, X, [IOp("read", "timeout", [d |-> <<>>, timeout |-> 1000]) EXCEPT !.t = now + 1])
  /\ pc' = "ready" /\ UNCHANGED <<cfg, k, aux, nops, hist>>
IsoWriteP(n) ==
  /\ IsoCanStart("write")
  /\ cst' = IsoStep(IsoStep(cst, X, [e |-> "W", pdu |-> PduData(n)]), X, IOp("write", "ok", [d |-> PduData(n), ret |-> n]))
  /\ nops' = nops + 1 /\ UNCHANGED <<cfg, k, pc, now, aux, hist>>
IsoCloseP ==
  /\ IsoCanStart("close")
  /\ k' = [k EXCEPT !.open = FALSE]
  /\ cst' = IsoStep(cst, X, IOp("close", "ok", [fdopen |-> FALSE]))
  /\ pc' = "closed" /\ nops' = nops + 1 /\ UNCHANGED <<cfg, now, aux, hist>>

IsoNext ==
  \/ Parse \/ SetOpts \/ SetLL \/ Bind \/ Connected
  \/ \E n \in Lens : KernelPdu(n)
  \/ \E e \in Errnos : KernelErr(e)
  \/ ReadCall \/ ReadReturn \/ ReadTimeout
  \/ \E n \in Lens : IsoWriteP(n)
  \/ IsoCloseP

\* =========================================================================== specification, invariants
Init == CASE Part = "frames" -> FramesInit [] Part = "raw" -> RawInitP [] OTHER -> IsoInitP
Next == Pack \/ Unpack \/ RawNext \/ IsoNext        \* every action is guarded by its Part
Spec == Init /\ [][Next]_vars

Never(label) == cst.v # label
Inv_K1_PackLayout      == Never("K1/pack-is-not-the-linux-can-frame")
Inv_K2_UnpackFields    == Never("K2/unpack-does-not-return-the-frame")
Inv_K3_Inverse         == Never("K3/pack-is-not-the-inverse-of-unpack")
Inv_N0_ValidTarget     == Never("N0/valid-target-refused") /\ Never("N1/not-bound-to-the-interface-of-the-target")
Inv_F1_WantedDelivered == Never("F1/wanted-frame-not-delivered")
Inv_F2_UnwantedKept    == Never("F2/unwanted-frame-delivered")
Inv_R1_FrameIntact     == Never("R1/frame-altered") /\ Never("R1/frame-is-not-from-the-bus") /\ Never("R2/frame-out-of-order")
Inv_T1_TimeoutKeeps    == Never("T1/timeout-consumed-a-wanted-frame")
Inv_S1_SentFrame       == Never("S1/frame-on-the-bus-differs") /\ Never("S3/not-exactly-one-frame-on-the-bus")
Inv_S2_ReturnValue     == Never("S2/return-value-is-not-the-number-of-bytes")
Inv_S4_NoDestination   == Never("S4/write-without-destination")
Inv_S5_SendWorks       == Never("S5/send-raised")
Inv_I1_IdleSound       == Never("I1/reports-an-id-that-was-not-seen")
Inv_I2_IdleComplete    == Never("I2/misses-an-id-that-was-seen")
Inv_C1_Closed          == Never("C1/socket-open-after-close") /\ Never("C0/close-raised")
Inv_O1_Flags           == Never("O1/option-flags")
Inv_O2_Values          == Never("O2/option-values")
Inv_O3_TxTime          == Never("O3/frame-txtime")
Inv_O4_LinkLayer       == Never("O4/link-layer-options")
Inv_O5_Bind            == Never("O5/bind-address")
Inv_O6_BeforeBind      == Never("O6/option-set-on-a-bound-socket")
Inv_P1_PduWritten      == Never("P1/pdu-on-the-bus-differs") /\ Never("P0/write-raised")
Inv_P2_PduRead         == Never("P2/pdu-read-differs") /\ Never("P2/pdu-is-not-from-the-bus")
Inv_P3_PduOrder        == Never("P3/pdu-consumed-but-not-returned") /\ Never("P3/pdu-skipped") /\ Never("P3/timeout-while-a-pdu-was-waiting")
Inv_E1_FlowErrors      == Never("E1/flow-error-is-not-a-broken-pipe")
Inv_E2_SocketTimeout   == Never("E2/socket-timeout-is-not-a-timeout")
Inv_E3_NotSwallowed    == Never("E3/socket-error-swallowed")
Inv_X_NoOther          == cst.v \in {"ok"} \cup {"K1/pack-is-not-the-linux-can-frame", "K2/unpack-does-not-return-the-frame",
     "K3/pack-is-not-the-inverse-of-unpack", "N0/valid-target-refused", "N1/not-bound-to-the-interface-of-the-target",
     "F1/wanted-frame-not-delivered", "F2/unwanted-frame-delivered", "R1/frame-altered", "R1/frame-is-not-from-the-bus",
     "R2/frame-out-of-order", "T1/timeout-consumed-a-wanted-frame", "S1/frame-on-the-bus-differs",
     "S3/not-exactly-one-frame-on-the-bus", "S2/return-value-is-not-the-number-of-bytes", "S4/write-without-destination",
     "S5/send-raised", "I1/reports-an-id-that-was-not-seen", "I2/misses-an-id-that-was-seen", "C1/socket-open-after-close",
     "C0/close-raised", "O1/option-flags", "O2/option-values", "O3/frame-txtime", "O4/link-layer-options", "O5/bind-address",
     "O6/option-set-on-a-bound-socket", "P1/pdu-on-the-bus-differs", "P0/write-raised", "P2/pdu-read-differs",
     "P2/pdu-is-not-from-the-bus", "P3/pdu-consumed-but-not-returned", "P3/pdu-skipped", "P3/timeout-while-a-pdu-was-waiting",
     "E1/flow-error-is-not-a-broken-pipe", "E2/socket-timeout-is-not-a-timeout", "E3/socket-error-swallowed"}
\* ---- sweep instances (negative controls in one run): CONSTRAINT SweepObs, no INVARIANT.  The first failing state of every
\* deviation is printed, states of a deviation that has been caught are not explored further (register 7, one worker).
ASSUME TLCSet(7, {})
SweepObs ==
  IF cst.v = "ok" THEN cfg.dev \notin TLCGet(7)
  ELSE /\ (cfg.dev \notin TLCGet(7) => PrintT(<<"NEG", cfg.dev, cst.v>>) /\ TLCSet(7, TLCGet(7) \cup {cfg.dev}))
       /\ FALSE
\* the kernel model and the contract agree on what "queued" means: nothing the contract calls "mustnot" sits in the queue
Inv_D_QueueSane == Part = "raw" => \A i \in 1..Len(k.q) : k.q[i] \in 1..Len(cst.fr)
=============================================================================
