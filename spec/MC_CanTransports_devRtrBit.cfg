SPECIFICATION Spec
CHECK_DEADLOCK FALSE
VIEW View
CONSTANTS
  Part = "frames"
  Space <- FramesSmall
  Ids <- NoIds
  Lens <- NoIds
  Errnos <- NoErr
  MaxFrames = 0
  MaxOps = 0
  Mixed = FALSE
  Allow <- NoOps
  Buf = 99
  Export = FALSE
  Dev_FdFlagDropped = FALSE
  Dev_RtrBit = TRUE
  Dev_UnpackNoCut = FALSE
  Dev_SffMaskAlways = FALSE
  Dev_MaskSwapped = FALSE
  Dev_JoinSticky = FALSE
  Dev_NoJoin = FALSE
  Dev_TimeoutEats = FALSE
  Dev_DstTruthy = FALSE
  Dev_CloseNoop = FALSE
  Dev_IdleStopsOnTimeout = FALSE
  Dev_PadSwapped = FALSE
  Dev_ExtTruthy = FALSE
  Dev_BindSwapped = FALSE
  Dev_BindFirst = FALSE
  Dev_NoLLOpts = FALSE
  Dev_HexRejected = FALSE
  Dev_EcommReraised = FALSE
  Dev_EilseqTimeout = FALSE
  Dev_ErrSwallowed = FALSE
INVARIANT Inv_K1_PackLayout
INVARIANT Inv_K2_UnpackFields
INVARIANT Inv_K3_Inverse
INVARIANT Inv_X_NoOther
