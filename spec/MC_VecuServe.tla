---- MODULE MC_VecuServe ----
EXTENDS VecuServe
====
