SPECIFICATION Spec
CONSTANTS
  Slots = 6
  HasTimeout = TRUE
  Dev_NoReconnect = FALSE
INVARIANT ContractHolds
PROPERTY Terminates
CHECK_DEADLOCK FALSE
