---------------------------- MODULE XcpContract ----------------------------
(* Growth item X13 -- gallia's XCP master: gallia.services.xcp (XCPService, CANXCPSerivce), the command
   `primitive xcp` (SimpleTestXCP) and the scanners `discover xcp tcp|udp` (TcpFindXCP, UdpFindXCP).

   CONTRACT LAYER: operators only, written from the statement in growth/X13.json.  Nothing here is taken from
   the control flow of the code; packet layouts are given by POSITION (byte index, bit number), which is how
   ASAM XCP part 2 states them, not by the order of a field list.

   Sources of the clauses
     S0..S3  "sends exactly the command packet": ASAM XCP part 2 (protocol layer) command table, repeated in
             services/xcp/types.py `class Command` (CONNECT=0xFF, DISCONNECT=0xFE, GET_STATUS=0xFD,
             GET_COMM_MODE_INFO=0xFB, GET_ID=0xFA, UPLOAD=0xF5); CONNECT carries the mode byte (0x00 = normal),
             GET_ID the requested identification type (types.py `XcpGetIdType`), UPLOAD the number of data
             elements; the log records "XCP CONNECT", "XCP GET_ID(n)", ... name the command each method issues.
             XCP on CAN (part 3) allows a command frame to be filled up to MAX_DLC: trailing 0x00 fill bytes are
             accepted (counted as unspecified), anything else after the parameters is not.
             CAN: CANXCPSerivce(master_id, slave_id): commands go to the slave id, answers are the frames that
             carry the master id (the `if dst_ == self.master_id` filter).
     R0,R1   "waits for one response": XCP is strictly command/response (part 2, no interleaving unless the
             slave announces it); XCPService.request() docstring-less, BaseTransport.request(): "Chains a
             write() call with a read() call".  EV (0xFD), SERV (0xFC) and DAQ packets (first byte < 0xFC) are
             asynchronous packets: a master may skip them or give up -- both accepted (N1: never reported OK).
     P1      a positive response is reported: log records "XCP <CMD> -> OK" (result level).
     D1,D2   field positions: ASAM XCP part 2 response tables; in types.py the comment on CommModeBasic.optional,
             `RESOURCE_VALUES` (dbg 32, pgm 16, stim 8, daq 4, calpag 1), `ByteOrder` (INTEL=0, MOTOROLA=1) and the
             comment "byte-order dependent types"; the byte order is bit 0 of COMM_MODE_BASIC of the CONNECT
             response (XCPService.connect: `self.byte_order = tmp.commModeBasic.byteOrder`, passed to every later parse).
     E1,E2   packet identifier 0xFE = ERR followed by the error code (types.py `Response`, `XcpError` with the
             codes' comments); request(): "Unknown response type ... maybe no XCP packet?" shows that anything but
             0xFF must end the call with an error.
     T1,T2   `timeout` parameter of XCPService / request(); BaseTransport.read() implementations raise
             TimeoutError; `CanFindXCP` handles exactly `except TimeoutError` around the same recvfrom loop.
     Q1..Q3  SimpleTestXCP.main (connect, get_status, get_comm_mode_info, disconnect, each through
             catch_and_log_exception: "If an exception is raised, it will be logged via logger"); Scanner docstring:
             "It loads transports via TargetURIs; available via `self.transport`", "`teardown()` ... cleanup
             tasks, such as terminating a network connection".
     F1..F5  find_xcp.py: pack_xcp_eth ("<HH" length, counter = ASAM XCP on Ethernet header LEN, CTR, Intel
             format), option help "List of TCP/UDP ports to test for XCP", result records "XCP Slave on ... port",
             "... port N is no XCP slave, data: ...", "Finished; Found N XCP endpoints via ...",
             `finally: self.xcp_disconnect(server)`.
   Where these sources are silent every outcome is accepted and counted (field `u` of a verdict).

   Data shapes (bytes are sequences of 0..255, all values integers; dwords are 4-byte sequences, most significant
   byte first, because TLC integers are 32 bit):
     call  = [m, arg, io, out, exc, okline, hasdec, dec, ms]
     io    = sequence of [e |-> "W", d, to] | [e |-> "R", d, from] | [e |-> "T", ms] | [e |-> "Empty"] | [e |-> "WErr"]
             | [e |-> "ConnErr"]
     cfg   = [kind |-> "raw" | "can", master, slave, timeoutMs]
*)
EXTENDS Integers, Sequences, FiniteSets, TLC

----------------------------------------------------------------------------
(* ------------------------------ layouts --------------------------------- *)

BitV(b, n)      == (b \div (2^n)) % 2
Field(b, lo, w) == (b \div (2^lo)) % (2^w)

PID_RES  == 255
PID_ERR  == 254
PID_EV   == 253
PID_SERV == 252

Methods == {"connect", "disconnect", "get_status", "get_comm_mode_info", "get_id", "upload"}

CmdCode(m) == CASE m = "connect"            -> 255
                [] m = "disconnect"         -> 254
                [] m = "get_status"         -> 253
                [] m = "get_comm_mode_info" -> 251
                [] m = "get_id"             -> 250
                [] m = "upload"             -> 245

HasArg(m)     == m \in {"get_id", "upload"}
ArgOk(m, arg) == ~HasArg(m) \/ arg \in 0..255
Params(m, arg) == CASE m = "connect" -> <<0>>          \* mode: 0x00 normal
                    [] HasArg(m)     -> <<arg>>         \* identification type / number of data elements
                    [] OTHER         -> <<>>
CmdPdu(m, arg) == <<CmdCode(m)>> \o Params(m, arg)

IsFill(s) == \A i \in DOMAIN s : s[i] = 0
\* the bytes on the wire are the command packet, possibly followed by fill
SentOk(m, arg, d) == LET p == CmdPdu(m, arg) IN
  /\ Len(d) >= Len(p)
  /\ SubSeq(d, 1, Len(p)) = p
  /\ IsFill(SubSeq(d, Len(p) + 1, Len(d)))
SentExact(m, arg, d) == d = CmdPdu(m, arg)

\* byte order announced by COMM_MODE_BASIC bit 0
BO(comm) == IF comm % 2 = 0 THEN "INTEL" ELSE "MOTOROLA"
Word(bo, s, p)     == IF bo = "INTEL" THEN s[p] + 256 * s[p+1] ELSE 256 * s[p] + s[p+1]
DWordMsb(bo, s, p) == IF bo = "INTEL" THEN <<s[p+3], s[p+2], s[p+1], s[p]>> ELSE <<s[p], s[p+1], s[p+2], s[p+3]>>

\* positions count the packet identifier 0xFF as byte 1 (ASAM tables: position 0)
MinLen(m) == CASE m = "connect"            -> 8
               [] m = "disconnect"         -> 1
               [] m = "get_status"         -> 6
               [] m = "get_comm_mode_info" -> 8
               [] m = "get_id"             -> 8
               [] m = "upload"             -> 1

Huge == 70000   \* "longer than any packet"
IdLen(bo, d) == LET w == DWordMsb(bo, d, 5) IN IF w[1] = 0 /\ w[2] = 0 THEN 256 * w[3] + w[4] ELSE Huge

\* GET_ID: MODE bit 0 = 1 means the identification follows in the packet; the client documents the case MODE = 1
\* (types.py: If(this.mode == 1, ...)); other odd modes with a truncated identification are left unspecified
WellFormed(m, bo, d) ==
  /\ Len(d) >= MinLen(m)
  /\ (m = "get_id" /\ d[2] % 2 = 1) => Len(d) >= 8 + IdLen(bo, d)

ResourceRec(pfx, b) ==
  (pfx \o "calpag" :> BitV(b, 0)) @@ (pfx \o "daq" :> BitV(b, 2)) @@ (pfx \o "stim" :> BitV(b, 3)) @@
  (pfx \o "pgm" :> BitV(b, 4)) @@ (pfx \o "dbg" :> BitV(b, 5))

ExpConnect(d) == LET bo == BO(d[3]) IN
  ResourceRec("resource_", d[2]) @@
  [ comm_byteOrder          |-> BitV(d[3], 0),
    comm_addressGranularity |-> Field(d[3], 1, 2),
    comm_slaveBlockMode     |-> BitV(d[3], 6),
    comm_optional           |-> BitV(d[3], 7),
    maxCto                  |-> d[4],
    maxDto                  |-> Word(bo, d, 5),
    protocolLayerVersion    |-> d[7],
    transportLayerVersion   |-> d[8] ]

ExpStatus(bo, d) ==
  ResourceRec("protection_", d[3]) @@
  [ status_storeCalRequest  |-> BitV(d[2], 0),
    status_storeDaqRequest  |-> BitV(d[2], 2),
    status_clearDaqRequest  |-> BitV(d[2], 3),
    status_daqRunning       |-> BitV(d[2], 6),
    status_resume           |-> BitV(d[2], 7),
    sessionConfiguration    |-> Word(bo, d, 5) ]

ExpCommMode(d) ==
  [ optional_masterBlockMode |-> BitV(d[3], 0),
    optional_interleavedMode |-> BitV(d[3], 1),
    maxBs                    |-> d[5],
    minSt                    |-> d[6],
    queueSize                |-> d[7],
    xcpDriverVersionNumber   |-> d[8] ]

NoFields == [x \in {} |-> 0]

ExpGetId(bo, d) ==
  [ mode |-> d[2], length |-> DWordMsb(bo, d, 5) ] @@
  (IF d[2] = 1 THEN ("identification" :> SubSeq(d, 9, 8 + IdLen(bo, d))) ELSE NoFields)

\* fields that MUST be reported with exactly these values
Exp(m, bo, d) == CASE m = "connect"            -> ExpConnect(d)
                   [] m = "get_status"         -> ExpStatus(bo, d)
                   [] m = "get_comm_mode_info" -> ExpCommMode(d)
                   [] m = "get_id"             -> ExpGetId(bo, d)
                   [] OTHER                    -> NoFields
\* fields that, IF reported, must have these values
Opt(m, d) == IF m \in {"upload", "disconnect"} THEN ("data" :> Tail(d)) ELSE NoFields

Missing(exp, dec)  == {f \in DOMAIN exp : f \notin DOMAIN dec}
Differs(exp, dec)  == {f \in DOMAIN exp : f \in DOMAIN dec /\ dec[f] # exp[f]}

----------------------------------------------------------------------------
(* -------------------------- one client call ----------------------------- *)

V(v, u, bo) == [v |-> v, u |-> u, bo |-> bo]

IsForeign(cfg, e) == cfg.kind = "can" /\ e.e = "R" /\ e.from # cfg.master
Cls(e) == CASE e.e = "T"     -> "T"
            [] e.e = "Empty" -> "Empty"
            [] e.e \in {"WErr", "ConnErr"} -> "WErr"      \* write() / read() raised a ConnectionError
            [] e.e = "W"     -> "W"
            [] e.e = "R"     -> IF Len(e.d) = 0 THEN "Empty"
                                ELSE IF e.d[1] = PID_RES THEN "RES"
                                ELSE IF e.d[1] = PID_ERR THEN "ERR"
                                ELSE "ASYNC"

IsTimeoutExc(call) == \E i \in DOMAIN call.exc : call.exc[i] = "TimeoutError"
\* "not reported OK": the call raises and no OK record is emitted (what else the client logs about an error
\* packet -- e.g. the decoded error code -- is its own business)
NotOk(call)        == call.out = "exc" /\ ~call.okline

\* candidates for the byte order of this response
Cand(m, d, boSet) == IF m = "connect" THEN (IF Len(d) >= 3 THEN {BO(d[3])} ELSE {}) ELSE boSet
NextBo(m, d, boSet, call) ==
  IF m # "connect" \/ Len(d) < 3 THEN boSet
  ELSE IF Len(d) >= MinLen(m) /\ call.out = "ok" THEN {BO(d[3])}
  ELSE boSet \cup {BO(d[3])}      \* a truncated / rejected CONNECT response: either order may be in effect

PosFor(m, bo, d, call) ==
  IF ~WellFormed(m, bo, d) THEN "short"
  ELSE IF call.out # "ok" \/ ~call.okline THEN "P1/positive-response-not-reported-ok"
  ELSE IF Missing(Exp(m, bo, d), call.dec) # {} /\ ~call.hasdec THEN "D0/decoded-fields-not-observable"
  ELSE IF Missing(Exp(m, bo, d), call.dec) # {}
       THEN "D0/field-not-reported:" \o (CHOOSE f \in Missing(Exp(m, bo, d), call.dec) : TRUE)
  ELSE IF Differs(Exp(m, bo, d), call.dec) # {}
       THEN "D1/field-differs-from-its-position:" \o (CHOOSE f \in Differs(Exp(m, bo, d), call.dec) : TRUE)
  ELSE IF Differs(Opt(m, d), call.dec) # {} THEN "D1/payload-differs"
  ELSE "ok"

Positive(m, d, boSet, call) ==
  LET cand == Cand(m, d, boSet)
      nb   == NextBo(m, d, boSet, call) IN
  IF cand = {} THEN V("ok", 1, nb)                       \* no CONNECT response yet (or 1..2 byte CONNECT answer)
  ELSE LET res == {PosFor(m, bo, d, call) : bo \in cand} IN
       IF "ok" \in res THEN V("ok", 0, nb)
       ELSE IF "short" \in res THEN V("ok", 1, nb)       \* too short to hold the fields: unspecified
       ELSE IF Cardinality(cand) > 1 THEN V("D2/fields-in-no-admissible-byte-order", 0, nb)
       ELSE V(CHOOSE x \in res : TRUE, 0, nb)

CallVerdict(cfg, call, boSet) ==
  LET m  == call.m
      io == call.io
      ws == {i \in DOMAIN io : io[i].e = "W"}
  IN
  IF m \notin Methods THEN V("X/unknown-method", 0, boSet)
  ELSE IF ~ArgOk(m, call.arg) THEN
       (IF ws = {} /\ call.out = "exc" /\ ~call.okline THEN V("ok", 0, boSet)
        ELSE V("S0/out-of-range-parameter-not-refused", 0, boSet))
  ELSE IF call.out = "hang" THEN V("T2/request-never-ends", 0, boSet)
  ELSE IF Len(io) = 0 \/ io[1].e # "W" THEN V("S1/no-command-packet-sent-first", 0, boSet)
  ELSE IF Cardinality(ws) # 1 THEN V("S1/more-than-one-command-packet", 0, boSet)
  ELSE IF ~SentOk(m, call.arg, io[1].d) THEN V("S2/command-packet-bytes", 0, boSet)
  ELSE IF cfg.kind = "can" /\ io[1].to # cfg.slave THEN V("S3/command-not-addressed-to-the-slave", 0, boSet)
  ELSE
  LET fill == IF SentExact(m, call.arg, io[1].d) THEN 0 ELSE 1
      rel  == SelectSeq(Tail(io), LAMBDA e : ~IsForeign(cfg, e))
      dec  == {j \in DOMAIN rel : Cls(rel[j]) # "ASYNC"}
      j    == IF dec # {} THEN CHOOSE x \in dec : \A y \in dec : x <= y ELSE Len(rel)
      W(x) == V(x.v, IF x.u + fill > 0 THEN 1 ELSE 0, x.bo)
  IN
  IF j = 0 THEN
       \* nothing for this client arrived and no receive of its own timed out: acceptable only as the client's own
       \* deadline (it kept reading foreign frames until the request timeout had elapsed)
       (IF call.out = "exc" /\ IsTimeoutExc(call) /\ ~call.okline /\ call.ms >= cfg.timeoutMs
        THEN (IF call.ms > 2 * cfg.timeoutMs THEN V("T2/timeout-later-than-the-request-timeout", 0, boSet)
              ELSE W(V("ok", 0, boSet)))
        ELSE V("R0/returned-without-awaiting-an-answer", 0, boSet))
  ELSE IF j # Len(rel) THEN V("R1/transport-used-after-the-answer", 0, boSet)
  ELSE LET e == rel[j] c == Cls(e) IN
  CASE c = "T" ->
         IF ~(call.out = "exc" /\ IsTimeoutExc(call)) THEN V("T1/silence-not-reported-as-TimeoutError", 0, boSet)
         ELSE IF ~NotOk(call) THEN V("T1/silence-reported-ok", 0, boSet)
         ELSE IF call.ms > 2 * cfg.timeoutMs THEN V("T2/timeout-later-than-the-request-timeout", 0, boSet)
         ELSE W(V("ok", 0, boSet))
    [] c = "ERR" ->
         IF ~NotOk(call) THEN V("E1/error-packet-reported-ok-or-decoded", 0, boSet)
         ELSE IF IsTimeoutExc(call) THEN V("E2/error-packet-reported-as-timeout", 0, boSet)
         ELSE W(V("ok", 0, boSet))
    [] c \in {"Empty", "WErr", "ASYNC"} ->
         IF ~NotOk(call) THEN V("N1/no-response-packet-but-reported-ok", 0, boSet)
         ELSE W(V("ok", IF c = "ASYNC" THEN 1 ELSE 0, boSet))
    [] c = "RES" -> W(Positive(m, e.d, boSet, call))
    [] OTHER -> V("X/unknown-event", 0, boSet)

----------------------------------------------------------------------------
(* ------------------ `primitive xcp` (SimpleTestXCP) --------------------- *)

PrimSteps == <<"connect", "get_status", "get_comm_mode_info", "disconnect">>

\* x = [pk : sequence of [c |-> connection number, d |-> bytes] in the order the slave saw them,
\*      conns : sequence of [closed |-> 0/1], accepted |-> 0/1, done |-> "ok" | "exit<n>" | "exc:<cls>" | "hang"]
PrimVerdict(x) ==
  LET n == Len(x.pk) IN
  IF x.accepted = 0 THEN V("ok", 1, {})                       \* nobody listens: how setup fails is not this property
  ELSE IF x.done = "hang" THEN V("Q2/run-does-not-terminate", 0, {})
  ELSE IF \E i \in 1..(IF n < 4 THEN n ELSE 4) : ~SentOk(PrimSteps[i], -1, x.pk[i].d)
       THEN V("Q1/commands-out-of-the-documented-order", 0, {})
  ELSE IF n < 4 THEN V("Q1/step-not-attempted-after-a-failed-step", 0, {})
  ELSE IF n > 4 THEN V("Q1/extra-command", 0, {})
  ELSE IF x.done # "ok" THEN V("Q2/run-ended-by-an-exception", 0, {})
  ELSE IF \E i \in 1..n : x.conns[x.pk[i].c].closed = 0 THEN V("Q3/connection-used-for-xcp-never-closed", 0, {})
  ELSE V("ok", IF Len(x.conns) # 1 THEN 1 ELSE 0, {})

----------------------------------------------------------------------------
(* ------------------ `discover xcp tcp|udp` (FindXCP) --------------------- *)

\* ASAM XCP on Ethernet: every message = LEN (word, Intel) CTR (word, Intel) packet
EthOk(f)  == Len(f) >= 4 /\ f[1] + 256 * f[2] = Len(f) - 4
EthPkt(f) == SubSeq(f, 5, Len(f))

\* p = [port, open |-> 0/1 (a listener accepts / a datagram socket is bound), alive |-> 0/1 (the peer kept
\*      accepting bytes until the scanner was done with it), rx : frames received by the peer,
\*      answered |-> 0/1, answer : bytes the scanner got back first]
PortIsXcp(p) == p.answered = 1 /\ Len(p.answer) >= 5 /\ p.answer[5] = PID_RES

FindPort(udp, p, reported) ==
  IF udp = 0 /\ p.open = 0 THEN
       (IF p.port \in reported THEN "F2/closed-port-reported" ELSE "ok")
  ELSE IF Len(p.rx) = 0 THEN "F4/port-not-probed"
  ELSE IF ~(EthOk(p.rx[1]) /\ SentOk("connect", -1, EthPkt(p.rx[1]))) THEN "F1/probe-is-not-an-ethernet-framed-CONNECT"
  ELSE IF PortIsXcp(p) /\ p.port \notin reported THEN "F2/answering-slave-not-reported"
  ELSE IF ~PortIsXcp(p) /\ p.port \in reported THEN "F2/non-xcp-port-reported"
  ELSE IF p.alive = 1 /\ ~(\E i \in 2..Len(p.rx) : EthOk(p.rx[i]) /\ SentOk("disconnect", -1, EthPkt(p.rx[i])))
       THEN "F3/no-DISCONNECT-after-the-probe"
  ELSE "ok"

\* x = [udp |-> 0/1, ports : sequence of p, reported : sequence of port numbers, finished |-> n | -1, done]
FindVerdict(x) ==
  LET rep == {x.reported[i] : i \in DOMAIN x.reported}
      bad == {i \in DOMAIN x.ports : FindPort(x.udp, x.ports[i], rep) # "ok"} IN
  IF x.done = "hang" THEN V("F5/scan-does-not-terminate", 0, {})
  ELSE IF bad # {} /\ x.done # "ok"
       THEN V("F5/scan-aborted:" \o FindPort(x.udp, x.ports[CHOOSE i \in bad : \A k \in bad : i <= k], rep), 0, {})
  ELSE IF bad # {} THEN V(FindPort(x.udp, x.ports[CHOOSE i \in bad : \A k \in bad : i <= k], rep), 0, {})
  ELSE IF x.done # "ok" THEN V("F5/scan-ended-by-an-exception", 0, {})
  ELSE IF x.finished # Cardinality(rep) THEN V("F5/final-count-differs-from-the-reported-ports", 0, {})
  ELSE V("ok", 0, {})
=============================================================================
