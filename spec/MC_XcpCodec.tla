---------------------------- MODULE MC_XcpCodec ----------------------------
(* Exhaustive layout check: for every byte value at every bit-field position and every byte pair at the word /
   dword positions, in both byte orders, the construct-shaped decoders of XcpCodec (cursor + MSB-first lists)
   yield exactly the fields XcpContract states by position.  One initial state per (method, b1, b2, byte order). *)
EXTENDS XcpCodec

CONSTANT B2      \* the values of the second byte (quick: boundary values, thorough: 0..255)

VARIABLES m, b1, b2, bo
cvars == <<m, b1, b2, bo>>

B2All   == 0..255
B2Quick == {0, 1, 2, 3, 4, 7, 8, 15, 16, 31, 32, 63, 64, 85, 127, 128, 129, 170, 192, 193, 240, 254, 255}

Rep(n, b) == [i \in 1..n |-> b]

Resp == CASE m = "connect"            -> <<255, b1, b2, b1, b1, b2, b2, b1>>
          [] m = "get_status"         -> <<255, b1, b2, b1, b2, b1>>
          [] m = "get_comm_mode_info" -> <<255, b2, b1, b2, b1, b2, b1, b2>>
          [] m = "get_id"             ->
               IF b1 % 3 = 1     \* identification in the packet: a length that fits, in the announced byte order
               THEN <<255, 1, b2, b1>> \o (IF bo = "INTEL" THEN <<b2 % 8, 0, 0, 0>> ELSE <<0, 0, 0, b2 % 8>>) \o Rep(b2 % 8, b1)
               ELSE <<255, (b1 % 3) * 2, b2, b1, b1, b2, b2 \div 2, b1 \div 2>>
          [] m = "upload"             -> <<255, b1, b2>>

EffBo == IF m = "connect" THEN BO(Resp[3]) ELSE bo

CInit == /\ m \in {"connect", "get_status", "get_comm_mode_info", "get_id", "upload"}
         /\ b1 \in 0..255 /\ b2 \in B2
         /\ bo \in {"INTEL", "MOTOROLA"}
         /\ (m \in {"connect", "get_comm_mode_info", "upload"} => bo = "INTEL")   \* no free byte order there
CNext == UNCHANGED cvars
CSpec == CInit /\ [][CNext]_cvars

\* D1: the decoders agree with the positions
LayoutAgrees ==
  WellFormed(m, EffBo, Resp) =>
    LET x == Decode(m, bo, Resp) e == Exp(m, EffBo, Resp) o == Opt(m, Resp) IN
    /\ ~IsErr(x)
    /\ \A f \in DOMAIN e : f \in DOMAIN x /\ x[f] = e[f]
    /\ \A f \in DOMAIN o : f \in DOMAIN x => x[f] = o[f]
\* a response too short for its layout is refused by the cursor reading (design property, not demanded by the contract)
ShortRefused ==
  m # "upload" => \A n \in 1..(MinLen(m) - 1) : n >= 2 => IsErr(Decode(m, bo, SubSeq(Resp, 1, n)))
=============================================================================
