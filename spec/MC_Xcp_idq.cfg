SPECIFICATION Spec
CONSTANTS
  Kind = "raw"
  Script <- IdScriptQ
  Answers <- IdAnswersQ
  Master = 2016
  Slave = 2000
  ForeignId = 291
  TimeoutMs = 1000
  GapMs = 600
  MaxForeign = 0
  Prim = FALSE
  Dev_F1_CanNoDeadline = FALSE
  Dev_F2_TwoConnections = FALSE
  Dev_ErrAsOk = FALSE
  Dev_CanNoFilter = FALSE
  Dev_NoCatch = FALSE
  Dev_WrongCode = FALSE
  Dev_SwallowTimeout = FALSE
  Dev_LsbFirst = FALSE
  Dev_IgnoreByteOrder = FALSE
  Dev_PartialNoStrip = FALSE
INVARIANT TypeOK
INVARIANT S_Send_Inv
INVARIANT R_OneAnswer_Inv
INVARIANT T_Timeout_Inv
INVARIANT E_Error_Inv
INVARIANT P_Positive_Inv
INVARIANT Q_Primitive_Inv
INVARIANT D_Decode_Inv
PROPERTY Terminates
CHECK_DEADLOCK FALSE
