------------------------- MODULE Trace_IdentScan -------------------------
(* Code -> spec: validates recorded executions of the real ScanIdentifiers against the
   contract layer (clauses I1..I4 of C10).  Total verdict per execution. *)
EXTENDS IdentScanContract, Json, IOUtils

Batch == JsonDeserialize(IOEnv.TRACE_FILE)
T == Batch.traces

VARIABLES tid, verdict
tvars == <<tid, verdict>>

CfgOf(x) ==
  [has |-> x.C.has, req |-> ToSet(x.C.req), skipAll |-> ToSet(x.C.skipAll), skip |-> ToSet(x.C.skip),
   svc |-> x.C.svc, start |-> x.C.start, end |-> x.C.end, payload |-> x.C.payload,
   start_session |-> x.C.start_session]
EcuOf(x) == [pos |-> ToSet(x.pos), lo |-> x.window[1], hi |-> x.window[2]]

FullVerdict(x) ==
  IF x.done = "hang" THEN "I0/scan-does-not-terminate"
  ELSE Verdict(CfgOf(x), EcuOf(x), x.ev)

TInit == tid \in 1..Len(T) /\ verdict = "?"
TNext == /\ verdict = "?"
         /\ verdict' = FullVerdict(T[tid])
         /\ tid' = tid
         /\ PrintT(<<"V", T[tid].id, verdict'>>)
         /\ PrintT(<<"U", T[tid].id, Unspecified(CfgOf(T[tid]), EcuOf(T[tid]), T[tid].ev)>>)
TSpec == TInit /\ [][TNext]_tvars
=============================================================================
