--------------------------- MODULE MC_LinesStream ---------------------------
(* Exhaustive configuration: 3 messages of abstract length 1..2 (8 sequences;
   distinct contents, one contains the byte 0x0a) x every segmentation x a read
   timeout at every point of a partially delivered line x peer close at every
   byte offset. *)
EXTENDS LinesStream

MkMsg(i, len) == IF len = 1 THEN <<10 * i>> ELSE <<10 * i, 255>>
MCSents == {[i \in 1..3 |-> MkMsg(i, L[i])] : L \in [1..3 -> 1..2]}
\* for -simulate (spec -> code): also repeated contents and 1..4 messages
MCSentsSim == UNION {[1..n -> {<<10>>, <<171, 205>>, <<0, 255, 10>>}] : n \in 1..4}
\* thorough tier: 4 messages of length 1..3 and 5 messages of length 1..2
MkMsg3(i, len) == [j \in 1..len |-> IF j = 1 THEN 10 * i ELSE 250 + j]
MCSentsBig == {[i \in 1..4 |-> MkMsg3(i, L[i])] : L \in [1..4 -> 1..3]}
              \cup {[i \in 1..5 |-> MkMsg(i, L[i])] : L \in [1..5 -> 1..2]}
MCTimeouts == {0, 1000}
=============================================================================
