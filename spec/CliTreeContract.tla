--------------------------- MODULE CliTreeContract ---------------------------
(* Growth property X17 -- gallia's command-line front end and plugin registry
   (statement: /verif/growth/X17.json).

   Contract layer: operators only, written from DOCUMENTED behaviour.  Where the
   sources are silent every outcome is accepted ("ok-unspecified").

   Sources of the clauses
   ----------------------
   L  (registration / merge of the plugins' command trees)
      docs/plugins.md: plugins "add new a command to the CLI"; "the script can be
      called with `gallia script hello`" (a plugin's command under an existing
      group); Plugin.commands() -> Mapping[str, CommandTree | type[BaseCommand]].
      plugin.py error messages (documented intent): 'Plugin "<name>" conflicts with
      other plugins on command [ ... ]: There already exists a leaf command',
      ']: Incompatible descriptions'; load_plugins: '<x> is not derived from Plugin'.
   D  (parser tree, dispatch, usage errors)
      cli/gallia.py docstrings: create_parser "Creates an argument parser out of
      the given command hierarchy"; get_command "Retrieve the command out of the
      config returned by an argument parser ... The command initiated with the
      given config"; parse_and_run "runs the command with its argument ... This
      function never returns"; "top_level_options: ... The program redirects
      control to the given function, once the program is called with the
      corresponding argument and terminates after it returns";
      "show_help_on_zero_args: Show the help message instead of an error";
      BaseCommand docstring "CONFIG_TYPE: The config type which is accepted by
      this class. This is used for automatically creating the CLI";
      docs/config.md "GALLIA_EXIT_CODE: the exit_code which gallia will use";
      exitcodes.py USAGE "The command was used incorrectly ..."; pydantic_argparse
      ArgumentParser.error "Prints a usage message to stderr and exits",
      EXIT_ERROR = 2; help texts "show this help message and exit", "show version
      and exit"; docs/config.md "The documentation for all available settings per
      subcommand is available via -h/--help"; docs/uds/virtual_ecu.md (the
      documented invocations of `script vecu ... db /path/to/db [--ecu ...
      --properties '{...}']`).
   R  (registry look-ups)
      load_transport docstring "Selects a transport class depending on a TargetURI.
      The lookup is performed in builtin transports and all classes behind the
      gallia_transports entry_point"; ValueError("no transport for ...");
      docs/plugins.md "subclasses of BaseTransport add a new URI scheme for the
      --target flag"; BaseTransport "SCHEME: The scheme for the implemented
      protocol"; TargetURI "must conform to a URI is specified by RFC3986";
      load_ecu docstring "Selects an ecu class depending on a vendor string ...
      The vendor string `default` selects a generic ECU"; ValueError("no such OEM").
   S  (--show-config)  help "show loaded config"; show_config docstring "Prints the
      currently loaded config"; docs/config.md: "the first file is loaded ... from
      these locations (in this particular order): GALLIA_CONFIG, current
      directory, current Git root, $XDG_CONFIG_HOME/gallia/gallia.toml,
      ~/.config/gallia/gallia.toml"; docs/env.md GALLIA_CONFIG "Disables
      autodiscovery"; message "no config available".
   T  (--template)  help "generate a annotated config template"; template docstring
      "Prints a template config with default according to the programmatic
      defaults"; docs/config.md "gallia.toml is written in TOML", "Settings from the
      config file set the default of the respective commandline option", "The
      output of --template ... is intended as a starting point".
   P  (--show-plugins)  help "show registered plugins"; docstring "Prints the
      currently installed plugins"; the labels the listing itself prints
      ("ECUs (n):", "Transports (n):", "Commands (n):").
   RR (script rerun)  SHORT_HELP "Rerun a previous gallia command based on its
      run_meta in the database"; option help "The id of the run_meta entry in the
      db", "The path of the META.json in the logs"; log message "There id no
      run_meta entry with the id" followed by sys.exit(1); `sys.exit(await
      command.entry_point())`.
   H  (hr argument handling)  argparse declarations of cli/hr.py: FILE nargs="+",
      the mutually exclusive group --tail/--head/--reverse, --color choices,
      -p PRIO; message "not a regular file".

   NOT demanded (sources silent): which exit status a usage error has beyond
   "not 0"; texts of messages; what happens with GALLIA_CONFIG naming a missing
   file; whether ~/.config is consulted when XDG_CONFIG_HOME is set; which of two
   transports with the same SCHEME wins; whether registering the SAME class twice
   under one path is a conflict; which description a group gets when only some
   plugins give one; the order of anything listed.                            *)
EXTENDS Integers, Sequences, FiniteSets, TLC

ToSet(q) == {q[i] : i \in 1..Len(q)}
IsPrefix(p, q)     == Len(p) <= Len(q) /\ \A i \in 1..Len(p) : p[i] = q[i]
ProperPrefix(p, q) == Len(p) < Len(q) /\ IsPrefix(p, q)
\* two registrations cannot both be reachable: same path, or one is a group the other a leaf
Overlap(p, q) == p = q \/ ProperPrefix(p, q) \/ ProperPrefix(q, p)

OK == {"ok", "ok-unspecified"}
ExitOf(e) == IF e = -1 THEN 0 ELSE e     \* -1: main() returned without sys.exit => process status 0

-----------------------------------------------------------------------------
(* L: regs = set of [pl, path, cls] (what each plugin registers), descs = set of
   [pl, path, d] (d = "" for None), ok = load_commands returned, tree = set of
   [path, cls] leaves of the merged tree, ntree = number of leaves it has.     *)
HardConflict(regs) ==
  \E r1 \in regs, r2 \in regs :
     r1.pl # r2.pl /\ Overlap(r1.path, r2.path) /\ ~(r1.path = r2.path /\ r1.cls = r2.cls)
SoftConflict(regs) ==
  \E r1 \in regs, r2 \in regs : r1.pl # r2.pl /\ r1.path = r2.path /\ r1.cls = r2.cls
DescConflict(descs) ==
  \E d1 \in descs, d2 \in descs :
     d1.pl # d2.pl /\ d1.path = d2.path /\ d1.d # "" /\ d2.d # "" /\ d1.d # d2.d

LoadVerdictS(regs, descs, ok, tree, ntree) ==
  IF ok
  THEN IF HardConflict(regs) THEN "L3/conflicting-registration-not-refused"
       ELSE IF DescConflict(descs) THEN "L4/incompatible-descriptions-not-refused"
       ELSE IF \E r \in regs : ~\E t \in tree : t.path = r.path /\ t.cls = r.cls
            THEN "L1/registered-command-not-in-tree"
       ELSE IF \E t \in tree : ~\E r \in regs : t.path = r.path /\ t.cls = r.cls
            THEN "L2/tree-holds-command-nobody-registered"
       ELSE IF ntree # Cardinality({t.path : t \in tree})
               \/ \E t \in tree, u \in tree : ProperPrefix(t.path, u.path)
            THEN "L5/path-not-unique"
       ELSE IF SoftConflict(regs) THEN "ok-unspecified"
       ELSE "ok"
  ELSE IF HardConflict(regs) \/ DescConflict(descs) THEN "ok"
       ELSE IF SoftConflict(regs) THEN "ok-unspecified"
       ELSE "L6/registrations-refused-without-conflict"

-----------------------------------------------------------------------------
(* D: want = set of [path, cls, cfg] registered at the target path; ran = sequence
   of [cls, cfgok]; exit = process status; ret = what the command returned.    *)
UsageClasses == {"unknown_leaf", "unknown_group", "prefix", "missing_required",
                 "foreign_option", "no_args"}
HelpClasses  == {"help", "help_group"}
ArgvClasses  == UsageClasses \cup HelpClasses \cup {"valid", "top_then_path"}

DispatchVerdictS(c, want, ran, exit, ret, err, children, listed, top, version, shown) ==
  LET n == Len(ran) IN
  CASE c = "valid" ->
         IF Cardinality(want) # 1 THEN "machinery/target-path-not-registered-exactly-once"
         ELSE LET w == CHOOSE w \in want : TRUE IN
              IF n = 0 THEN "D1/registered-command-not-run"
              ELSE IF n > 1 THEN "D1/more-than-one-command-run"
              ELSE IF ran[1].cls # w.cls THEN "D1/other-command-class-run"
              ELSE IF ~ran[1].cfgok THEN "D1/config-not-of-CONFIG_TYPE"
              ELSE IF ExitOf(exit) # ret THEN "D1/exit-status-is-not-the-command-result"
              ELSE "ok"
    [] c \in UsageClasses ->
         IF n > 0 THEN "D2/command-run-despite-usage-error"
         ELSE IF ExitOf(exit) = 0 THEN "D2/usage-error-exits-zero"
         ELSE IF ~err THEN "D2/usage-error-without-message"
         ELSE "ok"
    [] c \in HelpClasses ->
         IF n > 0 THEN "D3/command-run-by-help"
         ELSE IF ExitOf(exit) # 0 THEN "D3/help-exits-nonzero"
         ELSE IF children \ listed # {} THEN "D3/help-omits-a-registered-name"
         ELSE "ok"
    [] c = "top_then_path" ->
         IF n > 0 THEN "D4/command-run-although-top-level-option-given"
         ELSE IF ExitOf(exit) # 0 THEN "D4/top-level-option-exits-nonzero"
         ELSE IF top = "--version" /\ shown # version THEN "D4/version-not-shown"
         ELSE "ok"
    [] OTHER -> "machinery/unknown-argument-vector-class"

-----------------------------------------------------------------------------
(* R: reg = set of [key, cls]; q = the name asked for; res = class returned, ""
   when the look-up raised.                                                    *)
LookupVerdictS(reg, q, res) ==
  LET M == {r.cls : r \in {r \in reg : r.key = q}} IN
  IF M # {}
  THEN IF res = "" THEN "R1/registered-name-not-found"
       ELSE IF res \notin M THEN "R1/class-of-another-name-selected"
       ELSE IF Cardinality(M) > 1 THEN "ok-unspecified" ELSE "ok"
  ELSE IF res # "" THEN "R2/unknown-name-selects-a-class" ELSE "ok"

ListVerdictS(regcls, got, ngot, nreg) ==
  IF regcls \ got # {} THEN "R3/registered-class-missing-from-list"
  ELSE IF got \ regcls # {} THEN "R3/list-holds-unregistered-class"
  ELSE IF ngot # nreg THEN "R3/list-length-differs"
  ELSE "ok"

-----------------------------------------------------------------------------
(* S: env \in {"unset","file","missing"}; cwd, git, xdgset, xdg, home: does that
   location hold a gallia.toml; shown / used \in {"env","cwd","git","xdg","home",
   "none","several","other","crash"}.                                           *)
ExpectedConfig(env, cwd, git, xdgset, xdg, home) ==
  IF env = "file" THEN {"env"}
  ELSE IF env = "missing" THEN {"env", "cwd", "git", "xdg", "home", "none", "crash", "other", "several"}
  ELSE IF cwd THEN {"cwd"}
  ELSE IF git THEN {"git"}
  ELSE IF xdgset THEN (IF xdg THEN {"xdg"} ELSE IF home THEN {"home", "none"} ELSE {"none"})
  ELSE IF home THEN {"home"} ELSE {"none"}

ShowCfgVerdictS(env, cwd, git, xdgset, xdg, home, shown, used, ran, content) ==
  LET E == ExpectedConfig(env, cwd, git, xdgset, xdg, home) IN
  IF ran > 0 THEN "S2/command-executed-by-show-config"
  ELSE IF shown \notin E THEN "S1/shown-file-is-not-the-first-in-documented-order"
  ELSE IF used \notin E THEN "S4/commands-load-another-file-than-documented"
  ELSE IF env # "missing" /\ shown # used THEN "S4/shown-config-is-not-the-one-commands-load"
  ELSE IF content = "differs" THEN "S3/shown-content-differs-from-file"
  ELSE IF Cardinality(E) > 1 \/ content = "unparsed" THEN "ok-unspecified"
  ELSE "ok"

-----------------------------------------------------------------------------
(* T *)
TemplateVerdictS(parses, exit, ran) ==
  IF ran > 0 THEN "T0/command-executed-by-template"
  ELSE IF ExitOf(exit) # 0 THEN "T0/template-exits-nonzero"
  ELSE IF ~parses THEN "T1/template-is-not-valid-TOML"
  ELSE "ok"

\* one command: effective configuration without config file (base) and with the template as gallia.toml
TemplateCmdVerdictS(baseRan, withRan, base, withT) ==
  IF ~baseRan THEN "machinery/base-invocation-rejected"
  ELSE IF ~withRan THEN "T2/template-as-config-file-rejected"
  ELSE IF base # withT THEN "T2/template-as-config-file-changes-programmatic-defaults"
  ELSE "ok"

-----------------------------------------------------------------------------
(* P: missing = kinds ("plugin","transport","ecu","command") of registered items the
   listing does not show; counts = set of [want, got] (got = -1: not announced)  *)
PluginsVerdictS(missing, counts, exit, ran) ==
  IF ran > 0 THEN "P0/command-executed-by-show-plugins"
  ELSE IF ExitOf(exit) # 0 THEN "P0/show-plugins-exits-nonzero"
  ELSE IF "plugin" \in missing THEN "P1/plugin-not-listed"
  ELSE IF "transport" \in missing THEN "P2/transport-not-listed"
  ELSE IF "ecu" \in missing THEN "P2/ecu-not-listed"
  ELSE IF "command" \in missing THEN "P2/command-not-listed"
  ELSE IF \E c \in counts : c.got # -1 /\ c.got # c.want THEN "P3/announced-count-wrong"
  ELSE "ok"

-----------------------------------------------------------------------------
(* RR *)
RerunVerdictS(how, storedCls, wantCls, stored, ran, exit, ret) ==
  LET n == Len(ran) IN
  IF how = "setup" THEN "machinery/first-run-did-not-store-a-run"
  ELSE IF storedCls # wantCls THEN "D1/other-command-class-run"
  ELSE IF how = "missing-id"
  THEN IF n > 0 THEN "RR4/command-run-for-unknown-id"
       ELSE IF ExitOf(exit) = 0 THEN "RR4/unknown-id-exits-zero"
       ELSE "ok"
  ELSE IF n = 0 THEN "RR1/nothing-re-run"
  ELSE IF n > 1 THEN "RR1/more-than-one-command-re-run"
  ELSE IF ran[1].cls # storedCls THEN "RR1/other-class-re-created"
  ELSE IF ~ran[1].cfgok THEN "RR1/config-not-of-CONFIG_TYPE"
  ELSE IF ran[1].cfg # stored THEN "RR2/config-differs-from-stored"
  ELSE IF ExitOf(exit) # ret THEN "RR3/exit-status-is-not-the-re-run-commands"
  ELSE "ok"

-----------------------------------------------------------------------------
(* H *)
HrVerdictS(exit, outEmpty, err) ==
  IF ExitOf(exit) = 0 THEN "H1/usage-error-exits-zero"
  ELSE IF ~outEmpty THEN "H1/output-despite-usage-error"
  ELSE IF ~err THEN "H1/usage-error-without-message"
  ELSE "ok"

(* B: an entry point that is no Plugin subclass *)
BrokenVerdictS(ok) == IF ok THEN "B1/non-plugin-entry-point-accepted" ELSE "ok"
=============================================================================
