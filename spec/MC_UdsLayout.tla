---------------------------- MODULE MC_UdsLayout ----------------------------
(* Model-checking wrapper of UdsLayout: kind selections for the negative
   controls (cfg files cannot hold sets of strings with long names readably). *)
EXTENDS UdsLayout
AllKinds == {}
KS1 == {"ControlDTCSetting"}
KS2 == {"ClearDynamicallyDefinedDataIdentifier"}
KS3 == {"ReportSupportedDTC", "ReportFirstConfirmedDTC"}
KS4 == {"ReportDTCExtDataRecordByDTCNumber"}
KS5 == {"WriteMemoryByAddress"}
KS6 == {"ReportDTCByStatusMask"}
KS7 == {"ClearDynamicallyDefinedDataIdentifier"}
=============================================================================
