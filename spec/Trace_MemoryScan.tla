------------------------- MODULE Trace_MemoryScan -------------------------
(* Code -> spec (growth item X05): validates recorded executions of the real `scan uds memory` against the
   contract layer (clauses M1..M8 of MemoryScanContract).  One initial state per execution, total verdict.
   Batch = [sweeps : sequence of reference sweeps (each a sequence of addresses), traces : sequence of
            [id, C, E, sw (index into sweeps), ev, done]]                                                   *)
EXTENDS MemoryScanContract, Json, IOUtils

Batch == JsonDeserialize(IOEnv.TRACE_FILE)
T == Batch.traces
Sweeps == [i \in 1..Len(Batch.sweeps) |-> ToSet(Batch.sweeps[i])]

VARIABLES tid, verdict
tvars == <<tid, verdict>>

CfgOf(x) == [session |-> x.C.session, svc |-> x.C.svc, data |-> x.C.data, check |-> x.C.check]
EcuOf(x) ==
  LET tab == ToSet(x.E.tab)
      dfl == ToSet(x.E.dflt)
  IN [fn   |-> [k \in {<<y[1], y[2]>> : y \in tab} |-> (CHOOSE y \in tab : y[1] = k[1] /\ y[2] = k[2])[3]],
      dflt |-> [s \in {y[1] : y \in dfl} |-> (CHOOSE y \in dfl : y[1] = s)[2]]]

TInit == tid \in 1..Len(T) /\ verdict = "?"
TNext == /\ verdict = "?"
         /\ LET x == T[tid]
                a == Acc(CfgOf(x), EcuOf(x), x.ev)
            IN /\ verdict' = VerdictOf(CfgOf(x), Sweeps[x.sw], a, x.done)
               /\ PrintT(<<"V", x.id, verdict'>>)
               /\ PrintT(<<"U", x.id, a.unspec>>)
         /\ tid' = tid
TSpec == TInit /\ [][TNext]_tvars
=============================================================================
