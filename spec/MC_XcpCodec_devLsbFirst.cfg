SPECIFICATION CSpec
CONSTANTS
  B2 <- B2All
  Dev_LsbFirst = TRUE
  Dev_IgnoreByteOrder = FALSE
  Dev_PartialNoStrip = FALSE
INVARIANT LayoutAgrees
CHECK_DEADLOCK FALSE
