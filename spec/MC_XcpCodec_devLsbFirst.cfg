SPECIFICATION CSpec
CONSTANTS
  Dev_LsbFirst = TRUE
  Dev_IgnoreByteOrder = FALSE
  Dev_PartialNoStrip = FALSE
INVARIANT LayoutAgrees
CHECK_DEADLOCK FALSE
