-------------------------- MODULE EcuFlowsContract --------------------------
(* Growth item X11: the high-level flows of gallia's ECU class (src/gallia/services/uds/ecu.py) that X01
   (check_and_set_session) and X04 (wait_for_ecu) do not cover: set_session, leave_session, transmit_data,
   refresh_state and the update_state bookkeeping.  Property text: /verif/growth/X11.json.

   SOURCES of the clauses (nothing else is demanded; where they are silent every outcome is accepted)
     [D-pre]   ECU.set_session_pre docstring: "is called before the diagnostic session control pdu is written
               on the wire"
     [D-post]  ECU.set_session_post docstring: "is called after the diagnostic session control pdu was written
               on the wire"
     [D-skip]  UDSRequestConfig (core/client.py): "# Skip the hooks which apply to session changes."
               skip_hooks: bool
     [L-db]    log records of set_session: "Could not switch to session. Trying with database transitions ...",
               "Found the following steps in database: {steps}"; the rows are written by the session scan
               (commands/scan/uds/sessions.py: insert_session_transition(session, res["stack"]), logged as
               "Found session: X via stack: [...]": the stack is the list of sessions to enter BEFORE X) and read
               by DBHandler.get_session_transition(destination) for the target of the current scan run
     [D-leave] ECU.leave_session docstring: "a hook which can be called explicitly by a scanner when a session is
               to be disabled. Use this hook if resetting the ECU is required, e.g. when disabling the programming
               session."; ISO 14229-1 ECUReset 0x11, sub-function 0x01 hardReset
     [L-pc]    ECU.power_cycle: "no power_supply available" (returns without cycling); PowerSupply.power_cycle
               (power down, sleep, power up, callback = wait_for_ecu)
     [D-wait]  ECU.wait_for_ecu docstring: "Wait for ecu to be alive again (e.g. after reset). Sends a ping ..."
     [D-xfer]  ECU.transmit_data docstring: "splits the data to be sent in several blocks of size block_length,
               transfers all of them and concludes the transmission with RequestTransferExit"; comment "block_length
               includes the service identifier and block counter; payload must be smaller"; log "Limiting block
               size to {max_block_length}"; raise_for_error(resp, "Transmitting data failed at index ...")
     [D-td]    UDSClient.transfer_data docstring: block_sequence_counter "Initialized with one and incremented for
               each new data. After 0xff, the counter is resumed at 0"
     [ISO]     ISO 14229-1: TransferData blockSequenceCounter starts at 1 and wraps 0xFF -> 0x00;
               maxNumberOfBlockLength of the RequestDownload response is the length of a complete TransferData
               request (SID + counter + data), i.e. the payload per block is maxNumberOfBlockLength - 2;
               a DiagnosticSessionControl positive response means the server is in that session and security is
               locked again; a positive ECUReset response / a power cycle leaves the server in the default session,
               locked; a positive SecurityAccess sendKey (even sub-function n) unlocks level n-1; negative
               responses change nothing
     [D-refr]  ECU.refresh_state docstring: "Refresh the attributes of the ECU states, if possible. By, default, old
               values are only overwritten in case the corresponding information can be requested from the ECU and
               could be retrieved from a positive response from the ECU. :param reset_state: If True, the ECU state
               is reset before updating it."; ECUState (session = 1, security_access_level = None after reset())

   EVENTS of one execution (a JSON list; the first is Start, the last is Ret; ground truth attached by the scripted
   ECU; sessions are ints, a security level of None is -1):
     [e |-> "Start", flow, ...]         flow \in {"set","leave","xfer","refresh","book"} and the call's arguments
     [e |-> "Hook", which, level]       set_session_pre / set_session_post entered (which \in {"pre","post"})
     [e |-> "Dsc", s, out]              DiagnosticSessionControl(s) reached the ECU; out \in {"pos","neg","silent"}
     [e |-> "Db", dest, found, steps]   DBHandler.get_session_transition(dest) returned steps (found=FALSE: None)
     [e |-> "Reset", sub, out]          ECUReset(sub) reached the ECU
     [e |-> "Ping", out, t]             TesterPresent; out \in {"answer","silent","connerr"}
     [e |-> "PDown", t] / [e |-> "PUp", t]   the power supply switched the ECU off / on (virtual ms)
     [e |-> "RC", t]                    transport reconnect
     [e |-> "Td", c, p, out]            TransferData, counter c, payload p (byte sequence)
     [e |-> "Rte", out]                 RequestTransferExit
     [e |-> "Rs", out, s]               session read 22 F1 86; s = reported session (0 if none)
     [e |-> "X", kind, a, out, cs, csec] one exchange of the bookkeeping flow with the client's state afterwards
     [e |-> "Req", sid]                 any other request
     [e |-> "Ret", val, sess, sec]      how the call ended and the client's tracked state afterwards

   CLAUSES
   set_session(level, config, use_db)
     SS1  unless skip_hooks, the pre hook for `level` runs before the first session-control request      [D-pre]
     SS2  with skip_hooks no hook runs during the call                                                    [D-skip]
     SS3  the first request is DiagnosticSessionControl(level)
     SS4  the database is asked only after the ECU refused DiagnosticSessionControl(level), only with a
          database and use_db, only for `level`                                                          [L-db]
     SS5  after a refusal (database present, use_db) the database IS asked; if it knows steps, exactly the
          steps are requested in order and then `level` again (whether the walk goes on after the ECU
          refused a step is not specified); otherwise nothing more is requested                          [L-db]
     SS6  the steps used are a row stored for this target and destination; a stored row is found        [L-db]
     SS7  the post hook for a session runs only after that session's request; after a successful change
          (hooks not skipped) the post hook for `level` has run                                          [D-post]
     SS8  the result is the ECU's answer to the last DiagnosticSessionControl(level)
     SB   the tracked session/security level follow the last accepted change                             [ISO]
   leave_session(level, config, sleep)
     LS1  the first request is ECUReset hardReset (0x11 0x01)                                            [D-leave]
     LS2  the ECU is power-cycled only as a fall-back: after the ECU refused the reset or the default
          session                                                                                        [L-pc]
     LS3  with a power supply, a refused reset (refused default session) IS followed by a power cycle
          before the next session-control request (before returning); power stays off for at least
          `sleep` when given                                                                             [L-pc]
     LS4  after an accepted reset and after a power cycle the ECU is waited for: at least one
          TesterPresent precedes any other request                                                       [D-wait]
     LS5  every session change of the call requests the default session; a call that returns has
          requested it                                                                                   [D-leave]
     LS6  no exception while every request is answered
     LB   on return the tracked state is (default session, locked) if a reset / a default-session change
          was accepted or the ECU was power-cycled, otherwise unchanged                                  [ISO]
   transmit_data(data, block_length = maxNumberOfBlockLength, max_block_length)
     TX1  the k-th TransferData carries blockSequenceCounter k mod 256 (1, 2, .. 0xFF, 0x00, 0x01 ..)    [D-td][ISO]
     TX2  every TransferData request is at most min(block_length, max_block_length) bytes long, carries
          at least one data byte, and only the last one may be shorter than that                         [D-xfer][ISO]
     TX3  the payloads are the consecutive parts of `data`                                               [D-xfer]
     TX4  exactly one RequestTransferExit, after all data, nothing afterwards                            [D-xfer]
     TX5  a normal return means: all data sent, every block and the exit acknowledged positively         [D-xfer]
     TX6  a refused / unanswered block or exit ends in an exception; no block is sent after a refused one [D-xfer]
     TX7  no exception when everything was acknowledged (block lengths below 3 cannot carry data: an
          exception is the only acceptable outcome there when there is data)
   refresh_state(reset_state)
     RF1  the session is requested from the ECU                                                          [D-refr]
     RF2  a positive answer is taken over (tracked session = reported session); no exception then
     RF3  without a positive answer the old values stay (the reset values with reset_state)              [D-refr]
     RF4  a positive answer reporting the tracked session leaves the security level alone                [D-refr]
   update_state
     BK   after every exchange the tracked (session, security level) is what ISO 14229-1 implies from the
          answers seen so far                                                                             [ISO]
   L0   the call ends (does not hang)
*)
EXTENDS Naturals, Integers, Sequences, FiniteSets, TLC

Min2(a, b) == IF a < b THEN a ELSE b
Outs == {"pos", "neg", "silent"}

M0 == [fail |-> "ok", c |-> [flow |-> "none"], done |-> FALSE, unspec |-> 0, nreq |-> 0,
       \* set
       phase |-> "first", walkneg |-> FALSE, pre |-> FALSE, postAfter |-> FALSE, todo |-> <<>>, lastlevel |-> "none", dscd |-> {},
       cur |-> 0, csec |-> -1,
       \* leave
       needPing |-> FALSE, lastneg |-> FALSE, mustCycle |-> FALSE, off |-> FALSE, offT |-> 0, reached |-> FALSE,
       ndsc |-> 0, sawSilent |-> FALSE, answered |-> TRUE,
       \* xfer
       k |-> 0, pos |-> 0, short |-> FALSE, tdbad |-> FALSE, rte |-> "none",
       \* refresh
       nrs |-> 0, lastpos |-> -1]

Fail(m, l) == IF m.fail = "ok" THEN [m EXCEPT !.fail = l] ELSE m

-----------------------------------------------------------------------------
(* set_session *)
SetStep(m, e) ==
  LET c == m.c IN
  CASE e.e = "Hook" ->
         IF c.skip THEN Fail(m, "SS2/hook-called-although-skip_hooks")
         ELSE IF e.which = "post" /\ e.level \notin m.dscd
              THEN Fail(m, "SS7/post-hook-before-the-session-control-request")
         ELSE IF e.which = "post" /\ e.level = c.level THEN [m EXCEPT !.postAfter = TRUE]
         ELSE IF e.which = "pre" /\ e.level = c.level /\ m.phase = "first" THEN [m EXCEPT !.pre = TRUE]
         ELSE m
    [] e.e = "Dsc" ->
         LET ok == e.out = "pos"
             m1 == [m EXCEPT !.dscd = @ \cup {e.s}, !.cur = IF ok THEN e.s ELSE @, !.csec = IF ok THEN -1 ELSE @,
                             !.nreq = @ + 1, !.sawSilent = @ \/ (e.out = "silent")] IN
         IF m.phase = "first" THEN
              (IF e.s # c.level THEN Fail(m, "SS3/first-request-is-not-the-requested-session")
               ELSE IF ~c.skip /\ ~m.pre THEN Fail(m, "SS1/session-control-before-the-pre-hook")
               ELSE [m1 EXCEPT !.lastlevel = e.out, !.postAfter = FALSE,
                               !.phase = IF ok \/ ~(c.hasdb /\ c.usedb) \/ e.out = "silent" THEN "end" ELSE "wantdb"])
         ELSE IF m.phase = "wantdb" THEN Fail(m, "SS5/request-after-a-refusal-without-asking-the-database")
         ELSE IF m.phase = "walk" THEN
              (IF e.s # Head(m.todo) THEN Fail(m, "SS5/fallback-does-not-follow-the-stored-steps")
               ELSE IF Len(m.todo) = 1
                    THEN [m1 EXCEPT !.todo = <<>>, !.phase = "end", !.lastlevel = e.out, !.postAfter = FALSE]
                    ELSE [m1 EXCEPT !.todo = Tail(@), !.walkneg = @ \/ ~ok])
         ELSE Fail(m, "SS5/session-control-request-after-the-flow-was-complete")
    [] e.e = "Db" ->
         IF m.phase # "wantdb" THEN Fail(m, "SS4/database-asked-without-a-refused-session-change")
         ELSE IF e.dest # c.level THEN Fail(m, "SS4/database-asked-for-another-destination")
         ELSE IF e.found /\ ~(\E i \in 1..Len(c.rows) : c.rows[i] = e.steps)
              THEN Fail(m, "SS6/steps-not-stored-for-this-target-and-destination")
         ELSE IF ~e.found /\ Len(c.rows) > 0 THEN Fail(m, "SS6/stored-transition-not-found")
         ELSE IF e.found THEN [m EXCEPT !.phase = "walk", !.todo = e.steps \o <<c.level>>]
         ELSE [m EXCEPT !.phase = "end"]
    [] e.e = "Ret" ->
         LET m1 == [m EXCEPT !.done = TRUE, !.unspec = IF m.sawSilent \/ m.walkneg THEN 1 ELSE 0] IN
         IF e.val = "hang" THEN Fail(m1, "L0/call-never-returned")
         ELSE IF m.sawSilent THEN m1   \* an unanswered request: the sources are silent about the outcome
         ELSE IF m.phase = "first" THEN Fail(m1, "SS3/returned-without-a-session-control-request")
         ELSE IF m.phase = "wantdb" THEN Fail(m1, "SS5/no-database-fallback-after-the-refusal")
         ELSE IF m.phase = "walk" /\ ~m.walkneg THEN Fail(m1, "SS5/fallback-walk-incomplete")
         ELSE IF e.val = "raise" THEN Fail(m1, "SS8/raised-although-the-ecu-answered")
         ELSE IF e.val # m.lastlevel THEN Fail(m1, "SS8/result-is-not-the-answer-to-the-last-request")
         ELSE IF ~c.skip /\ e.val = "pos" /\ ~m.postAfter THEN Fail(m1, "SS7/no-post-hook-after-a-successful-change")
         ELSE IF e.sess # m.cur \/ e.sec # m.csec THEN Fail(m1, "SB/tracked-state-differs-from-the-last-accepted-change")
         ELSE m1
    [] e.e \in {"RC"} -> m
    [] OTHER -> Fail(m, "SS3/unexpected-request")

-----------------------------------------------------------------------------
(* leave_session *)
LeaveReq(m, e) ==   \* bookkeeping common to Reset / Dsc / Req events (everything that is not a ping)
  IF m.needPing THEN Fail(m, "LS4/request-without-waiting-for-the-ecu") ELSE m

LeaveStep(m, e) ==
  LET c == m.c IN
  CASE e.e = "Reset" ->
         LET m0 == LeaveReq(m, e) IN
         IF m0.fail # "ok" THEN m0
         ELSE IF m.nreq = 0 /\ e.sub # 1 THEN Fail(m, "LS1/first-request-is-not-a-hard-reset")
         ELSE [m EXCEPT !.nreq = @ + 1, !.lastneg = (e.out = "neg"), !.mustCycle = (e.out = "neg" /\ c.supply),
                        !.needPing = (e.out = "pos"), !.reached = @ \/ (e.out = "pos"),
                        !.answered = IF e.out = "pos" THEN FALSE ELSE @,
                        !.sawSilent = @ \/ (e.out = "silent")]
    [] e.e = "Ping" ->
         IF m.nreq = 0 THEN Fail(m, "LS1/first-request-is-not-a-hard-reset")
         ELSE [m EXCEPT !.needPing = FALSE, !.answered = @ \/ (e.out = "answer")]
    [] e.e = "Dsc" ->
         LET m0 == LeaveReq(m, e) IN
         IF m0.fail # "ok" THEN m0
         ELSE IF m.nreq = 0 THEN Fail(m, "LS1/first-request-is-not-a-hard-reset")
         ELSE IF e.s # 1 THEN Fail(m, "LS5/session-change-to-a-non-default-session")
         ELSE IF m.mustCycle THEN Fail(m, "LS3/no-power-cycle-after-the-refusal")
         ELSE [m EXCEPT !.nreq = @ + 1, !.ndsc = @ + 1, !.lastneg = (e.out = "neg"),
                        !.mustCycle = (e.out = "neg" /\ c.supply), !.reached = @ \/ (e.out = "pos"),
                        !.sawSilent = @ \/ (e.out = "silent")]
    [] e.e = "PDown" ->
         IF ~m.lastneg THEN Fail(m, "LS2/power-cycle-without-a-refusal")
         ELSE [m EXCEPT !.off = TRUE, !.offT = e.t, !.lastneg = FALSE]
    [] e.e = "PUp" ->
         IF ~m.off THEN Fail(m, "LS3/power-up-without-power-down")
         ELSE IF c.sleep >= 0 /\ e.t < m.offT + c.sleep THEN Fail(m, "LS3/power-restored-before-the-sleep-time")
         ELSE [m EXCEPT !.off = FALSE, !.mustCycle = FALSE, !.needPing = TRUE, !.reached = TRUE, !.answered = FALSE]
    [] e.e \in {"RC", "Hook"} -> m
    [] e.e = "Req" ->
         LET m0 == LeaveReq(m, e) IN
         IF m0.fail # "ok" THEN m0
         ELSE IF m.nreq = 0 THEN Fail(m, "LS1/first-request-is-not-a-hard-reset")
         ELSE m
    [] e.e = "Ret" ->
         LET m1 == [m EXCEPT !.done = TRUE, !.unspec = IF m.answered THEN 0 ELSE 1] IN
         IF e.val = "hang" THEN Fail(m1, "L0/call-never-returned")
         ELSE IF e.val = "raise" THEN
              (IF m.sawSilent \/ ~m.answered THEN m1 ELSE Fail(m1, "LS6/raised-although-every-request-was-answered"))
         ELSE IF m.nreq = 0 THEN Fail(m1, "LS1/first-request-is-not-a-hard-reset")
         ELSE IF m.ndsc = 0 THEN Fail(m1, "LS5/returned-without-requesting-the-default-session")
         ELSE IF m.mustCycle \/ m.off THEN Fail(m1, "LS3/no-power-cycle-after-the-refusal")
         ELSE IF m.reached /\ (e.sess # 1 \/ e.sec # -1)
              THEN Fail(m1, "LB/tracked-state-not-reset-after-reset-or-power-cycle")
         ELSE IF ~m.reached /\ (e.sess # c.s0 \/ e.sec # c.sec0)
              THEN Fail(m1, "LB/tracked-state-changed-without-any-accepted-change")
         ELSE m1
    [] OTHER -> Fail(m, "trace/unknown-event")

-----------------------------------------------------------------------------
(* transmit_data *)
BlockLen(c) == Min2(c.bl, c.maxbl)

XferStep(m, e) ==
  LET c == m.c
      BL == BlockLen(c) IN
  CASE e.e = "Td" ->
         LET n == Len(e.p) IN
         IF m.rte # "none" THEN Fail(m, "TX4/transfer-data-after-the-transfer-exit")
         ELSE IF m.tdbad THEN Fail(m, "TX6/transfer-continued-after-a-refused-block")
         ELSE IF e.c # (m.k + 1) % 256 THEN Fail(m, "TX1/block-sequence-counter")
         ELSE IF n = 0 THEN Fail(m, "TX2/block-without-data")
         ELSE IF n + 2 > BL THEN Fail(m, "TX2/block-longer-than-the-block-length")
         ELSE IF m.short THEN Fail(m, "TX2/short-block-before-the-last-one")
         ELSE IF m.pos + n > Len(c.data) \/ SubSeq(c.data, m.pos + 1, m.pos + n) # e.p
              THEN Fail(m, "TX3/payload-is-not-the-next-part-of-the-data")
         ELSE [m EXCEPT !.k = @ + 1, !.pos = @ + n, !.short = (n + 2 < BL), !.tdbad = (e.out # "pos")]
    [] e.e = "Rte" ->
         IF m.rte # "none" THEN Fail(m, "TX4/second-transfer-exit")
         ELSE IF ~m.tdbad /\ m.pos < Len(c.data) /\ BL >= 3
              THEN Fail(m, "TX4/transfer-exit-before-all-data-was-sent")
         ELSE [m EXCEPT !.rte = e.out]
    [] e.e = "Ret" ->
         LET m1 == [m EXCEPT !.done = TRUE, !.unspec = IF Len(c.data) = 0 THEN 1 ELSE 0] IN
         IF e.val = "hang" THEN Fail(m1, "L0/call-never-returned")
         ELSE IF e.val = "none" THEN
              (IF m.tdbad THEN Fail(m1, "TX6/returned-normally-although-a-block-was-not-acknowledged")
               ELSE IF m.pos # Len(c.data) THEN Fail(m1, "TX5/returned-normally-but-data-was-not-transferred")
               ELSE IF m.rte # "pos" THEN Fail(m1, "TX5/returned-normally-without-an-acknowledged-transfer-exit")
               ELSE m1)
         ELSE IF m.tdbad \/ m.rte \in {"neg", "silent"} THEN m1
         ELSE IF BL < 3 THEN m1
         ELSE Fail(m1, "TX7/raised-although-everything-was-acknowledged")
    [] e.e = "RC" -> m
    [] OTHER -> Fail(m, "TX4/unexpected-request")

-----------------------------------------------------------------------------
(* refresh_state *)
RefreshStep(m, e) ==
  LET c == m.c
      bs == IF c.reset THEN 1 ELSE c.s0
      bsec == IF c.reset THEN -1 ELSE c.sec0 IN
  CASE e.e = "Rs" -> [m EXCEPT !.nrs = @ + 1, !.lastpos = IF e.out = "pos" THEN e.s ELSE @]
    [] e.e = "Ret" ->
         LET m1 == [m EXCEPT !.done = TRUE, !.unspec = IF m.lastpos # -1 /\ m.lastpos # bs THEN 1 ELSE 0] IN
         IF e.val = "hang" THEN Fail(m1, "L0/call-never-returned")
         ELSE IF m.nrs = 0 THEN Fail(m1, "RF1/session-not-requested-from-the-ecu")
         ELSE IF m.lastpos # -1 THEN
              (IF e.val = "raise" THEN Fail(m1, "RF2/raised-although-the-session-was-read")
               ELSE IF e.sess # m.lastpos THEN Fail(m1, "RF2/reported-session-not-taken-over")
               ELSE IF m.lastpos = bs /\ e.sec # bsec THEN Fail(m1, "RF4/security-level-overwritten")
               ELSE m1)
         ELSE IF e.sess # bs \/ e.sec # bsec THEN Fail(m1, "RF3/old-values-overwritten-without-a-positive-answer")
         ELSE m1
    [] e.e \in {"RC", "Req"} -> m
    [] OTHER -> Fail(m, "trace/unknown-event")

-----------------------------------------------------------------------------
(* update_state bookkeeping: m.cur / m.csec = what ISO 14229-1 implies from the answers so far *)
BookStep(m, e) ==
  CASE e.e = "X" ->
         LET pos == e.out = "pos"
             ns == IF ~pos THEN m.cur
                   ELSE IF e.kind = "dsc" THEN e.a
                   ELSE IF e.kind = "reset" THEN 1
                   ELSE IF e.kind = "rs" THEN e.a
                   ELSE m.cur
             nsec == IF ~pos THEN m.csec
                     ELSE IF e.kind \in {"dsc", "reset"} THEN -1
                     ELSE IF e.kind = "rs" THEN (IF e.a = m.cur THEN m.csec ELSE -1)
                     ELSE IF e.kind = "key" THEN e.a - 1
                     ELSE m.csec IN
         IF e.cs # ns THEN Fail(m, "BK/tracked-session-after-" \o e.kind \o "-" \o e.out)
         ELSE IF e.csec # nsec THEN Fail(m, "BK/tracked-security-level-after-" \o e.kind \o "-" \o e.out)
         ELSE [m EXCEPT !.cur = ns, !.csec = nsec, !.nreq = @ + 1]
    [] e.e = "Ret" -> IF e.val = "hang" THEN Fail([m EXCEPT !.done = TRUE], "L0/call-never-returned")
                      ELSE [m EXCEPT !.done = TRUE]
    [] e.e = "RC" -> m
    [] OTHER -> Fail(m, "trace/unknown-event")

-----------------------------------------------------------------------------
Step(m, e) ==
  IF m.done THEN Fail(m, "trace/event-after-return")
  ELSE IF e.e = "Start" THEN
       (IF m.c.flow # "none" THEN Fail(m, "trace/second-start")
        ELSE IF e.flow \in {"set", "book"} THEN [m EXCEPT !.c = e, !.cur = e.s0, !.csec = e.sec0]
        ELSE [m EXCEPT !.c = e])
  ELSE IF m.c.flow = "set" THEN SetStep(m, e)
  ELSE IF m.c.flow = "leave" THEN LeaveStep(m, e)
  ELSE IF m.c.flow = "xfer" THEN XferStep(m, e)
  ELSE IF m.c.flow = "refresh" THEN RefreshStep(m, e)
  ELSE IF m.c.flow = "book" THEN BookStep(m, e)
  ELSE Fail(m, "trace/no-start")

\* total verdict of a complete event list
Final(m) == IF m.fail # "ok" THEN m.fail ELSE IF ~m.done THEN "trace/no-return" ELSE "ok"
=============================================================================
