SPECIFICATION CSpec
CONSTANTS
  B2 <- B2Quick
  Dev_LsbFirst = FALSE
  Dev_IgnoreByteOrder = FALSE
  Dev_PartialNoStrip = FALSE
INVARIANT LayoutAgrees
INVARIANT ShortRefused
CHECK_DEADLOCK FALSE
