SPECIFICATION FSpec
CONSTANTS
  Udp = FALSE
  Ports <- Ports3
  Classes <- TcpClasses
  Dev_F3_UdpShortAborts = FALSE
  Dev_NoDisconnect = FALSE
  Dev_ReportAny = FALSE
  Dev_NoHeader = TRUE
  Dev_StopAtSilent = FALSE
INVARIANT F_Find_Inv
PROPERTY FTerminates
CHECK_DEADLOCK FALSE
