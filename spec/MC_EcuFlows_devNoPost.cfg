\* negative control: post hook never called
SPECIFICATION Spec
CONSTANTS
  Cfgs <- MCSetSmall
  BookSymbols <- MCBookSymbols
  BookLen = 0
  Dev_S1_FallbackStepsIgnoreSkipHooks = FALSE
  Dev_S2_TinyBlockLengthSendsNothing = FALSE
  Dev_NoCounterWrap = FALSE
  Dev_NoWaitAfterReset = FALSE
  Dev_NoPowerCycle = FALSE
  Dev_NoDbFallback = FALSE
  Dev_RefreshIgnoresAnswer = FALSE
  Dev_KeyLevelOffByOne = FALSE
  Dev_NoPostHook = TRUE
INVARIANT ContractHolds
INVARIANT DoneIsTotal
INVARIANT Progress
PROPERTY Terminates
CHECK_DEADLOCK FALSE
