--------------------------- MODULE Trace_Primitives ---------------------------
(* Code -> spec for X10: validates recorded executions of the real primitive UDS commands (driven through
   AsyncScript.run() against a scripted in-memory ECU) against the contract layer PrimitivesContract.  Total verdict
   per execution ("V" lines), plus the number of points on which the documented sources are silent ("U" lines). *)
EXTENDS PrimitivesContract, Json, IOUtils

Batch == JsonDeserialize(IOEnv.TRACE_FILE)
T == Batch.traces

VARIABLES tid, verdict
tvars == <<tid, verdict>>

TInit == tid \in 1..Len(T) /\ verdict = "?"
TNext == /\ verdict = "?"
         /\ verdict' = PrimVerdict(T[tid])
         /\ tid' = tid
         /\ PrintT(<<"V", T[tid].id, verdict'>>)
         /\ PrintT(<<"U", T[tid].id, Unspecified(T[tid])>>)
TSpec == TInit /\ [][TNext]_tvars
=============================================================================
