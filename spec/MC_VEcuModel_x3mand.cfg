\* spec -> code export of every final graph
SPECIFICATION Spec
CONSTANTS
  Cand <- Cand3
  MandSeq <- Mand13
  DscMandatory = TRUE
  FlipReset = FALSE
  Export = TRUE
  Dev_NoBackEdge = FALSE
  Dev_NoAttach = FALSE
  Dev_AttachNoEdge = FALSE
  Dev_DscNotForced = TRUE
INVARIANT TypeOK
INVARIANT Inv_W0
INVARIANT Inv_W1
INVARIANT Inv_W2
INVARIANT Inv_W3
INVARIANT Inv_W4
INVARIANT Inv_Verdict
CHECK_DEADLOCK FALSE
