---------------------------- MODULE IdentScan ----------------------------
(* Design layer of the identifier scan, shaped like
   gallia.commands.scan.uds.identifiers.ScanIdentifiers (main / perform_scan).
   Environment: an abstract ECU chosen in Init = set of positively answered
   (session, sub-function, identifier) triples.  TLC checks the contract clauses of
   IdentScanContract for every ECU model and configuration. *)
EXTENDS IdentScanContract

CONSTANTS
  ModelSessions,   \* sessions of the ECU (each can be entered from everywhere)
  Window,          \* identifiers the ECU model ranges over (others: requestOutOfRange)
  AbnIds,          \* identifiers answered with an "abnormal" negative response when not positive
  DropIds,         \* identifiers whose positive answer makes the ECU fall back to session 1
  Cfgs,
  Dev_EndExclusive,     \* negative control: range(start, end)
  Dev_CountNegatives,   \* negative control: abnormal negative responses counted as positive
  Dev_LittleEndian,     \* negative control: identifier bytes swapped in the request
  Dev_NoClamp27         \* (not a defect, must NOT violate) no 7-bit clamp for SecurityAccess

VARIABLES M, C, pc, queue, cur, todo, npos, truth, hist, verdict
vars == <<M, C, pc, queue, cur, todo, npos, truth, hist, verdict>>

Trips(svc) == ModelSessions \X SubFns(svc) \X Window

CC == [has |-> C.has, req |-> ToSet(C.sessions), skipAll |-> C.skipAll, skip |-> C.skip, svc |-> C.svc,
       start |-> C.start, end |-> C.end, payload |-> C.payload, start_session |-> 1]
EE == [pos |-> M.pos, lo |-> 0, hi |-> 65535]

UsesDrop == \E t \in M.pos : t[3] \in DropIds

Init ==
  /\ C \in Cfgs
  /\ M \in [pos : SUBSET Trips(C.svc)]
  \* assumption A1 (as in ServiceScan): self-resetting ECUs only with check_session on every identifier
  /\ UsesDrop => (C.has /\ C.check = 1)
  /\ pc = "Start" /\ queue = <<>> /\ cur = 0 /\ todo = <<>> /\ npos = 0 /\ truth = 1 /\ hist = <<>>
  /\ verdict = "?"

Q(t, r, p) == [k |-> "q", t |-> t, r |-> r, p |-> p]
NEGC == 5

Start ==
  /\ pc = "Start"
  /\ IF C.has THEN queue' = SelectSeq(C.sessions, LAMBDA s : s \notin C.skipAll) /\ pc' = "NextSess"
              ELSE queue' = queue /\ pc' = "Begin"
  /\ UNCHANGED <<M, C, cur, todo, npos, truth, hist, verdict>>

\* await self.ecu.set_session(session)
NextSess ==
  /\ pc = "NextSess"
  /\ IF queue = <<>>
     THEN pc' = "Judge" /\ UNCHANGED <<queue, cur, truth, hist>>
     ELSE LET s == Head(queue) IN
          /\ queue' = Tail(queue)
          /\ hist' = Append(hist, Q(truth, IF s \in ModelSessions THEN POS ELSE NEGC, <<16, s>>))
          /\ IF s \in ModelSessions THEN truth' = s /\ cur' = s /\ pc' = "Begin"
                                   ELSE UNCHANGED <<truth, cur>> /\ pc' = "NextSess"
  /\ UNCHANGED <<M, C, todo, npos, verdict>>

EffEnd == LET e1 == IF C.svc = 39 /\ C.end > 127 /\ ~Dev_NoClamp27 THEN 127 ELSE C.end
          IN IF Dev_EndExclusive THEN e1 - 1 ELSE e1     \* e1 >= 1 in every configuration used

RECURSIVE Pairs(_, _)
Pairs(i, last) == IF i > last THEN <<>>
                  ELSE (IF C.svc = 49 THEN <<<<i, 1>>, <<i, 2>>, <<i, 3>>>> ELSE <<<<i, 0>>>>) \o Pairs(i + 1, last)

\* logger.result("Starting scan in session") ; product(range(start, end + 1), sub_functions)
Begin ==
  /\ pc = "Begin"
  /\ todo' = Pairs(C.start, EffEnd)
  /\ npos' = 0
  /\ hist' = IF C.has THEN Append(hist, [k |-> "start", s |-> cur]) ELSE hist
  /\ pc' = "Pair"
  /\ UNCHANGED <<M, C, queue, cur, truth, verdict>>

Pdu(id, sf) ==
  LET hi == IF Dev_LittleEndian THEN id % 256 ELSE id \div 256
      lo == IF Dev_LittleEndian THEN id \div 256 ELSE id % 256
  IN (CASE C.svc = 39 -> <<39, id % 256>>
        [] C.svc = 49 -> <<49, sf, hi, lo>>
        [] OTHER      -> <<C.svc, hi, lo>>) \o C.payload

\* what the ECU does with a request of the scanned service (ISO decoding, independent of Pdu)
EcuPos(t, p) == Len(p) >= HdrLen(C.svc) /\ <<t, DecSf(C.svc, p), DecId(C.svc, p)>> \in M.pos
                /\ ~(C.svc = 39 /\ p[2] >= 128)        \* suppressPosRspMsgIndicationBit: no answer
EcuAbn(t, p) == ~EcuPos(t, p) /\ Len(p) >= HdrLen(C.svc) /\ DecId(C.svc, p) \in AbnIds

ReadEv(t) == Q(t, POS, <<34, 241, 134>>)

\* one (identifier, sub-function) pair: skip test, optional session check, request, classification
Pair ==
  /\ pc = "Pair"
  /\ IF todo = <<>>
     THEN pc' = "Counts" /\ UNCHANGED <<todo, npos, truth, hist>>
     ELSE LET id == Head(todo)[1]
              sf == Head(todo)[2]
          IN /\ todo' = Tail(todo)
             /\ pc' = "Pair"
             /\ IF C.has /\ (cur \in C.skipAll \/ <<cur, id>> \in C.skip)
                THEN UNCHANGED <<npos, truth, hist>>
                ELSE LET fix  == C.has /\ C.check = 1 /\ truth # cur
                         t1   == IF fix THEN cur ELSE truth
                         pre  == IF C.has /\ C.check = 1
                                 THEN IF fix THEN <<ReadEv(truth), Q(truth, POS, <<16, cur>>), ReadEv(cur)>>
                                             ELSE <<ReadEv(truth)>>
                                 ELSE <<>>
                         p    == Pdu(id, sf)
                         ok   == EcuPos(t1, p)
                     IN /\ hist' = hist \o pre \o <<Q(t1, IF ok THEN POS ELSE NEGC, p)>>
                        /\ truth' = IF ok /\ DecId(C.svc, p) \in DropIds THEN 1 ELSE t1
                        /\ npos' = IF ok \/ (Dev_CountNegatives /\ EcuAbn(t1, p)) THEN npos + 1 ELSE npos
  /\ UNCHANGED <<M, C, queue, cur, verdict>>

\* logger.result("Positive replies: n") ... "Scan in session is complete"
Counts ==
  /\ pc = "Counts"
  /\ hist' = hist \o <<[k |-> "pos", n |-> npos]>> \o (IF C.has THEN <<[k |-> "end", s |-> cur]>> ELSE <<>>)
  /\ pc' = IF C.has THEN "Leave" ELSE "Judge"
  /\ UNCHANGED <<M, C, queue, cur, todo, npos, truth, verdict>>

\* await self.ecu.leave_session(session): ECUReset, wait, DiagnosticSessionControl(1)
Leave ==
  /\ pc = "Leave"
  /\ hist' = hist \o <<Q(truth, POS, <<17, 1>>), Q(1, POS, <<62, 0>>), Q(1, POS, <<16, 1>>)>>
  /\ truth' = 1
  /\ pc' = "NextSess"
  /\ UNCHANGED <<M, C, queue, cur, todo, npos, verdict>>

Judge ==
  /\ pc = "Judge"
  /\ verdict' = Verdict(CC, EE, hist)
  /\ pc' = "Done"
  /\ UNCHANGED <<M, C, queue, cur, todo, npos, truth, hist>>

Next == Start \/ NextSess \/ Begin \/ Pair \/ Counts \/ Leave \/ Judge
Spec == Init /\ [][Next]_vars /\ WF_vars(Next)

TypeOK == pc \in {"Start", "NextSess", "Begin", "Pair", "Counts", "Leave", "Judge", "Done"}
Done == pc = "Done"
M0_Model     == verdict # "M0/fake-ecu-inconsistent-with-its-model"
I1_Counter   == verdict # "I1/positive-count-differs"
I2_Iso       == verdict # "I2/probe-not-an-iso-request"
I2_Asked     == verdict # "I2/identifier-in-range-not-asked"
I3_Session   == verdict # "I3/probe-outside-announced-session"
I4_Counted   == verdict # "I4/entered-session-without-count"
VerdictOk    == Done => verdict = "ok"
Terminates   == <>Done
=============================================================================
