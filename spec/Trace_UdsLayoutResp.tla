------------------------- MODULE Trace_UdsLayoutResp -------------------------
(* C02, code -> spec: batch oracle for response parses.

   Batch.traces : recorded parses (UDSResponse.parse_dynamic(b),
                  <Class>.from_pdu(b), or the object helpers.parse_pdu(b, request)
                  / UDSClient.request hand out for the received bytes b -- returned
                  or carried by the ResponseException; x.dyn = TRUE for these) that
                  were NOT rejected: verdict class,
                  exposed fields, re-serialised bytes.  Verdict = "ok" or the
                  first clause of R1/R2/R3 broken.  x.valid marks byte strings
                  TLC generated from the layout: not accepting them as typed is
                  reported as drift (design), never as a violation.
   Batch.sweeps : exhaustive sweeps [sid, len, codes]: codes[i] is 0 when the
                  parser rejected the byte string <<sid>> \o Bytes(i-1, len-1)
                  (always allowed) or the index of its record in Batch.traces.
                  TLC checks that the table covers every string of that length
                  exactly once and that each record really belongs to its string. *)
EXTENDS UdsLayoutContract, Json, IOUtils

Batch == JsonDeserialize(IOEnv.TRACE_FILE)
T == Batch.traces
S == Batch.sweeps

VARIABLES mode, tid, verdict
tvars == <<mode, tid, verdict>>

Drift(x) == IF x.valid /\ x.v # "typed" THEN "D/valid-response-not-typed" ELSE ""

SweepBytes(s, i) == <<s.sid>> \o Bytes(i - 1, s.len - 1)
SweepVerdict(s) ==
  IF Len(s.codes) # Pow(s.len - 1) THEN "SWEEP/incomplete"
  ELSE IF \A i \in 1..Len(s.codes) :
            \/ s.codes[i] = 0
            \/ (s.codes[i] \in 1..Len(T) /\ T[s.codes[i]].b = SweepBytes(s, i))
       THEN "ok" ELSE "SWEEP/record-mismatch"
NonReject(s) == Cardinality({i \in 1..Len(s.codes) : s.codes[i] # 0})

TInit == /\ \/ mode = "t" /\ tid \in 1..Len(T)
            \/ mode = "s" /\ tid \in 1..Len(S)
         /\ verdict = "?"
TNext == /\ verdict = "?"
         /\ IF mode = "t"
            THEN /\ verdict' = RespVerdict(T[tid])
                 /\ PrintT(<<"V", T[tid].id, verdict', Drift(T[tid]), RespBroken(T[tid])>>)
            ELSE /\ verdict' = SweepVerdict(S[tid])
                 /\ PrintT(<<"S", S[tid].sid, S[tid].len, verdict', Len(S[tid].codes), NonReject(S[tid])>>)
         /\ UNCHANGED <<mode, tid>>
TSpec == TInit /\ [][TNext]_tvars
=============================================================================
