------------------------- MODULE UdsScannerSetup -------------------------
(* Growth item X12 part 2, design layer: UDSScanner.setup() -> main() -> UDSScanner.teardown() as driven by
   AsyncScript.run(), shaped like the code (one action per await point / step of setup and teardown), with the cyclic
   tester-present worker as a timer (tpNext) and the ECU as environment.  Virtual time in ms; the tester-present
   interval is 500 ms, wait_for_ecu sleeps 500 ms before every ping and waits 500 ms for its answer.

   Environment (Init): the configuration (ping, tp, props, compare, reset, db, art, dbFault), the ECU (how it reacts to
   ECUReset; how many initial pings it leaves unanswered) and what main() does (writes the property or not, raises or
   not, how long it idles).

   Deviation constants (negative controls; all FALSE = the design that satisfies the contract):
     Dev_S4_DbWarningRaises           the handler of a failed scan-run insert raises instead of warning (setup aborts)
     Dev_NoTeardownAfterFailingMain   teardown() only after a main() that returned
     Dev_TpNotStopped                 teardown() leaves the tester-present worker running                         *)
EXTENDS UdsScannerSetupContract, TLC

CONSTANTS Bools, Resets, Faults, EcuResets, Silents, MainMs, Export,
          Dev_S4_DbWarningRaises, Dev_NoTeardownAfterFailingMain, Dev_TpNotStopped

I == 500

VARIABLES cfg, ecu, plan,            \* environment
          pc, now, ph, tpOn, tpNext, deadline,
          prop, dscSeen, silentLeft, \* ECU state
          reqs, nmain, mainStart, mainEnd, mainOut, runEnd, runOut, open, db, files, warnT
vars == <<cfg, ecu, plan, pc, now, ph, tpOn, tpNext, deadline, prop, dscSeen, silentLeft,
          reqs, nmain, mainStart, mainEnd, mainOut, runEnd, runOut, open, db, files, warnT>>

Init ==
  /\ cfg \in {c \in [ping : Bools, tp : Bools, interval : {I}, props : Bools, compare : Bools, reset : Resets,
                      db : Bools, art : Bools, dbFault : Faults] :
                 /\ (c.dbFault # "none" => c.db) /\ (c.compare => c.props)
                 /\ (c.dbFault \in {"pre", "post"} => c.props)}
  /\ ecu \in {e \in [reset : EcuResets, silent : Silents] : ~cfg.ping => e.silent = 0}   \* unanswered pings need --ping
  /\ plan \in [write : Bools, fail : Bools, ms : MainMs]
  /\ pc = "dbrun" /\ now = 0 /\ ph = "setup" /\ tpOn = FALSE /\ tpNext = 0 /\ deadline = 0
  /\ prop = 1 /\ dscSeen = FALSE /\ silentLeft = ecu.silent
  /\ reqs = <<>> /\ nmain = 0 /\ mainStart = -1 /\ mainEnd = -1 /\ mainOut = "none" /\ runEnd = -1 /\ runOut = "?"
  /\ open = 1 /\ db = [has |-> FALSE, pre |-> -1, post |-> -1] /\ files = [pre |-> -1, post |-> -1] /\ warnT = 0

Rq(k, res, v, lvl) == [t |-> now, ph |-> ph, k |-> k, res |-> res, v |-> v, lvl |-> lvl]
Env == <<cfg, ecu, plan>>

\* insert_scan_run
DbRun ==
  /\ pc = "dbrun"
  /\ IF cfg.db /\ cfg.dbFault = "scan_run"
     THEN /\ pc' = (IF Dev_S4_DbWarningRaises THEN "abort" ELSE "reset")
          /\ UNCHANGED db
     ELSE /\ pc' = "reset" /\ db' = [db EXCEPT !.has = cfg.db]
  /\ UNCHANGED <<Env, now, ph, tpOn, tpNext, deadline, prop, dscSeen, silentLeft, reqs, nmain, mainStart, mainEnd,
                 mainOut, runEnd, runOut, open, files, warnT>>

ResetRes == IF ecu.reset = "ok" \/ (ecu.reset = "neg_then_ok" /\ dscSeen) THEN "pos" ELSE "neg"
\* ecu.ecu_reset(level) -- first attempt and the attempt after "Switching to default session"
Reset(from, okTo, negTo) ==
  /\ pc = from
  /\ IF cfg.reset < 0 THEN pc' = okTo /\ UNCHANGED reqs
     ELSE /\ reqs' = Append(reqs, Rq("reset", ResetRes, -1, cfg.reset))
          /\ pc' = IF ResetRes = "neg" THEN negTo ELSE okTo
  /\ UNCHANGED <<Env, now, ph, tpOn, tpNext, deadline, prop, dscSeen, silentLeft, nmain, mainStart, mainEnd,
                 mainOut, runEnd, runOut, open, db, files, warnT>>
Dsc ==
  /\ pc = "dsc" /\ pc' = "reset2" /\ dscSeen' = TRUE
  /\ reqs' = Append(reqs, Rq("dsc", "pos", -1, 1))
  /\ UNCHANGED <<Env, now, ph, tpOn, tpNext, deadline, prop, silentLeft, nmain, mainStart, mainEnd,
                 mainOut, runEnd, runOut, open, db, files, warnT>>

\* wait_for_ecu: sleep 0.5 s, ping (0.5 s), until answered
Ping ==
  /\ pc = "ping"
  /\ IF ~cfg.ping THEN pc' = "tpstart" /\ UNCHANGED <<now, reqs, silentLeft>>
     ELSE IF silentLeft > 0
     THEN /\ reqs' = Append(reqs, [Rq("tp", "none", -1, -1) EXCEPT !.t = now + 500])
          /\ now' = now + 1000 /\ silentLeft' = silentLeft - 1 /\ pc' = "ping"
     ELSE /\ reqs' = Append(reqs, [Rq("tp", "pos", -1, -1) EXCEPT !.t = now + 500])
          /\ now' = now + 500 /\ pc' = "tpstart" /\ UNCHANGED silentLeft
  /\ UNCHANGED <<Env, ph, tpOn, tpNext, deadline, prop, dscSeen, nmain, mainStart, mainEnd,
                 mainOut, runEnd, runOut, open, db, files, warnT>>

\* start_cyclic_tester_present
TpStart ==
  /\ pc = "tpstart" /\ pc' = "propspre"
  /\ tpOn' = cfg.tp /\ tpNext' = now + I
  /\ UNCHANGED <<Env, now, ph, deadline, prop, dscSeen, silentLeft, reqs, nmain, mainStart, mainEnd,
                 mainOut, runEnd, runOut, open, db, files, warnT>>

\* properties(True), PROPERTIES_PRE.json, insert_scan_run_properties_pre
PropsPre ==
  /\ pc = "propspre" /\ pc' = "main"
  /\ IF cfg.props
     THEN /\ reqs' = Append(reqs, Rq("prop", "pos", prop, -1))
          /\ files' = IF cfg.art THEN [files EXCEPT !.pre = prop] ELSE files
          /\ db' = IF db.has /\ cfg.dbFault # "pre" THEN [db EXCEPT !.pre = prop] ELSE db
     ELSE UNCHANGED <<reqs, files, db>>
  /\ UNCHANGED <<Env, now, ph, tpOn, tpNext, deadline, prop, dscSeen, silentLeft, nmain, mainStart, mainEnd,
                 mainOut, runEnd, runOut, open, warnT>>

MainStart ==
  /\ pc = "main" /\ pc' = "mainwait"
  /\ nmain' = nmain + 1 /\ mainStart' = now /\ ph' = "main" /\ deadline' = now + plan.ms
  /\ IF plan.write
     THEN prop' = prop + 1 /\ reqs' = Append(reqs, [Rq("write", "pos", prop + 1, -1) EXCEPT !.ph = "main"])
     ELSE UNCHANGED <<prop, reqs>>
  /\ UNCHANGED <<Env, now, tpOn, tpNext, dscSeen, silentLeft, mainEnd, mainOut, runEnd, runOut, open, db, files, warnT>>

\* main() idles; the cyclic worker fires whenever its sleep is over
MainWait ==
  /\ pc = "mainwait"
  /\ IF tpOn /\ tpNext <= deadline
     THEN /\ now' = tpNext /\ tpNext' = tpNext + I /\ pc' = "mainwait"
          /\ reqs' = Append(reqs, [Rq("tp", "pos", -1, -1) EXCEPT !.t = tpNext])
     ELSE /\ now' = deadline /\ pc' = "mainend" /\ UNCHANGED <<tpNext, reqs>>
  /\ UNCHANGED <<Env, ph, tpOn, deadline, prop, dscSeen, silentLeft, nmain, mainStart, mainEnd,
                 mainOut, runEnd, runOut, open, db, files, warnT>>

MainEnd ==
  /\ pc = "mainend"
  /\ mainEnd' = now /\ mainOut' = (IF plan.fail THEN "raise" ELSE "ok") /\ ph' = "teardown"
  /\ pc' = IF plan.fail /\ Dev_NoTeardownAfterFailingMain THEN "runend" ELSE "propspost"
  /\ UNCHANGED <<Env, now, tpOn, tpNext, deadline, prop, dscSeen, silentLeft, reqs, nmain, mainStart,
                 runEnd, runOut, open, db, files, warnT>>

\* teardown: properties(True), PROPERTIES_POST.json, comparison, complete_scan_run
PropsPost ==
  /\ pc = "propspost" /\ pc' = "tpstop"
  /\ IF cfg.props
     THEN /\ reqs' = Append(reqs, Rq("prop", "pos", prop, -1))
          /\ files' = IF cfg.art THEN [files EXCEPT !.post = prop] ELSE files
          /\ db' = IF db.has /\ cfg.dbFault # "post" THEN [db EXCEPT !.post = prop] ELSE db
          /\ warnT' = (IF cfg.art /\ cfg.compare /\ files.pre # prop THEN 1 ELSE 0)
                      + (IF cfg.db /\ cfg.dbFault \in {"scan_run", "post"} THEN 1 ELSE 0)
     ELSE UNCHANGED <<reqs, files, db, warnT>>
  /\ UNCHANGED <<Env, now, ph, tpOn, tpNext, deadline, prop, dscSeen, silentLeft, nmain, mainStart, mainEnd,
                 mainOut, runEnd, runOut, open>>

TpStop ==
  /\ pc = "tpstop" /\ pc' = "closeconn"
  /\ tpOn' = IF Dev_TpNotStopped THEN tpOn ELSE FALSE
  /\ UNCHANGED <<Env, now, ph, tpNext, deadline, prop, dscSeen, silentLeft, reqs, nmain, mainStart, mainEnd,
                 mainOut, runEnd, runOut, open, db, files, warnT>>

CloseConn ==
  /\ pc = "closeconn" /\ pc' = "runend" /\ open' = 0
  /\ UNCHANGED <<Env, now, ph, tpOn, tpNext, deadline, prop, dscSeen, silentLeft, reqs, nmain, mainStart, mainEnd,
                 mainOut, runEnd, runOut, db, files, warnT>>

RunEnd ==
  /\ pc \in {"runend", "abort"} /\ pc' = "grace"
  /\ runEnd' = now /\ ph' = "after"
  /\ runOut' = IF pc = "abort" THEN "exc" ELSE IF mainOut = "raise" THEN "main-exc" ELSE "ok"
  /\ UNCHANGED <<Env, now, tpOn, tpNext, deadline, prop, dscSeen, silentLeft, reqs, nmain, mainStart, mainEnd,
                 mainOut, open, db, files, warnT>>

\* some intervals later: a worker that was left running shows
Summary == [nmain |-> nmain, runOut |-> runOut, db |-> db, files |-> files, warn |-> warnT > 0,
            nreset |-> Cardinality({i \in 1..Len(reqs) : reqs[i].k = "reset"}),
            ndsc |-> Cardinality({i \in 1..Len(reqs) : reqs[i].k = "dsc"}),
            ntpsetup |-> Cardinality({i \in 1..Len(reqs) : reqs[i].k = "tp" /\ reqs[i].ph = "setup"}),
            ntpmain |-> Cardinality({i \in 1..Len(reqs) : reqs[i].k = "tp" /\ reqs[i].ph = "main"})]
Grace ==
  /\ pc = "grace" /\ pc' = "done"
  /\ IF tpOn THEN reqs' = Append(reqs, [Rq("tp", "pos", -1, -1) EXCEPT !.t = IF tpNext > now THEN tpNext ELSE now + I])
     ELSE UNCHANGED reqs
  /\ Export => PrintT(<<"K", cfg, ecu, plan, Summary>>)
  /\ UNCHANGED <<Env, now, ph, tpOn, tpNext, deadline, prop, dscSeen, silentLeft, nmain, mainStart, mainEnd,
                 mainOut, runEnd, runOut, open, db, files, warnT>>

Next == \/ DbRun \/ Reset("reset", "ping", "dsc") \/ Dsc \/ Reset("reset2", "ping", "ping") \/ Ping \/ TpStart
        \/ PropsPre \/ MainStart \/ MainWait \/ MainEnd \/ PropsPost \/ TpStop \/ CloseConn \/ RunEnd \/ Grace
Spec == Init /\ [][Next]_vars

Obs == [cfg |-> cfg, reqs |-> reqs, nmain |-> nmain, mainStart |-> mainStart, mainEnd |-> mainEnd,
        mainOut |-> mainOut, runEnd |-> runEnd, runOut |-> runOut, open |-> open,
        leaked |-> (IF tpOn THEN 1 ELSE 0), db |-> db, files |-> files,
        warnTeardown |-> warnT]
Done == pc = "done"
Inv_D1_DbFaultTolerated == Done => D1_DbFaultTolerated(Obs)
Inv_L1_MainOnce         == Done => L1_MainOnce(Obs)
Inv_L2_RunOutcome       == Done => L2_RunOutcome(Obs)
Inv_R1_Reset            == Done /\ nmain = 1 => R1_Reset(Obs)
Inv_G1_Ping             == Done /\ nmain = 1 => G1_Ping(Obs)
Inv_G2_TesterPresent    == Done /\ nmain = 1 => G2_TesterPresentDuringMain(Obs)
Inv_G3_Stopped          == Done /\ nmain = 1 => G3_StoppedAfterwards(Obs)
Inv_H1_PropsRead        == Done /\ nmain = 1 => H1_PropsRead(Obs)
Inv_H2_PropsStored      == Done /\ nmain = 1 => H2_PropsStored(Obs)
Inv_H3_Compare          == Done /\ nmain = 1 => H3_Compare(Obs)
Inv_Verdict             == Done => Verdict(Obs) = "ok"
Inv_Progress            == ~Done => ENABLED Next
=============================================================================
