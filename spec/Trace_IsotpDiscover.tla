------------------------- MODULE Trace_IsotpDiscover -------------------------
(* Code -> spec: validates recorded executions of the real IsotpDiscoverer.main() (over the real RawCANTransport /
   ISOTPTransport on the in-memory bus of harness/x14_run.py), of CANMessage.pack / unpack, can_id_repr and of the
   configuration validator against the contract layer (X14).  One initial state per execution, total verdict. *)
EXTENDS IsotpDiscoverContract, Json, IOUtils, TLC

Batch == JsonDeserialize(IOEnv.TRACE_FILE)
T == Batch.traces

VARIABLES tid, verdict
tvars == <<tid, verdict>>

\* JSON arrays of ids -> set
AsSet(s) == {s[k] : k \in 1..Len(s)}
Norm(x) == IF x.kind = "scan" THEN [x EXCEPT !.idle = AsSet(x.idle), !.seen = AsSet(x.seen)] ELSE x

TInit == tid \in 1..Len(T) /\ verdict = "?"
TNext == /\ verdict = "?"
         /\ LET O == Norm(T[tid]) IN
              /\ verdict' = Verdict(O)
              /\ PrintT(<<"V", T[tid].id, verdict'>>)
              /\ PrintT(<<"U", T[tid].id, Unspecified(O)>>)
         /\ tid' = tid
TSpec == TInit /\ [][TNext]_tvars
=============================================================================
