SPECIFICATION Spec
CHECK_DEADLOCK FALSE
CONSTANTS
  Ids <- Ids3
  BehNames <- BehCore
  PadV <- PadNone
  Export = TRUE
  Dev_F1_FixedDeadline = FALSE
  Dev_F2_SameIdIsSweptValue = FALSE
  Dev_F3_NoDrain = FALSE
  Dev_NoFilter = FALSE
  Dev_ReportBroadcast = FALSE
  Dev_SkipLast = FALSE
  Dev_NoPadding = FALSE
  Dev_ReportPerFrame = FALSE
INVARIANT Inv_P1_EveryIdProbed
INVARIANT Inv_P2_Configured
INVARIANT Inv_P3_Ascending
INVARIANT Inv_U1_Uris
INVARIANT Inv_F1_Sound
INVARIANT Inv_I1_Idle
INVARIANT Inv_F3_NoStale
INVARIANT Inv_F2_Complete
INVARIANT Inv_B1_Broadcast
INVARIANT Inv_E1_Once
INVARIANT Inv_Verdict
