------------------------------ MODULE CursedHr ------------------------------
(* X18 (growth): design layer of the interactive log viewer gallia.cli.cursed_hr.CursedHR, shaped like the code:
   the state handle_io keeps between two keys (display_entries, cursor, start_entry mark, configuration history,
   help flag), one action per key command, and the helpers calculate_display_entries / line_up / page_up /
   the fill-up loop / update_zones / update_selected_zones transcribed at the abstraction
        record = (priority, number of display lines, which filters it passes / makes raise).
   A display line is <<record, line number>>; the width of the terminal is abstracted to "wide enough for the help
   text or not" and to a column count for the filter input.  The search helpers (level pointers, binary search,
   zone walk of next_/previous_sufficient_pointer) are abstracted to "next / previous sufficient entry".

   The contract (CursedHrContract) is checked on every step: the design keeps the contract's context `ctx` next to
   its own state and records the verdict of every key.

   Deviation constants (all FALSE: the repaired behaviour; one TRUE: the defect found on the current tree):
   Dev_F1_StalePageUp   page_up() keeps a stale entry_start when it moves inside a multi-line entry
   Dev_F2_HiddenMidEntry calculate_display_entries() handles a hidden start entry only for entry_line 0 / -1
   Dev_F3_HelpEndKey    G (and Page Up) in the help screen compute LOG entries and then index an empty help slice
   Dev_F4_HelpNeedsWide the help lines use the description as prefix: no room left for the text below ~106 columns
   Dev_F5_FilterRaises  a filter that raises on a real record (e.g. `"x" in tags` on an untagged record) is fatal
   Dev_F6_InputOverflow the filter input is written past the lower right corner when it reaches the window width
   Dev_F8_ReflowEmpty   after a reflow (x / t / wider terminal: entries get fewer lines) the remembered line number
                        may lie beyond the entry: empty display list, indexed by the fill-up loop
   (F7, a resize while the filter input is open, is not modelled: the model resizes only in the main view / help)
   Dev_C1_RedoKept      (control for clause C) a new configuration does not cut the redo history
   Dev_M1_PageDownSkips (control for clause M5) Page Down starts below the old bottom line + 1 *)
EXTENDS CursedHrContract, SequencesExt, TLC

CONSTANTS Logs, Heights, Wides, Tokens, Levels, Prio0, MaxHist, MaxDepth, HelpLen, MaxIn,
          Dev_F1_StalePageUp, Dev_F2_HiddenMidEntry, Dev_F3_HelpEndKey, Dev_F4_HelpNeedsWide,
          Dev_F5_FilterRaises, Dev_F6_InputOverflow, Dev_F8_ReflowEmpty, Dev_C1_RedoKept, Dev_M1_PageDownSkips

VARIABLES log,      \* the log being viewed (chosen in Init): sequence of [prio, lens, sat, und]
          s,        \* the viewer: [H, wide, ch, ci, rows, cur, mark, mode, inlen, hl, sav]
          ctx,      \* context of the contract (CursedHrContract!StepCtx)
          verdict   \* verdict of the contract about the last key
vars == <<log, s, ctx, verdict>>

N == Len(log)
NL0(r) == Len(log[r].lens)
\* reflow: with the prefix switched off (x) the lines get wider: here every entry then fits into one display line
NL(r, sq) == IF sq THEN 1 ELSE NL0(r)
ELog(sq) == [r \in 1..N |-> [log[r] EXCEPT !.lens = SubSeq(@, 1, NL(r, sq))]]
Min2(a, b) == IF a < b THEN a ELSE b
Max2(a, b) == IF a > b THEN a ELSE b

(* ------------------------------------------------------------------ configuration: zones, filter *)
\* zone: [zs |-> start, ze |-> end (-1: open), p |-> priority]
InZone(z, r) == r >= z.zs /\ (z.ze = -1 \/ r <= z.ze)
HasZone(zs, r) == \E i \in 1..Len(zs) : InZone(zs[i], r)
ZoneOf(zs, r) == zs[MinOf({i \in 1..Len(zs) : InZone(zs[i], r)})]
Raising(c, r) == c.filt # 0 /\ log[r].und[c.filt]
PrioOk(c, r) == HasZone(c.zones, r) /\ log[r].prio <= ZoneOf(c.zones, r).p
Suff(c, r) == PrioOk(c, r) /\ (c.filt = 0 \/ (log[r].sat[c.filt] /\ ~Raising(c, r)))
SuffSet(c) == {r \in 1..N : Suff(c, r)}
NextS(c, r) == LET S == {x \in SuffSet(c) : x > r} IN IF S = {} THEN 0 ELSE MinOf(S)
PrevS(c, r) == LET S == {x \in SuffSet(c) : x < r} IN IF S = {} THEN 0 ELSE MaxOf(S)
FirstS(c) == IF SuffSet(c) = {} THEN 0 ELSE MinOf(SuffSet(c))
\* check_filter evaluates the filter on records of sufficient priority; eval() raising is not caught
FilterFatal(c) == Dev_F5_FilterRaises /\ \E r \in 1..N : PrioOk(c, r) /\ Raising(c, r)

\* update_zones(new_zone), transcribed
RECURSIVE UZLoop(_, _, _)
UZLoop(zs, i, nz) ==
  IF i > Len(zs) - 1 THEN zs
  ELSE LET c == zs[i] IN
       IF nz.ze < c.zs \/ nz.zs > c.ze THEN UZLoop(zs, i + 1, nz)
       ELSE IF nz.zs <= c.zs /\ nz.ze >= c.ze THEN UZLoop(RemoveAt(zs, i), i, nz)
       ELSE IF nz.zs > c.zs /\ nz.ze < c.ze
            THEN InsertAt(ReplaceAt(zs, i, [c EXCEPT !.ze = nz.zs - 1]), i + 1,
                          [zs |-> nz.ze + 1, ze |-> c.ze, p |-> c.p])
       ELSE LET c1 == IF nz.ze < c.ze THEN [c EXCEPT !.zs = nz.ze + 1] ELSE c
                c2 == IF nz.zs > c1.zs THEN [c1 EXCEPT !.ze = nz.zs - 1] ELSE c1
            IN UZLoop(ReplaceAt(zs, i, c2), i + 1, nz)
UZLast(zs, nz) ==
  LET last == zs[Len(zs)] IN
  IF nz.ze >= last.zs THEN
       LET zs1 == IF nz.zs >= last.zs
                  THEN InsertAt(zs, Len(zs), [zs |-> last.zs, ze |-> nz.zs - 1, p |-> last.p]) ELSE zs
       IN [zs1 EXCEPT ![Len(zs1)] = [@ EXCEPT !.zs = nz.ze + 1]]
  ELSE zs
UZInsert(zs, nz) == InsertAt(zs, MinOf({i \in 1..Len(zs) : ~(nz.zs > zs[i].zs)}), nz)
UpdateZones(zs, nz) == UZInsert(UZLast(UZLoop(zs, 1, nz), nz), nz)

(* ------------------------------------------------------------------ display lines *)
\* row: [r, k, f]  (k: entry_line_number, f: the "No entries found" line, which carries entry number 0 = record 1)
Fallback == << [r |-> 1, k |-> 0, f |-> TRUE] >>
IsLastLine(x, sq) == ~x.f /\ x.k = NL(x.r, sq) - 1
RECURSIVE FlatFrom(_, _, _)
FlatFrom(c, r, sq) == IF r > N THEN <<>>
                      ELSE (IF Suff(c, r) THEN [k \in 1..NL(r, sq) |-> [r |-> r, k |-> k - 1, f |-> FALSE]] ELSE <<>>)
                           \o FlatFrom(c, r + 1, sq)
Flat(c, sq) == FlatFrom(c, 1, sq)

\* calculate_display_entries(start_entry, entry_line): [st |-> "ok" | "crash", rows]
Calc(c, e, k, H, sq) ==
  IF FilterFatal(c) \/ ~HasZone(c.zones, e) THEN [st |-> "crash", rows |-> <<>>]
  ELSE
  LET tgt == IF Suff(c, e) THEN <<e, k>>
             ELSE IF k = -1 THEN (IF PrevS(c, e) # 0 THEN <<PrevS(c, e), -1>>
                                  ELSE IF FirstS(c) # 0 THEN <<FirstS(c), 0>> ELSE <<0, 0>>)
             ELSE IF k = 0 \/ ~Dev_F2_HiddenMidEntry
                  THEN (IF NextS(c, e) # 0 THEN <<NextS(c, e), 0>> ELSE <<0, 0>>)
             ELSE <<-1, 0>>
  IN IF tgt[1] = -1 THEN [st |-> "crash", rows |-> <<>>]
     ELSE IF tgt[1] = 0 THEN [st |-> "ok", rows |-> Fallback]
     ELSE LET fl == Flat(c, sq)
              kk == IF tgt[2] = -1 THEN NL(tgt[1], sq) - 1
                    ELSE IF Dev_F8_ReflowEmpty THEN tgt[2] ELSE Min2(tgt[2], NL(tgt[1], sq) - 1)
              \* new_lines[entry_line:] is empty when entry_line is beyond the entry: the next entries follow
              S == {i \in 1..Len(fl) : fl[i].r > tgt[1] \/ (fl[i].r = tgt[1] /\ fl[i].k >= kk)}
          IN IF S = {} THEN [st |-> "ok", rows |-> <<>>]
             ELSE LET i0 == MinOf(S) IN [st |-> "ok", rows |-> SubSeq(fl, i0, Min2(Len(fl), i0 + H - 2))]

\* line_up(): new (entry_start, line_start)
LineUp(rows, es, ls) ==
  IF rows[1].k = 0 THEN (IF es > 1 THEN <<es - 1, -1>> ELSE <<es, ls>>) ELSE <<es, ls - 1>>

\* page_up(): [st, rows, es, ls]
RECURSIVE PageUp(_, _, _, _, _, _, _)
PageUp(c, rows, es, ls, n, H, sq) ==
  IF n = 0 THEN [st |-> "ok", rows |-> rows, es |-> es, ls |-> ls]
  ELSE LET nw == IF rows[1].k = 0 THEN (IF es > 1 THEN <<Max2(1, rows[1].r - 1), -1>> ELSE <<es, ls>>)
                 ELSE <<IF Dev_F1_StalePageUp THEN es ELSE rows[1].r, rows[1].k - 1>>
       IN IF nw = <<es, ls>> THEN [st |-> "ok", rows |-> rows, es |-> es, ls |-> ls]
          ELSE LET cal == Calc(c, nw[1], nw[2], H, sq) IN
               IF cal.st = "crash" \/ Len(cal.rows) = 0 THEN [st |-> "crash", rows |-> <<>>, es |-> es, ls |-> ls]
               ELSE PageUp(c, cal.rows, nw[1], nw[2], n - 1, H, sq)

\* the loop after every key that scrolls back until the screen is full
RECURSIVE FillUp(_, _, _, _, _, _, _, _)
FillUp(c, rows, es, ls, pes, pls, H, sq) ==
  IF Len(rows) = 0 THEN [st |-> "crash", rows |-> rows]
  ELSE IF Len(rows) < H - 1 /\ (pes # es \/ pls # ls) THEN
       LET lu == LineUp(rows, rows[1].r, rows[1].k)
           cal == Calc(c, lu[1], lu[2], H, sq)
       IN IF cal.st = "crash" THEN [st |-> "crash", rows |-> <<>>]
          ELSE FillUp(c, cal.rows, lu[1], lu[2], es, ls, H, sq)
  ELSE [st |-> "ok", rows |-> rows]

(* ------------------------------------------------------------------ the viewer *)
CurCfg(st) == st.ch[st.ci]
Crash(st) == [st EXCEPT !.mode = "crashed"]
PushCfg(st, c) == IF Dev_C1_RedoKept THEN [st EXCEPT !.ch = Append(st.ch, c), !.ci = Len(st.ch) + 1]
                  ELSE [st EXCEPT !.ch = Append(SubSeq(st.ch, 1, st.ci), c), !.ci = st.ci + 1]

\* recalculation + fill-up + cursor clamp at the end of the key loop (main view)
Redraw(st, es, ls, curTmp) ==
  LET c == CurCfg(st)
      cal == Calc(c, es, ls, st.H, st.sq)
  IN IF cal.st = "crash" THEN Crash(st)
     ELSE LET fu == FillUp(c, cal.rows, es, ls, 1, 0, st.H, st.sq) IN
          IF fu.st = "crash" THEN Crash(st)
          ELSE [st EXCEPT !.rows = fu.rows, !.cur = Max2(1, Min2(curTmp, Len(fu.rows)))]

ES(st) == st.rows[1].r
LS(st) == st.rows[1].k

MainKey(st, key) ==
  LET c == CurCfg(st)
      es == ES(st)
      ls == LS(st)
      H == st.H
      n == Len(st.rows)
  IN
  CASE key.t = "up" ->
         IF st.cur > 1 THEN Redraw(st, es, ls, st.cur - 1)
         ELSE LET lu == LineUp(st.rows, es, ls) IN Redraw(st, lu[1], lu[2], st.cur)
    [] key.t = "down" ->
         IF st.cur < H - 1 THEN Redraw(st, es, ls, st.cur + 1)
         ELSE IF IsLastLine(st.rows[1], st.sq) THEN Redraw(st, Min2(N, es + 1), 0, st.cur)
         ELSE Redraw(st, es, ls + 1, st.cur)
    [] key.t = "ppage" ->
         IF st.cur > 1 THEN Redraw(st, es, ls, 1)
         ELSE LET pu == PageUp(c, st.rows, es, ls, H - 2, H, st.sq) IN
              IF pu.st = "crash" THEN Crash(st) ELSE Redraw(st, pu.es, pu.ls, st.cur)
    [] key.t = "npage" ->
         IF st.cur < n THEN Redraw(st, es, ls, n)
         ELSE IF Dev_M1_PageDownSkips /\ ~st.rows[n].f
              THEN Redraw(st, Min2(N, st.rows[n].r + 1), 0, st.cur)
         ELSE Redraw(st, st.rows[n].r, st.rows[n].k, st.cur)
    [] key.t = "home" -> Redraw(st, 1, 0, 1)
    [] key.t = "end" ->
         LET cal == Calc(c, N, -1, H, st.sq) IN
         IF cal.st = "crash" \/ Len(cal.rows) = 0 THEN Crash(st)
         ELSE LET pu == PageUp(c, cal.rows, N, -1, H - 2, H, st.sq) IN
              IF pu.st = "crash" THEN Crash(st) ELSE Redraw(st, pu.es, pu.ls, Len(pu.rows))
    [] key.t \in {"left", "right", "t", "z"} -> Redraw(st, es, ls, st.cur)
    [] key.t = "x" -> Redraw([st EXCEPT !.sq = ~st.sq], es, ls, st.cur)
    [] key.t = "esc" -> Redraw([st EXCEPT !.mark = 0], es, ls, st.cur)
    [] key.t = "mark" -> Redraw([st EXCEPT !.mark = IF st.cur <= n THEN st.rows[st.cur].r ELSE st.mark], es, ls, st.cur)
    [] key.t = "P" -> [st EXCEPT !.mode = "pendP"]
    [] key.t = "p" -> [st EXCEPT !.mode = "pendp"]
    [] key.t = "undo" -> Redraw([st EXCEPT !.ci = Max2(1, st.ci - 1)], es, ls, st.cur)
    [] key.t = "redo" -> Redraw([st EXCEPT !.ci = Min2(Len(st.ch), st.ci + 1)], es, ls, st.cur)
    [] key.t = "interp" -> Redraw(PushCfg(st, c), es, ls, st.cur)
    [] key.t = "f" -> [st EXCEPT !.mode = "filter", !.inlen = 0]
    [] key.t = "help" ->
         IF Dev_F4_HelpNeedsWide /\ ~st.wide THEN Crash(st)
         ELSE [st EXCEPT !.mode = "help", !.hl = 0, !.mark = 0,
                         !.sav = [es |-> es, ls |-> ls, cur |-> st.cur, mark |-> st.mark]]
    [] key.t = "quit" -> [st EXCEPT !.mode = "gone"]
    [] key.t = "resize" -> Redraw([st EXCEPT !.H = key.n], es, ls, Min2(st.cur, key.n))
    [] OTHER -> st

\* update_selected_zones(prio)
SelectZone(st, lvl) ==
  IF st.mark = 0 THEN st
  ELSE LET c == CurCfg(st)
           stop == st.rows[Min2(st.cur, Len(st.rows))].r
           a == IF st.mark = stop THEN (IF PrevS(c, st.mark) = 0 THEN 1 ELSE PrevS(c, st.mark)) ELSE st.mark
           b == IF st.mark = stop THEN (IF NextS(c, stop) = 0 THEN N ELSE NextS(c, stop)) ELSE stop
           nz == [zs |-> Min2(a, b), ze |-> Max2(a, b), p |-> lvl]
       IN [PushCfg(st, [c EXCEPT !.zones = UpdateZones(c.zones, nz)]) EXCEPT !.mark = 0]

PendKey(st, key) ==
  LET es == ES(st)
      ls == LS(st)
  IN CASE key.t = "lvl" ->
            IF st.mode = "pendP"
            THEN Redraw([PushCfg(st, [CurCfg(st) EXCEPT !.zones = << [zs |-> 1, ze |-> -1, p |-> key.n] >>])
                       EXCEPT !.mode = "main"], es, ls, st.cur)
            ELSE Redraw([SelectZone(st, key.n) EXCEPT !.mode = "main"], es, ls, st.cur)
       [] key.t = "esc" -> Redraw([st EXCEPT !.mode = "main", !.mark = 0], es, ls, st.cur)
       [] OTHER -> st

Cols(st) == IF st.wide THEN MaxIn + 1 ELSE MaxIn - 1
FilterKey(st, key) ==
  LET es == ES(st)
      ls == LS(st)
  IN CASE key.t = "ch" ->
            IF Dev_F6_InputOverflow /\ st.inlen + 1 >= Cols(st) THEN Crash(st)
            ELSE [st EXCEPT !.inlen = st.inlen + 1]
       [] key.t = "enter" ->
            IF key.n = -1 THEN st
            ELSE Redraw([PushCfg(st, [CurCfg(st) EXCEPT !.filt = key.n]) EXCEPT !.mode = "main"], es, ls, st.cur)
       [] key.t = "esc" -> Redraw([st EXCEPT !.mode = "main"], es, ls, st.cur)
       [] OTHER -> st

HelpMax(st) == Max2(0, HelpLen - st.H)
HelpKey(st, key) ==
  CASE key.t \in {"quit", "esc"} ->
         Redraw([st EXCEPT !.mode = "main", !.mark = st.sav.mark], st.sav.es, st.sav.ls, st.sav.cur)
    [] key.t = "up" -> [st EXCEPT !.hl = Max2(0, st.hl - 1)]
    [] key.t = "down" -> [st EXCEPT !.hl = Min2(HelpMax(st), st.hl + 1)]
    [] key.t = "home" -> [st EXCEPT !.hl = 0]
    [] key.t = "end" -> IF Dev_F3_HelpEndKey THEN Crash(st) ELSE [st EXCEPT !.hl = HelpMax(st)]
    [] key.t = "ppage" -> [st EXCEPT !.hl = Max2(0, st.hl - (st.H - 2))]
    [] key.t = "npage" -> [st EXCEPT !.hl = Min2(HelpMax(st), st.hl + (st.H - 1))]
    [] key.t = "resize" -> [st EXCEPT !.H = key.n, !.hl = Min2(Max2(0, HelpLen - key.n), st.hl)]
    [] OTHER -> st

Handle(st, key) ==
  CASE st.mode = "main" -> MainKey(st, key)
    [] st.mode \in {"pendP", "pendp"} -> PendKey(st, key)
    [] st.mode = "filter" -> FilterKey(st, key)
    [] st.mode = "help" -> HelpKey(st, key)
    [] OTHER -> st

(* ------------------------------------------------------------------ what the user sees (for the contract) *)
Obs(st) ==
  IF st.mode = "help" THEN [kind |-> "other", rows |-> <<>>, cur |-> 0, other |-> 1, h |-> st.H, w |-> 0]
  ELSE IF st.rows[1].f THEN [kind |-> "none", rows |-> <<>>, cur |-> 0, other |-> 1, h |-> st.H, w |-> 0]
  ELSE [kind |-> "log",
        rows |-> [i \in 1..Len(st.rows) |-> [r |-> st.rows[i].r, l |-> st.rows[i].k, a |-> 0, b |-> 1]],
        cur |-> st.cur, other |-> 0, h |-> st.H, w |-> 0]

\* the number the harness attaches to ENTER: a filter that raises on some record has no documented meaning
EnterArg(f) == IF f >= 1 /\ \E r \in 1..N : log[r].und[f] THEN -2 ELSE f
CKey(key) == IF key.t = "enter" /\ key.n >= 1 THEN [t |-> "enter", n |-> EnterArg(key.n)] ELSE key

NF == Len(log[1].sat)
KeysOf(st) ==
  CASE st.mode = "main" ->
         {[t |-> x, n |-> 0] : x \in {"up", "down", "ppage", "npage", "home", "end", "left", "x", "esc", "mark", "P",
                                      "p", "undo", "redo", "interp", "f", "help", "quit"}}
         \cup {[t |-> "resize", n |-> h] : h \in Heights \ {st.H}}
    [] st.mode \in {"pendP", "pendp"} -> {[t |-> "lvl", n |-> l] : l \in Levels} \cup {[t |-> "esc", n |-> 0]}
    [] st.mode = "filter" ->
         {[t |-> "enter", n |-> f] : f \in (-1)..NF} \cup {[t |-> "esc", n |-> 0]}
         \cup (IF st.inlen < MaxIn THEN {[t |-> "ch", n |-> 0]} ELSE {})
    [] st.mode = "help" ->
         {[t |-> x, n |-> 0] : x \in {"up", "down", "ppage", "npage", "home", "end", "quit", "esc"}}
         \cup {[t |-> "resize", n |-> h] : h \in Heights \ {st.H}}
    [] OTHER -> {}

InitState(l, h, w) ==
  LET c0 == [zones |-> << [zs |-> 1, ze |-> -1, p |-> Prio0] >>, filt |-> 0]
      st0 == [H |-> h, wide |-> w, sq |-> FALSE, ch |-> <<c0>>, ci |-> 1, rows |-> Fallback, cur |-> 1, mark |-> 0,
              mode |-> "main", inlen |-> 0, hl |-> 0, sav |-> [es |-> 1, ls |-> 0, cur |-> 1, mark |-> 0]]
  IN st0

Init == /\ log \in Logs
        /\ \E h \in Heights, w \in Wides :
             \* handle_io: display_entries = calculate_display_entries(0, 0)  (no fill-up before the first key)
             LET st0 == InitState(log, h, w)
                 cal == Calc(CurCfg(st0), 1, 0, h, FALSE)
             IN s = IF cal.st = "crash" \/ Len(cal.rows) = 0 THEN Crash(st0) ELSE [st0 EXCEPT !.rows = cal.rows]
        /\ ctx = InitCtx(log, Prio0, 0)
        /\ verdict = IF s.mode = "crashed" THEN <<"Z", "Z0/crash">> ELSE ScreenVerdict(ELog(FALSE), Cfg(ctx), Obs(s))

Do(key) ==
  /\ s.mode \notin {"gone", "crashed"}
  /\ verdict[1] = "ok"
  /\ key \in KeysOf(s) /\ key.t \in Tokens
  /\ (Len(s.ch) < MaxHist \/ key.t \notin {"lvl", "enter", "interp"})
  /\ s' = Handle(s, key)
  /\ ctx' = StepCtx(log, ctx, CKey(key), Obs(s))
  /\ verdict' = IF s'.mode = "crashed" THEN <<"Z", "Z0/crash">>
                ELSE IF s'.mode = "gone" THEN EndVerdict(ctx', "quit", TRUE)
                ELSE StepVerdict(ELog(s'.sq), ctx, ctx', CKey(key), Obs(s), Obs(s'))
  /\ UNCHANGED log

KUp == Do([t |-> "up", n |-> 0])
KDown == Do([t |-> "down", n |-> 0])
KPageUp == Do([t |-> "ppage", n |-> 0])
KPageDown == Do([t |-> "npage", n |-> 0])
KHome == Do([t |-> "home", n |-> 0])
KEnd == Do([t |-> "end", n |-> 0])
KLeft == Do([t |-> "left", n |-> 0])
KCosmetic == Do([t |-> "x", n |-> 0])
KEsc == Do([t |-> "esc", n |-> 0])
KMark == Do([t |-> "mark", n |-> 0])
KFilePrio == Do([t |-> "P", n |-> 0])
KRangePrio == Do([t |-> "p", n |-> 0])
KLevel == \E l \in Levels : Do([t |-> "lvl", n |-> l])
KUndo == Do([t |-> "undo", n |-> 0])
KRedo == Do([t |-> "redo", n |-> 0])
KInterpret == Do([t |-> "interp", n |-> 0])
KFilter == Do([t |-> "f", n |-> 0])
KType == Do([t |-> "ch", n |-> 0])
KEnter == \E f \in (-1)..2 : Do([t |-> "enter", n |-> f])
KHelp == Do([t |-> "help", n |-> 0])
KQuit == Do([t |-> "quit", n |-> 0])
KResize == \E h \in Heights : Do([t |-> "resize", n |-> h])

Next == \/ KUp \/ KDown \/ KPageUp \/ KPageDown \/ KHome \/ KEnd \/ KLeft \/ KCosmetic \/ KEsc \/ KMark
        \/ KFilePrio \/ KRangePrio \/ KLevel \/ KUndo \/ KRedo \/ KInterpret \/ KFilter \/ KType \/ KEnter
        \/ KHelp \/ KQuit \/ KResize

Spec == Init /\ [][Next]_vars

Depth == TLCGet("level") <= MaxDepth

(* ------------------------------------------------------------------ properties: one invariant per clause family *)
Inv_Z_NoCrash == verdict[1] # "Z"
Inv_V_Screen == verdict[1] # "V"
Inv_M_Motion == verdict[1] # "M"
Inv_H_Help == verdict[1] # "H"
\* clause C: the zones the viewer keeps mean what the keys said (update_zones against the per-record meaning)
Inv_C_Config ==
  (ctx.lvl = "known" /\ s.mode \notin {"crashed"}) =>
     /\ \A r \in 1..N : /\ HasZone(CurCfg(s).zones, r)
                        /\ ZoneOf(CurCfg(s).zones, r).p = Cfg(ctx).thr[r]
     /\ (CurCfg(s).filt = Cfg(ctx).filt)
\* "the zones are always ordered and do not overlap" (docstring of update_zones); empty zones (end < start) that
\* the algorithm leaves behind are ignored
Inv_C_ZonesOrdered ==
  LET zs == CurCfg(s).zones
      NonEmpty(z) == z.ze = -1 \/ z.zs <= z.ze
  IN /\ zs[Len(zs)].ze = -1
     /\ \A i, j \in 1..Len(zs) :
          (i < j /\ NonEmpty(zs[i]) /\ NonEmpty(zs[j])) => (zs[i].ze # -1 /\ zs[i].ze < zs[j].zs)
\* design-level: the screen is full whenever enough qualifying lines exist (documented intent of the fill-up loop)
Inv_D_Full ==
  (s.mode = "main" /\ verdict[1] = "ok" /\ TLCGet("level") > 1 /\ ~s.rows[1].f) =>
     Len(s.rows) = Min2(s.H - 1, Len(Flat(CurCfg(s), s.sq)))
=============================================================================
