----------------------------- MODULE DbReplay -----------------------------
(* DESIGN LAYER of C12 (state machine): a client records a history of
   exchanges into the scan database while tracking the ECU state
   (ECU._request + ECU.update_state + DBHandler.insert_scan_result); other
   runs / ECUs / property sets put rows into the same database; then a fresh
   DBUDSServer is asked the same requests in the same order
   (UDSServerTransport.handle_request -> UDSServer.respond ->
   DBUDSServer.respond_after_default + UDSServer.update_state).

   The rules are the operators of DbReplayRules (transcribed from the code);
   the property is the verdict of DbReplayContract on the observation this
   machine produces.  With all Dev_* FALSE the verdict is "ok" for every
   history; each Dev_* TRUE reproduces one defect of the pinned tree and TLC
   must find a counterexample (negative controls). *)
EXTENDS DbReplayContract, DbReplayRules

CONSTANTS
  Sessions,     \* session ids of the abstract alphabet (1 = default)
  Levels,       \* odd security levels
  Others,       \* keys of "other" requests (reads / writes / routines)
  Variants,     \* payload variants: the same request may get different answers
  MaxLen,       \* longest recorded history
  MaxForeign,   \* rows of other runs in the database
  ForeignRows,  \* the rows other runs may contribute: [g, st, req, rsp]
  Groups,       \* g -> [run, ecu, props]: what the database knows about the run a row belongs to
  Selectors,    \* selections the virtual ECU may be started with
  Export,       \* print every finished behaviour (spec -> code extraction)
  Dev_S18_ResetOnSilentRow,
  Dev_S19_ClientTracksSessionRead,
  Dev_S31_StringPropertyQuoted

VARIABLES
  phase,   \* "rec" | "rep" | "done"
  cState,  \* client tracker (ECU.state)
  rows,    \* scan_result, position = id; light rows [g, st, req, rsp] (see Full)
  tgt,     \* ids of the rows of the recorded run, in order
  sel,     \* selection of the virtual ECU
  srv,     \* replaying server [st, cur]  (UDSServer.state, DBUDSServer.last_response)
  obs,     \* per replayed request [ss, rep, cur]
  vd       \* contract verdict on the observation so far (a function of the other variables;
           \* kept in a variable so that it is evaluated once per state)

vars == <<phase, cState, rows, tgt, sel, srv, obs, vd>>

D == [s18 |-> Dev_S18_ResetOnSilentRow, s19 |-> Dev_S19_ClientTracksSessionRead,
      s31 |-> Dev_S31_StringPropertyQuoted]

----------------------------------------------------------------------------
(* abstract alphabet *)
Pos(v) == <<"pos", v>>
Neg    == <<"neg", 0>>

Requests == {<<"DSC", s>> : s \in Sessions} \cup {<<"Seed", l>> : l \in Levels}
            \cup {<<"Key", l>> : l \in Levels} \cup {<<"Reset", 0>>, <<"RdSess", 0>>}
            \cup {<<"Other", o>> : o \in Others}

Replies(req) ==
  {Neg, NoReply} \cup
  CASE req[1] = "DSC"    -> {Pos(req[2])}
    [] req[1] = "Seed"   -> {Pos(v) : v \in Variants}
    [] req[1] = "Key"    -> {Pos(0)}
    [] req[1] = "Reset"  -> {Pos(0)}
    [] req[1] = "RdSess" -> {Pos(s) : s \in Sessions}
    [] OTHER             -> {Pos(v) : v \in Variants}

EffAbs(req, rsp) ==
  IF rsp = NoReply \/ rsp[1] = "neg" THEN NilEff
  ELSE CASE req[1] = "DSC"    -> Eff("dsc", req[2])
         [] req[1] = "Key"    -> Eff("key", req[2])
         [] req[1] = "Reset"  -> Eff("reset", 0)
         [] req[1] = "RdSess" -> Eff("sread", rsp[2])
         [] OTHER             -> NilEff        \* seed requests (odd type), other services

----------------------------------------------------------------------------
Init ==
  /\ phase = "rec" /\ cState = Default /\ rows = <<>> /\ tgt = <<>>
  /\ sel = NoSel /\ srv = Fresh /\ obs = <<>> /\ vd = <<"ok", "checked", 0>>

(* the row as DbReplayRules sees it: effect of the reply and the run's ecu / properties joined in *)
Full(r)  == [run |-> Groups[r.g].run, st |-> r.st, req |-> r.req, rsp |-> r.rsp, eff |-> EffAbs(r.req, r.rsp),
             ecu |-> Groups[r.g].ecu, props |-> Groups[r.g].props]
FullRows == [i \in 1..Len(rows) |-> Full(rows[i])]

NForeign == Cardinality({i \in 1..Len(rows) : rows[i].g # "tgt"})

(* another run (other ECU name / other properties, or the same ones) logs a row *)
AddForeign ==
  /\ phase = "rec" /\ NForeign < MaxForeign
  /\ \E r \in ForeignRows : rows' = Append(rows, r)
  /\ UNCHANGED <<phase, cState, tgt, sel, srv, obs, vd>>

(* ECU._request: the row carries the state BEFORE the exchange, then update_state
   is applied iff there was a response *)
Record ==
  /\ phase = "rec" /\ Len(tgt) < MaxLen
  /\ \E req \in Requests : \E rsp \in Replies(req) :
       LET e == EffAbs(req, rsp) IN
       /\ rows' = Append(rows, [g |-> "tgt", st |-> cState, req |-> req, rsp |-> rsp])
       /\ tgt' = Append(tgt, Len(rows) + 1)
       /\ cState' = IF rsp = NoReply THEN cState ELSE ClientUpd(cState, e)
  /\ UNCHANGED <<phase, sel, srv, obs, vd>>

(* gallia vecu db ... --ecu / --properties : a fresh server, default state, cursor -1 *)
Begin ==
  /\ phase = "rec" /\ Len(tgt) >= 1
  /\ \E s \in Selectors : sel' = s
  /\ phase' = "rep" /\ srv' = Fresh /\ obs' = <<>>
  /\ UNCHANGED <<cState, rows, tgt, vd>>

(* the observation handed to the contract *)
TargetOnly == [i \in 1..Len(tgt) |-> Full(rows[tgt[i]])]
Reqs       == [i \in 1..Len(tgt) |-> rows[tgt[i]].req]
Isolating  == \A i \in 1..Len(rows) : Selected(Intended, sel, Full(rows[i])) <=> rows[i].g = "tgt"
BaseObs    == IF NForeign = 0 THEN <<>> ELSE Replay(D, TargetOnly, NoSel, Reqs)

XOf(o) == [steps |-> [i \in 1..Len(o) |->
                   [req |-> rows[tgt[i]].req, rec |-> rows[tgt[i]].rsp, rep |-> o[i].rep,
                    cs |-> rows[tgt[i]].st, ss |-> o[i].ss]],
      base |-> [i \in 1..Len(BaseObs) |-> BaseObs[i].rep],
      isolating |-> Isolating,
      oob |-> <<>>]

Hist == [i \in 1..Len(tgt) |-> <<rows[tgt[i]].req, rows[tgt[i]].rsp>>]

(* UDSServerTransport.handle_request for the next request of the recorded sequence *)
Step ==
  /\ phase = "rep"
  /\ LET k == Len(obs) + 1
         n == ServerStep(D, FullRows, sel, srv, rows[tgt[k]].req)
     IN /\ obs' = Append(obs, [ss |-> srv.st, rep |-> n.rep, cur |-> n.cur])
        /\ srv' = [st |-> n.st, cur |-> n.cur]
        /\ phase' = IF k = Len(tgt) THEN "done" ELSE "rep"
        /\ vd' = Verdict(XOf(obs'))
        /\ (k = Len(tgt) /\ Export) => PrintT(<<"B", Hist, obs', sel, NForeign>>)
  /\ UNCHANGED <<cState, rows, tgt, sel>>

Next == AddForeign \/ Record \/ Begin \/ Step
Spec == Init /\ [][Next]_vars

----------------------------------------------------------------------------
V == vd
VerdictIsFunctionOfState == phase = "done" => vd = Verdict(XOf(obs))

Y0_TrackersAgree      == V[1] # LblY0
Y1_RepliesAsRecorded  == V[1] \notin Y1Labels
Y2_IndependentOfOthers == V[1] # LblY2
ContractHolds         == V[1] = "ok"

(* design-level sanity *)
TypeOK ==
  /\ phase \in {"rec", "rep", "done"}
  /\ cState.session \in Sessions /\ cState.level \in Levels \cup {0}
  /\ Len(tgt) <= MaxLen /\ Len(obs) <= Len(tgt)
  /\ srv.cur \in -1..Len(rows)
(* under the intended rules the cursor walks exactly over the recorded rows *)
CursorFollowsRecording ==
  (Isolating /\ ~Dev_S18_ResetOnSilentRow /\ ~Dev_S19_ClientTracksSessionRead /\ ~Dev_S31_StringPropertyQuoted)
     => \A i \in 1..Len(obs) : obs[i].cur = tgt[i]
=============================================================================
