\* X24 negative control: Dev_WaitResurrects
SPECIFICATION Spec
CONSTANTS
  Cases <- MCLifeSmall
  Dev_PingSuppressBit = FALSE
  Dev_ReadSessionReturnsNegative = FALSE
  Dev_DtcMaskConfirmedOnly = FALSE
  Dev_ClearOneGroup = FALSE
  Dev_VinWrongDid = FALSE
  Dev_ConfigDropped = FALSE
  Dev_MissingNotTimeout = FALSE
  Dev_IdentOmitsOutOfRange = FALSE
  Dev_ServiceAcceptsSubFunction = FALSE
  Dev_ClassTableGap = FALSE
  Dev_AsExceptionRaises = FALSE
  Dev_NoTriggerPasses = FALSE
  Dev_MismatchIgnoresNegative = FALSE
  Dev_ResetKeepsSecurity = FALSE
  Dev_JsonBytesRaw = FALSE
  Dev_JsonUnsorted = FALSE
  Dev_SecondStartLeaks = FALSE
  Dev_WaitResurrects = TRUE
  Dev_DieOnTimeout = FALSE
  Dev_DieOnConnErr = FALSE
  Dev_StopLeavesRunning = FALSE
  Dev_StopHoldsMutex = FALSE
  Dev_StopWithoutStartRaises = FALSE
INVARIANT ContractHolds
INVARIANT DoneIsTotal
INVARIANT Progress
PROPERTY Terminates
CHECK_DEADLOCK FALSE
