-------------------------- MODULE Trace_ResetScan --------------------------
(* Code -> spec: validates recorded executions of the real ResetScanner (gallia scan uds reset) against the
   contract layer ResetScanContract.  One initial state per recorded execution; the verdict is total
   ("ok" or the label of the first clause broken). *)
EXTENDS ResetScanContract, Json, IOUtils

Batch == JsonDeserialize(IOEnv.TRACE_FILE)
T == Batch.traces

VARIABLES tid, verdict
tvars == <<tid, verdict>>

CfgOf(x) ==
  [has |-> x.C.has, req |-> ToSet(x.C.req), skipAll |-> ToSet(x.C.skipAll), skip |-> ToSet(x.C.skip),
   check |-> x.C.check, start |-> x.C.start, U |-> 1..127]

\* x.E.tab = << <<session, row>> .. >>, row[sf] = class * 256 + nrc for sf in 1..127
EcuOf(x) ==
  LET tabs == ToSet(x.E.tab)
      dom  == {t[1] : t \in tabs}
      Row(s) == (CHOOSE t \in tabs : t[1] = s)[2]
  IN [dom |-> dom,
      cls |-> [k \in dom \X (1..127) |-> Row(k[1])[k[2]] \div 256],
      nrc |-> [k \in dom \X (1..127) |-> Row(k[1])[k[2]] % 256],
      refuse |-> x.E.refuse]

TInit == tid \in 1..Len(T) /\ verdict = "?"
TNext == /\ verdict = "?"
         /\ verdict' = Verdict(CfgOf(T[tid]), EcuOf(T[tid]), T[tid].ev, T[tid].done)
         /\ tid' = tid
         /\ PrintT(<<"V", T[tid].id, verdict'>>)
         /\ PrintT(<<"U", T[tid].id, Unspecified(CfgOf(T[tid]), EcuOf(T[tid]), T[tid].ev)>>)
TSpec == TInit /\ [][TNext]_tvars
=============================================================================
