SPECIFICATION SimSpec
CONSTANTS
  Logs <- MCLogsSim
  Heights <- MCHeightsSim
  Wides <- MCWide
  Tokens <- MCTokSim
  Levels <- MCLevelsSim
  Prio0 = 7
  MaxHist = 6
  MaxDepth = 40
  HelpLen = 6
  MaxIn = 3
  Dev_F1_StalePageUp = FALSE
  Dev_F2_HiddenMidEntry = FALSE
  Dev_F3_HelpEndKey = FALSE
  Dev_F4_HelpNeedsWide = FALSE
  Dev_F5_FilterRaises = FALSE
  Dev_F6_InputOverflow = FALSE
  Dev_F8_ReflowEmpty = FALSE
  Dev_C1_RedoKept = FALSE
  Dev_M1_PageDownSkips = FALSE
CHECK_DEADLOCK FALSE
INVARIANT Inv_Z_NoCrash
INVARIANT Inv_V_Screen
INVARIANT Inv_M_Motion
INVARIANT Inv_H_Help
INVARIANT Inv_C_Config
