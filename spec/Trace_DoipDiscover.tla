------------------------- MODULE Trace_DoipDiscover -------------------------
(* Code -> spec: validates recorded executions of the real DoIPDiscoverer.main() against the contract layer
   (clauses RA1..RA3, TA1..TA6, T0 of X08).  One initial state per execution, total verdict. *)
EXTENDS DoipDiscoverContract, Json, IOUtils, TLC, SequencesExt

Batch == JsonDeserialize(IOEnv.TRACE_FILE)
T == Batch.traces

VARIABLES tid, verdict
tvars == <<tid, verdict>>

Kind(ev, k) == {ev[i] : i \in {j \in 1..Len(ev) : ev[j].e = k}}
Tgts(lst)   == {lst[i].tgt : i \in 1..Len(lst)}
Uris(lst)   == {[ok |-> lst[i].ok, host |-> lst[i].host, port |-> lst[i].port, src |-> lst[i].src,
                 rat |-> lst[i].rat, ver |-> lst[i].ver] : i \in 1..Len(lst)}

ObsOf(x) ==
  [cfg   |-> x.cfg,
   acc   |-> {<<x.acc[i][1], x.acc[i][2]>> : i \in 1..Len(x.acc)},
   ra    |-> {<<e.rat, e.src>> : e \in {r \in Kind(x.ev, "RA") : r.code = RaSuccess /\ r.dl}},
   reqs  |-> {[src |-> e.src, dst |-> e.dst, d |-> e.d, act |-> e.act] : e \in Kind(x.ev, "Req")},
   acks  |-> {[a |-> e.a, dt |-> e.dt, dl |-> e.dl] : e \in Kind(x.ev, "Ack")},
   nacks |-> {[a |-> e.a, code |-> e.code, dt |-> e.dt, dl |-> e.dl] : e \in Kind(x.ev, "Nack")},
   anss  |-> {[a |-> e.a, to |-> e.to, d |-> e.d, dt |-> e.dt, dl |-> e.dl] : e \in Kind(x.ev, "Ans")},
   repRa |-> {<<x.rep.ra[i].rat, x.rep.ra[i].src>> : i \in 1..Len(x.rep.ra)},
   repValid |-> Tgts(x.rep.valid), repResp |-> Tgts(x.rep.resp), repDb |-> Tgts(x.rep.db),
   repUnreach |-> Tgts(x.rep.unreach), errs |-> ToSet(x.errs),
   uris  |-> Uris(x.rep.ra) \cup Uris(x.rep.valid) \cup Uris(x.rep.resp) \cup Uris(x.rep.db) \cup Uris(x.rep.unreach),
   vers  |-> ToSet(x.vers),
   done  |-> x.done]

TInit == tid \in 1..Len(T) /\ verdict = "?"
TNext == /\ verdict = "?"
         /\ LET O == ObsOf(T[tid]) IN
              /\ verdict' = Verdict(O)
              /\ PrintT(<<"V", T[tid].id, verdict'>>)
              /\ PrintT(<<"U", T[tid].id, Unspecified(O)>>)
         /\ tid' = tid
TSpec == TInit /\ [][TNext]_tvars
=============================================================================
