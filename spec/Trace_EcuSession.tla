--------------------------- MODULE Trace_EcuSession ---------------------------
EXTENDS EcuSessionContract, Json, IOUtils
Batch == JsonDeserialize(IOEnv.TRACE_FILE)
T == Batch.traces
VARIABLES tid, verdict
TInit == tid \in 1..Len(T) /\ verdict = "?"
TNext == /\ verdict = "?" /\ verdict' = Verdict(T[tid].cfg, T[tid].ev) /\ tid' = tid
         /\ PrintT(<<"V", T[tid].id, verdict'>>)
TSpec == TInit /\ [][TNext]_<<tid, verdict>>
=============================================================================
