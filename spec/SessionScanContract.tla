----------------------- MODULE SessionScanContract -----------------------
(* Contract layer of property C09 (gallia `scan uds sessions`), written from the
   STATEMENT of the property, not from the code.  Operators only.

   Statement:
    (S1) "Against any ECU whose session transitions form an arbitrary directed
          graph, the session scan reports exactly the sessions that can be
          entered from the default session by at most `depth` successive
          session changes,"                                             -> G1
    (S2) "each together with a sequence of session changes that really leads
          there,"                                                       -> G2
    (S3) "and it terminates even when the graph has cycles."            -> G4
    (S4) "Sessions listed in the skip option are never requested."      -> G3

   Vocabulary
     E        set of pairs <<from, to>>: DiagnosticSessionControl(to) sent while the
              ECU is in session `from` is answered positively and the ECU is then in
              `to`; every other session change is refused and changes nothing.
     Skip     the sessions of the skip option,   d  the depth option.
     result   the set of sessions the scan reports (SessionsScanner.result).
     rows     the reported <<session, stack>> pairs (session_transition rows):
              records [s |-> session, st |-> sequence of sessions].
     reqs     the sessions requested from the ECU, in order.

   Assumption made explicit (DESIGN.md section 4, C09): ISO 14229-1 lets the default
   session be entered from every session.  A scan has no other way back to its
   starting point, so the clauses are only demanded for graphs in which the
   default session and every session the scan can possibly enter have the edge
   back to the default session (IsoAssumption).  Everything else is reported as
   "outside-assumption", never as a violation.

   S16 (decision): the literal reading of (S4) also forbids requesting the DEFAULT
   session when the user lists it in the skip option.  The statement itself
   measures reachability "from the default session"; (re-)entering that origin is
   not one of the session changes whose target the skip option suppresses, and no
   scan can return to its origin otherwise.  The contract therefore exempts the
   default session from G3 (ExemptDefault = TRUE) and leaves its membership in the
   result unspecified when it is listed in Skip.  G3(.., FALSE) is the literal
   reading; the trace spec reports where the two readings differ (note "S16").
*)
EXTENDS Naturals, Sequences, FiniteSets, TLC

Default == 1

Range(f) == {f[i] : i \in DOMAIN f}

----------------------------------------------------------------------------
(* (S1) sessions that can be entered from the default session by 1..d session
   changes.  A skipped session is never requested (S4), hence never entered: no
   path may lead to or through it.                                          *)
RECURSIVE ReachWithin(_, _, _)
ReachWithin(E, Skip, d) ==
  IF d = 0 THEN {}
  ELSE LET P    == ReachWithin(E, Skip, d - 1)
           From == P \cup {Default}
       IN  P \cup {e[2] : e \in {x \in E : x[1] \in From /\ x[2] \notin Skip}}

IsoAssumption(E, Skip, d) ==
  \A s \in ReachWithin(E, Skip, d) \cup {Default} : <<s, Default>> \in E

(* (S2) the sequence of session changes `seq`, started in session `cur`, is
   accepted change by change by the ECU.                                    *)
RECURSIVE Walk(_, _, _)
Walk(E, cur, seq) ==
  IF seq = <<>> THEN TRUE
  ELSE <<cur, Head(seq)>> \in E /\ Walk(E, Head(seq), Tail(seq))

\* a reported stack leads to `s`: entering the stack's sessions one after the other,
\* starting in the default session, and then `s`, succeeds at every step
LeadsTo(E, stack, s) == Walk(E, Default, Append(stack, s))

----------------------------------------------------------------------------
(* ------------------------------- clauses -------------------------------- *)

\* G1  result = ReachWithin(depth).  With the default session in Skip its membership is
\*     unspecified (it can be entered, but it is listed as not to be probed).
G1_NoneMissing(E, Skip, d, result) == (ReachWithin(E, Skip, d) \ {Default}) \subseteq result
                                      /\ (Default \notin Skip /\ Default \in ReachWithin(E, Skip, d)
                                            => Default \in result)
G1_NoneInvented(E, Skip, d, result) ==
  result \subseteq (ReachWithin(E, Skip, d) \cup (IF Default \in Skip THEN {Default} ELSE {}))
G1(E, Skip, d, result) == G1_NoneMissing(E, Skip, d, result) /\ G1_NoneInvented(E, Skip, d, result)

\* G2  every reported session comes with a stack, and every stack reported for a
\*     reported session really leads there
G2_HasStack(result, rows) == \A s \in result : \E r \in rows : r.s = s
G2_RealPath(E, result, rows) == \A r \in rows : r.s \in result => LeadsTo(E, r.st, r.s)

\* G3  no request for a skipped session (exempt = TRUE: except the default session)
G3(reqs, Skip, exempt) ==
  \A s \in reqs : s \in Skip => (exempt /\ s = Default)

\* G4  termination is observed by the harness (a scan still running after a cap of
\*     requests / a virtual-time horizon is reported as "hang").  Request bound: a
\*     generous multiple of what ANY level-wise search needs -- one probe per
\*     candidate session (NCand) plus re-entering a stack of <= d sessions, for
\*     every walk of < d changes that starts in the default session.
RECURSIVE Walks(_, _, _, _)
Walks(E, Skip, s, k) ==      \* number of walks of 0..k changes starting in s
  IF k = 0 THEN 1
  ELSE 1 + LET Succ == {e[2] : e \in {x \in E : x[1] = s /\ x[2] \notin Skip}}
               Sum[S \in SUBSET Succ] ==
                 IF S = {} THEN 0
                 ELSE LET t == CHOOSE t \in S : TRUE IN Walks(E, Skip, t, k - 1) + Sum[S \ {t}]
           IN  Sum[Succ]
ReqBound(E, Skip, d, NCand) == 8 * (NCand + 1) * (d + 2) * Walks(E, Skip, Default, d - 1)
G4_Bound(E, Skip, d, NCand, nreq) == nreq <= ReqBound(E, Skip, d, NCand)

----------------------------------------------------------------------------
\* Total verdict for one finished or aborted scan ("ok" or the first clause broken).
\*   end \in {"done", "exit", "exc", "hang"}
Verdict(E, Skip, d, NCand, reqs, nreq, result, rows, end) ==
  IF ~IsoAssumption(E, Skip, d) THEN "outside-assumption"
  ELSE IF end = "hang" THEN "G4/does-not-terminate"
  ELSE IF ~G3(reqs, Skip, TRUE) THEN "G3/skipped-session-requested"
  ELSE IF end # "done" THEN "G1/scan-aborted"
  ELSE IF ~G1_NoneInvented(E, Skip, d, result) THEN "G1/reported-but-not-reachable-within-depth"
  ELSE IF ~G1_NoneMissing(E, Skip, d, result) THEN "G1/reachable-within-depth-but-not-reported"
  ELSE IF ~G2_HasStack(result, rows) THEN "G2/session-reported-without-stack"
  ELSE IF ~G2_RealPath(E, result, rows) THEN "G2/reported-stack-does-not-lead-there"
  ELSE IF ~G4_Bound(E, Skip, d, NCand, nreq) THEN "G4/request-bound"
  ELSE "ok"
=============================================================================
