SPECIFICATION Spec
CONSTANTS
  Classes <- AllClasses
  Strict = TRUE
  Dev_S29_AnnotatedFieldsLoseConfigMeta = FALSE
  Dev_S30_PositionalIgnoresDefaults = FALSE
INVARIANT TypeOK
INVARIANT Export
CHECK_DEADLOCK FALSE
