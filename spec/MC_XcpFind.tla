---------------------------- MODULE MC_XcpFind ----------------------------
EXTENDS XcpFind
Ports3 == <<5555, 5556, 6000>>
TcpClasses == {"closed", "xcp", "err", "other", "short", "hdr", "silent", "eof"}
UdpClasses == {"xcp", "err", "other", "short", "hdr", "silent"}
=============================================================================
