----------------------------- MODULE EcuSession -----------------------------
(* Design layer of ECU.check_and_set_session (gallia/services/uds/ecu.py) against an ECU that may
   refuse session changes, may not support the session read, and may fall back to the default
   session on its own (S3 timeout) between any two requests. *)
EXTENDS EcuSessionContract

CONSTANTS Sessions, Expected, Retries, Accepts, ReadMode
\* Accepts: set of sessions the ECU lets us enter; ReadMode \in {"ok","unsupported","timeout","othernr"}

VARIABLES ecu, pc, i, hist
vars == <<ecu, pc, i, hist>>

Init == ecu \in Sessions /\ pc = "read0" /\ i = 0 /\ hist = <<>>

Fallback == /\ pc # "done" /\ ecu # 1 /\ ecu' = 1 /\ UNCHANGED <<pc, i, hist>>

ReadTok == IF ReadMode = "ok" THEN [e |-> "Read", kind |-> "session", s |-> ecu]
           ELSE [e |-> "Read", kind |-> ReadMode, s |-> 0]

Ret(v) == pc' = "done" /\ hist' = hist \o <<ReadTok, [e |-> "Ret", val |-> v]>>

Read ==
  /\ pc \in {"read0", "read"}
  /\ IF ReadMode \in {"unsupported", "timeout"} THEN Ret("True") /\ UNCHANGED i
     ELSE IF ReadMode = "othernr" THEN Ret("Raise") /\ UNCHANGED i
     ELSE IF ecu = Expected THEN Ret("True") /\ UNCHANGED i
     ELSE IF pc = "read" /\ i >= Retries + 1 THEN Ret("False") /\ UNCHANGED i
     ELSE pc' = "dsc" /\ hist' = Append(hist, ReadTok) /\ UNCHANGED i
  /\ UNCHANGED ecu

Dsc ==
  /\ pc = "dsc"
  /\ LET ok == Expected \in Accepts IN
     /\ ecu' = IF ok THEN Expected ELSE ecu
     /\ hist' = Append(hist, [e |-> "Dsc", s |-> Expected, ok |-> ok])
  /\ i' = i + 1 /\ pc' = "read"

Next == Read \/ Dsc \/ Fallback
Spec == Init /\ [][Next]_vars /\ WF_vars(Read \/ Dsc)

Cfg == [expected |-> Expected, retries |-> Retries]
DesignMeetsContract == pc = "done" => Verdict(Cfg, hist) = "ok"
Terminates == <>(pc = "done")
=============================================================================
