SPECIFICATION Spec
CONSTANTS
  Script <- ScriptABA
  MaxRetry = 1
  MaxLate = 0
INVARIANT Y4_AtMostOncePerTransmission
INVARIANT Y2_AcceptedReplyEchoesRequest
INVARIANT Y2_Strict
INVARIANT Y3_NoLossNoMissing
INVARIANT NoStaleMismatch
INVARIANT NoStaleAccept
PROPERTY Terminates
CHECK_DEADLOCK FALSE
