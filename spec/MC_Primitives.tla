---------------------------- MODULE MC_Primitives ----------------------------
EXTENDS Primitives

K(kind, opt, s) == [kind |-> kind, opt |-> opt, session |-> s]

Rmba(a, n)  == [valid |-> TRUE, addr |-> a, size |-> n]
Wmba(a, d)  == [valid |-> TRUE, addr |-> a, data |-> d]
Wdbi(v, did, d) == [valid |-> v, did |-> did, data |-> d]
Rtcl(st, sp, rs, sd, rd) == [valid |-> st \/ sp \/ rs, rid |-> 4660, start |-> st, stop |-> sp, results |-> rs,
                             sp |-> <<170>>, tp |-> <<>>, rp |-> <<187, 204>>, sdelay |-> sd, rdelay |-> rd]
Iocbi(cp, st, mk) == [valid |-> TRUE, did |-> 258, cp |-> cp, state |-> st, mask |-> mk]
DtcRead(m)  == [valid |-> TRUE, mask |-> m]
DtcClear(g) == [valid |-> g >= 0 /\ g <= 16777215, group |-> g]
DtcCtl(a, b) == [valid |-> TRUE, stop |-> a, resume |-> b]
Reset(sf)   == [valid |-> TRUE, sf |-> sf]
Ping(n, iv) == [valid |-> TRUE, count |-> n, interval |-> iv, bg |-> FALSE]
Vin         == [valid |-> TRUE]
DddiId      == [valid |-> TRUE, did |-> 62208, src |-> <<<<4660, 1, 2>>, <<22136, 3, 4>>>>]
DddiMem(f)  == [valid |-> TRUE, did |-> 62208, src |-> <<<<<<18, 52>>, <<1>>>>, <<<<86, 120, 144>>, <<1, 44>>>>>>, fmt |-> f]
DddiClear(d) == [valid |-> TRUE, did |-> d]

\* a: the commands with a session check (check_and_set_session)
CfgsA == {K("rmba", Rmba(<<16, 0>>, <<4>>), s) : s \in {1, 2}}
         \cup {K("rtcl", Rtcl(TRUE, TRUE, TRUE, 1500, 0), 2), K("rtcl", Rtcl(FALSE, TRUE, FALSE, 0, 0), 3),
               K("wmba", Wmba(<<1, 35, 69>>, <<170, 187, 204>>), 3), K("dddimem", DddiMem(0), 2)}
\* b: the commands that only request the session
CfgsB == {K("wdbi", Wdbi(TRUE, 4660, <<1, 2>>), s) : s \in {1, 3}}
         \cup {K("reset", Reset(3), s) : s \in {1, 2}}
         \cup {K("ping", Ping(2, 1000), s) : s \in {0, 2}}
\* c: dtc
CfgsC == {K("dtcread", DtcRead(5), s) : s \in {1, 2}}
         \cup {K("dtcclear", DtcClear(g), 2) : g \in {16777215, 16777216}}
         \cup {K("dtcctl", DtcCtl(a, b), 3) : a, b \in BOOLEAN}
\* d: the rest
CfgsD == {K("iocbi", Iocbi(3, <<170>>, <<255>>), 2), K("iocbi", Iocbi(4, <<170>>, <<>>), 1), K("iocbi", Iocbi(0, <<>>, <<>>), 3),
          K("iocbi", Iocbi(4, <<170>>, <<255>>), 1),
          K("vin", Vin, 0), K("dddiid", DddiId, 2), K("dddiclear", DddiClear(-1), 2), K("dddiclear", DddiClear(62208), 1),
          K("dddimem", DddiMem(36), 3), K("wdbi", Wdbi(FALSE, 1, <<>>), 1), K("rtcl", Rtcl(FALSE, FALSE, FALSE, 0, 0), 1),
          K("rmba", Rmba(<<>>, <<1, 0>>), 2)}
CfgsAll == CfgsA \cup CfgsB \cup CfgsC \cup CfgsD
\* sim: spec -> code
CfgsS == CfgsAll \cup {K("rtcl", Rtcl(st, sp, rs, 2000, 500), s) : st, sp, rs \in BOOLEAN, s \in {1, 3}}
         \cup {K("ping", Ping(n, 500), 3) : n \in 1..3}
         \cup {K("rmba", Rmba(<<255, 255, 255, 255>>, <<2, 0>>), 2), K("dtcread", DtcRead(255), 1)}

DscAll   == {"ok", "neg", "nostick"}
SreadAll == {"ok", "unsup", "sil"}
AnsAll   == {"pos", "neg49", "neg20", "sil"}
AnsCore  == {"pos", "neg51", "sil"}
=============================================================================
