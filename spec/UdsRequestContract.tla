----------------------- MODULE UdsRequestContract -----------------------
(* One UDS client request (gallia.services.uds.core.client.UDSClient.request):
   retry on network faults / busyRepeatRequest, responsePending handling.

   Two layers.
   * Contract layer: Implied(seq, i, R) -- a declarative function from the
     complete sequence of transport calls/events of one request to the SET of
     admissible outcomes, written from the statement of property C04 only.
   * Design layer: a state machine shaped like request_unsafe (one action per
     await point).  TLC checks  design outcome \in Implied(history)  for every
     environment behaviour, plus the write bound and termination.

   Tokens of a call/event sequence (records):
     [e |-> "W"]                      transport.write() was called
     [e |-> "WConnErr"] / "WTimeout"  that write raised
     [e |-> "Timeout", d |-> ms]      a read timed out after d ms
     [e |-> "ConnErr"], "Empty"       a read raised ConnectionError / returned b""
     [e |-> "Busy"], "Pending", "Mismatch", "Malformed", "NegFinal", "PosFinal"
                                      a read returned a reply of that class
*)
EXTENDS Naturals, Sequences, FiniteSets, TLC

(* Limits are intervals taken from the statement, not the code's literals; they
   are passed as a record L so that one batch can hold traces with different
   caller timeouts:
     L.pendTol   a request must survive at least this many responsePending replies
     L.pendEnd   ... and must have ended with an error by this many
     L.silTol    silence (ms) after a pending that must be tolerated
     L.silEnd    silence (ms) after a pending by which the wait must have ended *)

----------------------------------------------------------------------------
(* ---------------------------- contract layer ---------------------------- *)

Reply(k)        == [t |-> "Reply", k |-> k]
Missing(c)      == [t |-> "Missing", cause |-> c]
Illegal(kind,k) == [t |-> "Illegal", kind |-> kind, k |-> k]
Stuck           == [t |-> "Stuck"]

\* outcome decided at position k: nothing may have been consumed afterwards
Decided(s, k, o) == IF k = Len(s) THEN {o} ELSE {}

RECURSIVE Attempt(_,_,_,_,_), Rd(_,_,_,_,_), Pend(_,_,_,_,_,_,_)

\* attempt i (0-based) starts at position k (1-based index into s): must begin with a write
Attempt(L, s, k, i, R) ==
  IF k > Len(s) \/ s[k].e # "W" THEN {}
  ELSE IF k + 1 <= Len(s) /\ s[k+1].e \in {"WConnErr", "WTimeout"}
       THEN LET c == IF s[k+1].e = "WConnErr" THEN "conn" ELSE "none" IN
            IF i < R THEN Attempt(L, s, k+2, i+1, R) ELSE Decided(s, k+1, Missing(c))
       ELSE Rd(L, s, k+1, i, R)

Rd(L, s, k, i, R) ==
  IF k > Len(s) THEN {} ELSE
  LET e == s[k].e IN
  CASE e = "Timeout"              -> IF i < R THEN Attempt(L, s, k+1, i+1, R) ELSE Decided(s, k, Missing("none"))
    [] e \in {"ConnErr", "Empty"} -> IF i < R THEN Attempt(L, s, k+1, i+1, R) ELSE Decided(s, k, Missing("conn"))
    [] e = "Busy"                 -> IF i < R THEN Attempt(L, s, k+1, i+1, R) ELSE Decided(s, k, Reply(k))
    [] e \in {"Mismatch", "Malformed"} -> Decided(s, k, Illegal(e, k))
    [] e \in {"NegFinal", "PosFinal"}  -> Decided(s, k, Reply(k))
    [] e = "Pending"              -> Pend(L, s, k+1, i, R, 1, 0)
    [] OTHER                      -> {}

RetryOrEnd(L, s, k, i, R, cause) ==
  Decided(s, k, Missing(cause)) \cup (IF i < R THEN Attempt(L, s, k+1, i+1, R) ELSE {})

\* np responsePending replies seen so far, silent = ms of silence since the last one
Pend(L, s, k, i, R, np, silent) ==
  IF k > Len(s) THEN {} ELSE
  LET e == s[k].e IN
  CASE e = "Timeout" ->
         LET sl == silent + s[k].d IN
         (IF sl >= L.silTol THEN RetryOrEnd(L, s, k, i, R, "none") ELSE {})
         \cup (IF sl < L.silEnd THEN Pend(L, s, k+1, i, R, np, sl) ELSE {})
    [] e = "Pending" ->
         (IF np + 1 >= L.pendTol THEN Decided(s, k, Stuck) ELSE {})
         \cup (IF np + 1 < L.pendEnd THEN Pend(L, s, k+1, i, R, np + 1, 0) ELSE {})
    [] e \in {"NegFinal", "PosFinal"} -> Decided(s, k, Reply(k))   \* never dropped
    [] e = "Busy" -> Decided(s, k, Reply(k)) \cup (IF i < R THEN Attempt(L, s, k+1, i+1, R) ELSE {})
    [] e \in {"ConnErr", "Empty"} -> RetryOrEnd(L, s, k, i, R, "conn")
    [] e \in {"Mismatch", "Malformed"} -> Decided(s, k, Illegal(e, k))
    [] OTHER -> {}

Implied(L, s, R) == Attempt(L, s, 1, 0, R)

NWrites(s) == Cardinality({k \in 1..Len(s) : s[k].e = "W"})

\* Verdict for one observed execution: "ok" or the label of the first clause broken.
\*   K1 writes <= max_retry+1     K4 outcome implied by the sequence (covers K2,K3,K5)
Verdict(L, s, R, outcome) ==
  IF NWrites(s) > R + 1 THEN "K1/writes<=max_retry+1"
  ELSE IF Len(s) = 0 \/ s[1].e # "W" THEN "K2/first-call-is-a-write"
  ELSE IF outcome \notin Implied(L, s, R) THEN
         IF outcome.t = "Raw" THEN "K4/raw-exception-escaped"
         ELSE IF \E o \in Implied(L, s, R) : o.t = "Reply" /\ outcome.t # "Reply" THEN "K5/reply-in-time-dropped"
         ELSE IF Implied(L, s, R) = {} THEN "K2/call-sequence-not-implied"
         ELSE "K4/outcome-not-implied"
  ELSE "ok"
=============================================================================
