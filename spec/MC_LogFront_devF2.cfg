\* generated once for X19 (see MC_LogFront.tla)
SPECIFICATION Spec
CHECK_DEADLOCK FALSE
CONSTANTS
  Prios = {3, 7}
  EnvVals <- MCEnvAll
  Modes = {"never"}
  Vols = {FALSE}
  Srcs = {"child"}
  Shapes = {"plain"}
  Longs = {FALSE}
  SetupNodes = {"gallia"}
  MaxLog = 2
  MaxSetup = 2
  MaxAdd = 1
  MaxSteps = 5
  KeepHist = FALSE
  Dev_F1_AlwaysNeedsTty = FALSE
  Dev_F2_ToLevelPartial = TRUE
  Dev_F3_VerboseWraps = FALSE
  Dev_NoCleanup = FALSE
  Dev_NoHandlerLevel = FALSE
  Dev_FileLevelFromConsole = FALSE
  Dev_RmLosesLast = FALSE
  Dev_RmKeepsRouting = FALSE
  Dev_AutoIgnoresNoColor = FALSE
  Dev_NeverColours = FALSE
  Dev_VolatileAll = FALSE
  Dev_SetupKeepsLevel = FALSE
INVARIANT Inv_S1
INVARIANT Inv_S2
INVARIANT Inv_S3
INVARIANT Inv_S4
INVARIANT Inv_S6
INVARIANT Inv_E1
INVARIANT Inv_K1
INVARIANT Inv_K2
INVARIANT Inv_K3
INVARIANT Inv_O1
INVARIANT Inv_O3
INVARIANT Inv_R
INVARIANT Inv_Ok
INVARIANT Inv_V
INVARIANT Inv_V3
INVARIANT Inv_M
INVARIANT Inv_K1pair
