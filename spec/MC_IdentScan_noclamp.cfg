SPECIFICATION Spec
CONSTANTS
  ModelSessions = {1, 2}
  Window <- WinC
  AbnIds = {126}
  DropIds = {}
  Cfgs <- CfgsC
  Dev_EndExclusive = FALSE
  Dev_CountNegatives = FALSE
  Dev_LittleEndian = FALSE
  Dev_NoClamp27 = TRUE
INVARIANT TypeOK
INVARIANT M0_Model
INVARIANT I3_Session
INVARIANT I2_Iso
INVARIANT I2_Asked
INVARIANT I4_Counted
INVARIANT I1_Counter
INVARIANT VerdictOk
PROPERTY Terminates
CHECK_DEADLOCK FALSE
