------------------------- MODULE ConfigPrecedence -------------------------
(* Design layer of the option resolution as gallia implements it, one action
   per step of the code path

     cli/gallia._create_parser_from_command
        CONFIG_TYPE.attributes_from_config(config)        FromConfig
        CONFIG_TYPE.attributes_from_env()                 FromEnv
        config_attributes.update(env_attributes)          Merge
     pydantic_argparse ArgumentParser._add_model
        field.extra_default, arg_default(), arg_required()  AddArgument
     ArgumentParser.parse_args                            ParseArgs
     _NestedArgumentParser.validate / _validation_error   Validate

   checked by TLC against the contract layer (ConfigPrecedenceContract) for
   every structural option class x presence combination x validity pattern.

   An option class is a record
     kind       : "scalar" | "bool" | "const" | "container"
     annot      : the annotation is a top-level Annotated[...] (AutoInt, HexBytes,
                  Ranges, Ranges2D, EnumArg[..], Idempotent[TargetURI], ...)
     meta       : declared with gallia's Field() (config metadata)
     fileKey    : the declaring class / field names a config section
     positional : positional command-line argument
     hasDefault : a built-in default exists
*)
EXTENDS ConfigPrecedenceContract

CONSTANTS
  Classes,                                  \* set of option classes to enumerate
  Strict,                                   \* contract reading for positionals
  Dev_S29_AnnotatedFieldsLoseConfigMeta,    \* as found with pydantic >= 2.12
  Dev_S30_PositionalIgnoresDefaults         \* as found: arg_default()/arg_required()

VARIABLES pc, cls, present, valid, fileAttr, envAttr, extra, argDefault, argRequired, ns, out

vars == <<pc, cls, present, valid, fileAttr, envAttr, extra, argDefault, argRequired, ns, out>>

None == [src |-> "none", v |-> -1]
Ext  == {"cli", "env", "file"}

\* value ids of the design model: every source holds its own distinct value
ValOf(s, ok) == IF ok THEN Rank(s) ELSE 0

\* the case in the vocabulary of the contract
Applies(k) == {"cli", "default"} \cup (IF k.meta THEN {"env"} ELSE {})
                                 \cup (IF k.meta /\ k.fileKey THEN {"file"} ELSE {})
CaseOf == [present    |-> present \cup (IF cls.hasDefault THEN {"default"} ELSE {}),
           applies    |-> Applies(cls),
           val        |-> [s \in Src |-> IF s = "default" THEN (IF cls.hasDefault THEN 4 ELSE -1)
                                         ELSE IF s \in present THEN ValOf(s, valid[s]) ELSE -1],
           positional |-> cls.positional]

\* what the code can see of the declaration after pydantic built the model
HasMeta == cls.meta /\ ~(Dev_S29_AnnotatedFieldsLoseConfigMeta /\ cls.annot)
\* with the metadata the positional flag is lost as well: the option becomes --name
IsPositional == cls.positional /\ HasMeta

Init ==
  /\ cls \in Classes
  /\ present \in SUBSET Ext
  /\ valid \in [Ext -> BOOLEAN]
  /\ \A s \in Ext : s \notin present => valid[s]             \* canonical form
  /\ (cls.kind = "bool" => valid["cli"])                     \* --x / --no-x cannot be malformed
  /\ pc = "FromConfig"
  /\ fileAttr = None /\ envAttr = None /\ extra = None /\ argDefault = None
  /\ argRequired = FALSE /\ ns = None /\ out = [t |-> "none"]

FromConfig ==
  /\ pc = "FromConfig" /\ pc' = "FromEnv"
  /\ fileAttr' = IF HasMeta /\ cls.fileKey /\ "file" \in present
                 THEN [src |-> "file", v |-> ValOf("file", valid["file"])] ELSE None
  /\ UNCHANGED <<cls, present, valid, envAttr, extra, argDefault, argRequired, ns, out>>

FromEnv ==
  /\ pc = "FromEnv" /\ pc' = "Merge"
  /\ envAttr' = IF HasMeta /\ "env" \in present
                THEN [src |-> "env", v |-> ValOf("env", valid["env"])] ELSE None
  /\ UNCHANGED <<cls, present, valid, fileAttr, extra, argDefault, argRequired, ns, out>>

Merge ==   \* config_attributes.update(env_attributes): the environment overrides the file
  /\ pc = "Merge" /\ pc' = "AddArgument"
  /\ extra' = IF envAttr # None THEN envAttr ELSE fileAttr
  /\ UNCHANGED <<cls, present, valid, fileAttr, envAttr, argDefault, argRequired, ns, out>>

AddArgument ==
  /\ pc = "AddArgument" /\ pc' = "ParseArgs"
  /\ IF IsPositional /\ Dev_S30_PositionalIgnoresDefaults
     THEN argDefault' = None /\ argRequired' = TRUE          \* arg_default() = {} ; argparse positional
     ELSE /\ argDefault' = extra
          /\ argRequired' = ((~cls.hasDefault) /\ extra = None)
  /\ UNCHANGED <<cls, present, valid, fileAttr, envAttr, extra, ns, out>>

ParseArgs ==
  /\ pc = "ParseArgs"
  /\ IF "cli" \in present
     THEN /\ ns' = [src |-> "cli", v |-> ValOf("cli", valid["cli"])]
          /\ pc' = "Validate" /\ UNCHANGED out
     ELSE IF argDefault # None
     THEN ns' = argDefault /\ pc' = "Validate" /\ UNCHANGED out
     ELSE IF argRequired
     THEN \* argparse: "the following arguments are required: --name"
          /\ out' = Error({"cli"}) /\ pc' = "Done" /\ UNCHANGED ns
     ELSE ns' = None /\ pc' = "Validate" /\ UNCHANGED out
  /\ UNCHANGED <<cls, present, valid, fileAttr, envAttr, extra, argDefault, argRequired>>

Validate ==
  /\ pc = "Validate" /\ pc' = "Done"
  /\ out' = IF ns = None THEN Value(4)                                  \* pydantic default
            ELSE IF ns.v > 0 THEN Value(ns.v)
            ELSE \* _validation_error: input equal to the extra default => its description
                 IF extra # None /\ ns = extra THEN Error({extra.src}) ELSE Error({"cli"})
  /\ UNCHANGED <<cls, present, valid, fileAttr, envAttr, extra, argDefault, argRequired, ns>>

Next == FromConfig \/ FromEnv \/ Merge \/ AddArgument \/ ParseArgs \/ Validate

Spec == Init /\ [][Next]_vars /\ WF_vars(Next)

----------------------------------------------------------------------------
(* properties *)
TypeOK == /\ pc \in {"FromConfig", "FromEnv", "Merge", "AddArgument", "ParseArgs", "Validate", "Done"}
          /\ present \subseteq Ext

Q12_Contract   == pc = "Done" => Verdict(CaseOf, out, Strict) = "ok"
\* the two halves separately so that TLC names the broken clause
Q1_Effective   == pc = "Done" /\ out.t = "value" =>
                    LET f == FirstOf(CaseOf.present \cap CaseOf.applies) IN f # "none" /\ out.id = CaseOf.val[f]
Q2_NotIgnored  == pc = "Done" /\ out.t = "value" =>
                    LET f == FirstOf(CaseOf.present \cap CaseOf.applies) IN f # "none" /\ CaseOf.val[f] # 0
Q2_NamesSource == pc = "Done" /\ out.t = "error" /\ (Strict \/ ~cls.positional \/ "cli" \in present) =>
                    LET f == FirstOf(CaseOf.present \cap CaseOf.applies) IN
                    f = "none" \/ (CaseOf.val[f] = 0 /\ f \in out.named)
Terminates     == <>(pc = "Done")

\* export of the expected outcome per case (spec -> code); evaluated in Done states
Export == pc = "Done" =>
            PrintT(<<"CASE", cls, [s \in Ext |-> IF s \in present THEN (IF valid[s] THEN 1 ELSE 0) ELSE -1], out>>)
=============================================================================
