------------------------- MODULE PduFuzzContract -------------------------
(* Growth item X09, contract layer (operators only): the UDS PDU fuzzer `gallia fuzz uds pdu`
   (first part) and the request construction of two primitive commands (second part, at the end).

   STATEMENT (growth/X09.json):
     "For every configured data identifier and session the PDU fuzzer enters the session and sends `iterations`
      requests made of the configured service id (RoutineControl: startRoutine), the identifier, the static
      prefix and a random payload of min_length..max_length bytes, in that session only, skipping a session
      the ECU refuses to enter.  The per-session statistics it prints (positive replies, one line per negative
      response code, timeouts, illegal replies) account for every iteration once and equal what the ECU really
      answered.  A timeout, a mismatching or malformed reply or a lost connection is counted and the run
      continues to its end; the run terminates."

   SOURCES, clause by clause (documented behaviour only):
   (P1) request shape.  Help texts of gallia/commands/fuzz/uds/pdu.py: service "Service ID to create payload
        for ... currently supported: 0x2e WriteDataByIdentifier, 0x31 RoutineControl (startRoutine)"; dids
        "data identifiers to fuzz"; prefixed_payload "static payload, which precedes the fuzzed payload";
        max_length / min_length "maximum / minimum length of the payload".  Layouts from ISO 14229-1:
        2E hi lo data.. ; 31 sf hi lo data.. with sf 01 = startRoutine.
   (P2) in the announced session only.  Help text sessions "Set list of sessions to be tested; 0x01 if
        None"; log records "Switching to session 0x..", "Starting scan in session: 0x..", "Scan in session
        0x.. is complete!", "Leaving session 0x.. via hook".
   (P3) refused session is skipped.  Log message "Switching to session 0x.. failed: .." (warning) followed
        by `continue`.
   (P4) statistics.  Result records "<NRC name>: n", "Positive replies: n", "Timeouts: n", "Illegal
        replies: n", "Flow control frames missing: n" after "Scan in session .. is complete!"; help text
        iterations "number of iterations"; handlers `except TimeoutError` ("Retries exceeded"),
        `except IllegalResponse`, `except ConnectionError` each increment one counter.
   (P5) every (identifier, session) pair is fuzzed.  Help texts of dids / sessions, see P2.
   (P6) faults do not end the run; the run terminates.  The three dedicated exception handlers around
        the request (they log and count; the loop goes on), "isotp flow control frame missing.
        Reconnecting…" + reconnect.

   NOT demanded (sources silent; every outcome accepted, counted as "unspecified" by the trace spec):
     order of identifiers / sessions / payload bytes; retries (how many, when); what happens when the ECU
     does not answer DiagnosticSessionControl / ECUReset / TesterPresent, when a new connection is refused,
     when min_length > max_length; busyRepeatRequest / responsePending answers (resolved inside the UDS client,
     property C04): blocks containing them are not compared; whether fuzzing goes on in the wanted session
     after the ECU fell back to its default session BY ITSELF (the command documents no session check);
     the "Flow control frames missing" counter beyond being part of the total.

   Configuration C (denotation of the option strings):
     C.svc (46 | 49), C.dids, C.sessions (sets), C.min, C.max, C.iter, C.prefix (sequence of bytes)
   Events (ECU side and the command's result records interleaved, in the order they happened):
     [k |-> "q", t, c, p, r, nrc, fb, ib]   request p reached the ECU on connection c in ground-truth session t;
                      r = "pos" | "neg" (code nrc) | "sil" (never answered) | "mis" | "mal" | "drop" (connection
                      closed instead of an answer); fb / ib: the ECU fell back to its default session by itself
                      after / before this request
     [k |-> "start", s]  [k |-> "end", s]    "Starting scan in session s" / "Scan in session s is complete!"
     [k |-> "pos", n] [k |-> "tmo", n] [k |-> "ill", n] [k |-> "fc", n] [k |-> "nrc", code, n]   statistics  *)
EXTENDS Naturals, Integers, Sequences, FiniteSets, SequencesExt, TLC

WDBI == 46
RC   == 49
BUSY == {33, 120}     \* busyRepeatRequest, requestCorrectlyReceived-ResponsePending (ISO 14229-1)

HdrLen(C) == IF C.svc = RC THEN 4 ELSE 3
DecDid(C, p) == IF C.svc = RC THEN p[3] * 256 + p[4] ELSE p[2] * 256 + p[3]

WellFormed(C, p) ==
  /\ Len(p) >= HdrLen(C) + Len(C.prefix) + C.min
  /\ Len(p) <= HdrLen(C) + Len(C.prefix) + C.max
  /\ DecDid(C, p) \in C.dids
  /\ (C.svc = RC => p[2] = 1)                                        \* startRoutine
  /\ SubSeq(p, HdrLen(C) + 1, HdrLen(C) + Len(C.prefix)) = C.prefix

CfgValid(C) == C.min <= C.max /\ \A d \in C.dids : d <= 65535

IsFuzz(C, e) == e.k = "q" /\ e.p[1] = C.svc
IsDsc(e)     == e.k = "q" /\ Len(e.p) = 2 /\ e.p[1] = 16
IsMgmt(C, e) == e.k = "q" /\ e.p[1] # C.svc

\* ---- accumulator over the events
NoRep == [pos |-> <<>>, tmo |-> <<>>, ill |-> <<>>, fc |-> <<>>, nrc |-> <<>>]
NoBlk == [pos |-> 0, negs |-> <<>>, ill |-> 0, sil |-> 0, drop |-> 0, dids |-> {}, busy |-> FALSE]

A0 == [stage |-> "idle",      \* "idle" | "open" (after start) | "stats" (after end)
       cl |-> 0,              \* announced session of the current block
       fell |-> FALSE,        \* the ECU left the session by itself within the open block
       dsc |-> <<0, FALSE>>,  \* target and outcome of the most recent DiagnosticSessionControl at the ECU
       blk |-> NoBlk, rep |-> NoRep,
       pairs |-> {}, refused |-> {}, nblocks |-> 0, unspec |-> 0,
       p1 |-> {}, p2 |-> {}, p3 |-> {}, p4 |-> {}, p7 |-> {}]

Count(seq, x) == Cardinality({i \in DOMAIN seq : seq[i] = x})
SumSeq(seq) == FoldLeft(LAMBDA a, b : a + b, 0, seq)
One(seq) == IF Len(seq) = 1 THEN seq[1] ELSE -1

\* evaluate the statistics of the block that has been closed by "end" (clause P4)
StatsProblems(C, a) ==
  LET b == a.blk
      r == a.rep
      pos == One(r.pos)  tmo == One(r.tmo)  ill == One(r.ill)
      fc  == IF r.fc = <<>> THEN 0 ELSE One(r.fc)
      nsum == SumSeq([i \in DOMAIN r.nrc |-> r.nrc[i][2]])
      codes == {r.nrc[i][1] : i \in DOMAIN r.nrc} \cup {b.negs[i] : i \in DOMAIN b.negs}
      RepOf(c) == SumSeq([i \in DOMAIN r.nrc |-> IF r.nrc[i][1] = c THEN r.nrc[i][2] ELSE 0])
  IN IF pos < 0 \/ tmo < 0 \/ ill < 0 \/ fc < 0
       THEN {<<"P4/statistics-record-missing-or-repeated", a.cl>>}
     ELSE IF b.busy THEN {}
     ELSE (IF pos + tmo + ill + fc + nsum # C.iter * Cardinality(b.dids)
             THEN {<<"P4/statistics-do-not-account-for-every-iteration-once", a.cl>>} ELSE {})
          \cup (IF pos # b.pos THEN {<<"P4/positive-count-differs-from-the-ecu", a.cl>>} ELSE {})
          \cup (IF \E c \in codes : RepOf(c) # Count(b.negs, c)
                  THEN {<<"P4/negative-response-counts-differ-from-the-ecu", a.cl>>} ELSE {})
          \cup (IF ill # b.ill THEN {<<"P4/illegal-reply-count-differs-from-the-ecu", a.cl>>} ELSE {})
          \cup (IF tmo > b.sil + b.drop THEN {<<"P4/more-timeouts-than-unanswered-requests", a.cl>>} ELSE {})

Close(C, a) ==
  IF a.stage = "stats"
  THEN [a EXCEPT !.p4 = @ \cup StatsProblems(C, a), !.stage = "idle", !.blk = NoBlk, !.rep = NoRep,
                 !.unspec = IF a.blk.busy THEN @ + 1 ELSE @]
  ELSE a

Step(C, a0, e) ==
  CASE e.k = "start" ->
         LET a == Close(C, a0) IN
         [a EXCEPT !.stage = "open", !.cl = e.s, !.fell = FALSE, !.blk = NoBlk, !.rep = NoRep,
                   !.nblocks = @ + 1,
                   !.p7 = IF a.stage = "open" THEN @ \cup {<<"start", e.s>>} ELSE @,
                   !.p2 = IF e.s \notin C.sessions THEN @ \cup {<<"not-configured", e.s, 0>>} ELSE @,
                   !.p3 = IF a.dsc = <<e.s, FALSE>> THEN @ \cup {e.s} ELSE @]
    [] e.k = "end" ->
         [a0 EXCEPT !.stage = "stats",
                    !.p7 = IF a0.stage # "open" \/ e.s # a0.cl THEN @ \cup {<<"end", e.s>>} ELSE @]
    [] e.k \in {"pos", "tmo", "ill", "fc"} ->
         IF a0.stage # "stats" THEN [a0 EXCEPT !.p7 = @ \cup {<<e.k, e.n>>}]
         ELSE [a0 EXCEPT !.rep[e.k] = Append(@, e.n)]
    [] e.k = "nrc" ->
         IF a0.stage # "stats" THEN [a0 EXCEPT !.p7 = @ \cup {<<"nrc", e.code>>}]
         ELSE [a0 EXCEPT !.rep.nrc = Append(@, <<e.code, e.n>>)]
    [] e.k = "q" ->
         IF IsFuzz(C, e) THEN
           IF Len(e.p) < HdrLen(C) \/ ~WellFormed(C, e.p) THEN [a0 EXCEPT !.p1 = @ \cup {e.p}]
           ELSE IF a0.stage # "open" THEN [a0 EXCEPT !.p2 = @ \cup {<<"outside", 0, e.t>>}]
           ELSE LET fell == a0.fell \/ e.ib IN
                [a0 EXCEPT
                   !.p2 = IF e.t # a0.cl /\ ~fell THEN @ \cup {<<"wrong-session", a0.cl, e.t>>} ELSE @,
                   !.unspec = IF e.t # a0.cl /\ fell THEN @ + 1 ELSE @,
                   !.fell = fell \/ e.fb,
                   !.pairs = @ \cup {<<DecDid(C, e.p), a0.cl>>},
                   !.blk = [@ EXCEPT !.dids = @ \cup {DecDid(C, e.p)},
                                     !.pos  = IF e.r = "pos" THEN @ + 1 ELSE @,
                                     !.negs = IF e.r = "neg" THEN Append(@, e.nrc) ELSE @,
                                     !.ill  = IF e.r \in {"mis", "mal"} THEN @ + 1 ELSE @,
                                     !.sil  = IF e.r = "sil" THEN @ + 1 ELSE @,
                                     !.drop = IF e.r = "drop" THEN @ + 1 ELSE @,
                                     !.busy = @ \/ (e.r = "neg" /\ e.nrc \in BUSY)]]
         ELSE IF IsDsc(e) THEN
           [a0 EXCEPT !.dsc = <<e.p[2] % 128, e.r = "pos">>,
                      !.refused = IF e.r = "neg" THEN @ \cup {e.p[2] % 128} ELSE @]
         ELSE a0
    [] OTHER -> a0

Acc(C, ev) == Close(C, FoldLeft(LAMBDA a, e : Step(C, a, e), A0, ev))

\* the sources speak about this execution at all (P6): every management request was answered, every
\* connection attempt accepted, the configuration makes sense
Specified(C, ev, refusedConnections) ==
  /\ CfgValid(C)
  /\ refusedConnections = 0
  /\ \A i \in DOMAIN ev : IsMgmt(C, ev[i]) => ev[i].r \in {"pos", "neg"}

P1_Shape(a)      == a.p1 = {}
P2_InSession(a)  == a.p2 = {}
P3_Skipped(a)    == a.p3 = {}
P4_Stats(a)      == a.p4 = {}
P7_Structure(a)  == a.p7 = {}
P5_AllPairs(C, a) == \A d \in C.dids : \A s \in C.sessions :
                        C.iter = 0 \/ <<d, s>> \in a.pairs \/ s \in a.refused

FirstLabel(S) == (CHOOSE x \in S : TRUE)[1]

Verdict(C, ev, done, refusedConnections) ==
  LET a == Acc(C, ev) IN
  IF done = "hang"              THEN "P6/run-does-not-terminate"
  ELSE IF ~CfgValid(C)          THEN "ok"
  ELSE IF ~P1_Shape(a)          THEN "P1/request-not-of-the-configured-shape"
  ELSE IF ~P3_Skipped(a)        THEN "P3/scan-started-in-a-session-the-ecu-refused"
  ELSE IF ~P2_InSession(a)      THEN "P2/fuzz-request-outside-the-announced-session"
  ELSE IF ~P7_Structure(a)      THEN "P4/statistics-records-out-of-place"
  ELSE IF ~P4_Stats(a)          THEN FirstLabel(a.p4)
  ELSE IF done # "ok" /\ Specified(C, ev, refusedConnections)
                                THEN "P6/a-counted-fault-ended-the-run"
  ELSE IF done = "ok" /\ a.stage # "idle" THEN "P4/statistics-records-out-of-place"
  ELSE IF done = "ok" /\ ~P5_AllPairs(C, a) THEN "P5/identifier-session-pair-not-fuzzed"
  ELSE "ok"

Unspecified(C, ev, done, refusedConnections) ==
  LET a == Acc(C, ev) IN
  a.unspec + (IF ~CfgValid(C) THEN 1 ELSE 0)
           + (IF done # "ok" /\ done # "hang" /\ ~Specified(C, ev, refusedConnections) THEN 1 ELSE 0)

-----------------------------------------------------------------------------
(* SECOND PART: request construction of two primitive commands.

   STATEMENT: "`primitive uds rdbi` sends ReadDataByIdentifier for exactly the given data identifier and
   `primitive uds pdu` sends exactly the given bytes, once, in the session given by --session; when the ECU
   refuses that session the request is not sent and the command fails."

   SOURCES: rdbi.py help texts data_identifier "The data identifier", session "set session perform test in"
   (default 0x01), handler `except Exception: logger.critical("fatal error: ..."); sys.exit(1)` around the
   session switch; pdu.py help texts pdu "The raw pdu to send to the ECU", session "Change to this session
   prior to sending the pdu", `raise_for_error(resp)` after the session switch.  ISO 14229-1: 22 hi lo.

   Trace: X.kind ("rdbi" | "pdu"), X.want (the request bytes the options denote), X.session (0 = none
   given), X.ev (q events as above), X.done ("ok" or how the command ended).
   NOT demanded: retries of an unanswered request (the same bytes may reach the ECU several times),
   what is printed, the exit status after a negative response to the request itself.            *)

IsWant(X, e) == e.k = "q" /\ e.p = X.want
\* requests of the wanted service id that are not the wanted request (a mangled request)
IsMangled(X, e) == e.k = "q" /\ e.p[1] = X.want[1] /\ e.p # X.want

PrimRefused(X) == X.session # 0 /\ \E i \in DOMAIN X.ev :
                     /\ IsDsc(X.ev[i]) /\ X.ev[i].p[2] % 128 = X.session /\ X.ev[i].r = "neg"
                     /\ ~\E j \in (i + 1)..Len(X.ev) : IsDsc(X.ev[j]) /\ X.ev[j].p[2] % 128 = X.session
                                                       /\ X.ev[j].r = "pos"
PrimAnswered(X) == \A i \in DOMAIN X.ev : X.ev[i].k = "q" => X.ev[i].r \in {"pos", "neg"}

PrimVerdict(X) ==
  IF X.done = "hang" THEN "R0/command-does-not-terminate"
  ELSE IF \E i \in DOMAIN X.ev : IsMangled(X, X.ev[i]) THEN "R1/request-differs-from-the-given-one"
  ELSE IF PrimRefused(X) /\ \E i \in DOMAIN X.ev : IsWant(X, X.ev[i])
       THEN "R3/request-sent-although-the-session-was-refused"
  ELSE IF PrimRefused(X) /\ X.done = "ok" THEN "R3/refused-session-not-reported-as-failure"
  ELSE IF X.session # 0 /\ \E i \in DOMAIN X.ev : IsWant(X, X.ev[i]) /\ X.ev[i].t # X.session
       THEN "R2/request-sent-in-another-session"
  ELSE IF ~PrimRefused(X) /\ PrimAnswered(X) /\ Cardinality({i \in DOMAIN X.ev : IsWant(X, X.ev[i])}) # 1
       THEN "R1/request-not-sent-exactly-once"
  ELSE "ok"
=============================================================================
