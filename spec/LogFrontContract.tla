--------------------------- MODULE LogFrontContract ---------------------------
(* Growth item X19 -- the logging FRONT END of gallia (everything of
   gallia.log / gallia.utils / gallia.cli.hr that property C17 does not cover:
   C17 = what is written to the compressed log is read back exactly).

   Contract layer: operators only, written from DOCUMENTED behaviour.  Sources
   of every clause (file: quoted text):

   M1-M5  log.py, docstring of Loglevel ("wrapper around the constants exposed
          by python's logging module ... NOTICE was added to conform better to
          RFC3164. Subsequently, TRACE was added"), docstring of PenlogPriority
          ("These values conform to RFC3164 with the addition of TRACE"),
          from_str ("numeric value (0 to 8 inclusive) or a string with a case
          insensitive name of the level"), from_level / to_level ("Converts an
          instance of PenlogPriority to Loglevel"); docs/env.md ("the int values
          from 0 to 7 can be used").
   V1-V3  command/base.py, help of --verbose ("Increase verbosity of the console
          log (0: INFO, 1: DEBUG, 2: TRACE)"), help of --trace-log ("set the
          loglevel of the logfile to TRACE"), docs/logging.md ("The logfile is
          created with loglevel DEBUG; ... TRACE can be enabled with the setting
          trace_log"); utils.get_file_log_level (`verbose >= 2`: the author's
          reading of counts above 2).
   E1     log.py, setup_logging docstring (":param level: The loglevel to enable
          for the console handler. If this argument is None, the env variable
          GALLIA_LOGLEVEL is read"), docs/env.md (supported values).
   S1-S6  setup_logging docstring (level = "loglevel to enable for the console
          handler"), comment in setup_logging ("Clean up potentially existing
          handlers and create a new async QueueHandler for stderr output"),
          add_zst_log_handler(file_log_level), docstring + comment of
          remove_zst_log_handler ("removes the handler from the specified logger
          and closes it" / "otherwise it would still receive log messages"),
          comment in BaseCommand.entry_point ("to avoid memory leaks and
          cross-talking log files"), docs/logging.md (console level and logfile
          level are separate settings).
   K1-K4  log.py, ColorMode docstrings (ALWAYS "Colors are always turned on",
          AUTO "Colors are turned off if the target stream (e.g. stderr) is not
          a tty", NEVER "No colors are used. In other words, no ANSI escape
          codes are included"), resolve_color_mode(":param stream: Used as a
          reference for ColorMode.AUTO"), docs/env.md (NO_COLOR: "If this
          variable is set, gallia by default does not use color codes"),
          hr --color help ("when to use terminal colors").
   O1-O3  help of --volatile-info ("Overwrite log lines with level info or lower
          in terminal output"), comment in _format_record ("Adapt length to
          invisible ANSI colors").
   R2-R5, H0-H3  docs/logging.md ("Logfiles can be displayed with the hr tool",
          "The generic interface which represents a logrecord is PenlogRecord":
          fields module, data, datetime, priority, tags, stacktrace), console and
          hr share _format_record; PenlogRecord.parse_json strips the "<prio>"
          prefix; base.py "stack trace on debug level".

   Where these sources are silent EVERY outcome is accepted (counted in `un`):
   anything logged before the first setup_logging ("undefined state"), records
   of loggers outside the configured logger's namespace, two console handlers
   covering one logger, the file handler after a later setup_logging on the same
   logger, Logger.result (level / tag undocumented), GALLIA_LOGLEVEL unset or
   undocumented, whether CRITICAL shows at thresholds 0/1, the layout of
   multi-line / stack-trace records in volatile mode, RESET codes and the erase
   -line code of volatile mode with colours off, -v < 0, what a terminal narrower
   than the line prefix shows.

   Priorities are RFC 3164 severities 0..8 (smaller = more severe, 8 = trace).   *)
EXTENDS Integers, Sequences, FiniteSets, TLC

Nodes == {"root", "gallia"}
\* a handler installed on `node` sees the records of logger `src`
Covers(node, src) == node = "root" \/ src \in {"gallia", "child"}

Sev == [CRITICAL |-> 2, ERROR |-> 3, WARNING |-> 4, NOTICE |-> 5, INFO |-> 6, DEBUG |-> 7, TRACE |-> 8]
StdPy == [CRITICAL |-> 50, ERROR |-> 40, WARNING |-> 30, INFO |-> 20, DEBUG |-> 10]
LevelNames == DOMAIN Sev
Abs(x) == IF x < 0 THEN -x ELSE x

ColourExpected(mode, tty, nocolor) ==
  CASE mode = "always" -> "on"
    [] mode = "never" -> "off"
    [] OTHER -> IF tty /\ ~nocolor THEN "on" ELSE "off"

----------------------------------------------------------------------------
(* ------------------------- one rendered record --------------------------- *)
(* e: what was logged  [prio, shape, eh, em, es, ems]   shape in plain | tags |
      multi | exc | result
   k: what was printed [sgr (colour codes), rst (reset codes), esc (other escape
      sequences), whole (message text complete), name, tags, trace, end (nl | cr
      | none | other: what follows the message), vis (visible width), th, tm,
      tsec, tms (-1: absent)]                                                  *)
TsBad(e, k) == \/ k.th # e.eh \/ k.tm # e.em \/ k.tsec # e.es
               \/ (k.tms # -1 /\ Abs(k.tms - e.ems) > 1)

ChunkVerdict(color, vol, cols, e, k) ==
  LET volatile == vol /\ e.prio >= 6
      simple == e.shape \in {"plain", "tags", "result"}
  IN CASE color = "off" /\ k.sgr > 0 -> "K2/colour-codes-with-colours-off"
       [] color = "off" /\ ~vol /\ (k.rst > 0 \/ k.esc > 0) -> "K2/escape-codes-with-colours-off"
       [] ~volatile /\ ~k.whole -> "O1/message-not-complete"
       [] ~volatile /\ k.end # "nl" -> "O1/line-not-terminated"
       [] volatile /\ simple /\ k.end # "cr" -> "O3/volatile-line-not-overwritable"
       [] volatile /\ simple /\ k.vis > cols -> "O3/volatile-line-wider-than-terminal"
       [] volatile /\ simple /\ ~k.whole /\ 2 * k.vis < cols -> "O3/volatile-line-cut-more-than-needed"
       [] k.whole /\ ~k.name -> "R2/logger-name-missing"
       [] k.whole /\ e.shape = "tags" /\ ~k.tags -> "R3/tags-missing"
       [] ~volatile /\ e.shape = "exc" /\ ~k.trace -> "R4/stack-trace-missing"
       [] TsBad(e, k) -> "R5/timestamp"
       [] OTHER -> "ok"

\* "a console that printed records of all seven levels" (overridden by small model-checking configurations)
PalettePrios == 2..8
PaletteLabel(mode) == IF mode = "always" THEN "K1/always-without-colour-codes"
                      ELSE "K3/auto-on-a-tty-without-colour-codes"

----------------------------------------------------------------------------
(* ------------------------------ sessions --------------------------------- *)
NoCon  == [on |-> FALSE, lvl |-> -1, color |-> "off", mode |-> "never", vol |-> FALSE, cols |-> 0,
           prios |-> {}, hot |-> 0]
NoFile == [st |-> "none", lvl |-> -1, exp |-> <<>>, got |-> <<>>]
St0 == [con |-> [n \in Nodes |-> NoCon], file |-> [f \in 1..2 |-> NoFile], started |-> FALSE,
        bad |-> "ok", un |-> 0, dead |-> FALSE, at |-> 0]

Fail(st, label) == IF st.bad = "ok" /\ label # "ok" THEN [st EXCEPT !.bad = label] ELSE st

\* K1/K3: with colours on, a console that printed records of all seven levels used a colour code at least once
ClosePalette(st, node) ==
  LET c == st.con[node]
  IN IF c.on /\ c.color = "on" /\ PalettePrios \subseteq c.prios /\ c.hot = 0
     THEN Fail(st, PaletteLabel(c.mode)) ELSE st

StepSetup(st, e) ==
  LET want == IF e.lvl # -1 THEN e.lvl ELSE IF e.envp \in 0..8 THEN e.envp ELSE -1
      documented == e.lvl # -1 \/ e.envp \in 0..8 \/ e.envp = -1
      s1 == ClosePalette(st, e.node)
  IN IF ~e.ok
     THEN IF documented THEN [Fail(s1, "E1/setup-raised-for-documented-level") EXCEPT !.dead = TRUE]
          ELSE [s1 EXCEPT !.dead = TRUE, !.un = @ + 1]
     ELSE [s1 EXCEPT !.started = TRUE,
             !.un = IF want = -1 THEN @ + 1 ELSE @,
             !.con[e.node] = [on |-> TRUE, lvl |-> want, color |-> ColourExpected(e.mode, e.tty, e.nocolor),
                              mode |-> e.mode, vol |-> e.vol, cols |-> e.cols, prios |-> {}, hot |-> 0],
             !.file = [f \in DOMAIN @ |-> IF e.node = "gallia" /\ @[f].st = "open"
                                          THEN [@[f] EXCEPT !.st = "shaky"] ELSE @[f]]]

StepAdd(st, e) ==
  IF ~e.ok THEN [Fail(st, "S0/add-file-handler-raised") EXCEPT !.dead = TRUE]
  ELSE [st EXCEPT !.file[e.f] = [st |-> "open", lvl |-> e.lvl, exp |-> <<>>, got |-> <<>>]]

\* S1 / S3 for the console, then the rendering clauses
ConVerdict(c, e) ==
  LET n == Len(e.w)
      must == e.shape # "result" /\ c.lvl # -1 /\ e.prio <= c.lvl
      may  == e.shape = "result" \/ c.lvl = -1 \/ (c.lvl < 2 /\ e.prio = 2)
  IN IF n >= 2 THEN "S3/console-duplicate"
     ELSE IF n = 0 THEN (IF must THEN "S1/console-missing" ELSE "ok")
     ELSE IF ~must /\ ~may THEN "S1/console-below-level"
     ELSE ChunkVerdict(c.color, c.vol, c.cols, e, e.w[1])

FileExp(fs, e, started) ==
  IF fs.st \notin {"open", "shaky"} THEN fs
  ELSE IF ~started \/ ~Covers("gallia", e.src) THEN [fs EXCEPT !.exp = Append(@, [id |-> e.id, must |-> FALSE])]
  ELSE IF e.shape = "result" THEN [fs EXCEPT !.exp = Append(@, [id |-> e.id, must |-> FALSE])]
  ELSE IF e.prio <= fs.lvl THEN [fs EXCEPT !.exp = Append(@, [id |-> e.id, must |-> fs.st = "open"])]
  ELSE fs

StepLog(st, e) ==
  LET C == {n \in Nodes : st.con[n].on /\ Covers(n, e.src)}
      judged == st.started /\ Cardinality(C) = 1
      n1 == CHOOSE n \in Nodes : judged => n \in C
      label == IF judged THEN ConVerdict(st.con[n1], e) ELSE "ok"
      s1 == [Fail(st, label) EXCEPT !.un = IF judged /\ e.shape # "result" THEN @ ELSE @ + 1,
                                    !.file = [f \in DOMAIN @ |-> FileExp(@[f], e, st.started)]]
  IN IF judged /\ Len(e.w) = 1
     THEN [s1 EXCEPT !.con[n1].prios = @ \cup {e.prio},
                     !.con[n1].hot = @ + (IF e.w[1].sgr > 0 THEN 1 ELSE 0)]
     ELSE s1

\* S2 / S3 / S4 for a file, judged when it is removed (e.got = record ids read from the closed file)
FileVerdict(fs, got) ==
  LET ids == {fs.exp[i].id : i \in 1..Len(fs.exp)}
      musts == {fs.exp[i].id : i \in {j \in 1..Len(fs.exp) : fs.exp[j].must}}
      gotset == {got[i] : i \in 1..Len(got)}
      kept == SelectSeq(fs.exp, LAMBDA x : x.id \in gotset)
  IN CASE \E i \in 1..Len(got) : got[i] \notin ids -> "S2/file-holds-record-it-must-not"
       [] Cardinality(gotset) # Len(got) -> "S3/file-duplicate"
       [] ~(musts \subseteq gotset) -> "S2/file-misses-record"
       [] [i \in 1..Len(kept) |-> kept[i].id] # got -> "S4/file-order"
       [] OTHER -> "ok"

StepRm(st, e) ==
  LET fs == st.file[e.f]
  IN IF ~e.ok THEN Fail(st, "S6/remove-file-handler-raised")
     ELSE [Fail(st, FileVerdict(fs, e.got)) EXCEPT !.file[e.f].st = "closed", !.file[e.f].got = e.got]

\* S6: a closed log file does not change any more (e.files[f] = ids read at the end of the session)
\*     and a removed handler receives nothing more (e.late[f] = records queued at it after its removal)
StepEnd(st, e) ==
  LET changed == {f \in 1..2 : st.file[f].st = "closed" /\ e.files[f] # st.file[f].got}
      fed == {f \in 1..2 : st.file[f].st = "closed" /\ e.late[f] > 0}
  IN IF changed # {} THEN Fail(st, "S6/closed-file-changed")
     ELSE IF fed # {} THEN Fail(st, "S6/removed-handler-still-receives") ELSE st

Step(st, e) ==
  CASE e.a = "setup" -> StepSetup(st, e)
    [] e.a = "add" -> StepAdd(st, e)
    [] e.a = "log" -> StepLog(st, e)
    [] e.a = "rm" -> StepRm(st, e)
    [] e.a = "end" -> StepEnd(st, e)
    [] OTHER -> Fail(st, "machinery/unknown-event")

RECURSIVE Run(_, _, _)
Run(st, ev, i) ==
  IF i > Len(ev) \/ st.dead THEN st
  ELSE LET s2 == Step(st, ev[i])      \* `at`: index of the event at which the first clause broke (0: at the end)
       IN Run(IF st.bad = "ok" /\ s2.bad # "ok" THEN [s2 EXCEPT !.at = i] ELSE s2, ev, i + 1)

SessionFinal(ev) == ClosePalette(ClosePalette(Run(St0, ev, 1), "root"), "gallia")
SessionVerdict(ev) == SessionFinal(ev).bad
SessionUnspecified(ev) == SessionFinal(ev).un
SessionAt(ev) == SessionFinal(ev).at

----------------------------------------------------------------------------
(* ---------------------------------- hr ----------------------------------- *)
(* x: [mode, tty (stdout), nocolor, exit, recs <<[prio 0..8, shape, eh..]>>, w <<chunk>>]
   hr -p trace prints every record of the file once, in order (H0; the selection
   itself is C17's), rendered like the console does without volatile mode; the
   colour decision looks at --color, stdout and NO_COLOR only (H3 via pairs).   *)
RECURSIVE FirstBad(_, _, _)
FirstBad(x, color, i) ==
  IF i > Len(x.recs) THEN "ok"
  ELSE LET v == ChunkVerdict(color, FALSE, 0, x.recs[i], x.w[i])
       IN IF v # "ok" THEN v ELSE FirstBad(x, color, i + 1)

HrVerdict(x) ==
  LET color == ColourExpected(x.mode, x.tty, x.nocolor)
      prios == {x.recs[i].prio : i \in 1..Len(x.recs)}
      hot == {i \in 1..Len(x.w) : x.w[i].sgr > 0}
  IN CASE x.exit # 0 /\ prios \cap {0, 1} # {} -> "H2/valid-priority-not-rendered"
       [] x.exit # 0 -> "H0/hr-failed-on-a-well-formed-log"
       [] Len(x.w) # Len(x.recs) -> "H0/not-one-output-per-record"
       [] FirstBad(x, color, 1) # "ok" -> FirstBad(x, color, 1)
       [] color = "on" /\ PalettePrios \subseteq prios /\ hot = {} -> PaletteLabel(x.mode)
       [] OTHER -> "ok"

\* two runs that may differ only in the named respect print the same
PairLabel == [always_tty     |-> "K1/always-depends-on-tty",
              always_nocolor |-> "K1/always-depends-on-NO_COLOR",
              strip          |-> "K4/colours-change-more-than-escape-codes",
              hr_stderr      |-> "H3/hr-colours-depend-on-stderr",
              hr_prefix      |-> "H1/rendering-depends-on-priority-prefix"]
PairVerdict(x) == IF x.a = x.b THEN "ok" ELSE PairLabel[x.what]

----------------------------------------------------------------------------
(* ----------------------------- pure tables -------------------------------- *)
(* levels: rows <<[name, lv (Loglevel value), prio (from_level; -1 raised), back (to_level(from_level))]>>,
           tolevel <<[p, lv (-1: raised)]>> for p = 0..8                         *)
LevelsVerdict(x) ==
  LET R == {x.rows[i] : i \in 1..Len(x.rows)}
      by(n) == CHOOSE r \in R : r.name = n
      TL == {x.tolevel[i] : i \in 1..Len(x.tolevel)}
  IN CASE {r.name : r \in R} # LevelNames -> "M1/level-set"
       [] \E r \in R : r.name \in DOMAIN StdPy /\ r.lv # StdPy[r.name] -> "M1/python-constant"
       [] ~(by("INFO").lv < by("NOTICE").lv /\ by("NOTICE").lv < by("WARNING").lv
            /\ 0 < by("TRACE").lv /\ by("TRACE").lv < by("DEBUG").lv) -> "M1/added-level-order"
       [] \E r \in R : r.prio # Sev[r.name] -> "M1/rfc3164-severity"
       [] \E r \in R : r.back # r.lv -> "M2/round-trip"
       [] \E a, b \in R : (a.lv > b.lv) # (a.prio < b.prio) -> "M3/order"
       [] \E t \in TL : t.p \in 2..8 /\ \E r \in R : r.prio = t.p /\ t.lv # r.lv -> "M2/to-level"
       [] \E t \in TL : t.p \in {0, 1} /\ t.lv # by("CRITICAL").lv -> "M5/to-level-not-total"
       [] OTHER -> "ok"

\* fromstr: [cls name | num | invalid | odd, want, res (-1 ValueError, -2 other exception)]
FromStrVerdict(x) ==
  CASE x.cls \in {"name", "num"} /\ x.res # x.want -> "M4/from-str"
    [] x.cls = "invalid" /\ x.res # -1 -> "M4/from-str-accepts-invalid"
    [] OTHER -> "ok"

\* verb: [n, prio]   console priority chosen for -v n
VerbVerdict(x) ==
  CASE x.n \in 0..2 /\ x.prio # 6 + x.n -> "V1/documented-mapping"
    [] x.n > 2 /\ x.prio # 8 -> "V2/more-v-less-verbose"
    [] OTHER -> "ok"

\* filelevel: [has_tl, tl, verbose, prio]
FileLevelVerdict(x) ==
  CASE x.prio \notin {7, 8} -> "V3/logfile-not-at-least-debug"
    [] x.has_tl /\ x.tl /\ x.prio # 8 -> "V3/trace-log-ignored"
    [] x.has_tl /\ ~x.tl /\ x.verbose < 2 /\ x.prio # 7 -> "V3/logfile-trace-without-trace-log"
    [] OTHER -> "ok"

Verdict(x) ==
  CASE x.kind = "run" -> SessionVerdict(x.ev)
    [] x.kind = "hr" -> HrVerdict(x)
    [] x.kind = "pair" -> PairVerdict(x)
    [] x.kind = "levels" -> LevelsVerdict(x)
    [] x.kind = "fromstr" -> FromStrVerdict(x)
    [] x.kind = "verb" -> VerbVerdict(x)
    [] x.kind = "filelevel" -> FileLevelVerdict(x)
    [] OTHER -> "machinery/unknown-record-kind"

At(x) == IF x.kind = "run" THEN SessionAt(x.ev) ELSE 0
Unspecified(x) == IF x.kind = "run" THEN SessionUnspecified(x.ev)
                  ELSE IF x.kind = "fromstr" /\ x.cls = "odd" THEN 1
                  ELSE IF x.kind = "verb" /\ x.n < 0 THEN 1 ELSE 0
=============================================================================
