SPECIFICATION Spec
CONSTANTS
  MaxLen = 3
  Kinds <- TwoKinds
  Outcomes <- AllSeven
  Tags <- NoTags
  MayToggle = TRUE
  MayAbort = TRUE
  Dev_S17_RowLostNotSerialisable = FALSE
  Dev_LogOutsideFinally = FALSE
  Dev_NoJoin = FALSE
  Dev_StateAfterUpdate = FALSE
INVARIANT TypeOK
INVARIANT B1_OncePerExchangeInOrder
INVARIANT B2_RowHoldsTheExchange
INVARIANT B3_SilentWhileOff
INVARIANT B4_CompleteAfterClose
INVARIANT Contract
PROPERTY WriterIdleWhenCancelled
CHECK_DEADLOCK FALSE
