SPECIFICATION Spec
CONSTANTS
  MaxLen = 4
  Prios <- MCPrios
  Thresholds <- MCThresholds
  MaxN = 6
  MaxOps = 3
  Dev_S24_OffsetsFromCurrentPos = FALSE
  Dev_S25_ReverseWraps = FALSE
  Dev_S26_TailBeyondLen = FALSE
  Dev_S26_EmptyLogUnreadable = FALSE
INVARIANT TypeOK
CHECK_DEADLOCK FALSE
