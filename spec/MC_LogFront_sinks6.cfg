\* generated once for X19 (see MC_LogFront.tla)
SPECIFICATION Spec
CHECK_DEADLOCK FALSE
CONSTANTS
  Prios = {3, 7}
  EnvVals = {}
  Modes = {"never"}
  Vols = {FALSE}
  Srcs = {"gallia", "child", "other"}
  Shapes = {"plain"}
  Longs = {FALSE}
  SetupNodes = {"root", "gallia"}
  MaxLog = 3
  MaxSetup = 2
  MaxAdd = 2
  MaxSteps = 6
  KeepHist = FALSE
  Dev_F1_AlwaysNeedsTty = FALSE
  Dev_F2_ToLevelPartial = FALSE
  Dev_F3_VerboseWraps = FALSE
  Dev_NoCleanup = FALSE
  Dev_NoHandlerLevel = FALSE
  Dev_FileLevelFromConsole = FALSE
  Dev_RmLosesLast = FALSE
  Dev_RmKeepsRouting = FALSE
  Dev_AutoIgnoresNoColor = FALSE
  Dev_NeverColours = FALSE
  Dev_VolatileAll = FALSE
  Dev_SetupKeepsLevel = FALSE
INVARIANT Inv_S1
INVARIANT Inv_S2
INVARIANT Inv_S3
INVARIANT Inv_S4
INVARIANT Inv_S6
INVARIANT Inv_E1
INVARIANT Inv_K1
INVARIANT Inv_K2
INVARIANT Inv_K3
INVARIANT Inv_O1
INVARIANT Inv_O3
INVARIANT Inv_R
INVARIANT Inv_Ok
INVARIANT Inv_V
INVARIANT Inv_V3
INVARIANT Inv_M
INVARIANT Inv_K1pair
