SPECIFICATION Spec
CONSTANTS
  N = 4
  Faults = 3
  Dev_RequeueAtTail = FALSE
INVARIANT AbsIndInv
INVARIANT AbsSafety
PROPERTY AbsSpec
CHECK_DEADLOCK FALSE
