---- MODULE Trace_DbWriter ----
EXTENDS DbWriterContract, Json, IOUtils
Batch == JsonDeserialize(IOEnv.TRACE_FILE)
T == Batch.traces
VARIABLES tid, verdict
TInit == tid \in 1..Len(T) /\ verdict = "?"
TNext == /\ verdict = "?" /\ verdict' = Verdict(T[tid]) /\ tid' = tid /\ PrintT(<<"V", T[tid].id, verdict'>>)
TSpec == TInit /\ [][TNext]_<<tid, verdict>>
====
