----------------------- MODULE IsotpDiscoverContract -----------------------
(* Growth item X14, contract layer (operators only): `gallia discover uds isotp` (IsotpDiscoverer), the raw CAN
   transport underneath it and the pure helpers it relies on (CANMessage.pack / unpack, can_id_repr).

   Statement (growth/X14.json):
   "`discover uds isotp` first records the CAN ids of the idle bus traffic and never reports them; it then sends, for
    every id from --start to --stop in ascending order, the ISO-TP single frame of --pdu (PCI byte = payload length,
    filled up to 8 bytes with --padding when given; with --extended-addr on the CAN id --tester-addr with the swept
    value as first byte) and reports - in ECUs.txt and in the database, exactly once - the pair (probed id, answering
    CAN id) for every probe to which frames of exactly one other CAN id come back within --timeout (single frame,
    first frame, flow control, positive or negative alike), but neither a probe answered from several CAN ids
    (broadcast) nor a frame that was already waiting in the receive queue when the probe was sent.  The scan
    terminates whatever the ECUs answer; every emitted line is an isotp:// URI that gallia's own TargetURI/ISOTPConfig
    read back to the ids that were on the wire; with --query one ReadDataByIdentifier request for --info-did goes to
    every reported endpoint."

   Sources of the clauses (documented behaviour only):
     P1/P3  help texts of IsotpDiscovererConfig: --start "set start address", --stop "set end address" (both ends belong
            to the range); docs/uds/scan_modes.md, ISO-TP: "the destination id is iterated and a valid payload is sent".
     P2     help texts --pdu "set pdu used for discovery", --padding "set isotp padding", --extended-addr "use extended
            isotp addresses", --tester-addr "tester address for --extended"; docs/uds/scan_modes.md: extended
            addressing: source can_id "often set to a static value, e.g. 0x6f1; a.k.a. tester address", "extended
            destination address: ... it is the address of the ECU"; docs/transports.md: is_extended "Use extended CAN
            identifiers", is_fd "Use CAN-FD frames"; error text "UDSRequest too large, ConsecutiveFrames not
            implemented" (the probe is ONE single frame).  ISO 15765-2: N_PCI of a single frame = 0000 SF_DL (high
            nibble 0, low nibble = number of payload bytes), normal addressing: N_PCI is byte 1; extended addressing:
            byte 1 = N_TA, N_PCI is byte 2; unused bytes of a padded frame carry the padding value up to 8 bytes.
     I1     docs/uds/scan_modes.md: "In order to not confuse the discovery scanner, the so called idle traffic needs to
            be observed ... gallia waits for a few seconds and observes the CAN bus traffic.  Subsequently, a deny filter
            is configured which filters out all CAN IDs seen in the idle traffic."; help text --sniff-time; docstring of
            RawCANTransport.get_idle_traffic ("return list of IDs which are seen in the specified period of time. The
            output of this function can be used as input to set_filter"); result text "Found N CAN Addresses on idle
            Bus".  Linux can.rst (filter matches when rx_id & mask == can_id & mask, CAN_INV_FILTER, JOIN_FILTERS).
     F1/F2  docs/uds/scan_modes.md: "If a valid answer is received, an ECU has been found", "at least some answer is
            expected" (a negative response is an answer); result text "found endpoint on CAN ID [src:dst]: <probed
            id>:<answering id>: <payload>", "finished; found N UDS endpoints", "Writing urls to file: ECUs.txt",
            "Writing urls to database"; help text of --timeout (UDSDiscoveryScannerConfig, shown by `discover uds isotp
            --help`): "timeout value for request"; info text "seems like a large ISO-TP packet was received" (several
            frames from the answering id are still ONE endpoint); info text "The same CAN ID ... answered. Skipping"
            (a frame carrying the CAN id the probe was sent on is no answer: such probes are not judged).
     F3     comment in main(): "The recv buffer needs to be flushed to avoid wrong results..." (documented intent: a
            frame that belongs to an earlier probe must not be taken for the answer to a later one).
     B1     result texts "seems that broadcast was triggered on CAN ID <id>, got answer from <other id>" in place of
            "found endpoint"; class docstring: "Typically, there is also a broadcast destination ID to address all
            endpoints."
     U1     docs/transports.md, isotp: src_addr / dst_addr "required", is_extended, is_fd, ext_address "The extended
            ISOTP address", rx_ext_address "The extended ISOTP rx address", tx_padding "Use padding in sent frames";
            the emitted lines are read by TargetURI / ISOTPConfig (ISOTPTransport.connect).
     Q1     help texts --query "query ECU description via RDBID", --info-did "DID to query ECU description"; info text
            "reading info DID from all discovered endpoints"; handler `except Exception: "reading description failed"`
            (one failing endpoint does not stop the others); ISO 14229-1: ReadDataByIdentifier request = 22 DID_hi
            DID_lo; Linux isotp: bind((interface, rx id, tx id)).
     T0     result text "finished; found N UDS endpoints"; `except TimeoutError: continue` (a silent id costs one
            timeout, the sweep goes on).
     C1     validator texts "Unsupported transport schema ...; must be can-raw!", "start/stop maximum value is 0xFF".
     K1/K2  linux/can.h struct can_frame / canfd_frame (can_id word with EFF 0x80000000, RTR 0x40000000, ERR
            0x20000000; len; FD flags BRS 1, ESI 2; data from offset 8; 16 / 72 bytes), attribute names of CANMessage.
     K3     docstring of can_id_repr "Default string representation of a CAN id" + its use in the texts above (hex).

   Not demanded (sources silent; every outcome accepted, counted as unspecified): probes whose window holds frames
   that are not answers to that probe (cyclic traffic that starts after the sniffing, late answers to earlier probes,
   frames still queued when the probe was sent), answers later than --timeout, answers on the CAN id the probe was
   sent on, whether ids of the idle traffic are probed at all, whether an id is probed more than once, termination
   on a bus that keeps carrying frames the deny filter does not know, the rx_padding and frame_txtime of the URIs,
   rx_ext_address when the ECU answered with another first byte than the tester's low byte, --pdu longer than a
   single frame, padding values outside a byte, buses that mix 11 bit and 29 bit identifiers.

   Observation O of one execution (bus-side ground truth + what the scanner reported):
     O.cfg     [start, stop, ext, tester, pad (-1 none), pdu, timeout (ms), xid, fd, iface, query, did, art, db]
     O.seen    set of CAN ids the scanner read from its socket before it sent the first probe
     O.idle    those of them that were on the bus within the first --sniff-time seconds (O.idle \subseteq O.seen: I1
               speaks about O.idle, the clauses that demand something from the scanner excuse all of O.seen)
     O.probes  sequence (as the bus saw them) of
               [ok, can, eff, rtr, fd, d, pend, an, dl, rd]   the frame (ok: a well-formed can_frame / canfd_frame),
                  pend = frames waiting unread in the scanner's receive queue at that moment,
                  an = the frames the ECUs addressed by this frame send in answer to it (in the order sent):
                       [a (CAN id), dt (ms after the probe), vis (it passes the scanner's filter / frame format)]
                  dl = frames put into the scanner's receive queue from this probe until the next one:
                       [a (CAN id), dt (ms after the probe), c (index of the probe that caused it, 0 = nobody's answer)]
                  rd = frames the scanner read from its socket from this probe until the next one:
                       [a, c, b0 (first data byte, -1 none), tdl (ms after this probe at which it had been queued),
                        w (the scanner was waiting for it: the receive call that returned it had been started
                           before the frame was queued)]
     O.file, O.db   emitted lines parsed back by the real TargetURI/ISOTPConfig:
                    [ok, host, src, dst, xid, fd, ea, rea, txpad, rxpad]  (-1 = absent);  O.hasFile
     O.q       ISO-TP sockets opened, in order: [iface, src (tx id), dst (rx id), xid, ea, rea, pdus, reached]
     O.done    "ok" | "exc" | "hang"                                                                                 *)
EXTENDS Naturals, Integers, Sequences, FiniteSets

Sweep(O) == O.cfg.start..O.cfg.stop
Idx(O)   == 1..Len(O.probes)

\* ---------------------------------------------------------------- the probe frame (ISO 15765-2)
SF(pdu)    == <<Len(pdu)>> \o pdu
Pad(f, p)  == IF p < 0 \/ Len(f) >= 8 THEN f ELSE f \o [i \in 1..(8 - Len(f)) |-> p]
ProbeData(O, id) == Pad((IF O.cfg.ext THEN <<id>> ELSE <<>>) \o SF(O.cfg.pdu), O.cfg.pad)
ProbeCan(O, id)  == IF O.cfg.ext THEN O.cfg.tester ELSE id
PId(O, p)        == IF O.cfg.ext THEN (IF Len(p.d) > 0 THEN p.d[1] ELSE -1) ELSE p.can

InScope(O) == /\ Len(O.cfg.pdu) \in 1..(IF O.cfg.ext THEN 6 ELSE 7)
              /\ O.cfg.pad \in -1..255
              /\ (O.cfg.ext => O.cfg.start >= 0 /\ O.cfg.stop <= 255)

Configured(O, p) ==
  /\ p.ok /\ ~p.rtr /\ p.eff = O.cfg.xid /\ p.fd = O.cfg.fd
  /\ PId(O, p) \in Sweep(O)
  /\ p.can = ProbeCan(O, PId(O, p))
  /\ p.d = ProbeData(O, PId(O, p))

Skippable(O) == IF O.cfg.ext THEN {} ELSE O.seen
P1_EveryIdProbed(O) ==
  O.done = "ok" => \A a \in Sweep(O) \ Skippable(O) : \E i \in Idx(O) : PId(O, O.probes[i]) = a /\ Configured(O, O.probes[i])
P2_OnlyConfiguredFrames(O) == \A i \in Idx(O) : Configured(O, O.probes[i])
IsFirst(O, i) == \A k \in 1..(i - 1) : PId(O, O.probes[k]) # PId(O, O.probes[i])
P3_Ascending(O) ==
  \A i, j \in Idx(O) : (i < j /\ IsFirst(O, i) /\ IsFirst(O, j)) => PId(O, O.probes[i]) < PId(O, O.probes[j])

\* ---------------------------------------------------------------- what was reported
PairOf(O, u)   == [id |-> IF O.cfg.ext THEN u.ea ELSE u.src, dst |-> u.dst]
Pairs(O, lst)  == {PairOf(O, lst[k]) : k \in 1..Len(lst)}
Lists(O)       == (IF O.hasFile THEN {O.file} ELSE {}) \cup (IF O.cfg.db THEN {O.db} ELSE {})
AllPairs(O)    == UNION {Pairs(O, l) : l \in Lists(O)}
Rep(O)         == IF O.hasFile THEN O.file ELSE O.db
ProbesOf(O, id) == {i \in Idx(O) : PId(O, O.probes[i]) = id}
SeqSet(s)      == {s[k] : k \in 1..Len(s)}

\* F1: a reported pair was on the wire: after a probe of that id a frame with that CAN id was read
F1_Sound(O) ==
  \A pr \in AllPairs(O) : \E i \in ProbesOf(O, pr.id) : \E r \in SeqSet(O.probes[i].rd) : r.a = pr.dst

\* I1: ids of the idle traffic are never reported
I1_IdleNeverReported(O) == \A pr \in AllPairs(O) : pr.dst \notin O.idle

\* F3: the answer to an EARLIER probe that was already waiting in the receive queue when this probe was sent is not
\*     reported as the endpoint of this probe
Stale(i, r) == r.c >= 1 /\ r.c < i /\ r.tdl < 0
F3_NoStaleAnswer(O) ==
  \A pr \in AllPairs(O) :
     ~ \A i \in ProbesOf(O, pr.id) : \A r \in SeqSet(O.probes[i].rd) : r.a = pr.dst => Stale(i, r)

\* F2: a probe answered - by frames of exactly one other CAN id, the first within --timeout, nothing else in its
\*     window, nothing left over in the receive queue - is reported with that pair
Clean(O, i) ==
  LET p == O.probes[i] IN
  /\ Configured(O, p) /\ p.pend = 0 /\ Len(p.an) > 0
  /\ Cardinality(ProbesOf(O, PId(O, p))) = 1
  /\ \A k \in 1..Len(p.dl) : p.dl[k].c = i
AnsIds(p) == {p.an[k].a : k \in 1..Len(p.an)}
MustReport(O, i) ==
  LET p == O.probes[i] IN
  /\ Clean(O, i)
  /\ Cardinality(AnsIds(p)) = 1
  /\ \A k \in 1..Len(p.an) : p.an[k].vis
  /\ \A a \in AnsIds(p) : a # p.can /\ a \notin O.seen
  /\ p.an[1].dt < O.cfg.timeout
F2_Complete(O) ==
  O.done = "ok" =>
    \A i \in Idx(O) : MustReport(O, i) =>
       \A l \in Lists(O) : [id |-> PId(O, O.probes[i]), dst |-> O.probes[i].an[1].a] \in Pairs(O, l)

\* B1: a probe to which the scanner, while it was waiting, got answers from two or more CAN ids is a broadcast id
Awaited(O, i) == {r.a : r \in {x \in SeqSet(O.probes[i].rd) : x.w /\ x.c = i /\ x.a # O.probes[i].can /\ x.a \notin O.seen}}
B1_BroadcastNotAnEndpoint(O) ==
  \A i \in Idx(O) :
     (Cardinality(Awaited(O, i)) >= 2 /\ Cardinality(ProbesOf(O, PId(O, O.probes[i]))) = 1) =>
        \A pr \in AllPairs(O) : pr.id # PId(O, O.probes[i])

\* E1: exactly once;  D1: both sinks hold the same lines, the file exists when an artifacts directory does
NoDup(O, lst) == \A j, k \in 1..Len(lst) : j # k => PairOf(O, lst[j]) # PairOf(O, lst[k])
E1_ExactlyOnce(O) == \A l \in Lists(O) : NoDup(O, l)
D1_SameInBothSinks(O) ==
  O.done = "ok" => /\ (O.cfg.art => O.hasFile)
                   /\ ((O.hasFile /\ O.cfg.db) => O.file = O.db)

\* U1: every line reads back to what was on the wire
UriOk(O, u) ==
  /\ u.ok /\ u.host = O.cfg.iface /\ u.xid = O.cfg.xid /\ u.fd = O.cfg.fd
  /\ IF O.cfg.ext
     THEN /\ u.src = O.cfg.tester /\ u.ea \in Sweep(O) /\ u.rea >= 0
          /\ \/ u.rea = O.cfg.tester % 256
             \/ \E i \in Idx(O) : \E r \in SeqSet(O.probes[i].rd) : r.a = u.dst /\ r.b0 = u.rea
     ELSE u.src \in Sweep(O) /\ u.ea = -1 /\ u.rea = -1
  /\ (O.cfg.pad >= 0 => u.txpad = O.cfg.pad)
U1_Uris(O) == \A l \in Lists(O) : \A k \in 1..Len(l) : UriOk(O, l[k])

\* Q1: --query: one ISO-TP connection per reported endpoint with the URI's parameters, only RDBI(info DID) on it
Rdbi(did) == <<34, did \div 256, did % 256>>
QMatches(O, s, u) == /\ s.iface = u.host /\ s.src = u.src /\ s.dst = u.dst /\ s.xid = u.xid
                     /\ s.ea = u.ea /\ s.rea = u.rea
Q1_Query(O) ==
  IF ~O.cfg.query THEN Len(O.q) = 0
  ELSE (O.done = "ok" /\ Lists(O) # {}) =>
         /\ Len(O.q) = Len(Rep(O))
         /\ \A k \in 1..Len(O.q) :
              /\ k <= Len(Rep(O)) => QMatches(O, O.q[k], Rep(O)[k])
              /\ Len(O.q[k].pdus) >= 1
              /\ \A n \in 1..Len(O.q[k].pdus) : O.q[k].pdus[n] = Rdbi(O.cfg.did)

\* T0: the scan ends by itself; never by an exception; (termination is not demanded while the bus keeps carrying
\*     frames that nobody sent as an answer and the deny filter does not know)
Foreign(O) == \E i \in Idx(O) : \E k \in 1..Len(O.probes[i].dl) : O.probes[i].dl[k].c = 0

ScanVerdict(O) ==
  IF ~InScope(O)                               THEN "ok"
  ELSE IF O.done = "hang" /\ ~Foreign(O)       THEN "T0/scan-does-not-terminate"
  ELSE IF O.done = "hang"                      THEN "ok"
  ELSE IF O.done # "ok"                        THEN "T0/scan-aborts"
  ELSE IF ~P2_OnlyConfiguredFrames(O)          THEN "P2/probe-frame-not-the-configured-single-frame"
  ELSE IF ~P1_EveryIdProbed(O)                 THEN "P1/id-of-the-range-not-probed"
  ELSE IF ~P3_Ascending(O)                     THEN "P3/probe-order"
  ELSE IF ~U1_Uris(O)                          THEN "U1/emitted-uri-does-not-denote-the-endpoint"
  ELSE IF ~F1_Sound(O)                         THEN "F1/reported-pair-never-on-the-wire"
  ELSE IF ~I1_IdleNeverReported(O)             THEN "I1/idle-traffic-id-reported"
  ELSE IF ~F3_NoStaleAnswer(O)                 THEN "F3/queued-answer-to-an-earlier-probe-reported"
  ELSE IF ~F2_Complete(O)                      THEN "F2/answering-endpoint-not-reported"
  ELSE IF ~B1_BroadcastNotAnEndpoint(O)        THEN "B1/broadcast-id-reported-as-endpoint"
  ELSE IF ~E1_ExactlyOnce(O)                   THEN "E1/endpoint-reported-twice"
  ELSE IF ~D1_SameInBothSinks(O)               THEN "D1/file-and-database-differ"
  ELSE IF ~Q1_Query(O)                         THEN "Q1/query-not-as-documented"
  ELSE "ok"

\* cases the statement does not decide (counted, never a violation): answered windows that F2 does not judge
ScanUnspecified(O) ==
  IF ~InScope(O) THEN 1
  ELSE Cardinality({i \in Idx(O) : (Len(O.probes[i].dl) > 0 \/ Len(O.probes[i].an) > 0) /\ ~MustReport(O, i)
                                   /\ Cardinality(Awaited(O, i)) < 2})
       + (IF O.done = "hang" /\ Foreign(O) THEN 1 ELSE 0)

\* ---------------------------------------------------------------- C1: configuration validation
CfgVerdict(x) ==
  LET mustReject == x.scheme # "can-raw" \/ (x.ext /\ (x.start > 255 \/ x.stop > 255)) IN
  IF mustReject /\ x.accepted THEN "C1/invalid-configuration-accepted"
  ELSE IF ~mustReject /\ x.start >= 0 /\ x.stop >= 0 /\ ~x.accepted THEN "C1/valid-configuration-rejected"
  ELSE "ok"

\* ---------------------------------------------------------------- K1/K2: struct can_frame / canfd_frame
\* x.cid = <<b3, b2, b1, b0>> most significant byte first (the id is below 2^29, so b3 < 32)
FdLens == (0..8) \cup {12, 16, 20, 24, 32, 48, 64}
PackDomain(x) ==
  /\ x.cid[1] < 32 /\ (~x.eff => x.cid[1] = 0 /\ x.cid[2] = 0 /\ x.cid[3] < 8)
  /\ (IF x.fd THEN Len(x.d) \in FdLens ELSE Len(x.d) <= 8)
  /\ (x.rtr => Len(x.d) = 0) /\ (~x.fd => ~x.brs /\ ~x.esi)
B2N(b) == IF b THEN 1 ELSE 0
WordBytes(x) ==   \* memory order of the 32 bit can_id word
  LET top == x.cid[1] + 128 * B2N(x.eff) + 64 * B2N(x.rtr) + 32 * B2N(x.err) IN
  IF x.le THEN <<x.cid[4], x.cid[3], x.cid[2], top>> ELSE <<top, x.cid[2], x.cid[3], x.cid[4]>>
ExpectedFrame(x) ==
  LET size == IF x.fd THEN 72 ELSE 16 IN
  [i \in 1..size |->
     IF i <= 4 THEN WordBytes(x)[i]
     ELSE IF i = 5 THEN Len(x.d)
     ELSE IF i = 6 THEN (IF x.fd THEN B2N(x.brs) + 2 * B2N(x.esi) ELSE 0)
     ELSE IF i <= 8 THEN 0
     ELSE IF i - 8 <= Len(x.d) THEN x.d[i - 8] ELSE 0]
PackVerdict(x) ==
  IF ~PackDomain(x) THEN "ok"
  ELSE IF ~x.packok \/ x.packed # ExpectedFrame(x) THEN "K1/pack-is-not-the-linux-can-frame"
  ELSE IF ~(/\ x.un.ok /\ x.un.cid = x.cid /\ x.un.eff = x.eff /\ x.un.rtr = x.rtr /\ x.un.err = x.err
            /\ x.un.fd = x.fd /\ x.un.d = x.d /\ (x.fd => x.un.brs = x.brs /\ x.un.esi = x.esi))
       THEN "K2/unpack-does-not-return-the-frame"
  ELSE "ok"

\* ---------------------------------------------------------------- K3: can_id_repr
RECURSIVE Strip(_)
Strip(ds) == IF Len(ds) > 1 /\ ds[1] = 0 THEN Strip(Tail(ds)) ELSE ds      \* without leading zeros (at least one digit)
Nibbles(b) == <<b[1] \div 16, b[1] % 16, b[2] \div 16, b[2] % 16, b[3] \div 16, b[3] % 16, b[4] \div 16, b[4] % 16>>
ReprVerdict(x) ==
  IF x.i[1] >= 32 THEN "ok"
  ELSE IF ~x.ok \/ Len(x.digits) = 0 \/ (\E k \in 1..Len(x.digits) : x.digits[k] \notin 0..15)
       THEN "K3/can-id-repr-is-not-hexadecimal"
  ELSE IF Strip(x.digits) # Strip(Nibbles(x.i)) THEN "K3/can-id-repr-denotes-another-id"
  ELSE "ok"

Verdict(x) ==
  CASE x.kind = "scan"     -> ScanVerdict(x)
    [] x.kind = "cfgcheck" -> CfgVerdict(x)
    [] x.kind = "pack"     -> PackVerdict(x)
    [] x.kind = "repr"     -> ReprVerdict(x)
    [] OTHER               -> "M0/unknown-kind"
Unspecified(x) == IF x.kind = "scan" THEN ScanUnspecified(x) ELSE 0
=============================================================================
