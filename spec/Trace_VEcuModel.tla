-------------------------- MODULE Trace_VEcuModel --------------------------
(* Code -> spec for C16: validates what separate interpreter processes recorded
   from the real RandomUDSServer against VEcuModelContract.

   One initial state per case (= one seed + argument set, run in several
   processes).  Two total verdicts per case:
     part "a": W0..W4 on the model dumped by EVERY run (first clause broken, or "ok")
     part "b": M0 (setup outcome), M1 (identical model), then run k = 2..n is
               stepped against run 1 through the recorded history, one TLC
               state per request (D1/D2: identical answers but for fresh seeds).
               H0/H1 are checks of the harness's own tester (same history in
               every run, keys derived from the seeds actually received) and are
               reported by the driver as machinery failures, not violations.

   JSON: {"cases": [{"id", "mandS": [..], "mandV": [..],
                     "runs": [{"setup": "ok"|"exc",
                               "m":  [{"s", "svcs": [{"id", "hasSf", "sf": [..]}]}],
                               "tr": [{"q": [..], "k": "new"|"lit"|"key"|"bad", "o": "r"|"n"|"x", "r": [..]}]}]}]}
   A step of kind "new" is not a request: a NEW virtual ECU was started from the
   same seed and arguments (in the same process) and r is a digest of the model
   it offers; the steps up to the next "new" are its history.
   Verdict lines: <<"V", id, part, label, run, step, unspecified>> *)
EXTENDS VEcuModelContract, Json, IOUtils

Batch == JsonDeserialize(IOEnv.TRACE_FILE)
C == Batch.cases

VARIABLES cid,   \* case
          st,    \* "start" | "run" | "done"
          k, i,  \* run k is being compared with run 1, next step i
          sa, sb,\* seed bookkeeping of run 1 / run k (contract)
          la, lb,\* latest seed shown to the tester of run 1 / run k (H1)
          u      \* unspecified steps so far
tvars == <<cid, st, k, i, sa, sb, la, lb, u>>

Range(f) == { f[j] : j \in DOMAIN f }
MinOf(S) == CHOOSE x \in S : \A y \in S : x <= y

----------------------------------------------------------------------------
\* dumped model -> abstract model of the contract
SessOf(m)   == { m[j].s : j \in DOMAIN m }
SvcIds(e)   == { e.svcs[j].id : j \in DOMAIN e.svcs }
SfOf(e, id) == UNION { Range(e.svcs[j].sf) : j \in { x \in DOMAIN e.svcs : e.svcs[x].id = id /\ e.svcs[x].hasSf } }
Abstract(m) ==
  LET S == SessOf(m) IN
  [sess |-> S,
   svc  |-> [s \in S |-> UNION { SvcIds(m[j]) : j \in { x \in DOMAIN m : m[x].s = s } }],
   T    |-> UNION { { <<m[j].s, t>> : t \in (SfOf(m[j], 16) \cap S) } : j \in DOMAIN m },
   B    |-> { <<m[j].s, DefaultSession>> : j \in { x \in DOMAIN m : SfOf(m[x], 17) # {} } }]

\* "identical session/service/sub-function model": compared as sets (the order of a dump is not part of the model)
Canon(m) == UNION { { <<m[j].s, 0, FALSE, {}>> }
                    \cup { <<m[j].s, m[j].svcs[x].id, m[j].svcs[x].hasSf, Range(m[j].svcs[x].sf)>> : x \in DOMAIN m[j].svcs }
                    : j \in DOMAIN m }

----------------------------------------------------------------------------
PartA(c) ==
  LET R == c.runs
      ok == { r \in DOMAIN R : R[r].setup = "ok" }
      wf == [r \in ok |-> WFVerdict(Abstract(R[r].m), Range(c.mandS), Range(c.mandV))]
      bad == { r \in ok : wf[r] # "ok" }
  IN IF ok = {} THEN [v |-> "ok", run |-> 0, u |-> 1]     \* no ECU was built: nothing is offered
     ELSE IF bad = {} THEN [v |-> "ok", run |-> 0, u |-> 0]
     ELSE [v |-> wf[MinOf(bad)], run |-> MinOf(bad), u |-> 0]

\* what can be decided before stepping through the histories
PreB(c) ==
  LET R == c.runs
      n == Len(R)
      res(v, r, uu) == [v |-> v, run |-> r, u |-> uu, more |-> FALSE]
  IN IF Cardinality({ R[r].setup : r \in 1..n }) > 1 THEN res("M0/setup-outcome-differs", 0, 0)
     ELSE IF R[1].setup # "ok" THEN res("ok", 0, 1)
     ELSE LET mdiff == { r \in 2..n : Canon(R[r].m) # Canon(R[1].m) }
              ldiff == { r \in 2..n : Len(R[r].tr) # Len(R[1].tr) } IN
          IF mdiff # {} THEN res("M1/model-differs", MinOf(mdiff), 0)
          ELSE IF ldiff # {} THEN res("H0/harness-histories-differ", MinOf(ldiff), 0)
          ELSE IF n < 2 \/ Len(R[1].tr) = 0 THEN res("ok", 0, 0)
          ELSE [v |-> "ok", run |-> 0, u |-> 0, more |-> TRUE]

\* the harness's tester ran the same program in both runs ...
SameRequest(a, b) ==
  /\ a.k = b.k
  /\ IF a.k \in {"lit", "new"} THEN a.q = b.q
     ELSE Len(a.q) >= 2 /\ Len(b.q) >= 2 /\ SubSeq(a.q, 1, 2) = SubSeq(b.q, 1, 2)
\* ... and its adaptive steps carry key = latest seed received ("key") or that seed plus one byte ("bad")
KeyDerived(x, last) ==
  CASE x.k = "key" -> KeyOf(x.q) = last
    [] x.k = "bad" -> KeyOf(x.q) = last \o <<90>>
    [] OTHER -> TRUE
Shown(last, x) == IF IsSeedReply(x) THEN SeedOf(x) ELSE last

Emit(part, v, r, at, uu) == PrintT(<<"V", C[cid].id, part, v, r, at, uu>>)

TInit == /\ cid \in 1..Len(C) /\ st = "start" /\ k = 2 /\ i = 1
         /\ sa = NoSeed /\ sb = NoSeed /\ la = <<>> /\ lb = <<>> /\ u = 0

Start ==
  /\ st = "start"
  /\ LET a == PartA(C[cid])  b == PreB(C[cid]) IN
     /\ Emit("a", a.v, a.run, 0, a.u)
     /\ IF b.more THEN st' = "run"
        ELSE st' = "done" /\ Emit("b", b.v, b.run, 0, b.u)
  /\ UNCHANGED <<cid, k, i, sa, sb, la, lb, u>>

\* move on to the next run (or finish) with uu unspecified steps counted so far
NextRun(uu) ==
  IF k < Len(C[cid].runs)
  THEN /\ k' = k + 1 /\ i' = 1 /\ sa' = NoSeed /\ sb' = NoSeed /\ la' = <<>> /\ lb' = <<>> /\ u' = uu
       /\ UNCHANGED st
  ELSE /\ st' = "done" /\ Emit("b", "ok", 0, 0, uu)
       /\ UNCHANGED <<k, i, sa, sb, la, lb, u>>

Stop(v) == /\ st' = "done" /\ Emit("b", v, k, i, 0)
           /\ UNCHANGED <<k, i, sa, sb, la, lb, u>>

Step ==
  /\ st = "run"
  /\ LET A == C[cid].runs[1].tr
         a == A[i]
         b == C[cid].runs[k].tr[i]
         cls == IF a.k = "new"
                THEN (IF SameAnswer(a, b) THEN "ok" ELSE "M1/model-differs")     \* model of a restarted ECU
                ELSE StepClass(a, b, sa, sb)
         \* a fresh ECU instance starts with fresh bookkeeping
         sa0 == IF a.k = "new" THEN NoSeed ELSE sa
         sb0 == IF a.k = "new" THEN NoSeed ELSE sb
         la0 == IF a.k = "new" THEN <<>> ELSE la
         lb0 == IF a.k = "new" THEN <<>> ELSE lb
         restarts == { j \in (i + 1)..Len(A) : A[j].k = "new" }
     IN
     IF ~SameRequest(a, b) THEN Stop("H0/harness-histories-differ")
     ELSE IF ~(KeyDerived(a, la0) /\ KeyDerived(b, lb0)) THEN Stop("H1/harness-key-not-derived-from-seed")
     ELSE IF cls \notin {"ok", "unspec", "taint"} THEN Stop(cls)
     ELSE IF cls = "taint"
     THEN IF restarts = {} THEN NextRun(u + (Len(A) - i + 1))
          ELSE /\ i' = MinOf(restarts) /\ u' = u + (MinOf(restarts) - i)
               /\ UNCHANGED <<st, k, sa, sb, la, lb>>
     ELSE LET uu == IF cls = "unspec" THEN u + 1 ELSE u IN
          IF i = Len(A) THEN NextRun(uu)
          ELSE /\ i' = i + 1 /\ u' = uu
               /\ sa' = AfterStep(sa0, a) /\ sb' = AfterStep(sb0, b)
               /\ la' = Shown(la0, a) /\ lb' = Shown(lb0, b)
               /\ UNCHANGED <<st, k>>
  /\ UNCHANGED cid

TNext == Start \/ Step
TSpec == TInit /\ [][TNext]_tvars
=============================================================================
