-------------------------- MODULE Trace_VEcuModel --------------------------
(* Code -> spec for C16: validates what separate interpreter processes recorded
   from the real RandomUDSServer against VEcuModelContract.

   One initial state per case (= one seed + argument set, run in several
   processes).  Two total verdicts per case:
     part "a": W0..W4 on the model dumped by EVERY run (first clause broken, or "ok")
     part "b": M0 (setup outcome), M1 (identical model), D1/D2 (identical answers
               but for fresh seeds) of every run against run 1; H0/H1 are checks
               of the harness's own tester (same history, keys derived from the
               seeds actually received) and are reported as machinery failures.

   JSON: {"cases": [{"id", "mandS": [..], "mandV": [..],
                     "runs": [{"setup": "ok"|"exc",
                               "m":  [{"s", "svcs": [{"id", "hasSf", "sf": [..]}]}],
                               "tr": [{"q": [..], "k": "lit"|"key"|"bad", "o": "r"|"n"|"x", "r": [..]}]}]}]} *)
EXTENDS VEcuModelContract, Json, IOUtils

Batch == JsonDeserialize(IOEnv.TRACE_FILE)
C == Batch.cases

VARIABLES cid, done
tvars == <<cid, done>>

Range(f) == { f[i] : i \in DOMAIN f }
MinOf(S) == CHOOSE x \in S : \A y \in S : x <= y

----------------------------------------------------------------------------
\* dumped model -> abstract model of the contract
SessOf(m)   == { m[i].s : i \in DOMAIN m }
SvcIds(e)   == { e.svcs[j].id : j \in DOMAIN e.svcs }
SfOf(e, id) == UNION { Range(e.svcs[j].sf) : j \in { x \in DOMAIN e.svcs : e.svcs[x].id = id /\ e.svcs[x].hasSf } }
Abstract(m) ==
  LET S == SessOf(m) IN
  [sess |-> S,
   svc  |-> [s \in S |-> UNION { SvcIds(m[i]) : i \in { x \in DOMAIN m : m[x].s = s } }],
   T    |-> UNION { { <<m[i].s, t>> : t \in (SfOf(m[i], 16) \cap S) } : i \in DOMAIN m },
   B    |-> { <<m[i].s, DefaultSession>> : i \in { x \in DOMAIN m : SfOf(m[x], 17) # {} } }]

\* "identical session/service/sub-function model": compared as sets (order of a dump is not part of the model)
Canon(m) == UNION { { <<m[i].s, 0, FALSE, {}>> }
                    \cup { <<m[i].s, m[i].svcs[j].id, m[i].svcs[j].hasSf, Range(m[i].svcs[j].sf)>> : j \in DOMAIN m[i].svcs }
                    : i \in DOMAIN m }

----------------------------------------------------------------------------
\* the harness's tester: same program in every run
SameHistory(A, B) ==
  /\ Len(A) = Len(B)
  /\ \A i \in DOMAIN A :
       /\ A[i].k = B[i].k
       /\ IF A[i].k = "lit" THEN A[i].q = B[i].q
          ELSE Len(A[i].q) >= 2 /\ Len(B[i].q) >= 2 /\ SubSeq(A[i].q, 1, 2) = SubSeq(B[i].q, 1, 2)

RECURSIVE KeysDerived(_, _, _)
\* adaptive steps carry key = latest seed actually received ("key") or that seed plus one byte ("bad")
KeysDerived(A, i, last) ==
  IF i > Len(A) THEN TRUE
  ELSE /\ CASE A[i].k = "key" -> KeyOf(A[i].q) = last
            [] A[i].k = "bad" -> KeyOf(A[i].q) = last \o <<90>>
            [] OTHER -> TRUE
       /\ KeysDerived(A, i + 1, IF IsSeedReply(A[i]) THEN SeedOf(A[i]) ELSE last)

----------------------------------------------------------------------------
PartA(c) ==
  LET R == c.runs
      ok == { k \in DOMAIN R : R[k].setup = "ok" }
      wf == [k \in ok |-> WFVerdict(Abstract(R[k].m), Range(c.mandS), Range(c.mandV))]
      bad == { k \in ok : wf[k] # "ok" }
  IN IF ok = {} THEN [v |-> "ok", run |-> 0, u |-> 1]     \* no ECU was built: nothing offered
     ELSE IF bad = {} THEN [v |-> "ok", run |-> 0, u |-> 0]
     ELSE [v |-> wf[MinOf(bad)], run |-> MinOf(bad), u |-> 0]

PartB(c) ==
  LET R == c.runs
      n == Len(R)
      res(v, k, at, u) == [v |-> v, run |-> k, at |-> at, u |-> u]
  IN IF Cardinality({ R[k].setup : k \in 1..n }) > 1 THEN res("M0/setup-outcome-differs", 0, 0, 0)
     ELSE IF R[1].setup # "ok" THEN res("ok", 0, 0, 1)
     ELSE LET mdiff == { k \in 2..n : Canon(R[k].m) # Canon(R[1].m) } IN
          IF mdiff # {} THEN res("M1/model-differs", MinOf(mdiff), 0, 0)
          ELSE LET hdiff == { k \in 2..n : ~SameHistory(R[1].tr, R[k].tr) }
                   kbad  == { k \in 1..n : ~KeysDerived(R[k].tr, 1, <<>>) } IN
          IF hdiff # {} THEN res("H0/harness-histories-differ", MinOf(hdiff), 0, 0)
          ELSE IF kbad # {} THEN res("H1/harness-key-not-derived-from-seed", MinOf(kbad), 0, 0)
          ELSE LET d == [k \in 2..n |-> Determinism(R[1].tr, R[k].tr)]
                   dbad == { k \in 2..n : d[k].v # "ok" }
                   RECURSIVE SumU(_)
                   SumU(k) == IF k > n THEN 0 ELSE d[k].u + SumU(k + 1)
               IN IF dbad = {} THEN res("ok", 0, 0, SumU(2))
                  ELSE res(d[MinOf(dbad)].v, MinOf(dbad), d[MinOf(dbad)].at, 0)

TInit == cid \in 1..Len(C) /\ done = FALSE
TNext == /\ ~done
         /\ done' = TRUE
         /\ cid' = cid
         /\ LET a == PartA(C[cid]) b == PartB(C[cid]) IN
            /\ PrintT(<<"V", C[cid].id, "a", a.v, a.run, 0, a.u>>)
            /\ PrintT(<<"V", C[cid].id, "b", b.v, b.run, b.at, b.u>>)
TSpec == TInit /\ [][TNext]_tvars
=============================================================================
