\* X24 negative control: Dev_PingSuppressBit
SPECIFICATION Spec
CONSTANTS
  Cases <- MCCallCases
  Dev_PingSuppressBit = TRUE
  Dev_ReadSessionReturnsNegative = FALSE
  Dev_DtcMaskConfirmedOnly = FALSE
  Dev_ClearOneGroup = FALSE
  Dev_VinWrongDid = FALSE
  Dev_ConfigDropped = FALSE
  Dev_MissingNotTimeout = FALSE
  Dev_IdentOmitsOutOfRange = FALSE
  Dev_ServiceAcceptsSubFunction = FALSE
  Dev_ClassTableGap = FALSE
  Dev_AsExceptionRaises = FALSE
  Dev_NoTriggerPasses = FALSE
  Dev_MismatchIgnoresNegative = FALSE
  Dev_ResetKeepsSecurity = FALSE
  Dev_JsonBytesRaw = FALSE
  Dev_JsonUnsorted = FALSE
  Dev_SecondStartLeaks = FALSE
  Dev_WaitResurrects = FALSE
  Dev_DieOnTimeout = FALSE
  Dev_DieOnConnErr = FALSE
  Dev_StopLeavesRunning = FALSE
  Dev_StopHoldsMutex = FALSE
  Dev_StopWithoutStartRaises = FALSE
INVARIANT ContractHolds
INVARIANT DoneIsTotal
INVARIANT Progress
PROPERTY Terminates
CHECK_DEADLOCK FALSE
