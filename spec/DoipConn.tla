------------------------------ MODULE DoipConn ------------------------------
(* Design layer of C06: one DoIPConnection as gallia implements it
   (gallia/transports/doip.py), frame level, one action per await point:

     reader task   _read_worker: takes frames off the TCP stream; answers alive
                   checks itself; queues everything else
     client        a script of write / read operations
                   write = take the mutex; send; scan the queue for the ACK while
                           holding the mutex (skipped frames are handed back)
                   read  = per loop iteration: take the mutex; wait for a frame;
                           release; skip frames that are not diagnostic messages
                           for us
     mutex         asyncio.Lock (FIFO)
     gateway       environment: may send any frame of the alphabet at any time

   Timers follow the maximal-progress rule: a timeout fires only when no
   internal action is enabled (processing takes no time on the asyncio loop),
   which keeps the model untimed.

   Deviation constants reproduce the behaviour of the pinned tree (both were
   genuine defects, repaired by fix: commits; kept as negative controls):
     Dev_S12_AliveNeedsMutex  the alive-check response is written under the mutex
     Dev_S13_RequeueAtTail    skipped frames are appended behind newer frames
*)
EXTENDS Naturals, Sequences, FiniteSets, TLC

CONSTANTS MaxFrames, Script, Dev_S12_AliveNeedsMutex, Dev_S13_RequeueAtTail

VARIABLES inbuf,      \* frames sent by the gateway, not yet taken by the reader task
          nsent,      \* number of frames sent so far
          ndiag,      \* number of diagnostic messages for us sent so far (they carry ids 1..ndiag)
          rq,         \* asyncio read queue
          unread,     \* frames handed back by a consumer (served before rq)
          holder, waiters,   \* the connection mutex
          rd,         \* reader task: "run" | "want" (blocked on the mutex, alive check pending)
          cpc, ip,    \* client: program counter, index into Script
          unexp,      \* frames skipped by the operation in progress
          out,        \* what was written to the TCP stream
          delivered,  \* ids returned by reads, in order
          closed, late, ackMissed, results

vars == <<inbuf, nsent, ndiag, rq, unread, holder, waiters, rd, cpc, ip, unexp, out, delivered,
          closed, late, ackMissed, results>>

Frames == {<<"ack">>, <<"ackOther">>, <<"diagOther">>, <<"alive">>, <<"nackBad">>, <<"unknown">>}
IsDiag(f) == Len(f) = 2 /\ f[1] = "diag"

Init ==
  /\ inbuf = <<>> /\ nsent = 0 /\ ndiag = 0 /\ rq = <<>> /\ unread = <<>>
  /\ holder = "none" /\ waiters = <<>> /\ rd = "run"
  /\ cpc = "idle" /\ ip = 1 /\ unexp = <<>> /\ out = <<>> /\ delivered = <<>>
  /\ closed = FALSE /\ late = FALSE /\ ackMissed = FALSE /\ results = <<>>

\* ----- asyncio.Lock (FIFO hand-over)
Acquire(p) == IF holder = "none" /\ waiters = <<>>
              THEN holder' = p /\ UNCHANGED waiters
              ELSE waiters' = Append(waiters, p) /\ UNCHANGED holder
Release == IF waiters = <<>> THEN holder' = "none" /\ UNCHANGED waiters
           ELSE holder' = Head(waiters) /\ waiters' = Tail(waiters)
LeaveQueue(p) == waiters' = SelectSeq(waiters, LAMBDA x : x # p) /\ UNCHANGED holder

\* ----- frames available to a consumer
Avail     == unread # <<>> \/ rq # <<>>
NextFrame == IF unread # <<>> THEN Head(unread) ELSE Head(rq)
Pop       == IF unread # <<>> THEN unread' = Tail(unread) /\ UNCHANGED rq
             ELSE rq' = Tail(rq) /\ UNCHANGED unread
\* take the next frame AND hand back the skipped ones (u)
PopAndRequeue(u) ==
  IF Dev_S13_RequeueAtTail
  THEN /\ unread' = unread
       /\ rq' = (IF unread # <<>> THEN rq ELSE Tail(rq)) \o u
       \* (with the deviation `unread` is never filled, so the first branch is dead)
  ELSE IF unread # <<>> THEN unread' = u \o Tail(unread) /\ UNCHANGED rq
       ELSE unread' = u /\ rq' = Tail(rq)
Requeue(u) == IF Dev_S13_RequeueAtTail THEN rq' = rq \o u /\ UNCHANGED unread
              ELSE unread' = u \o unread /\ UNCHANGED rq

Finish(r) == /\ results' = Append(results, r)
             /\ ip' = ip + 1
             /\ cpc' = IF ip + 1 > Len(Script) THEN "done" ELSE "idle"

\* ----- environment
GwSend(f) ==
  /\ nsent < MaxFrames /\ ~closed /\ cpc # "done"
  /\ nsent' = nsent + 1
  /\ inbuf' = Append(inbuf, f)
  /\ ndiag' = IF IsDiag(f) THEN ndiag + 1 ELSE ndiag
  /\ UNCHANGED <<rq, unread, holder, waiters, rd, cpc, ip, unexp, out, delivered, closed, late, ackMissed, results>>

\* ----- reader task
ReaderTake ==
  /\ rd = "run" /\ inbuf # <<>> /\ ~closed
  /\ inbuf' = Tail(inbuf)
  /\ LET f == Head(inbuf) IN
     IF f = <<"alive">>
     THEN IF Dev_S12_AliveNeedsMutex
          THEN Acquire("reader") /\ rd' = "want" /\ UNCHANGED <<rq, out>>
          ELSE out' = Append(out, "aliveResp") /\ UNCHANGED <<rq, rd, holder, waiters>>
     ELSE IF f = <<"unknown">> THEN UNCHANGED <<rq, rd, holder, waiters, out>>
     ELSE rq' = Append(rq, f) /\ UNCHANGED <<rd, holder, waiters, out>>
  /\ UNCHANGED <<nsent, ndiag, unread, cpc, ip, unexp, delivered, closed, late, ackMissed, results>>

ReaderAlive ==
  /\ rd = "want" /\ holder = "reader"
  /\ out' = Append(out, "aliveResp") /\ rd' = "run" /\ Release
  /\ UNCHANGED <<inbuf, nsent, ndiag, rq, unread, cpc, ip, unexp, delivered, closed, late, ackMissed, results>>

\* ----- client: write
WStart ==
  /\ cpc = "idle" /\ Script[ip] = "write"
  /\ Acquire("client") /\ cpc' = "wAcq" /\ unexp' = <<>>
  /\ UNCHANGED <<inbuf, nsent, ndiag, rq, unread, rd, ip, out, delivered, closed, late, ackMissed, results>>

WSend ==
  /\ cpc = "wAcq" /\ holder = "client"
  /\ out' = Append(out, "diag") /\ cpc' = "wAck"
  /\ UNCHANGED <<inbuf, nsent, ndiag, rq, unread, holder, waiters, rd, ip, unexp, delivered, closed, late, ackMissed, results>>

AckStep ==
  /\ cpc = "wAck" /\ Avail /\ ~closed
  /\ LET f == NextFrame IN
     IF f \in {<<"ack">>, <<"nackBad">>}
     THEN /\ PopAndRequeue(unexp) /\ unexp' = <<>> /\ Release
          /\ Finish(IF f = <<"ack">> THEN "ok" ELSE "connerr")
     ELSE /\ Pop /\ unexp' = Append(unexp, f)
          /\ UNCHANGED <<holder, waiters, cpc, ip, results>>
  /\ UNCHANGED <<inbuf, nsent, ndiag, rd, out, delivered, closed, late, ackMissed>>

\* ----- client: read
RStart ==
  /\ cpc = "idle" /\ Script[ip] = "read"
  /\ unexp' = <<>>
  /\ Acquire("client") /\ cpc' = "rAcq"
  /\ UNCHANGED <<inbuf, nsent, ndiag, rq, unread, rd, ip, out, delivered, closed, late, ackMissed, results>>

RLocked ==
  /\ cpc = "rAcq" /\ holder = "client"
  /\ IF closed
     THEN Release /\ Requeue(unexp) /\ unexp' = <<>> /\ Finish("connerr")
     ELSE cpc' = "rWait" /\ UNCHANGED <<holder, waiters, rq, unread, unexp, ip, results>>
  /\ UNCHANGED <<inbuf, nsent, ndiag, rd, out, delivered, closed, late, ackMissed>>

RGot ==
  /\ cpc = "rWait" /\ Avail
  /\ LET f == NextFrame IN
     IF IsDiag(f)
     THEN /\ PopAndRequeue(unexp) /\ unexp' = <<>> /\ Release
          /\ delivered' = Append(delivered, f[2]) /\ Finish("ok")
     ELSE /\ Pop /\ unexp' = Append(unexp, f)
          \* release and take the mutex again for the next loop iteration
          /\ IF waiters = <<>> THEN UNCHANGED <<holder, waiters>> /\ cpc' = "rWait"
             ELSE holder' = Head(waiters) /\ waiters' = Append(Tail(waiters), "client") /\ cpc' = "rAcq"
          /\ UNCHANGED <<delivered, ip, results>>
  /\ UNCHANGED <<inbuf, nsent, ndiag, rd, out, closed, late, ackMissed>>

\* ----- timers (maximal progress)
InternalEnabled ==
  \/ (rd = "run" /\ inbuf # <<>> /\ ~closed)
  \/ (rd = "want" /\ holder = "reader")
  \/ (cpc = "idle")
  \/ (cpc = "wAcq" /\ holder = "client")
  \/ (cpc = "wAck" /\ Avail /\ ~closed)
  \/ (cpc = "rAcq" /\ holder = "client")
  \/ (cpc = "rWait" /\ Avail)

AliveUnanswered == rd = "want" \/ \E i \in 1..Len(inbuf) : inbuf[i] = <<"alive">>
AckPresent == \E s \in {inbuf, rq, unread, unexp} : \E i \in 1..Len(s) : s[i] = <<"ack">>

AckTimeout ==
  /\ cpc \in {"wAck", "wAcq"} /\ ~InternalEnabled
  /\ closed' = TRUE
  /\ IF cpc = "wAck" THEN Release /\ Requeue(unexp) ELSE LeaveQueue("client") /\ UNCHANGED <<rq, unread>>
  /\ unexp' = <<>>
  /\ Finish("brokenpipe")
  /\ late' = (late \/ AliveUnanswered)
  /\ ackMissed' = (ackMissed \/ (cpc = "wAck" /\ AckPresent))
  /\ UNCHANGED <<inbuf, nsent, ndiag, rd, out, delivered>>

RTimeout ==
  /\ cpc \in {"rAcq", "rWait"} /\ ~InternalEnabled
  /\ IF cpc = "rWait" THEN Release ELSE LeaveQueue("client")
  /\ Requeue(unexp) /\ unexp' = <<>>
  /\ Finish("timeout")
  /\ late' = (late \/ AliveUnanswered)
  /\ UNCHANGED <<inbuf, nsent, ndiag, rd, out, delivered, closed, ackMissed>>

Next ==
  \/ \E f \in Frames : GwSend(f)
  \/ GwSend(<<"diag", ndiag + 1>>)
  \/ ReaderTake \/ ReaderAlive \/ WStart \/ WSend \/ AckStep \/ RStart \/ RLocked \/ RGot
  \/ AckTimeout \/ RTimeout

Internal == ReaderTake \/ ReaderAlive \/ WStart \/ WSend \/ AckStep \/ RStart \/ RLocked \/ RGot
            \/ AckTimeout \/ RTimeout

Spec == Init /\ [][Next]_vars /\ WF_vars(Internal)

----------------------------------------------------------------------------
(* properties -- untimed cores of the contract clauses *)
InSeq(s, x) == \E i \in 1..Len(s) : s[i] = x

D2_InOrder == \A i \in 1..Len(delivered) : delivered[i] = i
D3_NothingLost ==
  ~closed => \A i \in 1..ndiag :
      i <= Len(delivered) \/ \E s \in {inbuf, rq, unread, unexp} : InSeq(s, <<"diag", i>>)
D4_AckedWritesSucceed == ~ackMissed
D5_AliveNotStalled == ~late     \* no timer ever fires over an unanswered alive check
MutexSane == /\ holder \in {"none", "client", "reader"}
             /\ (cpc \in {"idle", "done"} => holder # "client")
Terminates == <>(cpc = "done")
=============================================================================
