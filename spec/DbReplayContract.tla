------------------------- MODULE DbReplayContract -------------------------
(* Property C12 -- a database-backed virtual ECU replays the recorded ECU's
   answers.  CONTRACT LAYER: operators only, written from the property
   statement, not from the code.  Nothing in here knows how a state is
   derived, how rows are looked up or what a cursor is.

   One observed replay `x` (built by the harness from the real objects):

     x.steps     sequence of records, one per request of the recorded sequence,
                 in recorded order:
                   req  request bytes (Seq(0..255)) as logged / as replayed
                   rec  reply bytes the database holds for that exchange,
                        <<>> = no reply was recorded (silence).  "Holds" = what
                        any ordinary reader of the database sees, i.e. every
                        committed row, wherever its bytes physically sit (main
                        file or write-ahead log, recorder / other connections
                        still open or not): the statement says "recorded into
                        the database", not "checkpointed"
                   rep  bytes the virtual ECU answered, <<>> = it stayed silent,
                        <<-1>> = it raised instead of answering
                   cs   state the client logged with the exchange
                        [session |-> n, level |-> n]   (level 0 = none)
                   ss   state the replaying server held when it was asked
     x.base      the answers (sequence of byte sequences) the virtual ECU gave
                 for the same recorded run when the database contained ONLY that
                 run; <<>> when this replay is itself that isolated one
     x.isolating TRUE iff the database holds only the recorded run, or the
                 selection used (ECU name and/or properties) separates the
                 recorded run from everything else in the database
     x.oob       indices i such that, before exchange i was recorded, the client
                 changed its logged state WITHOUT an exchange (power cycle,
                 state.reset()).  From then on the stated presupposition may
                 legitimately fail.

   Clauses (one per sentence of the statement):
     Y1  reply_i(replay) = reply_i(recorded), silence where none was recorded
     Y2  ... independent of the other runs / ECUs / property sets in the database
         when selected by ECU name or properties
     Y0  the stated presupposition: the state the client logged equals the state
         the replaying server derived.  Both saw the same exchanges 1..i-1 (same
         requests, same replies because Y1 held so far), so with no out-of-band
         client change a difference at i means the two sides do NOT "track
         session and security level identically" -- reported as a violation.
         After an out-of-band change the presupposition is void: every outcome
         is accepted (class "void").
*)
EXTENDS Integers, Sequences, FiniteSets, TLC

Silence == <<>>

StateEq(a, b) == a.session = b.session /\ a.level = b.level

Y0At(x, i) == StateEq(x.steps[i].cs, x.steps[i].ss)
Y1At(x, i) == x.steps[i].rep = x.steps[i].rec

BadSteps(x) == {i \in 1..Len(x.steps) : ~Y0At(x, i) \/ ~Y1At(x, i)}
MinOf(S)    == CHOOSE m \in S : \A n \in S : m <= n

OobBefore(x, i) == \E j \in 1..Len(x.oob) : x.oob[j] <= i

LblY0  == "Y0/client-and-server-derive-different-state-from-the-same-exchanges"
LblY2  == "Y2/answer-changes-with-other-database-content-or-selection"
LblY1x == "Y1/virtual-ecu-raised-instead-of-answering"
LblY1r == "Y1/reply-where-silence-was-recorded"
LblY1s == "Y1/silence-where-a-reply-was-recorded"
LblY1b == "Y1/reply-bytes-differ-from-recorded"
Y1Labels == {LblY1x, LblY1r, LblY1s, LblY1b}

(* Verdict: <<label, class, index>>.
     label  "ok" or the label of the first clause broken
     class  "checked"      the statement decides this replay
            "void"         presupposition void (out-of-band client state change)
            "unspecified"  the selection does not separate the recorded run from
                           other runs: the statement promises nothing
     index  first offending exchange (0 if none) *)
Verdict(x) ==
  IF ~x.isolating THEN <<"ok", "unspecified", 0>>
  ELSE IF BadSteps(x) = {} THEN <<"ok", "checked", 0>>
  ELSE
    LET i == MinOf(BadSteps(x))
        s == x.steps[i]
    IN
    IF ~Y0At(x, i) THEN
         IF OobBefore(x, i) THEN <<"ok", "void", i>> ELSE <<LblY0, "checked", i>>
    ELSE IF Len(x.base) >= i /\ x.base[i] = s.rec THEN <<LblY2, "checked", i>>
    ELSE IF s.rep = <<-1>>  THEN <<LblY1x, "checked", i>>
    ELSE IF s.rec = Silence THEN <<LblY1r, "checked", i>>
    ELSE IF s.rep = Silence THEN <<LblY1s, "checked", i>>
    ELSE <<LblY1b, "checked", i>>
=============================================================================
