SPECIFICATION Spec
CHECK_DEADLOCK FALSE
VIEW View
CONSTANTS
  Part = "iso"
  Space <- IsoAll
  Ids <- NoIds
  Lens <- PduLens
  Errnos <- ErrAll
  MaxFrames = 0
  MaxOps = 0
  Mixed = FALSE
  Allow <- NoOps
  Buf = 99
  Export = TRUE
  Dev_FdFlagDropped = FALSE
  Dev_RtrBit = FALSE
  Dev_UnpackNoCut = FALSE
  Dev_SffMaskAlways = FALSE
  Dev_MaskSwapped = FALSE
  Dev_JoinSticky = FALSE
  Dev_NoJoin = FALSE
  Dev_TimeoutEats = FALSE
  Dev_DstTruthy = FALSE
  Dev_CloseNoop = FALSE
  Dev_IdleStopsOnTimeout = FALSE
  Dev_PadSwapped = FALSE
  Dev_ExtTruthy = FALSE
  Dev_BindSwapped = FALSE
  Dev_BindFirst = FALSE
  Dev_NoLLOpts = FALSE
  Dev_HexRejected = FALSE
  Dev_EcommReraised = FALSE
  Dev_EilseqTimeout = FALSE
  Dev_ErrSwallowed = FALSE
INVARIANT Inv_N0_ValidTarget
INVARIANT Inv_O1_Flags
INVARIANT Inv_O2_Values
INVARIANT Inv_O3_TxTime
INVARIANT Inv_O4_LinkLayer
INVARIANT Inv_O5_Bind
INVARIANT Inv_O6_BeforeBind
INVARIANT Inv_P1_PduWritten
INVARIANT Inv_P2_PduRead
INVARIANT Inv_P3_PduOrder
INVARIANT Inv_E1_FlowErrors
INVARIANT Inv_E2_SocketTimeout
INVARIANT Inv_E3_NotSwallowed
INVARIANT Inv_S2_ReturnValue
INVARIANT Inv_C1_Closed
INVARIANT Inv_X_NoOther
