SPECIFICATION Spec
CONSTANTS
  Slots = 6
  HasTimeout = FALSE
  Dev_NoReconnect = FALSE
INVARIANT ContractHolds
PROPERTY Terminates
CHECK_DEADLOCK FALSE
