---------------------------- MODULE Trace_DbLog ----------------------------
(* Code -> spec: validates recorded runs of the real ECU + DBHandler (rows read
   back from the sqlite file after the shutdown path) against the contract
   layer of DbLog (clauses B1..B4 of C11).  One initial state per recorded run;
   the verdict is total: "ok" or the first clause broken, with the index of the
   exchange (or row) it was detected at. *)
EXTENDS DbLogContract, Json, IOUtils

Batch == JsonDeserialize(IOEnv.TRACE_FILE)
T == Batch.traces

VARIABLES tid, verdict
tvars == <<tid, verdict>>

Label(v) == IF v[1] = "ok" THEN "ok" ELSE v[1] \o "/" \o v[2]

TInit == tid \in 1..Len(T) /\ verdict = "?"
TNext == /\ verdict = "?"
         /\ LET v == Verdict(T[tid]) IN
            /\ verdict' = Label(v)
            /\ PrintT(<<"V", T[tid].id, Label(v), v[3]>>)
         /\ tid' = tid
TSpec == TInit /\ [][TNext]_tvars
=============================================================================
