SPECIFICATION Spec
CONSTANTS
  MaxRetry = 2
  MaxPending = 120
  MaxSilent = 40
  PollMs = 500
  TimeoutMs = 2000
  Lim <- LimReal
  Dev_S9_PendingConnErrRaw = FALSE
  Dev_S10_PendingLimitDropsFinal = FALSE
INVARIANT TypeOK
INVARIANT K1_WriteBound
INVARIANT K4_Verdict
CHECK_DEADLOCK FALSE
