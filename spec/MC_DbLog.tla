----------------------------- MODULE MC_DbLog -----------------------------
(* Model-checking wrapper of DbLog: constant sets for the cfg files. *)
EXTENDS DbLog
AllSix    == {"Pos", "Neg", "Timeout", "Mismatch", "Malformed", "ConnErr"}
AllSeven  == AllSix \cup {"Cut"}
CutOnly   == {"Pos", "Cut"}
ThreeOut  == {"Pos", "Timeout", "Mismatch"}
TwoKinds  == {"Plain", "Sess"}
AllKinds  == {"Plain", "Sess", "Sec"}
BothTags  == {FALSE, TRUE}
NoTags    == {FALSE}
=============================================================================
