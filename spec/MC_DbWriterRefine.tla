------------------------- MODULE MC_DbWriterRefine -------------------------
(* DbWriter (X03 design layer) refines DbWriterInd, whose inductive invariant Apalache discharges. *)
EXTENDS DbWriter
Abs == INSTANCE DbWriterInd
AbsSpec == Abs!Spec
AbsIndInv == Abs!IndInv
AbsSafety == Abs!Safety
=============================================================================
