---------------------------- MODULE MC_PduFuzz ----------------------------
EXTENDS PduFuzz

Cfg(svc, dids, ss, mn, mx, ni, pre) ==
  [svc |-> svc, dids |-> dids, sessions |-> ss, min |-> mn, max |-> mx, iter |-> ni, prefix |-> pre]

\* a: WriteDataByIdentifier, identifier across the byte boundary, two sessions, one iteration, all classes
CfgsA == {Cfg(46, {258}, ss, mn, 1, 1, pre) : ss \in {{1, 2}, {2, 3}}, mn \in {0, 1}, pre \in {<<>>, <<170>>}}
\* d: two sessions x two iterations (counters of consecutive sessions)
CfgsD == {Cfg(46, {258}, {1, 2}, 1, 1, 2, <<>>)}
\* b: RoutineControl (startRoutine), two identifiers, one session, one iteration, lengths 1..2
CfgsB == {Cfg(49, {255, 256}, {2}, 1, 2, 1, <<>>), Cfg(49, {1}, {1, 3}, 2, 2, 1, <<187, 204>>)}
\* c: three iterations in one session (sequences of faults), and zero iterations
CfgsC == {Cfg(46, {4660}, {2}, 1, 1, 3, <<>>), Cfg(46, {4660}, {1, 2}, 1, 1, 0, <<>>)}
\* sim: larger configurations for simulation (spec -> code)
CfgsS == {Cfg(svc, dids, ss, mn, mn + 2, ni, pre) :
            svc \in {46, 49}, dids \in {{258}, {255, 4660}}, ss \in {{1}, {2, 3}, {1, 2, 3}}, mn \in {0, 1, 3},
            ni \in {1, 3, 4}, pre \in {<<>>, <<170, 187>>}}

ClassesAll  == {"pos", "posfb", "neg49", "neg51", "sil", "mis", "mal", "drop"}
ClassesCore == {"pos", "neg49", "sil", "mal", "drop"}
ClassesD    == {"pos", "neg49", "sil", "mal"}
RefuseAny   == SUBSET {2, 3}
RefuseSome  == {{}, {2}, {3}}
RefuseNone  == {{}}
Refuse2     == {{2}}
=============================================================================
