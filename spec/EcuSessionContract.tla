------------------------- MODULE EcuSessionContract -------------------------
(* Growth beyond the listed properties (DESIGN section 5, item 1): the documented behaviour of
   ECU.check_and_set_session(expected, retries) -- "reads the current session and (re)tries to set the
   session to the expected session if they do not match.  Returns True if the current session matches the
   expected session, or if read_session is not supported by the ECU or in the current session."

   Observed per call (requests seen by the scripted ECU, ground truth attached):
     [e |-> "Read", kind, s]  kind \in {"session","unsupported","timeout","othernr"}; s = reported session (0 if none)
     [e |-> "Dsc", s, ok]   DiagnosticSessionControl(s) and whether the ECU accepted it
     [e |-> "Ret", val]     the call returned val \in {"True","False","Raise"}
   Clauses
     S1  the first request is a session read
     S2  True  => the last read reported `expected`, or was unsupported / timed out (a timed-out read may also
         surface as the client's missing-response error: the documentation is silent, both are accepted)
     S3  False => at least retries+1 change attempts were made and the last read reported something else
     S4  every session change requests `expected` (default-session fallbacks through stored transitions aside),
         and at most retries+1 top-level change attempts are made
     S5  no request after a read that reported `expected`
*)
EXTENDS Naturals, Sequences, FiniteSets, TLC

IsRead(x) == x.e = "Read"
Reads(s) == SelectSeq(s, IsRead)
Dscs(s)  == SelectSeq(s, LAMBDA x : x.e = "Dsc")

Verdict(c, s) ==
  LET n == Len(s)
      body == SubSeq(s, 1, n - 1)
      ret == s[n]
      rd == Reads(body)
      ds == Dscs(body)
  IN
  IF n = 0 \/ ret.e # "Ret" THEN "trace/no-return"
  ELSE IF Len(body) = 0 \/ body[1].e # "Read" THEN "S1/first-request-is-not-a-session-read"
  ELSE IF \E i \in 1..Len(body) - 1 : body[i].e = "Read" /\ body[i].kind = "session" /\ body[i].s = c.expected
       THEN "S5/requests-after-the-expected-session-was-confirmed"
  ELSE IF \E i \in 1..Len(ds) : ds[i].s # c.expected THEN "S4/session-change-to-another-session"
  ELSE IF Len(ds) > c.retries + 1 THEN "S4/more-than-retries+1-change-attempts"
  ELSE IF ret.val = "True" THEN
       (IF rd[Len(rd)].kind \in {"unsupported", "timeout"} \/ (rd[Len(rd)].kind = "session" /\ rd[Len(rd)].s = c.expected) THEN "ok"
        ELSE "S2/true-although-the-last-read-reported-another-session")
  ELSE IF ret.val = "False" THEN
       (IF Len(ds) < c.retries + 1 THEN "S3/false-before-retries+1-attempts"
        ELSE IF rd[Len(rd)].kind = "session" /\ rd[Len(rd)].s = c.expected THEN "S3/false-although-the-expected-session-was-read"
        ELSE "ok")
  ELSE IF ret.val = "Raise" THEN
       (IF \E i \in 1..Len(rd) : rd[i].kind \in {"othernr", "timeout"} THEN "ok" ELSE "S2/raised-without-an-unexpected-negative-response")
  ELSE "trace/unknown-return"
=============================================================================
