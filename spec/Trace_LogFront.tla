---------------------------- MODULE Trace_LogFront ----------------------------
(* Code -> spec for X19: validates, against LogFrontContract, what the REAL
   logging front end of gallia did (harness/props/x19.py, harness/x19_run.py):
   sessions of setup_logging / add_zst_log_handler / remove_zst_log_handler /
   logger calls with what every sink received ("run"), hr renderings ("hr"),
   pairs of runs that must print the same ("pair") and the pure level tables
   ("levels", "fromstr", "verb", "filelevel").  One initial state per recorded
   execution; total verdicts <<"V", id, label, nUnspecified,
   index of the event that broke the clause>>.                *)
EXTENDS LogFrontContract, Json, IOUtils

Batch == JsonDeserialize(IOEnv.TRACE_FILE)
T == Batch.traces

VARIABLES tid, verdict
tvars == <<tid, verdict>>

TInit == tid \in 1..Len(T) /\ verdict = "?"
TNext == /\ verdict = "?"
         /\ verdict' = Verdict(T[tid])
         /\ tid' = tid
         /\ PrintT(<<"V", T[tid].id, verdict', Unspecified(T[tid]), At(T[tid])>>)
TSpec == TInit /\ [][TNext]_tvars
=============================================================================
