------------------------- MODULE Trace_LinesStream -------------------------
(* Code -> spec: validates recorded executions of the real tcp-lines /
   unix-lines transports (client side) and of the real server loop
   TCPUDSServerTransport.handle_client against the contract layer of C19.
   One initial state per recorded execution; the verdict is total: "ok" or the
   label of the first clause broken (T1/.., T2/.., T3/..; H/.. = the recording
   itself is malformed, a machinery failure).

   Executions recorded with bytes = 1 additionally carry the byte strings
   (tab[c] = bytes of content class c, rb = byte strings returned by the
   successful reads in order, wire = all bytes fed).  For those TLC also
   checks, with the design layer's codec and the Framing reference parse,
     H/projection   the harness' content classes are what it claims (equal bytes <=> equal class)
     D/wire-format  the stream is a prefix of Encode(sent)            (design level: DRIFT only)
     D/decode       the k-th successful read returned the decoding of the k-th line / of the
                    unterminated rest                                 (design level: DRIFT only) *)
EXTENDS LinesStreamContract, LinesCodec, Json, IOUtils, TLC

Batch == JsonDeserialize(IOEnv.TRACE_FILE)
T == Batch.traces

VARIABLES tid, verdict
tvars == <<tid, verdict>>

F == INSTANCE Framing WITH FrameLen <- LineEnd, stream <- <<>>, buf <- <<>>

IsPrefix(s, t) == Len(s) <= Len(t) /\ SubSeq(t, 1, Len(s)) = s
Sel(evs, e) == SelectSeq(evs, LAMBDA x : x.e = e)

Projection(x) ==
  LET ok == SelectSeq(x.ev, LAMBDA e : e.e = "ReadEnd" /\ e.r = "Msg") IN
  /\ Len(ok) = Len(x.rb)
  /\ \A k \in 1..Len(ok) :
        IF ok[k].c = 0 THEN \A c \in 1..Len(x.tab) : x.tab[c] # x.rb[k]
        ELSE ok[k].c \in 1..Len(x.tab) /\ x.tab[ok[k].c] = x.rb[k]
  /\ \A c, d \in 1..Len(x.tab) : c # d => x.tab[c] # x.tab[d]

WireFormat(x) ==
  LET s == Sel(x.ev, "Send") IN
  IsPrefix(x.wire, Encode([i \in 1..Len(s) |-> x.tab[s[i].c]]))

Decoding(x) ==
  LET lines == F!Frames(x.wire)
      rest  == F!Residue(x.wire) IN
  \A k \in 1..Len(x.rb) :
     LET d == IF k <= Len(lines) THEN DecodeLine(lines[k]) ELSE DecodeLine(rest) IN
     d.ok /\ d.m = x.rb[k]

ByteVerdict(x) ==
  IF x.bytes = 0 THEN "none"
  ELSE IF ~Projection(x) THEN "H/projection"
  ELSE IF ~WireFormat(x) THEN "D/wire-format"
  ELSE IF ~Decoding(x) THEN "D/decode"
  ELSE "ok"

TInit == tid \in 1..Len(T) /\ verdict = "?"
TNext == /\ verdict = "?"
         /\ verdict' = Verdict(T[tid].ev)
         /\ tid' = tid
         /\ PrintT(<<"V", T[tid].id, verdict', ByteVerdict(T[tid])>>)
TSpec == TInit /\ [][TNext]_tvars
=============================================================================
