------------------------- MODULE RunLifecycleSteps -------------------------
(* Design layer of C15, part 1: the phases of BaseCommand.entry_point() /
   AsyncScript.run() / Scanner.teardown() as PURE step functions over a run
   state record.  Variable-free, so that both the state machine
   (RunLifecycle.tla) and the trace spec (Trace_RunLifecycle.tla, which asks
   "which set of known deviations reproduces this observation exactly?") can
   use the same definitions.

   dv = set of deviation names in force:
     "S21"  run_hook: a failing hook raises UnboundLocalError (`p` unbound)
     "S22"  Scanner.teardown disconnects the DB handler before
            _db_finish_run_meta => end_time / exit_code never written
     "S23"  SIGINT under asyncio.run arrives as CancelledError, which no except
            clause of entry_point maps: exit_code stays 0, META/DB say 0, the
            code after the finally block (post-hook, unlock) is skipped, the
            process dies with 130
     "S23b" the DB is opened before the try block: a failure there escapes
            entry_point (no META, log handler left open, lock kept)
*)
EXTENDS RunLifecycleContract

AllDevs == {"S21", "S22", "S23", "S23b"}

PhaseOrder == <<"Lock", "Artifacts", "LogOpen", "PreHook", "DbOpen", "Setup", "Main", "Teardown",
                "Map", "DbClose", "MetaWrite", "LogClose", "PostHook", "Unlock", "Exit">>

NoRow == [present |-> FALSE, hasEnd |-> FALSE, exit |-> -1]

S0 == [lock |-> FALSE, art |-> FALSE, logOpen |-> FALSE, logClosed |-> FALSE,
       pre |-> 0, post |-> [ran |-> 0, exit |-> -1, metaExit |-> -1],
       dbHandler |-> FALSE, dbConn |-> FALSE, row |-> NoRow, trig |-> FALSE,
       pend |-> "",          \* exception in flight out of run(): "", a RaisedHow, or "DbOpen"
       code |-> 0,           \* local `exit_code`
       meta |-> [present |-> FALSE, exit |-> -1],
       phases |-> <<>>, setupOk |-> FALSE,
       esc |-> "",           \* what escaped entry_point: "", "Error", "Interrupt"
       reported |-> FALSE, exit |-> -1]

FailsAt(c, p) == Effective(c) /\ c.point = p
In(s)         == s.esc = ""       \* still inside entry_point

\* does the failure injected at Setup/Teardown come before the base class' part?
Before(c) == c.kind = "Script" \/ c.where = "pre"

Raise(c) == c.how          \* only called for RaisedHows

----------------------------------------------------------------------------
\* the lock comes first: a run that is interrupted while it waits for a lock file held by another run
\* (CancelledError out of _aquire_flock) has not created anything yet and does not own the lock
Lock(c, dv, s)      == IF FailsAt(c, "LockWait") /\ c.how = "CtrlC" THEN [s EXCEPT !.esc = "Interrupt"]
                       ELSE [s EXCEPT !.lock = c.lock]
Artifacts(c, dv, s) == IF ~In(s) THEN s ELSE [s EXCEPT !.art = c.art]
LogOpen(c, dv, s)   == IF ~In(s) THEN s ELSE [s EXCEPT !.logOpen = c.art]

HookStep(c, dv, s, p) ==
  IF "S21" \in dv THEN [s EXCEPT !.esc = "Error"] ELSE [s EXCEPT !.reported = TRUE]

PreHook(c, dv, s) ==
  IF ~In(s) \/ ~c.hooks THEN s
  ELSE LET s1 == [s EXCEPT !.pre = 1]
       IN IF FailsAt(c, "PreHook") /\ c.how = "HookFails" THEN HookStep(c, dv, s1, "pre") ELSE s1

DbOpen(c, dv, s) ==
  IF ~In(s) \/ ~c.db THEN s
  ELSE IF FailsAt(c, "DbOpen") /\ c.how = "DbFails"
       THEN IF "S23b" \in dv THEN [s EXCEPT !.esc = "Error", !.dbHandler = TRUE]
            ELSE [s EXCEPT !.pend = "DbOpen", !.dbHandler = TRUE]
       ELSE [s EXCEPT !.dbHandler = TRUE, !.dbConn = TRUE, !.row = [NoRow EXCEPT !.present = TRUE]]

Setup(c, dv, s) ==
  IF ~In(s) \/ s.pend # "" THEN s
  ELSE LET s1 == [s EXCEPT !.phases = Append(@, "setup")]
       IN IF FailsAt(c, "Setup") /\ c.how \in RaisedHows
          THEN [s1 EXCEPT !.pend = Raise(c)]
          ELSE [s1 EXCEPT !.setupOk = TRUE]

Main(c, dv, s) ==
  IF ~In(s) \/ ~s.setupOk THEN s
  ELSE LET s1 == [s EXCEPT !.phases = Append(@, "main"),
                           \* the test command arms a failing UPDATE trigger on run_meta
                           !.trig = (FailsAt(c, "DbClose") /\ c.how = "DbFails" /\ s.dbConn)]
       IN IF FailsAt(c, "Main") /\ c.how \in RaisedHows THEN [s1 EXCEPT !.pend = Raise(c)] ELSE s1

\* Scanner.teardown: with S22 it closes the DB connection that entry_point still needs
SuperTeardown(c, dv, s) ==
  IF c.kind \in ScannerKinds /\ "S22" \in dv /\ s.dbConn THEN [s EXCEPT !.dbConn = FALSE] ELSE s

Teardown(c, dv, s) ==     \* `finally: await self.teardown()` -- runs iff setup succeeded
  IF ~In(s) \/ ~s.setupOk THEN s
  ELSE LET s1 == [s EXCEPT !.phases = Append(@, "teardown")]
           fails == FailsAt(c, "Teardown") /\ c.how \in RaisedHows
       IN IF fails /\ Before(c) THEN [s1 EXCEPT !.pend = Raise(c)]
          ELSE LET s2 == SuperTeardown(c, dv, s1)
               IN IF fails THEN [s2 EXCEPT !.pend = Raise(c)] ELSE s2

\* the except clauses of entry_point
Map(c, dv, s) ==
  IF ~In(s) THEN s
  ELSE LET code ==
         CASE s.pend = ""           -> 0
           [] s.pend = "SysExit"    -> c.n
           [] s.pend = "KbdInt"     -> 130
           [] s.pend \in {"ExpConn", "ExpUds"} -> IF c.kind \in ScannerKinds THEN 74 ELSE 70
           [] s.pend \in {"Unexpected", "DbOpen"} -> 70
           [] s.pend = "CtrlC"      -> IF "S23" \in dv THEN 0 ELSE 130
       IN [s EXCEPT !.code = code,
                    !.pend = IF s.pend = "CtrlC" /\ "S23" \in dv THEN "CtrlC" ELSE ""]

DbClose(c, dv, s) ==      \* _db_finish_run_meta
  IF ~In(s) \/ ~s.dbConn THEN s
  ELSE [s EXCEPT !.dbConn = FALSE,
                 !.row = IF s.trig THEN @ ELSE [present |-> TRUE, hasEnd |-> TRUE, exit |-> s.code]]

MetaWrite(c, dv, s) ==
  IF ~In(s) \/ ~s.art THEN s ELSE [s EXCEPT !.meta = [present |-> TRUE, exit |-> s.code]]

LogClose(c, dv, s) ==
  IF ~In(s) \/ ~s.logOpen THEN s ELSE [s EXCEPT !.logClosed = TRUE]

PostHook(c, dv, s) ==
  IF ~In(s) THEN s
  ELSE IF s.pend = "CtrlC" THEN [s EXCEPT !.esc = "Interrupt"]     \* CancelledError leaves the finally block
  ELSE IF ~c.hooks THEN s
  ELSE LET s1 == [s EXCEPT !.post = [ran |-> 1, exit |-> s.code, metaExit |-> s.code]]
       IN IF FailsAt(c, "PostHook") /\ c.how = "HookFails" THEN HookStep(c, dv, s1, "post") ELSE s1

Unlock(c, dv, s) == IF In(s) THEN [s EXCEPT !.lock = FALSE] ELSE s

\* what `sys.exit(asyncio.run(cmd.entry_point()))` turns the outcome into
Exit(c, dv, s) ==
  [s EXCEPT !.exit = CASE s.esc = "Error"     -> 1       \* uncaught exception: traceback, status 1
                       [] s.esc = "Interrupt" -> 130     \* KeyboardInterrupt: dies by SIGINT (128+2)
                       [] OTHER               -> s.code]

Step(p, c, dv, s) ==
  CASE p = "Lock"      -> Lock(c, dv, s)
    [] p = "Artifacts" -> Artifacts(c, dv, s)
    [] p = "LogOpen"   -> LogOpen(c, dv, s)
    [] p = "PreHook"   -> PreHook(c, dv, s)
    [] p = "DbOpen"    -> DbOpen(c, dv, s)
    [] p = "Setup"     -> Setup(c, dv, s)
    [] p = "Main"      -> Main(c, dv, s)
    [] p = "Teardown"  -> Teardown(c, dv, s)
    [] p = "Map"       -> Map(c, dv, s)
    [] p = "DbClose"   -> DbClose(c, dv, s)
    [] p = "MetaWrite" -> MetaWrite(c, dv, s)
    [] p = "LogClose"  -> LogClose(c, dv, s)
    [] p = "PostHook"  -> PostHook(c, dv, s)
    [] p = "Unlock"    -> Unlock(c, dv, s)
    [] p = "Exit"      -> Exit(c, dv, s)

RECURSIVE RunFrom(_, _, _, _)
RunFrom(k, c, dv, s) == IF k > Len(PhaseOrder) THEN s ELSE RunFrom(k + 1, c, dv, Step(PhaseOrder[k], c, dv, s))

----------------------------------------------------------------------------
(* projection of a final run state on the observation alphabet *)
Obs(c, s) ==
  [exit     |-> s.exit,
   escaped  |-> s.esc,
   meta     |-> [present |-> s.meta.present, exit |-> s.meta.exit,
                 timesOk |-> s.meta.present, configOk |-> s.meta.present],
   log      |-> [present |-> s.logOpen, complete |-> s.logClosed, parsedAll |-> s.logClosed,
                 \* an unterminated zstd frame is not read at all by the harness
                 markers |-> IF s.logClosed THEN s.phases ELSE <<>>],
   lockFree |-> ~s.lock,
   db       |-> s.row,
   pre      |-> s.pre,
   post     |-> s.post,
   phases   |-> s.phases,
   reported |-> s.reported,
   rundir   |-> s.art]

Predict(c, dv) == Obs(c, RunFrom(1, c, dv, S0))

\* deviation sets that reproduce an observation exactly; smallest first
Explains(c, o)   == {dv \in SUBSET AllDevs : Predict(c, dv) = o}
MinExplain(c, o) == LET E == Explains(c, o) IN
                    IF E = {} THEN {"none"}
                    ELSE CHOOSE dv \in E : \A d2 \in E : Cardinality(dv) <= Cardinality(d2)
\* which single deviation of dv breaks clause lab for this case (empty: only the combination does)
Blame(c, dv, lab) == {d \in dv : \E i \in 1..Len(Labels(c, Predict(c, {d}))) : Labels(c, Predict(c, {d}))[i] = lab}
=============================================================================
