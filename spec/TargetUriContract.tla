------------------------- MODULE TargetUriContract -------------------------
(* C20, first sentence.  Written from the property statement only.

   "A target URI built from a scheme, host (name, IPv4 or IPv6), optional port
    and parameter map - as the discovery scanners emit them - parses back to the
    same scheme, host, port and parameters [U1..U4] and is accepted by the
    transport of that scheme with the same numeric settings [T1, T2], and
    host:port strings split and join losslessly [H1, H2]."

   Strings that matter for the comparison (hosts) are sequences of character
   codes; "the same host" is equality of what the text denotes:
     * names and IPv4 literals: the text, letters compared case-insensitively;
     * IPv6 literals: the eight 16-bit groups ("::" expanded, hex digits of
       either case, leading zeros irrelevant) plus the zone identifier, if any.
   So an implementation that normalises fe80:0:0:0:0:0:0:1 to fe80::1 or lower-
   cases a DNS name keeps the host; one that cuts the literal at a colon or
   keeps the brackets does not.

   Ports: an integer 0..65535, or NoPort (-1) for "no port".

   Left open by the statement (accepted; the harness counts them `unspecified`):
     * whether a spelling that the scanners never emit for a setting (hex for a
       timeout, ...) is accepted by the transport (flag must = FALSE); if it is
       accepted the numeric value must still be the written one;
     * the settings of parameters that were not given (defaults);
     * parameter maps that lack a mandatory setting of the transport.            *)
EXTENDS RangeExprContract

NoPort == -1

----------------------------------------------------------------------------
(* --------------------------- host denotation ---------------------------- *)
COLON == 58
PERCENT == 37

Lower(c)    == IF c \in 65..90 THEN c + 32 ELSE c
LowerSeq(s) == [i \in 1..Len(s) |-> Lower(s[i])]
Has(s, c)   == \E i \in 1..Len(s) : s[i] = c
FirstPos(s, c) == IF Has(s, c) THEN CHOOSE i \in 1..Len(s) : s[i] = c /\ \A j \in 1..(i - 1) : s[j] # c
                  ELSE Len(s) + 1

HexDigit(c) == CASE c \in 48..57  -> c - 48
                 [] c \in 97..102 -> c - 87
                 [] c \in 65..70  -> c - 55
                 [] OTHER         -> -1
\* value of a group of 1..4 hex digits, -1 if it is not one
GroupVal(g) ==
  IF Len(g) \notin 1..4 \/ \E i \in 1..Len(g) : HexDigit(g[i]) < 0 THEN -1
  ELSE LET f[i \in 0..Len(g)] == IF i = 0 THEN 0 ELSE f[i - 1] * 16 + HexDigit(g[i]) IN f[Len(g)]

\* split a colon-separated list of groups ("" -> no group)
RECURSIVE Groups(_)
Groups(s) == IF Len(s) = 0 THEN <<>>
             ELSE LET p == FirstPos(s, COLON) IN
                  IF p > Len(s) THEN <<GroupVal(s)>>
                  ELSE <<GroupVal(SubSeq(s, 1, p - 1))>> \o
                       (IF p = Len(s) THEN <<-1>> ELSE Groups(SubSeq(s, p + 1, Len(s))))

DoubleColonAt(s) == {i \in 1..(Len(s) - 1) : s[i] = COLON /\ s[i + 1] = COLON}
Zeros(n) == [i \in 1..n |-> 0]

\* the eight groups of an IPv6 literal (without zone), <<>> if it is not one
V6Groups(a) ==
  LET dc == DoubleColonAt(a) IN
  IF dc = {} THEN (LET g == Groups(a) IN
                   IF Len(g) = 8 /\ \A i \in 1..8 : g[i] >= 0 THEN g ELSE <<>>)
  ELSE LET i == CHOOSE i \in dc : \A j \in dc : i <= j
           l == Groups(SubSeq(a, 1, i - 1))
           r == Groups(SubSeq(a, i + 2, Len(a)))
       IN IF Len(l) + Len(r) <= 7 /\ (\A k \in 1..Len(l) : l[k] >= 0) /\ (\A k \in 1..Len(r) : r[k] >= 0)
          THEN l \o Zeros(8 - Len(l) - Len(r)) \o r ELSE <<>>

HostDenote(h) ==
  IF ~Has(h, COLON) THEN <<"name", LowerSeq(h)>>
  ELSE LET z == FirstPos(h, PERCENT)
           g == V6Groups(SubSeq(h, 1, z - 1))
       IN IF g = <<>> THEN <<"text", LowerSeq(h)>>
          ELSE <<"ipv6", g, LowerSeq(SubSeq(h, z, Len(h)))>>

SameHost(a, b) == HostDenote(a) = HostDenote(b)

\* The statement quantifies over names, IPv4 and IPv6 literals (incl. compressed
\* forms) "as the discovery scanners emit them": discover doip over IPv6 link-local
\* reports scoped literals (fe80::1%eth0), so a zone identifier is part of the host.
\* (An earlier version of this contract left such hosts out of scope; seed-c20-5.)
HostInScope(h) == TRUE
Scoped(h, v) == IF v = "ok" \/ HostInScope(h) THEN v ELSE "unspecified:zone-id"

----------------------------------------------------------------------------
(* ---------------- H: host:port strings split and join losslessly -------- *)
(* got = [t |-> "err"] | [t |-> "ok", host |-> codes, port |-> int or NoPort]
   dflt: the default port handed to the split (NoPort if none)                 *)

\* H1: Split(Join(h, p)) = <<h, p>>
VerdictJoinSplit(h, p, got) ==
  IF got.t # "ok" THEN "H1/join-then-split-raised"
  ELSE IF ~SameHost(got.host, h) THEN "H1/host-changed"
  ELSE IF got.port # p THEN "H1/port-changed"
  ELSE "ok"

\* H2: splitting the written string "h:p" / "[h6]:p" / "h" gives what was written
\*     (without a port in the string: no port, or the default the caller gave)
VerdictSplit(h, p, dflt, got) ==
  IF got.t # "ok" THEN "H2/split-raised"
  ELSE IF ~SameHost(got.host, h) THEN "H2/host-changed"
  ELSE IF p # NoPort /\ got.port # p THEN "H2/port-changed"
  ELSE IF p = NoPort /\ got.port \notin {NoPort, dflt} THEN "H2/port-invented"
  ELSE "ok"

----------------------------------------------------------------------------
(* ------------- U: build -> text -> parse is the identity ---------------- *)
(* params: sequence of [k |-> name, s |-> text as written] (names distinct)
   got = [t |-> "err", stage |-> ..]
       | [t |-> "ok", scheme, host |-> codes (<<>> if none), port, params, lhost, lport]
   lhost/lport: host and port of the `location` string (scheme://host:port)     *)

ParamSet(ps) == {<<ps[i].k, ps[i].s>> : i \in 1..Len(ps)}

VerdictUri(scheme, h, p, params, got) ==
  IF got.t # "ok" THEN "U0/build-or-parse-raised"
  ELSE IF got.scheme # scheme THEN "U1/scheme-changed"
  ELSE IF ~SameHost(got.host, h) THEN "U2/host-changed"
  ELSE IF got.port # p THEN "U3/port-changed"
  ELSE IF ParamSet(got.params) # ParamSet(params) \/ Len(got.params) # Len(params) THEN "U4/parameters-changed"
  ELSE IF ~SameHost(got.lhost, h) \/ got.lport # p THEN "U5/location-changed"
  ELSE "ok"

----------------------------------------------------------------------------
(* ------- T: accepted by the transport with the same numeric settings ---- *)
(* settings: sequence of [k, kind |-> "int" | "bool", r, ds, b, must]
     "int":  written as the literal (r, ds); "bool": written as true / false (b)
     must:   the spelling is one the scanners emit for such a setting, or one of
             the four integer notations for an address-like setting
   complete: every mandatory setting of the transport is present
   cfg = [t |-> "err"] | [t |-> "ok", vals |-> << [k, v] >>]  (v: int, or 0/1)  *)

SettingValue(st) == IF st.kind = "bool" THEN (IF st.b THEN 1 ELSE 0) ELSE DigitsValue(st.r, st.ds)

VerdictConfig(settings, complete, cfg) ==
  IF ~complete THEN "ok"
  ELSE IF cfg.t = "err" THEN
         (IF \A i \in 1..Len(settings) : settings[i].must THEN "T1/transport-rejects-uri" ELSE "ok")
  ELSE IF cfg.t # "ok" THEN "T1/transport-rejects-uri"
  ELSE IF \E i \in 1..Len(settings) :
            ~\E j \in 1..Len(cfg.vals) : cfg.vals[j].k = settings[i].k
                                         /\ cfg.vals[j].v = SettingValue(settings[i])
       THEN "T2/numeric-setting-differs"
  ELSE "ok"
=============================================================================
