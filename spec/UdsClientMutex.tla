--------------------------- MODULE UdsClientMutex ---------------------------
(* Design layer of C05: N tasks share one UDSClient (gallia/services/uds/core/
   client.py: request() = `async with self.mutex: request_unsafe()`; reconnect()
   takes the same mutex; the tester-present worker of ECU calls ping() through
   request()).  asyncio.Lock hands over FIFO.  One action per await point of a
   caller; Cancel(c) may hit a caller at any of its await points.

   Per-caller reply script (chosen by the environment when the request is
   written):  "imm"  final reply at the first read
              "pend" responsePending, then the final reply
              "tmo"  silence: the read times out (max_retry = 0 => request fails)
              "late" silence, and the reply arrives later: whoever reads next gets it
              "err"  the read raises a connection error
   Dev_ReleaseInPending: the lock is dropped while waiting on responsePending
   (negative control: must violate M1).
*)
EXTENDS Naturals, Sequences, FiniteSets, TLC, UdsClientMutexContract

CONSTANTS Callers, Victim, Dev_ReleaseInPending
NoVictim == "none"

VARIABLES pc, script, holder, waiters, stale, result, mon, cancelled

vars == <<pc, script, holder, waiters, stale, result, mon, cancelled>>

Scripts == {"imm", "pend", "tmo", "late", "err"}
Init ==
  /\ pc = [c \in Callers |-> "idle"]
  /\ script \in [Callers -> Scripts]
  /\ holder = "none" /\ waiters = <<>>
  /\ stale = <<>>            \* replies still in flight whose requester gave up (ids of their requests)
  /\ result = [c \in Callers |-> "none"]
  /\ mon = M0
  /\ cancelled = {}

Obs(e) == mon' = Step(mon, e)

Release == IF waiters = <<>> THEN holder' = "none" /\ UNCHANGED waiters
           ELSE holder' = Head(waiters) /\ waiters' = Tail(waiters)

Arrive(c) ==
  /\ pc[c] = "idle"
  /\ IF holder = "none" /\ waiters = <<>> THEN holder' = c /\ UNCHANGED waiters
     ELSE waiters' = Append(waiters, c) /\ UNCHANGED holder
  /\ pc' = [pc EXCEPT ![c] = "wait"]
  /\ Obs([e |-> "Arrive", task |-> c, req |-> c])
  /\ UNCHANGED <<script, stale, result, cancelled>>

Write(c) ==
  /\ pc[c] = "wait" /\ holder = c
  /\ pc' = [pc EXCEPT ![c] = "read"]
  /\ Obs([e |-> "W", task |-> c, req |-> c])
  /\ UNCHANGED <<script, holder, waiters, stale, result, cancelled>>

Finish(c, kind, req) ==
  /\ result' = [result EXCEPT ![c] = IF kind = "Reply" THEN req ELSE kind]
  /\ pc' = [pc EXCEPT ![c] = "done"]
  /\ Release

\* one transport.read() by c
Read(c) ==
  /\ pc[c] \in {"read", "pread"} /\ (holder = c \/ (Dev_ReleaseInPending /\ pc[c] = "pread"))
  /\ IF stale # <<>>
     THEN \* a late reply of somebody else's request arrives first: the matcher refuses it
          /\ stale' = Tail(stale)
          /\ mon' = Step(Step(mon, [e |-> "R", task |-> c]),
                         [e |-> "Done", task |-> c, kind |-> (IF Head(stale) = c THEN "Reply" ELSE "Error"), req |-> Head(stale)])
          /\ Finish(c, IF Head(stale) = c THEN "Reply" ELSE "Error", Head(stale))
          /\ UNCHANGED <<script, cancelled>>
     ELSE CASE script[c] = "imm" \/ (script[c] = "pend" /\ pc[c] = "pread") ->
                 /\ mon' = Step(Step(mon, [e |-> "R", task |-> c]), [e |-> "Done", task |-> c, kind |-> "Reply", req |-> c])
                 /\ (IF Dev_ReleaseInPending /\ pc[c] = "pread"
                     THEN result' = [result EXCEPT ![c] = c] /\ pc' = [pc EXCEPT ![c] = "done"] /\ UNCHANGED <<holder, waiters>>
                     ELSE Finish(c, "Reply", c))
                 /\ UNCHANGED <<script, stale, cancelled>>
            [] script[c] = "pend" /\ pc[c] = "read" ->
                 /\ pc' = [pc EXCEPT ![c] = "pread"]
                 /\ Obs([e |-> "R", task |-> c])
                 /\ (IF Dev_ReleaseInPending THEN Release ELSE UNCHANGED <<holder, waiters>>)
                 /\ UNCHANGED <<script, stale, result, cancelled>>
            [] script[c] \in {"tmo", "err"} ->
                 /\ mon' = Step(Step(mon, [e |-> "R", task |-> c]), [e |-> "Done", task |-> c, kind |-> "Error", req |-> 0])
                 /\ Finish(c, "Error", 0)
                 /\ UNCHANGED <<script, stale, cancelled>>
            [] script[c] = "late" ->
                 /\ stale' = Append(stale, c)
                 /\ mon' = Step(Step(mon, [e |-> "R", task |-> c]), [e |-> "Done", task |-> c, kind |-> "Error", req |-> 0])
                 /\ Finish(c, "Error", 0)
                 /\ UNCHANGED <<script, cancelled>>

\* cancellation of the victim at any await point (waiting for the lock, or inside a read)
Cancel(c) ==
  /\ c = Victim /\ c \notin cancelled /\ pc[c] \in {"wait", "read", "pread"}
  /\ cancelled' = cancelled \cup {c}
  /\ pc' = [pc EXCEPT ![c] = "done"]
  /\ result' = [result EXCEPT ![c] = "Cancelled"]
  /\ IF holder = c THEN Release
     ELSE waiters' = SelectSeq(waiters, LAMBDA x : x # c) /\ UNCHANGED holder
  /\ stale' = IF pc[c] \in {"read", "pread"} /\ script[c] \in {"imm", "pend", "late"} THEN Append(stale, c) ELSE stale
  /\ Obs([e |-> "Done", task |-> c, kind |-> "Cancelled", req |-> 0])
  /\ UNCHANGED script

Next == \E c \in Callers : Arrive(c) \/ Write(c) \/ Read(c) \/ Cancel(c)
Progress == \E c \in Callers : Arrive(c) \/ Write(c) \/ Read(c)
Spec == Init /\ [][Next]_vars /\ WF_vars(Progress)

M_ContractHolds == mon.fail = "ok"
M2_OwnReplyOrError == \A c \in Callers : result[c] \in {"none", "Error", "Cancelled", c}
M3_LockFreeWhenAllDone == (\A c \in Callers : pc[c] = "done") => holder = "none"
M4_EveryoneFinishes == <>(\A c \in Callers : pc[c] = "done")
=============================================================================
