--------------------------- MODULE Trace_PduFuzz ---------------------------
(* Code -> spec for X09: validates recorded executions of the real `fuzz uds pdu` command (kind "fuzz")
   and of the real primitives `primitive uds rdbi` / `primitive uds pdu` (kind "prim") against the
   contract layer PduFuzzContract.  Total verdict per execution, plus the number of points on which the
   documented sources are silent ("U" lines). *)
EXTENDS PduFuzzContract, Json, IOUtils

Batch == JsonDeserialize(IOEnv.TRACE_FILE)
T == Batch.traces

VARIABLES tid, verdict
tvars == <<tid, verdict>>

CfgOf(x) == [svc |-> x.C.svc, dids |-> ToSet(x.C.dids), sessions |-> ToSet(x.C.sessions), min |-> x.C.min,
             max |-> x.C.max, iter |-> x.C.iter, prefix |-> x.C.prefix]

FullVerdict(x) == IF x.kind = "prim" THEN PrimVerdict(x) ELSE Verdict(CfgOf(x), x.ev, x.done, x.refused)
Unspec(x)      == IF x.kind = "prim" THEN (IF PrimAnswered(x) THEN 0 ELSE 1)
                  ELSE Unspecified(CfgOf(x), x.ev, x.done, x.refused)

TInit == tid \in 1..Len(T) /\ verdict = "?"
TNext == /\ verdict = "?"
         /\ verdict' = FullVerdict(T[tid])
         /\ tid' = tid
         /\ PrintT(<<"V", T[tid].id, verdict'>>)
         /\ PrintT(<<"U", T[tid].id, Unspec(T[tid])>>)
TSpec == TInit /\ [][TNext]_tvars
=============================================================================
