SPECIFICATION Spec
CONSTANTS
  Script <- ScriptABC
  MaxRetry = 1
  MaxLate = 2
INVARIANT Y4_AtMostOncePerTransmission
INVARIANT Y2_AcceptedReplyEchoesRequest
INVARIANT Y2_Strict
INVARIANT Y3_NoLossNoMissing

PROPERTY Terminates
CHECK_DEADLOCK FALSE
