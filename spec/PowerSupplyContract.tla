------------------------- MODULE PowerSupplyContract -------------------------
(* Growth item X15: gallia's power-supply support (src/gallia/power_supply/, cli/netzteil.py, the --power-* options
   of Scanner).  Contract layer: operators only.  The statement is /verif/growth/X15.json.

   SOURCES of the clauses (nothing else is demanded; where they are silent every outcome is accepted)
     [D]  docstrings of gallia.power_supply.base.BasePowerSupplyDriver:
            get_master "Reads the status of the master switch"        set_master "Sets the status of the master switch"
            get_current/get_voltage(channel) "Returns the max. current/voltage value"
            set_current/set_voltage(channel, value) "Sets the max. current/voltage value"
            get_output(channel) "Returns the state (on/off) of the supplied channel"
            set_output(channel, enabled) "Sets the state (on/off) of the supplied channel"
            connect "Connects to ``target`` and checks for connectivity using probe()"
            probe "Checks for connectivity. The default implementation reads out the version number and model
                   string by calling get_ident()"
     [H]  help texts: netzteil `get` "Get properties of the power supply", `set` "Set properties of the power
          supply", -c "the channel number to control", -a "the attribute to control";
          --power-cycle "use the configured power supply to power-cycle the ECU when needed (e.g. before starting
          the scan, or to recover bad state during scanning)"; --power-cycle-sleep "time to sleep after the
          power-cycle"
     [M]  docs/automation.md: "channel: The relevant channel where the device is connected; the master channel is
          `0`", product_id `hmc804`, scheme tcp, "Power supplies are mostly used for power cycling"
     [S]  R&S HMC804x SCPI manual: INSTrument[:SELect] OUT<n> selects the channel every following channel command
          refers to (instrument-global); OUTPut:CHANnel[:STATe] switches the selected channel only,
          OUTPut[:STATe] ON also switches the master output, OUTPut:MASTer[:STATe] the master output;
          [SOURce:]VOLTage / CURRent <value>; queries answer one line, 0|1 for switches.  The harness's instrument
          (harness/x15_scpi.py) implements this command set; the contract below only sees its STATE.
     [I]  documented intent in the code: PowerSupply.mutex = asyncio.Lock() held over the whole of power_cycle()
          (down, sleep, up, callback): power cycles of one PowerSupply are meant to be mutually exclusive;
          ECU.power_cycle passes wait_for_ecu ("Wait for ecu to be alive again") and Scanner.setup passes a sleep as
          the callback: the callback belongs after the power is switched on again;
          every I/O step of the HMC804 driver is wrapped in asyncio.wait_for(..., self.timeout).

   EVENTS (virtual ms; every event has the fields e, t, id, a, ch, v, x, ok, k)
     Call   id a=op k=attr ch v x    op in {"get","set","ident","probe","connect","open","cycle","setup"};
                                     set: v = requested value (0/1, micro-volt, micro-ampere);
                                     cycle/setup: v = sleep in ms, x = channels to cycle (0 = master), ch = 1 iff a
                                     callback was passed (setup: the connection to the scan target plays that role)
     Ret    id ok v                  the call returned (ok) / raised (~ok); get: v = reported value
     Inst   id a ch v                GROUND TRUTH: the instrument assigned v to attribute a of channel ch, executing a
                                     command that arrived on a connection opened by call id (-1: unknown)
     Bad    id                       the instrument received a program message it does not understand
     Act    id k                     instrument activity (accepted a connection, received a line, sent an answer);
                                     k = "idn": answered an identification query
     Fault  id k                     the ENVIRONMENT misbehaves towards call id (refuses, hangs, stays silent, drops,
                                     answers garbage / late, callback raises)
     Cb / CbEnd id                   the callback of cycle id starts / ends      Target id   scan target connected
     End                             quiescence: nothing in flight any more

   CLAUSES
     S1 [D,H]   a setter that returned normally (instrument healthy towards it) takes effect: at some moment between
                its call and quiescence the instrument holds the requested value for the requested channel
     S2 [D,S]   nothing else is changed: every CHANGE of the instrument's state is one that the call which caused it
                asked for (same attribute, same channel, same value; a power cycle: on/off of its own channels)
     G1 [D,H]   a getter that returns a value reports a value the instrument held for that channel at some moment
                between the call and the return
     W1 [S]     the instrument understands every program message it is sent
     E1 [D]     with an instrument that answers correctly and in time the call does not fail
     T1 [I]     no call outlives a silence of more than `tmo` ms (measured from the call or the instrument's last
                activity, plus a network round trip: 2 * lag); every call has returned at quiescence
     K1 [D]     connect()/probe() succeed only if the instrument answered an identification query
     P1 [H,M]   a successful power cycle switches every configured channel (0 = master) off, and its end (callback
                start / return / target connection) comes at least `sleep` after the last of them went off
     P2 [H,I]   ... and on again afterwards; not later than the start of the callback
     P3 [I]     power cycles do not interleave: no cycle has an effect between the first effect and the return of
                another one
     P4 [I]     while a callback runs none of the cycle's channels goes off
     P5 [I]     a callback that was passed is invoked exactly once and has finished when power_cycle returns
   Tolerances: Tol micro-units (1 mV / 1 mA, the programming resolution class of the device; sub-resolution digits
   are unspecified); `lag` = bound of the environment on (client write -> instrument effect) and on a network round
   trip, measured by the instrument fake and given per trace.
*)
EXTENDS Naturals, Integers, Sequences, FiniteSets, TLC

Tol == 1000
Near(a, b) == a - b <= Tol /\ b - a <= Tol
Max2(a, b) == IF a > b THEN a ELSE b
Attrs == {"master", "out", "volt", "curr"}
IsSwitch(a) == a \in {"master", "out"}
Same(a, x, y) == IF IsSwitch(a) THEN x = y ELSE Near(x, y)
CycleOps == {"cycle", "setup"}
ConnOps == {"connect", "probe"}

Idx(a, ch) == IF a = "master" THEN 1 ELSE ch
Key(a, ch) == IF a = "master" THEN 0 ELSE ch
ValidAt(m, a, ch) == a \in Attrs /\ Idx(a, ch) \in 1..Len(m.tr[a])
Val(m, a, ch) == m.tr[a][Idx(a, ch)]

NoFail == [c |-> "ok", why |-> ""]
M0(h) == [tr |-> [master |-> <<h.init.master>>, out |-> h.init.out, volt |-> h.init.volt, curr |-> h.init.curr],
          tmo |-> h.tmo, lag |-> h.lag, calls |-> <<>>, lastAct |-> 0, fail |-> NoFail]
Fail(m, c, why) == IF m.fail.c = "ok" THEN [m EXCEPT !.fail = [c |-> c, why |-> why]] ELSE m
Failed(m) == m.fail.c # "ok"

NewCall(m, e) ==
  LET chs == {e.x[i] : i \in 1..Len(e.x)} IN
  [op |-> e.a, attr |-> e.k, ch |-> e.ch, v |-> e.v, chs |-> chs, t0 |-> e.t, open |-> TRUE, ok |-> FALSE,
   faulty |-> FALSE, idn |-> FALSE,
   seen |-> IF e.a = "get" /\ ValidAt(m, e.k, e.ch) THEN {Val(m, e.k, e.ch)} ELSE {},
   sat |-> IF e.a = "set" /\ ValidAt(m, e.k, e.ch) THEN Same(e.k, Val(m, e.k, e.ch), e.v) ELSE FALSE,
   offT |-> [k \in chs |-> -1], onAfter |-> [k \in chs |-> FALSE], cbT |-> -1, cbEnd |-> -1, cbN |-> 0,
   first |-> -1]

IsCall(m, i) == i \in 1..Len(m.calls)
MaxOff(c) == IF c.chs = {} THEN -1
             ELSE CHOOSE x \in {c.offT[k] : k \in c.chs} : \A y \in {c.offT[k] : k \in c.chs} : x >= y
AllOff(c) == \A k \in c.chs : c.offT[k] # -1

\* ---- T1: silence
Silent(m, t) == \E i \in 1..Len(m.calls) :
                   LET c == m.calls[i] IN c.open /\ c.op \notin CycleOps /\ t - Max2(c.t0, m.lastAct) > m.tmo + 2 * m.lag

\* ---- S2: is the change (a, ch, v) what call c asked for?
Asked(c, a, ch, v) == \/ c.op = "set" /\ c.attr = a /\ c.ch = ch /\ Same(a, c.v, v)
                      \/ c.op \in CycleOps /\ IsSwitch(a) /\ Key(a, ch) \in c.chs /\ v \in {0, 1}
Justified(m, by, a, ch, v) == IF by = -1 THEN \E i \in 1..Len(m.calls) : Asked(m.calls[i], a, ch, v)
                              ELSE IsCall(m, by) /\ Asked(m.calls[by], a, ch, v)

\* ---- end of a power cycle (callback start, return without callback, target connection): P1
CycleEnd(m, c, t) ==
  IF c.faulty \/ c.chs = {} \/ c.v <= m.lag THEN m
  ELSE IF ~AllOff(c) THEN Fail(m, "P1", "cycle-ended-before-every-channel-was-switched-off")
  ELSE IF t - MaxOff(c) < c.v - m.lag THEN Fail(m, "P1", "cycle-ended-earlier-than-sleep-after-power-off")
  ELSE m

OnInst(m, e) ==
  IF ~ValidAt(m, e.a, e.ch) THEN Fail(m, "trace", "inst-event-for-unknown-attribute-or-channel") ELSE
  LET old == Val(m, e.a, e.ch)
      changed == old # e.v
      key == Key(e.a, e.ch)
      sw == IsSwitch(e.a)
      tagged == IsCall(m, e.id) /\ m.calls[e.id].op \in CycleOps
      attributed(i) == IF e.id = -1 THEN m.calls[i].open /\ m.calls[i].op \in CycleOps ELSE tagged /\ i = e.id
      lateOn == \E i \in 1..Len(m.calls) :
                   LET c == m.calls[i] IN
                   /\ attributed(i) /\ sw /\ e.v = 1 /\ key \in c.chs /\ ~c.onAfter[key]
                   /\ c.cbT # -1 /\ e.t > c.cbT + m.lag
      interleave == /\ tagged /\ sw
                    /\ \E j \in 1..Len(m.calls) : /\ j # e.id /\ m.calls[j].op \in CycleOps
                                                  /\ m.calls[j].open /\ m.calls[j].first # -1
      offInCb == \E i \in 1..Len(m.calls) :
                    LET c == m.calls[i] IN
                    /\ c.op \in CycleOps /\ c.cbT # -1 /\ c.cbEnd = -1 /\ sw /\ key \in c.chs /\ e.v = 0 /\ changed
      upd(c, i) ==
        LET c1 == IF c.op = "get" /\ c.open /\ c.attr = e.a /\ c.ch = e.ch THEN [c EXCEPT !.seen = @ \cup {e.v}] ELSE c
            c2 == IF c1.op = "set" /\ c1.attr = e.a /\ c1.ch = e.ch /\ Same(e.a, c1.v, e.v) THEN [c1 EXCEPT !.sat = TRUE] ELSE c1
            c3 == IF attributed(i) /\ sw /\ key \in c2.chs
                  THEN (IF e.v = 0 THEN [c2 EXCEPT !.offT[key] = e.t, !.onAfter[key] = FALSE]
                        ELSE [c2 EXCEPT !.onAfter[key] = (c2.offT[key] # -1)])
                  ELSE c2
            c4 == IF attributed(i) /\ sw /\ e.id # -1 /\ c3.first = -1 THEN [c3 EXCEPT !.first = e.t] ELSE c3
        IN c4
      m1 == [m EXCEPT !.tr[e.a][Idx(e.a, e.ch)] = e.v, !.lastAct = e.t,
                      !.calls = [i \in 1..Len(m.calls) |-> upd(m.calls[i], i)]]
  IN IF changed /\ ~Justified(m, e.id, e.a, e.ch, e.v)
        THEN Fail(m1, "S2", "instrument-state-changed-that-the-call-did-not-ask-for")
     ELSE IF interleave THEN Fail(m1, "P3", "power-cycles-interleave")
     ELSE IF offInCb THEN Fail(m1, "P4", "channel-switched-off-while-a-callback-runs")
     ELSE IF lateOn THEN Fail(m1, "P2", "channel-switched-on-after-the-callback-started")
     ELSE m1

OnRet(m, e) ==
  IF ~IsCall(m, e.id) \/ ~m.calls[e.id].open THEN Fail(m, "trace", "return-without-call") ELSE
  LET c == m.calls[e.id]
      m1 == [m EXCEPT !.calls[e.id].open = FALSE, !.calls[e.id].ok = e.ok]
  IN IF ~e.ok THEN (IF c.faulty THEN m1 ELSE Fail(m1, "E1", "call-failed-although-the-instrument-behaved"))
     ELSE IF c.op = "get" THEN
            (IF \E s \in c.seen : Same(c.attr, s, e.v) THEN m1
             ELSE Fail(m1, "G1", "reported-value-is-not-what-the-instrument-holds-for-that-channel"))
     ELSE IF c.op \in ConnOps THEN
            (IF c.idn THEN m1 ELSE Fail(m1, "K1", "connected-although-the-instrument-never-identified-itself"))
     ELSE IF c.op \in CycleOps /\ c.ch = 1 /\ c.op = "cycle" THEN
            (IF c.cbT = -1 THEN Fail(m1, "P5", "callback-never-invoked")
             ELSE IF c.cbEnd = -1 THEN Fail(m1, "P5", "returned-before-the-callback-finished")
             ELSE m1)
     ELSE IF c.op = "cycle" THEN CycleEnd(m1, c, e.t)
     ELSE m1

OnEnd(m, e) ==
  LET C == m.calls
      I == 1..Len(C) IN
  IF \E i \in I : C[i].open THEN Fail(m, "T1", "call-never-returned")
  ELSE IF \E i \in I : C[i].op = "set" /\ C[i].ok /\ ~C[i].faulty /\ ~C[i].sat
       THEN Fail(m, "S1", "setter-returned-but-the-instrument-never-held-the-value")
  ELSE IF \E i \in I : C[i].op \in CycleOps /\ C[i].ok /\ ~C[i].faulty /\ ~AllOff(C[i])
       THEN Fail(m, "P1", "configured-channel-never-switched-off")
  ELSE IF \E i \in I : C[i].op \in CycleOps /\ C[i].ok /\ ~C[i].faulty /\ \E k \in C[i].chs : ~C[i].onAfter[k]
       THEN Fail(m, "P2", "configured-channel-not-switched-on-again")
  ELSE m

Step(m, e) ==
  IF Failed(m) THEN m
  ELSE IF Silent(m, e.t) THEN Fail(m, "T1", "call-pending-through-a-silence-longer-than-the-timeout")
  ELSE CASE e.e = "Call" ->
              IF e.id # Len(m.calls) + 1 THEN Fail(m, "trace", "call-ids-not-consecutive")
              ELSE [m EXCEPT !.calls = Append(@, NewCall(m, e))]
         [] e.e = "Ret" -> OnRet(m, e)
         [] e.e = "Inst" -> OnInst(m, e)
         [] e.e = "Bad" -> Fail([m EXCEPT !.lastAct = e.t], "W1", "instrument-does-not-understand-the-command")
         [] e.e = "Act" ->
              LET m1 == [m EXCEPT !.lastAct = e.t] IN
              IF e.k = "idn" /\ IsCall(m, e.id) THEN [m1 EXCEPT !.calls[e.id].idn = TRUE] ELSE m1
         [] e.e = "Fault" -> IF IsCall(m, e.id) THEN [m EXCEPT !.calls[e.id].faulty = TRUE] ELSE m
         [] e.e \in {"Cb", "Target"} ->
              IF ~IsCall(m, e.id) \/ m.calls[e.id].op \notin CycleOps THEN m
              ELSE LET c == m.calls[e.id] IN
                   IF c.cbT # -1 THEN (IF e.e = "Cb" THEN Fail(m, "P5", "callback-invoked-twice") ELSE m)
                   ELSE LET m1 == [m EXCEPT !.calls[e.id].cbT = e.t,
                                            !.calls[e.id].cbEnd = IF e.e = "Target" THEN e.t ELSE -1]
                        IN CycleEnd(m1, c, e.t)
         [] e.e = "CbEnd" -> IF IsCall(m, e.id) THEN [m EXCEPT !.calls[e.id].cbEnd = e.t] ELSE m
         [] e.e = "End" -> OnEnd(m, e)
         [] OTHER -> Fail(m, "trace", "unknown-event")

Unspecified(m) == Cardinality({i \in 1..Len(m.calls) : m.calls[i].faulty})
=============================================================================
