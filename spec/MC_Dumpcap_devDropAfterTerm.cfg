\* generated for growth item X16 (devDropAfterTerm)
SPECIFICATION Spec
CHECK_DEADLOCK FALSE
CONSTANTS
  Targets <- MCTargetsOne
  Scripts <- MCScriptsObey
  Paths = {"fake"}
  Modes = {"cls"}
  MaxChunks = 2
  Dev_PortZero = FALSE
  Dev_CanBigEndian = FALSE
  Dev_UnixSpawns = FALSE
  Dev_SyncAlwaysOk = FALSE
  Dev_TermFirst = FALSE
  Dev_NoProcWait = FALSE
  Dev_NoJoin = FALSE
  Dev_DropAfterTerm = TRUE
  Dev_DupChunk = FALSE
  Dev_ConnectFirst = FALSE
  Dev_NoFinally = FALSE
  Dev_SilentFailure = FALSE
INVARIANT LabelSeen
INVARIANT A_Cmd_Inv
INVARIANT R_Report_Inv
INVARIANT T_Stop_Inv
INVARIANT G_File_Inv
INVARIANT S_Scan_Inv
INVARIANT S_Life_Inv
INVARIANT NoStall
