--------------------------- MODULE EcuWaitContract ---------------------------
(* Growth item X04 (DESIGN section 5, item 1): ECU.wait_for_ecu(timeout) and the cyclic tester-present task.
   Sources: docstring "Wait for ecu to be alive again (e.g. after reset). Sends a ping every 0.5s and waits at
   most timeout. If timeout is None, wait endlessly"; the comment block in _wait_for_ecu_endless_loop ("On
   ConnectionError, we additionally reconnect the transport ..."); wait_for_ecu stops the cyclic tester present
   task while waiting and restarts it afterwards.

   Events (virtual ms):  [e |-> "Start", t, tmo, tp]        tmo = -1: None; tp: a cyclic tester-present task is running
                         [e |-> "Ping", t, task, out]       a 3E 00 hit the wire; out \in {"answer","silent","connerr"}
                         [e |-> "RC", t, task]              transport reconnect
                         [e |-> "Ret", t, val]              wait_for_ecu returned val \in {"True","False","Raise"}
                         [e |-> "After", t, npings]         pings of the cyclic task seen during 2 s after the return
   Clauses
     A1  True  <=> the last ping before the return was answered; nothing is sent after an answered ping
     A2  False only at (not before, and at most 1000 ms after) the timeout; never with tmo = None
     A3  pings of the waiting caller are at least 500 ms apart and the first one is not sent before 500 ms
     A4  while waiting, only the waiting caller transmits (the cyclic task is stopped); afterwards the cyclic task
         pings again iff it was running before
     A5  after a connection error a reconnect happens before the next ping
*)
EXTENDS Naturals, Integers, Sequences, FiniteSets, TLC

M0 == [t0 |-> 0, tmo |-> -1, tp |-> FALSE, last |-> -1, lastOut |-> "none", needRC |-> FALSE, done |-> FALSE,
       fail |-> "ok"]
Fail(m, l) == [m EXCEPT !.fail = l]

Step(m, e) ==
  CASE e.e = "Start" -> [m EXCEPT !.t0 = e.t, !.tmo = e.tmo, !.tp = e.tp]
    [] e.e = "Ping" ->
         IF m.done THEN m
         ELSE IF e.task # "waiter" THEN Fail(m, "A4/cyclic-tester-present-transmits-while-waiting")
         ELSE IF m.lastOut = "answer" THEN Fail(m, "A1/ping-after-an-answered-ping")
         ELSE IF m.needRC THEN Fail(m, "A5/ping-on-a-lost-connection-without-reconnect")
         ELSE IF (m.last = -1 /\ e.t < m.t0 + 500) \/ (m.last # -1 /\ e.t < m.last + 500)
              THEN Fail(m, "A3/pings-closer-than-500ms")
         ELSE [m EXCEPT !.last = e.t, !.lastOut = e.out, !.needRC = (e.out = "connerr")]
    [] e.e = "RC" -> IF m.done THEN m ELSE [m EXCEPT !.needRC = FALSE]
    [] e.e = "Ret" ->
         LET m1 == [m EXCEPT !.done = TRUE] IN
         IF e.val = "True" THEN
            (IF m.lastOut = "answer" THEN m1 ELSE Fail(m1, "A1/true-without-an-answered-ping"))
         ELSE IF e.val = "False" THEN
            (IF m.tmo = -1 THEN Fail(m1, "A2/false-without-a-timeout")
             ELSE IF m.lastOut = "answer" THEN Fail(m1, "A1/false-although-a-ping-was-answered")
             ELSE IF e.t < m.t0 + m.tmo THEN Fail(m1, "A2/false-before-the-timeout")
             ELSE IF e.t > m.t0 + m.tmo + 1000 THEN Fail(m1, "A2/false-later-than-timeout-plus-one-ping")
             ELSE m1)
         ELSE Fail(m1, "A1/raised")
    [] e.e = "After" ->
         IF m.tp /\ e.npings = 0 THEN Fail(m, "A4/cyclic-tester-present-not-restarted")
         ELSE IF ~m.tp /\ e.npings > 0 THEN Fail(m, "A4/cyclic-tester-present-started-although-it-was-not-running")
         ELSE m
    [] OTHER -> Fail(m, "trace/unknown-event")
=============================================================================
