\* negative control: refresh_state ignores the answer
SPECIFICATION Spec
CONSTANTS
  Cfgs <- MCRefreshCfgs
  BookSymbols <- MCBookSymbols
  BookLen = 0
  Dev_S1_FallbackStepsIgnoreSkipHooks = FALSE
  Dev_S2_TinyBlockLengthSendsNothing = FALSE
  Dev_NoCounterWrap = FALSE
  Dev_NoWaitAfterReset = FALSE
  Dev_NoPowerCycle = FALSE
  Dev_NoDbFallback = FALSE
  Dev_RefreshIgnoresAnswer = TRUE
  Dev_KeyLevelOffByOne = FALSE
  Dev_NoPostHook = FALSE
INVARIANT ContractHolds
INVARIANT DoneIsTotal
INVARIANT Progress
PROPERTY Terminates
CHECK_DEADLOCK FALSE
