--------------------------- MODULE Trace_RangeExpr ---------------------------
(* Code -> spec for the range half of C20: every recorded call of the real
   unravel / unravel_2d / Ranges / Ranges2D / auto_int / AutoInt is judged by
   the contract RangeExprContract.  One initial state per recorded case; a case
   holds the AST (or the literal) and the distinct outcomes the real parsers
   produced over all the spellings of that AST:
     [id, kind |-> "r1" | "r2", ast, outs |-> << [must, res], ... >>]
     [id, kind |-> "int", r, ds,  outs |-> << [must, res], ... >>]
   Verdict line: <<"V", id, label, k>> -- "ok", or the label of the first clause
   broken and the index k of the outcome that broke it (total).               *)
EXTENDS RangeExprContract, Json, IOUtils, TLC

Batch == JsonDeserialize(IOEnv.TRACE_FILE)
T == Batch.cases

VARIABLES tid, verdict
tvars == <<tid, verdict>>

One(x, o) ==
  CASE x.kind = "r1"  -> Verdict1(x.ast, o.must, o.res)
    [] x.kind = "r2"  -> Verdict2(x.ast, o.must, o.res)
    [] x.kind = "int" -> IF WellFormedLiteral(x.r, x.ds) THEN VerdictInt(x.r, x.ds, o.must, o.res)
                         ELSE "machinery/ill-formed-literal"
    [] OTHER          -> "machinery/unknown-kind"

FullVerdict(x) ==
  LET bad == {k \in 1..Len(x.outs) : One(x, x.outs[k]) # "ok"} IN
  IF bad = {} THEN <<"ok", 0>>
  ELSE LET k == CHOOSE k \in bad : \A j \in bad : k <= j IN <<One(x, x.outs[k]), k>>

TInit == tid \in 1..Len(T) /\ verdict = "?"
TNext == /\ verdict = "?"
         /\ LET fv == FullVerdict(T[tid]) IN
              /\ verdict' = fv[1]
              /\ PrintT(<<"V", T[tid].id, fv[1], fv[2]>>)
         /\ tid' = tid
TSpec == TInit /\ [][TNext]_tvars
=============================================================================
