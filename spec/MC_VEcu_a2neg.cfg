SPECIFICATION Spec
CONSTANTS
  M <- MCM
  SfSids <- MCSfSids
  ReqSeq <- MCReqSeq
  BFamily <- BFamNoSfns
  Export = FALSE
  CheckE4 = FALSE
  Dev_S20_RuleOffRaises = FALSE
  Dev_S20b_UnofferedSessionAsserts = FALSE
INVARIANT TypeOK
INVARIANT E4_NoRaise
INVARIANT E_Verdict
INVARIANT A2_Unconditional
CHECK_DEADLOCK FALSE
