--------------------------- MODULE MC_PowerSupply ---------------------------
(* Model-checking instances of PowerSupply (X15): two channels, programs of two / three concurrent callers. *)
EXTENDS PowerSupply

Op(op, attr, ch, v) == [op |-> op, attr |-> attr, ch |-> ch, v |-> v, chs |-> <<>>, sleep |-> 0, cb |-> -1]
Cyc(chs, sleep, cb) == [op |-> "cycle", attr |-> "", ch |-> 0, v |-> 0, chs |-> chs, sleep |-> sleep, cb |-> cb]

MCInit0 == [sel |-> 2, master |-> 0, out |-> <<0, 1>>, volt |-> <<5000000, 12000000>>, curr |-> <<100000, 200000>>]
MCInitOn == [sel |-> 1, master |-> 1, out |-> <<1, 1>>, volt |-> <<5000000, 12000000>>, curr |-> <<100000, 200000>>]

C2 == {1, 2}
C3 == {1, 2, 3}
Start0 == [c \in C3 |-> 0]
StartStag == [c \in C3 |-> IF c = 1 THEN 0 ELSE IF c = 2 THEN 100 ELSE 50]

\* two callers, two driver operations each: getters and setters on different channels
Prog_drv2 == [c \in C2 |-> IF c = 1 THEN <<Op("get", "volt", 1, 0), Op("set", "out", 1, 1)>>
                                    ELSE <<Op("get", "out", 2, 0), Op("set", "volt", 2, 7000000)>>]
\* three callers, one driver operation each
Prog_drv3 == [c \in C3 |-> IF c = 1 THEN <<Op("get", "volt", 1, 0)>>
                           ELSE IF c = 2 THEN <<Op("set", "curr", 2, 1500000)>>
                           ELSE <<Op("get", "out", 2, 0), Op("get", "master", 0, 0)>>]
\* two power cycles of master + channel 2, the second one starts while the first one sleeps
Prog_cyc2 == [c \in C2 |-> IF c = 1 THEN <<Cyc(<<0, 2>>, 3000, 500)>> ELSE <<Cyc(<<0, 2>>, 1000, -1)>>]
\* two power cycles with callbacks started at the same instant, a third caller reads while they run
Prog_cyc3 == [c \in C3 |-> IF c = 1 THEN <<Cyc(<<1>>, 1000, 200)>>
                           ELSE IF c = 2 THEN <<Cyc(<<1>>, 2000, 300)>>
                           ELSE <<Op("get", "volt", 2, 0), Op("set", "volt", 2, 9000000)>>]
\* a power cycle and driver operations of another caller on other channels
Prog_mix == [c \in C2 |-> IF c = 1 THEN <<Cyc(<<2, 0>>, 2000, 300), Op("get", "out", 2, 0)>>
                                   ELSE <<Op("get", "volt", 1, 0), Op("set", "volt", 1, 3300000), Op("get", "volt", 1, 0)>>]
\* thorough tier: three callers, two driver operations each, silence / refusal possible
Prog_drv4 == [c \in C3 |-> IF c = 1 THEN <<Op("get", "volt", 1, 0), Op("set", "out", 1, 1)>>
                           ELSE IF c = 2 THEN <<Op("set", "volt", 2, 7000000), Op("get", "volt", 2, 0)>>
                           ELSE <<Op("get", "out", 2, 0), Op("set", "master", 0, 1)>>]
\* thorough tier: three power cycles over two channels each, one refusal possible, a reader in between
Prog_cyc4 == [c \in C3 |-> IF c = 1 THEN <<Cyc(<<0, 1>>, 1000, 200), Op("get", "out", 1, 0)>>
                           ELSE IF c = 2 THEN <<Cyc(<<1, 2>>, 500, -1)>>
                           ELSE <<Cyc(<<2>>, 300, 100), Op("get", "master", 0, 0)>>]
=============================================================================
