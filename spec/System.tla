------------------------------- MODULE System -------------------------------
(* Composition (DESIGN section 5): a scanner issues a sequence of requests through
     UDS client (retry on timeout, C04)  ->  transport with acknowledgement (C06/C07, abstracted to
     "the request reaches the ECU or not")  ->  gateway that may delay / drop answers and inject foreign
     frames  ->  virtual ECU (answers every request it receives, C13/C14)
   and gets each answer back through the matcher (C03: a reply is accepted iff it echoes the outstanding
   request's identifier, otherwise the request ends with a mismatch error).

   The composition is checked for the end-to-end properties of spec/SystemContract.tla (which the real stack
   is validated against in harness/props/x02.py) and makes one design fact explicit: a reply that arrives
   AFTER its request timed out is delivered to the NEXT request; it is refused when the identifiers differ
   (the next request then ends with a mismatch error although its own answer is still on the way) and it is
   indistinguishable when they are equal.

   Requests are records [id, echo]: id is unique, echo is what the matcher can see.
*)
EXTENDS Naturals, Sequences, FiniteSets, TLC

CONSTANTS Script,      \* sequence of echo values, one per request of the scanner, e.g. <<"a", "b", "a">>
          MaxRetry,
          MaxLate      \* how many answers the gateway may hold back beyond the client's timeout

VARIABLES i,          \* index of the request being issued
          attempt,    \* attempt number of the current request
          pc,         \* "send" | "wait" | "done"
          toEcu,      \* requests in flight to the ECU
          fromEcu,    \* answers in flight to the client: [id, echo]
          held,       \* answers the gateway holds back (will arrive late)
          seen,       \* number of times the ECU received each request id
          results,    \* per request: [kind, id]  kind \in {"reply", "missing", "mismatch"}
          nlate

vars == <<i, attempt, pc, toEcu, fromEcu, held, seen, results, nlate>>

N == Len(Script)
Req(k) == [id |-> k, echo |-> Script[k]]

Init == /\ i = 1 /\ attempt = 0 /\ pc = "send" /\ toEcu = <<>> /\ fromEcu = <<>> /\ held = <<>>
        /\ seen = [k \in 1..N |-> 0] /\ results = <<>> /\ nlate = 0

\* ---- client
Send == /\ pc = "send" /\ i <= N
        /\ toEcu' = Append(toEcu, Req(i)) /\ pc' = "wait"
        /\ UNCHANGED <<i, attempt, fromEcu, held, seen, results, nlate>>

Finish(r) == /\ results' = Append(results, r)
             /\ i' = i + 1 /\ attempt' = 0
             /\ pc' = IF i + 1 > N THEN "done" ELSE "send"

\* a reply reaches the waiting client: accepted iff it echoes the outstanding request
Receive == /\ pc = "wait" /\ fromEcu # <<>>
           /\ LET a == Head(fromEcu) IN
              /\ fromEcu' = Tail(fromEcu)
              /\ IF a.echo = Script[i] THEN Finish([kind |-> "reply", id |-> a.id])
                 ELSE Finish([kind |-> "mismatch", id |-> a.id])
           /\ UNCHANGED <<toEcu, held, seen, nlate>>

\* the read timed out: nothing deliverable right now (maximal progress)
Timeout == /\ pc = "wait" /\ fromEcu = <<>> /\ toEcu = <<>>
           /\ IF attempt < MaxRetry
              THEN attempt' = attempt + 1 /\ pc' = "send" /\ UNCHANGED <<i, results>>
              ELSE Finish([kind |-> "missing", id |-> 0])
           /\ UNCHANGED <<toEcu, fromEcu, held, seen, nlate>>

\* ---- ECU: answers what it receives
Answer == /\ toEcu # <<>>
          /\ LET r == Head(toEcu) IN
             /\ toEcu' = Tail(toEcu)
             /\ seen' = [seen EXCEPT ![r.id] = @ + 1]
             /\ \/ fromEcu' = Append(fromEcu, r) /\ UNCHANGED <<held, nlate>>            \* delivered in time
                \/ nlate < MaxLate /\ held' = Append(held, r) /\ nlate' = nlate + 1     \* held back by the gateway
                   /\ UNCHANGED fromEcu
          /\ UNCHANGED <<i, attempt, pc, results>>

\* ---- gateway: a held answer is released later (any time), or dropped
Release == /\ held # <<>> /\ fromEcu' = Append(fromEcu, Head(held)) /\ held' = Tail(held)
           /\ UNCHANGED <<i, attempt, pc, toEcu, seen, results, nlate>>
Drop    == /\ held # <<>> /\ held' = Tail(held)
           /\ UNCHANGED <<i, attempt, pc, toEcu, fromEcu, seen, results, nlate>>

Next == Send \/ Receive \/ Timeout \/ Answer \/ Release \/ Drop
Spec == Init /\ [][Next]_vars /\ WF_vars(Send \/ Receive \/ Timeout \/ Answer)

----------------------------------------------------------------------------
\* Y4: the ECU sees a request at most once per transmission
Y4_AtMostOncePerTransmission == \A k \in 1..N : seen[k] <= MaxRetry + 1
\* Y2 (as far as the matcher can tell): an accepted reply echoes the request it is returned for
Y2_AcceptedReplyEchoesRequest == \A k \in 1..Len(results) : results[k].kind = "reply" => Script[results[k].id] = Script[k]
\* with pairwise different identifiers an accepted reply is the ECU's answer to exactly that request
Distinct == \A a, b \in 1..N : a # b => Script[a] # Script[b]
Y2_Strict == Distinct => \A k \in 1..Len(results) : results[k].kind = "reply" => results[k].id = k
\* Y3: without late/dropped answers every request gets its own reply
Y3_NoLossNoMissing == (MaxLate = 0) => \A k \in 1..Len(results) : results[k] = [kind |-> "reply", id |-> k]
\* the design fact: a stale answer can end the NEXT request with a mismatch error (reachable when MaxLate > 0)
NoStaleMismatch == \A k \in 1..Len(results) : results[k].kind # "mismatch"
\* and a stale answer with the same identifier is accepted for the wrong request
NoStaleAccept == \A k \in 1..Len(results) : results[k].kind = "reply" => results[k].id = k
Terminates == <>(pc = "done")
=============================================================================
