----------------------------- MODULE Trace_Xcp -----------------------------
(* Code -> spec: validates recorded executions of the REAL gallia XCP code against XcpContract.
     kind "sess"  a sequence of client method calls on one XCPService / CANXCPSerivce instance against a scripted
                  slave; stepped through call by call (TLC states), carrying the set of admissible byte orders
     kind "prim"  one run of `primitive xcp` (SimpleTestXCP.run(): setup, main, teardown)
     kind "find"  one run of `discover xcp tcp|udp`
   One initial state per recorded execution; verdicts are total: <<"V", id, "ok" | label of the first clause broken>>,
   plus <<"K", id, index of the offending call>> and <<"U", id, number of calls the sources are silent about>>. *)
EXTENDS XcpContract, Json, IOUtils

Batch == JsonDeserialize(IOEnv.TRACE_FILE)
T == Batch.traces

VARIABLES tid, k, bos, verdict, nU
tvars == <<tid, k, bos, verdict, nU>>

TInit == tid \in 1..Len(T) /\ k = 1 /\ bos = {} /\ verdict = "?" /\ nU = 0

Emit(id, v, u) == PrintT(<<"V", id, v>>) /\ PrintT(<<"U", id, u>>)

StepSess(x) ==
  IF k > Len(x.calls)
  THEN /\ verdict' = "ok" /\ Emit(x.id, "ok", nU) /\ UNCHANGED <<tid, k, bos, nU>>
  ELSE LET v == CallVerdict(x.cfg, x.calls[k], bos) IN
       IF v.v # "ok"
       THEN /\ verdict' = v.v /\ Emit(x.id, v.v, nU) /\ PrintT(<<"K", x.id, k>>) /\ UNCHANGED <<tid, k, bos, nU>>
       ELSE /\ k' = k + 1 /\ bos' = v.bo /\ nU' = nU + v.u /\ UNCHANGED <<tid, verdict>>

Whole(x, v) == /\ verdict' = v.v /\ Emit(x.id, v.v, v.u) /\ UNCHANGED <<tid, k, bos, nU>>

TNext ==
  /\ verdict = "?"
  /\ LET x == T[tid] IN
     CASE x.kind = "sess" -> StepSess(x)
       [] x.kind = "prim" -> Whole(x, PrimVerdict(x))
       [] x.kind = "find" -> Whole(x, FindVerdict(x))
       [] OTHER           -> Whole(x, V("X/unknown-trace-kind", 0, {}))

TSpec == TInit /\ [][TNext]_tvars
=============================================================================
