---------------------------- MODULE MC_DoipConn ----------------------------
EXTENDS DoipConn
ScriptWRR == <<"write", "read", "read">>
ScriptRWR == <<"read", "write", "read">>
ScriptWWR == <<"write", "write", "read">>
=============================================================================
