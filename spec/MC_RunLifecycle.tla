-------------------------- MODULE MC_RunLifecycle --------------------------
(* Model-checking wrapper of RunLifecycle: the complete case space of C15.
     Kind x 2^4 resources x Fail, Fail = the meaningful (point, how) pairs:
       (Main, Return)                                  nothing injected
       {Setup, Main, Teardown} x {SysExit(0), SysExit(3), ExpConn, ExpUds,
                                  Unexpected, CtrlC, KbdInt}
       (PreHook, HookFails) (PostHook, HookFails) (DbOpen, DbFails) (DbClose, DbFails)
       (LockWait, CtrlC)   the lock file is held by another run, Ctrl-C while waiting for it
                           (lock file on only)
     x where in {pre, post} for failures raised in setup/teardown of the
       scanner kinds (before / after the base class' part). *)
EXTENDS RunLifecycle

Fails ==
  {<<"Main", "Return", 0>>}
  \cup {<<p, h, 0>> : p \in RunPoints, h \in RaisedHows \ {"SysExit"}}
  \cup {<<p, "SysExit", n>> : p \in RunPoints, n \in {0, 3}}
  \cup {<<"PreHook", "HookFails", 0>>, <<"PostHook", "HookFails", 0>>,
        <<"DbOpen", "DbFails", 0>>, <<"DbClose", "DbFails", 0>>,
        <<"LockWait", "CtrlC", 0>>}

Wheres(k, f) == IF k \in ScannerKinds /\ f[1] \in {"Setup", "Teardown"} /\ f[2] \in RaisedHows
                THEN {"pre", "post"} ELSE {"pre"}

AllCases ==
  UNION { { [kind |-> k, art |-> a, db |-> d, lock |-> l, hooks |-> h,
             point |-> f[1], how |-> f[2], n |-> f[3], where |-> w] : w \in Wheres(k, f) } :
          k \in Kinds, a \in BOOLEAN, d \in BOOLEAN, l \in BOOLEAN, h \in BOOLEAN, f \in Fails }
\* nobody waits for a lock file that is not configured
MCCases == {c \in AllCases : c.point = "LockWait" => c.lock}

\* spec -> code export: one initial state per case, printed with the final state the
\* design layer expects (Predict = the fold of the same Step functions the machine
\* takes one at a time; INVARIANT FoldAgrees of the design config ties the two together)
ExportInit == /\ case \in Cases /\ pc = 1 /\ st = S0
              /\ PrintT(<<"C", case, Predict(case, DV)>>)
ExportNext == FALSE /\ UNCHANGED vars

\* negative controls only need the cases with every resource switched on
MCCasesAllOn == {c \in MCCases : c.art /\ c.db /\ c.lock /\ c.hooks}
=============================================================================
