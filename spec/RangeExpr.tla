------------------------------ MODULE RangeExpr ------------------------------
(* Design layer for the range grammar of C20: a state machine shaped like
   gallia.utils.unravel / unravel_2d -- one action per loop iteration:

     unravel(listing)      result = set(); for element in listing.split(","):
                             range  -> result.add(x) for x in first..last
                             single -> result.add(n)
                           return sorted(result)
     unravel_2d(listing)   for entry in listing.split(" "):
                             keyed -> for x in unravel(outer): result[x] |= unravel(inner)
                                      (unless result[x] is already 'all')
                             bare  -> for x in unravel(outer): result[x] = 'all'
                           return {x: sorted(result[x]) or 'all'}

   The environment is the choice of the expression (Init): TLC enumerates every
   AST of the configured sets.  The property: whatever the machine returns is
   accepted by the contract (RangeExprContract!Verdict1 / Verdict2), clause by
   clause.  With Export = TRUE every finished run prints
       <<"A", dim, ast, result>>
   which the harness turns into spellings and feeds to the real parsers
   (spec -> code).

   Mutation constants (negative controls; FALSE = intended design):
     Dev_Mut_HalfOpenRange       range(first, last) instead of (first, last + 1)
     Dev_Mut_KeyedOverridesAll   a keyed entry after a bare one replaces 'all'   *)
EXTENDS RangeExprContract, SequencesExt, TLC

CONSTANTS Asts1, Asts2, Export, Dev_Mut_HalfOpenRange, Dev_Mut_KeyedOverridesAll

VARIABLES dim, ast, todo, acc, out, pc
vars == <<dim, ast, todo, acc, out, pc>>

Sorted(S) == SetToSortSeq(S, LAMBDA a, b : a < b)

\* one iteration of unravel's loop
Step1(s, it) ==
  IF Len(it) = 1 THEN s \cup {it[1]}
  ELSE s \cup (it[1] .. (IF Dev_Mut_HalfOpenRange THEN it[2] - 1 ELSE it[2]))

\* the nested unravel() calls of unravel_2d, as a fold of the same step
RECURSIVE Fold1(_, _)
Fold1(s, e) == IF Len(e) = 0 THEN s ELSE Fold1(Step1(s, Head(e)), Tail(e))
Unravel(e) == Fold1({}, e)

AllRec    == [all |-> TRUE, s |-> {}]
SetRec(s) == [all |-> FALSE, s |-> s]

Init ==
  /\ \/ dim = 1 /\ ast \in Asts1
     \/ dim = 2 /\ ast \in Asts2
  /\ todo = <<>> /\ acc = (IF dim = 1 THEN {} ELSE <<>>) /\ out = [t |-> "none"] /\ pc = "start"

\* `if listing == "" or listing.isspace(): return []`
EmptyListing ==
  /\ pc = "start" /\ dim = 1 /\ Len(ast) = 0
  /\ out' = [t |-> "ok", v |-> <<>>] /\ pc' = "done"
  /\ (Export => PrintT(<<"A", 1, ast, <<>>>>))
  /\ UNCHANGED <<dim, ast, todo, acc>>

Start1 ==
  /\ pc = "start" /\ dim = 1 /\ Len(ast) > 0
  /\ todo' = ast /\ acc' = {} /\ pc' = "loop"
  /\ UNCHANGED <<dim, ast, out>>

TakeSingle ==
  /\ pc = "loop" /\ dim = 1 /\ Len(todo) > 0 /\ Len(Head(todo)) = 1
  /\ acc' = Step1(acc, Head(todo)) /\ todo' = Tail(todo)
  /\ UNCHANGED <<dim, ast, out, pc>>

TakeRange ==
  /\ pc = "loop" /\ dim = 1 /\ Len(todo) > 0 /\ Len(Head(todo)) = 2
  /\ acc' = Step1(acc, Head(todo)) /\ todo' = Tail(todo)
  /\ UNCHANGED <<dim, ast, out, pc>>

Finish1 ==
  /\ pc = "loop" /\ dim = 1 /\ Len(todo) = 0
  /\ out' = [t |-> "ok", v |-> Sorted(acc)] /\ pc' = "done"
  /\ (Export => PrintT(<<"A", 1, ast, out'.v>>))
  /\ UNCHANGED <<dim, ast, todo, acc>>

Start2 ==
  /\ pc = "start" /\ dim = 2
  /\ todo' = ast /\ acc' = <<>> /\ pc' = "loop"     \* acc: function key -> record
  /\ UNCHANGED <<dim, ast, out>>

TakeKeyed ==
  /\ pc = "loop" /\ dim = 2 /\ Len(todo) > 0 /\ Len(Head(todo)) = 2
  /\ LET first == Unravel(Head(todo)[1])
         second == Unravel(Head(todo)[2])
     IN acc' = [k \in (DOMAIN acc) \cup first |->
                  IF k \notin first THEN acc[k]
                  ELSE IF k \notin DOMAIN acc THEN SetRec(second)
                  ELSE IF acc[k].all THEN (IF Dev_Mut_KeyedOverridesAll THEN SetRec(second) ELSE acc[k])
                  ELSE SetRec(acc[k].s \cup second)]
  /\ todo' = Tail(todo)
  /\ UNCHANGED <<dim, ast, out, pc>>

TakeBare ==
  /\ pc = "loop" /\ dim = 2 /\ Len(todo) > 0 /\ Len(Head(todo)) = 1
  /\ LET first == Unravel(Head(todo)[1])
     IN acc' = [k \in (DOMAIN acc) \cup first |-> IF k \in first THEN AllRec ELSE acc[k]]
  /\ todo' = Tail(todo)
  /\ UNCHANGED <<dim, ast, out, pc>>

Out2(a) == LET ks == Sorted(DOMAIN a) IN
  [i \in 1..Len(ks) |-> [k |-> ks[i], all |-> a[ks[i]].all, v |-> Sorted(a[ks[i]].s)]]
\* printable form of a 2-D result: <<key, all, inner>> triples
Show2(v) == [i \in 1..Len(v) |-> <<v[i].k, v[i].all, v[i].v>>]

Finish2 ==
  /\ pc = "loop" /\ dim = 2 /\ Len(todo) = 0
  /\ out' = [t |-> "ok", v |-> Out2(acc)] /\ pc' = "done"
  /\ (Export => PrintT(<<"A", 2, ast, Show2(out'.v)>>))
  /\ UNCHANGED <<dim, ast, todo, acc>>

Next == EmptyListing \/ Start1 \/ TakeSingle \/ TakeRange \/ Finish1
        \/ Start2 \/ TakeKeyed \/ TakeBare \/ Finish2
Spec == Init /\ [][Next]_vars /\ WF_vars(Next)

----------------------------------------------------------------------------
Done1 == pc = "done" /\ dim = 1
Done2 == pc = "done" /\ dim = 2

TypeOK == /\ dim \in {1, 2}
          /\ pc \in {"start", "loop", "done"}
          /\ out.t \in {"none", "ok"}
\* one invariant per clause of the contract
D1_SortedUnion   == Done1 => D1_Sorted(ast, out.v)
D2_NothingLost   == Done1 => ~D2_Missing(ast, out.v)
D2_NothingAdded  == Done1 => ~D2_Extra(ast, out.v)
D2_Partial       == (dim = 1 /\ pc = "loop") => acc \subseteq ExprSet(ast)
E1_OuterKeys     == Done2 => ~E1_Dup(ast, out.v) /\ ~E1_Missing(ast, out.v) /\ ~E1_Extra(ast, out.v)
E2_BareMeansAll  == Done2 => ~E2_NotAll(ast, out.v) /\ ~E2_WrongAll(ast, out.v)
E3_InnerUnion    == Done2 => ~E3_Unsorted(ast, out.v) /\ ~E3_Wrong(ast, out.v)
\* the total verdict used by the trace spec agrees
VerdictOk        == /\ Done1 => Verdict1(ast, TRUE, out) = "ok"
                    /\ Done2 => Verdict2(ast, TRUE, out) = "ok"
Terminates       == <>(pc = "done")
=============================================================================
