SPECIFICATION Spec
CHECK_DEADLOCK FALSE
CONSTANTS
  Mode = "ra"
  Addrs <- Addrs2
  BehNames <- BehSmall
  RatPool <- Rats4
  SrcPool <- Srcs3
  Export = FALSE
  Dev_S1_ReaderKeepsOldConnection = FALSE
  Dev_S2_ReaderDiesOnUnexpectedAnswer = FALSE
  Dev_S3_ValidBeforeAck = FALSE
  Dev_S4_PrefilterInverted = FALSE
INVARIANT Inv_M0
INVARIANT Inv_RA1_Sound
INVARIANT Inv_RA2_Complete
INVARIANT Inv_RA3_Gate
INVARIANT Inv_Verdict
INVARIANT Inv_T0_Progress
