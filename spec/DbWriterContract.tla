-------------------------- MODULE DbWriterContract --------------------------
(* Growth item X03 (DESIGN section 5, item 6): the database writer task under TRANSIENT write failures
   (sqlite OperationalError, e.g. "database is locked" beyond the busy timeout).
   Sources: gallia/db/handler.py -- "This queue is meant to be used for usage-heavy executes ... e.g. UDS
   messages", the retry branch "Could not log message ... Retrying ...", disconnect(): "Wait for all queries in
   the queue to be written to the database"; docs/uds/database.md; property C11 for the fault-free case.

   Observation per run:  logged = sequence of ids handed to insert_scan_result (in call order)
                         rows   = ids of the scan_result rows after disconnect(), in table order
                         ended  = disconnect() returned
   Clauses
     W1  no row is lost: every logged id has a row
     W2  no row is duplicated
     W3  rows stand in the order in which the exchanges were logged
     W4  with finitely many failures disconnect() returns
*)
EXTENDS Naturals, Sequences, FiniteSets, TLC

Occ(s, x) == Cardinality({i \in 1..Len(s) : s[i] = x})

Verdict(t) ==
  IF ~t.ended THEN "W4/disconnect-does-not-return"
  ELSE IF \E i \in 1..Len(t.logged) : Occ(t.rows, t.logged[i]) = 0 THEN "W1/row-lost"
  ELSE IF \E i \in 1..Len(t.rows) : Occ(t.rows, t.rows[i]) > 1 THEN "W2/row-duplicated"
  ELSE IF t.rows # t.logged THEN "W3/rows-out-of-order"
  ELSE "ok"
=============================================================================
