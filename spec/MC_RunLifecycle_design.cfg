SPECIFICATION Spec
CONSTANTS
  Cases <- MCCases
  Export = FALSE
  Dev_S21_HookUnbound = FALSE
  Dev_S22_DbClosedBeforeMeta = FALSE
  Dev_S23_SigintMetaZero = FALSE
  Dev_S23b_DbOpenBeforeTry = FALSE
INVARIANT TypeOK
INVARIANT LabelsCovered
INVARIANT FoldAgrees
INVARIANT X1_ExitCode
INVARIANT X2_Meta
INVARIANT X3_Log
INVARIANT X4_Lock
INVARIANT X5_Db
INVARIANT X6_Hooks
INVARIANT D_NoResourceLeft
PROPERTY D_ExitCodeSetBeforeMeta
PROPERTY Terminates
CHECK_DEADLOCK FALSE
