SPECIFICATION Spec
CONSTANTS
  Sessions = {1, 2, 3}
  Expected = 3
  Retries = 2
  Accepts = {1, 2, 3}
  ReadMode = "unsupported"
INVARIANT DesignMeetsContract
PROPERTY Terminates
CHECK_DEADLOCK FALSE
