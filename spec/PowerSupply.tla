----------------------------- MODULE PowerSupply -----------------------------
(* Growth item X15, design layer: gallia's HMC804 driver + PowerSupply.power_cycle as concurrent callers of ONE
   instrument, shaped like the code: one action per await point / program message.

     driver op  (HMC804.get_x / set_x)       [lock] select-channel, command-or-query [unlock] return
                 set_master / get_master       one program message, no channel selection
     power_cycle (PowerSupply)                 mutex( down per channel (0 = master), sleep, up per channel,
                                                      callback ), return
   The instrument's channel selection is instrument-global ([S] INSTrument:SELect), so the select / command two-step
   of two callers interleaves unless something serialises them: the design serialises driver ops with a driver lock
   (what the repaired driver does); Dev_NoDriverLock = TRUE is the driver as found (findings/X15-F1).  The contract
   monitor `m` is PowerSupplyContract!Step folded over the events the design emits; one invariant per clause.

   Deviation constants (each one is a negative control: TLC must find a counterexample)
     Dev_NoDriverLock     select and command of different callers interleave                     -> G1 / S2
     Dev_NoSelect         getter does not select the channel (reads the one selected last)       -> G1
     Dev_OutpStat         set_output sends OUTPut[:STATe] (also switches the master output on)   -> S2
     Dev_MasterAsChannel0 channel 0 is sent as INST OUT0 instead of OUTPut:MASTer                -> W1
     Dev_NoTimeout        a silent instrument is waited for without a timeout                    -> T1
     Dev_NoMutex          power cycles are not mutually exclusive                                -> P3
     Dev_NoSleep          no sleep between power down and the end of the cycle                   -> P1
     Dev_CallbackFirst    the callback runs before the channels are switched on again            -> P2
     Dev_NoCallback       the callback is dropped                                                -> P5
     Dev_MutexLeak        a failing cycle keeps the mutex                                        -> T1
     Dev_UpOnly           power down is skipped                                                  -> P1
*)
EXTENDS PowerSupplyContract

CONSTANTS N, Callers, Prog, Start, Init0, Tmo, MaySilent, MayRefuse, ProgId,
          Dev_NoDriverLock, Dev_NoSelect, Dev_OutpStat, Dev_MasterAsChannel0, Dev_NoTimeout,
          Dev_NoMutex, Dev_NoSleep, Dev_CallbackFirst, Dev_NoCallback, Dev_MutexLeak, Dev_UpOnly

VARIABLES inst, sub, ip, cid, val, wake, drv, mtx, now, m, res, faults, final
vars == <<inst, sub, ip, cid, val, wake, drv, mtx, now, m, res, faults, final>>

St(s, a, ch, v) == [s |-> s, a |-> a, ch |-> ch, v |-> v]
S0(s) == St(s, "", 0, 0)

DrvLocked(steps) == IF Dev_NoDriverLock THEN steps ELSE <<S0("lock")>> \o steps \o <<S0("unlock")>>
SetSteps(attr, ch, v) ==
  IF attr = "master" THEN <<St("cmd", "master", 0, v)>>
  ELSE DrvLocked(<<St("sel", "", ch, 0), St("cmd", IF attr = "out" /\ Dev_OutpStat THEN "outp" ELSE attr, 0, v)>>)
GetSteps(attr, ch) ==
  IF attr = "master" THEN <<St("qry", "master", 0, 0)>>
  ELSE DrvLocked((IF Dev_NoSelect THEN <<>> ELSE <<St("sel", "", ch, 0)>>) \o <<St("qry", attr, 0, 0)>>)
Power(k, v) == IF k = 0 /\ ~Dev_MasterAsChannel0 THEN SetSteps("master", 0, v) ELSE SetSteps("out", k, v)
RECURSIVE PowerAll(_, _)
PowerAll(chs, v) == IF chs = <<>> THEN <<>> ELSE Power(Head(chs), v) \o PowerAll(Tail(chs), v)
CycleSteps(o) ==
  LET down == IF Dev_UpOnly THEN <<>> ELSE PowerAll(o.chs, 0)
      up == PowerAll(o.chs, 1)
      slp == IF Dev_NoSleep THEN <<>> ELSE <<St("sleep", "", 0, o.sleep)>>
      cb == IF o.cb = -1 \/ Dev_NoCallback THEN <<>> ELSE <<S0("cb"), St("sleep", "", 0, o.cb), S0("cbend")>>
      body == IF Dev_CallbackFirst THEN down \o slp \o cb \o up ELSE down \o slp \o up \o cb
  IN IF Dev_NoMutex THEN body ELSE <<S0("mlock")>> \o body \o <<S0("munlock")>>
Steps(o) == (CASE o.op = "get" -> GetSteps(o.attr, o.ch)
               [] o.op = "set" -> SetSteps(o.attr, o.ch, o.v)
               [] o.op = "cycle" -> CycleSteps(o)) \o <<S0("ret")>>

\* what is left of a call after an exception: the exits of the `async with` blocks it is in (the locks it holds),
\* then the failing return
Abort(c) == (IF drv = c THEN <<S0("unlock")>> ELSE <<>>)
            \o (IF mtx = c /\ ~Dev_MutexLeak THEN <<S0("munlock")>> ELSE <<>>)
            \o <<S0("reterr")>>

Ev(e, id, a, ch, v, x, ok, k) == [e |-> e, t |-> now, id |-> id, a |-> a, ch |-> ch, v |-> v, x |-> x, ok |-> ok, k |-> k]
Act(id) == Ev("Act", id, "", 0, 0, <<>>, TRUE, "line")
InstEv(id, a, ch, v) == Ev("Inst", id, a, ch, v, <<>>, TRUE, "")

Hdr == [init |-> [master |-> Init0.master, out |-> Init0.out, volt |-> Init0.volt, curr |-> Init0.curr],
        tmo |-> Tmo, lag |-> 0]

Init == /\ inst = Init0
        /\ sub = [c \in Callers |-> IF Start[c] > 0 THEN <<St("sleep", "", 0, Start[c])>> ELSE <<>>]
        /\ ip = [c \in Callers |-> 1]
        /\ cid = [c \in Callers |-> 0]
        /\ val = [c \in Callers |-> 0]
        /\ wake = [c \in Callers |-> -1]
        /\ drv = 0 /\ mtx = 0 /\ now = 0
        /\ m = M0(Hdr)
        /\ res = [c \in Callers |-> <<>>]
        /\ faults = 0
        /\ final = FALSE

Begin(c) ==
  /\ ~final /\ sub[c] = <<>> /\ ip[c] <= Len(Prog[c])
  /\ LET o == Prog[c][ip[c]]
         id == Len(m.calls) + 1
         e == IF o.op = "cycle" THEN Ev("Call", id, "cycle", IF o.cb = -1 THEN 0 ELSE 1, o.sleep, o.chs, TRUE, "")
              ELSE Ev("Call", id, o.op, o.ch, o.v, <<>>, TRUE, o.attr)
     IN /\ m' = Step(m, e)
        /\ cid' = [cid EXCEPT ![c] = id]
        /\ sub' = [sub EXCEPT ![c] = Steps(o)]
  /\ UNCHANGED <<inst, ip, val, wake, drv, mtx, now, res, faults, final>>

Pop(c) == sub' = [sub EXCEPT ![c] = Tail(@)]

DoLock(c) == /\ drv = 0 /\ drv' = c /\ Pop(c) /\ UNCHANGED <<inst, ip, cid, val, wake, mtx, now, m, res, faults, final>>
DoMLock(c) == /\ mtx = 0 /\ mtx' = c /\ Pop(c) /\ UNCHANGED <<inst, ip, cid, val, wake, drv, now, m, res, faults, final>>

\* releasing a lock and returning have no await point in between: one action for the maximal run of such steps
Instant == {"unlock", "munlock", "ret", "reterr"}
RECURSIVE InstPrefix(_)
InstPrefix(ss) == IF ss = <<>> \/ Head(ss).s \notin Instant THEN <<>> ELSE <<Head(ss)>> \o InstPrefix(Tail(ss))
Has(ss, s) == \E i \in 1..Len(ss) : ss[i].s = s
DoTail(c) ==
  LET pre == InstPrefix(sub[c])
      rest == SubSeq(sub[c], Len(pre) + 1, Len(sub[c]))
      isRet == Has(pre, "ret") \/ Has(pre, "reterr")
      ok == Has(pre, "ret")
      o == Prog[c][ip[c]]
      v == IF ok /\ o.op = "get" THEN val[c] ELSE 0
  IN /\ drv' = IF Has(pre, "unlock") THEN 0 ELSE drv
     /\ mtx' = IF Has(pre, "munlock") THEN 0 ELSE mtx
     /\ sub' = [sub EXCEPT ![c] = rest]
     /\ IF isRet THEN /\ m' = Step(m, Ev("Ret", cid[c], "", 0, v, <<>>, ok, ""))
                      /\ res' = [res EXCEPT ![c] = Append(@, <<ok, v>>)]
                      /\ ip' = [ip EXCEPT ![c] = @ + 1]
        ELSE UNCHANGED <<m, res, ip>>
     /\ UNCHANGED <<inst, cid, val, wake, now, faults, final>>

DoSel(c, h) ==
  /\ IF h.ch \in 1..N
        THEN /\ inst' = [inst EXCEPT !.sel = h.ch]
             /\ m' = Step(m, Act(cid[c]))
        ELSE /\ inst' = inst
             /\ m' = Step(m, Ev("Bad", cid[c], "", 0, 0, <<>>, TRUE, "-224"))
  /\ Pop(c) /\ UNCHANGED <<ip, cid, val, wake, drv, mtx, now, res, faults, final>>

DoCmd(c, h) ==
  \/ /\ LET id == cid[c]
            s == inst.sel
        IN CASE h.a = "master" -> /\ inst' = [inst EXCEPT !.master = h.v]
                                  /\ m' = Step(m, InstEv(id, "master", 0, h.v))
             [] h.a = "outp" -> /\ inst' = [inst EXCEPT !.out[s] = h.v, !.master = IF h.v = 1 THEN 1 ELSE @]
                                /\ m' = IF h.v = 1 THEN Step(Step(m, InstEv(id, "out", s, 1)), InstEv(id, "master", 0, 1))
                                        ELSE Step(m, InstEv(id, "out", s, 0))
             [] OTHER -> /\ inst' = [inst EXCEPT ![h.a][s] = h.v]
                         /\ m' = Step(m, InstEv(id, h.a, s, h.v))
     /\ Pop(c) /\ UNCHANGED <<ip, cid, val, wake, drv, mtx, now, res, faults, final>>
  \/ \* the instrument refuses the connection: the call raises
     /\ MayRefuse /\ faults = 0 /\ faults' = 1
     /\ m' = Step(m, Ev("Fault", cid[c], "", 0, 0, <<>>, TRUE, "refuse"))
     /\ sub' = [sub EXCEPT ![c] = Abort(c)]
     /\ UNCHANGED <<inst, ip, cid, val, wake, drv, mtx, now, res, final>>

DoQry(c, h) ==
  \/ /\ val' = [val EXCEPT ![c] = IF h.a = "master" THEN inst.master ELSE inst[h.a][inst.sel]]
     /\ m' = Step(m, Act(cid[c]))
     /\ Pop(c) /\ UNCHANGED <<inst, ip, cid, wake, drv, mtx, now, res, faults, final>>
  \/ \* the instrument stays silent
     /\ MaySilent /\ faults = 0 /\ faults' = 1
     /\ m' = Step(Step(m, Act(cid[c])), Ev("Fault", cid[c], "", 0, 0, <<>>, TRUE, "silent"))
     /\ sub' = [sub EXCEPT ![c] = IF Dev_NoTimeout THEN <<S0("stuck")>> ELSE <<St("sleep", "", 0, Tmo)>> \o Abort(c)]
     /\ UNCHANGED <<inst, ip, cid, val, wake, drv, mtx, now, res, final>>

DoSleep(c, h) == /\ wake' = [wake EXCEPT ![c] = now + h.v]
                 /\ sub' = [sub EXCEPT ![c] = <<S0("wait")>> \o Tail(@)]
                 /\ UNCHANGED <<inst, ip, cid, val, drv, mtx, now, m, res, faults, final>>
DoWait(c) == /\ now >= wake[c] /\ wake' = [wake EXCEPT ![c] = -1] /\ Pop(c)
             /\ UNCHANGED <<inst, ip, cid, val, drv, mtx, now, m, res, faults, final>>
DoCb(c, e) == /\ m' = Step(m, Ev(e, cid[c], "", 0, 0, <<>>, TRUE, "")) /\ Pop(c)
              /\ UNCHANGED <<inst, ip, cid, val, wake, drv, mtx, now, res, faults, final>>
H(c, s) == ~final /\ sub[c] # <<>> /\ Head(sub[c]).s = s
ALock(c) == H(c, "lock") /\ DoLock(c)
AMLock(c) == H(c, "mlock") /\ DoMLock(c)
ATail(c) == ~final /\ sub[c] # <<>> /\ Head(sub[c]).s \in Instant /\ DoTail(c)
ASel(c) == H(c, "sel") /\ DoSel(c, Head(sub[c]))
ACmd(c) == H(c, "cmd") /\ DoCmd(c, Head(sub[c]))
AQry(c) == H(c, "qry") /\ DoQry(c, Head(sub[c]))
ASleep(c) == H(c, "sleep") /\ DoSleep(c, Head(sub[c]))
AWait(c) == H(c, "wait") /\ DoWait(c)
ACb(c) == H(c, "cb") /\ DoCb(c, "Cb")
ACbEnd(c) == H(c, "cbend") /\ DoCb(c, "CbEnd")
Do(c) == ALock(c) \/ AMLock(c) \/ ATail(c) \/ ASel(c) \/ ACmd(c) \/ AQry(c) \/ ASleep(c) \/ AWait(c) \/ ACb(c) \/ ACbEnd(c)

Work == \E c \in Callers : Begin(c) \/ Do(c)

\* maximal progress: the clock moves only when nobody can take a step
Advance ==
  /\ ~final /\ ~ENABLED Work
  /\ \E c \in Callers : wake[c] > now
  /\ now' = CHOOSE t \in {wake[c] : c \in {d \in Callers : wake[d] > now}} :
                \A u \in {wake[c] : c \in {d \in Callers : wake[d] > now}} : t <= u
  /\ UNCHANGED <<inst, sub, ip, cid, val, wake, drv, mtx, m, res, faults, final>>

Outcome == [c \in Callers |-> res[c]]
Finish ==
  /\ ~final /\ ~ENABLED Work /\ ~ENABLED Advance
  /\ now' = now + 5000
  /\ m' = Step(m, [e |-> "End", t |-> now + 5000, id |-> 0, a |-> "", ch |-> 0, v |-> 0, x |-> <<>>, ok |-> TRUE, k |-> ""])
  /\ final' = TRUE
  /\ PrintT(<<"O", ProgId, Outcome, <<inst.master, inst.out, inst.volt, inst.curr>>>>)
  /\ UNCHANGED <<inst, sub, ip, cid, val, wake, drv, mtx, res, faults>>

Next == Work \/ Advance \/ Finish
Spec == Init /\ [][Next]_vars

\* ---- the property: one invariant per contract clause
C_S1 == m.fail.c # "S1"
C_S2 == m.fail.c # "S2"
C_G1 == m.fail.c # "G1"
C_W1 == m.fail.c # "W1"
C_E1 == m.fail.c # "E1"
C_T1 == m.fail.c # "T1"
C_K1 == m.fail.c # "K1"
C_P1 == m.fail.c # "P1"
C_P2 == m.fail.c # "P2"
C_P3 == m.fail.c # "P3"
C_P4 == m.fail.c # "P4"
C_P5 == m.fail.c # "P5"
C_Trace == m.fail.c # "trace"
\* the monitor's ground truth is the instrument's
TruthAgrees == /\ m.tr.master[1] = inst.master /\ m.tr.out = inst.out
               /\ m.tr.volt = inst.volt /\ m.tr.curr = inst.curr
\* locks are held by callers that are still inside a call
LocksSane == /\ drv # 0 => sub[drv] # <<>>
             /\ (mtx # 0 /\ ~Dev_MutexLeak) => sub[mtx] # <<>>
=============================================================================
