------------------------- MODULE Trace_HsfzDiscover -------------------------
(* Code -> spec: validates recorded executions of the real HSFZDiscoverer.main() against the contract layer
   (clauses P1..P3, F1, F2, U1, T0 of X12 part 1).  One initial state per execution, total verdict. *)
EXTENDS HsfzDiscoverContract, Json, IOUtils, TLC, SequencesExt

Batch == JsonDeserialize(IOEnv.TRACE_FILE)
T == Batch.traces

VARIABLES tid, verdict
tvars == <<tid, verdict>>

Dsts(lst) == {lst[i].dst : i \in 1..Len(lst)}
Uris(lst) == {[ok |-> lst[i].ok, host |-> lst[i].host, port |-> lst[i].port, src |-> lst[i].src, dst |-> lst[i].dst] :
              i \in 1..Len(lst)}

ObsOf(x) ==
  [cfg    |-> x.cfg,
   probes |-> [i \in 1..Len(x.probes) |->
                 [src |-> x.probes[i].src, dst |-> x.probes[i].dst, d |-> x.probes[i].d,
                  ack |-> x.probes[i].ack, ackdt |-> x.probes[i].ackdt, anss |-> x.probes[i].anss]],
   repFile |-> Dsts(x.file), repDb |-> Dsts(x.db),
   uris   |-> Uris(x.file) \cup Uris(x.db),
   done   |-> x.done]

TInit == tid \in 1..Len(T) /\ verdict = "?"
TNext == /\ verdict = "?"
         /\ LET O == ObsOf(T[tid]) IN
              /\ verdict' = Verdict(O)
              /\ PrintT(<<"V", T[tid].id, verdict'>>)
              /\ PrintT(<<"U", T[tid].id, Unspecified(O)>>)
         /\ tid' = tid
TSpec == TInit /\ [][TNext]_tvars
=============================================================================
