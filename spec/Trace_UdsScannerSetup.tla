----------------------- MODULE Trace_UdsScannerSetup -----------------------
(* Code -> spec: validates recorded runs of a trivial UDSScanner (real setup() / teardown() around a scripted main())
   against the contract layer (clauses D1, L1, L2, R1, G1..G3, H1..H3 of X12 part 2).  One initial state per run,
   total verdict. *)
EXTENDS UdsScannerSetupContract, Json, IOUtils, TLC

Batch == JsonDeserialize(IOEnv.TRACE_FILE)
T == Batch.traces

VARIABLES tid, verdict
tvars == <<tid, verdict>>

ObsOf(x) ==
  [cfg |-> x.cfg, reqs |-> x.reqs, nmain |-> x.nmain, mainStart |-> x.mainStart, mainEnd |-> x.mainEnd,
   mainOut |-> x.mainOut, runEnd |-> x.runEnd, runOut |-> x.runOut, open |-> x.open, leaked |-> x.leaked,
   db |-> x.db, files |-> x.files, warnTeardown |-> x.warnTeardown]

TInit == tid \in 1..Len(T) /\ verdict = "?"
TNext == /\ verdict = "?"
         /\ LET O == ObsOf(T[tid]) IN
              /\ verdict' = Verdict(O)
              /\ PrintT(<<"V", T[tid].id, verdict'>>)
              /\ PrintT(<<"U", T[tid].id, Unspecified(O)>>)
         /\ tid' = tid
TSpec == TInit /\ [][TNext]_tvars
=============================================================================
