SPECIFICATION Spec
CHECK_DEADLOCK FALSE
CONSTANTS
  Mode = "sweep"
  Addrs <- Addrs3
  BehNames <- BehSmall
  RatPool <- Rats4
  SrcPool <- Srcs3
  Export = TRUE
  Dev_S1_ReaderKeepsOldConnection = FALSE
  Dev_S2_ReaderDiesOnUnexpectedAnswer = FALSE
  Dev_S3_ValidBeforeAck = FALSE
  Dev_S4_PrefilterInverted = FALSE
