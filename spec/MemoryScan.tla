---------------------------- MODULE MemoryScan ----------------------------
(* Growth item X05, design layer: a state machine shaped like
   gallia.commands.scan.uds.memory.MemoryFunctionsScanner (main / scan_memory_address) on top of
   ECU.set_session / check_and_set_session / leave_session and the retrying UDS client; one action per await point.

   Environment (chosen in Init): an abstract ECU memory model -- per address of the sweep an answer class
   (positive / NRC / requestOutOfRange / silent / silent-once / crash: silent and back in the default session; the
   connection loss itself is the UDS client's business, properties C04 / C08), addresses whose probe makes the ECU fall back to its
   default session, how the session read behaves, how many session changes it accepts, whether it accepts ECUReset.
   The ECU reads requests with the ISO decoder of the contract module (never with the scanner's encoder).

   Deviation constants reproduce suspected defects (negative controls: TLC must find a counterexample).       *)
EXTENDS MemoryScanContract

CONSTANTS
  Is,              \* sequence of the per-sweep values i (the code: 0..255)
  K,               \* number of sweeps (the code: 5); address = i followed by k zero bytes
  Classes,         \* answer classes the model may give an address
  DropSets,        \* candidate sets of addresses whose probe drops the session
  SReads,          \* subset of {"ok", "unsupported", "silent"}
  Budgets,         \* how many changes into a non-default session the ECU accepts
  ResetOks,        \* subset of BOOLEAN
  Cfgs,            \* configurations [session, svc, data, check, retries]
  OtherCode,       \* NRC of the memory service outside the configured session
  Dev_TimeoutAborts,   \* the missing-response error is not handled: the scan dies at the first silent address
  Dev_ReportRoor,      \* requestOutOfRange answers are reported as results
  Dev_NoDfi,           \* 0x34/0x35 without dataFormatIdentifier
  Dev_SwapNibbles,     \* addressAndLengthFormatIdentifier nibbles swapped
  Dev_SizeConst,       \* 0x3D announces memorySize 0x1000 whatever the data record is
  Dev_CheckOnce,       \* the session is checked only before the very first address
  Dev_NoRecover,       \* the outcome of the session check is ignored
  Dev_ResultIndex      \* the result names the loop value i, not the address

VARIABLES M, C, pc, k, ix, att, tries, truth, budget, lastSil, hist, done, verdict
vars == <<M, C, pc, k, ix, att, tries, truth, budget, lastSil, hist, done, verdict>>

Zeros(n) == [j \in 1..n |-> 0]
AddrOf(kk, i) == IF i = 0 THEN <<0>> ELSE <<i>> \o Zeros(kk)
Positions == (0..K - 1) \X (1..Len(Is))
SweepSet == {AddrOf(q[1], Is[q[2]]) : q \in Positions}

CC == [session |-> C.session, svc |-> C.svc, data |-> C.data, check |-> C.check]
EE == [fn |-> [x \in {C.session} \X SweepSet |-> M.ans[x[2]]],
       dflt |-> [s \in {1, 2, 3} \ {C.session} |-> OtherCode]]

Init ==
  /\ C \in Cfgs
  /\ M \in [ans : [SweepSet -> Classes], drop : DropSets, sread : SReads, budget : Budgets, resetOk : ResetOks]
  /\ pc = "SetSession" /\ k = 0 /\ ix = 1 /\ att = 0 /\ tries = 0 /\ truth = 1 /\ budget = M.budget
  /\ lastSil = <<>> /\ hist = <<>> /\ done = "?" /\ verdict = "?"

Q(t, p, r, v) == [k |-> "q", t |-> t, p |-> p, r |-> r, v |-> v]
Res(a, w)     == [k |-> "res", a |-> a, w |-> w]

\* ------------------------------------------------------------------ scanner side: the request bytes
SizeBytes == IF C.svc = 61 /\ ~Dev_SizeConst THEN <<Len(C.data)>> ELSE <<16, 0>>
Pdu(addr) ==
  LET al == IF Dev_SwapNibbles THEN Len(addr) * 16 + Len(SizeBytes) ELSE Len(SizeBytes) * 16 + Len(addr)
  IN <<C.svc>> \o (IF HasDfi(C.svc) /\ ~Dev_NoDfi THEN <<0>> ELSE <<>>) \o <<al>> \o addr \o SizeBytes
     \o (IF C.svc = 61 THEN C.data ELSE <<>>)

\* ------------------------------------------------------------------ ECU side
DscOk(s) == s = 1 \/ (s \in {1, 2, 3} /\ budget > 0)
EcuClass(t, p) == IF ~Readable(C.svc, p) THEN LENERR ELSE ModelCode(EE, t, Strip(AddrField(C.svc, p)))
EcuAnswer(t, p) == LET c == EcuClass(t, p)
                   IN IF c = LATE THEN (IF lastSil = p THEN POSITIVE ELSE NONE) ELSE IF c = CRASH THEN NONE ELSE c
EcuDrops(t, p) == t # 1 /\ Readable(C.svc, p) /\ (Strip(AddrField(C.svc, p)) \in M.drop \/ EcuClass(t, p) = CRASH)

\* ------------------------------------------------------------------ actions
\* resp = await self.ecu.set_session(self.config.session); negative -> sys.exit(1)
SetSession ==
  /\ pc = "SetSession"
  /\ LET ok == DscOk(C.session) IN
     /\ hist' = Append(hist, Q(truth, <<16, C.session>>, IF ok THEN POSITIVE ELSE 34, IF ok THEN C.session ELSE 0))
     /\ IF ok THEN /\ truth' = C.session
                   /\ budget' = IF C.session # 1 THEN budget - 1 ELSE budget
                   /\ pc' = "Loop" /\ done' = done
             ELSE /\ pc' = "Judge" /\ done' = "exit" /\ UNCHANGED <<truth, budget>>
  /\ UNCHANGED <<M, C, k, ix, att, tries, lastSil, verdict>>

NeedsCheck == C.check > 0 /\ Is[ix] % C.check = 0 /\ (~Dev_CheckOnce \/ (k = 0 /\ ix = 1))

\* for i in range(5): for i in range(0x100): ...
Loop ==
  /\ pc = "Loop"
  /\ IF k = K THEN pc' = "Leave" ELSE pc' = IF NeedsCheck THEN "Check" ELSE "Send"
  /\ att' = 0 /\ tries' = 0
  /\ UNCHANGED <<M, C, k, ix, truth, budget, lastSil, hist, done, verdict>>

\* check_and_set_session: current_session = await self.read_session(...)
Check ==
  /\ pc = "Check"
  /\ CASE M.sread = "ok" ->
            /\ hist' = Append(hist, Q(truth, <<34, 241, 134>>, POSITIVE, truth))
            /\ pc' = IF truth = C.session \/ Dev_NoRecover THEN "Send" ELSE "Recover"
       [] M.sread = "unsupported" ->
            /\ hist' = Append(hist, Q(truth, <<34, 241, 134>>, ROOR, 0))
            /\ pc' = "Send"
       [] OTHER ->
            /\ hist' = Append(hist, Q(truth, <<34, 241, 134>>, NONE, 0))
            /\ pc' = "Send"
  /\ UNCHANGED <<M, C, k, ix, att, tries, truth, budget, lastSil, done, verdict>>

\* for i in range(retries + 1): set_session(expected); read_session(); ... return False -> sys.exit(1)
Recover ==
  /\ pc = "Recover"
  /\ IF tries = 4
     THEN /\ pc' = "Judge" /\ done' = "exit"
          /\ UNCHANGED <<tries, truth, budget, hist>>
     ELSE LET ok == DscOk(C.session)
              t2 == IF ok THEN C.session ELSE truth
          IN /\ hist' = hist \o <<Q(truth, <<16, C.session>>, IF ok THEN POSITIVE ELSE 34, IF ok THEN C.session ELSE 0),
                                   Q(t2, <<34, 241, 134>>, POSITIVE, t2)>>
             /\ truth' = t2
             /\ budget' = IF ok /\ C.session # 1 THEN budget - 1 ELSE budget
             /\ tries' = tries + 1
             /\ pc' = IF t2 = C.session THEN "Send" ELSE "Recover"
             /\ done' = done
  /\ UNCHANGED <<M, C, k, ix, att, lastSil, verdict>>

Advance == IF ix = Len(Is) THEN k' = k + 1 /\ ix' = 1 ELSE k' = k /\ ix' = ix + 1

\* one attempt of: resp = await self.ecu.send_raw(pdu, ...) with the client's retry loop, then the report
Send ==
  /\ pc = "Send"
  /\ LET addr == AddrOf(k, Is[ix])
         p    == Pdu(addr)
         r    == EcuAnswer(truth, p)
         shown == IF Dev_ResultIndex THEN <<Is[ix]>> ELSE addr
     IN /\ truth' = IF EcuDrops(truth, p) THEN 1 ELSE truth
        /\ lastSil' = IF r = NONE THEN p ELSE <<>>
        /\ IF r = NONE /\ att < C.retries
           THEN /\ hist' = Append(hist, Q(truth, p, r, 0))
                /\ att' = att + 1 /\ pc' = "Send" /\ UNCHANGED <<k, ix, done>>
           ELSE IF r = NONE /\ Dev_TimeoutAborts
           THEN /\ hist' = Append(hist, Q(truth, p, r, 0))
                /\ pc' = "Judge" /\ done' = "exc" /\ UNCHANGED <<k, ix, att>>
           ELSE /\ hist' = Append(hist, Q(truth, p, r, 0))
                          \o (IF r = NONE THEN <<Res(shown, "timeout")>>
                              ELSE IF r = ROOR /\ ~Dev_ReportRoor THEN <<>> ELSE <<Res(shown, "resp")>>)
                /\ Advance /\ pc' = "Loop" /\ UNCHANGED <<att, done>>
  /\ UNCHANGED <<M, C, tries, budget, verdict>>

\* await self.ecu.leave_session(...): ECUReset(0x01), wait_for_ecu (ping), DiagnosticSessionControl(0x01)
Leave ==
  /\ pc = "Leave"
  /\ LET t1 == IF M.resetOk THEN 1 ELSE truth
     IN hist' = hist \o <<Q(truth, <<17, 1>>, IF M.resetOk THEN POSITIVE ELSE 34, 0), Q(t1, <<62, 0>>, POSITIVE, 0),
                          Q(t1, <<16, 1>>, POSITIVE, 1)>>
  /\ truth' = 1
  /\ pc' = "Judge" /\ done' = "ok"
  /\ UNCHANGED <<M, C, k, ix, att, tries, budget, lastSil, verdict>>

Judge ==
  /\ pc = "Judge"
  /\ verdict' = Verdict(CC, EE, SweepSet, hist, done)
  /\ pc' = "Done"
  /\ UNCHANGED <<M, C, k, ix, att, tries, truth, budget, lastSil, hist, done>>

Next == SetSession \/ Loop \/ Check \/ Recover \/ Send \/ Leave \/ Judge
Spec == Init /\ [][Next]_vars

TypeOK == /\ pc \in {"SetSession", "Loop", "Check", "Recover", "Send", "Leave", "Judge", "Done"}
          /\ k \in 0..K /\ ix \in 1..Len(Is) /\ truth \in {1, 2, 3} /\ done \in {"?", "ok", "exit", "exc"}
NoStuck      == pc # "Done" => ENABLED Next
M0_Model     == verdict # "M0/fake-ecu-inconsistent-with-its-model"
M1_Layout    == verdict \notin M1Labels
M2_Session   == verdict # "M2/probe-without-evidence-of-the-configured-session"
M3_Reported  == verdict \notin M3Labels
M4_OnlyReal  == verdict \notin M4Labels
M5_Sweep     == verdict \notin M5Labels
M6_Check     == verdict \notin M6Labels
M7_Leave     == verdict # "M7/session-not-left"
VerdictOk    == pc = "Done" => verdict = "ok"
=============================================================================
