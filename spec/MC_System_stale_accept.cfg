SPECIFICATION Spec
CONSTANTS
  Script <- ScriptABA
  MaxRetry = 0
  MaxLate = 1
INVARIANT Y4_AtMostOncePerTransmission
INVARIANT Y2_AcceptedReplyEchoesRequest
INVARIANT Y2_Strict
INVARIANT Y3_NoLossNoMissing
INVARIANT NoStaleAccept
PROPERTY Terminates
CHECK_DEADLOCK FALSE
