------------------------- MODULE Trace_UdsRequest -------------------------
(* Code -> spec: validates recorded executions of the real UDSClient.request()
   against the contract layer of UdsRequest (clauses K1..K6 of C04).
   One initial state per recorded execution; the verdict is total: each
   execution gets "ok" or the label of the first clause it breaks. *)
EXTENDS UdsRequestContract, Json, IOUtils

Batch == JsonDeserialize(IOEnv.TRACE_FILE)
T == Batch.traces

VARIABLES tid, verdict
tvars == <<tid, verdict>>

RECURSIVE SumD(_, _)
SumD(s, k) == IF k > Len(s) THEN 0
              ELSE (IF s[k].e = "Timeout" THEN s[k].d ELSE 0) + SumD(s, k + 1)

\* K6: bounded time -- every wait is a read the environment let time out (d ms)
\* plus at most SleepCapMs of back-off per transmission; a run that was still
\* pending at the harness horizon is reported by the harness as outcome "Hang".
SleepCapMs == 60000
FullVerdict(x) ==
  IF x.outcome.t = "Hang" THEN "K6/does-not-terminate"
  ELSE LET v == Verdict(x.lim, x.seq, x.R, x.outcome) IN
       IF v # "ok" THEN v
       ELSE IF x.ms > SumD(x.seq, 1) + SleepCapMs * NWrites(x.seq) THEN "K6/bounded-time"
       ELSE "ok"

TInit == tid \in 1..Len(T) /\ verdict = "?"
TNext == /\ verdict = "?"
         /\ verdict' = FullVerdict(T[tid])
         /\ tid' = tid
         /\ PrintT(<<"V", T[tid].id, verdict'>>)
TSpec == TInit /\ [][TNext]_tvars
=============================================================================
