SPECIFICATION Spec
CONSTANTS
  N = 3
  Group <- G_111
  KeepHist = FALSE
  MaxInt = 2
  MaxKill = 2
  MaxProbe = 0
  Dev_ReleaseBeforePostHook = FALSE
  Dev_LockAfterPreHook = FALSE
  Dev_NoUnlockOnError = FALSE
  Dev_ThreadWait = FALSE
  Dev_SilentWait = FALSE
  Dev_LostWakeup = FALSE
CHECK_DEADLOCK FALSE
INVARIANT MutexInv
INVARIANT LockInv
PROPERTY NoLostWakeup
PROPERTY Termination
