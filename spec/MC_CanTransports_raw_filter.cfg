SPECIFICATION Spec
CHECK_DEADLOCK FALSE
VIEW View
CONSTANTS
  Part = "raw"
  Space <- RawClassic
  Ids <- Ids3
  Lens <- Lens1
  Errnos <- NoErr
  MaxFrames = 2
  MaxOps = 3
  Mixed = FALSE
  Allow <- OpsFilter
  Buf = 99
  Export = FALSE
  Dev_FdFlagDropped = FALSE
  Dev_RtrBit = FALSE
  Dev_UnpackNoCut = FALSE
  Dev_SffMaskAlways = FALSE
  Dev_MaskSwapped = FALSE
  Dev_JoinSticky = FALSE
  Dev_NoJoin = FALSE
  Dev_TimeoutEats = FALSE
  Dev_DstTruthy = FALSE
  Dev_CloseNoop = FALSE
  Dev_IdleStopsOnTimeout = FALSE
  Dev_PadSwapped = FALSE
  Dev_ExtTruthy = FALSE
  Dev_BindSwapped = FALSE
  Dev_BindFirst = FALSE
  Dev_NoLLOpts = FALSE
  Dev_HexRejected = FALSE
  Dev_EcommReraised = FALSE
  Dev_EilseqTimeout = FALSE
  Dev_ErrSwallowed = FALSE
INVARIANT Inv_N0_ValidTarget
INVARIANT Inv_F1_WantedDelivered
INVARIANT Inv_F2_UnwantedKept
INVARIANT Inv_R1_FrameIntact
INVARIANT Inv_T1_TimeoutKeeps
INVARIANT Inv_S1_SentFrame
INVARIANT Inv_S2_ReturnValue
INVARIANT Inv_S4_NoDestination
INVARIANT Inv_S5_SendWorks
INVARIANT Inv_I1_IdleSound
INVARIANT Inv_I2_IdleComplete
INVARIANT Inv_C1_Closed
INVARIANT Inv_X_NoOther
INVARIANT Inv_D_QueueSane
