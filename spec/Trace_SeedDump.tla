------------------------- MODULE Trace_SeedDump -------------------------
(* Code -> spec: validates recorded executions of the real `scan uds dump-seeds` command (full in-memory
   stack, harness/x07_run.py) against the contract layer.  Total verdict per execution. *)
EXTENDS SeedDumpContract, Json, IOUtils

Batch == JsonDeserialize(IOEnv.TRACE_FILE)
T == Batch.traces

VARIABLES tid, verdict
tvars == <<tid, verdict>>

TInit == tid \in 1..Len(T) /\ verdict = "?"
TNext == /\ verdict = "?"
         /\ LET x == T[tid] IN
            /\ verdict' = Verdict(x.C, x.ev, x.file, x.end, x.tend)
            /\ PrintT(<<"V", x.id, verdict'>>)
            /\ PrintT(<<"U", x.id, Unspecified(x.C, x.ev, x.file, x.end)>>)
         /\ tid' = tid
TSpec == TInit /\ [][TNext]_tvars
=============================================================================
