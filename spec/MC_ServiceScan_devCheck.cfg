SPECIFICATION Spec
CONSTANTS
  Sids <- SidsD
  ModelSessions = {1, 2}
  Classes <- ClassesDrop
  Cfgs <- CfgsD
  ProbeLens <- Lens1235
  Dev_MaskBit7 = FALSE
  Dev_ShortLens = FALSE
  Dev_BreakOnLenErr = FALSE
  Dev_BreakOnTimeout = FALSE
  Dev_CheckDoesNotRestore = TRUE
INVARIANT TypeOK
INVARIANT M0_Model
INVARIANT V2_InSession
INVARIANT V4_Skip
INVARIANT V5_RespIds
INVARIANT V3_Attempt
INVARIANT V3_Probed
INVARIANT V1a_Only
INVARIANT V1b_All
INVARIANT VerdictOk
PROPERTY Terminates
CHECK_DEADLOCK FALSE
