---------------------------- MODULE HsfzContract ----------------------------
(* Contract layer of property C07 (HSFZ transport), written from the statement.
   Deterministic monitor over the timed event sequence recorded around the real
   HSFZTransport/HSFZConnection (same event vocabulary as DoipContract):

     Feed(t, f, c)  Out(t, f, c)  Begin(t, op, tmo, d)  End(t, op, res, d)  Closed(t, c)  Final(t, drained)
     Conn(t, n)  Cut(t, c, how)

   The gateway stays reachable for the whole execution: Conn(t, n) is the n-th TCP connection the client opens
   (n = 1: the one of connect()), c is the number of the connection a frame was written to / fed to, Cut is the
   gateway ending connection c (FIN) behind what it has sent.

   Fed frames:   k \in {"Ack","Data","Alive","Short","Status","Err"}; src, dst (1-byte addresses of the
                 2-byte address header), d (payload), cw (control word)
   Written ones: k \in {"Data","AliveResp","Other"}; for AliveResp src = the 2-byte tester address field

   Clauses
     H1  reads deliver exactly the payloads of Data frames addressed ECU -> tester, in order
     H2  a write completes iff an Ack echoing the first five request bytes with the tester's address
         pair arrives within the ack timeout; otherwise it fails with a connection error
     H3  alive checks are answered immediately with the tester address
     H4  error control words surface as a connection error and close the connection
     H5  frames skipped while waiting for an ack stay available to later reads
   A write is bound to the connection its request was written to: only an Ack arriving THERE acknowledges it
   (H2), an error control word arriving there before the Ack has to surface (H4), and the request is
   transmitted once (H2) -- an Ack obtained for a re-transmission on a connection that the write opened by
   itself does not make "this write" acknowledged.  Likewise an operation that meets an error control word ends
   with a connection error (H4); it does not carry on on a connection which it opened by itself.
   Opening connections is not judged as such (who reconnects, and when, is the subject of property C08): the
   monitor follows the newest connection -- with a new connection the connection-specific part of its state
   starts afresh -- and an operation that opens one and then ENDS WITH A CONNECTION ERROR is accepted.
   Left open: status control words (Klemme15, VIN, status data inquiry, undefined words): whatever
   follows one is not judged except that delivered data stays in order; short frames (no address
   header) of kind Ack/Data must simply have no effect; a caller timeout not longer than the ack
   timeout may surface as Timeout.
*)
EXTENDS Naturals, Integers, Sequences, FiniteSets, TLC

\* "answered immediately": not queued behind other work.  An implementation may take a moment of its own
\* (the pinned one takes none in virtual time); anything that waits for an ack or a caller timeout is far beyond.
AliveGraceMs == 100
\* tolerance around deadlines, as in DoipContract
SlackMs == 150

M0 == [sent |-> <<>>, ndel |-> 0, alive |-> <<>>, op |-> "none", t0 |-> 0, tmo |-> -1, d |-> <<>>,
       decisive |-> "none", wrote |-> FALSE, unspec |-> FALSE, unspecNext |-> FALSE,
       closedAt |-> -1, errAt |-> -1, errN |-> 0, status |-> FALSE, fail |-> "ok",
       \* an operation of the caller has already ended with an error (the connection's failure has surfaced)
       failed |-> FALSE,
       \* newest connection of the client; the connection the pending write was written to (at Begin: the newest);
       \* a connection was opened while the pending foreground operation was running, and the time of an error
       \* control word that had arrived on the replaced connection without having surfaced (-1: none);
       \* the gateway has cut the (newest) connection
       conn |-> 0, opc |-> 0, reconn |-> FALSE, oerr |-> -1, cutAt |-> -1,
       \* a read issued by ANOTHER task of the caller and still pending (op "bgread"); at most one
       bg |-> [on |-> FALSE, t0 |-> 0, tmo |-> -1]]

Fail(m, label) == [m EXCEPT !.fail = label]

\* a new connection: nothing of what arrived on / was owed on the previous one can be delivered or answered any more
ResetConn(m) == [m EXCEPT !.sent = <<>>, !.ndel = 0, !.alive = <<>>, !.closedAt = -1, !.errAt = -1, !.errN = 0,
                          !.status = FALSE, !.failed = FALSE, !.cutAt = -1, !.unspec = FALSE, !.unspecNext = FALSE]

OnConn(m, e) ==
  IF m.op = "none" THEN ResetConn([m EXCEPT !.conn = e.n])
  ELSE ResetConn([m EXCEPT !.conn = e.n, !.reconn = TRUE,
                           !.oerr = IF m.oerr # -1 THEN m.oerr ELSE IF m.failed THEN -1 ELSE m.errAt])

Min(a, b) == IF a < b THEN a ELSE b
First5(d) == SubSeq(d, 1, Min(5, Len(d)))
DataForUs(c, f) == f.src = c.ecu /\ f.dst = c.tester
AckForUs(c, f)  == f.src = c.tester /\ f.dst = c.ecu

\* the earlier of the acknowledgement deadline and the caller's own deadline
WriteDeadline(c, m) == IF m.tmo # -1 /\ m.tmo < c.ackTime THEN m.t0 + m.tmo ELSE m.t0 + c.ackTime

\* cn: number of the connection the frame was fed to
OnFeed(c, m, t, f, cn) ==
  CASE f.k = "Data" /\ DataForUs(c, f) ->
         \* a message behind an error word can never be reached: it does not count as deliverable
         IF m.errAt # -1 THEN m ELSE [m EXCEPT !.sent = Append(@, [d |-> f.d, t |-> t])]
    [] f.k = "Alive" -> [m EXCEPT !.alive = Append(@, t + AliveGraceMs)]
    [] f.k = "Ack" /\ AckForUs(c, f) ->
         \* H2: the Ack of a write is one that arrives on the connection the request was written to
         IF m.op = "write" /\ m.decisive = "none" /\ f.d = First5(m.d) /\ m.errAt = -1 /\ cn = m.opc
         THEN [m EXCEPT !.decisive = IF t > WriteDeadline(c, m) - SlackMs THEN "late" ELSE "pos"]
         ELSE [m EXCEPT !.unspecNext = TRUE]
    [] f.k = "Err" -> IF m.errAt = -1 THEN [m EXCEPT !.errAt = t, !.errN = Len(m.sent)] ELSE m
    [] f.k = "Status" -> [m EXCEPT !.status = TRUE]
    [] OTHER -> m

OnOut(c, m, t, f, cn) ==
  CASE f.k = "AliveResp" ->
         IF f.src # c.tester THEN Fail(m, "H3/alive-response-does-not-carry-the-tester-address")
         ELSE IF m.alive = <<>> THEN m
         ELSE IF t > Head(m.alive) THEN Fail(m, "H3/alive-check-not-answered-immediately")
         ELSE [m EXCEPT !.alive = Tail(@)]
    [] f.k = "Data" ->
         IF m.op = "write" /\ ~m.wrote /\ f.src = c.tester /\ f.dst = c.ecu /\ f.d = m.d
         THEN [m EXCEPT !.wrote = TRUE, !.opc = cn]
         \* H2: one write() = one transmission of the request, whatever connection it travels on
         ELSE IF m.op = "write" /\ m.wrote /\ f.src = c.tester /\ f.dst = c.ecu /\ f.d = m.d
         THEN Fail(m, IF cn # m.opc THEN "H2/request-transmitted-again-on-another-connection"
                                    ELSE "H2/request-transmitted-more-than-once")
         ELSE Fail(m, "H2/frame-on-the-wire-is-not-the-written-message")
    [] OTHER -> Fail(m, "wire/unexpected-frame-written")

OnBegin(c, m, e) ==
  IF e.op = "bgread" THEN [m EXCEPT !.bg = [on |-> TRUE, t0 |-> e.t, tmo |-> e.tmo]] ELSE
  [m EXCEPT !.op = e.op, !.t0 = e.t, !.tmo = e.tmo, !.d = e.d, !.decisive = "none", !.wrote = FALSE,
            !.opc = m.conn, !.reconn = FALSE, !.oerr = -1,
            !.unspec = (m.unspec \/ m.unspecNext)]

\* messages for us that a read may still deliver: those fed before any error word
Deliverable(m) == IF m.errAt = -1 THEN Len(m.sent) ELSE m.errN

\* a read that started at t0 with caller timeout tmo ends (the foreground one or the pending background one)
EndReadG(c, m, e, t0, tmo) ==
  IF e.res = "ok" THEN
         IF m.ndel < Len(m.sent) /\ e.d = m.sent[m.ndel + 1].d
         THEN [m EXCEPT !.ndel = @ + 1]
         ELSE Fail(m, "H1/read-delivered-something-else-than-the-next-message-for-us")
  ELSE IF m.status THEN m
  ELSE
  CASE e.res = "Timeout" ->
         IF m.closedAt = -1 /\ m.ndel < Deliverable(m) /\ m.sent[m.ndel + 1].t < e.t - SlackMs
         THEN Fail(m, "H5/message-for-us-available-but-read-timed-out")
         ELSE IF m.closedAt = -1 /\ m.errAt # -1 /\ m.errAt < e.t - SlackMs /\ m.ndel >= Deliverable(m)
         THEN Fail(m, "H4/error-control-word-did-not-surface")
         \* ... also when the connection was closed (and maybe replaced) on the quiet: as long as no operation
         \* of the caller has failed, the error control word has not surfaced
         ELSE IF ~m.failed /\ m.errAt # -1 /\ m.errAt < e.t - SlackMs /\ m.ndel >= Deliverable(m)
         THEN Fail(m, "H4/error-control-word-swallowed-connection-closed-without-a-connection-error")
         ELSE IF tmo = -1 \/ e.t < t0 + tmo THEN Fail(m, "read/timeout-before-the-caller-deadline")
         ELSE m
    [] e.res \in {"ConnErr", "OsErr"} ->
         \* messages that arrived before the error word are delivered before the error surfaces (H1: "a read
         \* delivers exactly the payloads ... in order"; an error word ends the connection, it does not eat
         \* what was received before it)
         IF ~m.failed /\ ~m.unspec /\ m.ndel < Deliverable(m) /\ m.sent[m.ndel + 1].t < e.t - SlackMs
         THEN Fail(m, "H1/message-for-us-received-before-the-error-word-not-delivered")
         \* the failure surfaces as a CONNECTION error (what the UDS client reacts to); only operations on a
         \* connection whose failure has already surfaced may report "already closed" in another way
         ELSE IF e.res = "OsErr" /\ ~m.failed THEN Fail(m, "H4/error-control-word-did-not-surface-as-connection-error")
         ELSE IF m.closedAt # -1 THEN m
         ELSE IF m.errAt # -1 THEN Fail(m, "H4/connection-not-closed-after-error-control-word")
         ELSE IF m.cutAt # -1 THEN m  \* the gateway has ended the connection (what follows a cut: property C08)
         ELSE IF m.reconn THEN m      \* it failed on the connection that was replaced meanwhile
         ELSE Fail(m, "H1/read-failed-on-an-open-connection")
    [] OTHER -> Fail(m, "read/unexpected-exception")

EndRead(c, m, e) == EndReadG(c, m, e, m.t0, m.tmo)

EndWrite(c, m, e) ==
  IF m.unspec \/ m.status \/ (m.closedAt # -1 /\ m.closedAt <= m.t0) THEN
     (IF e.res = "ok" /\ ~m.wrote THEN Fail(m, "H2/write-completed-without-transmission") ELSE m)
  ELSE
  CASE e.res = "ok" ->
         IF ~m.wrote THEN Fail(m, "H2/write-completed-without-transmission")
         ELSE IF m.decisive \in {"pos", "late"} THEN m
         \* no Ack on the connection the request was written to: the write must not complete; whatever happened
         \* on a connection which the write opened by itself (an Ack for a re-transmission ...) does not acknowledge it
         ELSE IF m.reconn THEN Fail(m, "H2/write-completed-without-acknowledgement-on-the-connection-it-was-written-to")
         ELSE Fail(m, "H2/write-completed-without-acknowledgement")
    [] e.res = "OsErr" -> IF m.failed THEN m ELSE Fail(m, "H4/failure-did-not-surface-as-connection-error")
    [] e.res = "ConnErr" ->
         IF m.decisive = "pos" THEN Fail(m, "H2/write-failed-although-acknowledged")
         ELSE IF m.decisive = "late" THEN m
         \* the write opened a connection and reports a connection error of the one it was written to: not judged
         ELSE IF m.reconn /\ m.opc # m.conn THEN m
         ELSE IF m.errAt # -1 THEN
              (IF m.closedAt # -1 THEN m ELSE Fail(m, "H4/connection-not-closed-after-error-control-word"))
         ELSE IF e.t > m.t0 + c.ackTime + SlackMs THEN Fail(m, "H2/connection-error-later-than-the-ack-timeout")
         ELSE IF e.t < m.t0 + c.ackTime - SlackMs /\ m.closedAt = -1 /\ m.cutAt = -1
         THEN Fail(m, "H2/write-failed-before-the-ack-timeout")
         ELSE m
    [] e.res = "Timeout" ->
         IF m.decisive = "pos" THEN Fail(m, "H2/write-timed-out-although-acknowledged")
         ELSE IF m.tmo # -1 /\ m.tmo <= c.ackTime /\ e.t >= m.t0 + m.tmo THEN m
         ELSE Fail(m, "H2/write-timeout-instead-of-connection-error-within-the-ack-timeout")
    [] OTHER -> Fail(m, "write/unexpected-exception")

OnEnd(c, m, e) ==
  IF e.op = "bgread" THEN [EndReadG(c, m, e, m.bg.t0, m.bg.tmo) EXCEPT !.bg.on = FALSE,
                                                                       !.failed = (@ \/ e.res \notin {"ok", "Timeout"})] ELSE
  LET m1 == \* H4: an error control word had arrived on the connection of this operation; the operation replaced
            \* the connection and ends without a connection error: the error control word is swallowed for good
            IF m.reconn /\ m.oerr # -1 /\ m.oerr < e.t - SlackMs /\ e.res \in {"ok", "Timeout"}
            THEN Fail(m, "H4/error-control-word-swallowed-operation-went-on-on-a-connection-it-opened-itself")
            ELSE
            CASE e.op = "read" -> EndRead(c, m, e)
              [] e.op = "write" -> EndWrite(c, m, e)
              [] OTHER -> m
  IN [m1 EXCEPT !.op = "none", !.failed = (@ \/ e.res \notin {"ok", "Timeout"})]

OnFinal(c, m, e) ==
  IF \E i \in 1..Len(m.alive) : m.alive[i] < e.t /\ (m.closedAt = -1 \/ m.closedAt > m.alive[i])
  THEN Fail(m, "H3/alive-check-not-answered-immediately")
  ELSE IF ~m.status /\ e.drained /\ m.closedAt = -1 /\ m.ndel < Deliverable(m)
  THEN Fail(m, "H5/message-for-us-lost-for-later-reads")
  ELSE m

Overdue(c, m, t) == m.alive # <<>> /\ Head(m.alive) < t /\ (m.closedAt = -1 \/ m.closedAt > Head(m.alive))

Step(c, m, e) ==
  IF Overdue(c, m, e.t) THEN Fail(m, "H3/alive-check-not-answered-immediately")
  ELSE
  CASE e.e = "Feed"   -> IF e.c = m.conn THEN OnFeed(c, m, e.t, e.f, e.c) ELSE m  \* the rest of a frame for a replaced connection
    [] e.e = "Out"    -> OnOut(c, m, e.t, e.f, e.c)
    [] e.e = "Conn"   -> OnConn(m, e)
    [] e.e = "Cut"    -> IF m.cutAt = -1 /\ e.c = m.conn THEN [m EXCEPT !.cutAt = e.t] ELSE m
    [] e.e = "Begin"  -> OnBegin(c, m, e)
    [] e.e = "End"    -> OnEnd(c, m, e)
    [] e.e = "Closed" -> IF m.closedAt = -1 /\ e.c = m.conn THEN [m EXCEPT !.closedAt = e.t] ELSE m
    [] e.e = "Final"  -> OnFinal(c, m, e)
    [] OTHER          -> Fail(m, "trace/unknown-event")
=============================================================================
