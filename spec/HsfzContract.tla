---------------------------- MODULE HsfzContract ----------------------------
(* Contract layer of property C07 (HSFZ transport), written from the statement.
   Deterministic monitor over the timed event sequence recorded around the real
   HSFZTransport/HSFZConnection (same event vocabulary as DoipContract):

     Feed(t, f)  Out(t, f)  Begin(t, op, tmo, d)  End(t, op, res, d)  Closed(t)  Final(t, drained)

   Fed frames:   k \in {"Ack","Data","Alive","Short","Status","Err"}; src, dst (1-byte addresses of the
                 2-byte address header), d (payload), cw (control word)
   Written ones: k \in {"Data","AliveResp","Other"}; for AliveResp src = the 2-byte tester address field

   Clauses
     H1  reads deliver exactly the payloads of Data frames addressed ECU -> tester, in order
     H2  a write completes iff an Ack echoing the first five request bytes with the tester's address
         pair arrives within the ack timeout; otherwise it fails with a connection error
     H3  alive checks are answered immediately with the tester address
     H4  error control words surface as a connection error and close the connection
     H5  frames skipped while waiting for an ack stay available to later reads
   Left open: status control words (Klemme15, VIN, status data inquiry, undefined words): whatever
   follows one is not judged except that delivered data stays in order; short frames (no address
   header) of kind Ack/Data must simply have no effect; a caller timeout not longer than the ack
   timeout may surface as Timeout.
*)
EXTENDS Naturals, Integers, Sequences, FiniteSets, TLC

\* "answered immediately": not queued behind other work.  An implementation may take a moment of its own
\* (the pinned one takes none in virtual time); anything that waits for an ack or a caller timeout is far beyond.
AliveGraceMs == 100
\* tolerance around deadlines, as in DoipContract
SlackMs == 150

M0 == [sent |-> <<>>, ndel |-> 0, alive |-> <<>>, op |-> "none", t0 |-> 0, tmo |-> -1, d |-> <<>>,
       decisive |-> "none", wrote |-> FALSE, unspec |-> FALSE, unspecNext |-> FALSE,
       closedAt |-> -1, errAt |-> -1, errN |-> 0, status |-> FALSE, fail |-> "ok",
       \* an operation of the caller has already ended with an error (the connection's failure has surfaced)
       failed |-> FALSE,
       \* a read issued by ANOTHER task of the caller and still pending (op "bgread"); at most one
       bg |-> [on |-> FALSE, t0 |-> 0, tmo |-> -1]]

Fail(m, label) == [m EXCEPT !.fail = label]

Min(a, b) == IF a < b THEN a ELSE b
First5(d) == SubSeq(d, 1, Min(5, Len(d)))
DataForUs(c, f) == f.src = c.ecu /\ f.dst = c.tester
AckForUs(c, f)  == f.src = c.tester /\ f.dst = c.ecu

\* the earlier of the acknowledgement deadline and the caller's own deadline
WriteDeadline(c, m) == IF m.tmo # -1 /\ m.tmo < c.ackTime THEN m.t0 + m.tmo ELSE m.t0 + c.ackTime

OnFeed(c, m, t, f) ==
  CASE f.k = "Data" /\ DataForUs(c, f) ->
         \* a message behind an error word can never be reached: it does not count as deliverable
         IF m.errAt # -1 THEN m ELSE [m EXCEPT !.sent = Append(@, [d |-> f.d, t |-> t])]
    [] f.k = "Alive" -> [m EXCEPT !.alive = Append(@, t + AliveGraceMs)]
    [] f.k = "Ack" /\ AckForUs(c, f) ->
         IF m.op = "write" /\ m.decisive = "none" /\ f.d = First5(m.d) /\ m.errAt = -1
         THEN [m EXCEPT !.decisive = IF t > WriteDeadline(c, m) - SlackMs THEN "late" ELSE "pos"]
         ELSE [m EXCEPT !.unspecNext = TRUE]
    [] f.k = "Err" -> IF m.errAt = -1 THEN [m EXCEPT !.errAt = t, !.errN = Len(m.sent)] ELSE m
    [] f.k = "Status" -> [m EXCEPT !.status = TRUE]
    [] OTHER -> m

OnOut(c, m, t, f) ==
  CASE f.k = "AliveResp" ->
         IF f.src # c.tester THEN Fail(m, "H3/alive-response-does-not-carry-the-tester-address")
         ELSE IF m.alive = <<>> THEN m
         ELSE IF t > Head(m.alive) THEN Fail(m, "H3/alive-check-not-answered-immediately")
         ELSE [m EXCEPT !.alive = Tail(@)]
    [] f.k = "Data" ->
         IF m.op = "write" /\ ~m.wrote /\ f.src = c.tester /\ f.dst = c.ecu /\ f.d = m.d
         THEN [m EXCEPT !.wrote = TRUE]
         ELSE Fail(m, "H2/frame-on-the-wire-is-not-the-written-message")
    [] OTHER -> Fail(m, "wire/unexpected-frame-written")

OnBegin(c, m, e) ==
  IF e.op = "bgread" THEN [m EXCEPT !.bg = [on |-> TRUE, t0 |-> e.t, tmo |-> e.tmo]] ELSE
  [m EXCEPT !.op = e.op, !.t0 = e.t, !.tmo = e.tmo, !.d = e.d, !.decisive = "none", !.wrote = FALSE,
            !.unspec = (m.unspec \/ m.unspecNext)]

\* messages for us that a read may still deliver: those fed before any error word
Deliverable(m) == IF m.errAt = -1 THEN Len(m.sent) ELSE m.errN

\* a read that started at t0 with caller timeout tmo ends (the foreground one or the pending background one)
EndReadG(c, m, e, t0, tmo) ==
  IF e.res = "ok" THEN
         IF m.ndel < Len(m.sent) /\ e.d = m.sent[m.ndel + 1].d
         THEN [m EXCEPT !.ndel = @ + 1]
         ELSE Fail(m, "H1/read-delivered-something-else-than-the-next-message-for-us")
  ELSE IF m.status THEN m
  ELSE
  CASE e.res = "Timeout" ->
         IF m.closedAt = -1 /\ m.ndel < Deliverable(m) /\ m.sent[m.ndel + 1].t < e.t - SlackMs
         THEN Fail(m, "H5/message-for-us-available-but-read-timed-out")
         ELSE IF m.closedAt = -1 /\ m.errAt # -1 /\ m.errAt < e.t - SlackMs /\ m.ndel >= Deliverable(m)
         THEN Fail(m, "H4/error-control-word-did-not-surface")
         ELSE IF tmo = -1 \/ e.t < t0 + tmo THEN Fail(m, "read/timeout-before-the-caller-deadline")
         ELSE m
    [] e.res \in {"ConnErr", "OsErr"} ->
         \* messages that arrived before the error word are delivered before the error surfaces (H1: "a read
         \* delivers exactly the payloads ... in order"; an error word ends the connection, it does not eat
         \* what was received before it)
         IF ~m.failed /\ ~m.unspec /\ m.ndel < Deliverable(m) /\ m.sent[m.ndel + 1].t < e.t - SlackMs
         THEN Fail(m, "H1/message-for-us-received-before-the-error-word-not-delivered")
         \* the failure surfaces as a CONNECTION error (what the UDS client reacts to); only operations on a
         \* connection whose failure has already surfaced may report "already closed" in another way
         ELSE IF e.res = "OsErr" /\ ~m.failed THEN Fail(m, "H4/error-control-word-did-not-surface-as-connection-error")
         ELSE IF m.closedAt # -1 THEN m
         ELSE IF m.errAt # -1 THEN Fail(m, "H4/connection-not-closed-after-error-control-word")
         ELSE Fail(m, "H1/read-failed-on-an-open-connection")
    [] OTHER -> Fail(m, "read/unexpected-exception")

EndRead(c, m, e) == EndReadG(c, m, e, m.t0, m.tmo)

EndWrite(c, m, e) ==
  IF m.unspec \/ m.status \/ (m.closedAt # -1 /\ m.closedAt <= m.t0) THEN
     (IF e.res = "ok" /\ ~m.wrote THEN Fail(m, "H2/write-completed-without-transmission") ELSE m)
  ELSE
  CASE e.res = "ok" ->
         IF ~m.wrote THEN Fail(m, "H2/write-completed-without-transmission")
         ELSE IF m.decisive \in {"pos", "late"} THEN m
         ELSE Fail(m, "H2/write-completed-without-acknowledgement")
    [] e.res = "OsErr" -> IF m.failed THEN m ELSE Fail(m, "H4/failure-did-not-surface-as-connection-error")
    [] e.res = "ConnErr" ->
         IF m.decisive = "pos" THEN Fail(m, "H2/write-failed-although-acknowledged")
         ELSE IF m.decisive = "late" THEN m
         ELSE IF m.errAt # -1 THEN
              (IF m.closedAt # -1 THEN m ELSE Fail(m, "H4/connection-not-closed-after-error-control-word"))
         ELSE IF e.t > m.t0 + c.ackTime + SlackMs THEN Fail(m, "H2/connection-error-later-than-the-ack-timeout")
         ELSE IF e.t < m.t0 + c.ackTime - SlackMs /\ m.closedAt = -1 THEN Fail(m, "H2/write-failed-before-the-ack-timeout")
         ELSE m
    [] e.res = "Timeout" ->
         IF m.decisive = "pos" THEN Fail(m, "H2/write-timed-out-although-acknowledged")
         ELSE IF m.tmo # -1 /\ m.tmo <= c.ackTime /\ e.t >= m.t0 + m.tmo THEN m
         ELSE Fail(m, "H2/write-timeout-instead-of-connection-error-within-the-ack-timeout")
    [] OTHER -> Fail(m, "write/unexpected-exception")

OnEnd(c, m, e) ==
  IF e.op = "bgread" THEN [EndReadG(c, m, e, m.bg.t0, m.bg.tmo) EXCEPT !.bg.on = FALSE,
                                                                       !.failed = (@ \/ e.res \notin {"ok", "Timeout"})] ELSE
  LET m1 == CASE e.op = "read" -> EndRead(c, m, e)
              [] e.op = "write" -> EndWrite(c, m, e)
              [] OTHER -> m
  IN [m1 EXCEPT !.op = "none", !.failed = (@ \/ e.res \notin {"ok", "Timeout"})]

OnFinal(c, m, e) ==
  IF \E i \in 1..Len(m.alive) : m.alive[i] < e.t /\ (m.closedAt = -1 \/ m.closedAt > m.alive[i])
  THEN Fail(m, "H3/alive-check-not-answered-immediately")
  ELSE IF ~m.status /\ e.drained /\ m.closedAt = -1 /\ m.ndel < Deliverable(m)
  THEN Fail(m, "H5/message-for-us-lost-for-later-reads")
  ELSE m

Overdue(c, m, t) == m.alive # <<>> /\ Head(m.alive) < t /\ (m.closedAt = -1 \/ m.closedAt > Head(m.alive))

Step(c, m, e) ==
  IF Overdue(c, m, e.t) THEN Fail(m, "H3/alive-check-not-answered-immediately")
  ELSE
  CASE e.e = "Feed"   -> OnFeed(c, m, e.t, e.f)
    [] e.e = "Out"    -> OnOut(c, m, e.t, e.f)
    [] e.e = "Begin"  -> OnBegin(c, m, e)
    [] e.e = "End"    -> OnEnd(c, m, e)
    [] e.e = "Closed" -> IF m.closedAt = -1 THEN [m EXCEPT !.closedAt = e.t] ELSE m
    [] e.e = "Final"  -> OnFinal(c, m, e)
    [] OTHER          -> Fail(m, "trace/unknown-event")
=============================================================================
