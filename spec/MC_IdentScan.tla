--------------------------- MODULE MC_IdentScan ---------------------------
EXTENDS IdentScan

Cfg(has, ss, sa, sk, svc, st, en, pay, ck) ==
  [has |-> has, sessions |-> ss, skipAll |-> sa, skip |-> sk, svc |-> svc, start |-> st, end |-> en,
   payload |-> pay, check |-> ck]

\* 0x22 / 0x2E around the byte boundary 0x00FF / 0x0100 (endianness visible), two sessions
WinA == {254, 255, 256, 257, 258}
CfgsA == {Cfg(TRUE, ss, {}, sk, svc, 255, 257, pay, ck) :
            ss \in {<<1, 2>>, <<2, 3>>}, sk \in {{}, {<<2, 256>>, <<1, 257>>}}, svc \in {34},
            pay \in {<<>>}, ck \in {0, 1}}
         \cup {Cfg(TRUE, <<1, 2>>, {2}, {}, 46, 256, 257, <<170, 187>>, 0),
               Cfg(FALSE, <<>>, {}, {}, 34, 254, 256, <<>>, 0),
               Cfg(FALSE, <<>>, {}, {}, 46, 257, 257, <<1>>, 0),
               Cfg(FALSE, <<>>, {}, {}, 34, 258, 257, <<>>, 0)}

\* 0x31: three sub-functions per identifier, one session
WinB == {511, 512, 513}
CfgsB == {Cfg(TRUE, <<1>>, {}, sk, 49, st, 512, <<>>, 0) : sk \in {{}, {<<1, 512>>}}, st \in {511, 512}}
         \cup {Cfg(FALSE, <<>>, {}, {}, 49, 512, 513, <<0>>, 0)}

\* 0x27: 7-bit identifiers, requested end beyond 0x7F
WinC == {125, 126, 127}
CfgsC == {Cfg(TRUE, <<1, 2>>, {}, {}, 39, 126, en, <<>>, 0) : en \in {126, 127, 128, 130}}
=============================================================================
