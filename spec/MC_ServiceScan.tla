--------------------------- MODULE MC_ServiceScan ---------------------------
(* Small-constant exhaustive configurations of ServiceScan. *)
EXTENDS ServiceScan

Lens1235 == <<1, 2, 3, 5>>

\* six classes: one of each kind, answering at the first and at the last probe length
Classes6 == {Absent, AbsentHere, LenErrAlw, Silent, AnswersAt(1, TRUE, FALSE), AnswersAt(5, FALSE, FALSE)}
\* the five kinds of behaviour (quick tier)
Classes5 == {Absent, AbsentHere, LenErrAlw, Silent, AnswersAt(2, TRUE, FALSE)}
\* all twelve
Classes12 == {Absent, AbsentHere, LenErrAlw, Silent} \cup
             {AnswersAt(k, p, FALSE) : k \in {1, 2, 3, 5}, p \in BOOLEAN}
\* plus services that ignore too short requests
Classes16 == Classes12 \cup {QuietBelow(k, p) : k \in {2, 5}, p \in BOOLEAN}
\* with ECUs that fall back to the default session after answering
ClassesDrop == {Absent, LenErrAlw, AnswersAt(2, TRUE, FALSE), AnswersAt(2, TRUE, TRUE), AnswersAt(3, FALSE, TRUE)}
Classes3 == {Absent, LenErrAlw, AnswersAt(2, TRUE, FALSE)}
Classes2 == {Absent, AnswersAt(2, TRUE, FALSE)}
ClassesSim == Classes6 \cup {AnswersAt(2, TRUE, TRUE), QuietBelow(3, FALSE)}

Cfg(has, ss, sa, sk, ri, ck) ==
  [has |-> has, sessions |-> ss, skipAll |-> sa, skip |-> sk, respIds |-> ri, check |-> ck]

\* sids 0x10 / 0x50: request id and response id (bit 6)
SidsA == {16, 80}
SkipsA == {<<{}, {}>>, <<{2}, {<<1, 16>>}>>, <<{}, {<<2, 16>>, <<2, 80>>, <<3, 16>>}>>}
CfgsA == {Cfg(TRUE, ss, k[1], k[2], ri, ck) :
            ss \in {<<1, 2>>, <<2, 3>>}, k \in SkipsA, ri \in BOOLEAN, ck \in BOOLEAN}
         \cup {Cfg(FALSE, <<>>, {}, {}, ri, FALSE) : ri \in BOOLEAN}
CfgsAq == {Cfg(TRUE, <<1, 2>>, k[1], k[2], ri, FALSE) : k \in SkipsA, ri \in BOOLEAN}
          \cup {Cfg(TRUE, <<2, 3>>, {}, {}, FALSE, TRUE), Cfg(FALSE, <<>>, {}, {}, TRUE, FALSE)}

\* all four combinations of bits 6 and 7
SidsB == {16, 80, 133, 197}
CfgsB == {Cfg(TRUE, <<1, 2>>, {}, sk, ri, FALSE) : sk \in {{}, {<<1, 133>>, <<2, 197>>}}, ri \in BOOLEAN}

SidsC == {34}
CfgsC == {Cfg(TRUE, ss, {}, {}, FALSE, ck) : ss \in {<<1, 2>>, <<2, 1>>, <<2>>}, ck \in BOOLEAN}

SidsD == {16, 34}
CfgsD == {Cfg(TRUE, ss, {}, {}, FALSE, TRUE) : ss \in {<<1, 2>>, <<2>>}}
=============================================================================
