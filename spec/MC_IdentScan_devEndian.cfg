SPECIFICATION Spec
CONSTANTS
  ModelSessions = {1}
  Window <- WinB
  AbnIds = {512}
  DropIds = {}
  Cfgs <- CfgsB
  Dev_EndExclusive = FALSE
  Dev_CountNegatives = FALSE
  Dev_LittleEndian = TRUE
  Dev_NoClamp27 = FALSE
INVARIANT TypeOK
INVARIANT M0_Model
INVARIANT I3_Session
INVARIANT I2_Iso
INVARIANT I2_Asked
INVARIANT I4_Counted
INVARIANT I1_Counter
INVARIANT VerdictOk
PROPERTY Terminates
CHECK_DEADLOCK FALSE
