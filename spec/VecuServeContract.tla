------------------------ MODULE VecuServeContract ------------------------
(* Growth item X21, contract layer: life cycle of the virtual ECU's line server
   (gallia.services.uds.server: TCPUDSServerTransport / UnixUDSServerTransport .run(), handle_client;
   started by `gallia script vecu`).

   Sources of the clauses
     S1  docs / C19: one reply line per request line; a connected client that sends a request the ECU answers
         gets that answer (the ECU model used here answers TesterPresent 3E 00 with 7E 00)
     S2  `run()` is the whole server: when it is cancelled (Ctrl-C on `gallia script vecu`, teardown of a test
         bench) it has to return -- asyncio's `async with server` is used for exactly that purpose; a server that
         cannot be stopped keeps its port / socket path and the process
     S3  a stopped server has no clients: connections that are still open are closed by the server (the clients
         see end-of-stream)
     S4  handle_client catches "Unexpected exception when handling client communication", logs it and ends the
         connection: documented intent that a connection never ends in an unhandled exception (whatever the client
         did, including connecting and leaving without a request)
   Monitor over the recorded events of one scenario:
     [e |-> "Connect", c]            client c connected (the server accepted)
     [e |-> "Request", c, ok]        c sent 3E 00; ok = the reply 7E 00 arrived within the deadline
     [e |-> "Close", c]              c closed its connection
     [e |-> "Stop", ended]           run() was cancelled; ended = it returned within the deadline
     [e |-> "Final", open, excs]     open = clients connected at Stop that did not see end-of-stream within the
                                     deadline; excs = unhandled exceptions reported to the event loop / raised
                                     out of handle_client during the scenario                                     *)
EXTENDS Naturals, Sequences, FiniteSets, TLC

M0 == [conn |-> {}, stopped |-> FALSE, fail |-> "ok"]
Fail(m, l) == IF m.fail = "ok" THEN [m EXCEPT !.fail = l] ELSE m

Step(m, e) ==
  CASE e.e = "Connect" -> IF m.stopped \/ e.c \in m.conn THEN Fail(m, "trace/connect-out-of-place")
                          ELSE [m EXCEPT !.conn = @ \cup {e.c}]
    [] e.e = "Request" -> IF e.c \notin m.conn \/ m.stopped THEN Fail(m, "trace/request-out-of-place")
                          ELSE IF ~e.ok THEN Fail(m, "S1/request-of-a-connected-client-not-answered") ELSE m
    [] e.e = "Close"   -> IF e.c \notin m.conn THEN Fail(m, "trace/close-out-of-place")
                          ELSE [m EXCEPT !.conn = @ \ {e.c}]
    [] e.e = "Stop"    -> IF m.stopped THEN Fail(m, "trace/second-stop")
                          ELSE IF ~e.ended THEN Fail([m EXCEPT !.stopped = TRUE], "S2/cancelled-server-does-not-stop")
                          ELSE [m EXCEPT !.stopped = TRUE]
    [] e.e = "Final"   -> IF ~m.stopped THEN Fail(m, "trace/final-without-stop")
                          ELSE IF e.excs > 0 THEN Fail(m, "S4/connection-ended-in-an-unhandled-exception")
                          ELSE IF e.open # <<>> THEN Fail(m, "S3/client-still-connected-after-the-server-stopped")
                          ELSE m
    [] OTHER -> Fail(m, "trace/unknown-event")

RECURSIVE Run(_, _, _)
Run(m, ev, i) == IF i > Len(ev) THEN m ELSE Run(Step(m, ev[i]), ev, i + 1)
Verdict(ev) == Run(M0, ev, 1).fail
=============================================================================
