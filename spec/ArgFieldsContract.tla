-------------------------- MODULE ArgFieldsContract --------------------------
(* Growth property X20 -- the per-field-TYPE contract of gallia's argument
   parsing layer (vendored pydantic_argparse + gallia.command.config);
   statement: /verif/growth/X20.json.

   Contract layer: operators only, written from DOCUMENTED behaviour.  Where
   the sources are silent every outcome is accepted ("ok-unspecified"); the
   only thing demanded everywhere is that no Python exception escapes.

   Vocabulary
   ----------
   value   [t, n, s, q]  t: "b" bool (n 0/1) | "i" int | "f" float (s repr) | "s" str | "p" path | "y" bytes (s hex)
                            | "e" enum member (s name) | "n" None | "l" list | "t" tuple | "S" set | "d" dict (q of
                            "kv" [n key, q inner] / "kn" [n key] entries) | "u" uri (s raw) | "-" no value
   token   [c, x, v, a, h]  one argv element meant as a value: lexical class c, text x, the value v it denotes in
                            its class, its int(x, 0) reading a and its int(x, 16) reading h ("-" if none)
   item    [f, form, toks]  one option occurrence: field name ("" = addresses no field), form
                            long `--name t..` | eq `--name=t t..` | short `-s t..` | shortj `-st` | neg `--no-name`
                            | abbr (unambiguous prefix of the long name) | pos (positional tokens)
                            | unknown (an option no field has) | stray (a value no field takes)
   field   the harness's own record of what it declared (harness/x20_models.py): kind, elem, req, dflt, hasconst,
           const, hidden, pos, members, names, renders, desc, group, mv, fsec, csec, pct
   outcome [res "ok" | "exit" | "raise", code, vals (sequence of [f, v]: the fields whose value differs from the
           declared default), mention (fields named by the error message)]

   Sources of the clauses
   ----------------------
   T0  parse_typed_args: "Catch exceptions, and use the ArgumentParser.error() method to report it to the user";
       ArgumentParser.error docstring "Prints a usage message to stderr and exits".
   E1/E2  class constant `EXIT_ERROR = 2` ("# Exit Codes"); error() / _validation_error() exit with it; argparse
       package docstring "intended to be a *near* drop-in replacement for ... argparse.ArgumentParser".
   D1  (omitted optional field keeps its declared default)  Field docstring ":param default: The default value, if
       non is given explicitly"; parser.py "argument_default=argparse.SUPPRESS,  # Allow pydantic to handle defaults".
   R1  (required)  BooleanOptionalAction docstring "allows us to easily provide *required* boolean arguments";
       arg_required(): `required: info.is_required()`; usage line `--needed INT` without brackets.
   B1  BooleanOptionalAction docstring: '"--<OPT>" option strings which set the argument to True ... "--no-<OPT>"
       option strings which set the argument to False'.
   K1  Field docstring ":param const: Specifies, a default value, if the argument is set with no explicit value";
       help text of the real option `--ecu-reset`: "reset level is optional".
   V1  parse_typed_args docstring: returns "an instance of its bound pydantic model, populated with the parsed and
       validated user supplied command-line arguments"; per type:
         AutoInt  "automatically parses int from a string. See int() with base=0"
         HexInt   "parses int from a hex string. See int() with base=16"
         HexBytes "parses bytes from hex strings. See binascii.unhexlify()"
         Ranges   "parses one-dimensional ranges. See unravel()" (ranges by hyphens, enumerations by commas, merged)
         Ranges2D "parses two-dimensional ranges. See unravel_2d()" (outer:inner, an outer-only entry gives None
                  "and overrides other values")
         EnumArg  "automatic parsing of enum values by either name or value similar to AutoInt";
                  auto_enum's message "is not a valid key or value for"
         AutoLiteral "automatic handling of enum, int and bytes parsing for values defined in Literals similar to
                  EnumArg, AutoInt and HexBytes.  Usage: x: AutoLiteral[Literal[1, 2, 3]] = ..."
         Idempotent "fields of types which can be instantiated by a certain value"
         int / float / str / Literal / Enum: the pydantic types themselves (decimal text, member texts, enum VALUES)
         containers: usage line `--numbers [LIST ...]` (zero or more values, container.py nargs=ZERO_OR_MORE).
   V2  usage line `--count INT` (exactly one value) versus `--reset [INT]`.
   U1  hidden: Field docstring ":param hidden: Specifies, that the argument is part of neither the CLI nor the config
       file"; unknown options / stray values: "near drop-in replacement" of argparse.parse_args, SubParsersAction
       comment "Store any unrecognized options on the parent namespace, so that the top level parser can decide".
   M1  _validation_error: "Use the same method, that was used for the CLI generation" (the message names the
       argument by its option strings).
   H0-H5 docs/config.md "The documentation for all available settings per subcommand is available via -h/--help";
       help flag "show this help message and exit"; arg_names docstring "Standardises argument name when printing
       to command line. This also includes potential short names if specified"; description() docstring + its
       "default: ..." construction ("if isinstance(_default, Enum): _default = _default.name"); Field docstring
       metavar "The type hint which is shown on the CLI", cli_group "The group in the CLI under which the argument
       is listed", hidden (see U1).
   CS1, CS3 ConfigArgFieldInfo docstring: config_section "Specifies the config section under which the argument is
       listed. If none is specified, it is automatically set to the config section of the config class to which this
       argument belongs"; comment "Attribute specific annotation takes precedence"; hidden (see U1).  A field
       for which NO section is given anywhere: silent (today: not configurable).

   NOT demanded (sources silent; counted as unspecified): which occurrence of a repeated option wins; option
   abbreviations; a value token that starts with "-" given as a separate argv element; `--flag=value`; the `--`
   separator; positional values split around options; hexadecimal / fractional / zero-padded text for a plain int
   or float; a plain Enum given by NAME; which member of a union is chosen; any syntax for a plain dict;
   descending ranges; upper-case hex for a bytes literal; message texts; the rendering of a default beyond "one of
   str / repr / member name / member value / hex".                                                              *)
EXTENDS Integers, Sequences, FiniteSets, TLC

ToSet(q) == {q[i] : i \in 1..Len(q)}
V(t, n, s, q) == [t |-> t, n |-> n, s |-> s, q |-> q]
NoVal     == V("-", 0, "", <<>>)
VBool(b)  == V("b", IF b THEN 1 ELSE 0, "", <<>>)
VStr(x)   == V("s", 0, x, <<>>)
VPath(x)  == V("p", 0, x, <<>>)
VBytes(x) == V("y", 0, x, <<>>)

OK == {"ok", "ok-unspecified"}

-----------------------------------------------------------------------------
(* V1: conversion of ONE value token by the documented meaning of the type *)
Ok(v) == [r |-> "ok",  v |-> v]
Bad   == [r |-> "bad", v |-> NoVal]
Silent   == [r |-> "any", v |-> NoVal]

NumClasses  == {"dec", "neg", "hex", "hexu", "oct", "bin", "nhex"}
EnumClasses == {"ename", "evalue", "ehexvalue"}
Member(fd, v) == v \in ToSet(fd.members)

Conv(k, fd, tok) ==
  CASE k = "int"     -> IF tok.c \in {"dec", "neg"} THEN Ok(tok.v)
                        ELSE IF tok.c \in {"junk", "empty", "frac", "word"} THEN Bad ELSE Silent
    [] k = "float"   -> IF tok.c \in {"dec", "neg", "frac"} THEN Ok(tok.v)
                        ELSE IF tok.c \in {"junk", "empty", "word"} THEN Bad ELSE Silent
    [] k = "str"     -> Ok(VStr(tok.x))
    [] k = "path"    -> IF tok.c = "pathy" THEN Ok(VPath(tok.x)) ELSE Silent
    [] k = "autoint" -> IF tok.a.t = "i" THEN Ok(tok.a) ELSE Bad                \* int(x, 0)
    [] k = "hexint"  -> IF tok.h.t = "i" THEN Ok(tok.h) ELSE Bad                \* int(x, 16)
    [] k = "hexbytes" -> IF tok.c \in {"hexl", "hexU"} THEN Ok(tok.v)
                         ELSE IF tok.c = "empty" THEN Ok(VBytes(""))
                         ELSE IF tok.c \in {"odd", "junk"} THEN Bad ELSE Silent
    [] k = "enum"    -> IF tok.c = "evalue" /\ Member(fd, tok.v) THEN Ok(tok.v)
                        ELSE IF tok.c \in {"eunknown", "junk"} THEN Bad ELSE Silent
    [] k = "enumarg" -> IF tok.c \in EnumClasses THEN (IF Member(fd, tok.v) THEN Ok(tok.v) ELSE Bad)
                        ELSE IF tok.c \in {"eunknown", "elower", "junk", "empty"} THEN Bad ELSE Silent
    [] k = "literal" -> IF tok.c = "word" THEN (IF Member(fd, VStr(tok.x)) THEN Ok(VStr(tok.x)) ELSE Bad)
                        ELSE IF tok.c \in {"junk", "empty"} THEN Bad ELSE Silent
    [] k = "autolit" ->
         LET m == IF tok.c \in EnumClasses \cup {"hexl"} THEN tok.v
                  ELSE IF tok.c \in NumClasses /\ tok.a.t = "i" THEN tok.a ELSE NoVal
         IN  IF m # NoVal /\ Member(fd, m) THEN Ok(m)
             ELSE IF m # NoVal /\ (\E mm \in ToSet(fd.members) : mm.t = m.t) THEN Bad
             ELSE IF tok.c \in {"junk", "eunknown"} THEN Bad ELSE Silent
    [] k = "uri"     -> IF tok.c = "uri" THEN Ok(tok.v) ELSE Silent
    [] k = "ranges"  -> IF tok.c = "rng" THEN Ok(tok.v) ELSE IF tok.c = "junk" THEN Bad ELSE Silent
    [] k = "ranges2d" -> IF tok.c = "r2" THEN Ok(tok.v) ELSE IF tok.c = "junk" THEN Bad ELSE Silent
    [] OTHER -> Silent                                                             \* union, dict

IsContainer(fd) == fd.kind \in {"list", "set", "tuple2", "ranges", "ranges2d", "dict"}
ElemKind(fd) == IF fd.kind \in {"list", "set", "tuple2"} THEN fd.elem ELSE fd.kind

(* aggregation of the converted tokens of one container occurrence; "R" and "D" are EXPECTED values whose q is a SET *)
R2Merge(vals) ==
  LET ents == UNION {ToSet(vals[i].q) : i \in 1..Len(vals)}
      keys == {e.n : e \in ents}
  IN  {[n |-> k, none |-> (\E e \in ents : e.n = k /\ e.t = "kn"),
        inner |-> UNION {ToSet(e.q) : e \in {x \in ents : x.n = k /\ x.t = "kv"}}] : k \in keys}
NormEntry(m) == [n |-> m.n, none |-> m.none, inner |-> IF m.none THEN {} ELSE m.inner]

Agg(fd, vals) ==
  CASE fd.kind = "list"   -> Ok(V("l", 0, "", vals))
    [] fd.kind = "set"    -> Ok(V("S", 0, "", vals))
    [] fd.kind = "tuple2" -> IF Len(vals) = 2 THEN Ok(V("t", 0, "", vals)) ELSE Bad
    [] fd.kind = "ranges" -> Ok(V("R", 0, "", UNION {ToSet(vals[i].q) : i \in 1..Len(vals)}))
    [] fd.kind = "ranges2d" -> Ok(V("D", 0, "", {NormEntry(m) : m \in R2Merge(vals)}))
    [] OTHER -> Silent

Ascending(q) == \A i \in 1..Len(q) - 1 : q[i].n < q[i + 1].n
SameVal(e, a) ==
  CASE e.t = "S" -> a.t = "S" /\ ToSet(a.q) = ToSet(e.q) /\ Len(a.q) = Cardinality(ToSet(a.q))
    [] e.t = "R" -> a.t = "l" /\ ToSet(a.q) = e.q /\ Len(a.q) = Cardinality(e.q) /\ Ascending(a.q)
    [] e.t = "D" -> /\ a.t = "d"
                    /\ {NormEntry([n |-> x.n, none |-> x.t = "kn", inner |-> ToSet(x.q)]) : x \in ToSet(a.q)} = e.q
                    /\ Len(a.q) = Cardinality(e.q)
                    /\ \A x \in ToSet(a.q) : Ascending(x.q)
    [] OTHER -> e = a

-----------------------------------------------------------------------------
(* expectation for ONE field: acc(v) must be accepted with v | rej must be refused | may(v) may be refused, if accepted
   then with v | any *)
Acc(v, why) == [r |-> "acc", v |-> v, why |-> why]
Rej(why)    == [r |-> "rej", v |-> NoVal, why |-> why]
May(v, why) == [r |-> "may", v |-> v, why |-> why]
AnyR        == [r |-> "any", v |-> NoVal, why |-> "unspecified"]

SepForms    == {"long", "short", "pos", "abbr"}        \* every value token is an argv element of its own
DashClasses == {"neg", "nhex", "dashword"}             \* text starts with "-"
Dashed(it, i) == (it.form \in SepForms \/ i > 1) /\ it.toks[i].c \in DashClasses

BoolItem(fd, it) ==
  IF it.toks # <<>> THEN AnyR                                                    \* --flag=value: silent
  ELSE IF it.form \in {"long", "short", "abbr"} THEN Acc(VBool(TRUE), "flag")    \* B1
  ELSE IF it.form = "neg" THEN Acc(VBool(FALSE), "flag")                         \* B1
  ELSE AnyR

ScalarItem(fd, it, haspos) ==
  IF it.form = "neg" THEN Rej("unknown")                                         \* U1: no such option
  ELSE IF Len(it.toks) = 0 THEN (IF fd.hasconst THEN Acc(fd.const, "const") ELSE Rej("novalue"))   \* K1 / V2
  ELSE IF Len(it.toks) > 1 THEN (IF haspos THEN AnyR ELSE Rej("unknown"))        \* U1: stray value
  ELSE LET c == Conv(fd.kind, fd, it.toks[1]) IN
       IF Dashed(it, 1) THEN (IF c.r = "ok" THEN May(c.v, "value") ELSE AnyR)
       ELSE IF c.r = "ok" THEN Acc(c.v, "value")
       ELSE IF c.r = "bad" THEN Rej("value") ELSE AnyR

ContItem(fd, it) ==
  LET n    == Len(it.toks)
      cs   == [i \in 1..n |-> Conv(ElemKind(fd), fd, it.toks[i])]
      dash == \E i \in 1..n : Dashed(it, i)
      agg  == Agg(fd, [i \in 1..n |-> cs[i].v])
  IN  IF it.form = "neg" THEN Rej("unknown")
      ELSE IF fd.kind = "dict" THEN AnyR
      ELSE IF \E i \in 1..n : cs[i].r = "bad" THEN (IF dash THEN AnyR ELSE Rej("value"))
      ELSE IF \E i \in 1..n : cs[i].r = "any" THEN AnyR
      ELSE IF agg.r = "bad" THEN (IF dash THEN AnyR ELSE Rej("value"))
      ELSE IF agg.r = "any" THEN AnyR
      ELSE IF dash THEN May(agg.v, "value") ELSE Acc(agg.v, "value")

ItemExpect(fd, it, haspos) ==
  LET e == IF fd.kind = "bool" THEN BoolItem(fd, it)
           ELSE IF IsContainer(fd) THEN ContItem(fd, it) ELSE ScalarItem(fd, it, haspos)
  IN  IF it.form = "abbr" /\ e.r = "acc" THEN May(e.v, e.why) ELSE e             \* abbreviations: silent

FieldExpect(fd, its, haspos) ==
  IF fd.hidden THEN (IF its = <<>> THEN Acc(fd.dflt, "default") ELSE Rej("hidden"))      \* D1 / U1
  ELSE IF its = <<>> THEN (IF fd.req THEN Rej("required") ELSE Acc(fd.dflt, "default"))  \* R1 / D1
  ELSE IF Len(its) > 1 THEN AnyR                                                          \* repeated: silent
  ELSE ItemExpect(fd, its[1], haspos)

-----------------------------------------------------------------------------
(* a parse case c = [m, fields, items, sep, inter], outcome o *)
ItemsOf(c, name) == SelectSeq(c.items, LAMBDA it : it.f = name)
Actual(o, fd) == IF \E i \in 1..Len(o.vals) : o.vals[i].f = fd.name
                 THEN (CHOOSE x \in ToSet(o.vals) : x.f = fd.name).v ELSE fd.dflt
HasPos(c) == \E i \in 1..Len(c.fields) : c.fields[i].pos

RejLabel(why) ==
  CASE why = "required" -> "R1/missing-required-argument-accepted"
    [] why = "hidden"   -> "U1/hidden-field-on-the-command-line"
    [] why = "unknown"  -> "U1/unknown-argument-accepted"
    [] why = "novalue"  -> "V2/option-without-value-accepted"
    [] OTHER            -> "V1/invalid-value-accepted"
AccLabel(why) ==
  CASE why = "default" -> "D1/defaults-refused"
    [] why = "flag"    -> "B1/flag-refused"
    [] why = "const"   -> "K1/option-without-value-refused"
    [] OTHER           -> "V1/valid-value-refused"
WrongLabel(why) ==
  CASE why = "default" -> "D1/default-not-kept"
    [] why = "flag"    -> "B1/flag-polarity"
    [] why = "const"   -> "K1/const-not-used"
    [] OTHER           -> "V1/wrong-value"

(* -> [verdict, culprit]: culprit = the field the verdict is about ("" if none) *)
ParseJudge(c, o) ==
  LET n      == Len(c.fields)
      haspos == HasPos(c)
      ex     == [i \in 1..n |-> FieldExpect(c.fields[i], ItemsOf(c, c.fields[i].name), haspos)]
      glob   == {c.items[j] : j \in {k \in 1..Len(c.items) : c.items[k].f = ""}}
      globrej == \E it \in glob : it.form = "unknown" \/ (it.form = "stray" /\ ~haspos)
      globany == \E it \in glob : it.form = "stray" /\ haspos
      rejs   == {i \in 1..n : ex[i].r = "rej"}
      loose  == globany \/ \E i \in 1..n : ex[i].r \in {"any", "may"}
      wrong  == {i \in 1..n : ex[i].r \in {"acc", "may"} /\ ~SameVal(ex[i].v, Actual(o, c.fields[i]))}
      given  == {i \in 1..n : ItemsOf(c, c.fields[i].name) # <<>>}
      named  == {i \in given : c.fields[i].name \in ToSet(o.mention)}    \* the argument the message names
      first(S) == CHOOSE i \in S : \A j \in S : i <= j
      J(v, i) == [verdict |-> v, culprit |-> IF i = 0 THEN "" ELSE c.fields[i].name]
  IN  IF o.res = "raise" THEN J("T0/python-exception", IF given = {} THEN 0 ELSE first(given))
      ELSE IF o.res = "exit" /\ o.code = 0 THEN J("E1/exit-status-0-without-result", 0)
      ELSE IF c.sep \/ c.inter THEN J("ok-unspecified", 0)
      ELSE IF rejs # {} \/ globrej THEN
             IF o.res = "ok" THEN (IF rejs # {} THEN J(RejLabel(ex[first(rejs)].why), first(rejs))
                                   ELSE J("U1/unknown-argument-accepted", 0))
             ELSE IF o.code # 2 THEN J("E2/usage-error-exit-status", IF rejs # {} THEN first(rejs) ELSE 0)
             ELSE IF ~globrej /\ ~loose /\ Cardinality(rejs) = 1 /\ ex[first(rejs)].why = "value"
                     /\ c.fields[first(rejs)].name \notin ToSet(o.mention)
                  THEN J("M1/error-does-not-name-the-argument", first(rejs))
             ELSE J("ok", 0)
      ELSE IF o.res = "exit" THEN
             IF loose THEN J("ok-unspecified", 0)
             ELSE IF given = {} THEN J("D1/defaults-refused", 0)
             ELSE LET i == first(IF named # {} THEN named ELSE given) IN J(AccLabel(ex[i].why), i)
      ELSE IF wrong # {} THEN J(WrongLabel(ex[first(wrong)].why), first(wrong))
      ELSE IF loose THEN J("ok-unspecified", 0) ELSE J("ok", 0)

ParseVerdictS(c, o) == ParseJudge(c, o).verdict

-----------------------------------------------------------------------------
(* H: `--help`.  h = [res, code, entries]; entries[i] belongs to fields[i]:
   [n (listing entries naming the field), names (option strings shown), desc (description shown), hasdflt,
    dflt (text after "default: "), heading, mv (declared metavar shown)] *)
HelpVerdictS(fields, h) ==
  LET n == Len(fields)
  IN  IF h.res = "raise" THEN "H0/help-raises"
      ELSE IF h.res # "exit" \/ h.code # 0 THEN "H0/help-exit-status"
      ELSE IF \E i \in 1..n : fields[i].hidden /\ h.entries[i].n # 0 THEN "H1/hidden-field-listed"
      ELSE IF \E i \in 1..n : ~fields[i].hidden /\ h.entries[i].n # 1 THEN "H1/field-not-listed-exactly-once"
      ELSE IF \E i \in 1..n : ~fields[i].hidden /\ ~(ToSet(fields[i].names) \subseteq ToSet(h.entries[i].names))
           THEN "H2/documented-option-name-missing"
      ELSE IF \E i \in 1..n : ~fields[i].hidden /\ fields[i].desc /\ ~h.entries[i].desc THEN "H3/description-missing"
      ELSE IF \E i \in 1..n : ~fields[i].hidden /\ ~fields[i].req
                              /\ ~(h.entries[i].hasdflt /\ h.entries[i].dflt \in ToSet(fields[i].renders))
           THEN "H4/default-not-shown"
      ELSE IF \E i \in 1..n : ~fields[i].hidden /\ fields[i].mv # "" /\ ~h.entries[i].mv THEN "H5/metavar-not-shown"
      ELSE IF \E i \in 1..n : ~fields[i].hidden /\ fields[i].group # "" /\ h.entries[i].heading # fields[i].group
           THEN "H5/not-listed-under-its-group"
      ELSE "ok"

-----------------------------------------------------------------------------
(* CS: config sections.  obs[i] belongs to fields[i]: picked / inreg \in {"field", "class", "-", "other"}: which of
   the candidate keys (section given at the field, section given at the class) the value came from / is registered *)
SectionOf(fd) == IF fd.fsec # "-" THEN "field" ELSE IF fd.csec # "-" THEN "class" ELSE "-"
ConfigVerdictS(fields, obs) ==
  LET n == Len(fields) IN
  IF \E i \in 1..n : fields[i].gallia /\ fields[i].hidden /\ (obs[i].picked # "-" \/ obs[i].inreg # "-")
  THEN "CS3/hidden-field-in-the-config-file"
  ELSE IF \E i \in 1..n : ~fields[i].hidden /\ fields[i].gallia /\ SectionOf(fields[i]) # "-"
                          /\ (obs[i].picked # SectionOf(fields[i]) \/ obs[i].inreg # SectionOf(fields[i]))
  THEN "CS1/config-key-is-not-section-dot-name"
  ELSE "ok"
=============================================================================
