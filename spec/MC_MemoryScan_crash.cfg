SPECIFICATION Spec
CONSTANTS
  Is <- IsRun3
  K = 2
  Classes <- ClassesCrash
  DropSets <- NoDrop
  SReads = {"ok"}
  Budgets = {9}
  ResetOks = {TRUE, FALSE}
  Cfgs <- CfgsCrash
  OtherCode = 127
  Dev_TimeoutAborts = FALSE
  Dev_ReportRoor = FALSE
  Dev_NoDfi = FALSE
  Dev_SwapNibbles = FALSE
  Dev_SizeConst = FALSE
  Dev_CheckOnce = FALSE
  Dev_NoRecover = FALSE
  Dev_ResultIndex = FALSE
INVARIANT TypeOK
INVARIANT NoStuck
INVARIANT M0_Model
INVARIANT M1_Layout
INVARIANT M2_Session
INVARIANT M3_Reported
INVARIANT M4_OnlyReal
INVARIANT M5_Sweep
INVARIANT M6_Check
INVARIANT M7_Leave
INVARIANT VerdictOk
CHECK_DEADLOCK FALSE
