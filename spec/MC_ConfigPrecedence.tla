----------------------- MODULE MC_ConfigPrecedence -----------------------
(* Model-checking wrapper: every structural option class.  The named field-type
   classes of the property (int in any base, hex bytes, ranges, 2-D ranges, enum
   by name/value, URI, path, bool, optional/const flag, positional) map onto
   these structural classes (harness/c18_lib.py: classify()). *)
EXTENDS ConfigPrecedence

Kinds == {"scalar", "bool", "const", "container"}

AllClasses ==
  {k \in [kind : Kinds, annot : BOOLEAN, meta : BOOLEAN, fileKey : BOOLEAN,
          positional : BOOLEAN, hasDefault : BOOLEAN] :
     /\ (k.fileKey => k.meta)                 \* a config section needs gallia's Field()
     /\ (k.positional => k.meta)              \* so does the positional flag
     /\ (k.positional => ~k.fileKey)
     /\ (k.kind = "const" => ~k.positional /\ ~k.annot)   \* Optional[...] wraps the annotation
     /\ (k.kind = "bool" => ~k.positional)}
=============================================================================
