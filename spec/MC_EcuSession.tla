---- MODULE MC_EcuSession ----
EXTENDS EcuSession
====
