SPECIFICATION Spec
CONSTANTS
  Scenarios <- SmallScenarios
  Jobs <- AllJobs
  Dev_Overwrite = FALSE
  Dev_LeafByName = TRUE
  Dev_RunOnMissing = FALSE
  Dev_UsageExitZero = FALSE
  Dev_PrefixLookup = FALSE
  Dev_ListOmitsNested = FALSE
  Dev_TemplateLastDefault = FALSE
INVARIANT TypeOK
INVARIANT Inv_Load
INVARIANT Inv_Dispatch
INVARIANT Inv_Lookup
INVARIANT Inv_List
INVARIANT Inv_Template

CHECK_DEADLOCK FALSE
