SPECIFICATION Spec
CONSTANTS
  Alphabet = {10, 97}
  MaxLen = 7
  FrameLen <- MCLineRule
INVARIANT Independent
INVARIANT Stable
PROPERTY Complete
CHECK_DEADLOCK FALSE
