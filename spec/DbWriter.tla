------------------------------ MODULE DbWriter ------------------------------
(* Design layer of X03: DBHandler._executor_func with a fault budget.
   Dev_RequeueAtTail = TRUE is the pinned behaviour: a failed execute is put back at the TAIL of the queue
   (behind rows logged later); FALSE is the intended design: the same row is retried before the next. *)
EXTENDS DbWriterContract

CONSTANTS N, Faults, Dev_RequeueAtTail

VARIABLES nlogged, queue, rows, budget, closing, ended
vars == <<nlogged, queue, rows, budget, closing, ended>>

Init == nlogged = 0 /\ queue = <<>> /\ rows = <<>> /\ budget = Faults /\ closing = FALSE /\ ended = FALSE

Log == /\ ~closing /\ nlogged < N
       /\ nlogged' = nlogged + 1 /\ queue' = Append(queue, nlogged + 1)
       /\ UNCHANGED <<rows, budget, closing, ended>>

WriteOk == /\ queue # <<>> /\ rows' = Append(rows, Head(queue)) /\ queue' = Tail(queue)
           /\ UNCHANGED <<nlogged, budget, closing, ended>>

WriteFail == /\ queue # <<>> /\ budget > 0 /\ budget' = budget - 1
             /\ queue' = IF Dev_RequeueAtTail THEN Append(Tail(queue), Head(queue)) ELSE queue
             /\ UNCHANGED <<nlogged, rows, closing, ended>>

Close == /\ ~closing /\ nlogged = N /\ closing' = TRUE /\ UNCHANGED <<nlogged, queue, rows, budget, ended>>
Joined == /\ closing /\ ~ended /\ queue = <<>> /\ ended' = TRUE /\ UNCHANGED <<nlogged, queue, rows, budget, closing>>

Next == Log \/ WriteOk \/ WriteFail \/ Close \/ Joined
Spec == Init /\ [][Next]_vars /\ WF_vars(WriteOk) /\ WF_vars(Log) /\ WF_vars(Close) /\ WF_vars(Joined)

Obs == [logged |-> [i \in 1..nlogged |-> i], rows |-> rows, ended |-> ended]
W_AtEnd == ended => Verdict(Obs) = "ok"
W4_Drains == <>ended
=============================================================================
