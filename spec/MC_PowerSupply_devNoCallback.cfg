SPECIFICATION Spec
CONSTANTS
  N = 2
  Tmo = 1000
  ProgId = "cyc2"
  Callers <- C2
  Prog <- Prog_cyc2
  Start <- StartStag
  Init0 <- MCInitOn
  MaySilent = FALSE
  MayRefuse = FALSE
  Dev_NoDriverLock = FALSE
  Dev_NoSelect = FALSE
  Dev_OutpStat = FALSE
  Dev_MasterAsChannel0 = FALSE
  Dev_NoTimeout = FALSE
  Dev_NoMutex = FALSE
  Dev_NoSleep = FALSE
  Dev_CallbackFirst = FALSE
  Dev_NoCallback = TRUE
  Dev_MutexLeak = FALSE
  Dev_UpOnly = FALSE
INVARIANT C_S1
INVARIANT C_S2
INVARIANT C_G1
INVARIANT C_W1
INVARIANT C_E1
INVARIANT C_T1
INVARIANT C_K1
INVARIANT C_P1
INVARIANT C_P2
INVARIANT C_P3
INVARIANT C_P4
INVARIANT C_P5
INVARIANT C_Trace
INVARIANT TruthAgrees
INVARIANT LocksSane
CHECK_DEADLOCK FALSE
