----------------------- MODULE Trace_LockFile -----------------------
(* Code -> spec for X22: every recorded interleaving of real gallia processes (the lines of the shared O_APPEND
   event file, re-coded by harness/x22_run.encode) is judged by LockFileContract!Verdict. *)
EXTENDS LockFileContract, Json, IOUtils

Batch == JsonDeserialize(IOEnv.TRACE_FILE)
T == Batch.traces
Base == {Batch.baseline[i] : i \in 1..Len(Batch.baseline)}

VARIABLES tid, done
tvars == <<tid, done>>

TInit == tid \in 1..Len(T) /\ done = FALSE
TDone == /\ ~done /\ PrintT(<<"V", T[tid].id, Verdict(T[tid].procs, T[tid].ev, Base)>>) /\ done' = TRUE /\ UNCHANGED tid
TSpec == TInit /\ [][TDone]_tvars
=============================================================================
