SPECIFICATION Spec
CONSTANTS
  Cfgs <- CfgsA
  SeedKinds <- KindsA
  KeyKinds <- NoKeys
  MaxSeed = 3
  Lat = 20000
  Tmo = 30000
  EcuKeyLen = 2
  Interrupts <- IntNone
  Dev_NoSleepOnError = TRUE
  Dev_SaveDuringDetect = FALSE
  Dev_NoReenter = FALSE
  Dev_CountOnlyPositive = FALSE
  Dev_DurationInSeconds = FALSE
  Dev_IgnoreDuration = FALSE
  Dev_SkipKey = FALSE
  Dev_ContinueAfterUnlock = FALSE
  Dev_NoCheck = FALSE
  Dev_KeyLenFromZero = FALSE
  Dev_AbortOnNegative = FALSE
  Dev_WriteMismatch = FALSE
INVARIANT TypeOK
INVARIANT D1_File
INVARIANT D2_Request
INVARIANT S1_Entered
INVARIANT S2_Checked
INVARIANT K_ZeroKey
INVARIANT K4_AfterSeed
INVARIANT K5_Unlock
INVARIANT K6_Exhaust
INVARIANT R0_NoReset
INVARIANT R1_EveryNth
INVARIANT R2_WhenNeeded
INVARIANT R3_Reenter
INVARIANT R4_Alive
INVARIANT P1_Sleep
INVARIANT D5_Duration
INVARIANT VerdictOk
INVARIANT Progress
CHECK_DEADLOCK FALSE
