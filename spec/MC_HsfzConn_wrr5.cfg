SPECIFICATION Spec
CONSTANTS
  MaxFrames = 5
  Script <- ScriptWRR
  Dev_S13_RequeueAtTail = FALSE
INVARIANT H1_InOrder
INVARIANT H5_NothingLost
INVARIANT H2_AckedWritesSucceed
INVARIANT H3_AliveNotStalled
INVARIANT H4_ErrCloses
PROPERTY Terminates
CHECK_DEADLOCK FALSE
