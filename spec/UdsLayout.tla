------------------------------ MODULE UdsLayout ------------------------------
(* C01 / C02 -- design layer.

   (a) the abstract case space: kind x suppress bit x boundary class of every
       field x record length class x group count x address/size widths 1..15,
       concretised into field records (ReqCases / RespCases);  TLC enumerates
       it (every case is an initial state) and exports it for the harness.
   (b) a state machine shaped like gallia's codec pipeline
         request : construct (range checks) -> serialise (.pdu) ->
                   parse_dynamic: registry dispatch -> length gate + _from_pdu
                   + round-trip assertion -> typed | raw
         response: parse_dynamic: registry dispatch -> length gate + _from_pdu
                   -> typed (exposed fields, re-serialisation) | raw | reject
       checked against the contract clauses Q1..Q4 / R1..R3 of
       UdsLayoutContract.  Deviation constants reproduce the mechanisms of the
       suspected defects S1..S7: all FALSE = intended design, satisfies the
       contract; one TRUE = TLC must find a counterexample (negative control). *)
EXTENDS UdsLayoutContract

CONSTANTS
  Side,            \* "req" | "resp"  (which half is explored)
  KindSel,         \* set of kinds explored, or {} for all
  MaxGroups,       \* group counts 0..MaxGroups
  Dev_S1_CdtcsNoSuppressBit,
  Dev_S2_ClearDddiInverted,
  Dev_S3_Type6Pack,
  Dev_S4_ExtDataWidths,
  Dev_S5_WmbaTrailing,
  Dev_S6_DtcDictCollapse,
  Dev_S7_ClearDddiLen3

VARIABLES c, pc, pdu, dk, out, rng
vars == <<c, pc, pdu, dk, out, rng>>

-----------------------------------------------------------------------------
(* boundary classes -> values *)
UClasses == {"below", "min", "min1", "mid", "max1", "max", "above"}
InClasses == {"min", "min1", "mid", "max1", "max"}
Mid(w) == CASE w = 1 -> 90 [] w = 2 -> 4660 [] w = 3 -> 1193046     \* 5A, 1234, 123456
UVal(w, cl) == CASE cl = "below" -> -1 [] cl = "min" -> 0 [] cl = "min1" -> 1 [] cl = "mid" -> Mid(w)
                 [] cl = "max1" -> Pow(w) - 2 [] cl = "max" -> Pow(w) - 1 [] cl = "above" -> Pow(w)
\* sub-function (7 bit); the parity classes of SecurityAccess are produced by
\* taking both neighbours: the range classifier says which of them is legal
SfClasses == UClasses \cup {"min2", "mid1", "above1"}
SfVal(cl) == CASE cl = "below" -> -1 [] cl = "min" -> 0 [] cl = "min1" -> 1 [] cl = "min2" -> 2
               [] cl = "mid" -> 53 [] cl = "mid1" -> 54 [] cl = "max1" -> 126 [] cl = "max" -> 127
               [] cl = "above" -> 128 [] cl = "above1" -> 129
SfBase(par, base) ==
  CASE par = "odd"  -> (CASE base = "min" -> 1 [] base = "mid" -> 53 [] base = "max" -> 127)
    [] par = "even" -> (CASE base = "min" -> 0 [] base = "mid" -> 54 [] base = "max" -> 126)
    [] par = "any"  -> (CASE base = "min" -> 0 [] base = "mid" -> 53 [] base = "max" -> 127)
NibClasses == {"below", "min", "mid", "max", "above", "lo_below", "lo_min", "lo_max", "lo_above"}
NibHi(cl) == CASE cl = "below" -> -1 [] cl = "min" -> 0 [] cl = "max" -> 15 [] cl = "above" -> 16 [] OTHER -> 10
NibLo(cl) == CASE cl = "lo_below" -> -1 [] cl = "lo_min" -> 0 [] cl = "lo_max" -> 15 [] cl = "lo_above" -> 16
               [] cl = "min" -> 0 [] cl = "max" -> 15 [] OTHER -> 5
\* responses: value domains of three ISO-enumerated bytes
RespVal(n, w, cl) ==
  CASE n = "sf"  -> (CASE cl = "min" -> 0 [] cl = "min1" -> 1 [] cl = "mid" -> 53 [] cl = "max1" -> 126 [] cl = "max" -> 127)
    [] n = "nrc" -> (CASE cl = "min" -> 16 [] cl = "min1" -> 17 [] cl = "mid" -> 49 [] cl = "max1" -> 120 [] cl = "max" -> 127)
    [] n = "fmt" -> (CASE cl = "min" -> 0 [] cl = "min1" -> 1 [] cl = "mid" -> 2 [] cl = "max1" -> 3 [] cl = "max" -> 4)
    [] OTHER -> UVal(w, cl)

RlClasses == {"empty", "one", "some"}
Rec(rl) == CASE rl = "empty" -> <<>> [] rl = "one" -> <<165>> [] rl = "some" -> <<222, 173, 0, 128, 239, 1>>
             [] OTHER -> <<>>
\* a w-byte value with non-zero leading byte and pairwise distinct bytes
Pat(w) == [j \in 1..w |-> (16 * j + w) % 256]
MemClasses == {"zero", "one", "exact", "over", "neg"}
MemVal(w, cl) == CASE cl = "zero" -> Big(<<>>) [] cl = "one" -> Big(<<1>>) [] cl = "exact" -> Big(Pat(w))
                   [] cl = "over" -> Big(Pat(w + 1)) [] cl = "neg" -> [neg |-> TRUE, b |-> <<1>>]

-----------------------------------------------------------------------------
(* abstract case space *)
Has(L, t) == \E i \in 1..Len(L) : L[i].t = t
HasMulti(L) == \E i \in 1..Len(L) : L[i].t = "mem" /\ L[i].multi
NoMem == [auto |-> FALSE, alfid |-> 0, aw |-> 0, sw |-> 0, ac |-> "zero", sc |-> "zero"]
DefMem == [auto |-> FALSE, alfid |-> 18, aw |-> 2, sw |-> 1, ac |-> "exact", sc |-> "exact"]
Corner == {1, 4, 15}
MemSet ==
  \* every width pair 1..15 x 1..15, format given and format computed by the library
  {[auto |-> a, alfid |-> sw * 16 + aw, aw |-> aw, sw |-> sw, ac |-> "exact", sc |-> "exact"] :
     a \in BOOLEAN, aw \in 1..15, sw \in 1..15}
  \* corner widths x value classes of address and size (one of them at a time)
  \cup {[auto |-> a, alfid |-> sw * 16 + aw, aw |-> aw, sw |-> sw, ac |-> p[1], sc |-> p[2]] :
          a \in BOOLEAN, aw \in Corner, sw \in Corner,
          p \in {q \in MemClasses \X MemClasses : q[1] = "exact" \/ q[2] = "exact" \/ q[1] = q[2]}}
  \* malformed format bytes
  \cup {[auto |-> FALSE, alfid |-> x, aw |-> 1, sw |-> 1, ac |-> "zero", sc |-> "zero"] :
          x \in {-1, 0, 1, 16, 256, 255}}
RespMemSet ==
  {[auto |-> FALSE, alfid |-> sw * 16 + aw, aw |-> aw, sw |-> sw, ac |-> "exact", sc |-> "exact"] :
     aw \in 1..15, sw \in 1..15}
  \cup {[auto |-> FALSE, alfid |-> sw * 16 + aw, aw |-> aw, sw |-> sw, ac |-> ac, sc |-> sc] :
          aw \in Corner, sw \in Corner, ac \in {"zero", "one", "exact"}, sc \in {"zero", "one", "exact"}}

Focusable(d) == \/ d.t = "sf" /\ d.fix < 0
                \/ d.t \in {"u", "nib", "grp", "optu"}
SubsOf(d) == IF d.t = "grp" THEN 1..Len(d.ns) ELSE {1}
ClassesOf(d, req) ==
  IF ~req THEN InClasses
  ELSE CASE d.t = "sf" -> SfClasses [] d.t = "nib" -> NibClasses [] OTHER -> UClasses
Neutral == [i |-> 0, j |-> 1, c |-> "none", b |-> "mid"]
FocusSet(L, req) ==
  {[i |-> 0, j |-> 1, c |-> "none", b |-> bb] : bb \in {"min", "mid", "max"}}
  \cup UNION {{[i |-> i, j |-> j, c |-> cl, b |-> "mid"] : j \in SubsOf(L[i]), cl \in ClassesOf(L[i], req)} :
                i \in {x \in 1..Len(L) : Focusable(L[x])}}
\* records ISO makes mandatory are not left empty in generated *responses*
RlOk(L, req, rl) == req \/ \A i \in 1..Len(L) : (L[i].t = "rest" /\ L[i].min > 0) => rl # "empty"

SingleDtcKinds == {"ReportFirstTestFailedDTC", "ReportFirstConfirmedDTC",
                   "ReportMostRecentTestFailedDTC", "ReportMostRecentConfirmedDTC"}
\* (1) boundary classes of every field x suppress bit x record lengths x group counts
AbsFields(k, L, req) ==
  {a \in
    [kind : {k},
     sup  : IF req /\ Has(L, "sf") THEN BOOLEAN ELSE {FALSE},
     fo   : FocusSet(L, req),
     opt  : IF Has(L, "optu") \/ Has(L, "ext") THEN BOOLEAN ELSE {FALSE},
     rl   : IF Has(L, "rest") \/ Has(L, "rest2") \/ Has(L, "ext") THEN RlClasses ELSE {"na"},
     rl2  : IF Has(L, "rest2") THEN RlClasses ELSE {"na"},
     gc   : IF Has(L, "grp") \/ HasMulti(L) THEN 0..MaxGroups ELSE {1},
     dup  : IF ~req /\ Has(L, "grp") THEN BOOLEAN ELSE {FALSE},
     mm   : IF Has(L, "mem") THEN {DefMem} ELSE {NoMem},
     lw   : IF Has(L, "lfi") THEN {2} ELSE {0},
     sa   : IF req /\ k = "WriteMemoryByAddress" THEN BOOLEAN ELSE {FALSE}] :
    /\ a.dup => a.gc >= 2
    /\ RlOk(L, req, a.rl)
    /\ (~req /\ a.gc = 0) => (a.fo.i = 0 /\ ~HasMulti(L))
    \* reportFirst/MostRecent...DTC answers carry at most one record
    /\ (~req /\ k \in SingleDtcKinds) => a.gc <= 1}
\* (2) address / size widths 1..15 x value classes, around the neutral case
AbsMem(k, L, req) ==
  IF ~Has(L, "mem") THEN {}
  ELSE [kind : {k},
        sup  : IF req /\ Has(L, "sf") THEN BOOLEAN ELSE {FALSE},
        fo   : {Neutral},
        opt  : {FALSE},
        rl   : IF Has(L, "rest") THEN {"some"} ELSE {"na"},
        rl2  : {"na"},
        gc   : IF HasMulti(L) THEN {2} ELSE {1},
        dup  : {FALSE},
        mm   : IF req THEN MemSet ELSE RespMemSet,
        lw   : {0},
        sa   : {FALSE}]
\* (3) lengthFormatIdentifier widths 1..15
AbsLfi(k, L, req) ==
  IF ~Has(L, "lfi") THEN {}
  ELSE [kind : {k}, sup : {FALSE},
        fo   : {[i |-> 0, j |-> 1, c |-> "none", b |-> bb] : bb \in {"min", "mid"}},
        opt  : {FALSE}, rl : {"na"}, rl2 : {"na"}, gc : {1}, dup : {FALSE}, mm : {NoMem},
        lw   : 1..15, sa : {FALSE}]
Abs(k, L, req) == AbsFields(k, L, req) \cup AbsMem(k, L, req) \cup AbsLfi(k, L, req)

-----------------------------------------------------------------------------
(* concretisation: abstract case -> field record *)
ClsAt(a, i) == IF a.fo.i = i THEN a.fo.c ELSE a.fo.b

ConcD(d, i, a, req, vk) ==
  CASE d.t = "sf" ->
         (IF d.fix >= 0 THEN <<>>
          ELSE (d.n :> (IF a.fo.i = i THEN SfVal(a.fo.c) ELSE SfBase(d.par, a.fo.b)))) @@ ("sup" :> a.sup)
    [] d.t = "u" -> (d.n :> (IF req THEN UVal(d.w, ClsAt(a, i)) ELSE RespVal(d.n, d.w, ClsAt(a, i))))
    [] d.t = "nib" -> (d.hi :> (IF a.fo.i = i THEN NibHi(a.fo.c) ELSE NibHi(a.fo.b)))
                      @@ (d.lo :> (IF a.fo.i = i THEN NibLo(a.fo.c) ELSE NibLo(a.fo.b)))
    [] d.t = "mem" ->
         LET m == a.mm
             cnt == IF d.multi THEN a.gc ELSE 1
             av(j) == IF j = 1 THEN MemVal(m.aw, m.ac) ELSE MemVal(m.aw, "one")
             sv(j) == IF j = 1 THEN MemVal(m.sw, m.sc) ELSE MemVal(m.sw, IF j = 2 THEN "zero" ELSE "one")
         IN ("alfid_auto" :> m.auto) @@ ("alfid" :> m.alfid)
            @@ ("addrs" :> [j \in 1..cnt |-> av(j)]) @@ ("sizes" :> [j \in 1..cnt |-> sv(j)])
            @@ (IF req /\ a.kind = "WriteMemoryByAddress" THEN ("size_auto" :> a.sa) ELSE <<>>)
    [] d.t = "rest" -> (d.n :> (IF vk.is THEN <<vk.iocp>> \o Rec(a.rl) ELSE Rec(a.rl)))
    [] d.t = "rest2" ->
         IF vk.is THEN (d.n1 :> (<<vk.iocp>> \o (IF vk.more THEN Rec(a.rl) ELSE <<>>))) @@ (d.n2 :> Rec(a.rl2))
         ELSE (d.n1 :> Rec(a.rl)) @@ (d.n2 :> Rec(a.rl2))
    [] d.t = "grp" ->
         LET baseval(w, e) == CASE a.fo.b = "min" -> e - 1
                                [] a.fo.b = "max" -> Pow(w) - e
                                [] OTHER -> Mid(w) + (e - 1)
             \* the focused class goes into the first group, the others keep distinct base values
             val(j, e) == IF a.fo.i = i /\ a.fo.j = j /\ e = 1
                          THEN (IF req THEN UVal(d.ws[j], a.fo.c) ELSE RespVal(d.ns[j], d.ws[j], a.fo.c))
                          ELSE IF a.dup THEN Mid(d.ws[j])
                          ELSE baseval(d.ws[j], e)
         IN [n \in {d.ns[j] : j \in 1..Len(d.ns)} |->
               LET j == CHOOSE jj \in 1..Len(d.ns) : d.ns[jj] = n IN
               [e \in 1..a.gc |-> val(j, e)]]
    [] d.t = "optu" -> (d.flag :> a.opt)
                       @@ (d.n :> (IF a.opt THEN (IF req THEN UVal(d.w, ClsAt(a, i)) ELSE RespVal(d.n, d.w, ClsAt(a, i)))
                                   ELSE 0))
    [] d.t = "lfi" ->
         ("lfi" :> a.lw * 16) @@ ("blocklen" :> (IF a.fo.b = "min" THEN Big(<<>>) ELSE Big(Pat(a.lw))))
    [] d.t = "ext" -> ("has_rec" :> a.opt) @@ ("recnum" :> (IF a.opt THEN 1 ELSE 0))
                      @@ ("data" :> (IF a.opt THEN Rec(a.rl) ELSE <<>>))
    [] OTHER -> <<>>

RECURSIVE ConcFrom(_, _, _, _, _)
ConcFrom(L, i, a, req, vk) ==
  IF i > Len(L) THEN <<>> ELSE ConcD(L[i], i, a, req, vk) @@ ConcFrom(L, i + 1, a, req, vk)

VarInfo(k, req) == IF k \in VariantKinds
                   THEN [is |-> TRUE, iocp |-> ReqVariant[k].iocp, more |-> ReqVariant[k].more]
                   ELSE [is |-> FALSE, iocp |-> 0, more |-> FALSE]
Conc(a, L, req) == ConcFrom(L, 1, a, req, VarInfo(a.kind, req))

Sel(K) == IF KindSel = {} THEN K ELSE K \cap KindSel

\* cases with their abstract coordinates (exported), and the concrete cases explored
ReqAbsCasesOf(K) ==
  UNION {{[kind |-> k, abs |-> a, f |-> Conc(a, ReqLayout[k], TRUE)] : a \in Abs(k, ReqLayout[k], TRUE)} : k \in K}
ReqCases == {[kind |-> x.kind, f |-> x.f] : x \in ReqAbsCasesOf(Sel(ReqKinds))}

Muts == {"none", "trunc1", "ext1"}
Mutate(b, m) == CASE m = "none" -> b [] m = "trunc1" -> SubSeq(b, 1, Len(b) - 1) [] m = "ext1" -> b \o <<85>>
RespAbsCasesOf(K) ==
  UNION {{[kind |-> k, abs |-> a, f |-> Conc(a, RespLayout[k], FALSE),
           b |-> Enc(RespLayout[k], Conc(a, RespLayout[k], FALSE) @@ [alfid_auto |-> FALSE])] :
            a \in Abs(k, RespLayout[k], FALSE)} : k \in K}
RespCases == {[kind |-> x.kind, f |-> x.f, mut |-> m, b |-> Mutate(x.b, m)] :
                x \in RespAbsCasesOf(Sel(RespKinds)), m \in Muts}

-----------------------------------------------------------------------------
(* the codec pipeline *)
NoOut == [typed |-> FALSE, kind |-> "none", f |-> <<>>, re |-> [ok |-> FALSE, b |-> <<>>]]
Type6 == {"ReportSupportedDTC", "ReportFirstTestFailedDTC", "ReportFirstConfirmedDTC",
          "ReportMostRecentTestFailedDTC", "ReportMostRecentConfirmedDTC", "ReportDTCWithPermanentStatus"}
ReEnc(L, f) == Enc(L, f @@ [alfid_auto |-> FALSE])

Init ==
  /\ c \in (IF Side = "req" THEN ReqCases ELSE RespCases)
  /\ pc = IF Side = "req" THEN "New" ELSE "Recv"
  /\ pdu = <<>> /\ dk = "none" /\ out = NoOut
  /\ rng = "?"            \* range class of the parameters, determined by the range checks of Construct

\* -- request side
Construct ==
  /\ pc = "New"
  /\ rng' = ReqRange(c.kind, c.f)
  /\ \/ rng' # "out" /\ pc' = "Built"
     \/ rng' # "in" /\ pc' = "Refused"           \* unspec: either
  /\ UNCHANGED <<c, pdu, dk, out>>

\* what .pdu produces: the ISO layout, unless a deviation reproduces a defect
SerialiseRaises ==
  \/ Dev_S3_Type6Pack /\ c.kind \in Type6
  \/ Dev_S2_ClearDddiInverted /\ c.kind = "ClearDynamicallyDefinedDataIdentifier" /\ ~c.f.has_id
DesignEnc ==
  LET L == ReqLayout[c.kind] IN
  IF Dev_S1_CdtcsNoSuppressBit /\ c.kind = "ControlDTCSetting" THEN Enc(L, [c.f EXCEPT !.sup = FALSE])
  ELSE IF Dev_S2_ClearDddiInverted /\ c.kind = "ClearDynamicallyDefinedDataIdentifier"
       THEN Enc(L, [c.f EXCEPT !.has_id = FALSE])
  ELSE Enc(L, c.f)
Serialise ==
  /\ pc = "Built"
  /\ IF SerialiseRaises THEN pc' = "Refused" /\ pdu' = pdu
     ELSE pc' = "Encoded" /\ pdu' = DesignEnc
  /\ UNCHANGED <<c, dk, out, rng>>

Dispatch ==
  /\ pc = "Encoded"
  /\ dk' = ReqKindOf(pdu)
  /\ pc' = IF dk' = "none" THEN "Raw" ELSE "Dispatched"
  /\ UNCHANGED <<c, pdu, out, rng>>

\* length gate + _from_pdu + `assert result.pdu == pdu`; any failure => raw
DesignReEncReq(k, f) ==
  IF Dev_S1_CdtcsNoSuppressBit /\ k = "ControlDTCSetting" THEN ReEnc(ReqLayout[k], [f EXCEPT !.sup = FALSE])
  ELSE IF Dev_S2_ClearDddiInverted /\ k = "ClearDynamicallyDefinedDataIdentifier"
       THEN (IF f.has_id THEN Enc(ReqLayout[k], [f EXCEPT !.has_id = FALSE, !.sup = FALSE]) ELSE <<>>)
  ELSE IF Dev_S3_Type6Pack /\ k \in Type6 THEN <<>>
  ELSE ReEnc(ReqLayout[k], f)
Decode ==
  /\ pc = "Dispatched"
  /\ LET d == Dec(ReqLayout[dk], pdu) IN
     IF d.ok /\ DesignReEncReq(dk, d.f) = pdu
     THEN pc' = "Typed" /\ out' = [typed |-> TRUE, kind |-> dk, f |-> d.f, re |-> [ok |-> TRUE, b |-> pdu]]
     ELSE pc' = "Raw" /\ out' = out
  /\ UNCHANGED <<c, pdu, dk, rng>>

\* -- response side
DispatchResp ==
  /\ pc = "Recv"
  /\ dk' = RespKindOf(c.b)
  /\ pc' = IF dk' = "none" THEN "RawResp" ELSE "Gate"
  /\ UNCHANGED <<c, pdu, out, rng>>

RECURSIVE Dedup(_, _, _)
\* dict keyed by DTC: first position wins, last status wins
Dedup(ds, ss, i) ==
  IF i > Len(ds) THEN [d |-> <<>>, s |-> <<>>]
  ELSE LET r == Dedup(ds, ss, i + 1)
           later == {j \in (i + 1)..Len(ds) : ds[j] = ds[i]}
           firstp == \A j \in 1..(i - 1) : ds[j] # ds[i]
           lastS == IF later = {} THEN ss[i] ELSE ss[CHOOSE j \in later : \A j2 \in later : j2 <= j]
       IN IF firstp THEN [d |-> <<ds[i]>> \o r.d, s |-> <<lastS>> \o r.s] ELSE r

GateDecode ==
  /\ pc = "Gate"
  /\ LET L == RespLayout[dk]
         b == c.b
         d == Dec(L, b)
         wmbaLen == IF Len(b) >= 2 THEN 2 + (b[2] % 16) + (b[2] \div 16) ELSE 0
     IN
     IF Dev_S5_WmbaTrailing /\ dk = "WriteMemoryByAddress" /\ Len(b) >= 4 /\ Len(b) > wmbaLen /\ Len(b) <= 32
        /\ Dec(L, SubSeq(b, 1, wmbaLen)).ok
     THEN \* trailing bytes accepted and dropped
          LET p == SubSeq(b, 1, wmbaLen) IN
          pc' = "TypedResp" /\ out' = [typed |-> TRUE, kind |-> dk, f |-> Dec(L, p).f, re |-> [ok |-> TRUE, b |-> p]]
     ELSE IF Dev_S7_ClearDddiLen3 /\ dk = "ClearDynamicallyDefinedDataIdentifier" /\ Len(b) = 3
     THEN pc' = "TypedResp"
          /\ out' = [typed |-> TRUE, kind |-> dk, f |-> [has_id |-> TRUE, dddid |-> b[3]],
                     re |-> [ok |-> TRUE, b |-> <<b[1], b[2], 0, b[3]>>]]
     ELSE IF ~d.ok THEN pc' = "Rejected" /\ out' = out
     ELSE IF Dev_S6_DtcDictCollapse /\ "dtcs" \in DOMAIN d.f
     THEN LET dd == Dedup(d.f.dtcs, d.f.statuses, 1)
              f2 == [d.f EXCEPT !.dtcs = dd.d, !.statuses = dd.s] IN
          pc' = "TypedResp" /\ out' = [typed |-> TRUE, kind |-> dk, f |-> f2, re |-> [ok |-> TRUE, b |-> ReEnc(L, f2)]]
     ELSE IF Dev_S4_ExtDataWidths /\ dk = "ReportDTCExtDataRecordByDTCNumber"
     THEN pc' = "TypedResp"
          /\ out' = [typed |-> TRUE, kind |-> dk, f |-> d.f,
                     re |-> IF d.f.dtc > 255 THEN [ok |-> FALSE, b |-> <<>>]
                            ELSE [ok |-> TRUE, b |-> <<b[1], b[2], d.f.dtc, 0, 0, d.f.status>> \o SubSeq(b, 7, Len(b))]]
     ELSE pc' = "TypedResp" /\ out' = [typed |-> TRUE, kind |-> dk, f |-> d.f, re |-> [ok |-> TRUE, b |-> ReEnc(L, d.f)]]
  /\ UNCHANGED <<c, pdu, dk, rng>>

Next == Construct \/ Serialise \/ Dispatch \/ Decode \/ DispatchResp \/ GateDecode
Spec == Init /\ [][Next]_vars

-----------------------------------------------------------------------------
(* the contract, as invariants over terminal states (one per clause) *)
ReqTerminal == pc \in {"Refused", "Typed", "Raw"}
InR == Side = "req" /\ rng = "in"
E == Enc(ReqLayout[c.kind], c.f)

TypeOK == rng \in {"?", "in", "out", "unspec"} /\ pc \in {"New", "Built", "Refused", "Encoded", "Dispatched", "Typed", "Raw",
                  "Recv", "Gate", "TypedResp", "RawResp", "Rejected"}
\* the tables themselves: decoding an encoded in-range request gives the kind back
L0_TablesRoundTrip ==
  (pc = "Built" /\ InR) => /\ Dec(ReqLayout[c.kind], E).ok
         /\ ReEnc(ReqLayout[c.kind], Dec(ReqLayout[c.kind], E).f) = E
         /\ ReqKindOf(E) = (IF c.kind \in VariantKinds THEN "InputOutputControlByIdentifier" ELSE c.kind)
Q1_Constructible == (InR /\ ReqTerminal) => pc # "Refused"
Q1_Layout == (InR /\ pc \in {"Encoded", "Dispatched", "Typed", "Raw"}) => pdu = E
Q3_NeverRaw == InR => pc # "Raw"
Q3_SameFields == (InR /\ pc = "Typed") =>
                   /\ out.kind = ReqKindOf(E)
                   /\ Agree(ReqLayout[out.kind], out.f, Dec(ReqLayout[out.kind], E).f)
                   /\ out.re.b = E
Q4_Refused == (Side = "req" /\ rng = "out") => pc = "Refused"

RespDecoded == Dec(RespLayout[out.kind], c.b)
R1_Fields == (pc = "TypedResp" /\ RespDecoded.ok) => Agree(RespLayout[out.kind], out.f, RespDecoded.f)
R2_Reencode == pc = "TypedResp" => (out.re.ok /\ out.re.b = c.b)
R3_LengthRule == pc = "TypedResp" => RespDecoded.ok
\* a valid (unmutated) response is accepted as typed with its own fields (design, not contract)
D_ValidAccepted == (Side = "resp" /\ c.mut = "none" /\ pc \in {"TypedResp", "RawResp", "Rejected"})
                     => (pc = "TypedResp" /\ out.kind = (IF c.kind \in VariantKinds
                                                        THEN "InputOutputControlByIdentifier" ELSE c.kind))

-----------------------------------------------------------------------------
(* what the design predicts for a case -- exported with the case, used for DRIFT only *)
ExpectReq(k, f) == LET r == ReqRange(k, f) IN
                   IF r = "in" THEN "typed" ELSE IF r = "out" THEN "refused" ELSE "any"
=============================================================================
