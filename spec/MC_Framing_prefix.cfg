SPECIFICATION Spec
CONSTANTS
  Alphabet = {0, 1, 2}
  MaxLen = 6
  FrameLen <- MCPrefixRule
INVARIANT Independent
INVARIANT Stable
PROPERTY Complete
CHECK_DEADLOCK FALSE
