---------------------------- MODULE MC_ArgFields ----------------------------
(* Model-checking wrapper of X20: the kind x argument-vector universe.

   The field declarations and the token tables are the harness's own (harness/
   x20_models.py: the synthetic config models the REAL parser is driven with);
   they are handed over as JSON:  X20_UNIVERSE=<file>  (python -m harness.x20_models).
   For every field of every model this module enumerates

     * no occurrence at all (defaults / missing required argument),
     * ONE occurrence in every applicable form (long, `=`, short, joined short,
       abbreviation, --no-, positional) with no value, every single token of the
       field's token table, every ordered pair of tokens (containers; one pair for
       scalars) and one triple (containers),
     * TWO occurrences (repeated option: value/value, flag/negated flag),
     * an unknown option (with and without value) and a stray value,

   always together with the base occurrences of the model's required fields, plus one
   `--help` job (two for the model with an external default) and one config-section
   job per model.                                                                  *)
EXTENDS ArgFields, Json, IOUtils

U == JsonDeserialize(IOEnv.X20_UNIVERSE)
Models == ToSet(U.models)
MCModelFields(m) == (CHOOSE M \in Models : M.m = m).fields

It(f, form, toks) == [f |-> f, form |-> form, toks |-> toks]
Seqs1(T) == {<<t>> : t \in ToSet(T)}
Seqs2(T) == {<<t1, t2>> : t1 \in ToSet(T), t2 \in ToSet(T)}
First2(T) == IF Len(T) >= 2 THEN {<<T[1]>>, <<T[2]>>} ELSE Seqs1(T)

OptForms(fd) == {"long"} \cup (IF fd.short THEN {"short"} ELSE {}) \cup (IF fd.abbr THEN {"abbr"} ELSE {})

ItemsFor(fd, T) ==
  IF fd.pos THEN
       IF IsContainer(fd)
       THEN {It(fd.name, "pos", q) : q \in Seqs1(T) \cup Seqs2(T)}
       ELSE {It(fd.name, "pos", q) : q \in Seqs1(T)}
  ELSE IF fd.kind = "bool" THEN
       {It(fd.name, form, <<>>) : form \in OptForms(fd) \cup {"neg"}}
       \cup {It(fd.name, "eq", <<T[1]>>)}
  ELSE IF IsContainer(fd) THEN
       {It(fd.name, "long", q) : q \in {<<>>} \cup Seqs1(T) \cup Seqs2(T) \cup {<<T[1], T[2], T[1]>>}}
       \cup {It(fd.name, "eq", q) : q \in Seqs1(T)}
       \cup {It(fd.name, form, q) : form \in OptForms(fd) \ {"long"}, q \in First2(T)}
       \cup {It(fd.name, "neg", <<>>)}
  ELSE {It(fd.name, form, q) : form \in {"long", "eq"}, q \in Seqs1(T)}
       \cup {It(fd.name, form, q) : form \in (OptForms(fd) \ {"long"}) \cup (IF fd.short THEN {"shortj"} ELSE {}), q \in First2(T)}
       \cup {It(fd.name, form, <<>>) : form \in OptForms(fd)}
       \cup {It(fd.name, "long", <<T[1], T[2]>>), It(fd.name, "neg", <<>>)}

RepeatsFor(fd, T) ==
  IF fd.pos THEN {}
  ELSE IF fd.kind = "bool" THEN {<<It(fd.name, "long", <<>>), It(fd.name, "neg", <<>>)>>,
                                 <<It(fd.name, "neg", <<>>), It(fd.name, "long", <<>>)>>}
  ELSE {<<It(fd.name, "long", <<T[1]>>), It(fd.name, "long", <<T[2]>>)>>,
        <<It(fd.name, "long", <<T[2]>>), It(fd.name, "eq", <<T[1]>>)>>}

\* the occurrences of field k are `its`; every other required field gets its base occurrence (declaration order:
\* positional fields are declared first)
RECURSIVE Cat(_, _, _, _)
Cat(M, k, its, j) ==
  IF j > Len(M.fields) THEN <<>>
  ELSE (IF j = k THEN its ELSE IF M.fields[j].req THEN <<M.fields[j].base>> ELSE <<>>) \o Cat(M, k, its, j + 1)

ParseJob(M, items) == [job |-> "parse", m |-> M.m, items |-> items, sep |-> FALSE, inter |-> FALSE]

Word == [c |-> "word", x |-> "stray", v |-> NoVal, a |-> NoVal, h |-> NoVal]
ParseCases(M) ==
  LET n == Len(M.fields) IN
  IF ~M.parse THEN {} ELSE
  {ParseJob(M, Cat(M, 0, <<>>, 1))}
  \cup {ParseJob(M, Cat(M, k, <<>>, 1)) : k \in {j \in 1..n : M.fields[j].req}}
  \cup UNION {{ParseJob(M, Cat(M, k, <<it>>, 1)) : it \in ItemsFor(M.fields[k], M.toks[k])} : k \in 1..n}
  \cup UNION {{ParseJob(M, Cat(M, k, its, 1)) : its \in RepeatsFor(M.fields[k], M.toks[k])} : k \in 1..n}
  \cup {ParseJob(M, Cat(M, 0, <<>>, 1) \o <<It("", form, q)>>) :
          form \in {"unknown"}, q \in {<<>>, <<Word>>}}
  \cup {ParseJob(M, Cat(M, 0, <<>>, 1) \o <<It("", "stray", <<Word>>)>>)}

HelpCases(M) ==
  {[job |-> "help", m |-> M.m, pct |-> M.pct, ext |-> FALSE]}
  \cup (IF M.ext THEN {[job |-> "help", m |-> M.m, pct |-> TRUE, ext |-> TRUE]} ELSE {})
ConfigCases(M) == IF M.config THEN {[job |-> "config", m |-> M.m]} ELSE {}

AllCases == UNION {ParseCases(M) \cup HelpCases(M) \cup ConfigCases(M) : M \in Models}
\* the negative controls do not need the pairs
SmallItems(fd, T) == {it \in ItemsFor(fd, T) : Len(it.toks) <= 1 \/ fd.kind = "tuple2" \/ it.toks[1] # it.toks[2]}
SmallCases ==
  UNION {(IF ~M.parse THEN {} ELSE
         {ParseJob(M, Cat(M, 0, <<>>, 1))}
         \cup {ParseJob(M, Cat(M, k, <<>>, 1)) : k \in {j \in 1..Len(M.fields) : M.fields[j].req}}
         \cup UNION {{ParseJob(M, Cat(M, k, <<it>>, 1)) : it \in SmallItems(M.fields[k], M.toks[k])} : k \in 1..Len(M.fields)}
         \cup {ParseJob(M, Cat(M, 0, <<>>, 1) \o <<It("", "unknown", <<>>)>>)})
         \cup HelpCases(M) \cup ConfigCases(M) : M \in Models}
=============================================================================
