---------------------------- MODULE SystemContract ----------------------------
(* Growth beyond the listed properties (DESIGN section 5: composition).  End-to-end contract of the stack
   real ECU client -> real DoIP transport -> gateway -> real virtual ECU, under gateway disturbances
   (alive checks, foreign frames, unknown payload types, late acknowledgements):

     [e |-> "Call", i, req]            the scanner-side caller issues request i (bytes)
     [e |-> "Srv",  i, req, ans, has]  the virtual ECU received bytes `req` and produced `ans` (has = FALSE: suppressed)
     [e |-> "Ret",  i, kind, pdu]      the caller got kind \in {"Reply","Missing","Other"} (pdu = reply bytes)
     [e |-> "Drop", i]                 the gateway deliberately withheld the answer of request i
     [e |-> "Late", i]                 the gateway delivers the answer of request i only after the client's timeout:
                                       it will hit a LATER request (see spec/System.tla: refused as mismatch when
                                       the identifiers differ, indistinguishable when they are equal); from then on
                                       only Y1 and Y4 are judged and "Mismatch" becomes an admissible outcome

   Clauses
     Y1  what reaches the virtual ECU is byte-identical to what the caller asked for
     Y2  a reply returned to the caller is byte-identical to the virtual ECU's answer to THAT request
     Y3  every request whose answer the gateway delivered in time is answered at the caller (no Missing
         without a Drop, a suppressed answer or a disturbance that the contract leaves open)
     Y4  the virtual ECU sees each request once per transmission (no duplicates without a retry)
*)
EXTENDS Naturals, Sequences, FiniteSets, TLC

M0 == [req |-> <<>>, ans |-> <<>>, has |-> FALSE, seen |-> 0, dropped |-> FALSE, i |-> 0, stale |-> FALSE, fail |-> "ok"]
Fail(m, l) == [m EXCEPT !.fail = l]

Step(c, m, e) ==
  CASE e.e = "Call" -> [m EXCEPT !.req = e.req, !.i = e.i, !.seen = 0, !.dropped = FALSE, !.has = FALSE, !.ans = <<>>]
    [] e.e = "Srv" ->
         IF e.req # m.req THEN Fail(m, "Y1/bytes-at-the-ecu-differ-from-the-request")
         ELSE IF m.seen >= c.retries + 1 THEN Fail(m, "Y4/request-reached-the-ecu-more-often-than-transmissions-allowed")
         ELSE [m EXCEPT !.seen = @ + 1, !.ans = e.ans, !.has = e.has]
    [] e.e = "Drop" -> [m EXCEPT !.dropped = TRUE]
    [] e.e = "Late" -> [m EXCEPT !.dropped = TRUE, !.stale = TRUE]
    [] e.e = "Ret" ->
         IF m.stale THEN (IF e.kind \in {"Reply", "Missing", "Mismatch"} THEN m ELSE Fail(m, "Y3/unexpected-exception"))
         ELSE IF e.kind = "Reply" THEN
            (IF m.seen >= 1 /\ m.has /\ e.pdu = m.ans THEN m ELSE Fail(m, "Y2/reply-is-not-the-ecus-answer-to-this-request"))
         ELSE IF e.kind = "Missing" THEN
            (IF m.dropped \/ ~m.has \/ m.seen = 0 THEN m ELSE Fail(m, "Y3/answer-delivered-in-time-but-reported-missing"))
         ELSE Fail(m, "Y3/unexpected-exception")
    [] OTHER -> Fail(m, "trace/unknown-event")
=============================================================================
