----------------------- MODULE Trace_PowerSupply -----------------------
(* Code -> spec for X15: every recorded execution of the real power-supply code (harness/x15_run.py) is stepped
   through PowerSupplyContract!Step; one verdict line per execution: <<"V", id, clause, why, events consumed>>,
   plus <<"U", id, n>> = number of calls whose outcome the sources leave open (environment fault). *)
EXTENDS PowerSupplyContract, Json, IOUtils

Batch == JsonDeserialize(IOEnv.TRACE_FILE)
T == Batch.traces

VARIABLES tid, l, m
tvars == <<tid, l, m>>

TInit == tid \in 1..Len(T) /\ l = 1 /\ m = M0(T[tid])
TStep == /\ l >= 1 /\ l <= Len(T[tid].ev) /\ ~Failed(m)
         /\ m' = Step(m, T[tid].ev[l])
         /\ l' = l + 1 /\ tid' = tid
TDone == /\ l >= 1 /\ (l > Len(T[tid].ev) \/ Failed(m))
         /\ PrintT(<<"V", T[tid].id, m.fail.c, m.fail.why, l - 1>>)
         /\ PrintT(<<"U", T[tid].id, Unspecified(m)>>)
         /\ l' = 0 /\ UNCHANGED <<tid, m>>
TSpec == TInit /\ [][TStep \/ TDone]_tvars
=============================================================================
