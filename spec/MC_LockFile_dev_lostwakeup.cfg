SPECIFICATION Spec
CONSTANTS
  N = 2
  Group <- G_11
  KeepHist = TRUE
  MaxInt = 1
  MaxKill = 0
  MaxProbe = 1
  Dev_ReleaseBeforePostHook = FALSE
  Dev_LockAfterPreHook = FALSE
  Dev_NoUnlockOnError = FALSE
  Dev_ThreadWait = FALSE
  Dev_SilentWait = FALSE
  Dev_LostWakeup = TRUE
CHECK_DEADLOCK FALSE
INVARIANT Inv_Recording
INVARIANT Inv_L1
INVARIANT Inv_L2
INVARIANT Inv_L3
INVARIANT Inv_L4
INVARIANT Inv_L5
INVARIANT Inv_L6
INVARIANT Inv_L7
INVARIANT Inv_Final
PROPERTY NoLostWakeup
PROPERTY Termination
