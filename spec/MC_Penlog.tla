------------------------------ MODULE MC_Penlog ------------------------------
(* Model-checking wrapper of Penlog: small constants, exhaustive.
   Three priority classes (critical 2, notice 5, trace 8) and the four
   thresholds that separate them (1: nothing passes ... 8: everything). *)
EXTENDS Penlog
MCPrios == {2, 5, 8}
MCThresholds == {1, 2, 5, 8}
MCThresholds2 == {5, 8}
=============================================================================
