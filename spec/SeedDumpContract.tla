------------------------ MODULE SeedDumpContract ------------------------
(* Growth item X07, contract layer (operators only): the security access seed dumper
   `gallia scan uds dump-seeds` (src/gallia/commands/scan/uds/sa_dump_seeds.py).

   Statement (growth/X07.json): the seeds file holds exactly the seed bytes of the positive answers to the
   seed requests, in the order received; every seed request carries the configured level and data record
   and is sent only in the configured (and, if asked, re-checked) session; the documented counter-measures
   (--send-zero-key, --reset, --sleep) and --duration act exactly as their help texts say, also when the
   ECU answers negatively or not at all.

   SOURCE of every clause (help text = `description` of the field in SASeedsDumperConfig):
   D1  SHORT_HELP "dump security access seeds"; code comments "saving seeds to ..." / `open("wb", buffering=0)`
       (unbuffered: what was received is in the file whenever the run ends); seeds received while the key
       length is still being detected are not saved: comment "During detection of key length the same seed
       might be returned multiple times ... should not affect statistical evaluations of the seeds" and the
       log message "Still trying to find key size, not evaluating/saving seed responses".
       ISO 14229-1 10.4: the positive response to requestSeed is 67 <securityAccessType echo> <seed>; a
       response with another echo / another service is not an answer to the request.
   D2  help --level "Set security access level to request seed from", help --data-record "Append an
       optional data record to each seed request"; ISO 14229-1 10.4 request layout 27 <type> <record>.
   S1  help --session "Set diagnostic session to perform test in"; log "could not change to session".
   S2  help --check-session "Check current session with read DID"; docstring of ECU.check_and_set_session
       ("reads the current session and (re)tries to set the session ... Returns True if the current session
       matches ... or if read_session is not supported", log "Reading current session timed out, skipping
       check_session"); log "ECU persistently lost session".
   K0-K2 help --send-zero-key "sending an all-zero key after each seed request. The length of the key can be
       specified or will otherwise be automatically determined"; ISO: sendKey type = requestSeed type + 1.
   K3  help --determine-key-size-max-length "test key lengths from 1 up to N bytes"; ISO NRC 0x13
       incorrectMessageLengthOrInvalidFormat = wrong length, NRC 0x35 invalidKey = length accepted.
   K4  help --send-zero-key "after each seed request" (demanded only after a seed request that was answered
       positively; after a failed seed request the statement is silent).
   K5  docstring of send_key "Returns True when main loop should exit, e.g. on successful unlock or
       exhaustion of key length search space", log "That's unexpected: Unlocked SA level".
   K6  same docstring, log "Unable to identify valid key length ... between 1 and N bytes".
   R0-R1 help --reset "resetting the ECU when needed or after every N-th requested seed".
   R2  "when needed": log "ECU replied with an error" sets `attempt_reset`; log "Resetting the ECU after".
   R3  comment "Re-enter session. Checking/logging will be done a few lines later if required".
   R4  docstring of ECU.wait_for_ecu "Wait for ecu to be alive again (e.g. after reset)", log "ECU did not
       respond after reset; exiting".
   P1  help --sleep "sleeping for N seconds between seed requests".
   D5  help --duration "Run script for N minutes; zero or negative for infinite runtime (default)".
       A run that ends with an error although the ECU gave no reason for it did not run for N minutes; the
       reasons the code names: "could not change to session", "ECU did not respond after reset", "ECU persistently
       lost session", "Error while requesting seed" / "Error while sending key" (anything but a timeout); a
       negative or missing answer to a seed request / key is NOT a reason ("ECU replied with an error",
       "Timeout while requesting seed", "Timeout while sending key": the loop continues).
   L0  the run ends after an interrupt (entry_point: "asyncio.run() delivers Ctrl-C as a cancellation of the
       main task").

   Where these sources are silent every outcome is accepted (counted in `unspec`): what happens after an
   unanswered or refused ECUReset, after a failed seed request with --send-zero-key, how the run ends after
   errors (exit code / exception), retries of the UDS client (a PDU following an unanswered PDU may be a
   retry), NRCs other than 0x13 / 0x35 during the key length detection.

   Events are what the ECU saw, in order: [t, ta : virtual ms of arrival / answer, s : ground-truth session,
   q : request bytes, a : answer bytes, has : answered].
   Configuration C: session, level, data (bytes), check, zk (-1 off, 0 automatic, n), zkmax, reset (-1 off,
   0 when needed, n), dur (ms, 0 = infinite), sleep (ms, -1 off), retries (of the UDS client), int (ms of
   the interrupt, -1 none).                                                                              *)
EXTENDS Naturals, Integers, Sequences, FiniteSets, SequencesExt, TLC

SlackMs == 60000        \* tolerance of the duration bound: one unit of the option (minutes)
NrcBadLength == 19      \* 0x13 incorrectMessageLengthOrInvalidFormat
NrcInvalidKey == 53     \* 0x35
NrcBusy == 33           \* 0x21 busyRepeatRequest      (not a final answer)
NrcPending == 120       \* 0x78 responsePending        (not a final answer)

Sub(e)        == e.q[2] % 128
IsSA(e)       == Len(e.q) >= 2 /\ e.q[1] = 39
IsSeedReq(e)  == IsSA(e) /\ Sub(e) % 2 = 1
IsKeyReq(e)   == IsSA(e) /\ Sub(e) % 2 = 0
IsReset(e)    == Len(e.q) >= 1 /\ e.q[1] = 17
IsDscTo(e, s) == Len(e.q) = 2 /\ e.q[1] = 16 /\ e.q[2] % 128 = s
IsSessRead(e) == e.q = <<34, 241, 134>>
PosAns(e)     == e.has /\ Len(e.a) >= 1 /\ e.a[1] = e.q[1] + 64
NegAns(e)     == e.has /\ Len(e.a) = 3 /\ e.a[1] = 127 /\ e.a[2] = e.q[1]
FinalNeg(e)   == NegAns(e) /\ e.a[3] \notin {NrcBusy, NrcPending}
SeedPos(e)    == IsSeedReq(e) /\ e.has /\ Len(e.a) >= 2 /\ e.a[1] = 103 /\ e.a[2] = Sub(e)
SeedOf(e)     == SubSeq(e.a, 3, Len(e.a))
KeyBytes(e)   == SubSeq(e.q, 3, Len(e.q))
AllZero(s)    == \A i \in 1..Len(s) : s[i] = 0
Max2(x, y)    == IF x > y THEN x ELSE y

\* number of seed requests of the command that c PDUs (u of them unanswered) can stand for, r client retries
Lower(c, u, r) == Max2(c - u, (c + r) \div (1 + r))
WindowOk(C, w) == Lower(w.c, w.u, C.retries) <= C.reset /\ C.reset <= w.c

A0(C) ==
  [bad |-> "", exp |-> <<>>, prev |-> <<>>, all |-> <<>>, lastPosTa |-> -1,
   det |-> (C.zk # 0), amb |-> FALSE, kl |-> 0, klAns |-> "none",
   afterPos |-> FALSE, unlocked |-> FALSE, exhausted |-> FALSE, afterExh |-> 0,
   entered |-> FALSE, readSince |-> FALSE, lastRead |-> -1, exempt |-> FALSE,
   cnt |-> 0, unans |-> 0, fail |-> FALSE, negSince |-> FALSE, pend |-> <<>>,
   sawReset |-> FALSE, needDsc |-> FALSE, alive |-> TRUE,
   lastAnsT |-> -1, afterSeedPos |-> FALSE, trouble |-> FALSE, firstSeedT |-> -1, nseed |-> 0, npos |-> 0, unspec |-> 0]

\* ---------------------------------------------------------------- clauses, per event
KeyLenAllowed(C, a, n) ==
  /\ n <= C.zkmax
  /\ IF a.kl = 0 THEN n = 1
     ELSE IF a.det /\ ~a.amb THEN n = a.kl
     ELSE IF a.amb THEN n \in {a.kl, a.kl + 1}
     ELSE IF a.klAns = "badlen" THEN n = a.kl + 1
     ELSE n = a.kl

SeedClause(C, a, e) ==
  LET c == a.cnt + 1
      u == a.unans + (IF e.has THEN 0 ELSE 1) IN
  IF a.unlocked THEN "K5/security-access-request-after-unlock"
  ELSE IF e.q # (<<39, C.level>> \o C.data) THEN "D2/seed-request-does-not-carry-configured-level-and-data-record"
  ELSE IF ~a.entered THEN "S1/seed-requested-before-configured-session-was-entered"
  ELSE IF C.check /\ ~a.readSince /\ ~a.exempt THEN "S2/session-not-checked-before-seed-request"
  ELSE IF C.check /\ a.lastRead \notin {-1, C.session} THEN "S2/seed-requested-although-session-read-reported-another-session"
  ELSE IF C.reset = -1 /\ a.sawReset THEN "R0/ecu-reset-without-reset-option"
  ELSE IF C.reset >= 0 /\ a.needDsc THEN "R3/session-not-re-entered-after-reset"
  ELSE IF ~a.alive THEN "R4/seed-requested-although-ecu-did-not-come-back-after-reset"
  ELSE IF C.reset > 0 /\ a.pend # <<>> /\ ~WindowOk(C, a.pend[1]) THEN "R1/reset-not-after-every-nth-seed-request"
  ELSE IF C.reset > 0 /\ Lower(c, u, C.retries) > C.reset THEN "R1/more-than-n-seed-requests-without-reset"
  ELSE IF C.reset = 0 /\ a.negSince THEN "R2/no-reset-after-negative-seed-response"
  ELSE IF C.reset = 0 /\ a.pend # <<>> /\ ~a.pend[1].fail THEN "R2/reset-although-every-seed-request-succeeded"
  ELSE IF C.zk # -1 /\ a.afterPos THEN "K4/no-zero-key-after-seed"
  ELSE IF a.exhausted /\ a.afterExh >= 1 THEN "K6/seed-requests-continue-after-key-length-search-exhausted"
  ELSE IF C.sleep >= 0 /\ a.lastAnsT >= 0 /\ e.t - a.lastAnsT < C.sleep THEN
         (IF a.afterSeedPos THEN "P1/no-sleep-between-seed-requests-after-received-seed"
                            ELSE "P1/no-sleep-between-seed-requests-after-failed-request")
  ELSE IF C.dur > 0 /\ a.firstSeedT >= 0 /\ e.t > a.firstSeedT + C.dur + SlackMs THEN "D5/seed-requested-after-duration"
  ELSE ""

KeyClause(C, a, e) ==
  LET k == KeyBytes(e) IN
  IF a.unlocked THEN "K5/security-access-request-after-unlock"
  ELSE IF C.zk = -1 THEN "K0/key-sent-without-send-zero-key"
  ELSE IF Sub(e) # C.level + 1 \/ Len(k) = 0 \/ ~AllZero(k) THEN "K1/key-is-not-an-all-zero-key-for-the-configured-level"
  ELSE IF C.zk > 0 /\ Len(k) # C.zk THEN "K2/key-length-differs-from-configured-length"
  ELSE IF C.zk = 0 /\ ~KeyLenAllowed(C, a, Len(k)) THEN "K3/key-length-search-not-1-up-to-n"
  ELSE ""

Clause(C, a, e) ==
  IF IsSeedReq(e) THEN SeedClause(C, a, e) ELSE IF IsKeyReq(e) THEN KeyClause(C, a, e) ELSE ""

\* ---------------------------------------------------------------- bookkeeping, per event
UpdSeed(C, a, e) ==
  LET save == SeedPos(e) /\ a.det IN
  [a EXCEPT
     !.exp = IF save THEN @ \o SeedOf(e) ELSE @,
     !.prev = IF save THEN a.exp ELSE @,
     !.lastPosTa = IF save THEN e.ta ELSE @,
     !.all = IF SeedPos(e) THEN @ \o SeedOf(e) ELSE @,
     !.npos = IF SeedPos(e) THEN @ + 1 ELSE @,
     !.nseed = @ + 1,
     !.firstSeedT = IF @ = -1 THEN e.t ELSE @,
     !.cnt = @ + 1,
     !.unans = IF e.has THEN @ ELSE @ + 1,
     !.fail = @ \/ ~SeedPos(e),
     !.negSince = @ \/ FinalNeg(e),
     !.pend = <<>>,
     !.readSince = FALSE,
     !.lastRead = -1,
     !.exempt = ~e.has,
     !.lastAnsT = IF e.has THEN e.ta ELSE -1,
     !.afterPos = SeedPos(e),
     !.afterSeedPos = SeedPos(e),
     !.afterExh = IF a.exhausted /\ SeedPos(e) THEN @ + 1 ELSE @]

UpdKey(C, a, e) ==
  LET n == Len(KeyBytes(e))
      und == ~a.det /\ ~a.amb
      badlen == NegAns(e) /\ e.a[3] = NrcBadLength
      invalid == NegAns(e) /\ e.a[3] = NrcInvalidKey
      other == e.has /\ ~badlen /\ ~invalid /\ ~PosAns(e) IN
  [a EXCEPT
     !.kl = n,
     !.klAns = IF badlen THEN "badlen" ELSE IF e.has THEN "other" ELSE "none",
     !.det = @ \/ (und /\ invalid),
     !.amb = @ \/ (und /\ other),
     !.unspec = IF und /\ other THEN @ + 1 ELSE @,
     !.exhausted = @ \/ (und /\ badlen /\ n >= C.zkmax),
     !.unlocked = @ \/ PosAns(e),
     !.afterSeedPos = @ /\ e.has,
     !.afterPos = FALSE]

UpdOther(C, a, e) ==
  IF IsReset(e) THEN
    [a EXCEPT !.sawReset = TRUE, !.needDsc = TRUE,
              !.pend = IF @ = <<>> THEN <<[c |-> a.cnt, u |-> a.unans, fail |-> a.fail]>> ELSE @,
              !.cnt = 0, !.unans = 0, !.fail = FALSE, !.negSince = FALSE,
              !.unspec = IF PosAns(e) THEN @ ELSE @ + 1]
  ELSE IF IsDscTo(e, C.session) THEN
    [a EXCEPT !.needDsc = FALSE, !.entered = @ \/ PosAns(e),
              !.lastRead = IF PosAns(e) THEN C.session ELSE @]
  ELSE IF IsSessRead(e) THEN
    [a EXCEPT !.readSince = TRUE,
              !.lastRead = IF PosAns(e) /\ Len(e.a) = 4 THEN e.a[4] ELSE -1,
              !.unspec = IF PosAns(e) THEN @ ELSE @ + 1]
  ELSE a

\* something a run may end with an error for: a request other than a seed request / key that was refused or not
\* answered, an answer that is no answer to the request, a session read reporting another session
Trouble(C, e) ==
  IF IsSA(e) THEN e.has /\ ~NegAns(e) /\ ~(PosAns(e) /\ Len(e.a) >= 2 /\ e.a[2] = Sub(e))
  ELSE IF e.q[1] = 62 /\ Len(e.q) >= 2 /\ e.q[2] >= 128 THEN FALSE
  ELSE \/ ~e.has \/ NegAns(e) \/ ~PosAns(e)
       \/ (IsSessRead(e) /\ Len(e.a) = 4 /\ e.a[4] # C.session)

Step(C, a, e) ==
  IF a.bad # "" THEN a
  ELSE LET lab == Clause(C, a, e)
           b == IF IsSeedReq(e) THEN UpdSeed(C, a, e) ELSE IF IsKeyReq(e) THEN UpdKey(C, a, e) ELSE UpdOther(C, a, e)
       IN [b EXCEPT !.bad = lab, !.alive = IF IsReset(e) THEN FALSE ELSE (a.alive \/ e.has),
                    !.trouble = @ \/ Trouble(C, e)]

Acc(C, ev) == FoldLeft(LAMBDA a, e : Step(C, a, e), A0(C), ev)

\* ---------------------------------------------------------------- verdict of a finished run
\* an answer the ECU sent at or after the instant of the interrupt need not have been received
CutTolerated(C, a, file, end) ==
  end = "cancel" /\ C.int >= 0 /\ a.lastPosTa >= C.int /\ file = a.prev

EndedForAReason(a) == a.unlocked \/ a.exhausted \/ ~a.entered

Final(C, a, file, end, tend) ==
  IF a.bad # "" THEN a.bad
  ELSE IF end = "hang" THEN "L0/run-does-not-end"
  ELSE IF ~a.amb /\ file # a.exp /\ ~CutTolerated(C, a, file, end) THEN
         (IF file = a.all THEN "D1/seed-saved-during-key-length-detection"
          ELSE IF IsPrefix(file, a.exp) THEN "D1/received-seed-missing-from-file"
          ELSE IF IsPrefix(a.exp, file) THEN "D1/file-holds-bytes-that-are-no-received-seed"
          ELSE "D1/file-differs-from-received-seeds")
  ELSE IF C.dur = 0 /\ end = "done" /\ ~EndedForAReason(a) THEN "D5/infinite-run-ended-by-itself"
  ELSE IF C.dur > 0 /\ end = "done" /\ ~EndedForAReason(a) /\ tend < C.dur THEN "D5/run-ended-before-duration"
  ELSE IF end \in {"exit", "exc"} /\ ~a.trouble THEN "D5/run-aborted-although-ecu-gave-no-reason"
  ELSE "ok"

Verdict(C, ev, file, end, tend) == Final(C, Acc(C, ev), file, end, tend)

Unspecified(C, ev, file, end) ==
  LET a == Acc(C, ev) IN
  a.unspec + (IF a.amb THEN 1 ELSE 0) + (IF file # a.exp /\ CutTolerated(C, a, file, end) THEN 1 ELSE 0)
=============================================================================
