---------------------------- MODULE MC_DbReplay ----------------------------
(* Model-checking wrapper of DbReplay: tuples / records a .cfg cannot hold. *)
EXTENDS DbReplay

P(k, t, v) == [k |-> k, t |-> t, v |-> v]
MCTargetProps == <<P("variant", "int", "1"), P("sw", "str", "a"), P("hw", "null", "")>>
OtherProps    == <<P("variant", "int", "2"), P("sw", "str", "b"), P("hw", "str", "x")>>

(* rows of other runs: same requests in the same logged states as the recorded
   run can contain, with answers the recorded ECU never gave (variant 9) or
   with no answer; `same` rows belong to a run the selection cannot tell apart *)
FRow(run, ecu, props, st, req, rsp) ==
  [run |-> run, st |-> st, req |-> req, rsp |-> rsp, eff |-> EffAbs(req, rsp), ecu |-> ecu, props |-> props]
S2 == [session |-> 2, level |-> 0]
MCForeign ==
  {FRow("oth", "other", OtherProps, st, req, rsp) :
     st \in {Default, S2}, req \in {<<"Other", 1>>, <<"DSC", 2>>}, rsp \in {Pos(9), NoReply}}
MCForeignSmall ==
  {FRow("oth", "other", OtherProps, Default, req, rsp) :
     req \in {<<"Other", 1>>, <<"DSC", 2>>}, rsp \in {Pos(9), NoReply}}
MCForeignSame ==
  {FRow("oth", "tgt", MCTargetProps, Default, <<"Other", 1>>, Pos(9))}

SelNone    == NoSel
SelName    == [ecu |-> "tgt", props |-> <<>>]
SelPropInt == [ecu |-> "", props |-> <<P("variant", "int", "1")>>]
SelPropStr == [ecu |-> "", props |-> <<P("sw", "str", "a")>>]
SelPropNull == [ecu |-> "", props |-> <<P("hw", "null", "")>>]
SelBoth    == [ecu |-> "tgt", props |-> <<P("variant", "int", "1"), P("sw", "str", "a")>>]
MCSelNone  == {SelNone}
MCSelAll   == {SelNone, SelName, SelPropInt, SelPropStr, SelPropNull, SelBoth}
MCSelStr   == {SelPropStr}
=============================================================================
