---------------------------- MODULE MC_DbReplay ----------------------------
(* Model-checking wrapper of DbReplay: tuples / records a .cfg cannot hold. *)
EXTENDS DbReplay

P(k, t, v) == [k |-> k, t |-> t, v |-> v]
MCTargetProps == <<P("variant", "int", "1"), P("sw", "str", "a"), P("hw", "null", "")>>
OtherProps    == <<P("variant", "int", "2"), P("sw", "str", "b"), P("hw", "str", "x")>>

MCGroups == [g \in {"tgt", "oth", "same"} |->
  CASE g = "tgt"  -> [run |-> "tgt", ecu |-> "tgt",   props |-> MCTargetProps]
    [] g = "oth"  -> [run |-> "oth", ecu |-> "other", props |-> OtherProps]
    [] g = "same" -> [run |-> "oth", ecu |-> "tgt",   props |-> MCTargetProps]]

(* rows of other runs: same requests in the same logged states as the recorded
   run can contain, with answers the recorded ECU never gave (variant 9) or
   with no answer; "same" rows belong to a run the selection cannot tell apart *)
FRow(g, st, req, rsp) == [g |-> g, st |-> st, req |-> req, rsp |-> rsp]
S2 == [session |-> 2, level |-> 0]
MCForeign ==
  {FRow("oth", st, req, rsp) :
     st \in {Default, S2}, req \in {<<"Other", 1>>, <<"DSC", 2>>}, rsp \in {Pos(9), NoReply}}
MCForeignSmall ==
  {FRow("oth", Default, req, rsp) : req \in {<<"Other", 1>>, <<"DSC", 2>>}, rsp \in {Pos(9), NoReply}}
MCForeignSame == {FRow("same", Default, <<"Other", 1>>, Pos(9))}
MCForeignMix  == MCForeignSmall \cup MCForeignSame

SelNone    == NoSel
SelName    == [ecu |-> "tgt", props |-> <<>>]
SelPropInt == [ecu |-> "", props |-> <<P("variant", "int", "1")>>]
SelPropStr == [ecu |-> "", props |-> <<P("sw", "str", "a")>>]
SelPropNull == [ecu |-> "", props |-> <<P("hw", "null", "")>>]
SelBoth    == [ecu |-> "tgt", props |-> <<P("variant", "int", "1"), P("sw", "str", "a")>>]
MCSelNone  == {SelNone}
MCSelAll   == {SelNone, SelName, SelPropInt, SelPropStr, SelPropNull, SelBoth}
MCSelStr   == {SelPropStr}
=============================================================================
