SPECIFICATION Spec
CONSTANTS
  MaxLen = 3
  Prios <- MCPrios
  Thresholds <- MCThresholds
  MaxN = 4
  MaxOps = 1
  Dev_S24_OffsetsFromCurrentPos = FALSE
  Dev_S25_ReverseWraps = FALSE
  Dev_S26_TailBeyondLen = TRUE
  Dev_S26_EmptyLogUnreadable = FALSE
INVARIANT TypeOK
INVARIANT P1_ReadBackEqualsWritten
INVARIANT P2_PriorityFilter
INVARIANT P3_ForwardFromOffset
INVARIANT P3_Reverse
INVARIANT P3_Head
INVARIANT P3_Tail
INVARIANT P3_EachRecordOnce
INVARIANT P4_Len
INVARIANT P5_Opens
INVARIANT VerdictAgrees
CHECK_DEADLOCK FALSE
