----------------------- MODULE CanTransportsContract -----------------------
(* X23 (growth) -- the raw-CAN and ISO-TP transports deliver what the bus carries.
   gallia.transports.can  : CANMessage.pack / unpack, RawCANConfig, RawCANTransport
   gallia.transports.isotp: ISOTPConfig, ISOTPTransport

   CONTRACT LAYER: operators only, written from the statement in growth/X23.json.  Every clause names its source;
   where the sources are silent the verdict is "ok" and the case is counted by Unspecified().

   Sources
     K1 K2 K3  linux/can.h (cited in gallia/transports/_can_constants.py): struct can_frame / canfd_frame = can_id
               (native u32: bit 31 EFF, bit 30 RTR, bit 29 ERR, identifier in bits 0..28 resp. 0..10), len at offset
               4, FD flags at offset 5 (BRS 1, ESI 2; "Flags not valid in non-FD frames": comment in
               _dissect_can_frame), data from offset 8, 16 resp. 72 bytes; the attribute names of CANMessage; the
               comment block quoted in CANMessage.unpack ("EXT, RTR, ERR flags -> boolean attributes").
     N0        docs/transports.md: "The parameters support: string, int (use 0x prefix for hex values) and bool
               (true/false) values", the parameter lists of `isotp` and `can-raw`, BaseTransport.connect docstring.
     F0 F1 F2  RawCANTransport.set_filter(can_ids, inv_filter): parameter names + CAN_INV_FILTER / CAN_RAW_FILTER /
               CAN_RAW_JOIN_FILTERS of linux/can/raw.h (Documentation/networking/can.rst 4.1.1: a filter list passes
               the frames that match one entry, an inverted entry the frames that do not match, joined filters the
               frames all entries pass); docstring of get_idle_traffic "The output of this function can be used as
               input to set_filter"; docs/uds/scan_modes.md (idle ids are "not to be considered", deny filter);
               docs/transports.md can-raw `is_extended` "Use extended CAN identifiers", `is_fd` "Use CAN-FD frames".
     R1 R2 T1  signature recvfrom() -> tuple[int, bytes] (identifier, payload) of ONE frame; BaseTransport: "Reads one
               message and returns its raw byte representation"; SOCK_RAW receive queue is FIFO (can.rst);
               asyncio.wait_for(…, timeout): TimeoutError, nothing else happens.
     S1..S5    sendto(data, dst): CANMessage(arbitration_id=dst, data=data, is_extended_id=config.is_extended,
               is_fd=config.is_fd) (documented by the URI parameters); BaseTransport.write "Writes one message and
               return the number of written bytes"; write(): `raise ValueError("dst_id not set")` (documented intent:
               refuse only when the URI gave no dst_id).
     I0 I1 I2  docstring of get_idle_traffic: "Listen to traffic on the bus and return list of IDs which are seen in
               the specified period of time."
     C0 C1     BaseTransport.close docstring: "Terminates the connection and clean up all allocated resources."
     O1..O6    docs/transports.md `isotp` parameter list (src_addr, dst_addr, is_extended, is_fd, frame_txtime,
               ext_address, rx_ext_address, tx_padding "Use padding in sent frames", rx_padding "Expect padding in
               received frames", tx_dl "CAN-FD max payload size"); linux/can/isotp.h (cited in isotp.py): struct
               can_isotp_options {u32 flags, u32 frame_txtime, u8 ext_address, txpad_content, rxpad_content,
               rx_ext_address}, flags EXTEND_ADDR 0x002, TX_PADDING 0x004, RX_PADDING 0x008, RX_EXT_ADDR 0x200,
               LISTEN_MODE 0x001; struct can_isotp_ll_options {u8 mtu, tx_dl, tx_flags}, mtu 72 = CAN FD; comment in
               connect(): "If CAN-FD is used, jumbo frames are possible. This fails for non-fd configurations.";
               bind((interface, rx id, tx id)); net/can/isotp.c: socket options are refused (EISCONN) once bound.
     P0..P3    BaseTransport.read / write docstrings (one message; number of written bytes); docs/transports.md:
               "ISO-TP (ISO 15765-2) as provided by the Linux socket API" (one datagram = one PDU; the Linux default
               maximum PDU is 8300 bytes, Documentation/networking/iso15765-2.rst `max_pdu_size`).
     E1 E2 E3  ISOTPTransport.read: `errno.ECOMM -> BrokenPipeError("isotp flow control frame missing")`,
               `errno.EILSEQ -> BrokenPipeError("invalid consecutive frame numbers")`, `raise e` for every other
               OSError; Python maps OSError(ETIMEDOUT) to TimeoutError.

   Not demanded (every outcome accepted, counted as unspecified):  frames whose identifier width differs from the
   configured one, RTR frames (payload), error frames, FD frames on a transport without is_fd, set_filter([]) (the
   code returns early on purpose), identifiers beyond the configured width, payload lengths no CAN frame can carry,
   RawCANTransport.read ("special snowflake"), ids that appear after the sniff period, frames queued before the
   sniff period, the order / multiplicity of the idle list, the unit of frame_txtime (docs: milliseconds; isotp.h:
   nanoseconds -- both readings accepted), defaults of frame_txtime / tx_dl, unused option bytes, tx_flags, other
   flag bits, PDUs above 8300 bytes, errors of write(), anything after close(). *)
EXTENDS Naturals, Integers, Sequences, FiniteSets

Range(s) == {s[i] : i \in 1..Len(s)}
B2N(b)   == IF b THEN 1 ELSE 0
Bit(n, k) == (n \div (2 ^ k)) % 2
SffMax == 2047
EffMax == 536870911
FdLens == (0..8) \cup {12, 16, 20, 24, 32, 48, 64}
MaxPdu == 8300
ECOMM == 70
EILSEQ == 84
ETIMEDOUT == 110

\* ---------------------------------------------------------------- K: struct can_frame / canfd_frame
\* 32 bit word in memory order (le: the machine is little endian)
Bytes4(n, le) ==
  LET b0 == n % 256  b1 == (n \div 256) % 256  b2 == (n \div 65536) % 256  b3 == n \div 16777216 IN
  IF le THEN <<b0, b1, b2, b3>> ELSE <<b3, b2, b1, b0>>
WordBytes(id, eff, rtr, err, le) ==
  LET b == Bytes4(id, TRUE) IN        \* b[4] < 32 because id < 2^29
  LET top == b[4] + 128 * B2N(eff) + 64 * B2N(rtr) + 32 * B2N(err) IN
  IF le THEN <<b[1], b[2], b[3], top>> ELSE <<top, b[3], b[2], b[1]>>

IdOk(xid, i) == i >= 0 /\ i <= (IF xid THEN EffMax ELSE SffMax)
LenOk(fd, n) == IF fd THEN n \in FdLens ELSE n <= 8

\* x = [id, eff, rtr, err, fd, brs, esi, dlc (-1 not given), d, le]: the attributes handed to CANMessage
PackDomain(x) ==
  /\ IdOk(x.eff, x.id) /\ LenOk(x.fd, Len(x.d))
  /\ (x.dlc < 0 \/ x.dlc = Len(x.d) \/ (x.rtr /\ Len(x.d) = 0 /\ x.dlc <= 8 /\ ~x.fd))
  /\ (x.rtr => Len(x.d) = 0 /\ ~x.fd) /\ (~x.fd => ~x.brs /\ ~x.esi)
FrameLen(x) == IF x.dlc >= 0 THEN x.dlc ELSE Len(x.d)
ExpectedFrame(x) ==
  LET w == WordBytes(x.id, x.eff, x.rtr, x.err, x.le) IN
  [i \in 1..(IF x.fd THEN 72 ELSE 16) |->
     IF i <= 4 THEN w[i]
     ELSE IF i = 5 THEN FrameLen(x)
     ELSE IF i = 6 THEN (IF x.fd THEN B2N(x.brs) + 2 * B2N(x.esi) ELSE 0)
     ELSE IF i <= 8 THEN 0
     ELSE IF i - 8 <= Len(x.d) THEN x.d[i - 8] ELSE 0]
PackVerdict(x) ==
  IF ~PackDomain(x) THEN "ok"
  ELSE IF x.res # "ok" \/ x.packed # ExpectedFrame(x) THEN "K1/pack-is-not-the-linux-can-frame"
  ELSE "ok"

\* x.raw = the bytes recv() returns; x.m = the attributes of the CANMessage made from them
RawTop(x)  == IF x.le THEN x.raw[4] ELSE x.raw[1]
RawId(x)   ==
  LET r == x.raw IN
  LET lo == IF x.le THEN r[1] + 256 * r[2] + 65536 * r[3] ELSE r[4] + 256 * r[3] + 65536 * r[2] IN
  lo + 16777216 * (RawTop(x) % 32)
RawEff(x) == RawTop(x) >= 128
RawRtr(x) == Bit(RawTop(x), 6) = 1
RawErr(x) == Bit(RawTop(x), 5) = 1
RawFd(x)  == Len(x.raw) = 72
UnpackDomain(x) ==
  /\ Len(x.raw) \in {16, 72}
  /\ LenOk(RawFd(x), x.raw[5])
  /\ (RawEff(x) \/ RawId(x) <= SffMax)
UnpackVerdict(x) ==
  IF ~UnpackDomain(x) THEN "ok"
  ELSE LET n == x.raw[5]  m == x.m IN
    IF \/ x.res # "ok" \/ m.id # RawId(x) \/ m.eff # RawEff(x) \/ m.rtr # RawRtr(x) \/ m.err # RawErr(x)
       \/ m.fd # RawFd(x)
       \/ (RawFd(x) /\ (m.brs # (Bit(x.raw[6], 0) = 1) \/ m.esi # (Bit(x.raw[6], 1) = 1)))
       \/ (~RawFd(x) /\ (m.brs \/ m.esi))
       \/ (~RawRtr(x) /\ m.d # [i \in 1..n |-> x.raw[8 + i]])
       \/ (m.dlc >= 0 /\ m.dlc # n)
    THEN "K2/unpack-does-not-return-the-frame"
    ELSE IF ~RawRtr(x) /\ (\A i \in (9 + n)..Len(x.raw) : x.raw[i] = 0) /\ x.raw[7] = 0 /\ x.raw[8] = 0
            /\ (RawFd(x) => x.raw[6] < 4) /\ (~RawFd(x) => x.raw[6] = 0) /\ x.again # x.raw
    THEN "K3/pack-is-not-the-inverse-of-unpack"
    ELSE "ok"

\* ---------------------------------------------------------------- raw CAN sessions
(* x.cfg = [iface, xid, fd, dst (-1: the URI gives none), valid]; x.ev = the totally ordered log of one session:
     [e |-> "B", t, seq, id, eff, rtr, err, fd, len, d, ovr]   a frame of another node is on the wire (seq = 1, 2, ..)
     [e |-> "R", seq]                                          the socket handed datagram seq to the application
     [e |-> "W", ok, id, eff, rtr, err, fd, len, d]            the application wrote this frame (ok: the kernel took it)
     [e |-> "op", op, t0, t, res, ...]                         one API call with its outcome                       *)
NoFilter == [k |-> "none", ids |-> {}, inv |-> FALSE]
Unspec   == [k |-> "unspec", ids |-> {}, inv |-> FALSE]

Class(F, cfg, b) ==
  IF b.ovr \/ b.eff # cfg.xid \/ b.rtr \/ b.err \/ F.k = "unspec" \/ (b.fd /\ ~cfg.fd) THEN "may"
  ELSE IF F.k = "none" THEN "must"
  ELSE IF (b.id \in F.ids) # F.inv THEN "must" ELSE "mustnot"

RawInit == [F |-> NoFilter, fr |-> <<>>, ptr |-> 0, rs |-> <<>>, ws |-> <<>>, closed |-> FALSE, v |-> "ok", u |-> 0, at |-> 0,
            win |-> 0]     \* end of the sniff period of the last get_idle_traffic call

MaxOf(S, d) == IF S = {} THEN d ELSE CHOOSE m \in S : \A k \in S : k <= m
Consumed(st) == {s \in Range(st.rs) : s >= 1 /\ s <= Len(st.fr)}
Fail(st, label) == [st EXCEPT !.v = label]
Done(st) == [st EXCEPT !.rs = <<>>, !.ws = <<>>, !.ptr = MaxOf(Consumed(st) \cup {st.ptr}, st.ptr)]
Skip(st) == [Done(st) EXCEPT !.u = st.u + 1]

SendCheck(st, cfg, ev, dst, isWrite) ==
  IF ~IdOk(cfg.xid, dst) \/ ~LenOk(cfg.fd, Len(ev.d)) THEN Skip(st)
  ELSE IF ev.res # "ok" THEN Fail(st, "S5/send-raised")
  ELSE IF Len(st.ws) # 1 THEN Fail(st, "S3/not-exactly-one-frame-on-the-bus")
  ELSE LET w == st.ws[1] IN
    IF ~w.ok \/ w.id # dst \/ w.eff # cfg.xid \/ w.rtr \/ w.err \/ w.fd # cfg.fd \/ w.len # Len(ev.d) \/ w.d # ev.d
    THEN Fail(st, "S1/frame-on-the-bus-differs")
    ELSE IF isWrite /\ ev.ret # Len(ev.d) THEN Fail(st, "S2/return-value-is-not-the-number-of-bytes")
    ELSE Done(st)

RawConnect(st, cfg, ev) ==
  IF ~cfg.valid THEN Skip(st)
  ELSE IF ev.res # "ok" THEN Fail(st, "N0/valid-target-refused")
  ELSE IF ~(\E k \in 1..Len(ev.calls) : ev.calls[k].c = "bind" /\ ev.calls[k].iface = cfg.iface)
       THEN Fail(st, "N1/not-bound-to-the-interface-of-the-target")
  ELSE Done(st)

RawFilter(st, cfg, ev) ==
  LET ids == Range(ev.ids) IN
  LET dom == ids # {} /\ \A i \in ids : IdOk(cfg.xid, i) IN
  IF ~dom THEN [Skip(st) EXCEPT !.F = Unspec,
                  !.fr = [j \in 1..Len(st.fr) |-> IF j > st.ptr THEN [st.fr[j] EXCEPT !.class = "may"] ELSE st.fr[j]]]
  ELSE IF ev.res # "ok" THEN Fail(st, "F0/set-filter-raised")
  ELSE LET nf == [k |-> "set", ids |-> ids, inv |-> ev.inv] IN
       [Done(st) EXCEPT !.F = nf,
          \* frames already queued stay queued (Linux); a transport that drops them would be as good
          !.fr = [j \in 1..Len(st.fr) |->
                    IF j > st.ptr /\ Class(nf, cfg, st.fr[j]) # st.fr[j].class
                    THEN [st.fr[j] EXCEPT !.class = "may"] ELSE st.fr[j]]]

RawRecv(st, cfg, ev) ==
  IF ev.res = "frame" THEN
    IF Len(st.rs) = 0 \/ st.rs[Len(st.rs)] \notin 1..Len(st.fr) THEN Fail(st, "R1/frame-is-not-from-the-bus")
    ELSE LET s == st.rs[Len(st.rs)]  b == st.fr[s] IN
      IF ev.id # b.id \/ (~b.rtr /\ ev.d # b.d) THEN Fail(st, "R1/frame-altered")
      ELSE IF s <= st.ptr THEN Fail(st, "R2/frame-out-of-order")
      ELSE IF \E j \in (st.ptr + 1)..(s - 1) : st.fr[j].class = "must"
           THEN Fail(st, "F1/wanted-frame-not-delivered")
      ELSE IF b.class = "mustnot" THEN Fail(st, "F2/unwanted-frame-delivered")
      ELSE Done(st)
  ELSE IF ev.res = "timeout" THEN
    IF \E s \in Consumed(st) : st.fr[s].class = "must" THEN Fail(st, "T1/timeout-consumed-a-wanted-frame")
    \* (a frame that arrives at the very instant the deadline expires may go either way)
    ELSE IF \E j \in (st.ptr + 1)..Len(st.fr) : st.fr[j].class = "must" /\ j \notin Consumed(st) /\ st.fr[j].t < ev.t
         THEN Fail(st, "F1/wanted-frame-not-delivered")
    ELSE Done(st)
  ELSE Fail(st, "X1/recvfrom-raised")

RawWrite(st, cfg, ev) ==
  IF cfg.dst < 0 THEN (IF ev.res = "ok" \/ Len(st.ws) > 0 THEN Fail(st, "S4/write-without-destination") ELSE Done(st))
  ELSE SendCheck(st, cfg, ev, cfg.dst, TRUE)

RawIdle(st, cfg, ev) ==
  IF ev.res # "ok" THEN Fail(st, "I0/get-idle-traffic-raised")
  ELSE LET seen == {st.fr[s].id : s \in Consumed(st)}  said == Range(ev.ids) IN
    IF said \ seen # {} THEN Fail(st, "I1/reports-an-id-that-was-not-seen")
    ELSE IF seen \ said # {} THEN Fail(st, "I2/misses-an-id-that-was-seen")
    ELSE IF \E j \in (st.ptr + 1)..Len(st.fr) :
              /\ st.fr[j].class = "must" /\ j \notin Consumed(st)
              /\ st.fr[j].t >= ev.t0 /\ st.fr[j].t < ev.t0 + ev.sniff
         THEN Fail(st, "I2/misses-an-id-that-was-seen")
    ELSE [Done(st) EXCEPT !.win = ev.t0 + ev.sniff]

RawClose(st, ev) ==
  IF ev.res # "ok" THEN Fail(st, "C0/close-raised")
  ELSE IF ev.fdopen THEN Fail(st, "C1/socket-open-after-close")
  ELSE [Done(st) EXCEPT !.closed = TRUE]

RawOp(st, cfg, ev) ==
  IF st.closed THEN Skip(st)
  ELSE CASE ev.op = "connect" -> RawConnect(st, cfg, ev)
         [] ev.op = "filter"  -> RawFilter(st, cfg, ev)
         [] ev.op = "recv"    -> RawRecv(st, cfg, ev)
         [] ev.op = "sendto"  -> SendCheck(st, cfg, ev, ev.dst, FALSE)
         [] ev.op = "write"   -> RawWrite(st, cfg, ev)
         [] ev.op = "idle"    -> RawIdle(st, cfg, ev)
         [] ev.op = "close"   -> RawClose(st, ev)
         [] OTHER             -> Skip(st)       \* RawCANTransport.read: "special snowflake"

RawStep(st, cfg, ev) ==
  IF st.v # "ok" THEN st
  ELSE CASE ev.e = "B" ->
              \* a frame inside the sniff period of a get_idle_traffic call that has returned already: it was not listened to
              IF ev.t < st.win /\ Class(st.F, cfg, ev) = "must" /\ ~st.closed THEN Fail(st, "I2/misses-an-id-that-was-seen")
              ELSE [st EXCEPT !.fr = Append(st.fr, [id |-> ev.id, d |-> ev.d, rtr |-> ev.rtr, t |-> ev.t,
                                                    eff |-> ev.eff, err |-> ev.err, fd |-> ev.fd, ovr |-> ev.ovr,
                                                    class |-> Class(st.F, cfg, ev)])]
         [] ev.e = "R" -> [st EXCEPT !.rs = Append(st.rs, ev.seq)]
         [] ev.e = "W" -> [st EXCEPT !.ws = Append(st.ws, ev)]
         [] OTHER     -> RawOp(st, cfg, ev)

RECURSIVE RawFold(_, _, _, _)
RawFold(st, cfg, ev, k) ==
  IF k > Len(ev) THEN st
  ELSE LET n == RawStep(st, cfg, ev[k]) IN
       RawFold(IF n.v # "ok" /\ st.v = "ok" THEN [n EXCEPT !.at = k] ELSE n, cfg, ev, k + 1)
RawFinal(x) == RawFold(RawInit, x.cfg, x.ev, 1)
RawVerdict(x) == LET st == RawFinal(x) IN IF st.v # "ok" THEN st.v ELSE IF x.done # "ok" THEN "T0/session-hangs" ELSE "ok"

\* ---------------------------------------------------------------- ISO-TP: URI parameters -> socket
(* cfg = [iface, src, dst, xid, fd, txtime, ea, rea, txpad, rxpad, txdl (-1 = absent), valid];
   calls = setsockopt / bind in call order: [c |-> "opt", level, opt, v (bytes), refused] | [c |-> "bind", iface, n, rx, tx] *)
SOL_CAN_ISOTP == 106
Calls(ev, c)   == {k \in 1..Len(ev.calls) : ev.calls[k].c = c}
Opts(ev, o)    == {k \in Calls(ev, "opt") : ev.calls[k].level = SOL_CAN_ISOTP /\ ev.calls[k].opt = o}
IsoCfgDomain(c) ==
  /\ c.valid /\ IdOk(c.xid, c.src) /\ IdOk(c.xid, c.dst)
  /\ \A v \in {c.ea, c.rea, c.txpad, c.rxpad} : v >= -1 /\ v <= 255
  /\ c.txdl \in {-1, 8, 12, 16, 20, 24, 32, 48, 64} /\ c.txtime >= -1 /\ c.txtime <= 2147
U16(v, o, le) == IF le THEN v[o] + 256 * v[o + 1] ELSE v[o + 3] + 256 * v[o + 2]
ConnectVerdict(cfg, ev, le) ==
  IF ~IsoCfgDomain(cfg) THEN "ok"
  ELSE IF ev.res # "ok" THEN
         (IF \E k \in Calls(ev, "opt") : ev.calls[k].refused THEN "O6/option-set-on-a-bound-socket"
          ELSE "N0/valid-target-refused")
  ELSE IF \E k \in Calls(ev, "opt") : ev.calls[k].refused THEN "O6/option-set-on-a-bound-socket"
  ELSE LET binds == Calls(ev, "bind")  os == Opts(ev, 1)  ls == Opts(ev, 5) IN
    IF Cardinality(binds) # 1 THEN "O5/bind-address"
    ELSE LET b == ev.calls[CHOOSE k \in binds : TRUE]
             want(id) == [id |-> id, eff |-> cfg.xid, rtr |-> FALSE, err |-> FALSE] IN
      IF b.iface # cfg.iface \/ b.n # 3 \/ b.rx # want(cfg.dst) \/ b.tx # want(cfg.src) THEN "O5/bind-address"
      ELSE LET need == cfg.ea >= 0 \/ cfg.rea >= 0 \/ cfg.txpad >= 0 \/ cfg.rxpad >= 0 \/ cfg.txtime >= 0 IN
        IF os = {} THEN (IF need THEN "O1/option-flags" ELSE "ok")
        ELSE LET v == ev.calls[MaxOf(os, 0)].v IN
          IF Len(v) # 12 THEN "O1/option-flags"
          ELSE LET fl == U16(v, 1, le) IN
            IF \/ Bit(fl, 1) # B2N(cfg.ea >= 0) \/ Bit(fl, 2) # B2N(cfg.txpad >= 0)
               \/ Bit(fl, 3) # B2N(cfg.rxpad >= 0) \/ Bit(fl, 9) # B2N(cfg.rea >= 0) \/ Bit(fl, 0) # 0
            THEN "O1/option-flags"
            ELSE IF \/ (cfg.ea >= 0 /\ v[9] # cfg.ea) \/ (cfg.txpad >= 0 /\ v[10] # cfg.txpad)
                    \/ (cfg.rxpad >= 0 /\ v[11] # cfg.rxpad) \/ (cfg.rea >= 0 /\ v[12] # cfg.rea)
            THEN "O2/option-values"
            ELSE IF cfg.txtime >= 0 /\ <<v[5], v[6], v[7], v[8]>> \notin
                        {Bytes4(cfg.txtime, le), Bytes4(cfg.txtime * 1000000, le)}
            THEN "O3/frame-txtime"
            ELSE IF cfg.fd THEN
                   (IF ls = {} THEN "O4/link-layer-options"
                    ELSE LET l == ev.calls[MaxOf(ls, 0)].v IN
                      IF Len(l) # 3 \/ l[1] # 72 \/ (cfg.txdl >= 0 /\ l[2] # cfg.txdl) THEN "O4/link-layer-options"
                      ELSE "ok")
            ELSE IF ls # {} /\ (LET l == ev.calls[MaxOf(ls, 0)].v IN Len(l) # 3 \/ l[1] # 16) THEN "O4/link-layer-options"
            ELSE "ok"

\* ---------------------------------------------------------------- ISO-TP sessions
(* x.ev: [e |-> "P", t, seq, k ("pdu" | "err"), d, errno, q]   the kernel queues a PDU / a socket error for the application
         [e |-> "R", seq]   [e |-> "W", pdu]   [e |-> "op", op, res, ...]                                          *)
IsoInit == [it |-> <<>>, ptr |-> 0, rs |-> <<>>, ws |-> <<>>, closed |-> FALSE, v |-> "ok", u |-> 0, at |-> 0]
IsoConsumed(st) == {s \in Range(st.rs) : s >= 1 /\ s <= Len(st.it)}
IsoDone(st) == [st EXCEPT !.rs = <<>>, !.ws = <<>>, !.ptr = MaxOf(IsoConsumed(st) \cup {st.ptr}, st.ptr)]
IsoSkip(st) == [IsoDone(st) EXCEPT !.u = st.u + 1]
Waiting(st, t) == {j \in (st.ptr + 1)..Len(st.it) : st.it[j].q /\ j \notin IsoConsumed(st) /\ st.it[j].t < t}

IsoConnect(st, x, ev) ==
  LET v == ConnectVerdict(x.cfg, ev, x.le) IN
  IF v # "ok" THEN Fail(st, v) ELSE IF IsoCfgDomain(x.cfg) THEN IsoDone(st) ELSE IsoSkip(st)

IsoWrite(st, ev) ==
  IF Len(ev.d) = 0 \/ Len(ev.d) > MaxPdu THEN IsoSkip(st)
  ELSE IF ev.res # "ok" THEN Fail(st, "P0/write-raised")
  ELSE IF Len(st.ws) # 1 \/ st.ws[1].pdu # ev.d THEN Fail(st, "P1/pdu-on-the-bus-differs")
  ELSE IF ev.ret # Len(ev.d) THEN Fail(st, "S2/return-value-is-not-the-number-of-bytes")
  ELSE IsoDone(st)

NoItem == [k |-> "none", d |-> <<>>, errno |-> 0, q |-> FALSE]
IsoRead(st, ev) ==
  LET n == Len(st.rs) IN
  LET last == IF n > 0 /\ st.rs[n] \in 1..Len(st.it) THEN st.it[st.rs[n]] ELSE NoItem IN
  LET early == \E k \in 1..(n - 1) : st.rs[k] \in 1..Len(st.it) /\ st.it[st.rs[k]].k = "pdu" IN
  IF early THEN Fail(st, "P3/pdu-consumed-but-not-returned")
  ELSE IF ev.res = "data" THEN
    IF last.k = "none" THEN Fail(st, "P2/pdu-is-not-from-the-bus")
    ELSE IF last.k = "err" THEN Fail(st, "E3/socket-error-swallowed")
    ELSE IF ev.d # last.d THEN (IF Len(last.d) <= MaxPdu /\ Len(last.d) > 0 THEN Fail(st, "P2/pdu-read-differs")
                                ELSE IsoSkip(st))
    ELSE IF \E j \in (st.ptr + 1)..(st.rs[n] - 1) : st.it[j].q /\ j \notin IsoConsumed(st)
         THEN Fail(st, "P3/pdu-skipped")
    ELSE IsoDone(st)
  ELSE IF last.k = "pdu" THEN Fail(st, "P3/pdu-consumed-but-not-returned")
  ELSE IF last.k = "err" THEN
    IF last.errno \in {ECOMM, EILSEQ} THEN
      (IF ev.res = "exc" /\ "ConnectionError" \in Range(ev.mro) THEN IsoDone(st)
       ELSE Fail(st, "E1/flow-error-is-not-a-broken-pipe"))
    ELSE IF last.errno = ETIMEDOUT THEN
      (IF ev.res = "timeout" THEN IsoDone(st) ELSE Fail(st, "E2/socket-timeout-is-not-a-timeout"))
    ELSE IsoDone(st)                   \* any exception: the error is not swallowed
  ELSE IF ev.res = "timeout" THEN
    (IF Waiting(st, ev.t) # {} THEN Fail(st, "P3/timeout-while-a-pdu-was-waiting") ELSE IsoDone(st))
  ELSE Fail(st, "X1/read-raised")

IsoClose(st, ev) ==
  IF ev.res # "ok" THEN Fail(st, "C0/close-raised")
  ELSE IF ev.fdopen THEN Fail(st, "C1/socket-open-after-close")
  ELSE [IsoDone(st) EXCEPT !.closed = TRUE]

IsoOp(st, x, ev) ==
  IF st.closed THEN IsoSkip(st)
  ELSE CASE ev.op = "connect" -> IsoConnect(st, x, ev)
         [] ev.op = "write"   -> IsoWrite(st, ev)
         [] ev.op = "read"    -> IsoRead(st, ev)
         [] ev.op = "close"   -> IsoClose(st, ev)
         [] OTHER             -> IsoSkip(st)

IsoStep(st, x, ev) ==
  IF st.v # "ok" THEN st
  ELSE CASE ev.e = "P" -> [st EXCEPT !.it = Append(st.it, ev)]
         [] ev.e = "R" -> [st EXCEPT !.rs = Append(st.rs, ev.seq)]
         [] ev.e = "W" -> [st EXCEPT !.ws = Append(st.ws, ev)]
         [] OTHER     -> IsoOp(st, x, ev)
RECURSIVE IsoFold(_, _, _)
IsoFold(st, x, k) ==
  IF k > Len(x.ev) THEN st
  ELSE LET n == IsoStep(st, x, x.ev[k]) IN
       IsoFold(IF n.v # "ok" /\ st.v = "ok" THEN [n EXCEPT !.at = k] ELSE n, x, k + 1)
IsoFinal(x) == IsoFold(IsoInit, x, 1)
IsoVerdict(x) == LET st == IsoFinal(x) IN IF st.v # "ok" THEN st.v ELSE IF x.done # "ok" THEN "T0/session-hangs" ELSE "ok"

\* ---------------------------------------------------------------- total verdict
Verdict(x) ==
  CASE x.kind = "pack"   -> PackVerdict(x)
    [] x.kind = "unpack" -> UnpackVerdict(x)
    [] x.kind = "raw"    -> RawVerdict(x)
    [] x.kind = "iso"    -> IsoVerdict(x)
    [] OTHER             -> "M0/unknown-kind"
Unspecified(x) ==
  CASE x.kind = "pack"   -> B2N(~PackDomain(x))
    [] x.kind = "unpack" -> B2N(~UnpackDomain(x))
    [] x.kind = "raw"    -> RawFinal(x).u
    [] x.kind = "iso"    -> IsoFinal(x).u
    [] OTHER             -> 0
\* index (1-based) of the event at which the first clause broke; 0 = none / not a session
FailedAt(x) ==
  CASE x.kind = "raw" -> RawFinal(x).at
    [] x.kind = "iso" -> IsoFinal(x).at
    [] OTHER          -> 0
=============================================================================
