SPECIFICATION Spec
CONSTANTS
  Cases <- MCCasesAllOn
  Export = FALSE
  Dev_S21_HookUnbound = TRUE
  Dev_S22_DbClosedBeforeMeta = FALSE
  Dev_S23_SigintMetaZero = FALSE
  Dev_S23b_DbOpenBeforeTry = FALSE
INVARIANT TypeOK
INVARIANT FoldAgrees
INVARIANT X1_ExitCode
INVARIANT X2_Meta
INVARIANT X3_Log
INVARIANT X4_Lock
INVARIANT X5_Db
INVARIANT X6_Hooks
CHECK_DEADLOCK FALSE
