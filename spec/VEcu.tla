------------------------------- MODULE VEcu -------------------------------
(* Design layer of the virtual ECU, shaped like
   gallia/services/uds/server.py:
     UDSServer.respond                      -> Outcomes (respond, update_state, suppress)
     UDSServer.respond_without_state_change -> Pre      (the ordered chain of default responders)
     RandomUDSServer.respond_after_default  -> Specific (service handlers, abstracted)
     UDSServer.update_state / RandomUDSServer.update_state -> Update
   One action per rule that can produce the answer (so that TLC's coverage shows
   every rule is exercised); the environment chooses the request and, once, the
   set of enabled behaviour switches.  Checked by TLC against VEcuContract
   (properties C13 / C14).

   Deviation constants (all FALSE = intended design):
     Dev_S20_RuleOffRaises            as found: with the missing-sub-function rule disabled the
                                      sub-function rule indexes byte 2 of a 1-byte request
     Dev_S20b_UnofferedSessionAsserts as found: with the sub-function rule disabled a session
                                      change to an unoffered session is accepted and every
                                      later request trips the "unsupported session" assertion *)
EXTENDS VEcuContract

CONSTANTS
  M,          \* the model (see VEcuContract)
  SfSids,     \* service ids the request codec treats as sub-function services (code: _is_sub_function_service)
  ReqSeq,     \* sequence of request records [b, n, p, key]; key \in {"na", "right", "wrong"}
  BFamily,    \* family of switch sets explored
  Export,     \* TRUE: print every transition (spec -> code cases)
  CheckE4,    \* TRUE: also evaluate the design-level E4 comparison on every transition
  Dev_S20_RuleOffRaises,
  Dev_S20b_UnofferedSessionAsserts

VARIABLES B, st, ls,   \* enabled switches; [session, level]; sub-function of the last seed reply (0: none)
          verdict,     \* observation: contract verdict of the last exchange (StepVerdictE)
          e4           \* observation: did the last exchange respect "disabling one switch only removes that rule"
vars == <<B, st, ls, verdict, e4>>

VM == View(M)
Raise == [k |-> "raise", n |-> 0, b |-> <<>>]
Nothing == [k |-> "nil", n |-> 0, b |-> <<>>]      \* "this rule does not apply" (Python None inside the chain)
NegR(q, c) == Bytes(<<SID_NEG, Sid(q), c>>)

IsSf(q) == Sid(q) \in SfSids
Offered == st.session \in DOMAIN M

(* --------------------- the default responder rules -------------------- *)
D_sns(s, q) ==
  IF s.session \notin DOMAIN M /\ Dev_S20b_UnofferedSessionAsserts THEN Raise     \* assert ... "unsupported session"
  ELSE IF s.session \notin DOMAIN M \/ Sid(q) \notin DOMAIN M[s.session]
       THEN NegR(q, IF Sid(q) \in VM.known THEN NRC_SNSIAS ELSE NRC_SNS)
       ELSE Nothing

D_msf(s, q) == IF IsSf(q) /\ q.n < 2 THEN NegR(q, NRC_IMLOIF) ELSE Nothing

D_sfns(s, q) ==
  IF s.session \notin DOMAIN M /\ Dev_S20b_UnofferedSessionAsserts THEN Raise
  ELSE IF ~(IsSf(q) /\ Sid(q) # SID_RC) THEN Nothing
  ELSE IF q.n < 2 THEN                    \* intended: no sub-function byte, nothing to look up
         (IF ~Dev_S20_RuleOffRaises THEN Nothing
          ELSE IF Sid(q) \in VM.known THEN Raise                                        \* as found: request.pdu[1]
          ELSE NegR(q, NRC_SFNS))                                                       \* as found: loop body never reached
  ELSE LET inAct == /\ s.session \in DOMAIN M /\ Sid(q) \in DOMAIN M[s.session]
                    /\ Sub(q) \in M[s.session][Sid(q)].subs
           inOth == \E x \in DOMAIN M : x # s.session /\ Sid(q) \in DOMAIN M[x] /\ Sub(q) \in M[x][Sid(q)].subs
       IN IF inAct THEN Nothing
          ELSE NegR(q, IF inOth THEN NRC_SFNSIAS ELSE NRC_SFNS)

D_fmt(s, q) == IF ~q.p THEN NegR(q, NRC_IMLOIF) ELSE Nothing
D_sc(s, q)  == IF q.p /\ Sid(q) = SID_DSC THEN Bytes(<<SID_DSC + 64, Sub(q)>>) ELSE Nothing
D_sr(s, q)  == IF q.p /\ Sid(q) = SID_RDBI /\ Did(q) = DID_ActiveSession
               THEN Bytes(<<SID_RDBI + 64, 241, 134, s.session>>) ELSE Nothing
D_tp(s, q)  == IF q.p /\ Sid(q) = SID_TP THEN Bytes(<<SID_TP + 64, 0>>) ELSE Nothing

(* RandomUDSServer.respond_after_default: the set of replies a handler may give
   (Nothing = no handler).  Handlers look only at typed (parsable) requests. *)
Specific(s, l, q) ==
  IF ~q.p THEN {Nothing}
  ELSE CASE Sid(q) = SID_ER -> {Bytes(<<SID_ER + 64, Sub(q)>>)}
    [] Sid(q) = SID_SA ->
         IF Sub(q) % 2 = 1 THEN {Bytes(<<SID_SA + 64, Sub(q)>>)}                      \* seed
         ELSE IF l = 0 \/ Sub(q) # l + 1 THEN {NegR(q, 36)}                           \* requestSequenceError
         ELSE IF q.key = "right" THEN {Bytes(<<SID_SA + 64, Sub(q)>>)} ELSE {NegR(q, 53)}   \* invalidKey
    [] Sid(q) = SID_RC   -> {Bytes(<<SID_RC + 64, Sub(q)>>), NegR(q, 49), NegR(q, NRC_SFNS), NegR(q, NRC_IMLOIF)}
    [] Sid(q) = SID_RDBI -> {Bytes(<<SID_RDBI + 64, q.b[2], q.b[3]>>), NegR(q, 49)}
    [] Sid(q) = 46       -> {Bytes(<<46 + 64, q.b[2], q.b[3]>>), NegR(q, 49), NegR(q, NRC_IMLOIF)}   \* WriteDataByIdentifier
    [] Sid(q) = 20       -> {Bytes(<<20 + 64>>), NegR(q, 49)}                         \* ClearDiagnosticInformation
    [] OTHER -> {Nothing}

(* respond_without_state_change: first enabled rule that answers.  Returns the
   set of [pre, rule] (a set only because service handlers are abstracted).
   A disabled rule is not evaluated (so it cannot raise either). *)
Ans(rule, r) == [pre |-> r, rule |-> rule]
On(b, rule, r) == rule \in b /\ r # Nothing
Pre(b, s, l, q) ==
  IF On(b, "sns", D_sns(s, q)) THEN {Ans("sns", D_sns(s, q))}
  ELSE IF On(b, "msf", D_msf(s, q)) THEN {Ans("msf", D_msf(s, q))}
  ELSE IF On(b, "sfns", D_sfns(s, q)) THEN {Ans("sfns", D_sfns(s, q))}
  ELSE IF On(b, "fmt", D_fmt(s, q)) THEN {Ans("fmt", D_fmt(s, q))}
  ELSE IF On(b, "sc", D_sc(s, q)) THEN {Ans("sc", D_sc(s, q))}
  ELSE IF On(b, "sr", D_sr(s, q)) THEN {Ans("sr", D_sr(s, q))}
  ELSE IF On(b, "tp", D_tp(s, q)) THEN {Ans("tp", D_tp(s, q))}
  ELSE { IF r # Nothing THEN Ans("specific", r)
         ELSE IF "none" \in b THEN Ans("none", NegR(q, NRC_GeneralReject))
         ELSE Ans("silent", NoReply) : r \in Specific(s, l, q) }

(* update_state (UDSServer, then RandomUDSServer) *)
IsResp(r, sid) == r.k = "bytes" /\ r.b[1] = sid + 64
UpdSt(s, r) ==
  IF IsResp(r, SID_DSC) THEN Locked(r.b[2])
  ELSE IF IsResp(r, SID_SA) /\ r.b[2] % 2 = 0 THEN [s EXCEPT !.level = r.b[2] - 1]
  ELSE IF IsResp(r, SID_ER) THEN Locked(DefaultSession)
  ELSE s
UpdLs(l, r) == IF IsResp(r, SID_TP) THEN l ELSE IF IsResp(r, SID_SA) THEN r.b[2] ELSE 0

(* default_response_if_suppress *)
Suppressed(b, q, r) == "supp" \in b /\ ~IsNeg(r) /\ q.p /\ IsSf(q) /\ Bit(q)

(* respond: chain, then state update, then suppression *)
Outcomes(b, s, l, q) ==
  { IF d.pre = Raise THEN [pre |-> Raise, vis |-> NoReply, rule |-> "raise", supd |-> FALSE, st |-> s, ls |-> l]
    ELSE IF d.pre = NoReply THEN [pre |-> NoReply, vis |-> NoReply, rule |-> d.rule, supd |-> FALSE, st |-> s, ls |-> l]
    ELSE [pre |-> d.pre, vis |-> IF Suppressed(b, q, d.pre) THEN NoReply ELSE d.pre,
          rule |-> d.rule, supd |-> Suppressed(b, q, d.pre), st |-> UpdSt(s, d.pre), ls |-> UpdLs(l, d.pre)]
    : d \in Pre(b, s, l, q) }

----------------------------------------------------------------------------
RuleIdx == [sns |-> 0, msf |-> 1, sfns |-> 2, fmt |-> 3, sc |-> 4, sr |-> 5, tp |-> 6, none |-> 7, supp |-> 8]
Code(r) == CASE r.k = "none" -> <<0, 0>> [] r.k = "raise" -> <<3, 0>>
             [] IsNeg(r) -> <<1, r.b[3]>> [] OTHER -> <<2, IF r.n >= 2 THEN r.b[2] ELSE -1>>

Q(q) == [b |-> q.b, n |-> q.n, p |-> q.p]
Strip(o) == [pre |-> o.pre, vis |-> o.vis, st |-> o.st, ls |-> o.ls]
\* E4 at the design level: for every enabled switch r, the outcomes under B \ {r} never raise and are
\* those under B unless rule r was the one that fired
OnlyThatRule(b, s, l, q) ==
  \A r \in b :
    LET full == Outcomes(b, s, l, q)
        less == Outcomes(b \ {r}, s, l, q)
        fired == \E o \in full : o.rule = r \/ (r = "supp" /\ o.supd)
    IN /\ \A o \in less : o.pre # Raise
       /\ ~fired => {Strip(o) : o \in less} = {Strip(o) : o \in full}

Init == B \in BFamily /\ st = Locked(DefaultSession) /\ ls = 0 /\ verdict = "ok" /\ e4 = TRUE

Do(i, o) ==
  /\ st' = o.st /\ ls' = o.ls /\ UNCHANGED B
  /\ verdict' = StepVerdictE(VM, B, st, [q |-> Q(ReqSeq[i]), pre |-> IF o.pre = Raise THEN NoReply ELSE o.pre,
                                         vis |-> o.vis, raised |-> IF o.pre = Raise THEN "Exception" ELSE "",
                                         after |-> o.st])
  /\ e4' = IF CheckE4 THEN OnlyThatRule(B, st, ls, ReqSeq[i]) ELSE TRUE
  /\ Export => PrintT(<<"T", {RuleIdx[r] : r \in B}, st.session, st.level, ls, i,
                        Code(o.pre), Code(o.vis)[1], o.st.session, o.st.level, o.ls>>)

\* one action per rule that produces the answer (so that TLC's coverage names the rules that
\* were exercised); Step is their union with the request loop evaluated once
Step == \E i \in 1..Len(ReqSeq) : \E o \in Outcomes(B, st, ls, ReqSeq[i]) : Do(i, o)
Rule_sns == \E i \in 1..Len(ReqSeq) : \E o \in Outcomes(B, st, ls, ReqSeq[i]) : o.rule = "sns" /\ Do(i, o)
Rule_msf == \E i \in 1..Len(ReqSeq) : \E o \in Outcomes(B, st, ls, ReqSeq[i]) : o.rule = "msf" /\ Do(i, o)
Rule_sfns == \E i \in 1..Len(ReqSeq) : \E o \in Outcomes(B, st, ls, ReqSeq[i]) : o.rule = "sfns" /\ Do(i, o)
Rule_fmt == \E i \in 1..Len(ReqSeq) : \E o \in Outcomes(B, st, ls, ReqSeq[i]) : o.rule = "fmt" /\ Do(i, o)
Rule_sc == \E i \in 1..Len(ReqSeq) : \E o \in Outcomes(B, st, ls, ReqSeq[i]) : o.rule = "sc" /\ Do(i, o)
Rule_sr == \E i \in 1..Len(ReqSeq) : \E o \in Outcomes(B, st, ls, ReqSeq[i]) : o.rule = "sr" /\ Do(i, o)
Rule_tp == \E i \in 1..Len(ReqSeq) : \E o \in Outcomes(B, st, ls, ReqSeq[i]) : o.rule = "tp" /\ Do(i, o)
Rule_specific == \E i \in 1..Len(ReqSeq) : \E o \in Outcomes(B, st, ls, ReqSeq[i]) : o.rule = "specific" /\ Do(i, o)
Rule_none == \E i \in 1..Len(ReqSeq) : \E o \in Outcomes(B, st, ls, ReqSeq[i]) : o.rule = "none" /\ Do(i, o)
Silent == \E i \in 1..Len(ReqSeq) : \E o \in Outcomes(B, st, ls, ReqSeq[i]) : o.rule = "silent" /\ Do(i, o)
Raises == \E i \in 1..Len(ReqSeq) : \E o \in Outcomes(B, st, ls, ReqSeq[i]) : o.rule = "raise" /\ Do(i, o)

Next == \/ Rule_sns \/ Rule_msf \/ Rule_sfns \/ Rule_fmt \/ Rule_sc \/ Rule_sr \/ Rule_tp
        \/ Rule_specific \/ Rule_none \/ Silent \/ Raises
Spec == Init /\ [][Next]_vars
SpecFast == Init /\ [][Step]_vars      \* same behaviours, the request loop evaluated once per state

----------------------------------------------------------------------------
(* -------------------- properties (C13 E1..E4, C14 A1/A2) ------------------ *)
TypeOK == B \subseteq Rules /\ st.session \in 0..127 /\ st.level \in -1..126 /\ ls \in 0..127
E1_Chain        == verdict \notin E1Labels     \* answer class / NRC is the one the ordered chain gives
E2_Suppression  == verdict \notin E2Labels     \* suppressed iff positive and suppress bit (and rule on)
E3_StateUpdate  == verdict \notin E3Labels     \* state changes exactly on DSC / SendKey / ECUReset positives
E4_NoRaise      == verdict \notin E4Labels     \* no switch set makes the server raise
E_Verdict       == verdict = "ok"              \* the total verdict the trace spec uses
E4_OnlyThatRule == e4
\* C14 A2: with the sub-function rule in force the session is always an offered one
A2_SessionOffered == ("sfns" \in B \/ "sc" \notin B) => Offered
A2_Unconditional  == Offered     \* holds for the default switches; violated once the sub-function rule is off
=============================================================================
