---- MODULE MC_EcuWait ----
EXTENDS EcuWait
====
