----------------------------- MODULE SeedDump -----------------------------
(* Growth item X07, design layer: the main loop of `scan uds dump-seeds` (SASeedsDumper.main) as a state
   machine, one action per await point, against an ECU whose answers are chosen by the environment.
   `hist` is what the ECU saw (the events of the contract), `file` the seeds file, `now` virtual ms.

   Deviation constants (all FALSE: the design satisfies the contract; one TRUE: TLC must find a
   counterexample — negative controls):
     Dev_NoSleepOnError       the --sleep pause is skipped after a failed seed request / key   (P1)
                              [this is what sa_dump_seeds.py does: `continue` before the sleep]
     Dev_SaveDuringDetect     seeds are written while the key length is still being detected  (D1)
     Dev_NoReenter            the session is not re-entered after an ECU reset                (R3)
     Dev_CountOnlyPositive    only answered seed requests count towards --reset N             (R1)
     Dev_DurationInSeconds    --duration is taken as seconds                                  (D5)
     Dev_IgnoreDuration       --duration is ignored                                           (D5)
     Dev_SkipKey              no zero key after a seed that follows a failed key              (K4)
     Dev_ContinueAfterUnlock  the loop goes on after the zero key unlocked the level          (K5)
     Dev_NoCheck              --check-session is ignored                                      (S2)
     Dev_KeyLenFromZero       the automatic key length search starts at 0 bytes              (K1/K3)
     Dev_WriteMismatch        the seed of a mismatching answer is written                     (D1)
     Dev_AbortOnNegative      a negative answer to a seed request ends the run with an error  (D5)      *)
EXTENDS SeedDumpContract

CONSTANTS Cfgs, SeedKinds, KeyKinds, MaxSeed, Lat, Tmo, EcuKeyLen, Interrupts,
          Dev_NoSleepOnError, Dev_SaveDuringDetect, Dev_NoReenter, Dev_CountOnlyPositive,
          Dev_DurationInSeconds, Dev_IgnoreDuration, Dev_SkipKey, Dev_ContinueAfterUnlock,
          Dev_NoCheck, Dev_KeyLenFromZero, Dev_WriteMismatch, Dev_AbortOnNegative

VARIABLES C, pc, now, hist, file, end, sess, det, klen, attempt, cnt, start, nseed, fresh, cur,
          intAt, keyFailed, verd
vars == <<C, pc, now, hist, file, end, sess, det, klen, attempt, cnt, start, nseed, fresh, cur,
          intAt, keyFailed, verd>>

\* k: the environment's choice (read by the spec -> code replay only; the contract does not look at it)
Ev(t, ta, q, a, has, k) == [t |-> t, ta |-> ta, s |-> sess, q |-> q, a |-> a, has |-> has, k |-> k]
SeedPdu == <<39, C.level>> \o C.data
KeyPdu(n) == <<39, C.level + 1>> \o [i \in 1..n |-> 0]
Log(e) == hist' = Append(hist, e)

Init ==
  /\ C \in Cfgs
  /\ pc = "SetSession" /\ now = 0 /\ hist = <<>> /\ file = <<>> /\ end = "run" /\ sess = 1
  /\ det = (C.zk # 0)
  /\ klen = IF C.zk > 0 THEN C.zk ELSE IF C.zk = 0 THEN (IF Dev_KeyLenFromZero THEN 0 ELSE 1) ELSE 0
  /\ attempt = FALSE /\ cnt = 0 /\ start = 0 /\ nseed = 0 /\ fresh = 0 /\ cur = <<>>
  /\ intAt = -1 /\ keyFailed = FALSE /\ verd = "ok"

SetSession ==
  /\ pc = "SetSession"
  /\ \E ans \in {"ok", "neg", "sil"} :
       CASE ans = "ok"  -> /\ Log(Ev(now, now, <<16, C.session>>, <<80, C.session, 0, 25, 1, 244>>, TRUE, "ok"))
                           /\ sess' = C.session /\ pc' = "Head" /\ start' = now
                           /\ UNCHANGED <<now, end>>
         [] ans = "neg" -> /\ Log(Ev(now, now, <<16, C.session>>, <<127, 16, 34>>, TRUE, "neg"))
                           /\ pc' = "Final" /\ end' = "done" /\ UNCHANGED <<sess, start, now>>
         [] ans = "sil" -> /\ Log(Ev(now, now, <<16, C.session>>, <<>>, FALSE, "sil"))
                           /\ now' = now + Tmo /\ pc' = "Final" /\ end' = "exc" /\ UNCHANGED <<sess, start>>
  /\ UNCHANGED <<C, file, det, klen, attempt, cnt, nseed, fresh, cur, intAt, keyFailed>>

DurEff == IF Dev_DurationInSeconds THEN C.dur \div 60 ELSE C.dur

LoopHead ==
  /\ pc = "Head" /\ nseed < MaxSeed
  /\ pc' = IF C.dur > 0 /\ ~Dev_IgnoreDuration /\ now - start >= DurEff THEN "Leave" ELSE "MaybeReset"
  /\ UNCHANGED <<C, now, hist, file, end, sess, det, klen, attempt, cnt, start, nseed, fresh, cur, intAt, keyFailed>>

MaybeReset ==
  /\ pc = "MaybeReset"
  /\ IF C.reset # -1 /\ ((C.reset = 0 /\ attempt) \/ (C.reset > 0 /\ cnt = C.reset))
     THEN /\ Log(Ev(now, now, <<17, 1>>, <<81, 1>>, TRUE, "ok"))
          /\ sess' = 1 /\ pc' = "Wait"
     ELSE /\ pc' = "Check" /\ UNCHANGED <<hist, sess>>
  /\ UNCHANGED <<C, now, file, end, det, klen, attempt, cnt, start, nseed, fresh, cur, intAt, keyFailed>>

Wait ==
  /\ pc = "Wait"
  /\ \E alive \in BOOLEAN :
       IF alive THEN /\ Log(Ev(now + 500, now + 500, <<62, 0>>, <<126, 0>>, TRUE, "alive"))
                     /\ now' = now + 500 /\ pc' = "ReSession" /\ UNCHANGED end
                ELSE /\ Log(Ev(now + 500, now + 500, <<62, 0>>, <<>>, FALSE, "dead"))
                     /\ now' = now + 10000 /\ pc' = "Final" /\ end' = "exit"
  /\ UNCHANGED <<C, file, sess, det, klen, attempt, cnt, start, nseed, fresh, cur, intAt, keyFailed>>

ReSession ==
  /\ pc = "ReSession"
  /\ IF Dev_NoReenter THEN UNCHANGED <<hist, sess>>
     ELSE /\ Log(Ev(now, now, <<16, C.session>>, <<80, C.session, 0, 25, 1, 244>>, TRUE, "ok"))
          /\ sess' = C.session
  /\ cnt' = 0 /\ attempt' = FALSE /\ pc' = "Check"
  /\ UNCHANGED <<C, now, file, end, det, klen, start, nseed, fresh, cur, intAt, keyFailed>>

Check ==
  /\ pc = "Check"
  /\ IF ~C.check \/ Dev_NoCheck THEN pc' = "Seed" /\ UNCHANGED <<hist, now>>
     ELSE \E readable \in BOOLEAN :
            IF readable THEN /\ Log(Ev(now, now, <<34, 241, 134>>, <<98, 241, 134, sess>>, TRUE, "ok"))
                             /\ pc' = IF sess = C.session THEN "Seed" ELSE "Recover"
                             /\ UNCHANGED now
                        ELSE /\ Log(Ev(now, now, <<34, 241, 134>>, <<>>, FALSE, "sil"))
                             /\ now' = now + Tmo /\ pc' = "Seed"
  /\ UNCHANGED <<C, file, end, sess, det, klen, attempt, cnt, start, nseed, fresh, cur, intAt, keyFailed>>

Recover ==
  /\ pc = "Recover"
  /\ \E ok \in BOOLEAN :
       IF ok THEN /\ hist' = hist \o << Ev(now, now, <<16, C.session>>, <<80, C.session, 0, 25, 1, 244>>, TRUE, "ok"),
                                       [Ev(now, now, <<34, 241, 134>>, <<98, 241, 134, C.session>>, TRUE, "ok")
                                          EXCEPT !.s = C.session] >>
                  /\ sess' = C.session /\ pc' = "Seed" /\ UNCHANGED end
             ELSE /\ Log(Ev(now, now, <<16, C.session>>, <<127, 16, 34>>, TRUE, "neg"))
                  /\ pc' = "Final" /\ end' = "exit" /\ UNCHANGED sess
  /\ UNCHANGED <<C, now, file, det, klen, attempt, cnt, start, nseed, fresh, cur, intAt, keyFailed>>

AfterFailure == IF Dev_NoSleepOnError THEN "Head" ELSE "Sleep"

Seed ==
  /\ pc = "Seed"
  /\ \E k \in SeedKinds :
       LET pos  == k \in {"pos1", "pos2", "posdrop"}
           sd   == IF k = "pos2" THEN <<fresh + 1, fresh + 1>> ELSE <<fresh + 1>>
           ans  == CASE pos -> <<103, C.level>> \o sd
                     [] k = "neg" -> <<127, 39, 55>>
                     [] k = "mis" -> <<103, C.level + 2>> \o sd
                     [] OTHER -> <<>>
           took == IF k = "sil" THEN Tmo ELSE Lat
       IN /\ Log(Ev(now, now + Lat, SeedPdu, ans, k # "sil", k))
          /\ now' = now + took
          /\ nseed' = nseed + 1
          /\ cnt' = IF Dev_CountOnlyPositive /\ ~pos THEN cnt ELSE cnt + 1
          /\ fresh' = IF pos \/ k = "mis" THEN fresh + 1 ELSE fresh
          /\ cur' = IF pos \/ k = "mis" THEN sd ELSE cur
          /\ sess' = IF k = "posdrop" THEN 1 ELSE sess
          /\ attempt' = (attempt \/ k = "neg")
          /\ CASE pos -> pc' = "Write" /\ UNCHANGED end
               [] k = "mis" -> IF Dev_WriteMismatch THEN pc' = "Write" /\ UNCHANGED end
                                                     ELSE pc' = "Final" /\ end' = "exit"
               [] k = "neg" /\ Dev_AbortOnNegative -> pc' = "Final" /\ end' = "exit"
               [] OTHER -> pc' = AfterFailure /\ UNCHANGED end
  /\ UNCHANGED <<C, file, det, klen, start, intAt, keyFailed>>

Write ==
  /\ pc = "Write"
  /\ file' = IF det \/ Dev_SaveDuringDetect THEN file \o cur ELSE file
  /\ pc' = "Key"
  /\ UNCHANGED <<C, now, hist, end, sess, det, klen, attempt, cnt, start, nseed, fresh, cur, intAt, keyFailed>>

Key ==
  /\ pc = "Key"
  /\ IF C.zk = -1 \/ (Dev_SkipKey /\ keyFailed)
     THEN pc' = "Sleep" /\ UNCHANGED <<hist, now, det, klen, keyFailed, end>>
     ELSE IF ~det /\ klen > C.zkmax
     THEN pc' = "Leave" /\ UNCHANGED <<hist, now, det, klen, keyFailed, end>>
     ELSE \E k \in KeyKinds :
            /\ (k \in {"invalid", "accept"}) => klen = EcuKeyLen
            /\ (k = "badlen") => klen # EcuKeyLen
            /\ LET ans == CASE k = "badlen"  -> <<127, 39, 19>>
                            [] k = "invalid" -> <<127, 39, 53>>
                            [] k = "accept"  -> <<103, C.level + 1>>
                            [] OTHER -> <<>>
               IN Log(Ev(now, now + Lat, KeyPdu(klen), ans, k # "sil", k))
            /\ now' = now + (IF k = "sil" THEN Tmo ELSE Lat)
            /\ klen' = IF k = "badlen" /\ ~det THEN klen + 1 ELSE klen
            /\ det' = (det \/ k = "invalid")
            /\ keyFailed' = (k = "sil")
            /\ pc' = CASE k = "accept" -> IF Dev_ContinueAfterUnlock THEN "Sleep" ELSE "Leave"
                       [] k = "sil" -> AfterFailure
                       [] OTHER -> "Sleep"
            /\ UNCHANGED end
  /\ UNCHANGED <<C, file, sess, attempt, cnt, start, nseed, fresh, cur, intAt>>

Sleep ==
  /\ pc = "Sleep"
  /\ now' = IF C.sleep >= 0 THEN now + C.sleep ELSE now
  /\ pc' = "Head"
  /\ UNCHANGED <<C, hist, file, end, sess, det, klen, attempt, cnt, start, nseed, fresh, cur, intAt, keyFailed>>

Leave ==
  /\ pc = "Leave"
  /\ Log(Ev(now, now, <<17, 1>>, <<81, 1>>, TRUE, "ok"))
  /\ sess' = 1 /\ pc' = "Final" /\ end' = "done"
  /\ UNCHANGED <<C, now, file, det, klen, attempt, cnt, start, nseed, fresh, cur, intAt, keyFailed>>

\* Ctrl-C at any await point; the only way out of an infinite run (and out of the MaxSeed bound)
Interrupt ==
  /\ pc \notin {"Final", "SetSession"}
  /\ pc \in Interrupts \/ (pc = "Head" /\ nseed >= MaxSeed)
  /\ pc' = "Final" /\ end' = "cancel" /\ intAt' = now
  /\ UNCHANGED <<C, now, hist, file, sess, det, klen, attempt, cnt, start, nseed, fresh, cur, keyFailed>>

\* the contract's verdict on (hist, file, end) so far; `verd` caches it (evaluated once per transition)
CI == [C EXCEPT !.int = intAt]
V == LET a == Acc(CI, hist) IN
     IF pc = "Final" THEN Final(CI, a, file, end, now) ELSE IF a.bad = "" THEN "ok" ELSE a.bad

Move == SetSession \/ LoopHead \/ MaybeReset \/ Wait \/ ReSession \/ Check \/ Recover
        \/ Seed \/ Write \/ Key \/ Sleep \/ Leave \/ Interrupt
Cache == verd' = V'
DoSetSession == SetSession /\ Cache
DoLoopHead == LoopHead /\ Cache
DoMaybeReset == MaybeReset /\ Cache
DoWait == Wait /\ Cache
DoReSession == ReSession /\ Cache
DoCheck == Check /\ Cache
DoRecover == Recover /\ Cache
DoSeed == Seed /\ Cache
DoWrite == Write /\ Cache
DoKey == Key /\ Cache
DoSleep == Sleep /\ Cache
DoLeave == Leave /\ Cache
DoInterrupt == Interrupt /\ Cache
Next == DoSetSession \/ DoLoopHead \/ DoMaybeReset \/ DoWait \/ DoReSession \/ DoCheck \/ DoRecover
        \/ DoSeed \/ DoWrite \/ DoKey \/ DoSleep \/ DoLeave \/ DoInterrupt
Spec == Init /\ [][Next]_vars

\* ---------------------------------------------------------------- properties

TypeOK == /\ pc \in {"SetSession", "Head", "MaybeReset", "Wait", "ReSession", "Check", "Recover", "Seed",
                     "Write", "Key", "Sleep", "Leave", "Final"}
          /\ end \in {"run", "done", "exit", "exc", "cancel"}
          /\ (pc = "Final") = (end # "run")
          /\ nseed <= MaxSeed /\ cnt >= 0 /\ klen >= 0
D1_File     == verd \notin {"D1/seed-saved-during-key-length-detection", "D1/received-seed-missing-from-file",
                         "D1/file-holds-bytes-that-are-no-received-seed", "D1/file-differs-from-received-seeds"}
D2_Request  == verd # "D2/seed-request-does-not-carry-configured-level-and-data-record"
S1_Entered  == verd # "S1/seed-requested-before-configured-session-was-entered"
S2_Checked  == verd \notin {"S2/session-not-checked-before-seed-request",
                         "S2/seed-requested-although-session-read-reported-another-session"}
K_ZeroKey   == verd \notin {"K0/key-sent-without-send-zero-key", "K1/key-is-not-an-all-zero-key-for-the-configured-level",
                         "K2/key-length-differs-from-configured-length", "K3/key-length-search-not-1-up-to-n"}
K4_AfterSeed == verd # "K4/no-zero-key-after-seed"
K5_Unlock   == verd # "K5/security-access-request-after-unlock"
K6_Exhaust  == verd # "K6/seed-requests-continue-after-key-length-search-exhausted"
R0_NoReset  == verd # "R0/ecu-reset-without-reset-option"
R1_EveryNth == verd \notin {"R1/reset-not-after-every-nth-seed-request", "R1/more-than-n-seed-requests-without-reset"}
R2_WhenNeeded == verd \notin {"R2/no-reset-after-negative-seed-response", "R2/reset-although-every-seed-request-succeeded"}
R3_Reenter  == verd # "R3/session-not-re-entered-after-reset"
R4_Alive    == verd # "R4/seed-requested-although-ecu-did-not-come-back-after-reset"
P1_Sleep    == verd \notin {"P1/no-sleep-between-seed-requests-after-received-seed",
                         "P1/no-sleep-between-seed-requests-after-failed-request"}
D5_Duration == verd \notin {"D5/seed-requested-after-duration", "D5/infinite-run-ended-by-itself",
                         "D5/run-ended-before-duration", "D5/run-aborted-although-ecu-gave-no-reason"}
VerdictOk   == verd = "ok"
\* no dead end before the run has ended (instead of a liveness property)
Progress    == pc # "Final" => ENABLED Move
CacheOk     == verd = V
=============================================================================
