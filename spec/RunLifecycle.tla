---------------------------- MODULE RunLifecycle ----------------------------
(* Design layer of C15, part 2: the state machine.  One action per phase of
   BaseCommand.entry_point() (gallia/command/base.py) with AsyncScript.run()
   and Scanner/UDSScanner.teardown() (gallia/command/uds.py) inlined:

     Lock -> Artifacts -> LogOpen -> PreHook -> DbOpen ->
       [try]  Setup -> Main -> Teardown  -> Map (except clauses) ->
       [finally] DbClose -> MetaWrite -> LogClose ->
     PostHook -> Unlock -> Exit

   Lock may have to wait for a lock file that another run holds; a run that is
   interrupted during that wait (case point "LockWait") leaves entry_point()
   right there: nothing has been created, nothing is to be cleaned up.

   The only nondeterminism is the environment's choice of the case (kind x
   resources x injected failure) in Init.  TLC checks that the final state of
   every case satisfies the contract (RunLifecycleContract) when all Dev_*
   constants are FALSE, and that each Dev_* = TRUE breaks it (negative
   controls).  With Export = TRUE the final action prints every case with its
   expected final state; the harness executes each printed case against the
   real entry_point() (spec -> code). *)
EXTENDS RunLifecycleSteps

CONSTANTS
  Cases,                       \* set of case records (MC module)
  Export,                      \* BOOLEAN: print <<"C", case, expected observation>> at Exit
  Dev_S21_HookUnbound,         \* as found: failing hook => UnboundLocalError aborts the run
  Dev_S22_DbClosedBeforeMeta,  \* as found: Scanner.teardown closes the DB before run_meta is completed
  Dev_S23_SigintMetaZero,      \* as found: SIGINT under asyncio.run => META/DB say 0, exit 130, no post-hook/unlock
  Dev_S23b_DbOpenBeforeTry     \* as found: DB open failure precedes the try => escapes entry_point

VARIABLES case, pc, st
vars == <<case, pc, st>>

DV == (IF Dev_S21_HookUnbound THEN {"S21"} ELSE {}) \cup
      (IF Dev_S22_DbClosedBeforeMeta THEN {"S22"} ELSE {}) \cup
      (IF Dev_S23_SigintMetaZero THEN {"S23"} ELSE {}) \cup
      (IF Dev_S23b_DbOpenBeforeTry THEN {"S23b"} ELSE {})

Init == case \in Cases /\ pc = 1 /\ st = S0

At(p) == pc <= Len(PhaseOrder) /\ PhaseOrder[pc] = p
Go(p) == st' = Step(p, case, DV, st) /\ pc' = pc + 1 /\ UNCHANGED case

ALock       == At("Lock") /\ Go("Lock")
AArtifacts  == At("Artifacts") /\ Go("Artifacts")
ALogOpen    == At("LogOpen") /\ Go("LogOpen")
APreHook    == At("PreHook") /\ Go("PreHook")
ADbOpen     == At("DbOpen") /\ Go("DbOpen")
ASetup      == At("Setup") /\ Go("Setup")
AMain       == At("Main") /\ Go("Main")
ATeardown   == At("Teardown") /\ Go("Teardown")
AMap        == At("Map") /\ Go("Map")
ADbClose    == At("DbClose") /\ Go("DbClose")
AMetaWrite  == At("MetaWrite") /\ Go("MetaWrite")
ALogClose   == At("LogClose") /\ Go("LogClose")
APostHook   == At("PostHook") /\ Go("PostHook")
AUnlock     == At("Unlock") /\ Go("Unlock")
AExit      == /\ At("Exit") /\ Go("Exit")
              /\ (Export => PrintT(<<"C", case, Obs(case, st')>>))

Next == ALock \/ AArtifacts \/ ALogOpen \/ APreHook \/ ADbOpen \/ ASetup \/ AMain \/ ATeardown
        \/ AMap \/ ADbClose \/ AMetaWrite \/ ALogClose \/ APostHook \/ AUnlock \/ AExit

Spec == Init /\ [][Next]_vars /\ WF_vars(Next)

----------------------------------------------------------------------------
Done  == pc > Len(PhaseOrder)
Final == Obs(case, st)
Broken(prefixed) == Done /\ \E i \in 1..Len(Labels(case, Final)) : Labels(case, Final)[i] \in prefixed

X1L == {"X1/run-ends-by-itself", "X1/exit-code-follows-mapping"}
X2L == {"X2/meta-json-written", "X2/meta-exit-code=process", "X2/meta-start<=end", "X2/meta-config-recreates-run"}
X3L == {"X3/log-file-exists", "X3/log-closed", "X3/log-fully-readable"}
X4L == {"X4/lock-released"}
X5L == {"X5/db-run-entry-exists", "X5/db-end-time-set", "X5/db-exit-code=process"}
X6L == {"X6/failing-hook-reported", "X6/failing-hook-never-aborts", "X6/post-hook-sees-exit-code"}

X1_ExitCode == ~Broken(X1L)
X2_Meta     == ~Broken(X2L)
X3_Log      == ~Broken(X3L)
X4_Lock     == ~Broken(X4L)
X5_Db       == ~Broken(X5L)
X6_Hooks    == ~Broken(X6L)

\* every label the contract can emit belongs to one invariant above
LabelsCovered == Done => \A i \in 1..Len(Clauses(case, Final)) :
                   Clauses(case, Final)[i][1] \in X1L \cup X2L \cup X3L \cup X4L \cup X5L \cup X6L

TypeOK == /\ pc \in 1..Len(PhaseOrder) + 1
          /\ Done => ObsOK(Final)
\* the fold used by the trace spec and the step-by-step machine agree
FoldAgrees == Done => Predict(case, DV) = Final

\* design-level facts that are not part of the contract (drift if the code differs)
D_ExitCodeSetBeforeMeta == [][(pc <= Len(PhaseOrder) /\ PhaseOrder[pc] = "MetaWrite" /\ st'.meta.present)
                              => st'.meta.exit = st.code]_vars
D_NoResourceLeft == Done /\ st.esc = "" => (~st.lock /\ ~st.dbConn /\ (st.logOpen => st.logClosed))

Terminates == <>Done
=============================================================================
