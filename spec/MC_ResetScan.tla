---------------------------- MODULE MC_ResetScan ----------------------------
(* Small-constant exhaustive configurations of ResetScan. *)
EXTENDS ResetScan

Cfg(has, ss, sa, sk, ck) == [has |-> has, sessions |-> ss, skipAll |-> sa, skip |-> sk, check |-> ck]

\* all four kinds of answers
Classes4 == {ClsNS, ClsNEG, ClsPOS, ClsSIL}
Classes3 == {ClsNS, ClsNEG, ClsPOS}
Classes2 == {ClsNS, ClsPOS}
Classes6 == {ClsNS, ClsNS2, ClsNEG, ClsNEG2, ClsPOS, ClsSIL}
Classes5 == {ClsNS, ClsNS2, ClsNEG, ClsPOS, ClsSIL}

Sfs12  == {1, 2}
Sfs123 == {1, 2, 3}
Sfs23  == {2, 3}

Downs3   == {0, Short, Long}
Downs2   == {0, Short}
Refuses3 == {0, Short, Long}
Refuses2 == {0, Short}

SkipsA == {<<{}, {}>>, <<{}, {<<2, 1>>, <<1, 2>>}>>, <<{2}, {<<1, 1>>}>>}
\* every shape of configuration: no session list, one / two sessions, a session the ECU does not have, skips, check on/off
CfgsAll == {Cfg(FALSE, <<>>, {}, {}, TRUE)}
           \cup {Cfg(TRUE, ss, k[1], k[2], ck) : ss \in {<<1, 2>>, <<2>>, <<2, 3>>}, k \in SkipsA, ck \in BOOLEAN}
CfgsSome == {Cfg(FALSE, <<>>, {}, {}, TRUE), Cfg(TRUE, <<1, 2>>, {}, {<<2, 1>>, <<1, 2>>}, TRUE),
             Cfg(TRUE, <<2>>, {}, {}, FALSE), Cfg(TRUE, <<2, 3>>, {2}, {<<1, 1>>}, TRUE)}
CfgsTwo  == {Cfg(TRUE, <<2>>, {}, {}, FALSE), Cfg(TRUE, <<1, 2>>, {}, {<<2, 1>>, <<1, 2>>}, TRUE)}
CfgsSkip == {Cfg(TRUE, <<1, 2>>, {}, {<<2, 2>>, <<1, 3>>}, ck) : ck \in BOOLEAN}
=============================================================================
