--------------------------- MODULE Trace_CursedHr ---------------------------
(* Code -> spec for X18: validates, against CursedHrContract, sessions of the REAL gallia.cli.cursed_hr.CursedHR
   driven key by key on a fake terminal (harness/x18_run.py, harness/props/x18.py).

   One initial state per recorded session; TLC steps through the keys (one state per key: the context of the
   contract is rebuilt from the keys, every screen is judged) and prints one total verdict per session:
        <<"V", id, "ok" | "ok-unspecified" | label of the first clause broken, number of screens judged,
           number of keys handled when the verdict was reached>>.

   Session record:
     id, log (sequence of [prio, lens, sat]), prio0, filt0,
     keys (sequence of [t, n]: the tokens of the keys the viewer consumed), obs (sequence of observations:
     obs[1] = first screen, obs[i + 1] = screen when the viewer waited for the key after key i),
     how ("end" | "quit" | "crash" | "hang"), restored (BOOLEAN: endwin was called) *)
EXTENDS CursedHrContract, Json, IOUtils, TLC

Batch == JsonDeserialize(IOEnv.TRACE_FILE)
T == Batch.traces

VARIABLES tid, j, ctx, verdict, judged, printed
tvars == <<tid, j, ctx, verdict, judged, printed>>

X == T[tid]
K == Len(X.keys)
NObs == Len(X.obs)

TInit == /\ tid \in 1..Len(T)
         /\ j = 0
         /\ ctx = InitCtx(T[tid].log, T[tid].prio0, T[tid].filt0)
         /\ verdict = IF Len(T[tid].obs) >= 1
                      THEN LET v == ScreenVerdict(T[tid].log, Cfg(ctx), T[tid].obs[1]) IN IF v = OK THEN "?" ELSE v[2]
                      ELSE "?"
         /\ judged = IF Len(T[tid].obs) >= 1 THEN 1 ELSE 0
         /\ printed = FALSE

StepKey ==
  /\ verdict = "?" /\ j < K
  /\ LET key == X.keys[j + 1]
         o1 == X.obs[j + 1]
         c2 == StepCtx(X.log, ctx, key, o1)
         has == j + 2 <= NObs
         v == IF has THEN StepVerdict(X.log, ctx, c2, key, o1, X.obs[j + 2]) ELSE OK
     IN /\ ctx' = c2
        /\ j' = j + 1
        /\ verdict' = IF v[1] = "ok" THEN "?" ELSE v[2]
        /\ judged' = IF has /\ c2.lvl = "known" /\ c2.mode = "main" THEN judged + 1 ELSE judged
  /\ UNCHANGED <<tid, printed>>

Finish ==
  /\ verdict = "?" /\ j = K
  /\ verdict' = EndVerdict(ctx, X.how, X.restored)[2]
  /\ UNCHANGED <<tid, j, ctx, judged, printed>>

Report ==
  /\ verdict # "?" /\ ~printed
  /\ PrintT(<<"V", X.id, verdict, judged, j>>)
  /\ printed' = TRUE
  /\ UNCHANGED <<tid, j, ctx, verdict, judged>>

TNext == StepKey \/ Finish \/ Report
TSpec == TInit /\ [][TNext]_tvars
=============================================================================
