----------------------------- MODULE Trace_Hsfz -----------------------------
(* Code -> spec for C07: replays every recorded execution of the real
   HSFZTransport event by event through the contract monitor HsfzContract!Step.
   One initial state per execution; verdict = "ok" or the first clause broken
   (printed with the index of the offending event). *)
EXTENDS HsfzContract, Json, IOUtils

Batch == JsonDeserialize(IOEnv.TRACE_FILE)
T == Batch.traces

VARIABLES tid, l, m
tvars == <<tid, l, m>>

TInit == tid \in 1..Len(T) /\ l = 1 /\ m = M0
TStep == /\ l >= 1 /\ l <= Len(T[tid].ev) /\ m.fail = "ok"
         /\ m' = Step(T[tid].cfg, m, T[tid].ev[l])
         /\ l' = l + 1 /\ tid' = tid
TDone == /\ (l > Len(T[tid].ev) \/ m.fail # "ok") /\ l # 0
         /\ PrintT(<<"V", T[tid].id, m.fail, l - 1>>)
         /\ l' = 0 /\ UNCHANGED <<tid, m>>
TSpec == TInit /\ [][TStep \/ TDone]_tvars
=============================================================================
