----------------------- MODULE DoipDiscoverContract -----------------------
(* Growth item X08, contract layer (operators only): the DoIP discovery scanner `discover doip`.

   Statement (growth/X08.json):
   "Given the gateway's host and port, `discover doip` reports as valid routing activation exactly the (activation
    type, source address) combinations of the candidate space that the gateway answers with the success code 0x10,
    and continues only with exactly one of them. It then sends a UDS TesterPresent request with that fixed source
    address (on a connection activated with that activation type) to every target address of the configured range
    and reports an address as valid exactly if the gateway acknowledged the request positively, as unreachable
    exactly if it was refused with TargetUnreachable, and as found (responsive; artifact file and database) exactly
    if a UDS answer - positive or negative - from that address arrives within the DoIP diagnostic message time, not
    if the gateway refuses the request, stays silent or drops the connection; timeouts and dropped connections are
    survived by reconnecting and the scan terminates. Every emitted target URI parses back through TargetURI and
    DoIPConfig to the scanned host, port, activation type, source address and target address."

   Sources of the clauses (documented behaviour only):
     RA1/RA2  class docstring of DoIPDiscoverer ("automatically enumerates allowed RoutingActivationTypes and known
              SourceAddresses"), log text "Enumerating valid RoutingActivationType/SourceAddress tuples" /
              "Holy moly, it actually worked: <uri>", artifact 1_valid_routing_activation_requests.txt;
              ISO 13400-2 table "routing activation response codes": 0x10 = routing successfully activated.
              Help text of --target: "The more you give, the more automatic detection will be skipped" (= candidate
              space: a given activation type / source address replaces the full 8 bit / 16 bit range).
     RA3      error text "I found N valid RoutingActivationType/SourceAddress tuples, but can only continue with exactly
              one; choose your weapon with --target!".
     TA1/TA2  docs/uds/scan_modes.md: "sending a valid UDS payload to all valid ECU addresses with a fixed tester address",
              "a valid UDS message is put in the UserData field and the TargetAddress field is iterated"; log text
              "Enumerating all TargetAddresses from <start> to <stop>"; class docstring "respond to UDS TesterPresent
              requests" (ISO 14229-1: 3E 00; with the suppress bit no answer could ever come).  An address whose request
              could not be sent is written to 7_targets_with_errors.txt (handler "sometimes connections are closed not
              by us"), which the clause accepts.
     TA3      log text "HEUREKA: target address <a> is valid", comment "If we reach this, the request was not denied due to
              unknown TargetAddress or other DoIP errors", docs: "when the gateway sends a NACK or just timeouts, no ECU is
              available on the tried TargetAddress"; ISO 13400-2: diagnostic message positive ack 0x8002, A_DoIP_Diagnostic_Message = 2 s.
     TA4      docs: "When a valid answer is received an ECU has been found"; Discovery Scan: "at least some answer is
              expected" (a negative UDS response is an answer); class docstring "discover valid TargetAddresses that are
              accepted and respond to UDS TesterPresent requests"; log texts "It cannot get nicer: <a> responded",
              "Giving all ECUs a chance to reply..." (waits the ISO 13400-2 diagnostic message timeout, 2 s), artifact
              4_responsive_targets.txt and the discovery results handed to the database.
     TA5      log text "<a> is (currently?) unreachable", artifact 5_unreachable_targets.txt; ISO 13400-2 NACK code 0x06.
     TA6      the emitted lines are target URIs for gallia ("It's dangerous to test alone, take one of these"); they are
              read by TargetURI / DoIPConfig (DoIPTransport.connect).
     T0       handler "Re-establish DoIP connection"; final log text "All done".

   Not demanded (sources silent; every outcome accepted): whether an address whose request was never seen by the gateway
   is retried; answers or acknowledgements that arrive later than the ISO time; which address is reported for a diagnostic
   message that is no answer to TesterPresent, that is addressed to another tester or that comes from an address outside the
   swept range (may be reported, need not);
   the order and multiplicity of lines; the content of 7_targets_with_errors.txt beyond the address; probe order of the
   routing activation enumeration; gateways that do not answer a routing activation request at all.

   Observation O of one execution (gateway-side ground truth + what the scanner reported):
     O.cfg   = [host, port, rat, src, start, stop]      rat/src = -1: not given by --target (to be enumerated)
     O.acc   set of <<rat, src>> the gateway model accepts;  O.ra  set of <<rat, src>> it answered with 0x10
     O.reqs  set of [src, dst, d, act]     diagnostic messages seen by the gateway (act: on an activated connection)
     O.acks  set of [a, dt, dl]            positive acks sent for address a, dt ms after the request, dl: delivered
     O.nacks set of [a, code, dt, dl]      negative acks
     O.anss  set of [a, to, d, dt, dl]     diagnostic messages sent by the gateway: source a, target `to`
     O.repRa set of <<rat, src>>;  O.repValid, O.repResp, O.repDb, O.repUnreach, O.errs  sets of target addresses
     O.uris  set of [ok, host, port, src, rat, ver]   every emitted URI parsed back by the real TargetURI/DoIPConfig
     O.vers  protocol versions of the frames the scanner sent;   O.done  "ok" | "stopped" (main() ended the run with a non-zero exit) | "exc" | "hang"       *)
EXTENDS Naturals, Integers, Sequences, FiniteSets

AckTime         == 2000   \* ISO 13400-2 A_DoIP_Diagnostic_Message
AnswerTime      == 2000   \* ISO 13400-2 diagnostic message timeout the scanner announces to wait for
RaSuccess       == 16     \* 0x10 routing successfully activated
NackUnreachable == 6      \* 0x06 target unreachable
TesterPresent   == <<62, 0>>
IsAnswerToTesterPresent(d) == d = <<126, 0>> \/ (Len(d) = 3 /\ d[1] = 127 /\ d[2] = 62)

CandRat(O) == IF O.cfg.rat >= 0 THEN {O.cfg.rat} ELSE 0..255
CandSrc(O) == IF O.cfg.src >= 0 THEN {O.cfg.src} ELSE 0..65535
Tester(O)  == IF O.cfg.src >= 0 THEN {O.cfg.src} ELSE {p[2] : p \in O.repRa}
Rat(O)     == IF O.cfg.rat >= 0 THEN {O.cfg.rat} ELSE {p[1] : p \in O.repRa}
Sweep(O)   == O.cfg.start..O.cfg.stop

\* harness self-check: the gateway fake answered as its model says
M0_FakeConsistent(O) == O.ra \subseteq O.acc

T0_Terminates(O)  == O.done \in {"ok", "stopped"}
RA1_Sound(O)      == O.repRa \subseteq O.ra
RA2_Complete(O)   == \A p \in O.acc : (p[1] \in CandRat(O) /\ p[2] \in CandSrc(O)) => p \in O.repRa
RA3_Gate(O)       == IF Cardinality(O.repRa) = 1 THEN O.done # "stopped" ELSE O.done = "stopped" /\ O.reqs = {}

Probed(O) == {q.dst : q \in {r \in O.reqs : r.act /\ r.src \in Tester(O) /\ r.d = TesterPresent}}
TA1_EveryAddressTried(O) == O.done = "ok" => \A a \in Sweep(O) : a \in Probed(O) \/ a \in O.errs
TA2_OnlyConfiguredRequests(O) ==
  \A q \in O.reqs : q.act /\ q.src \in Tester(O) /\ q.dst \in Sweep(O) /\ q.d = TesterPresent

ValidMust(O) == {k.a : k \in {x \in O.acks : x.dl /\ x.dt < AckTime}}
ValidMay(O)  == {k.a : k \in {x \in O.acks : x.dl}}
TA3_ValidSound(O)    == O.repValid \subseteq ValidMay(O)
TA3_ValidComplete(O) == O.done = "ok" => ValidMust(O) \subseteq O.repValid

RespMust(O) == {k.a : k \in {x \in O.anss : x.dl /\ x.dt < AnswerTime /\ x.to \in Tester(O) /\ x.a \in Sweep(O)
                                            /\ IsAnswerToTesterPresent(x.d)}}
RespMay(O)  == {k.a : k \in {x \in O.anss : x.dl}}
TA4_FoundSound(O)    == O.repResp \subseteq RespMay(O) /\ O.repDb \subseteq RespMay(O)
TA4_FoundComplete(O) == O.done = "ok" => RespMust(O) \subseteq O.repResp /\ RespMust(O) \subseteq O.repDb

UnreachMust(O) == {k.a : k \in {x \in O.nacks : x.dl /\ x.dt < AckTime /\ x.code = NackUnreachable}}
UnreachMay(O)  == {k.a : k \in {x \in O.nacks : x.dl /\ x.code = NackUnreachable}}
TA5_Unreachable(O) == O.repUnreach \subseteq UnreachMay(O) /\ (O.done = "ok" => UnreachMust(O) \subseteq O.repUnreach)

TA6_Uris(O) == \A u \in O.uris : /\ u.ok /\ u.host = O.cfg.host /\ u.port = O.cfg.port
                                 /\ u.src \in Tester(O) /\ u.rat \in Rat(O) /\ u.ver \in O.vers

Verdict(O) ==
  IF ~M0_FakeConsistent(O)            THEN "M0/gateway-fake-inconsistent-with-its-model"
  ELSE IF O.done = "hang"             THEN "T0/scan-does-not-terminate"
  ELSE IF ~T0_Terminates(O)           THEN "T0/scan-aborts"
  ELSE IF ~TA6_Uris(O)                THEN "TA6/emitted-uri-does-not-denote-the-endpoint"
  ELSE IF ~RA1_Sound(O)               THEN "RA1/reported-tuple-not-accepted-by-gateway"
  ELSE IF ~RA2_Complete(O)            THEN "RA2/accepted-tuple-not-reported"
  ELSE IF ~RA3_Gate(O)                THEN "RA3/continues-iff-exactly-one-tuple"
  ELSE IF ~TA2_OnlyConfiguredRequests(O) THEN "TA2/request-not-as-configured"
  ELSE IF ~TA1_EveryAddressTried(O)   THEN "TA1/address-neither-probed-nor-reported-as-error"
  ELSE IF ~TA3_ValidSound(O)          THEN "TA3/valid-without-positive-ack"
  ELSE IF ~TA3_ValidComplete(O)       THEN "TA3/acknowledged-address-not-valid"
  ELSE IF ~TA5_Unreachable(O)         THEN "TA5/unreachable-list-differs"
  ELSE IF ~TA4_FoundSound(O)          THEN "TA4/found-without-answer"
  ELSE IF ~TA4_FoundComplete(O)       THEN "TA4/answering-address-not-found"
  ELSE "ok"

\* cases the statement does not decide (counted, never a violation)
Unspecified(O) ==
  Cardinality(RespMay(O) \ RespMust(O)) + Cardinality(Sweep(O) \ Probed(O))
=============================================================================
