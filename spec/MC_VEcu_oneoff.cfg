SPECIFICATION SpecFast
CONSTANTS
  M <- MCM
  SfSids <- MCSfSids
  ReqSeq <- MCReqSeq
  BFamily <- BFamOneOff
  Export = FALSE
  CheckE4 = TRUE
  Dev_S20_RuleOffRaises = FALSE
  Dev_S20b_UnofferedSessionAsserts = FALSE
INVARIANT TypeOK
INVARIANT E4_NoRaise
INVARIANT E1_Chain
INVARIANT E2_Suppression
INVARIANT E3_StateUpdate
INVARIANT E_Verdict
INVARIANT E4_OnlyThatRule
INVARIANT A2_SessionOffered
CHECK_DEADLOCK FALSE
