---------------------------- MODULE Trace_Penlog ----------------------------
(* Code -> spec for C17: validates recorded sessions of the real writer
   (add_zst_log_handler/_JSONFormatter) + reader (PenlogReader, hr) against
   the contract layer PenlogContract.  The batch holds the written logs once
   (Batch.logs) and one trace per reader session:
     [id, lg (index into logs), open (result), ops (<<[op, res]>>), content]
   One initial state per session; the verdict is total:
     <<"V", id, label, k, how, nUnspecified>>  label = "ok" or the first
   clause broken (k = index of the operation, how = kind of deviation).   *)
EXTENDS PenlogContract, Json, IOUtils

Batch == JsonDeserialize(IOEnv.TRACE_FILE)
T == Batch.traces
L == Batch.logs

VARIABLES tid, verdict
tvars == <<tid, verdict>>

TInit == tid \in 1..Len(T) /\ verdict = "?"
TNext == /\ verdict = "?"
         /\ LET x == T[tid]
                v == SessionVerdict(L[x.lg], x)
            IN /\ verdict' = v[1]
               /\ PrintT(<<"V", x.id, v[1], v[2], v[3], NUnspecified(L[x.lg], x)>>)
         /\ tid' = tid
TSpec == TInit /\ [][TNext]_tvars
=============================================================================
