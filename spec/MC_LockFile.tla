---- MODULE MC_LockFile ----
EXTENDS LockFile
\* lock groups of the runs (cfg files cannot hold tuples): same file | two files | no --lock-file | unusable path
G_1 == <<1>>
G_11 == <<1, 1>>
G_12 == <<1, 2>>
G_10 == <<1, 0>>
G_1b == <<1, -1>>
G_111 == <<1, 1, 1>>
G_112 == <<1, 1, 2>>
G_11b == <<1, 1, -1>>
====
