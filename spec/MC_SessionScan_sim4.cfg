SPECIFICATION Spec
CONSTANTS
  Sessions <- P4
  Graphs <- SimGraphs4
  Depths <- D13
  Skips <- SimSkips4
  Thoroughs <- BothModes
  KeepHist = TRUE
  Dev_M1_DepthOffByOne = FALSE
  Dev_M2_RecoverNeverSet = FALSE
  Dev_M3_VisitedWrongElement = FALSE
  Dev_M4_SkipAfterRequest = FALSE
INVARIANT G1_Result
INVARIANT G3_Skip
INVARIANT Export
CHECK_DEADLOCK FALSE
