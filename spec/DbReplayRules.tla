--------------------------- MODULE DbReplayRules ---------------------------
(* DESIGN LAYER of C12, variable-free part: the rules of the code transcribed
   as operators, shared by the state machine DbReplay.tla (model checking) and
   by Trace_DbReplay.tla (explaining observed replays, DRIFT detection).

   Transcribed from (pinned tree):
     ECU.update_state                      src/gallia/services/uds/ecu.py
     UDSServer.update_state, .respond      src/gallia/services/uds/server.py
     DBUDSServer.respond_after_default     src/gallia/services/uds/server.py

   A deviation record D = [s18, s19, s31 : BOOLEAN] switches the three places
   where the pinned tree deviates from the intended design:
     s18  Dev_S18_ResetOnSilentRow        a row without reply resets the server state
     s19  Dev_S19_ClientTracksSessionRead only the client follows a session read (0xF186)
     s31  Dev_S31_StringPropertyQuoted    a string-valued property is compared in its
                                          JSON spelling ("\"v\"") and never matches
   With all three FALSE the two trackers are the same function and selection
   works for every scalar property value.

   Effects (what a reply means for the trackers), records [k, v]:
     "dsc"   positive DiagnosticSessionControl response, v = session
     "sread" positive ReadDataByIdentifier(0xF186) response, v = reported session
     "key"   positive SecurityAccess response with even type, v = type - 1
     "reset" positive ECUReset response
     "nil"   anything else (negative responses, other services)
*)
EXTENDS Integers, Sequences, FiniteSets, TLC

Default == [session |-> 1, level |-> 0]
Eff(k, v) == [k |-> k, v |-> v]
NilEff == Eff("nil", 0)
NoReply == <<>>

(* ECU.update_state: four independent `if`s on the response class *)
ClientUpd(st, e) ==
  CASE e.k = "dsc"   -> [session |-> e.v, level |-> 0]                 \* reset(); session = type
    [] e.k = "sread" -> IF st.session # e.v THEN [session |-> e.v, level |-> 0] ELSE st
    [] e.k = "key"   -> [st EXCEPT !.level = e.v]
    [] e.k = "reset" -> Default
    [] OTHER         -> st

(* UDSServer.update_state: the same minus the session read (S19) *)
ServerUpd(D, st, e) ==
  CASE e.k = "dsc"   -> [session |-> e.v, level |-> 0]
    [] e.k = "sread" -> IF D.s19 THEN st
                        ELSE IF st.session # e.v THEN [session |-> e.v, level |-> 0] ELSE st
    [] e.k = "key"   -> [st EXCEPT !.level = e.v]
    [] e.k = "reset" -> Default
    [] OTHER         -> st

----------------------------------------------------------------------------
(* Database rows:  [st, req, rsp, eff, ecu, props]
     st    logged client state        req/rsp  request / reply (NoReply = NULL)
     eff   effect of rsp              ecu      name linked to the run's address ("" = none)
     props the run's properties_pre: sequence of [k, t, v] (key, JSON type, spelling)
   The position of a row in the sequence is its id (ids are 1..n, ascending).
   Selector: [ecu |-> "" | name, props |-> sequence of [k, t, v]]. *)

HasProp(ps, p) == \E j \in 1..Len(ps) : ps[j].k = p.k /\ ps[j].t = p.t /\ ps[j].v = p.v
KeyNull(ps, k) == \A j \in 1..Len(ps) : ps[j].k = k => ps[j].t = "null"

(* json_extract(s.properties_pre, '$.k') = ?   /   IS NULL *)
PropMatch(D, ps, p) ==
  IF p.t = "null" THEN KeyNull(ps, p.k)
  ELSE IF p.t = "str" /\ D.s31 THEN FALSE
  ELSE HasProp(ps, p)

Selected(D, sel, row) ==
  /\ sel.ecu = "" \/ row.ecu = sel.ecu
  /\ \A j \in 1..Len(sel.props) : PropMatch(D, row.props, sel.props[j])

Cands(D, rows, sel, st, req) ==
  {i \in 1..Len(rows) : /\ rows[i].req = req
                        /\ rows[i].st.session = st.session /\ rows[i].st.level = st.level
                        /\ Selected(D, sel, rows[i])}

MinId(S) == CHOOSE m \in S : \A n \in S : m <= n

(* next-id-first, then wrap around:  id > cursor ORDER BY id LIMIT 1, else id <= cursor ... *)
Lookup(D, rows, sel, st, req, cursor) ==
  LET c  == Cands(D, rows, sel, st, req)
      hi == {i \in c : i > cursor}
  IN IF hi # {} THEN MinId(hi) ELSE IF c # {} THEN MinId(c) ELSE 0

(* one request served by DBUDSServer: S = [st, cur] -> [st, cur, rep] *)
ServerStep(D, rows, sel, S, req) ==
  LET r == Lookup(D, rows, sel, S.st, req, S.cur) IN
  IF r = 0 THEN [st |-> S.st, cur |-> S.cur, rep |-> NoReply]
  ELSE IF rows[r].rsp = NoReply
       THEN [st |-> IF D.s18 THEN Default ELSE S.st, cur |-> r, rep |-> NoReply]
       ELSE [st |-> ServerUpd(D, S.st, rows[r].eff), cur |-> r, rep |-> rows[r].rsp]

(* the whole replay of a request sequence from a given server state:
   sequence of [ss (state BEFORE the request), rep, cur (cursor AFTER)] *)
RECURSIVE ReplayFrom(_, _, _, _, _, _)
ReplayFrom(D, rows, sel, reqs, k, S) ==
  IF k > Len(reqs) THEN <<>>
  ELSE LET n == ServerStep(D, rows, sel, S, reqs[k]) IN
       <<[ss |-> S.st, rep |-> n.rep, cur |-> n.cur]>>
       \o ReplayFrom(D, rows, sel, reqs, k + 1, [st |-> n.st, cur |-> n.cur])

Fresh == [st |-> Default, cur |-> -1]
Replay(D, rows, sel, reqs) == ReplayFrom(D, rows, sel, reqs, 1, Fresh)

Intended == [s18 |-> FALSE, s19 |-> FALSE, s31 |-> FALSE]
NoSel    == [ecu |-> "", props |-> <<>>]

----------------------------------------------------------------------------
(* Effect of a reply given as bytes (UDSResponse.parse_dynamic + the isinstance
   tests of update_state, written on the wire format of ISO 14229-1):
     50 ss ..        positive DiagnosticSessionControl, session ss
     62 F1 86 vv..   positive ReadDataByIdentifier of ActiveDiagnosticSession
     67 tt ..        positive SecurityAccess; tt even = key accepted, level tt-1
     51 ..           positive ECUReset *)
RECURSIVE BEFrom(_, _, _)
BEFrom(b, k, acc) == IF k > Len(b) THEN acc ELSE BEFrom(b, k + 1, acc * 256 + b[k])
EffBytes(b) ==
  IF Len(b) < 2 THEN NilEff
  ELSE CASE b[1] = 80  -> Eff("dsc", b[2])
         [] b[1] = 98 /\ Len(b) >= 4 /\ b[2] = 241 /\ b[3] = 134
                       -> Eff("sread", IF Len(b) <= 6 THEN BEFrom(b, 4, 0) ELSE -1)
         [] b[1] = 103 -> IF b[2] % 2 = 0 THEN Eff("key", b[2] - 1) ELSE NilEff
         [] b[1] = 81  -> Eff("reset", 0)
         [] OTHER      -> NilEff

(* the deviations in the order in which an observed replay is explained *)
Dv(a, b, c) == [s18 |-> a, s19 |-> b, s31 |-> c]
Devs == << [n |-> "intended",    d |-> Dv(FALSE, FALSE, FALSE)],
           [n |-> "S18",         d |-> Dv(TRUE,  FALSE, FALSE)],
           [n |-> "S19",         d |-> Dv(FALSE, TRUE,  FALSE)],
           [n |-> "S31",         d |-> Dv(FALSE, FALSE, TRUE)],
           [n |-> "S18+S19",     d |-> Dv(TRUE,  TRUE,  FALSE)],
           [n |-> "S18+S31",     d |-> Dv(TRUE,  FALSE, TRUE)],
           [n |-> "S19+S31",     d |-> Dv(FALSE, TRUE,  TRUE)],
           [n |-> "S18+S19+S31", d |-> Dv(TRUE,  TRUE,  TRUE)] >>
=============================================================================
