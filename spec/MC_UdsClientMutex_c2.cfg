SPECIFICATION Spec
CONSTANTS
  Callers = {"c1", "c2"}
  Victim = "c1"
  Dev_ReleaseInPending = FALSE
INVARIANT M_ContractHolds
INVARIANT M2_OwnReplyOrError
INVARIANT M3_LockFreeWhenAllDone
PROPERTY M4_EveryoneFinishes
CHECK_DEADLOCK FALSE
