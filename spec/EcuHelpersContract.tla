------------------------- MODULE EcuHelpersContract -------------------------
(* Growth item X24: the convenience calls of gallia's ECU class and the response-classification helpers mean what
   their documentation says.  Property text: /verif/growth/X24.json.  Code under test: services/uds/ecu.py (ping,
   read_session, read_dtc, clear_dtc, read_vin, properties, set_session_pre / _post, the cyclic tester-present
   worker, ECUState, ECUProperties.to_json), services/uds/helpers.py (raise_for_error, as_exception,
   raise_for_mismatch, suggests_x_not_supported), services/uds/core/exception.py.
   (X01 check_and_set_session, X04 wait_for_ecu, X11 set_session / leave_session / transmit_data / refresh_state,
   X15 power_cycle and C05 the client mutex are other checks.)

   SOURCES of the clauses (nothing else is demanded; where they are silent every outcome is accepted and the
   execution is counted as `unspecified`)
     [D-ping]  ECU.ping docstring: "Send an UDS TesterPresent message.  Returns: UDS response."; return annotation
               NegativeResponse | TesterPresentResponse (a negative response is RETURNED)
     [D-rs]    ECU.read_session docstring: "Read out current session.  Returns: The current session as int.";
               the handlers of its caller check_and_set_session (`except UnexpectedNegativeResponse as e:
               e.RESPONSE_CODE`, `except TimeoutError:` "Reading current session timed out") show how it reports a
               refusal / silence
     [D-dtc]   ECU.read_dtc docstring "Read all dtc records from the ecu.", ECU.clear_dtc "Clear all dtc records on
               the ecu.", ECU.read_vin "Read the VIN of the vehicle"; return annotations NegativeResponse | <positive
               response class of the service>
     [D-hook]  ECU.set_session_pre / set_session_post docstrings: "Returns: True on success, False on error." (the
               base class has no special precondition / cleanup: "Implement this if there are special ...")
     [D-prop]  UDSScannerConfig.properties "Read and store the ECU proporties prior and after scan": the scanner
               stores `properties.to_json(indent=4)`; ECUProperties.to_json comment "Make sure to keep
               'sort_keys=True' when overriding this method!"; ECUPropertiesEncoder (bytes -> hex(), Enum -> value)
     [D-cfg]   UDSRequestConfig comments: "# timeout for this request in sec"; every convenience call takes `config`
               ("Passed on to request_pdu()")
     [D-req]   UDSClient.request docstring: "Pending errors, triggered by the ECU are resolved as well."
     [D-exc]   core/exception.py: class MissingResponse(UDSException, asyncio.TimeoutError); ResponseException carries
               `request` and `response`; RequestResponseMismatch / MalformedResponse are IllegalResponse; the comment
               "Auto-generated ... for ec in UDSErrorCodes: class <Name>(UnexpectedNegativeResponse, response_code=ec)"
               (one exception class per NRC, RESPONSE_CODE = the NRC); helpers.parse_pdu comment "RequestResponseMismatch
               takes priority over MalformedResponse"
     [D-hlp]   helpers.raise_for_error / as_exception: ValueError("The response has not been assigned a trigger
               request"); raise_for_mismatch: `if not response.matches(request): raise RequestResponseMismatch`
     [D-tp]    UDSScanner docstring "A background tasks sends TesterPresent regularly to avoid timeouts.";
               UDSScannerConfig: "Enable/Disable tester present background worker", "Modify the interval of the
               cyclic tester present packets"; log records "Starting tester present worker", "Stopping tester present
               worker", "BUG: stop_cyclic_tester_present() called but no task running" (+ plain return),
               "connection lost; tester present waiting…", "Tester present worker got {e!r}" (the worker goes on);
               the comment in start_cyclic_tester_present ("this ensures, that the task is executed at least once; if
               the task is not executed, task.cancel will fail"): start immediately followed by stop has to work;
               wait_for_ecu: `if self.tester_present_task and self.tester_present_interval: stop ... finally: start`
               (a RUNNING worker is paused while waiting and restarted afterwards)
     [ISO]     ISO 14229-1: TesterPresent request 3E 00 (zeroSubFunction, response required), positive response 7E 00;
               ReadDataByIdentifier 22 <DID>, response 62 <DID> <record, at least one byte>; DID 0xF186
               ActiveDiagnosticSession (one byte), DID 0xF190 VIN; ReadDTCInformation 19 02 <mask> reportDTCByStatusMask,
               mask 0xFF = every status bit, response 59 02 <availability mask> (<DTC 3 bytes> <status>)*;
               ClearDiagnosticInformation 14 <groupOfDTC 3 bytes>, 0xFFFFFF = all groups, response 54;
               negative response 7F <request SID> <NRC>; NRC 0x78 = the final response follows; table of NRCs (Annex A);
               NRC semantics: 0x11 / 0x7F the SERVICE is not supported (in the active session), 0x12 / 0x7E the
               SUB-FUNCTION is not supported (the service is), 0x31 requestOutOfRange is the answer for an unsupported
               data / routine identifier (service and sub-function are supported), 0x10 generalReject is only used
               when no other NRC fits, every other NRC is raised AFTER the support checks (general server response
               behaviour, figures 5 / 6): it does not suggest "not supported"; a server that does not support a service
               supports none of its sub-functions / identifiers; none of the services above changes session or
               security state; power-on / reset state = default session (0x01), locked

   EVENTS of one execution (JSON list; first Start, last Ret / End; bytes are sequences of 0..255; absent = -1)
     kind "call"  [Start, kind, m, s0, sec0, tmo, cfg]  [Req, b]  [Ans, b]  [Ret, how, neg, b, rc, v, x, sess, sec, dur]
     kind "sugg"  [Start, kind]  [Sugg, fn, form, nrc, out]  [End]
     kind "exc"   [Start, kind]  [Exc, fn, pos, nrc, trig, msg, out, x, reqb, respb]  [End]
     kind "cls"   [Start, kind]  [Cls, nrc, known, name, rc]*  [End]
     kind "mm"    [Start, kind]  [Mm, m, respb, out, x]  [End]
     kind "state" [Start, kind]  [St, op, s, sec, s2, sec2]  [End]
     kind "json"  [Start, kind]  [Js, valid, okeys, fields, dec]  [End]
     kind "life"  [Start, kind, tmo]  ([Env, mode, t] | [Op, op, i, ret, t0, t1] | [Bg, t] | [Obs, t0, t1])*  [Ret]
   x (an exception, projected): [unr, rexc, illegal, mismatch, udsx, tmo, valerr, rc, hasreq, req, hasresp, resp, hasmsg]

   CLAUSES
   convenience calls (m = ping / read_session / read_dtc / clear_dtc / read_vin)
     CW/request-bytes        every request on the wire is the ISO request of the call; at least one is sent [ISO, D-*]
     CR/positive-returned    positive answer: the call returns a non-negative response with the bytes the ECU sent
     CR/negative-returned    negative answer (7F sid nrc): ping / read_dtc / clear_dtc / read_vin RETURN it [D-ping, D-dtc]
     CS/session-value        read_session returns the reported session as int [D-rs, ISO F186]
     CS/negative-raises      read_session raises the UnexpectedNegativeResponse class of that NRC [D-rs, D-exc]
     (answers 7F sid 78 before the final one do not change any of this [D-req, ISO])
     CM/missing-response     no answer: a UDSException that is a TimeoutError, carrying the request [D-exc, D-rs]
     CX/mismatch-raises      an answer of another service: RequestResponseMismatch [D-exc]
     CX/illegal-raises       an answer of the right service that is shorter than ISO's minimum / echoes another
                             sub-function: an IllegalResponse (mismatch or malformed) [D-exc]
     CE/exception-carries    these exceptions carry the request sent and the response received [D-exc]
     CB/state-bookkeeping    afterwards the tracked session is the reported one (read_session, positive) and otherwise
                             session and security level are unchanged [ISO]; unspecified after an illegal answer
     CT/config-timeout       silence is given up after the timeout of `config` when one is passed, else the client's [D-cfg]
     CH/hook-true            the base class hooks report success [D-hook]
     CQ/properties-object    properties() returns an ECUProperties whose to_json() is a JSON object [D-prop]
   helpers
     HS/*                    suggests_service / sub_function / identifier_not_supported [ISO NRC semantics]
     HE/positive-passes, HE/no-trigger-request, HE/returns-not-raises, HE/class-per-nrc, HE/carries-request-response,
     HE/message, HE/one-class-per-nrc        raise_for_error, as_exception, parse_dynamic [D-hlp, D-exc]
     HM/genuine-passes, HM/mismatch-raises   raise_for_mismatch [D-hlp, ISO]
   state / properties
     ST/reset-default-locked, ST/json-round-trip [ISO; the state dict is what the database stores]
     PJ/valid-json, PJ/keys, PJ/bytes-hex, PJ/enum-value, PJ/plain-value, PJ/sorted-keys [D-prop]
   cyclic tester present (user's view: `enabled` after start returned, disabled after stop returned; B = interval +
   2 * request timeout + 100 ms)
     TP1/stop-returns        stop returns normally, with or without a running worker [D-tp "BUG: ..." + return]
     TP2/start-returns       start returns normally, also when a worker is running
     TP3/stopped-means-silent  no background TesterPresent while disabled (before the first start, after a stop -
                             whatever was called in between, wait_for_ecu included) [D-tp]
     TP4/worker-alive        while enabled there is never a gap longer than B without a background TesterPresent
                             (outside of wait_for_ecu, which pauses the worker), whatever the ECU answers: positive,
                             negative, nothing, connection errors [D-tp handlers]
     TP5/interval            consecutive background TesterPresent requests are at least `interval` apart [D-tp]
     TP6/client-usable       a request issued after start / stop / stop-in-flight is served (never blocked for good)
     TP7/wait-returns        wait_for_ecu returns (X04 judges its value)
*)
EXTENDS Integers, Sequences, FiniteSets, TLC

IsoNrc == {16, 17, 18, 19, 20, 33, 34, 36, 37, 38, 49} \cup (51..58) \cup (80..93) \cup (112..115) \cup {120, 126, 127}
          \cup (129..141) \cup (143..148) \cup (240..254)

WireMethods == {"ping", "read_session", "read_dtc", "clear_dtc", "read_vin"}
HookMethods == {"pre", "post"}
Wire(m) == CASE m = "ping" -> <<62, 0>>
             [] m = "read_session" -> <<34, 241, 134>>
             [] m = "read_dtc" -> <<25, 2, 255>>
             [] m = "clear_dtc" -> <<20, 255, 255, 255>>
             [] m = "read_vin" -> <<34, 241, 144>>
             [] OTHER -> <<>>

RECURSIVE DistinctDtcs(_, _)
DistinctDtcs(b, i) ==   \* the DTC numbers of a 59 02 answer from offset i on are pairwise different
  IF i + 3 > Len(b) THEN TRUE
  ELSE /\ \A j \in {k \in (i + 4)..Len(b) : (k - i) % 4 = 0 /\ k + 2 <= Len(b)} :
             <<b[i], b[i + 1], b[i + 2]>> # <<b[j], b[j + 1], b[j + 2]>>
       /\ DistinctDtcs(b, i + 4)

(* What an answer IS for the request of call m, by ISO 14229-1 alone:
   silent | pend | neg | pos | mism (another service) | illegal (right service, impossible) | unspec *)
Class(m, b) ==
  LET sid == Wire(m)[1] IN
  IF Len(b) = 0 THEN "silent"
  ELSE IF b[1] = 127 THEN
         IF Len(b) >= 2 /\ b[2] # sid THEN "mism"
         ELSE IF Len(b) = 3 THEN (IF b[3] = 120 THEN "pend"
                                  ELSE IF b[3] = 33 THEN "unspec"      \* busyRepeatRequest: the retry loop is C04's
                                  ELSE IF b[3] \in IsoNrc THEN "neg" ELSE "unspec")
         ELSE "unspec"
  ELSE IF b[1] # sid + 64 THEN "mism"
  ELSE CASE m = "ping" -> IF Len(b) = 1 THEN "illegal" ELSE IF b = <<126, 0>> THEN "pos" ELSE "unspec"
         [] m = "read_session" -> IF Len(b) < 4 THEN "illegal"
                                  ELSE IF <<b[2], b[3]>> # <<241, 134>> THEN "illegal"
                                  ELSE IF Len(b) = 4 THEN "pos" ELSE "unspec"
         [] m = "read_vin" -> IF Len(b) < 4 THEN "illegal"
                              ELSE IF <<b[2], b[3]>> # <<241, 144>> THEN "illegal" ELSE "pos"
         [] m = "read_dtc" -> IF Len(b) < 3 THEN "illegal"
                              ELSE IF b[2] # 2 THEN "illegal"
                              ELSE IF (Len(b) - 3) % 4 # 0 THEN "illegal"
                              ELSE IF DistinctDtcs(b, 4) THEN "pos" ELSE "unspec"
         [] m = "clear_dtc" -> IF Len(b) = 1 THEN "pos" ELSE "unspec"
         [] OTHER -> "unspec"

X0 == [unr |-> FALSE, rexc |-> FALSE, illegal |-> FALSE, mismatch |-> FALSE, udsx |-> FALSE, tmo |-> FALSE,
       valerr |-> FALSE, rc |-> -1, hasreq |-> FALSE, req |-> <<>>, hasresp |-> FALSE, resp |-> <<>>, hasmsg |-> FALSE]

M0 == [fail |-> "ok", kind |-> "none", c |-> [e |-> "none"], done |-> FALSE, unspec |-> 0,
       reqs |-> <<>>, anss |-> <<>>, names |-> <<>>, seen |-> {}, n |-> 0,
       en |-> FALSE, ival |-> 0, ref |-> -1, lastbg |-> -1, mode |-> "answer"]

Fail(m, l) == IF m.fail = "ok" THEN [m EXCEPT !.fail = l] ELSE m
FirstOf(m, checks) ==   \* checks: sequence of <<condition that must hold, label>>
  LET bad == {i \in 1..Len(checks) : ~checks[i][1]} IN
  IF bad = {} THEN m ELSE Fail(m, checks[CHOOSE i \in bad : \A j \in bad : i <= j][2])

---------------------------------------------------------------------------
(* convenience calls *)
Carries(x, req, resp) == x.hasreq /\ x.req = req /\ x.hasresp /\ x.resp = resp

CallRet(m, r) ==
  LET c == m.c
      meth == c.m
      m1 == [m EXCEPT !.done = TRUE]
  IN
  IF r.how = "hang" THEN Fail(m1, "CR/return-kind")
  ELSE IF meth \in HookMethods THEN
    FirstOf(m1, << <<r.how = "bool" /\ r.v = 1, "CH/hook-true">>,
                   <<r.sess = c.s0 /\ r.sec = c.sec0, "CB/state-bookkeeping">> >>)
  ELSE IF meth = "properties" THEN
    FirstOf(m1, << <<r.how = "props" /\ r.v = 1, "CQ/properties-object">>,
                   <<r.sess = c.s0 /\ r.sec = c.sec0, "CB/state-bookkeeping">> >>)
  ELSE IF meth \notin WireMethods THEN Fail(m1, "trace/unknown-method")
  ELSE
    LET w == Wire(meth)
        wireOk == Len(m.reqs) >= 1 /\ \A i \in 1..Len(m.reqs) : m.reqs[i] = w
        simple == /\ Len(m.reqs) = 1 /\ Len(m.anss) >= 1
                  /\ \A i \in 1..(Len(m.anss) - 1) : Class(meth, m.anss[i]) \in {"pend", "silent"}
        \* after a 78 the client keeps listening: silence in between is not final; a leading silence is
        last == m.anss[Len(m.anss)]
        cl == IF ~simple THEN "unspec"
              ELSE IF Len(m.anss) > 1 /\ Class(meth, m.anss[1]) # "pend" THEN "unspec"
              ELSE Class(meth, last)
        same == r.sess = c.s0 /\ r.sec = c.sec0
        eff == IF c.cfg >= 0 THEN c.cfg ELSE c.tmo
    IN
    IF ~wireOk THEN Fail(m1, "CW/request-bytes")
    ELSE CASE cl = "pos" ->
           IF meth = "read_session" THEN
             FirstOf(m1, << <<r.how = "int" /\ r.v = last[4], "CS/session-value">>,
                            <<r.sess = last[4] /\ (last[4] = c.s0 => r.sec = c.sec0), "CB/state-bookkeeping">> >>)
           ELSE
             FirstOf(m1, << <<r.how = "resp" /\ ~r.neg /\ r.b = last, "CR/positive-returned">>,
                            <<same, "CB/state-bookkeeping">> >>)
         [] cl = "neg" ->
           IF meth = "read_session" THEN
             FirstOf(m1, << <<r.how = "raise" /\ r.x.unr /\ r.x.rexc /\ r.x.udsx /\ r.x.rc = last[3] /\ ~r.x.tmo,
                              "CS/negative-raises">>,
                            <<Carries(r.x, w, last), "CE/exception-carries">>,
                            <<same, "CB/state-bookkeeping">> >>)
           ELSE
             FirstOf(m1, << <<r.how = "resp" /\ r.neg /\ r.rc = last[3] /\ r.b = last, "CR/negative-returned">>,
                            <<same, "CB/state-bookkeeping">> >>)
         [] cl = "silent" ->
           FirstOf(m1, << <<r.how = "raise" /\ r.x.udsx /\ r.x.tmo /\ ~r.x.rexc, "CM/missing-response">>,
                          <<r.x.hasreq /\ r.x.req = w, "CE/exception-carries">>,
                          <<same, "CB/state-bookkeeping">>,
                          <<Len(m.anss) > 1 \/ (r.dur >= eff /\ (c.cfg >= 0 /\ c.cfg < c.tmo => r.dur < c.tmo)),
                            "CT/config-timeout">> >>)
         [] cl = "mism" ->
           FirstOf(m1, << <<r.how = "raise" /\ r.x.mismatch /\ r.x.illegal /\ r.x.rexc /\ r.x.udsx, "CX/mismatch-raises">>,
                          <<Carries(r.x, w, last), "CE/exception-carries">> >>)
         [] cl = "illegal" ->
           FirstOf(m1, << <<r.how = "raise" /\ r.x.illegal /\ r.x.rexc /\ r.x.udsx, "CX/illegal-raises">>,
                          <<Carries(r.x, w, last), "CE/exception-carries">> >>)
         [] OTHER -> [m1 EXCEPT !.unspec = 1]

---------------------------------------------------------------------------
(* helpers *)
MustTrue(fn) == CASE fn = "service" -> {17, 127}
                  [] fn = "subfunc" -> {17, 127, 18, 126}
                  [] fn = "ident" -> {17, 127, 49}
                  [] OTHER -> {}
Free(fn) == CASE fn = "subfunc" -> {49}           \* requestOutOfRange to a sub-function service: parameter or sub-function?
              [] fn = "ident" -> {18, 126}        \* RoutineControl has both a sub-function and an identifier
              [] OTHER -> {}

SuggStep(m, e) ==
  LET lab == "HS/" \o (CASE e.fn = "service" -> "service-not-supported" [] e.fn = "subfunc" -> "sub-function-not-supported"
                         [] OTHER -> "identifier-not-supported") IN
  IF e.fn \notin {"service", "subfunc", "ident"} THEN Fail(m, "trace/unknown-helper")
  ELSE IF e.form = "pos" THEN (IF e.out = "false" THEN m ELSE Fail(m, "HS/positive-response"))
  ELSE IF e.nrc \notin IsoNrc THEN [m EXCEPT !.unspec = 1]
  ELSE IF e.nrc \in MustTrue(e.fn) THEN (IF e.out = "true" THEN m ELSE Fail(m, lab))
  ELSE IF e.nrc \in Free(e.fn) THEN (IF e.out \in {"true", "false"} THEN [m EXCEPT !.unspec = 1] ELSE Fail(m, lab))
  ELSE (IF e.out = "false" THEN m ELSE Fail(m, lab))

XUnrChecks(e) ==
  << <<e.x.unr /\ e.x.rexc /\ e.x.udsx /\ ~e.x.tmo /\ e.x.rc = e.nrc, "HE/class-per-nrc">>,
     <<Carries(e.x, e.reqb, e.respb), "HE/carries-request-response">>,
     <<e.msg => e.x.hasmsg, "HE/message">> >>

ExcStep(m, e) ==
  IF e.fn = "raise_for_error" THEN
    IF e.pos THEN (IF e.out = "none" THEN m ELSE Fail(m, "HE/positive-passes"))
    ELSE IF ~e.trig THEN (IF e.out = "raise" /\ e.x.valerr THEN m ELSE Fail(m, "HE/no-trigger-request"))
    ELSE IF e.nrc \notin IsoNrc THEN [m EXCEPT !.unspec = 1]
    ELSE FirstOf(m, << <<e.out = "raise", "HE/negative-raises">> >> \o XUnrChecks(e))
  ELSE IF e.fn = "as_exception" THEN
    IF e.pos THEN [m EXCEPT !.unspec = 1]
    ELSE IF ~e.trig THEN (IF e.out = "raise" /\ e.x.valerr THEN m ELSE Fail(m, "HE/no-trigger-request"))
    ELSE IF e.nrc \notin IsoNrc THEN [m EXCEPT !.unspec = 1]
    ELSE FirstOf(m, << <<e.out = "ret", "HE/returns-not-raises">> >> \o XUnrChecks(e))
  ELSE IF e.fn = "parse_dynamic" THEN
    IF e.pos \/ e.nrc \notin IsoNrc THEN [m EXCEPT !.unspec = 1]
    ELSE FirstOf(m, << <<e.out = "ret", "HE/returns-not-raises">> >> \o XUnrChecks(e))
  ELSE Fail(m, "trace/unknown-helper")

ClsStep(m, e) == [m EXCEPT !.names = Append(@, e)]
ClsEnd(m) ==
  LET ok == {i \in 1..Len(m.names) : m.names[i].known /\ m.names[i].name # ""} IN
  FirstOf([m EXCEPT !.done = TRUE],
          << <<\A c \in IsoNrc : \E i \in ok : m.names[i].nrc = c /\ m.names[i].rc = c, "HE/class-per-nrc">>,
             <<\A i \in ok : \A j \in ok : (i # j /\ m.names[i].nrc # m.names[j].nrc) => m.names[i].name # m.names[j].name,
               "HE/one-class-per-nrc">> >>)

MmStep(m, e) ==
  IF e.m \notin WireMethods THEN Fail(m, "trace/unknown-method")
  ELSE LET cl == Class(e.m, e.respb) IN
       IF cl \in {"pos", "neg", "pend"} THEN (IF e.out = "none" THEN m ELSE Fail(m, "HM/genuine-passes"))
       ELSE IF cl = "mism" THEN
         FirstOf(m, << <<e.out = "raise" /\ e.x.mismatch /\ e.x.rexc, "HM/mismatch-raises">>,
                       <<Carries(e.x, Wire(e.m), e.respb), "HE/carries-request-response">> >>)
       ELSE [m EXCEPT !.unspec = 1]

StStep(m, e) ==
  IF e.op \in {"new", "reset"} THEN (IF e.s2 = 1 /\ e.sec2 = -1 THEN m ELSE Fail(m, "ST/reset-default-locked"))
  ELSE IF e.op = "json" THEN (IF e.s2 = e.s /\ e.sec2 = e.sec THEN m ELSE Fail(m, "ST/json-round-trip"))
  ELSE Fail(m, "trace/unknown-state-op")

---------------------------------------------------------------------------
(* ECUProperties.to_json *)
HexL == <<"0", "1", "2", "3", "4", "5", "6", "7", "8", "9", "a", "b", "c", "d", "e", "f">>
HexU == <<"0", "1", "2", "3", "4", "5", "6", "7", "8", "9", "A", "B", "C", "D", "E", "F">>
RECURSIVE HexOf(_, _)
HexOf(b, tab) == IF Len(b) = 0 THEN "" ELSE tab[(b[1] \div 16) + 1] \o tab[(b[1] % 16) + 1] \o HexOf(Tail(b), tab)
IsHex(s, b) == s = HexOf(b, HexL) \/ s = HexOf(b, HexU)

RECURSIVE LexLE(_, _)
LexLE(a, b) == IF Len(a) = 0 THEN TRUE ELSE IF Len(b) = 0 THEN FALSE
               ELSE IF a[1] < b[1] THEN TRUE ELSE IF a[1] > b[1] THEN FALSE ELSE LexLE(Tail(a), Tail(b))

JsStep(m, e) ==
  LET F == e.fields  D == e.dec
      dk == {D[i].k : i \in 1..Len(D)}
      fk == {F[i].k : i \in 1..Len(F)}
      Dec(k) == D[CHOOSE i \in 1..Len(D) : D[i].k = k]
      okv(f) == LET d == Dec(f.k) IN
                CASE f.t = "bytes" -> d.t = "str" /\ IsHex(d.s, f.b)
                  [] f.t = "lbytes" -> d.t = "lstr" /\ Len(d.ls) = Len(f.l) /\ \A j \in 1..Len(f.l) : IsHex(d.ls[j], f.l[j])
                  [] f.t \in {"int", "enumi"} -> d.t = "int" /\ d.i = f.i
                  [] f.t \in {"str", "enums"} -> d.t = "str" /\ d.s = f.s
                  [] f.t = "none" -> d.t = "null"
                  [] OTHER -> TRUE
      kindOk(ts) == \A i \in 1..Len(F) : F[i].t \in ts => okv(F[i])
  IN
  IF ~e.valid THEN Fail(m, "PJ/valid-json")
  ELSE FirstOf(m, << <<dk = fk /\ Len(D) = Len(F), "PJ/keys">>,
                     <<dk # fk \/ kindOk({"bytes", "lbytes"}), "PJ/bytes-hex">>,
                     <<dk # fk \/ kindOk({"enumi", "enums"}), "PJ/enum-value">>,
                     <<dk # fk \/ kindOk({"int", "str", "none"}), "PJ/plain-value">>,
                     <<\A i \in 1..(Len(e.okeys) - 1) : LexLE(e.okeys[i], e.okeys[i + 1]), "PJ/sorted-keys">> >>)

---------------------------------------------------------------------------
(* cyclic tester present *)
Slack == 100
Bound(m) == m.ival + 2 * m.c.tmo + Slack
GapOk(m, t) == ~m.en \/ m.ref < 0 \/ t - m.ref <= Bound(m)

OpStep(m, e) ==
  LET m0 == IF e.op = "wait" \/ GapOk(m, e.t0) THEN m ELSE Fail(m, "TP4/worker-alive") IN
  CASE e.op = "start" ->
         LET m1 == [m0 EXCEPT !.en = TRUE, !.ival = e.i, !.ref = e.t1, !.lastbg = -1] IN
         IF e.ret = "ok" THEN m1 ELSE Fail(m1, "TP2/start-returns")
    [] e.op = "stop" ->
         LET m1 == [m0 EXCEPT !.en = FALSE, !.ref = -1, !.lastbg = -1] IN
         IF e.ret = "ok" THEN m1 ELSE Fail(m1, "TP1/stop-returns")
    [] e.op = "wait" ->
         LET m1 == IF m0.en THEN [m0 EXCEPT !.ref = e.t1, !.lastbg = -1] ELSE m0 IN
         IF e.ret \in {"true", "false"} THEN m1 ELSE Fail(m1, "TP7/wait-returns")
    [] e.op = "fg" ->
         IF e.ret = "hang" \/ (m.mode = "answer" /\ e.ret # "resp") THEN Fail(m0, "TP6/client-usable") ELSE m0
    [] OTHER -> m0

BgStep(m, e) ==
  IF ~m.en THEN Fail(m, "TP3/stopped-means-silent")
  ELSE LET m1 == [m EXCEPT !.ref = e.t, !.lastbg = e.t, !.n = @ + 1] IN
       FirstOf(m1, << <<GapOk(m, e.t), "TP4/worker-alive">>,
                      <<m.lastbg < 0 \/ e.t - m.lastbg >= m.ival - 1, "TP5/interval">> >>)

LifeStep(m, e) ==
  CASE e.e = "Env" -> [m EXCEPT !.mode = e.mode]
    [] e.e = "Bg" -> BgStep(m, e)
    [] e.e = "Obs" -> (IF GapOk(m, e.t1) THEN m ELSE Fail(m, "TP4/worker-alive"))
    [] e.e = "Op" -> OpStep(m, e)
    [] e.e = "Ret" -> [m EXCEPT !.done = TRUE]
    [] OTHER -> Fail(m, "trace/unknown-event")

---------------------------------------------------------------------------
Kinds == {"call", "sugg", "exc", "cls", "mm", "state", "json", "life"}

Step(m, e) ==
  IF m.fail # "ok" THEN m
  ELSE IF m.done THEN Fail(m, "trace/event-after-end")
  ELSE IF e.e = "Start" THEN
    IF m.kind # "none" THEN Fail(m, "trace/second-start")
    ELSE IF e.kind \notin Kinds THEN Fail(m, "trace/unknown-kind")
    ELSE [m EXCEPT !.kind = e.kind, !.c = e]
  ELSE IF m.kind = "none" THEN Fail(m, "trace/no-start")
  ELSE IF m.kind = "life" THEN LifeStep(m, e)
  ELSE IF e.e = "End" THEN (IF m.kind = "cls" THEN ClsEnd(m)
                            ELSE IF m.n = 0 THEN Fail(m, "trace/empty") ELSE [m EXCEPT !.done = TRUE])
  ELSE IF m.kind = "call" THEN
    (CASE e.e = "Req" -> [m EXCEPT !.reqs = Append(@, e.b)]
       [] e.e = "Ans" -> [m EXCEPT !.anss = Append(@, e.b)]
       [] e.e = "Ret" -> CallRet(m, e)
       [] OTHER -> Fail(m, "trace/unknown-event"))
  ELSE LET m1 == [m EXCEPT !.n = @ + 1] IN
    CASE m.kind = "sugg" /\ e.e = "Sugg" -> SuggStep(m1, e)
      [] m.kind = "exc" /\ e.e = "Exc" -> ExcStep(m1, e)
      [] m.kind = "cls" /\ e.e = "Cls" -> ClsStep(m1, e)
      [] m.kind = "mm" /\ e.e = "Mm" -> MmStep(m1, e)
      [] m.kind = "state" /\ e.e = "St" -> StStep(m1, e)
      [] m.kind = "json" /\ e.e = "Js" -> JsStep(m1, e)
      [] OTHER -> Fail(m, "trace/unknown-event")

Final(m) == IF m.fail # "ok" THEN m.fail ELSE IF ~m.done THEN "trace/no-return" ELSE "ok"
=============================================================================
