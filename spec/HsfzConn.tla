------------------------------ MODULE HsfzConn ------------------------------
(* Design layer of C07: one HSFZConnection as gallia implements it
   (gallia/transports/hsfz.py), frame level, one action per await point.

     reader task  takes frames off the stream; answers alive checks at once
                  (no mutex); queues Ack/Data frames (short ones are dropped) and
                  every other control word as a bare word
     write        take the mutex; send; scan the queue for the matching Ack
                  (skipped frames are handed back); a control word closes the
                  connection and fails the operation
     read         scan the queue for a Data frame addressed ECU -> tester
   Timers: maximal progress (a timeout fires only when nothing else can run).

   Dev_S13_RequeueAtTail reproduces the pinned tree (skipped frames appended
   behind newer ones); kept as negative control.
*)
EXTENDS Naturals, Sequences, FiniteSets, TLC

CONSTANTS MaxFrames, Script, Dev_S13_RequeueAtTail

VARIABLES inbuf, nsent, ndata, rq, unread, cpc, ip, unexp, out, delivered, closed, late, ackMissed, results

vars == <<inbuf, nsent, ndata, rq, unread, cpc, ip, unexp, out, delivered, closed, late, ackMissed, results>>

Frames == {<<"ack">>, <<"ackOther">>, <<"dataOther">>, <<"alive">>, <<"err">>, <<"short">>}
IsData(f) == Len(f) = 2 /\ f[1] = "data"

Init ==
  /\ inbuf = <<>> /\ nsent = 0 /\ ndata = 0 /\ rq = <<>> /\ unread = <<>>
  /\ cpc = "idle" /\ ip = 1 /\ unexp = <<>> /\ out = <<>> /\ delivered = <<>>
  /\ closed = FALSE /\ late = FALSE /\ ackMissed = FALSE /\ results = <<>>

Avail     == unread # <<>> \/ rq # <<>>
NextFrame == IF unread # <<>> THEN Head(unread) ELSE Head(rq)
Pop       == IF unread # <<>> THEN unread' = Tail(unread) /\ UNCHANGED rq
             ELSE rq' = Tail(rq) /\ UNCHANGED unread
PopAndRequeue(u) ==
  IF Dev_S13_RequeueAtTail THEN unread' = unread /\ rq' = Tail(rq) \o u
  ELSE IF unread # <<>> THEN unread' = u \o Tail(unread) /\ UNCHANGED rq
       ELSE unread' = u /\ rq' = Tail(rq)
Requeue(u) == IF Dev_S13_RequeueAtTail THEN rq' = rq \o u /\ UNCHANGED unread
              ELSE unread' = u \o unread /\ UNCHANGED rq

Finish(r) == /\ results' = Append(results, r)
             /\ ip' = ip + 1
             /\ cpc' = IF ip + 1 > Len(Script) THEN "done" ELSE "idle"

GwSend(f) ==
  /\ nsent < MaxFrames /\ ~closed /\ cpc # "done"
  /\ nsent' = nsent + 1 /\ inbuf' = Append(inbuf, f)
  /\ ndata' = IF IsData(f) THEN ndata + 1 ELSE ndata
  /\ UNCHANGED <<rq, unread, cpc, ip, unexp, out, delivered, closed, late, ackMissed, results>>

ReaderTake ==
  /\ inbuf # <<>> /\ ~closed
  /\ inbuf' = Tail(inbuf)
  /\ LET f == Head(inbuf) IN
     IF f = <<"alive">> THEN out' = Append(out, "aliveResp") /\ UNCHANGED rq
     ELSE IF f = <<"short">> THEN UNCHANGED <<rq, out>>
     ELSE rq' = Append(rq, f) /\ UNCHANGED out
  /\ UNCHANGED <<nsent, ndata, unread, cpc, ip, unexp, delivered, closed, late, ackMissed, results>>

WStart ==
  /\ cpc = "idle" /\ Script[ip] = "write"
  /\ IF closed   \* read_frame() raises at once on a closed connection
     THEN Finish("connerr") /\ UNCHANGED <<out, unexp>>
     ELSE out' = Append(out, "data") /\ cpc' = "wAck" /\ unexp' = <<>> /\ UNCHANGED <<ip, results>>
  /\ UNCHANGED <<inbuf, nsent, ndata, rq, unread, delivered, closed, late, ackMissed>>

\* shared by the ack wait and the read loop: a bare control word ends the operation
ErrWord == /\ closed' = TRUE /\ Pop /\ unexp' = <<>> /\ Finish("connerr")

AckStep ==
  /\ cpc = "wAck" /\ Avail /\ ~closed
  /\ LET f == NextFrame IN
     IF f = <<"err">> THEN ErrWord
     ELSE IF f = <<"ack">>
     THEN PopAndRequeue(unexp) /\ unexp' = <<>> /\ Finish("ok") /\ UNCHANGED closed
     ELSE Pop /\ unexp' = Append(unexp, f) /\ UNCHANGED <<cpc, ip, results, closed>>
  /\ UNCHANGED <<inbuf, nsent, ndata, out, delivered, late, ackMissed>>

RStart ==
  /\ cpc = "idle" /\ Script[ip] = "read"
  /\ IF closed THEN Finish("connerr") /\ UNCHANGED unexp
     ELSE cpc' = "rWait" /\ unexp' = <<>> /\ UNCHANGED <<ip, results>>
  /\ UNCHANGED <<inbuf, nsent, ndata, rq, unread, out, delivered, closed, late, ackMissed>>

RGot ==
  /\ cpc = "rWait" /\ Avail /\ ~closed
  /\ LET f == NextFrame IN
     IF f = <<"err">> THEN ErrWord /\ UNCHANGED delivered
     ELSE IF IsData(f)
     THEN /\ PopAndRequeue(unexp) /\ unexp' = <<>>
          /\ delivered' = Append(delivered, f[2]) /\ Finish("ok") /\ UNCHANGED closed
     ELSE Pop /\ unexp' = Append(unexp, f) /\ UNCHANGED <<cpc, ip, results, closed, delivered>>
  /\ UNCHANGED <<inbuf, nsent, ndata, out, late, ackMissed>>

InternalEnabled ==
  \/ (inbuf # <<>> /\ ~closed)
  \/ cpc = "idle"
  \/ (cpc \in {"wAck", "rWait"} /\ Avail /\ ~closed)

AliveUnanswered == \E i \in 1..Len(inbuf) : inbuf[i] = <<"alive">>
AckPresent == \E s \in {inbuf, rq, unread, unexp} : \E i \in 1..Len(s) : s[i] = <<"ack">>

AckTimeout ==
  /\ cpc = "wAck" /\ ~InternalEnabled
  /\ closed' = TRUE /\ Requeue(unexp) /\ unexp' = <<>> /\ Finish("brokenpipe")
  /\ late' = (late \/ AliveUnanswered)
  /\ ackMissed' = (ackMissed \/ AckPresent)
  /\ UNCHANGED <<inbuf, nsent, ndata, out, delivered>>

RTimeout ==
  /\ cpc = "rWait" /\ ~InternalEnabled
  /\ Requeue(unexp) /\ unexp' = <<>> /\ Finish("timeout")
  /\ late' = (late \/ AliveUnanswered)
  /\ UNCHANGED <<inbuf, nsent, ndata, out, delivered, closed, ackMissed>>

Internal == ReaderTake \/ WStart \/ AckStep \/ RStart \/ RGot \/ AckTimeout \/ RTimeout
Next == (\E f \in Frames : GwSend(f)) \/ GwSend(<<"data", ndata + 1>>) \/ Internal
Spec == Init /\ [][Next]_vars /\ WF_vars(Internal)

InSeq(s, x) == \E i \in 1..Len(s) : s[i] = x
H1_InOrder == \A i \in 1..Len(delivered) : delivered[i] = i
H5_NothingLost ==
  ~closed => \A i \in 1..ndata :
      i <= Len(delivered) \/ \E s \in {inbuf, rq, unread, unexp} : InSeq(s, <<"data", i>>)
H2_AckedWritesSucceed == ~ackMissed
H3_AliveNotStalled == ~late
\* H4: a control word taken by a consumer closes the connection (by construction of ErrWord) and
\* every later operation fails
H4_ErrCloses == \A i \in 1..Len(results) : (results[i] = "connerr" /\ i < Len(results)) => results[i+1] # "ok"
Terminates == <>(cpc = "done")
=============================================================================
