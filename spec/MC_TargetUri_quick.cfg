SPECIFICATION Spec
CONSTANTS
  Subs <- Q_Subs
  Notas = {"scanner", "dec", "hex", "oct", "bin", "mixed"}
  Subs2 <- NoSubs
  Notas2 = {}
  HostClasses <- MCHostClasses
  HostOf <- MCHostOf
  Export = TRUE
  Dev_S27_Ipv6JoinLiteral = FALSE
  Dev_S28_PortZero = FALSE
  Dev_N1_Ipv6NoPortUnbracketed = FALSE
INVARIANT TypeOK
INVARIANT U0_RoundTripTotal
INVARIANT U1_Scheme
INVARIANT U2_Host
INVARIANT U3_Port
INVARIANT U4_Params
INVARIANT U5_Location
INVARIANT T_Config
INVARIANT H1_JoinSplit
INVARIANT H2_Split
CHECK_DEADLOCK FALSE
