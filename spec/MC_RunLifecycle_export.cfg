INIT ExportInit
NEXT ExportNext
CONSTANTS
  Cases <- MCCases
  Export = FALSE
  Dev_S21_HookUnbound = FALSE
  Dev_S22_DbClosedBeforeMeta = FALSE
  Dev_S23_SigintMetaZero = FALSE
  Dev_S23b_DbOpenBeforeTry = FALSE
CHECK_DEADLOCK FALSE
