SPECIFICATION Spec
CONSTANTS
  Cases <- MCCases
  Export = TRUE
  Dev_S21_HookUnbound = FALSE
  Dev_S22_DbClosedBeforeMeta = FALSE
  Dev_S23_SigintMetaZero = FALSE
  Dev_S23b_DbOpenBeforeTry = FALSE
INVARIANT TypeOK
CHECK_DEADLOCK FALSE
