------------------------ MODULE LinesStreamContract ------------------------
(* Contract layer of property C19, written from the property statement only:

     "Over the tcp-lines and unix-lines transports, on the client side and in
      the virtual ECU's server loop, any sequence of messages of any content
      and length is delivered to the peer as exactly that sequence of byte
      strings, one message per read, regardless of how the stream is segmented
      or how several messages are coalesced into one segment.  A read that
      times out consumes nothing, so the next read returns the complete next
      message, and end-of-stream is distinguishable from a message."

   The contract is a deterministic monitor over the observable events of ONE
   direction of ONE connection (sender -> stream -> reader):

     Send      c, n   the sender handed message number Len(cids)+1 to its transport;
                      c = content class of the message (equal bytes <=> equal c),
                      n = number of bytes it occupies on the stream (0: the sender's transport
                      dropped it -- it can then never be delivered intact, which T1 reports)
     Feed      n      the next n bytes of the stream reached the reader's buffer
                      (any segmentation: a Feed may end inside a message or span several)
     Noise     c, n   n bytes entered the stream (behind everything sent so far) that belong to NO message:
                      c = 1  the ENVIRONMENT put them there -- a peer that is not gallia code emitting a
                             keep-alive (a blank / whitespace-only line).  The statement speaks of sequences of
                             messages only: what a read reports for such an item is unspecified (it may be
                             skipped silently, reported as an empty read or as an error), see NoiseNext
                      c = 0  the SENDER UNDER TEST (the virtual ECU's server loop / transport.write) put them
                             there outside of any message.  Accounted for only (the wire format is free, a
                             reader that skips them delivers exactly the messages); nothing is relaxed: what
                             the reads report is judged by T1..T3 as if they were not there
     Close            the peer closed; nothing is fed afterwards (end-of-stream)
     SenderClose      the user of the SENDING transport called close() after its last write() had returned
     ReadBegin to     a read starts; to = its timeout in ms, 0 = none
     ReadEnd   r, c   it ends with r \in
                        "Msg"      a message was returned, c = its content class (0: not the
                                   content of any message that was sent)
                        "Timeout"  the read timed out
                        "Empty"    the read reported end-of-stream (empty read / server loop ended)
                        "Error"    the read raised an error (anything that is not a message)
                        "Hang"     the read never ended although nothing more can happen
                        "Overdue"  the read was still pending n (virtual) ms after it began, when the
                                   harness's watchdog gave it up (n is the ReadEnd event's n field)

   Nothing of the wire format, of asyncio, or of the code's constants is used:
   a message is "completely sent" when all n bytes of its Send have been fed.

   Clauses (labels are reported verbatim):
     T1  delivered is a prefix of sent, one message per successful read, intact, in order;
         a completely buffered message is delivered by the read that finds it
     T2  a timed-out read consumes nothing: the next read returns the complete next message.
         The clause presupposes that a read with a timeout DOES time out: a read(timeout = T) that is still
         pending OverdueFactor * T after it began, whatever trickles in meanwhile, has outlived its timeout
         ("T2/read-outlives-its-timeout").  Nothing finer is demanded of the moment a timeout fires.
     T3  end-of-stream is reported as such, never as a message, and a message never
         as end-of-stream
   Where the statement is silent the monitor accepts: an Error (instead of an
   empty read) when the stream ended inside a message; a Timeout although the
   message became complete while the read was waiting; when a timeout fires. *)
EXTENDS Naturals, Sequences

\* slack of the bounded-time reading of T2: implementations that re-arm their timer a few times, round up or
\* poll are all fine; a timeout that only bounds the gap between two arrivals is not
OverdueFactor == 4

Ev(e, c, n, to, r) == [e |-> e, c |-> c, n |-> n, to |-> to, r |-> r]
EvSend(c, n)   == Ev("Send", c, n, 0, "")
EvFeed(n)      == Ev("Feed", 0, n, 0, "")
EvNoise(c, n)  == Ev("Noise", c, n, 0, "")
EvClose        == Ev("Close", 0, 0, 0, "")
EvReadBegin(to) == Ev("ReadBegin", 0, 0, to, "")
EvReadEnd(r, c) == Ev("ReadEnd", c, 0, 0, r)

\* monitor state
M0 == [v        |-> "ok",     \* verdict so far: "ok" or the label of the first clause broken
       cids     |-> <<>>,     \* content class of each message sent, in order
       ends     |-> <<>>,     \* stream offset at which each message ends
       pad      |-> 0,        \* bytes that belong to no message behind the end of the last message sent
       nends    |-> <<>>,     \* stream offset at which each non-message item of the ENVIRONMENT ends
       nused    |-> 0,        \* ... how many of them the reader is through with (reported or skipped)
       fed      |-> 0,        \* bytes of the stream that reached the reader
       ndel     |-> 0,        \* messages delivered by successful reads
       closed   |-> FALSE,    \* end-of-stream reached the reader
       reading  |-> FALSE,    \* a read is in progress
       to       |-> 0,        \* ... its timeout
       availAtBegin |-> FALSE,\* ... the next message was completely buffered when it began
       tmoMid   |-> FALSE,    \* a read timed out while part of the next message was buffered
       senderClosed |-> FALSE]\* the sending transport was closed by its user (all writes had returned)

Total(m) == (IF m.ends = <<>> THEN 0 ELSE m.ends[Len(m.ends)]) + m.pad
\* the next undelivered message has been fed completely
Avail(m) == m.ndel < Len(m.ends) /\ m.ends[m.ndel + 1] <= m.fed
Consumed(m) == IF m.ndel = 0 THEN 0 ELSE m.ends[m.ndel]
\* some but not all bytes of the next message are buffered
Partial(m) == m.fed > Consumed(m) /\ ~Avail(m)

\* the next item of the stream the reader has not dealt with yet is a completely fed non-message item of the
\* environment (it lies before the next undelivered message)
NoiseNext(m) ==
  LET j == m.nused + 1 IN
  /\ j <= Len(m.nends)
  /\ m.nends[j] <= m.fed
  /\ (m.ndel < Len(m.ends) => m.nends[j] < m.ends[m.ndel + 1])
\* number of the environment's non-message items that lie before stream offset x
NoiseBefore(m, x) == Len(SelectSeq(m.nends, LAMBDA e : e < x))

Fail(m, label) == [m EXCEPT !.v = label]

EndRead(m, ev) ==
  LET done == [m EXCEPT !.reading = FALSE] IN
  LET r == IF ev.r = "Timeout" /\ m.to = 0 THEN "Error" ELSE ev.r IN   \* TimeoutError out of a read without timeout
  CASE r = "Msg" ->
         IF ~Avail(m) THEN
              IF m.closed THEN Fail(m, "T3/end-of-stream-returned-as-message")
              ELSE Fail(m, "T1/message-returned-before-it-was-sent-completely")
         ELSE IF ev.c # m.cids[m.ndel + 1] THEN
              IF m.tmoMid THEN Fail(m, "T2/read-after-timeout-is-not-the-complete-next-message")
              ELSE Fail(m, "T1/not-the-next-message-intact")
         ELSE [done EXCEPT !.ndel = m.ndel + 1, !.tmoMid = FALSE,
                           !.nused = NoiseBefore(m, m.ends[m.ndel + 1])]   \* skipped silently: fine
    [] r = "Timeout" ->
         IF m.availAtBegin THEN Fail(m, "T1/complete-message-not-delivered")
         ELSE [done EXCEPT !.tmoMid = m.tmoMid \/ Partial(m)]
    [] r = "Empty" ->
         IF NoiseNext(m) THEN [done EXCEPT !.nused = m.nused + 1]   \* unspecified: the report for a non-message
         ELSE IF Avail(m) THEN Fail(m, "T3/message-returned-as-end-of-stream")
         ELSE IF ~m.closed THEN Fail(m, "T3/end-of-stream-reported-on-open-stream")
         ELSE done
    [] r = "Error" ->
         IF NoiseNext(m) THEN [done EXCEPT !.nused = m.nused + 1]   \* unspecified, as above
         ELSE IF Avail(m) THEN
              IF m.tmoMid THEN Fail(m, "T2/read-after-timeout-is-not-the-complete-next-message")
              ELSE Fail(m, "T1/complete-message-not-delivered")
         ELSE done                                     \* unspecified: distinguishable from a message
    [] r = "Hang" ->
         IF Avail(m) THEN Fail(m, "T1/complete-message-not-delivered")
         ELSE IF m.closed THEN Fail(m, "T3/end-of-stream-not-reported")
         ELSE done
    [] r = "Overdue" ->
         IF m.to > 0 /\ ev.n >= OverdueFactor * m.to THEN Fail(m, "T2/read-outlives-its-timeout")
         ELSE IF Avail(m) /\ ~NoiseNext(m) THEN Fail(m, "T1/complete-message-not-delivered")
         ELSE done                                     \* no timeout, or not long enough to tell
    [] OTHER -> Fail(m, "H/unknown-read-result")

\* H/ labels: the recorded event sequence is not one a harness may produce (machinery)
Step(m, ev) ==
  IF m.v # "ok" THEN m
  ELSE CASE ev.e = "Send" ->
              IF ev.n < 0 THEN Fail(m, "H/negative-send")   \* n = 0: nothing was put on the stream for it
              ELSE [m EXCEPT !.cids = Append(m.cids, ev.c), !.ends = Append(m.ends, Total(m) + ev.n), !.pad = 0]
         [] ev.e = "Noise" ->
              IF ev.n < 1 \/ ev.c \notin {0, 1} THEN Fail(m, "H/malformed-noise")
              ELSE IF ev.c = 1 THEN [m EXCEPT !.pad = m.pad + ev.n, !.nends = Append(m.nends, Total(m) + ev.n)]
              ELSE [m EXCEPT !.pad = m.pad + ev.n]
         [] ev.e = "Feed" ->
              IF m.closed \/ m.fed + ev.n > Total(m) THEN Fail(m, "H/feed-of-bytes-never-sent")
              ELSE [m EXCEPT !.fed = m.fed + ev.n]
         [] ev.e = "SenderClose" -> [m EXCEPT !.senderClosed = TRUE]
         [] ev.e = "Close" ->
              \* the sender closed its transport in good order after every write had returned: the stream ends only
              \* after everything handed to the transport ("is delivered to the peer as exactly that sequence")
              IF m.senderClosed /\ m.fed < Total(m)
              THEN Fail(m, "T1/message-handed-to-the-transport-never-reached-the-peer")
              ELSE [m EXCEPT !.closed = TRUE]
         [] ev.e = "ReadBegin" ->
              IF m.reading THEN Fail(m, "H/overlapping-reads")
              ELSE [m EXCEPT !.reading = TRUE, !.to = ev.to, !.availAtBegin = Avail(m)]
         [] ev.e = "ReadEnd" ->
              IF ~m.reading THEN Fail(m, "H/read-end-without-begin") ELSE EndRead(m, ev)
         [] OTHER -> Fail(m, "H/unknown-event")

RECURSIVE RunFrom(_, _, _)
RunFrom(m, evs, i) == IF i > Len(evs) \/ m.v # "ok" THEN m ELSE RunFrom(Step(m, evs[i]), evs, i + 1)

\* total verdict of one recorded execution: "ok" or the label of the first clause broken
Verdict(evs) == RunFrom(M0, evs, 1).v

T1Labels == {"T1/message-returned-before-it-was-sent-completely", "T1/not-the-next-message-intact",
             "T1/complete-message-not-delivered"}
T2Labels == {"T2/read-after-timeout-is-not-the-complete-next-message", "T2/read-outlives-its-timeout"}
T3Labels == {"T3/end-of-stream-returned-as-message", "T3/message-returned-as-end-of-stream",
             "T3/end-of-stream-reported-on-open-stream", "T3/end-of-stream-not-reported"}
=============================================================================
