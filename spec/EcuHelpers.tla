------------------------------ MODULE EcuHelpers ------------------------------
(* X24 design layer: a state machine shaped like gallia's code (services/uds/ecu.py, helpers.py, core/exception.py),
   one action per await point, executed for ONE case `c \in Cases` (the environment's choices - the ECU's answers to
   the successive reads, its answer mode while the tester-present worker runs, the user's script of start / stop /
   wait / request steps - are part of the case, so TLC enumerates method x answer class x state and all scripts).
   Every event the design produces is fed to the contract monitor (EcuHelpersContract!Step) and appended to `hist`;
   at `done` the case and hist are printed (spec -> code replays the case into the real code and compares hist).

   Deviation constants (all FALSE: the design satisfies the contract; one TRUE: negative control, TLC must find a
   counterexample).  Dev_SecondStartLeaks and Dev_WaitResurrects reproduce the two defects found on the pinned tree
   (findings/X24-F1-..., findings/X24-F2-...). *)
EXTENDS EcuHelpersContract

CONSTANTS Cases,
          Dev_PingSuppressBit,            \* ping sends 3E 80
          Dev_ReadSessionReturnsNegative, \* read_session returns the NegativeResponse instead of raising
          Dev_DtcMaskConfirmedOnly,       \* read_dtc asks with status mask 0x08
          Dev_ClearOneGroup,              \* clear_dtc clears group 0xFFFF33 only
          Dev_VinWrongDid,                \* read_vin reads 0xF18C
          Dev_ConfigDropped,              \* a convenience call does not pass `config` on
          Dev_MissingNotTimeout,          \* the exception for silence is no TimeoutError
          Dev_IdentOmitsOutOfRange,       \* suggests_identifier_not_supported without requestOutOfRange
          Dev_ServiceAcceptsSubFunction,  \* suggests_service_not_supported accepts subFunctionNotSupported
          Dev_ClassTableGap,              \* no exception class for NRC 0x26 (as once found by C03)
          Dev_AsExceptionRaises,          \* as_exception raises instead of returning
          Dev_NoTriggerPasses,            \* raise_for_error returns silently without a trigger request
          Dev_MismatchIgnoresNegative,    \* raise_for_mismatch lets a negative response of another service pass
          Dev_ResetKeepsSecurity,         \* ECUState.reset keeps the security level
          Dev_JsonBytesRaw,               \* the encoder renders bytes as a latin-1 string
          Dev_JsonUnsorted,               \* to_json without sort_keys
          Dev_SecondStartLeaks,           \* AS FOUND: a second start forgets the first worker without stopping it
          Dev_WaitResurrects,             \* AS FOUND: wait_for_ecu starts a worker although it had been stopped
          Dev_DieOnTimeout,               \* the worker ends with the first unanswered TesterPresent
          Dev_DieOnConnErr,               \* the worker ends with the first connection error
          Dev_StopLeavesRunning,          \* stop forgets the worker without cancelling it
          Dev_StopHoldsMutex,             \* cancelling an exchange in flight leaves the client mutex locked
          Dev_StopWithoutStartRaises      \* stop raises when no worker was ever started

VARIABLES c, pc, k, mon, hist, now, ws, h, ever, ival, mode, stuck, nid, approx
vars == <<c, pc, k, mon, hist, now, ws, h, ever, ival, mode, stuck, nid, approx>>
lifevars == <<now, ws, h, ever, ival, mode, stuck, nid, approx>>

SE == INSTANCE SequencesExt
StepAll(m, evs) == SE!FoldLeft(Step, m, evs)
Emit(evs) == mon' = StepAll(mon, evs) /\ hist' = hist \o evs

MkX(f) == f @@ X0    \* a projected exception: the fields given, the rest as in X0

---------------------------------------------------------------------------
(* convenience calls *)
DWire(m) == CASE m = "ping" -> IF Dev_PingSuppressBit THEN <<62, 128>> ELSE <<62, 0>>
              [] m = "read_dtc" -> IF Dev_DtcMaskConfirmedOnly THEN <<25, 2, 8>> ELSE <<25, 2, 255>>
              [] m = "clear_dtc" -> IF Dev_ClearOneGroup THEN <<20, 255, 255, 51>> ELSE <<20, 255, 255, 255>>
              [] m = "read_vin" -> IF Dev_VinWrongDid THEN <<34, 241, 140>> ELSE <<34, 241, 144>>
              [] OTHER -> Wire(m)

\* update_state runs for every response object the client could build, refused (mismatching) ones included
Reported(b) == IF Len(b) = 4 /\ b[1] = 98 /\ b[2] = 241 /\ b[3] = 134 THEN b[4] ELSE -1
StateAfter(cc, b) ==
  LET s == Reported(b) IN
  IF Len(b) = 6 /\ b[1] = 80 THEN [sess |-> b[2], sec |-> -1]       \* a DiagnosticSessionControl response
  ELSE IF s < 0 \/ s = cc.s0 THEN [sess |-> cc.s0, sec |-> cc.sec0] ELSE [sess |-> s, sec |-> -1]
\* answers of the right service the client can build a response object from (then `matches` refuses them)
Parseable(m, f) == IF m \in {"read_session", "read_vin"} THEN Len(f) >= 4
                   ELSE m = "read_dtc" /\ Len(f) = 6 /\ f[2] = 1

DRet(cc, consumed) ==   \* consumed: the answers read so far, the last one is final
  LET m == cc.m
      w == Wire(m)
      f == consumed[Len(consumed)]
      cl == Class(m, f)
      busy == Len(f) = 3 /\ f[1] = 127 /\ f[2] = w[1] /\ f[3] = 33
      eff == IF cc.cfg >= 0 /\ ~Dev_ConfigDropped THEN cc.cfg ELSE cc.tmo
      base == [e |-> "Ret", how |-> "raise", neg |-> FALSE, b |-> <<>>, rc |-> -1, v |-> -1, x |-> X0,
               sess |-> cc.s0, sec |-> cc.sec0,
               dur |-> 500 * Cardinality({i \in 1..Len(consumed) : consumed[i] = <<>>})]   \* 0.5 s per silent read after a 78
      unr == MkX([unr |-> TRUE, rexc |-> TRUE, udsx |-> TRUE, rc |-> f[3], hasreq |-> TRUE, req |-> w,
                  hasresp |-> TRUE, resp |-> f])
  IN
  IF cl = "silent" THEN
    [base EXCEPT !.x = MkX([udsx |-> TRUE, tmo |-> ~Dev_MissingNotTimeout, hasreq |-> TRUE, req |-> w]),
                 !.dur = IF Len(consumed) = 1 THEN eff ELSE 20000]
  ELSE IF cl = "pos" THEN
    LET st == StateAfter(cc, f) IN
    IF m = "read_session" THEN [base EXCEPT !.how = "int", !.v = f[4], !.sess = st.sess, !.sec = st.sec]
    ELSE [base EXCEPT !.how = "resp", !.b = f]
  ELSE IF cl = "neg" \/ busy THEN
    IF m = "read_session" /\ ~Dev_ReadSessionReturnsNegative THEN [base EXCEPT !.x = unr]
    ELSE [base EXCEPT !.how = "resp", !.neg = TRUE, !.b = f, !.rc = f[3]]
  ELSE IF cl = "mism" THEN
    LET st == StateAfter(cc, f) IN
    [base EXCEPT !.x = MkX([rexc |-> TRUE, illegal |-> TRUE, mismatch |-> TRUE, udsx |-> TRUE, hasreq |-> TRUE, req |-> w,
                            hasresp |-> TRUE, resp |-> f]), !.sess = st.sess, !.sec = st.sec]
  ELSE
    LET st == IF Parseable(m, f) THEN StateAfter(cc, f) ELSE [sess |-> cc.s0, sec |-> cc.sec0] IN
    [base EXCEPT !.x = MkX([rexc |-> TRUE, illegal |-> TRUE, mismatch |-> Parseable(m, f), udsx |-> TRUE, hasreq |-> TRUE,
                            req |-> w, hasresp |-> TRUE, resp |-> f]), !.sess = st.sess, !.sec = st.sec]

CStart == /\ pc = "start" /\ c.kind = "call"
          /\ Emit(<<[e |-> "Start", kind |-> "call", m |-> c.m, s0 |-> c.s0, sec0 |-> c.sec0, tmo |-> c.tmo, cfg |-> c.cfg]>>)
          /\ pc' = IF c.m \in WireMethods THEN "send" ELSE "local"
          /\ UNCHANGED <<c, k>> /\ UNCHANGED lifevars
CLocal == /\ pc = "local"     \* properties / hooks of the base class: nothing on the wire
          /\ Emit(<<[e |-> "Ret", how |-> IF c.m = "properties" THEN "props" ELSE "bool", neg |-> FALSE, b |-> <<>>, rc |-> -1,
                     v |-> 1, x |-> X0, sess |-> c.s0, sec |-> c.sec0, dur |-> 0]>>)
          /\ pc' = "done" /\ UNCHANGED <<c, k>> /\ UNCHANGED lifevars
CSend == /\ pc = "send"       \* await transport.request_unsafe: write ...
         /\ Emit(<<[e |-> "Req", b |-> DWire(c.m)]>>)
         /\ pc' = "recv" /\ k' = 1 /\ UNCHANGED c /\ UNCHANGED lifevars
CRecv == /\ pc = "recv"       \* ... read (again after each 7F sid 78; an exhausted script = silence)
         /\ LET a == IF k <= Len(c.ans) THEN c.ans[k] ELSE <<>>
                pend == Class(c.m, a) = "pend"
                giveup == Len(a) = 0 /\ (k = 1 \/ k > Len(c.ans))   \* silence to the request / until the pending limit
            IN /\ Emit(<<[e |-> "Ans", b |-> a]>>)
               /\ pc' = IF pend \/ (Len(a) = 0 /\ ~giveup) THEN "recv" ELSE "ret"
               /\ k' = k + 1
         /\ UNCHANGED c /\ UNCHANGED lifevars
CRet == /\ pc = "ret"
        /\ LET n == k - 1
               consumed == [i \in 1..n |-> IF i <= Len(c.ans) THEN c.ans[i] ELSE <<>>]
           IN Emit(<<DRet(c, consumed)>>)
        /\ pc' = "done" /\ UNCHANGED <<c, k>> /\ UNCHANGED lifevars

---------------------------------------------------------------------------
(* helpers: one evaluation *)
SvcCodes == {17, 127} \cup (IF Dev_ServiceAcceptsSubFunction THEN {18} ELSE {})
SubCodes == {17, 127, 18, 126}
IdCodes == {17, 127, 18, 126} \cup (IF Dev_IdentOmitsOutOfRange THEN {} ELSE {49})
Codes(fn) == CASE fn = "service" -> SvcCodes [] fn = "subfunc" -> SubCodes [] OTHER -> IdCodes

HasClass(nrc) == nrc \in IsoNrc /\ ~(Dev_ClassTableGap /\ nrc = 38)
ExcX(e, hasmsg) == MkX([unr |-> TRUE, rexc |-> TRUE, udsx |-> TRUE, rc |-> e.nrc, hasreq |-> TRUE, req |-> e.reqb,
                        hasresp |-> TRUE, resp |-> e.respb, hasmsg |-> hasmsg])
DExc(cc) ==
  LET e == [e |-> "Exc", fn |-> cc.fn, pos |-> cc.pos, nrc |-> cc.nrc, trig |-> cc.trig, msg |-> cc.msg, out |-> "none",
            x |-> X0, reqb |-> <<34, 241, 134>>,
            respb |-> IF cc.pos THEN <<98, 241, 134, 1>> ELSE <<127, 34, cc.nrc>>]
      keyerr == [e EXCEPT !.out = "raise"]
      valerr == [e EXCEPT !.out = "raise", !.x = MkX([valerr |-> TRUE])]
  IN
  IF cc.fn = "parse_dynamic" THEN
    (IF HasClass(cc.nrc) THEN [e EXCEPT !.out = "ret", !.x = ExcX(e, cc.msg)] ELSE keyerr)
  ELSE IF cc.pos /\ cc.fn = "raise_for_error" THEN e
  ELSE IF ~cc.trig THEN (IF Dev_NoTriggerPasses /\ cc.fn = "raise_for_error" THEN e ELSE valerr)
  ELSE IF cc.pos THEN keyerr     \* as_exception on a positive response: whatever
  ELSE IF ~HasClass(cc.nrc) THEN keyerr
  ELSE [e EXCEPT !.out = IF cc.fn = "as_exception" /\ ~Dev_AsExceptionRaises THEN "ret" ELSE "raise", !.x = ExcX(e, cc.msg)]

DMm(cc) ==
  LET cl == Class(cc.m, cc.respb)
      negOther == Len(cc.respb) = 3 /\ cc.respb[1] = 127 /\ cc.respb[2] # Wire(cc.m)[1]
      raises == cl \notin {"pos", "neg", "pend"} /\ ~(Dev_MismatchIgnoresNegative /\ negOther)
  IN [e |-> "Mm", m |-> cc.m, respb |-> cc.respb, out |-> IF raises THEN "raise" ELSE "none",
      x |-> IF raises THEN MkX([rexc |-> TRUE, illegal |-> TRUE, mismatch |-> TRUE, udsx |-> TRUE, hasreq |-> TRUE,
                                req |-> Wire(cc.m), hasresp |-> TRUE, resp |-> cc.respb, hasmsg |-> TRUE]) ELSE X0]

DSt(cc) ==
  IF cc.op = "new" THEN [e |-> "St", op |-> "new", s |-> 0, sec |-> -1, s2 |-> 1, sec2 |-> -1]
  ELSE IF cc.op = "reset" THEN [e |-> "St", op |-> "reset", s |-> cc.s, sec |-> cc.sec, s2 |-> 1,
                                sec2 |-> IF Dev_ResetKeepsSecurity THEN cc.sec ELSE -1]
  ELSE [e |-> "St", op |-> cc.op, s |-> cc.s, sec |-> cc.sec, s2 |-> cc.s, sec2 |-> cc.sec]

\* to_json: asdict, keys sorted, bytes -> hex, Enum -> value
RECURSIVE InsertSorted(_, _)
InsertSorted(s, f) == IF Len(s) = 0 THEN <<f>>
                      ELSE IF LexLE(f.kcp, s[1].kcp) THEN <<f>> \o s ELSE <<s[1]>> \o InsertSorted(Tail(s), f)
RECURSIVE SortFields(_)
SortFields(s) == IF Len(s) = 0 THEN <<>> ELSE InsertSorted(SortFields(Tail(s)), s[1])
DJs(cc) ==
  LET F == IF Dev_JsonUnsorted THEN cc.fields ELSE SortFields(cc.fields)
      enc(f) == CASE f.t = "bytes" -> [k |-> f.k, t |-> "str", i |-> 0, s |-> IF Dev_JsonBytesRaw THEN "raw" ELSE HexOf(f.b, HexL), ls |-> <<>>]
                  [] f.t = "lbytes" -> [k |-> f.k, t |-> "lstr", i |-> 0, s |-> "", ls |-> [j \in 1..Len(f.l) |-> HexOf(f.l[j], HexL)]]
                  [] f.t \in {"int", "enumi"} -> [k |-> f.k, t |-> "int", i |-> f.i, s |-> "", ls |-> <<>>]
                  [] f.t \in {"str", "enums"} -> [k |-> f.k, t |-> "str", i |-> 0, s |-> f.s, ls |-> <<>>]
                  [] OTHER -> [k |-> f.k, t |-> "null", i |-> 0, s |-> "", ls |-> <<>>]
  IN [e |-> "Js", valid |-> TRUE, okeys |-> [j \in 1..Len(F) |-> F[j].kcp],
      fields |-> [j \in 1..Len(cc.fields) |-> [k |-> cc.fields[j].k, t |-> cc.fields[j].t, i |-> cc.fields[j].i,
                                               s |-> cc.fields[j].s, b |-> cc.fields[j].b, l |-> cc.fields[j].l]],
      dec |-> [j \in 1..Len(F) |-> enc(F[j])]]

ClsEvents == [i \in 1..256 |->
               LET n == i - 1 IN
               IF HasClass(n) THEN [e |-> "Cls", nrc |-> n, known |-> TRUE, name |-> "class-" \o ToString(n), rc |-> n]
               ELSE [e |-> "Cls", nrc |-> n, known |-> n \in IsoNrc, name |-> "", rc |-> -1]]

HEval == /\ pc = "start" /\ c.kind \in {"sugg", "exc", "cls", "mm", "state", "json"}
         /\ LET body == CASE c.kind = "sugg" ->
                               <<[e |-> "Sugg", fn |-> c.fn, form |-> c.form, nrc |-> c.nrc,
                                  out |-> IF c.form # "pos" /\ c.nrc \in Codes(c.fn) THEN "true" ELSE "false"]>>
                          [] c.kind = "exc" -> <<DExc(c)>>
                          [] c.kind = "cls" -> ClsEvents
                          [] c.kind = "mm" -> <<DMm(c)>>
                          [] c.kind = "state" -> <<DSt(c)>>
                          [] OTHER -> <<DJs(c)>>
            IN Emit(<<[e |-> "Start", kind |-> c.kind]>> \o body \o <<[e |-> "End"]>>)
         /\ pc' = "done" /\ UNCHANGED <<c, k>> /\ UNCHANGED lifevars

---------------------------------------------------------------------------
(* cyclic tester present: workers = the tasks that exist; h = the one ECU.tester_present_task refers to (0: none or
   finished); time in ms; a worker sleeps `iv`, pings (the exchange lasts 0 ms, or the request timeout when the ECU is
   silent), sleeps again *)
ObsW == 4130
SyncCap == 3000
WaitTmo == 2000
WaitPing == 500
Interval(op) == IF op = "s1" THEN 1000 ELSE 1500
ModeOf(op) == CASE op = "eA" -> "answer" [] op = "eS" -> "silent" [] op = "eC" -> "connerr" [] OTHER -> "nrc"
PingDur(md) == IF md = "silent" THEN c.tmo ELSE 0
Dies(md) == (Dev_DieOnTimeout /\ md = "silent") \/ (Dev_DieOnConnErr /\ md = "connerr")
Earliest(W) == CHOOSE x \in W : \A y \in W : x.due < y.due \/ (x.due = y.due /\ x.id <= y.id)
PingOf(w, md) == IF Dies(md) THEN {} ELSE {[w EXCEPT !.due = w.due + PingDur(md) + w.iv, !.busy = w.due + PingDur(md)]}

RECURSIVE Adv(_, _, _)
Adv(W, to, md) ==     \* the background pings before time `to`
  LET cand == {w \in W : w.due < to} IN
  IF cand = {} \/ stuck THEN [ev |-> <<>>, ws |-> W]
  ELSE LET w == Earliest(cand)
           rest == Adv((W \ {w}) \cup PingOf(w, md), to, md)
       IN [ev |-> <<[e |-> "Bg", t |-> w.due]>> \o rest.ev, ws |-> rest.ws]

Handle == {w \in ws : w.id = h}
OpAt == IF k <= Len(c.script) THEN c.script[k] ELSE "fg"      \* epilogue: one foreground request, one observation
OpEv(op, i, ret, t0, t1) == [e |-> "Op", op |-> op, i |-> i, ret |-> ret, t0 |-> t0, t1 |-> t1]

LStart == /\ pc = "start" /\ c.kind = "life"
          /\ Emit(<<[e |-> "Start", kind |-> "life", tmo |-> c.tmo], [e |-> "Env", mode |-> c.init, t |-> 0]>>)
          /\ pc' = "lop" /\ k' = 1 /\ mode' = c.init
          /\ UNCHANGED <<c, now, ws, h, ever, ival, stuck, nid, approx>>

LEnv == /\ pc = "lop" /\ k <= Len(c.script) + 1 /\ OpAt \in {"eA", "eS", "eC", "eN"}
        /\ mode' = ModeOf(OpAt) /\ Emit(<<[e |-> "Env", mode |-> ModeOf(OpAt), t |-> now]>>)
        /\ pc' = "lobs" /\ UNCHANGED <<c, k, now, ws, h, ever, ival, stuck, nid, approx>>

LBegin == /\ pc = "lop" /\ k <= Len(c.script) + 1 /\ OpAt \in {"s1", "s2"}     \* start_cyclic_tester_present(interval)
          /\ LET i == Interval(OpAt)
                 keep == IF Dev_SecondStartLeaks THEN ws ELSE ws \ Handle
             IN /\ ws' = keep \cup {[id |-> nid, due |-> now + i, busy |-> 0, iv |-> i]}
                /\ h' = nid /\ nid' = nid + 1 /\ ever' = TRUE /\ ival' = i
                /\ Emit(<<OpEv("start", i, "ok", now, now)>>)
          /\ pc' = "lobs" /\ UNCHANGED <<c, k, now, mode, stuck, approx>>

LStop == /\ pc = "lop" /\ k <= Len(c.script) + 1 /\ OpAt = "stop"              \* stop_cyclic_tester_present()
         /\ LET inflight == \E w \in Handle : w.busy > now IN
            /\ ws' = IF Dev_StopLeavesRunning THEN ws ELSE ws \ Handle
            /\ h' = 0
            /\ stuck' = (stuck \/ (Dev_StopHoldsMutex /\ inflight))
            /\ Emit(<<OpEv("stop", 0, IF ~ever /\ Dev_StopWithoutStartRaises THEN "raise" ELSE "ok", now, now)>>)
         /\ pc' = "lobs" /\ UNCHANGED <<c, k, now, ever, ival, mode, nid, approx>>

LSync == /\ pc = "lop" /\ k <= Len(c.script) + 1 /\ OpAt = "sync"              \* the harness waits for the next background ping
         /\ LET cand == {w \in ws : w.due < now + SyncCap} IN
            IF cand = {} \/ stuck
            THEN /\ now' = now + SyncCap /\ ws' = ws /\ h' = h
                 /\ Emit(<<OpEv("sync", 0, "none", now, now + SyncCap)>>)
            ELSE LET w == Earliest(cand) IN
                 /\ now' = w.due /\ ws' = (ws \ {w}) \cup PingOf(w, mode)
                 /\ h' = IF w.id = h /\ Dies(mode) THEN 0 ELSE h
                 /\ Emit(<<[e |-> "Bg", t |-> w.due], OpEv("sync", 0, "ok", now, w.due)>>)
         /\ pc' = "lop" /\ k' = k + 1
         /\ UNCHANGED <<c, ever, ival, mode, stuck, nid, approx>>

LWait == /\ pc = "lop" /\ k <= Len(c.script) + 1 /\ OpAt = "wait"              \* wait_for_ecu(2 s)
         /\ LET running == Handle # {}
                restart == running \/ (Dev_WaitResurrects /\ ever)
                good == mode \in {"answer", "nrc"} /\ ~stuck
                t1 == now + (IF good THEN WaitPing ELSE WaitTmo)
                r == Adv(ws \ Handle, t1, mode)
            IN /\ ws' = r.ws \cup (IF restart THEN {[id |-> nid, due |-> t1 + ival, busy |-> 0, iv |-> ival]} ELSE {})
               /\ h' = IF restart THEN nid ELSE 0
               /\ nid' = nid + 1 /\ now' = t1
               /\ Emit(r.ev \o <<OpEv("wait", 0, IF good THEN "true" ELSE "false", now, t1)>>)
         /\ pc' = "lobs" /\ UNCHANGED <<c, k, ever, ival, mode, stuck, approx>>

LFg == /\ pc = "lop" /\ k <= Len(c.script) + 1 /\ OpAt = "fg"                  \* a foreground request (ECU.ping)
       /\ IF stuck
          THEN /\ Emit(<<OpEv("fg", 0, "hang", now, now + 60000)>>) /\ now' = now + 60000 /\ UNCHANGED <<ws, approx>>
          ELSE LET busy == {w.busy : w \in {x \in ws : x.busy > now}}
                   s == IF busy = {} THEN now ELSE CHOOSE b \in busy : \A b2 \in busy : b >= b2
                   t1 == s + PingDur(mode)
                   late == {w \in ws : w.due < t1}
               IN /\ ws' = (ws \ late) \cup {[w EXCEPT !.due = t1] : w \in late}   \* they wait for the client mutex
                  /\ approx' = (approx \/ late # {} \/ s > now)
                  /\ now' = t1
                  /\ Emit(<<OpEv("fg", 0, IF mode \in {"answer", "nrc"} THEN "resp" ELSE "raise", now, t1)>>)
       /\ pc' = "lobs" /\ UNCHANGED <<c, k, h, ever, ival, mode, stuck, nid>>

LObs == /\ pc = "lobs"
        /\ LET r == Adv(ws, now + ObsW, mode) IN
           /\ ws' = r.ws /\ now' = now + ObsW
           /\ h' = IF \E w \in r.ws : w.id = h THEN h ELSE 0
           /\ Emit(r.ev \o <<[e |-> "Obs", t0 |-> now, t1 |-> now + ObsW]>>)
        /\ pc' = "lop" /\ k' = k + 1
        /\ UNCHANGED <<c, ever, ival, mode, stuck, nid, approx>>

LRet == /\ pc = "lop" /\ k = Len(c.script) + 2
        /\ Emit(<<[e |-> "Ret"]>>)
        /\ pc' = "done" /\ UNCHANGED <<c, k>> /\ UNCHANGED lifevars

---------------------------------------------------------------------------
Init == /\ c \in Cases /\ pc = "start" /\ k = 0 /\ mon = M0 /\ hist = <<>>
        /\ now = 0 /\ ws = {} /\ h = 0 /\ ever = FALSE /\ ival = 0 /\ mode = "answer" /\ stuck = FALSE /\ nid = 1
        /\ approx = FALSE

Done == /\ pc = "done"
        /\ pc' = "end" /\ UNCHANGED <<c, k, mon, hist>> /\ UNCHANGED lifevars

Next == CStart \/ CLocal \/ CSend \/ CRecv \/ CRet \/ HEval
        \/ LStart \/ LEnv \/ LBegin \/ LStop \/ LSync \/ LWait \/ LFg \/ LObs \/ LRet \/ Done
Spec == Init /\ [][Next]_vars /\ WF_vars(Next)

ContractHolds == mon.fail = "ok"
Export == pc # "done" \/ PrintT(<<"HIST", c, approx, hist>>)   \* spec -> code: evaluated once per finished case
DoneIsTotal == pc \in {"done", "end"} => Final(mon) = "ok"
Progress == pc \notin {"done", "end"} => ENABLED Next
Terminates == <>(pc = "end")
=============================================================================
