------------------------- MODULE RangeExprContract -------------------------
(* C20, second sentence: what a range expression DENOTES.  Written from the
   property statement only; the spelling of an expression (notation of the
   integers, whitespace) is a harness concern -- this module fixes the meaning
   of the abstract syntax tree and of an integer literal.

   "A range expression such as '0x10-0x2f,0x3e 7:1,3-5' denotes exactly the
    sorted union of the listed numbers and inclusive ranges (per outer key in
    the two-dimensional form, a bare outer key meaning 'all'), and integers are
    accepted in decimal, hex, octal and binary notation."

   Abstract syntax
     Item   = <<n>>                a listed number
            | <<a, b>>             the inclusive range a..b
     Expr   = Seq(Item)            one-dimensional expression
     Entry  = <<outer>>            bare outer keys: 'all'
            | <<outer, inner>>     outer, inner \in Expr
     Expr2  = Seq(Entry)           two-dimensional expression

   Results reported for the implementation (records read from JSON)
     [t |-> "err"]                                 the parser raised
     [t |-> "ok", v |-> <<n1, n2, ...>>]           one-dimensional
     [t |-> "ok", v |-> << [k |-> key, all |-> BOOLEAN, v |-> <<...>>], ... >>]
     [t |-> "bad"]                                 not a list of numbers at all

   What the statement leaves open (accepted, counted as `unspecified`):
     * a reversed range (a > b) and an empty (sub)expression: the implementation
       may reject the expression; if it accepts it, a reversed range contributes
       nothing (there is no n with a <= n <= b);
     * spellings outside the plain grammar (flag must = FALSE): may be rejected;
       if accepted the denotation must still be the one of the AST.            *)
EXTENDS Integers, Sequences, FiniteSets

----------------------------------------------------------------------------
(* ------------------------------ denotation ------------------------------ *)

ItemSet(it) == IF Len(it) = 1 THEN {it[1]} ELSE it[1] .. it[2]
ExprSet(e)  == UNION {ItemSet(e[i]) : i \in 1..Len(e)}

SeqSet(v)             == {v[i] : i \in 1..Len(v)}
StrictlyIncreasing(v) == \A i \in 1..(Len(v) - 1) : v[i] < v[i + 1]

Reversed(it)   == Len(it) = 2 /\ it[1] > it[2]
Degenerate1(e) == Len(e) = 0 \/ \E i \in 1..Len(e) : Reversed(e[i])

\* D1 "the sorted union": ascending, every number once
D1_Sorted(e, v)  == StrictlyIncreasing(v)
\* D2 "exactly ... the listed numbers and inclusive ranges"
D2_Missing(e, v) == \E n \in ExprSet(e) : n \notin SeqSet(v)
D2_Extra(e, v)   == \E n \in SeqSet(v) : n \notin ExprSet(e)

Verdict1(e, must, res) ==
  IF res.t = "err" THEN (IF must /\ ~Degenerate1(e) THEN "D3/expression-rejected" ELSE "ok")
  ELSE IF res.t # "ok" THEN "D2/not-a-list-of-numbers"
  ELSE IF ~D1_Sorted(e, res.v) THEN "D1/not-sorted-or-duplicates"
  ELSE IF D2_Missing(e, res.v) THEN "D2/listed-number-missing"
  ELSE IF D2_Extra(e, res.v) THEN "D2/unlisted-number-present"
  ELSE "ok"

----------------------------------------------------------------------------
(* ------------------------- two-dimensional form ------------------------- *)

IsBare(en) == Len(en) = 1
Keys2(e2)     == UNION {ExprSet(e2[i][1]) : i \in 1..Len(e2)}
AllKeys2(e2)  == UNION {ExprSet(e2[i][1]) : i \in {j \in 1..Len(e2) : IsBare(e2[j])}}
Inner2(e2, k) == UNION {ExprSet(e2[i][2]) :
                          i \in {j \in 1..Len(e2) : ~IsBare(e2[j]) /\ k \in ExprSet(e2[j][1])}}
Degenerate2(e2) ==
  \/ Len(e2) = 0
  \/ \E i \in 1..Len(e2) : \/ Degenerate1(e2[i][1])
                           \/ ~IsBare(e2[i]) /\ Degenerate1(e2[i][2])

ResKeys(v) == {v[i].k : i \in 1..Len(v)}
\* E1 "per outer key": exactly the outer keys written, each once
E1_Dup(e2, v)     == Cardinality(ResKeys(v)) # Len(v)
E1_Missing(e2, v) == \E k \in Keys2(e2) : k \notin ResKeys(v)
E1_Extra(e2, v)   == \E k \in ResKeys(v) : k \notin Keys2(e2)
\* E2 "a bare outer key meaning 'all'" (a union with 'all' is 'all')
E2_NotAll(e2, v)  == \E i \in 1..Len(v) : v[i].k \in AllKeys2(e2) /\ ~v[i].all
E2_WrongAll(e2, v) == \E i \in 1..Len(v) : v[i].k \notin AllKeys2(e2) /\ v[i].all
\* E3 per outer key the sorted union of its inner expressions
E3_Unsorted(e2, v) == \E i \in 1..Len(v) : ~v[i].all /\ ~StrictlyIncreasing(v[i].v)
E3_Wrong(e2, v)    == \E i \in 1..Len(v) : ~v[i].all /\ SeqSet(v[i].v) # Inner2(e2, v[i].k)

Verdict2(e2, must, res) ==
  IF res.t = "err" THEN (IF must /\ ~Degenerate2(e2) THEN "D3/expression-rejected" ELSE "ok")
  ELSE IF res.t # "ok" THEN "E1/not-a-map-of-numbers"
  ELSE IF E1_Dup(e2, res.v) THEN "E1/outer-key-twice"
  ELSE IF E1_Missing(e2, res.v) THEN "E1/outer-key-missing"
  ELSE IF E1_Extra(e2, res.v) THEN "E1/outer-key-not-written"
  ELSE IF E2_NotAll(e2, res.v) THEN "E2/bare-outer-key-is-not-all"
  ELSE IF E2_WrongAll(e2, res.v) THEN "E2/keyed-entry-became-all"
  ELSE IF E3_Unsorted(e2, res.v) THEN "E3/inner-not-sorted-or-duplicates"
  ELSE IF E3_Wrong(e2, res.v) THEN "E3/inner-union-wrong"
  ELSE "ok"

----------------------------------------------------------------------------
(* --------------------------- integer notation --------------------------- *)
(* A literal is (radix, digit values most significant first).  Numbers of any
   size: the implementation's result is reported as its decimal digits and its
   binary digits; hex / octal / binary literals are compared bit by bit, decimal
   literals digit by digit -- no arithmetic on big numbers is needed.          *)

RECURSIVE StripZeros(_)
StripZeros(ds) == IF Len(ds) > 0 /\ Head(ds) = 0 THEN StripZeros(Tail(ds)) ELSE ds

Pow2(n) == CASE n = 0 -> 1 [] n = 1 -> 2 [] n = 2 -> 4 [] n = 3 -> 8
BitsPerDigit(r) == CASE r = 16 -> 4 [] r = 8 -> 3 [] r = 2 -> 1
BitsOf(r, ds) ==
  LET w == BitsPerDigit(r) IN
  [i \in 1..(w * Len(ds)) |-> (ds[((i - 1) \div w) + 1] \div Pow2(w - 1 - ((i - 1) % w))) % 2]

\* value of a small literal (< 2^31)
DigitsValue(r, ds) ==
  LET f[i \in 0..Len(ds)] == IF i = 0 THEN 0 ELSE f[i - 1] * r + ds[i] IN f[Len(ds)]

WellFormedLiteral(r, ds) ==
  r \in {2, 8, 10, 16} /\ Len(ds) > 0 /\ \A i \in 1..Len(ds) : ds[i] \in 0..(r - 1)

\* res = [t |-> "err"] | [t |-> "ok", neg |-> BOOLEAN, dec |-> <<..>>, bin |-> <<..>>]
VerdictInt(r, ds, must, res) ==
  IF res.t = "err" THEN (IF must THEN "N1/notation-rejected" ELSE "ok")
  ELSE IF res.t # "ok" THEN "N2/not-an-integer"
  ELSE IF res.neg THEN "N2/value-differs"
  ELSE IF r = 10 THEN (IF StripZeros(res.dec) = StripZeros(ds) THEN "ok" ELSE "N2/value-differs")
  ELSE IF StripZeros(res.bin) = StripZeros(BitsOf(r, ds)) THEN "ok" ELSE "N2/value-differs"
=============================================================================
