SPECIFICATION Spec
CONSTANTS
  Sessions <- P4
  Graphs <- Iso4
  Depths <- D13
  Skips <- TinySkips4
  Thoroughs <- OnlyThorough
  KeepHist = FALSE
  Dev_M1_DepthOffByOne = FALSE
  Dev_M2_RecoverNeverSet = FALSE
  Dev_M3_VisitedWrongElement = FALSE
  Dev_M4_SkipAfterRequest = FALSE
INVARIANT TypeOK
INVARIANT G1_Result
INVARIANT G2_Stacks
INVARIANT G3_Skip
INVARIANT G4_NoAbort
INVARIANT G4_Bound_Inv
INVARIANT Verdict_Ok
INVARIANT D_Tracks
INVARIANT D_Progress
PROPERTY D_CfgConst
CHECK_DEADLOCK TRUE
