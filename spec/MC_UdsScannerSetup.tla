------------------------ MODULE MC_UdsScannerSetup ------------------------
(* Model-checking instances of the X12 part 2 design layer (exhaustive over the configuration space). *)
EXTENDS UdsScannerSetup
BoolsAll == BOOLEAN
ResetsAll == {-1, 1}
FaultsAll == {"none", "scan_run", "pre", "post"}
FaultsNone == {"none"}
EcuResetsAll == {"ok", "neg_then_ok", "neg"}
EcuResetsOk == {"ok"}
SilentsAll == {0, 2}
Silents0 == {0}
Silents2 == {2}
EcuResetsNeg == {"neg_then_ok"}
MainMsAll == {0, 700, 1600}
MainMs1 == {1600}
=============================================================================
