--------------------------- MODULE DoipDiscover ---------------------------
(* Growth item X08, design layer: the DoIP discovery scanner (src/gallia/commands/discover/doip.py), shaped like
   the code.  Two machines, selected by Mode:

   Mode = "ra"     enumerate_routing_activation_requests as used by main(): probe (reserved activation type 0x02,
                   reserved source address 0x00) to learn which field the gateway checks first, pre-filter of the
                   field that is not given by --target, enumeration of the remaining product, gate "exactly one tuple".
                   Environment: every gateway model over the pools (check order, supported activation types, known
                   source addresses, accepted pairs) and every choice of what --target gives.
   Mode = "sweep"  enumerate_target_addresses: one action per await point of the sweep (write request + gateway
                   reaction, result of the ack wait, reconnect), the diagnostic message reader task, answers in flight
                   that arrive while time passes, the final wait.  Environment: every assignment of a gateway behaviour
                   to every swept address (beh).

   Deviation constants (negative controls; all FALSE = the design that satisfies the contract):
     Dev_S1_ReaderKeepsOldConnection     after a reconnect the reader task still listens on the dead connection (and
                                         the new connection has no separate diagnostic message queue)
     Dev_S2_ReaderDiesOnUnexpectedAnswer a diagnostic message that is no TesterPresent answer ends the reader task
     Dev_S3_ValidBeforeAck               an address is recorded as valid although its request was refused / unanswered
     Dev_S4_PrefilterInverted            the pre-filter keeps the denied instead of the promising values              *)
EXTENDS DoipDiscoverContract, TLC

CONSTANTS Mode, Addrs, BehNames, RatPool, SrcPool, Export,
          Dev_S1_ReaderKeepsOldConnection, Dev_S2_ReaderDiesOnUnexpectedAnswer,
          Dev_S3_ValidBeforeAck, Dev_S4_PrefilterInverted

TesterAddr == 3584      \* 0x0E00
FarAddr    == 30583     \* 0x7777: an ECU outside the swept range
MinA == CHOOSE a \in Addrs : \A b \in Addrs : a <= b
MaxA == CHOOSE a \in Addrs : \A b \in Addrs : a >= b
NextAddr(a) == IF a + 1 \in Addrs THEN a + 1 ELSE 0
MaxConn == Cardinality(Addrs) + 1

\* gateway behaviour per address: acknowledgement, answer, what happens to the connection afterwards
\* (same names as harness/x08_gw.py BEHAVIOURS; "late" = the answer arrives when time passes)
B(n) ==
  CASE n = "unknown"       -> [ack |-> "nack", code |-> 3,   ackdt |-> 0,   ans |-> "none", after |-> "keep"]
    [] n = "unreach"       -> [ack |-> "nack", code |-> 6,   ackdt |-> 0,   ans |-> "none", after |-> "keep"]
    [] n = "nackff"        -> [ack |-> "nack", code |-> 255, ackdt |-> 0,   ans |-> "none", after |-> "keep"]
    [] n = "silent"        -> [ack |-> "none", code |-> 0,   ackdt |-> 0,   ans |-> "none", after |-> "keep"]
    [] n = "ackonly"       -> [ack |-> "ack",  code |-> 0,   ackdt |-> 0,   ans |-> "none", after |-> "keep"]
    [] n = "pos"           -> [ack |-> "ack",  code |-> 0,   ackdt |-> 0,   ans |-> "pos",  after |-> "keep"]
    [] n = "neg"           -> [ack |-> "ack",  code |-> 0,   ackdt |-> 0,   ans |-> "neg",  after |-> "keep"]
    [] n = "pos1500"       -> [ack |-> "ack",  code |-> 0,   ackdt |-> 0,   ans |-> "late", after |-> "keep"]
    [] n = "ack500pos"     -> [ack |-> "ack",  code |-> 0,   ackdt |-> 500, ans |-> "pos",  after |-> "keep"]
    [] n = "odd"           -> [ack |-> "ack",  code |-> 0,   ackdt |-> 0,   ans |-> "odd",  after |-> "keep"]
    [] n = "posfar"        -> [ack |-> "ack",  code |-> 0,   ackdt |-> 0,   ans |-> "far",  after |-> "keep"]
    [] n = "unknown_close" -> [ack |-> "nack", code |-> 3,   ackdt |-> 0,   ans |-> "none", after |-> "close"]
    [] n = "pos_close"     -> [ack |-> "ack",  code |-> 0,   ackdt |-> 0,   ans |-> "pos",  after |-> "close"]
    [] n = "close"         -> [ack |-> "none", code |-> 0,   ackdt |-> 0,   ans |-> "none", after |-> "close"]

VARIABLES
  \* ---- sweep machine
  beh,       \* environment: behaviour of every swept address
  pc,        \* "send" | "ackwait" | "reconnect" | "final" | "done" | "idle"
  idx,       \* address being tried
  c,         \* number of the current connection
  gwOpen,    \* the gateway has not hung up the current connection
  ackres,    \* outcome of the pending ack wait
  rconn,     \* connection the reader task listens on
  ralive,    \* the reader task is alive
  dq,        \* per connection: diagnostic messages received and not yet consumed by the reader
  flight,    \* addresses whose (delayed) answer the gateway will send on the current connection
  reqs, acks, nacks, anss,      \* gateway-side ground truth (shape of the contract's observation)
  valid, resp, unreach, errs,   \* what the scanner reports
  \* ---- routing activation machine
  gw,        \* environment: gateway model [order, rats, srcs, accp]
  given,     \* environment: what --target gives [rat, src]  (-1: not given)
  stage,     \* "probe" | "prefilter" | "final" | "gate" | "sweep" | "exit20" | "idle"
  first,     \* routing_activation_types_first
  ratNU, srcNK,   \* rat_not_unsupported, rat_not_unknown
  targets,   \* tuples found by the last enumeration
  repRa, raSeen   \* reported tuples (artifact file), tuples the gateway answered with success

svars == <<beh, pc, idx, c, gwOpen, ackres, rconn, ralive, dq, flight, reqs, acks, nacks, anss, valid, resp, unreach, errs>>
rvars == <<gw, given, stage, first, ratNU, srcNK, targets, repRa, raSeen>>
vars  == <<svars, rvars>>

(* ------------------------------------------------------------------ sweep *)
SweepInit ==
  /\ beh \in [Addrs -> BehNames]
  /\ pc = "send" /\ idx = MinA /\ c = 1 /\ gwOpen = TRUE /\ ackres = "none"
  /\ rconn = 1 /\ ralive = TRUE /\ dq = [k \in 1..MaxConn |-> <<>>] /\ flight = {}
  /\ reqs = {} /\ acks = {} /\ nacks = {} /\ anss = {}
  /\ valid = {} /\ resp = {} /\ unreach = {} /\ errs = {}
SweepIdle ==
  /\ beh = <<>> /\ pc = "idle" /\ idx = 0 /\ c = 1 /\ gwOpen = TRUE /\ ackres = "none"
  /\ rconn = 1 /\ ralive = TRUE /\ dq = <<>> /\ flight = {}
  /\ reqs = {} /\ acks = {} /\ nacks = {} /\ anss = {}
  /\ valid = {} /\ resp = {} /\ unreach = {} /\ errs = {}

\* the reader task runs as soon as a message is queued for it (it only needs the loop to turn once)
ReaderIdle == ralive => dq[rconn] = <<>>

\* write_diag_request: the request reaches the gateway (unless the gateway hung up before), which reacts at once
Send ==
  /\ pc = "send" /\ ReaderIdle
  /\ pc' = "ackwait"
  /\ LET a == idx
         b == B(beh[a])
         imm  == b.ans \in {"pos", "neg", "odd", "far"}
         from == IF b.ans = "far" THEN FarAddr ELSE a
         data == CASE b.ans = "neg" -> <<127, 62, 17>> [] b.ans = "odd" -> <<80, 1>> [] OTHER -> <<126, 0>>
     IN IF ~gwOpen
        THEN /\ ackres' = "connerr"
             /\ UNCHANGED <<reqs, acks, nacks, anss, dq, flight, gwOpen>>
        ELSE /\ reqs'  = reqs \cup {[src |-> TesterAddr, dst |-> a, d |-> TesterPresent, act |-> TRUE]}
             /\ acks'  = IF b.ack = "ack" THEN acks \cup {[a |-> a, dt |-> b.ackdt, dl |-> TRUE]} ELSE acks
             /\ nacks' = IF b.ack = "nack" THEN nacks \cup {[a |-> a, code |-> b.code, dt |-> 0, dl |-> TRUE]} ELSE nacks
             /\ anss'  = IF imm THEN anss \cup {[a |-> from, to |-> TesterAddr, d |-> data, dt |-> b.ackdt, dl |-> TRUE]}
                         ELSE anss
             /\ dq'    = IF imm THEN [dq EXCEPT ![c] = Append(@, [a |-> from, odd |-> (b.ans = "odd")])] ELSE dq
             /\ flight' = IF b.ans = "late" THEN flight \cup {a} ELSE flight
             /\ gwOpen' = (b.after = "keep")
             /\ ackres' = CASE b.ack = "ack"  -> "ack"
                            [] b.ack = "nack" -> (IF b.code = 3 THEN "nack3" ELSE IF b.code = 6 THEN "nack6" ELSE "nackx")
                            [] b.after = "keep" -> "timeout"
                            [] OTHER -> "connerr"
  /\ UNCHANGED <<beh, idx, c, rconn, ralive, valid, resp, unreach, errs>>
  /\ UNCHANGED rvars

Advance == IF NextAddr(idx) = 0 THEN pc' = "final" /\ idx' = idx ELSE pc' = "send" /\ idx' = NextAddr(idx)

\* the ack wait ends: positive ack, negative ack, 2 s without ack, or the connection is gone
AckResult ==
  /\ pc = "ackwait" /\ ReaderIdle
  /\ (ackres = "timeout") => flight = {}       \* 2 s pass first: everything in flight has arrived
  /\ valid'   = IF ackres = "ack" \/ Dev_S3_ValidBeforeAck THEN valid \cup {idx} ELSE valid
  /\ unreach' = IF ackres = "nack6" THEN unreach \cup {idx} ELSE unreach
  /\ errs'    = IF ackres \in {"nackx", "timeout", "connerr"} THEN errs \cup {idx} ELSE errs
  /\ IF ackres \in {"timeout", "connerr"}
     THEN pc' = "reconnect" /\ idx' = idx /\ flight' = {}     \* conn.close(): what is still in flight is lost
     ELSE Advance /\ UNCHANGED flight
  /\ UNCHANGED <<beh, c, gwOpen, ackres, rconn, ralive, dq, reqs, acks, nacks, anss, resp>>
  /\ UNCHANGED rvars

\* "Re-establish DoIP connection"; the address that failed is not tried again
Reconnect ==
  /\ pc = "reconnect" /\ ReaderIdle
  /\ c' = c + 1 /\ gwOpen' = TRUE
  /\ rconn'  = IF Dev_S1_ReaderKeepsOldConnection THEN rconn ELSE c + 1
  /\ ralive' = IF Dev_S1_ReaderKeepsOldConnection THEN ralive ELSE TRUE
  /\ Advance
  /\ UNCHANGED <<beh, ackres, dq, flight, reqs, acks, nacks, anss, valid, resp, unreach, errs>>
  /\ UNCHANGED rvars

\* time passes (ack wait, final wait): a delayed answer arrives on the connection it was asked on
DeliverLate(a) ==
  /\ pc \in {"ackwait", "final"} /\ a \in flight /\ gwOpen
  /\ anss' = anss \cup {[a |-> a, to |-> TesterAddr, d |-> <<126, 0>>, dt |-> 1500, dl |-> TRUE]}
  /\ dq' = [dq EXCEPT ![c] = Append(@, [a |-> a, odd |-> FALSE])]
  /\ flight' = flight \ {a}
  /\ UNCHANGED <<beh, pc, idx, c, gwOpen, ackres, rconn, ralive, reqs, acks, nacks, valid, resp, unreach, errs>>
  /\ UNCHANGED rvars

\* task_read_diagnostic_messages: one message from the connection it listens on
ReaderStep ==
  /\ pc # "idle" /\ ralive /\ dq[rconn] # <<>>
  /\ LET m == Head(dq[rconn]) IN
       IF m.odd /\ Dev_S2_ReaderDiesOnUnexpectedAnswer
       THEN ralive' = FALSE /\ UNCHANGED resp
       ELSE resp' = resp \cup {m.a} /\ UNCHANGED ralive
  /\ dq' = [dq EXCEPT ![rconn] = Tail(@)]
  /\ UNCHANGED <<beh, pc, idx, c, gwOpen, ackres, rconn, flight, reqs, acks, nacks, anss, valid, unreach, errs>>
  /\ UNCHANGED rvars

\* "Giving all ECUs a chance to reply...": 2 s, then the reader is cancelled and the connection closed
Final ==
  /\ pc = "final" /\ ReaderIdle /\ (gwOpen => flight = {})
  /\ pc' = "done"
  /\ Export => PrintT(<<"C", beh, valid, resp, unreach, errs>>)
  /\ UNCHANGED <<beh, idx, c, gwOpen, ackres, rconn, ralive, dq, flight, reqs, acks, nacks, anss, valid, resp, unreach, errs>>
  /\ UNCHANGED rvars


SweepObs ==
  [cfg |-> [host |-> "gw", port |-> 13400, rat |-> 0, src |-> TesterAddr, start |-> MinA, stop |-> MaxA],
   acc |-> {<<0, TesterAddr>>}, ra |-> {<<0, TesterAddr>>}, repRa |-> {<<0, TesterAddr>>},
   reqs |-> reqs, acks |-> acks, nacks |-> nacks, anss |-> anss,
   repValid |-> valid, repResp |-> resp, repDb |-> resp, repUnreach |-> unreach, errs |-> errs,
   uris |-> {}, vers |-> {3}, done |-> IF pc = "done" THEN "ok" ELSE "running"]

(* ------------------------------------------------------------------ routing activation *)
Unsupported == 6
UnknownSrc  == 0
Denied      == 4

Code(r, s) ==
  LET rOk == r \in gw.rats
      sOk == s \in gw.srcs
  IN IF gw.order = "src"
     THEN (IF ~sOk THEN UnknownSrc ELSE IF ~rOk THEN Unsupported ELSE IF <<r, s>> \in gw.accp THEN RaSuccess ELSE Denied)
     ELSE (IF ~rOk THEN Unsupported ELSE IF ~sOk THEN UnknownSrc ELSE IF <<r, s>> \in gw.accp THEN RaSuccess ELSE Denied)

\* one call of enumerate_routing_activation_requests over rs x ss
NotUnsupported(rs, ss) == {r \in rs : \E s \in ss : IF Dev_S4_PrefilterInverted THEN Code(r, s) = Unsupported
                                                    ELSE Code(r, s) \notin {Unsupported, RaSuccess}}
NotUnknown(rs, ss)     == {s \in ss : \E r \in rs : IF Dev_S4_PrefilterInverted THEN Code(r, s) = UnknownSrc
                                                    ELSE Code(r, s) \notin {UnknownSrc, RaSuccess}}
Worked(rs, ss)         == {p \in rs \X ss : Code(p[1], p[2]) = RaSuccess}

UsableRats == RatPool \ {2}     \* 0x02 is a reserved activation type, 0x00 a reserved source address (comment in main())
UsableSrcs == SrcPool \ {0}

RaInit ==
  /\ gw \in {g \in [order : {"src", "rat"}, rats : SUBSET UsableRats, srcs : SUBSET UsableSrcs,
                     accp : SUBSET (UsableRats \X UsableSrcs)] : g.accp \subseteq g.rats \X g.srcs}
  /\ given \in [rat : {-1} \cup UsableRats, src : {-1} \cup UsableSrcs]
  /\ stage = "probe" /\ first = FALSE /\ ratNU = {} /\ srcNK = {} /\ targets = {} /\ repRa = {} /\ raSeen = {}
RaIdle ==
  /\ gw = <<>> /\ given = <<>> /\ stage = "idle" /\ first = FALSE /\ ratNU = {} /\ srcNK = {} /\ targets = {}
  /\ repRa = {} /\ raSeen = {}

CandR == IF given.rat >= 0 THEN {given.rat} ELSE RatPool
CandS == IF given.src >= 0 THEN {given.src} ELSE SrcPool

RaProbe ==
  /\ stage = "probe" /\ stage' = "prefilter"
  /\ first' = (NotUnsupported({2}, {0}) = {})
  /\ repRa' = repRa \cup Worked({2}, {0}) /\ raSeen' = raSeen \cup Worked({2}, {0})
  /\ UNCHANGED <<gw, given, ratNU, srcNK, targets>>
  /\ UNCHANGED svars

RaPrefilter ==
  /\ stage = "prefilter" /\ stage' = "final"
  /\ IF first /\ given.rat < 0
     THEN /\ ratNU' = NotUnsupported(RatPool, {0}) /\ srcNK' = CandS
          /\ repRa' = repRa \cup Worked(RatPool, {0}) /\ raSeen' = raSeen \cup Worked(RatPool, {0})
     ELSE IF ~first /\ given.src < 0
     THEN /\ srcNK' = NotUnknown({2}, SrcPool) /\ ratNU' = CandR
          /\ repRa' = repRa \cup Worked({2}, SrcPool) /\ raSeen' = raSeen \cup Worked({2}, SrcPool)
     ELSE /\ ratNU' = CandR /\ srcNK' = CandS /\ UNCHANGED <<repRa, raSeen>>
  /\ UNCHANGED <<gw, given, first, targets>>
  /\ UNCHANGED svars

RaFinal ==
  /\ stage = "final" /\ stage' = "gate"
  /\ targets' = Worked(ratNU, srcNK)
  /\ repRa' = repRa \cup Worked(ratNU, srcNK) /\ raSeen' = raSeen \cup Worked(ratNU, srcNK)
  /\ UNCHANGED <<gw, given, first, ratNU, srcNK>>
  /\ UNCHANGED svars

RaGate ==
  /\ stage = "gate"
  /\ stage' = IF Cardinality(targets) = 1 THEN "sweep" ELSE "exit20"
  /\ Export => PrintT(<<"R", gw, given, repRa, stage'>>)
  /\ UNCHANGED <<gw, given, first, ratNU, srcNK, targets, repRa, raSeen>>
  /\ UNCHANGED svars


RaObs ==
  [cfg |-> [host |-> "gw", port |-> 13400, rat |-> given.rat, src |-> given.src, start |-> 1, stop |-> 0],
   acc |-> gw.accp, ra |-> raSeen, repRa |-> repRa,
   reqs |-> {}, acks |-> {}, nacks |-> {}, anss |-> {},
   repValid |-> {}, repResp |-> {}, repDb |-> {}, repUnreach |-> {}, errs |-> {},
   uris |-> {}, vers |-> {3}, done |-> IF stage = "exit20" THEN "stopped" ELSE "ok"]

(* ------------------------------------------------------------------ specification *)
Init == IF Mode = "ra" THEN RaInit /\ SweepIdle ELSE SweepInit /\ RaIdle
\* in mode "ra" the sweep machine idles (pc = "idle") and vice versa (stage = "idle")
Next == \/ Send \/ AckResult \/ Reconnect \/ (\E a \in Addrs : DeliverLate(a)) \/ ReaderStep \/ Final
        \/ RaProbe \/ RaPrefilter \/ RaFinal \/ RaGate
Spec == Init /\ [][Next]_vars

SweepDone == Mode = "sweep" /\ pc = "done"
RaDone    == Mode = "ra" /\ stage \in {"sweep", "exit20"}

\* the contract, clause by clause
Inv_TA1_EveryAddressTried == SweepDone => TA1_EveryAddressTried(SweepObs)
Inv_TA2_OnlyConfigured    == Mode = "sweep" => TA2_OnlyConfiguredRequests(SweepObs)
Inv_TA3_ValidSound        == Mode = "sweep" => TA3_ValidSound(SweepObs)
Inv_TA3_ValidComplete     == SweepDone => TA3_ValidComplete(SweepObs)
Inv_TA4_FoundSound        == Mode = "sweep" => TA4_FoundSound(SweepObs)
Inv_TA4_FoundComplete     == SweepDone => TA4_FoundComplete(SweepObs)
Inv_TA5_Unreachable       == SweepDone => TA5_Unreachable(SweepObs)
Inv_RA1_Sound             == Mode = "ra" => RA1_Sound(RaObs)
Inv_RA2_Complete          == RaDone => RA2_Complete(RaObs)
Inv_RA3_Gate              == RaDone => RA3_Gate(RaObs)
Inv_M0                    == Mode = "ra" => M0_FakeConsistent(RaObs)
Inv_Verdict               == (SweepDone => Verdict(SweepObs) = "ok") /\ (RaDone => Verdict(RaObs) = "ok")
\* T0: the scan always reaches its end (no state short of the end without a successor)
Inv_T0_Progress           == (Mode = "sweep" /\ pc # "done") \/ (Mode = "ra" /\ ~RaDone) => ENABLED Next
=============================================================================
