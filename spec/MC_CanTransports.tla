--------------------------- MODULE MC_CanTransports ---------------------------
(* Model-checking instances of the X23 design layer (small constants, exhaustive). *)
EXTENDS CanTransports

\* ---- frames: identifiers at both ends of 11 / 29 bit x EFF x RTR x ERR x classic / FD x BRS x ESI x every length
\*      a CAN / CAN FD frame can carry x dlc given or not
FIds(eff) == IF eff THEN {0, 1, 2047, 2048, 305419896, 536870911} ELSE {0, 1, 291, 2047}
FData(n, id) == [i \in 1..n |-> (id + 13 * i) % 256]
Fr(i, e, r, x, f, b, s, c, n) ==
  [id |-> i, eff |-> e, rtr |-> r, err |-> x, fd |-> f, brs |-> b, esi |-> s, dlc |-> c, d |-> FData(n, i), dev |-> "none"]
FramesAll ==
  UNION {UNION {
    {Fr(i, e, FALSE, x, FALSE, FALSE, FALSE, c, n) : n \in 0..8, c \in {-1}} \cup
    {Fr(i, e, FALSE, x, FALSE, FALSE, FALSE, n, n) : n \in 0..8} \cup
    {Fr(i, e, TRUE, x, FALSE, FALSE, FALSE, c, 0) : c \in {-1, 0, 4, 8}} \cup
    {Fr(i, e, FALSE, x, TRUE, b, s, -1, n) : n \in FdLens, b \in BOOLEAN, s \in BOOLEAN} \cup
    {Fr(i, e, FALSE, x, TRUE, b, s, n, n) : n \in FdLens, b \in BOOLEAN, s \in BOOLEAN}
      : i \in FIds(e), x \in BOOLEAN} : e \in BOOLEAN}
FramesSmall == {f \in FramesAll : f.id \in {1, 2047, 536870911} /\ Len(f.d) \in {0, 3, 8, 12, 64} /\ ~f.esi}

\* ---- raw
RawCfgs(xs, fs, ds) == [iface : {"vcan0"}, xid : xs, fd : fs, dst : ds, valid : {TRUE}, dev : {"none"}]
RawAll   == RawCfgs(BOOLEAN, BOOLEAN, {-1, 0, 1})
RawClassic == RawCfgs(BOOLEAN, {FALSE}, {1})
RawXid   == RawCfgs({TRUE}, {FALSE}, {1})
RawPlain == RawCfgs({FALSE}, {FALSE}, {1})
Ids12 == {1, 2}
RawFdDst == RawCfgs({FALSE}, BOOLEAN, {-1, 0, 1})
Ids3 == {1, 2, 2049}
Ids2 == {1, 2049}
Ids01 == {0, 1}
Lens1 == {1}
LensFd == {2, 12}
OpsFilter == {"filter", "recv"}
OpsIo == {"sendto", "write", "recv", "close"}
OpsIdle == {"idle", "filter"}
OpsAll == {"filter", "recv", "sendto", "write", "idle", "close"}

\* ---- iso
IsoCfg(xid, fd, tt, ea, rea, tp, rp, dl, hex) ==
  [iface |-> "can0", src |-> IF xid THEN 416940273 ELSE 1780, dst |-> IF xid THEN 417001728 ELSE 1620, xid |-> xid,
   fd |-> fd, txtime |-> tt, ea |-> ea, rea |-> rea, txpad |-> tp, rxpad |-> rp, txdl |-> dl, valid |-> TRUE, hex |-> hex, dev |-> "none"]
IsoAll == {IsoCfg(xid, fd, tt, ea, rea, tp, rp, dl, hex) :
             xid \in BOOLEAN, fd \in BOOLEAN, tt \in {-1, 0, 20}, ea \in {-1, 0, 84}, rea \in {-1, 244}, tp \in {-1, 0, 170},
             rp \in {-1, 85}, dl \in {-1, 16}, hex \in BOOLEAN}
IsoTwo == {IsoCfg(FALSE, FALSE, -1, -1, -1, -1, -1, -1, FALSE), IsoCfg(TRUE, TRUE, 20, 84, 244, 170, 85, 16, FALSE)}
IsoOne == {IsoCfg(FALSE, FALSE, -1, -1, -1, -1, -1, -1, FALSE)}
PduLens == {1, 3}
ErrAll == {70, 84, 110, 100}
OpsIso == {"read", "write", "close"}
FramesQuick == {f \in FramesAll : Len(f.d) \in {0, 1, 8, 12, 64} /\ (f.esi => f.brs)}
IsoQuick == {c \in IsoAll : c.txtime # 0 /\ c.txpad # 0}
IsoFull == {IsoCfg(xid, TRUE, 20, 0, 244, 170, 85, 16, hex) : xid \in BOOLEAN, hex \in BOOLEAN}

\* ---- sweeps: every configuration x every deviation of the list
With(S, devs) == {[c EXCEPT !.dev = d] : c \in S, d \in devs}
SweepFrames == With(FramesSmall, {"FdFlagDropped", "RtrBit", "UnpackNoCut"})
SweepFilter == With(RawClassic, {"SffMaskAlways", "MaskSwapped", "JoinSticky", "NoJoin", "TimeoutEats"})
SweepIo     == With(RawFdDst, {"DstTruthy", "CloseNoop", "FdFlagDropped"})
SweepIdle   == With(RawPlain, {"IdleStopsOnTimeout"})
SweepConn   == With(IsoFull, {"PadSwapped", "ExtTruthy", "BindSwapped", "BindFirst", "NoLLOpts", "HexRejected"})
SweepIsoIo  == With(IsoOne, {"EcommReraised", "EilseqTimeout", "ErrSwallowed", "BufSmall"})
NoOps == {}
NoIds == {}
NoErr == {}
=============================================================================
