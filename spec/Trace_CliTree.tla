---------------------------- MODULE Trace_CliTree ----------------------------
(* Code -> spec for X17: validates, against CliTreeContract, what the REAL gallia
   front end / plugin registry did (harness/props/x17.py, harness/x17_run.py).
   One initial state per recorded execution; total verdicts
   ("ok" | "ok-unspecified" | label of the first clause broken).

   Record kinds in the batch: load, broken, dispatch, lookup, list, showcfg,
   template, template_cmd, plugins, rerun, hr (fields: see harness/x17_run.py). *)
EXTENDS CliTreeContract, Json, IOUtils

Batch == JsonDeserialize(IOEnv.TRACE_FILE)
T == Batch.traces

VARIABLES tid, verdict
tvars == <<tid, verdict>>

Missing(x) == {x.expect[i].k : i \in {j \in 1..Len(x.expect) : ~x.found[j]}}

FullVerdict(x) ==
  CASE x.kind = "load" ->
         LoadVerdictS(ToSet(x.regs), ToSet(x.descs), x.ok, ToSet(x.tree), Len(x.tree))
    [] x.kind = "broken" -> BrokenVerdictS(x.ok)
    [] x.kind = "dispatch" ->
         DispatchVerdictS(x.cls_, ToSet(x.tree), x.ran, x.exit, x.ret, x.err, ToSet(x.children),
                          ToSet(x.listed), x.top, x.version, x.shown_version)
    [] x.kind = "lookup" -> LookupVerdictS(ToSet(x.reg), x.q, x.res)
    [] x.kind = "list" ->
         ListVerdictS({x.reg[i].cls : i \in 1..Len(x.reg)}, ToSet(x.got), Len(x.got), Len(x.reg))
    [] x.kind = "showcfg" ->
         ShowCfgVerdictS(x.have.env, x.have.cwd, x.git, x.have.xdgset, x.have.xdg, x.have.home,
                         x.shown, x.used, x.ran, x.content)
    [] x.kind = "template" -> TemplateVerdictS(x.parses, x.exit, x.ran)
    [] x.kind = "template_cmd" -> TemplateCmdVerdictS(x.base_ran, x.with_ran, x.base, x.with)
    [] x.kind = "plugins" ->
         PluginsVerdictS(Missing(x), {[want |-> x.counts[i].want, got |-> x.counts[i].got] : i \in 1..Len(x.counts)},
                         x.exit, x.ran)
    [] x.kind = "rerun" ->
         RerunVerdictS(x.how, x.stored_cls, x.want_cls, x.stored, x.ran, x.exit, x.ret)
    [] x.kind = "hr" -> HrVerdictS(x.exit, x.out_empty, x.err)
    [] OTHER -> "machinery/unknown-record-kind"

TInit == tid \in 1..Len(T) /\ verdict = "?"
TNext == /\ verdict = "?"
         /\ verdict' = FullVerdict(T[tid])
         /\ tid' = tid
         /\ PrintT(<<"V", T[tid].id, verdict'>>)
TSpec == TInit /\ [][TNext]_tvars
=============================================================================
