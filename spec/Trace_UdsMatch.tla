-------------------------- MODULE Trace_UdsMatch --------------------------
(* Code -> spec: validates recorded (request, reply, outcome) cases of the real
   helpers.parse_pdu and UDSClient.request() against the contract of C03.
   One initial state per recorded case; the verdict is total:
   "ok" or the label of the first clause broken (suffix "@e2e" when only the
   end-to-end observation breaks it).

   case = [id, req, raw, reply,          request.pdu, caller used RawRequest, reply bytes
           p,                             parse_pdu: "Accept" | "Mismatch" | "Malformed" | "Other"
           e,                             UDSClient.request(): same alphabet, "NA" if not run
           map]                           RESPONSE_CODE of UnexpectedNegativeResponse.parse_dynamic
                                          for an accepted negative response, -1 none, -2 not applicable *)
EXTENDS UdsMatchContract, Json, IOUtils, TLC

Batch == JsonDeserialize(IOEnv.TRACE_FILE)
T == Batch.traces

VARIABLES tid, verdict
tvars == <<tid, verdict>>

FullVerdict(x) ==
  LET v1 == Verdict(x.req, x.raw, x.reply, x.p)
      v2 == IF x.e = "NA" THEN "ok" ELSE VerdictE2e(x.req, x.raw, x.reply, x.e)
      v3 == IF x.map = -2 THEN "ok" ELSE VerdictMap(x.reply, x.p, x.map) IN
  IF v1 # "ok" THEN v1
  ELSE IF v2 # "ok" THEN v2 \o "@e2e"
  ELSE v3

TInit == tid \in 1..Len(T) /\ verdict = "?"
TNext == /\ verdict = "?"
         /\ verdict' = FullVerdict(T[tid])
         /\ tid' = tid
         /\ PrintT(<<"V", T[tid].id, verdict', Class(T[tid].req, T[tid].raw, T[tid].reply)>>)
TSpec == TInit /\ [][TNext]_tvars
=============================================================================
