SPECIFICATION Spec
CONSTANTS
  N = 4
  Faults = 3
  Dev_RequeueAtTail = TRUE
INVARIANT W_AtEnd
PROPERTY W4_Drains
CHECK_DEADLOCK FALSE
