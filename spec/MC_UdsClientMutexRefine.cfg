SPECIFICATION Spec
CONSTANTS
  Callers = {"c1", "c2", "c3"}
  Victim = "c2"
  Dev_ReleaseInPending = FALSE
INVARIANT AbsIndInv
INVARIANT AbsSafety
PROPERTY AbsSpec
CHECK_DEADLOCK FALSE
