\* 4 candidates, default argument shape (mandatory session 1, DSC mandatory)
SPECIFICATION Spec
CONSTANTS
  Cand <- Cand4
  MandSeq <- Mand1
  DscMandatory = TRUE
  FlipReset = FALSE
  Export = FALSE
  Dev_NoBackEdge = FALSE
  Dev_NoAttach = FALSE
  Dev_AttachNoEdge = FALSE
  Dev_DscNotForced = TRUE
INVARIANT TypeOK
INVARIANT Inv_W0
INVARIANT Inv_W1
INVARIANT Inv_W2
INVARIANT Inv_W3
INVARIANT Inv_W4
INVARIANT Inv_Verdict
INVARIANT Inv_LoopGraph
PROPERTY Terminates
CHECK_DEADLOCK FALSE
