-------------------------- MODULE MC_DoipDiscover --------------------------
(* Model-checking instances of the X08 design layer (small constants, exhaustive). *)
EXTENDS DoipDiscover

BehAll   == {"unknown", "unreach", "nackff", "silent", "ackonly", "pos", "neg", "pos1500", "ack500pos", "odd",
             "posfar", "unknown_close", "pos_close", "close"}
BehCore  == {"unknown", "unreach", "silent", "ackonly", "pos", "neg", "pos1500", "odd", "unknown_close", "pos_close", "close"}
BehSmall == {"unknown", "silent", "pos", "pos1500", "odd", "close"}
Addrs2 == 1..2
Addrs3 == 1..3
Addrs4 == 1..4
Rats4  == {0, 1, 2, 3}
Srcs3  == {0, 5, 6}
None   == {}
=============================================================================
