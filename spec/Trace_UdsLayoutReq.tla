------------------------- MODULE Trace_UdsLayoutReq -------------------------
(* C01, code -> spec: batch oracle.  Every recorded execution of a real request
   class (constructor outcome, .pdu, <Class>.from_pdu(pdu), parse_dynamic(pdu),
   bytes UDSClient.<method>() wrote) gets a total verdict from the contract
   layer: "ok" or the label of the first clause of C01 it breaks, plus the range
   class of its parameters ("in" | "out" | "unspec").  One initial state per
   execution; the verdict is computed in the step so that workers share the load. *)
EXTENDS UdsLayoutContract, Json, IOUtils

Batch == JsonDeserialize(IOEnv.TRACE_FILE)
T == Batch.traces

VARIABLES tid, verdict
tvars == <<tid, verdict>>

TInit == tid \in 1..Len(T) /\ verdict = "?"
TNext == /\ verdict = "?"
         /\ verdict' = ReqVerdict(T[tid])
         /\ tid' = tid
         /\ PrintT(<<"V", T[tid].id, verdict', ReqRange(T[tid].kind, T[tid].f), ReqBroken(T[tid])>>)
TSpec == TInit /\ [][TNext]_tvars
=============================================================================
