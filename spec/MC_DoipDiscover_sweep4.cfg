SPECIFICATION Spec
CHECK_DEADLOCK FALSE
CONSTANTS
  Mode = "sweep"
  Addrs <- Addrs4
  BehNames <- BehCore
  RatPool <- Rats4
  SrcPool <- Srcs3
  Export = FALSE
  Dev_S1_ReaderKeepsOldConnection = FALSE
  Dev_S2_ReaderDiesOnUnexpectedAnswer = FALSE
  Dev_S3_ValidBeforeAck = FALSE
  Dev_S4_PrefilterInverted = FALSE
INVARIANT Inv_TA1_EveryAddressTried
INVARIANT Inv_TA2_OnlyConfigured
INVARIANT Inv_TA3_ValidSound
INVARIANT Inv_TA3_ValidComplete
INVARIANT Inv_TA4_FoundSound
INVARIANT Inv_TA4_FoundComplete
INVARIANT Inv_TA5_Unreachable
INVARIANT Inv_Verdict
INVARIANT Inv_T0_Progress
