---------------------- MODULE Trace_ConfigPrecedence ----------------------
(* Code -> spec: validates, against the contract layer of C18, what the REAL
   gallia parser / config classes did (harness/props/c18.py).  One initial state
   per recorded execution; total verdicts.

   Record kinds in the batch:
     "prec"     one parse of one command with one option under test
                (present, applies, val, positional, out) -> Q1/Q2
     "reload"   dump -> load of one configuration (orig, re, err) -> Q3
     "template" template keys vs. declared / loader keys           -> Q4 *)
EXTENDS ConfigPrecedenceContract, Json, IOUtils

Batch == JsonDeserialize(IOEnv.TRACE_FILE)
T == Batch.traces

VARIABLES tid, verdict
tvars == <<tid, verdict>>

CaseRec(x) == [present |-> ToSet(x.present), applies |-> ToSet(x.applies),
               val |-> x.val, positional |-> x.positional]
OutRec(x)  == IF x.out.t = "value" THEN x.out
              ELSE [t |-> "error", named |-> ToSet(x.out.named)]

FullVerdict(x) ==
  CASE x.kind = "prec" ->
         LET c == CaseRec(x)  o == OutRec(x)  v == Verdict(c, o, FALSE) IN
         IF v = "ok" /\ Unspecified(c, o) THEN "ok-unspecified" ELSE v
    [] x.kind = "reload"   -> ReloadVerdict(x)
    [] x.kind = "template" -> TemplateVerdict(x)
    [] OTHER -> "machinery/unknown-record-kind"

TInit == tid \in 1..Len(T) /\ verdict = "?"
TNext == /\ verdict = "?"
         /\ verdict' = FullVerdict(T[tid])
         /\ tid' = tid
         /\ PrintT(<<"V", T[tid].id, verdict'>>)
TSpec == TInit /\ [][TNext]_tvars
=============================================================================
