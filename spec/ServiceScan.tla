--------------------------- MODULE ServiceScan ---------------------------
(* Design layer of the service scan, shaped like
   gallia.commands.scan.uds.services.ServicesScanner (main / perform_scan): one action per
   await point.  The environment is an abstract ECU chosen nondeterministically in Init:
   per (session, service id) a behaviour class.  TLC checks that the design satisfies the
   contract clauses of ServiceScanContract for every ECU model and configuration. *)
EXTENDS ServiceScanContract

CONSTANTS
  Sids,           \* representative service ids (all others behave like "Absent")
  ModelSessions,  \* sessions the ECU has; every one can be entered from every other one
  Classes,        \* behaviour classes an ECU may show for one (session, sid)
  Cfgs,           \* scanner configurations (records, see MC_ServiceScan)
  ProbeLens,      \* code: [1, 2, 3, 5]
  Dev_MaskBit7,            \* negative control: response-id filter tests bit 7 instead of bit 6
  Dev_ShortLens,           \* negative control: the last probe length is dropped
  Dev_BreakOnLenErr,       \* negative control: a length error ends the probing of a service id
  Dev_BreakOnTimeout,      \* negative control: a timeout ends the probing of a service id
  Dev_CheckDoesNotRestore  \* negative control: check_session notices the wrong session but does not re-enter

VARIABLES M, C, pc, queue, cur, todo, sid, li, found, truth, hist, result, verdict
vars == <<M, C, pc, queue, cur, todo, sid, li, found, truth, hist, result, verdict>>

\* ------------------------------------------------------------ abstract ECU
Cls(k, at, pos, drop, q) == [k |-> k, at |-> at, pos |-> pos, drop |-> drop, q |-> q]
Absent     == Cls("Absent", 0, FALSE, FALSE, FALSE)
AbsentHere == Cls("AbsentHere", 0, FALSE, FALSE, FALSE)
LenErrAlw  == Cls("LenErr", 0, FALSE, FALSE, FALSE)
Silent     == Cls("Silent", 0, FALSE, FALSE, FALSE)
AnswersAt(at, pos, drop) == Cls("Ans", at, pos, drop, FALSE)   \* shorter requests: length error
QuietBelow(at, pos)      == Cls("Ans", at, pos, FALSE, TRUE)   \* shorter requests: no answer at all

ClassAns(c, n) ==
  CASE c.k = "Absent"     -> SNS
    [] c.k = "AbsentHere" -> SNSIAS
    [] c.k = "LenErr"     -> LENERR
    [] c.k = "Silent"     -> NONE
    [] c.k = "Ans"        -> IF n < c.at THEN (IF c.q THEN NONE ELSE LENERR) ELSE IF c.pos THEN POS ELSE NEG
ClassImpl(c) == c.k \notin {"Absent", "AbsentHere"}

SvcClass(s, x) == IF <<s, x>> \in DOMAIN M.svc THEN M.svc[<<s, x>>] ELSE Absent

Lens == IF Dev_ShortLens THEN SubSeq(ProbeLens, 1, Len(ProbeLens) - 1) ELSE ProbeLens

\* what the contract sees
CC == [has |-> C.has, req |-> ToSet(C.sessions), skipAll |-> C.skipAll, skip |-> C.skip,
       respIds |-> C.respIds, tp |-> FALSE, start |-> 1, U |-> Sids, reset |-> 0]
EE == [pl |-> ProbeLens, dom |-> ModelSessions,
       ans  |-> [k \in ModelSessions \X Sids |-> [i \in 1..Len(ProbeLens) |-> ClassAns(M.svc[k], ProbeLens[i])]],
       impl |-> [k \in ModelSessions \X Sids |-> ClassImpl(M.svc[k])]]

MinOf(S) == CHOOSE x \in S : \A y \in S : x <= y

HasDrop(m) == \E k \in DOMAIN m.svc : m.svc[k].drop

Init ==
  /\ M \in [svc : [ModelSessions \X Sids -> Classes], sessRead : BOOLEAN]
  /\ C \in Cfgs
  \* assumption A1: an ECU that leaves its session by itself is only in scope with check_session
  \* (and a readable session); without the check no scanner could notice
  /\ HasDrop(M) => (C.check /\ C.has /\ M.sessRead)
  /\ (~C.check) => M.sessRead          \* the session read only matters with check_session
  /\ pc = "Start" /\ queue = <<>> /\ cur = 0 /\ todo = {} /\ sid = 0 /\ li = 1
  /\ found = {} /\ truth = 1 /\ hist = <<>> /\ result = {} /\ verdict = "?"

\* main(): session list filtered by whole-session skips
Start ==
  /\ pc = "Start"
  /\ IF C.has
     THEN /\ queue' = SelectSeq(C.sessions, LAMBDA s : s \notin C.skipAll)
          /\ pc' = "NextSess" /\ UNCHANGED todo
     ELSE /\ pc' = "Sid" /\ todo' = Sids /\ UNCHANGED queue
  /\ UNCHANGED <<M, C, cur, sid, li, found, truth, hist, result, verdict>>

DscEv(s) == <<truth, 2, 16, s, 256, IF s \in ModelSessions THEN POS ELSE NEG>>

\* await self.ecu.set_session(session)
NextSess ==
  /\ pc = "NextSess"
  /\ IF queue = <<>>
     THEN pc' = "Report" /\ UNCHANGED <<queue, cur, todo, truth, hist>>
     ELSE LET s == Head(queue) IN
          /\ queue' = Tail(queue)
          /\ hist' = Append(hist, DscEv(s))
          /\ IF s \in ModelSessions
             THEN truth' = s /\ cur' = s /\ todo' = Sids /\ pc' = "Sid"
             ELSE UNCHANGED <<truth, cur, todo>> /\ pc' = "NextSess"     \* "skipping session"
  /\ UNCHANGED <<M, C, sid, li, found, result, verdict>>

RespIdFilter(x) == IF Dev_MaskBit7 THEN (x \div 128) % 2 = 1 ELSE IsRespId(x)

\* while sid < 0xFF: sid += 1; filters
SidStep ==
  /\ pc = "Sid"
  /\ IF todo = {}
     THEN pc' = (IF C.has THEN "NextSess" ELSE "Report") /\ UNCHANGED <<todo, sid, li>>
     ELSE LET x == MinOf(todo) IN
          /\ todo' = todo \ {x}
          /\ IF (RespIdFilter(x) /\ ~C.respIds) \/ (C.has /\ (cur \in C.skipAll \/ <<cur, x>> \in C.skip))
             THEN pc' = "Sid" /\ UNCHANGED <<sid, li>>
             ELSE sid' = x /\ li' = 1 /\ pc' = (IF C.has /\ C.check THEN "Check" ELSE "Probe")
  /\ UNCHANGED <<M, C, queue, cur, found, truth, hist, result, verdict>>

ReadEv(t) == <<t, 3, 34, 241, 134, IF M.sessRead THEN POS ELSE NEG>>

\* await self.ecu.check_and_set_session(session)
Check ==
  /\ pc = "Check"
  /\ IF M.sessRead /\ truth # cur /\ ~Dev_CheckDoesNotRestore
     THEN /\ hist' = hist \o <<ReadEv(truth), <<truth, 2, 16, cur, 256, POS>>, ReadEv(cur)>>
          /\ truth' = cur
     ELSE /\ hist' = Append(hist, ReadEv(truth))
          /\ UNCHANGED truth
  /\ pc' = "Probe"
  /\ UNCHANGED <<M, C, queue, cur, todo, sid, li, found, result, verdict>>

\* await self.ecu.send_raw(bytes([sid]) + bytes(length_payload)) and the reverse matching
Probe ==
  /\ pc = "Probe"
  /\ LET n == Lens[li]
         c == SvcClass(truth, sid)
         r == ClassAns(c, n)
     IN /\ hist' = Append(hist, <<truth, n + 1, sid, 0, IF n >= 2 THEN 0 ELSE 256, r>>)
        /\ truth' = IF c.drop /\ Meaningful(r) THEN 1 ELSE truth
        /\ IF NotSupp(r) \/ (r = LENERR /\ Dev_BreakOnLenErr) \/ (r = NONE /\ Dev_BreakOnTimeout)
           THEN pc' = "Sid" /\ UNCHANGED <<li, found>>
           ELSE IF r \in {LENERR, NONE}
           THEN IF li < Len(Lens) THEN li' = li + 1 /\ UNCHANGED <<pc, found>>
                                  ELSE pc' = "Sid" /\ UNCHANGED <<li, found>>
           ELSE found' = found \cup {<<cur, sid>>} /\ pc' = "Sid" /\ UNCHANGED li
  /\ UNCHANGED <<M, C, queue, cur, todo, sid, result, verdict>>

Report ==
  /\ pc = "Report"
  /\ result' = found /\ pc' = "Done"
  /\ verdict' = Verdict(CC, EE, hist, found)        \* the contract's verdict on the finished scan
  /\ UNCHANGED <<M, C, queue, cur, todo, sid, li, found, truth, hist>>

Next == Start \/ NextSess \/ SidStep \/ Check \/ Probe \/ Report
Spec == Init /\ [][Next]_vars /\ WF_vars(Next)

\* ------------------------------------------------------------ properties
\* (the contract is evaluated once per finished scan, in Report; one invariant per clause)
TypeOK == pc \in {"Start", "NextSess", "Sid", "Check", "Probe", "Report", "Done"}
Done == pc = "Done"
M0_Model        == verdict # "M0/fake-ecu-inconsistent-with-its-model"
V1a_Only        == verdict # "V1/reported-but-not-supported"
V1b_All         == verdict # "V1/supported-but-not-reported"
V2_InSession    == verdict # "V2/probe-outside-claimed-session"
V3_Attempt      == verdict # "V3/requested-session-not-attempted"
V3_Probed       == verdict # "V3/service-id-not-probed"
V4_Skip         == verdict # "V4/skipped-was-probed"
V5_RespIds      == verdict # "V5/response-id-probed-unasked"
VerdictOk       == Done => verdict = "ok"
Terminates      == <>Done
=============================================================================
