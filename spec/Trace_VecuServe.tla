----------------------- MODULE Trace_VecuServe -----------------------
(* Code -> spec for X21: every recorded scenario of the real line server is judged by VecuServeContract!Verdict. *)
EXTENDS VecuServeContract, Json, IOUtils

Batch == JsonDeserialize(IOEnv.TRACE_FILE)
T == Batch.traces

VARIABLES tid, done
tvars == <<tid, done>>

TInit == tid \in 1..Len(T) /\ done = FALSE
TDone == /\ ~done /\ PrintT(<<"V", T[tid].id, Verdict(T[tid].ev)>>) /\ done' = TRUE /\ UNCHANGED tid
TSpec == TInit /\ [][TDone]_tvars
=============================================================================
