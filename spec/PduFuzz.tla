----------------------------- MODULE PduFuzz -----------------------------
(* Design layer of X09, shaped like gallia.commands.fuzz.uds.pdu.PDUFuzzer.main (one action per await
   point / loop head) on top of the UDS client's retry loop (UDSClient.request_unsafe: a silent ECU or a lost
   connection is retried MaxRetry times, the connection is re-established before a retry but NOT after the
   last one).  Environment: the ECU refuses a subset of the sessions (chosen in Init) and answers every fuzz
   request with a class chosen nondeterministically from Classes; payload bytes are abstracted to zeros,
   their length is chosen nondeterministically.  TLC checks the clauses of PduFuzzContract on the history
   of every complete behaviour.  Deviation constants are negative controls. *)
EXTENDS PduFuzzContract

CONSTANTS
  Cfgs,            \* configurations [svc, dids, sessions, min, max, iter, prefix]
  Classes,         \* subset of {"pos", "posfb", "neg49", "neg51", "sil", "mis", "mal", "drop"}
  RefuseSets,      \* sets of sessions the ECU may refuse to enter
  MaxRetry,        \* retries of the UDS client (>= 1)
  Dev_NoSkipOnRefusal,     \* negative control: no `continue` after a refused session switch
  Dev_TimeoutNotCounted,   \* negative control: the TimeoutError handler does not count
  Dev_IllegalEndsRun,      \* negative control: no IllegalResponse handler: the exception ends the run
  Dev_LenOffByOne,         \* negative control: payload of up to max_length + 1 bytes
  Dev_StatsCarryOver,      \* negative control: counters not reset for the next session
  Dev_OneIterationMore,    \* negative control: range(iterations + 1)
  Dev_StopRoutine          \* negative control: RoutineControl sub-function 02 instead of 01

ASSUME MaxRetry >= 1

VARIABLES C, refuse, pc, todo, cur, it, att, plen, truth, dead, conn, st, hist, done, verdict
vars == <<C, refuse, pc, todo, cur, it, att, plen, truth, dead, conn, st, hist, done, verdict>>

St0 == [pos |-> 0, negs |-> <<>>, tmo |-> 0, ill |-> 0, fc |-> 0]

Q(t, c, p, r, nrc, fb) == [k |-> "q", t |-> t, c |-> c, p |-> p, r |-> r, nrc |-> nrc, fb |-> fb, ib |-> FALSE]

Zeros(n) == [i \in 1..n |-> 0]
Pdu(d, n) ==
  (IF C.svc = RC THEN <<RC, IF Dev_StopRoutine THEN 2 ELSE 1, d \div 256, d % 256>>
                 ELSE <<C.svc, d \div 256, d % 256>>) \o C.prefix \o Zeros(n)

RECURSIVE PairsOf(_, _)
PairsOf(ds, ss) == IF ds = <<>> THEN <<>>
                   ELSE [i \in DOMAIN ss |-> <<Head(ds), ss[i]>>] \o PairsOf(Tail(ds), ss)

Init ==
  /\ C \in Cfgs
  /\ refuse \in RefuseSets
  /\ pc = "Start" /\ todo = <<>> /\ cur = <<0, 0>> /\ it = 0 /\ att = 0 /\ plen = 0
  /\ truth = 1 /\ dead = FALSE /\ conn = 1 /\ st = St0 /\ hist = <<>> /\ done = "?" /\ verdict = "?"

\* for did in dids: for session in sessions
Start ==
  /\ pc = "Start"
  /\ todo' = PairsOf(SetToSeq(C.dids), SetToSeq(C.sessions))
  /\ pc' = "Switch"
  /\ UNCHANGED <<C, refuse, cur, it, att, plen, truth, dead, conn, st, hist, done, verdict>>

\* resp = await self.ecu.set_session(session); negative: warning + continue
Switch ==
  /\ pc = "Switch"
  /\ IF todo = <<>>
     THEN /\ pc' = "Judge" /\ done' = "ok"
          /\ UNCHANGED <<todo, cur, it, truth, dead, conn, st, hist>>
     ELSE LET s  == Head(todo)[2]
              ok == s \notin refuse
              c1 == IF dead THEN conn + 1 ELSE conn      \* first attempt lost on the dead connection, retried
          IN /\ todo' = Tail(todo)
             /\ cur' = Head(todo)
             /\ conn' = c1 /\ dead' = FALSE
             /\ done' = done
             /\ IF ok \/ Dev_NoSkipOnRefusal
                THEN /\ hist' = hist \o <<Q(truth, c1, <<16, s>>, IF ok THEN "pos" ELSE "neg", IF ok THEN 0 ELSE 34, FALSE),
                                          [k |-> "start", s |-> s]>>
                     /\ truth' = IF ok THEN s ELSE truth
                     /\ st' = IF Dev_StatsCarryOver THEN st ELSE St0
                     /\ it' = 0
                     /\ pc' = "Iter"
                ELSE /\ hist' = Append(hist, Q(truth, c1, <<16, s>>, "neg", 34, FALSE))
                     /\ UNCHANGED <<truth, st, it>>
                     /\ pc' = "Switch"
  /\ UNCHANGED <<C, refuse, att, plen, verdict>>

\* for _ in range(iterations): payload = prefixed_payload + generate_payload()
Iter ==
  /\ pc = "Iter"
  /\ IF it >= C.iter + (IF Dev_OneIterationMore THEN 1 ELSE 0)
     THEN pc' = "Stats" /\ UNCHANGED <<plen, att>>
     ELSE /\ plen' \in C.min..(C.max + (IF Dev_LenOffByOne THEN 1 ELSE 0))
          /\ att' = 0
          /\ pc' = "Send"
  /\ UNCHANGED <<C, refuse, todo, cur, it, truth, dead, conn, st, hist, done, verdict>>

Negs == {"neg49", "neg51"}
NrcOf(cls) == IF cls = "neg49" THEN 49 ELSE 51

\* await self.ecu.send_raw(pdu + payload, max_retry=3): one attempt of the UDS client per step
Send ==
  /\ pc = "Send"
  /\ IF dead
     THEN \* the request is written into the closed connection, EOF is read: reconnect and retry
          /\ conn' = conn + 1 /\ dead' = FALSE /\ att' = att + 1
          /\ UNCHANGED <<it, truth, st, hist, done, pc>>
     ELSE \E cls \in Classes :
          LET p == Pdu(cur[1], plen)
              ev(r, nrc, fb) == Append(hist, Q(truth, conn, p, r, nrc, fb))
              more == att < MaxRetry
          IN CASE cls \in {"pos", "posfb"} ->
                    /\ hist' = ev("pos", 0, cls = "posfb")
                    /\ truth' = IF cls = "posfb" THEN 1 ELSE truth
                    /\ st' = [st EXCEPT !.pos = @ + 1]
                    /\ it' = it + 1 /\ pc' = "Iter"
                    /\ UNCHANGED <<att, dead, conn, done>>
               [] cls \in Negs ->
                    /\ hist' = ev("neg", NrcOf(cls), FALSE)
                    /\ st' = [st EXCEPT !.negs = Append(@, NrcOf(cls))]
                    /\ it' = it + 1 /\ pc' = "Iter"
                    /\ UNCHANGED <<att, truth, dead, conn, done>>
               [] cls \in {"mis", "mal"} ->
                    /\ hist' = ev(cls, 0, FALSE)
                    /\ IF Dev_IllegalEndsRun
                       THEN done' = "exc" /\ pc' = "Judge" /\ UNCHANGED <<st, it>>
                       ELSE st' = [st EXCEPT !.ill = @ + 1] /\ it' = it + 1 /\ pc' = "Iter" /\ done' = done
                    /\ UNCHANGED <<att, truth, dead, conn>>
               [] cls = "sil" ->
                    /\ hist' = ev("sil", 0, FALSE)
                    /\ IF more
                       THEN att' = att + 1 /\ pc' = "Send" /\ UNCHANGED <<st, it>>
                       ELSE /\ st' = IF Dev_TimeoutNotCounted THEN st ELSE [st EXCEPT !.tmo = @ + 1]
                            /\ it' = it + 1 /\ pc' = "Iter" /\ att' = att
                    /\ UNCHANGED <<truth, dead, conn, done>>
               [] cls = "drop" ->
                    /\ hist' = ev("drop", 0, FALSE)
                    /\ IF more
                       THEN att' = att + 1 /\ conn' = conn + 1 /\ dead' = FALSE /\ pc' = "Send"
                            /\ UNCHANGED <<st, it>>
                       ELSE /\ st' = IF Dev_TimeoutNotCounted THEN st ELSE [st EXCEPT !.tmo = @ + 1]
                            /\ it' = it + 1 /\ pc' = "Iter" /\ att' = att /\ dead' = TRUE /\ conn' = conn
                    /\ UNCHANGED <<truth, done>>
  /\ UNCHANGED <<C, refuse, todo, cur, plen, verdict>>

\* logger.result(...): the statistics of this session
Stats ==
  /\ pc = "Stats"
  /\ LET codes == SetToSeq({st.negs[i] : i \in DOMAIN st.negs})
     IN hist' = hist \o <<[k |-> "end", s |-> cur[2]]>>
                     \o [i \in DOMAIN codes |-> [k |-> "nrc", code |-> codes[i], n |-> Count(st.negs, codes[i])]]
                     \o <<[k |-> "pos", n |-> st.pos], [k |-> "tmo", n |-> st.tmo],
                          [k |-> "ill", n |-> st.ill], [k |-> "fc", n |-> st.fc]>>
  /\ pc' = "Leave"
  /\ UNCHANGED <<C, refuse, todo, cur, it, att, plen, truth, dead, conn, st, done, verdict>>

\* await self.ecu.leave_session(session): ECUReset, wait_for_ecu (ping), DiagnosticSessionControl(1)
Leave ==
  /\ pc = "Leave"
  /\ LET c1 == IF dead THEN conn + 1 ELSE conn
     IN /\ hist' = hist \o <<Q(truth, c1, <<17, 1>>, "pos", 0, FALSE), Q(1, c1, <<62, 0>>, "pos", 0, FALSE),
                             Q(1, c1, <<16, 1>>, "pos", 0, FALSE)>>
        /\ conn' = c1
  /\ dead' = FALSE
  /\ truth' = 1
  /\ pc' = "Switch"
  /\ UNCHANGED <<C, refuse, todo, cur, it, att, plen, st, done, verdict>>

Judge ==
  /\ pc = "Judge"
  /\ verdict' = Verdict(C, hist, done, 0)
  /\ pc' = "Done"
  /\ UNCHANGED <<C, refuse, todo, cur, it, att, plen, truth, dead, conn, st, hist, done>>

Next == Start \/ Switch \/ Iter \/ Send \/ Stats \/ Leave \/ Judge
Spec == Init /\ [][Next]_vars /\ WF_vars(Next)

Done == pc = "Done"
TypeOK == pc \in {"Start", "Switch", "Iter", "Send", "Stats", "Leave", "Judge", "Done"}
P1_Shape_Inv     == verdict # "P1/request-not-of-the-configured-shape"
P2_Session_Inv   == verdict # "P2/fuzz-request-outside-the-announced-session"
P3_Skip_Inv      == verdict # "P3/scan-started-in-a-session-the-ecu-refused"
P4_Total_Inv     == verdict # "P4/statistics-do-not-account-for-every-iteration-once"
P4_Pos_Inv       == verdict # "P4/positive-count-differs-from-the-ecu"
P4_Neg_Inv       == verdict # "P4/negative-response-counts-differ-from-the-ecu"
P4_Ill_Inv       == verdict # "P4/illegal-reply-count-differs-from-the-ecu"
P4_Tmo_Inv       == verdict # "P4/more-timeouts-than-unanswered-requests"
P4_Struct_Inv    == verdict # "P4/statistics-records-out-of-place" /\ verdict # "P4/statistics-record-missing-or-repeated"
P5_Pairs_Inv     == verdict # "P5/identifier-session-pair-not-fuzzed"
P6_Continue_Inv  == verdict # "P6/a-counted-fault-ended-the-run"
VerdictOk        == Done => verdict = "ok"
Progress         == pc # "Done" => ENABLED Next
=============================================================================
