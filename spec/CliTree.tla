------------------------------ MODULE CliTree ------------------------------
(* Growth property X17 -- design layer: a state machine shaped like gallia's
   front end (plugins/plugin.py load_commands/_merge_commands, cli/gallia.py
   create_parser / parse_and_run / get_command / show_plugins / template,
   plugin.py load_transport).

     merge     one step per plugin, in discovery order: its tree is merged into
               the tree built so far or the load is refused (ValueError)
     parse     the argument vector is consumed token by token, descending the
               tree (argparse sub-parsers); top-level option, help, unknown
               name, end of input at a group, option check at the leaf
     run       the class registered at the leaf is instantiated with the
               configuration and its result is the exit status
     lookup    registry look-up by name (first match in discovery order)
     list      --show-plugins walks every plugin's tree
     template  one default per configuration key for all commands

   Deviation constants (negative controls; all FALSE = the design meets the
   contract):
     Dev_Overwrite          a later registration silently replaces an earlier one
     Dev_LeafByName         the class is picked by the leaf's NAME, not its path
     Dev_RunOnMissing       a missing required option does not stop the run
     Dev_UsageExitZero      usage errors end with status 0
     Dev_PrefixLookup       look-up accepts a registered name that is a prefix
     Dev_ListOmitsNested    the listing shows only the first level of a tree
     Dev_TemplateLastDefault the template prints the default of the command that
                            was declared last even if commands disagree (this is
                            what gallia did before finding X17-F2)             *)
EXTENDS CliTreeContract

CONSTANTS Scenarios, Jobs,
          Dev_Overwrite, Dev_LeafByName, Dev_RunOnMissing, Dev_UsageExitZero,
          Dev_PrefixLookup, Dev_ListOmitsNested, Dev_TemplateLastDefault

VARIABLES pc, scn, k, tree, gdesc, refused, job, cls, node, rest, given,
          ran, exit, err, listed, q, res, shown, tpl, hist

vars == <<pc, scn, k, tree, gdesc, refused, job, cls, node, rest, given,
          ran, exit, err, listed, q, res, shown, tpl, hist>>

Front(s) == SubSeq(s, 1, Len(s) - 1)
Last(s)  == s[Len(s)]
RET == 3            \* what the command returns when it runs

\* ---- plugins
Groups(P) == {SubSeq(l.path, 1, n) : l \in {m \in P.leaves : Len(m.path) > 1}, n \in {1}}
PDesc(P, g) == IF g = <<"a">> THEN P.desc ELSE ""
Regs == UNION {{[pl |-> i, path |-> l.path, cls |-> l.cls] : l \in scn.pls[i].leaves} : i \in 1..Len(scn.pls)}
Descs == UNION {{[pl |-> i, path |-> g, d |-> PDesc(scn.pls[i], g)] : g \in Groups(scn.pls[i])} : i \in 1..Len(scn.pls)}

Init ==
  /\ scn \in Scenarios
  /\ pc = "merge" /\ k = 1 /\ tree = {} /\ gdesc = {} /\ refused = FALSE
  /\ job = "" /\ cls = "" /\ node = <<>> /\ rest = <<>> /\ given = {}
  /\ ran = <<>> /\ exit = -9 /\ err = FALSE /\ listed = {} /\ q = <<>> /\ res = "" /\ shown = {}
  /\ tpl = "" /\ hist = <<>>

Keep(vs) == UNCHANGED vs

\* ---- merge (plugin.py: _merge_commands / _merge_command_trees)
Merge ==
  /\ pc = "merge" /\ k <= Len(scn.pls)
  /\ LET P == scn.pls[k]
         leafClash == \E l \in P.leaves, t \in tree : Overlap(l.path, t.path)
         descClash == \E g \in Groups(P) : \E d \in gdesc :
                         d.path = g /\ d.d # "" /\ PDesc(P, g) # "" /\ d.d # PDesc(P, g)
         mine == {[path |-> l.path, cls |-> l.cls] : l \in P.leaves}
     IN IF (leafClash /\ ~Dev_Overwrite) \/ descClash
        THEN /\ refused' = TRUE /\ pc' = "loaded" /\ UNCHANGED <<tree, gdesc, k>>
        ELSE /\ tree' = {t \in tree : ~\E l \in P.leaves : Overlap(l.path, t.path)} \cup mine
             /\ gdesc' = gdesc \cup {[path |-> g, d |-> PDesc(P, g)] :
                                      g \in {h \in Groups(P) : ~\E d \in gdesc : d.path = h}}
             /\ k' = k + 1 /\ UNCHANGED <<refused, pc>>
  /\ hist' = Append(hist, "Merge")
  /\ UNCHANGED <<scn, job, cls, node, rest, given, ran, exit, err, listed, q, res, shown, tpl>>

Loaded ==
  /\ pc = "merge" /\ k > Len(scn.pls)
  /\ pc' = "loaded"
  /\ hist' = Append(hist, "Loaded")
  /\ UNCHANGED <<scn, k, tree, gdesc, refused, job, cls, node, rest, given, ran, exit, err, listed, q, res, shown, tpl>>

\* ---- choose what the user does next
Tokens(c, p) ==
  CASE c = "valid" -> p
    [] c = "unknown_leaf" -> Front(p) \o <<"zz">>
    [] c = "unknown_group" -> <<"zz">> \o Tail(p)
    [] c = "prefix" -> Front(p)
    [] c = "help" -> p \o <<"-h">>
    [] c = "help_group" -> Front(p) \o <<"-h">>
    [] c = "top_then_path" -> <<"--top">> \o p
    [] c = "no_args" -> <<>>
    [] OTHER -> p
GivenOf(c) == CASE c = "missing_required" -> {} [] c = "foreign_option" -> {"r", "f"} [] OTHER -> {"r"}

Export ==
  PrintT(<<"S", scn.pls, refused, {<<t.path, t.cls>> : t \in tree}>>)

ChooseDispatch ==
  /\ pc = "loaded" /\ ~refused /\ "dispatch" \in Jobs
  /\ \E t \in tree, c \in ArgvClasses :
       /\ (c = "unknown_group" => Len(t.path) > 1)
       /\ job' = "dispatch" /\ cls' = c /\ node' = <<>> /\ rest' = Tokens(c, t.path) /\ given' = GivenOf(c)
       /\ q' = t.path
  /\ pc' = "parse"
  /\ hist' = Append(hist, "ChooseDispatch")
  /\ UNCHANGED <<scn, k, tree, gdesc, refused, ran, exit, err, listed, res, shown, tpl>>

IsLeaf(n) == \E t \in tree : t.path = n
Children(n) == {t.path[Len(n) + 1] : t \in {u \in tree : ProperPrefix(n, u.path)}}

Finish(r, e, m, l) ==
  /\ ran' = r /\ exit' = e /\ err' = m /\ listed' = l /\ pc' = "done"
  /\ UNCHANGED <<scn, k, tree, gdesc, refused, job, cls, node, rest, given, q, res, shown, tpl>>

UsageExit == IF Dev_UsageExitZero THEN 0 ELSE 2

Top ==       \* a top-level option: its function runs, the program terminates
  /\ pc = "parse" /\ node = <<>> /\ rest # <<>> /\ Head(rest) = "--top"
  /\ Finish(<<>>, 0, FALSE, {})
  /\ hist' = Append(hist, "Top")

Help ==
  /\ pc = "parse" /\ rest # <<>> /\ Head(rest) = "-h"
  /\ Finish(<<>>, 0, FALSE, IF IsLeaf(node) THEN {} ELSE Children(node))
  /\ hist' = Append(hist, "Help")

Descend ==
  /\ pc = "parse" /\ rest # <<>> /\ ~IsLeaf(node) /\ Head(rest) \in Children(node)
  /\ node' = Append(node, Head(rest)) /\ rest' = Tail(rest)
  /\ hist' = Append(hist, "Descend")
  /\ UNCHANGED <<pc, scn, k, tree, gdesc, refused, job, cls, given, ran, exit, err, listed, q, res, shown, tpl>>

Unknown ==   \* a name that is no child of the current group / a stray token after a leaf
  /\ pc = "parse" /\ rest # <<>> /\ Head(rest) \notin {"-h"}
  /\ ~(node = <<>> /\ Head(rest) = "--top")
  /\ (IsLeaf(node) \/ Head(rest) \notin Children(node))
  /\ Finish(<<>>, UsageExit, TRUE, {})
  /\ hist' = Append(hist, "Unknown")

EndAtGroup ==  \* "the following arguments are required: {...}" / help on zero arguments
  /\ pc = "parse" /\ rest = <<>> /\ ~IsLeaf(node)
  /\ Finish(<<>>, UsageExit, TRUE, {})
  /\ hist' = Append(hist, "EndAtGroup")

ClassAt(n) ==
  IF Dev_LeafByName
  THEN (CHOOSE t \in tree : Last(t.path) = Last(n) /\ \A u \in tree : Last(u.path) = Last(n) => Len(t.path) <= Len(u.path)).cls
  ELSE (CHOOSE t \in tree : t.path = n).cls

AtLeaf ==
  /\ pc = "parse" /\ rest = <<>> /\ IsLeaf(node)
  /\ IF ("r" \notin given /\ ~Dev_RunOnMissing) \/ ~(given \subseteq {"r", "o"})
     THEN Finish(<<>>, UsageExit, TRUE, {})
     ELSE Finish(<<[cls |-> ClassAt(node), cfgok |-> TRUE]>>, RET, FALSE, {})
  /\ hist' = Append(hist, "AtLeaf")

\* ---- registry look-up (plugin.py: load_transport / load_ecu)
Match(key, name) == IF Dev_PrefixLookup THEN IsPrefix(key, name) ELSE key = name
Lookup ==
  /\ pc = "loaded" /\ "lookup" \in Jobs
  /\ \E name \in scn.names :
       /\ q' = name
       /\ res' = IF \E i \in 1..Len(scn.tr) : Match(scn.tr[i].key, name)
                 THEN scn.tr[CHOOSE i \in 1..Len(scn.tr) :
                                 Match(scn.tr[i].key, name) /\ \A j \in 1..(i - 1) : ~Match(scn.tr[j].key, name)].cls
                 ELSE ""
  /\ job' = "lookup" /\ pc' = "done"
  /\ hist' = Append(hist, "Lookup")
  /\ UNCHANGED <<scn, k, tree, gdesc, refused, cls, node, rest, given, ran, exit, err, listed, shown, tpl>>

\* ---- --show-plugins (gallia.py: show_plugins / _walk_commands)
List ==
  /\ pc = "loaded" /\ "list" \in Jobs
  /\ shown' = {[pl |-> r.pl, path |-> r.path] : r \in {s \in Regs : ~Dev_ListOmitsNested \/ Len(s.path) = 1}}
  /\ job' = "list" /\ pc' = "done" /\ exit' = 0
  /\ hist' = Append(hist, "List")
  /\ UNCHANGED <<scn, k, tree, gdesc, refused, cls, node, rest, given, ran, err, listed, q, res, tpl>>

\* ---- --template: scn.defs = sequence (declaration order) of the default every command has for ONE key
Template ==
  /\ pc = "loaded" /\ "template" \in Jobs /\ Len(scn.defs) > 0
  /\ tpl' = IF Dev_TemplateLastDefault THEN scn.defs[Len(scn.defs)]
            ELSE IF \A i \in 1..Len(scn.defs) : scn.defs[i] = scn.defs[1] THEN scn.defs[1] ELSE "commented"
  /\ job' = "template" /\ pc' = "done" /\ exit' = 0
  /\ hist' = Append(hist, "Template")
  /\ UNCHANGED <<scn, k, tree, gdesc, refused, cls, node, rest, given, ran, err, listed, q, res, shown>>

Next == Merge \/ Loaded \/ ChooseDispatch \/ Top \/ Help \/ Descend \/ Unknown \/ EndAtGroup \/ AtLeaf
        \/ Lookup \/ List \/ Template

Spec == Init /\ [][Next]_vars

-----------------------------------------------------------------------------
TypeOK == /\ pc \in {"merge", "loaded", "parse", "done"}
          /\ refused \in BOOLEAN
          /\ job \in {"", "dispatch", "lookup", "list", "template"}

\* L: the merged tree against the registrations
Inv_Load ==
  pc # "merge" =>
    LoadVerdictS(Regs, Descs, ~refused, {[path |-> t.path, cls |-> t.cls] : t \in tree},
                 Cardinality(tree)) \in OK

\* D
Outcome == IF Len(ran) > 0 THEN "run" ELSE IF err THEN "usage" ELSE IF cls \in HelpClasses THEN "help" ELSE "top"
Inv_Dispatch ==
  (pc = "done" /\ job = "dispatch") =>
    DispatchVerdictS(cls, {[path |-> r.path, cls |-> r.cls, cfg |-> "cfg"] : r \in {s \in Regs : s.path = q}},
                     ran, exit, RET, err,
                     IF cls = "help" THEN {} ELSE Children(Front(q)), listed,
                     "--top", "v", "v") \in OK

\* R
Inv_Lookup ==
  (pc = "done" /\ job = "lookup") => LookupVerdictS(ToSet(scn.tr), q, res) \in OK

\* P
Inv_List ==
  (pc = "done" /\ job = "list") =>
    PluginsVerdictS(IF \E r \in Regs : [pl |-> r.pl, path |-> r.path] \notin shown THEN {"command"} ELSE {},
                    {}, exit, 0) \in OK

\* T: with the template as config file every command keeps its programmatic default
Inv_Template ==
  (pc = "done" /\ job = "template") =>
    \A i \in 1..Len(scn.defs) :
       TemplateCmdVerdictS(TRUE, TRUE, scn.defs[i], IF tpl = "commented" THEN scn.defs[i] ELSE tpl) \in OK

\* export for spec -> code (PrintT in an invariant is evaluated once per distinct state)
Exported ==
  /\ (pc = "loaded" => Export)
  /\ ((pc = "done" /\ job = "dispatch" /\ scn.ex) => PrintT(<<"A", cls, Outcome>>))
  /\ ((pc = "done" /\ job = "lookup") => PrintT(<<"K", scn.tr, q, res>>))
  /\ ((pc = "done" /\ scn.ex) => PrintT(<<"H", hist>>))
=============================================================================
