------------------------ MODULE ResetScanContract ------------------------
(* Growth item X06 -- the ECUReset scanner `gallia scan uds reset`
   (gallia.commands.scan.uds.reset.ResetScanner), contract layer: operators only.

   Statement (growth/X06.json):
     "Against any ECU model the reset scan terminates; in every requested session that can be entered (or in
      the current session when no session list is given) it sends ECUReset with every sub-function 0x01..0x7F
      that the skip option does not name, while the ECU really is in that session, and its final lists are
      exact: 'ok' = the sub-functions answered positively, 'with error' = those answered negatively with a
      code outside the not-supported family (with that code), 'timeout' = those never answered.
      After a positive reset response nothing but TesterPresent is sent until the ECU has answered a
      TesterPresent again (ECUs silent for less than 8 s), and an ECU that answers every request when it
      is up, is silent / refuses connections for less than 8 s after a reset and accepts the requested
      session changes is scanned to the end with exit status 0."

   Sources of the clauses (nothing is taken from the scanner's control flow):
     R1  class docstring "Scan ecu_reset", SHORT_HELP "identifier scan in ECUReset"; ISO 14229-1 10.3: the
         resetType sub-function is 7 bits wide (bit 7 = suppressPosRspMsgIndicationBit), 0x00 is reserved
         -> 0x01..0x7F.  `--sessions`: "Set list of sessions to be tested".  Log "Switching to session .. failed"
         (a session that cannot be entered is left out), "Scanning in session: ..".
     R2  log records "Scanning in session: <s>", "Currently in session .., should be <s>", "Setting session <s>";
         comment "Check session and try to recover from wrong session"; `--skip-check-session`.
     R3  the result records "<sf>: reset level found!", "<sf>: with error code: ..", "ok: ..", "timeout: ..",
         "with error: ..";  docs/uds/scan_modes.md: "For discovering available subFunctions the following error
         codes indicate the subFunction is not available: serviceNotSupported, serviceNotSupportedInActiveSession,
         subFunctionNotSupported, or subFunctionNotSupportedInActiveSession.  Each identifier or subFunction
         which responds with a different error code is considered available."
     R4  `--skip` help: "The sub functions to be skipped per session. ... Only takes affect if --sessions is given."
         Log "skipping subFunc: .. because of --skip".
     R6  log "Waiting for the ECU to recover..."; ECU.wait_for_ecu docstring: "Wait for ecu to be alive again
         (e.g. after reset). Sends a ping every 0.5s and waits at most timeout." (documented default 10 s; the
         contract only binds ECUs that are back within 8 s: 10 s minus two ping periods).
     R0  the same docstring; comment in ECU._wait_for_ecu_endless_loop: "When the ECU is not ready, we expect an
         UDSException, e.g. MissingResponse.  On ConnectionError, we additionally reconnect the transport to
         ensure connectivity."; the scanner's handler "lost connection to ECU (post) .. reconnect .. continue";
         exit paths are announced: "ECU did not respond after reset level ..; exit", "Aborting scan on session ..".
     T0  a scanner run ends (sub-function range and session list are finite; wait_for_ecu "waits at most timeout").
   Where these sources are silent every outcome is accepted (counted by Unspecified):
     * an ECU that leaves a request unanswered although it is up, stays silent for 8 s or more, or refuses
       connections for 8 s or more: the scan may stop in any way (but must stop, and everything it did and
       reported before is still judged);
     * ECUReset 0x01 is also the scanner's tool ("Reboot ECU to restore default conditions", ECU.leave_session):
       requests 11 01 are exempt from R2 and from the probing half of R4;
     * malformed / mismatching replies, busy / pending replies, --power-cycle (no power supply here).

   ---------------------------------------------------------------- data
   Response classes (integers, shared with the harness):                                   *)
EXTENDS Naturals, Sequences, FiniteSets, SequencesExt, TLC

NS   == 0   \* negative response of the not-supported family (0x11, 0x7F, 0x12, 0x7E)
NEG  == 1   \* any other negative response
NONE == 3   \* no answer
POS  == 4   \* positive response

MustWaitBelow == 8000   \* ms, from the statement

(* ECU model E (ground truth, independent of the scanner):
     E.dom             sessions of the ECU (each can be entered from each)
     E.cls[<<s,sf>>]   response class of the ECU in session s to ECUReset sf, E.nrc[<<s,sf>>] its NRC (0 if none)
     E.refuse          longest time (ms) the ECU refuses connections after a reset that drops the connection
   Configuration C (what the option strings DENOTE):
     C.has  a session list was given   C.req  the requested sessions (set)   C.skipAll  sessions skipped as a whole
     C.skip set of <<session, sf>>     C.start the ECU's session at the start   C.U  sub-function universe (1..127)
   Events (records), in the order they happened:
     [k |-> "q", t, p, n, r, c, w, d]  a request seen BY THE ECU: t ground-truth session before it, p its first
                                       bytes, n its length, r the class of the answer, c the NRC, w > 0: the ECU was
                                       rebooting (total length w ms of that silence), d: silence (ms) that follows
                                       this (positive reset) response
     [k |-> "ok"|"to", l |-> <<sf..>>], [k |-> "err", l |-> << <<sf, nrc>>.. >>]   the scanner's summary records  *)

IsQ(e)        == e.k = "q"
IsDsc(e)      == e.n = 2 /\ e.p[1] = 16 /\ e.p[2] % 128 # 0
DscTarget(e)  == e.p[2] % 128
IsTP(e)       == e.n = 2 /\ e.p[1] = 62 /\ e.p[2] % 128 = 0
IsReset(e)    == e.n = 2 /\ e.p[1] = 17 /\ e.p[2] \in 1..127
Sf(e)         == e.p[2]
Excusable(e)  == (e.w > 0 /\ e.w < MustWaitBelow) \/ (e.n = 2 /\ e.p[1] = 62 /\ e.p[2] = 128)

A0 == [cl |-> 0, att |-> {}, ent |-> {}, pr |-> {}, wrong |-> {}, m0 |-> {}, pend |-> 0, nowait |-> {},
       sil |-> 0, ok |-> {}, to |-> {}, err |-> {}, rep |-> {}]

StepQ(C, E, a, e) ==
  LET b == \* R6 bookkeeping: pend = d + 1 while a positive reset response awaits the proof that the ECU is alive
           IF a.pend = 0 THEN a
           ELSE IF IsTP(e) THEN (IF e.r = POS THEN [a EXCEPT !.pend = 0] ELSE a)
           ELSE [a EXCEPT !.pend = 0,
                          !.nowait = IF a.pend - 1 < MustWaitBelow THEN @ \cup {<<a.cl, e.p[1]>>} ELSE @]
      c == [b EXCEPT !.sil = IF e.r = NONE /\ ~Excusable(e) THEN @ + 1 ELSE @]
  IN
  IF IsDsc(e) THEN
       [c EXCEPT !.att = @ \cup {DscTarget(e)},
                 !.ent = IF e.r = POS THEN @ \cup {DscTarget(e)} ELSE @,
                 !.cl  = IF e.r = POS /\ C.has THEN DscTarget(e) ELSE @]
  ELSE IF ~IsReset(e) THEN c
  ELSE LET key == <<e.t, Sf(e)>> IN
       [c EXCEPT !.pr    = @ \cup {<<c.cl, Sf(e)>>},
                 !.wrong = IF Sf(e) # 1 /\ (IF C.has THEN (e.t # c.cl \/ c.cl \notin C.req) ELSE e.t # C.start)
                           THEN @ \cup {<<c.cl, e.t, Sf(e)>>} ELSE @,
                 \* harness self-check: the fake ECU answered as its model says
                 !.m0    = IF (e.w > 0 /\ e.r # NONE)
                              \/ (e.w = 0 /\ (key \notin DOMAIN E.cls \/ E.cls[key] # e.r \/ E.nrc[key] # e.c))
                           THEN @ \cup {key} ELSE @,
                 !.pend  = IF e.r = POS THEN e.d + 1 ELSE @]

StepRep(a, e) ==
  CASE e.k = "ok"  -> [a EXCEPT !.ok = @ \cup {<<a.cl, e.l[i]>> : i \in 1..Len(e.l)}, !.rep = @ \cup {<<a.cl, "ok">>}]
    [] e.k = "to"  -> [a EXCEPT !.to = @ \cup {<<a.cl, e.l[i]>> : i \in 1..Len(e.l)}, !.rep = @ \cup {<<a.cl, "to">>}]
    [] e.k = "err" -> [a EXCEPT !.err = @ \cup {<<a.cl, e.l[i][1], e.l[i][2]>> : i \in 1..Len(e.l)},
                                !.rep = @ \cup {<<a.cl, "err">>}]
    [] OTHER       -> a

Acc(C, E, ev) == FoldLeft(LAMBDA a, e : IF IsQ(e) THEN StepQ(C, E, a, e) ELSE StepRep(a, e), A0, ev)

----------------------------------------------------------------------------
Skipped(C, s, sf) == C.has /\ (s \in C.skipAll \/ <<s, sf>> \in C.skip)
TruthOf(C, s)     == IF C.has THEN s ELSE C.start
Sessions(a)       == {x[1] : x \in a.rep}
Completed(a)      == {s \in Sessions(a) : <<s, "ok">> \in a.rep /\ <<s, "to">> \in a.rep /\ <<s, "err">> \in a.rep}
Enterable(C, E)   == IF C.has THEN C.req \cap E.dom ELSE {0}
Envelope(E, a)    == a.sil = 0 /\ E.refuse < MustWaitBelow
Known(C, E, s)    == \A sf \in C.U : <<TruthOf(C, s), sf>> \in DOMAIN E.cls

ExpOk(C, E, s)  == {sf \in C.U : ~Skipped(C, s, sf) /\ E.cls[<<TruthOf(C, s), sf>>] = POS}
ExpTo(C, E, s)  == {sf \in C.U : ~Skipped(C, s, sf) /\ E.cls[<<TruthOf(C, s), sf>>] = NONE}
ExpErr(C, E, s) == {<<sf, E.nrc[<<TruthOf(C, s), sf>>]>> : sf \in {x \in C.U : ~Skipped(C, s, x) /\ E.cls[<<TruthOf(C, s), x>>] = NEG}}
GotOk(a, s)  == {x[2] : x \in {y \in a.ok : y[1] = s}}
GotTo(a, s)  == {x[2] : x \in {y \in a.to : y[1] = s}}
GotErr(a, s) == {<<x[2], x[3]>> : x \in {y \in a.err : y[1] = s}}

M0_FakeConsistent(C, E, a) == a.m0 = {}
R2_InSession(a)            == a.wrong = {}
R4_SkipNotProbed(C, a)     == \A x \in a.pr : x[2] # 1 => ~Skipped(C, x[1], x[2])
R4_SkipNotReported(C, a)   == /\ \A x \in a.ok \cup a.to : ~Skipped(C, x[1], x[2])
                              /\ \A x \in a.err : ~Skipped(C, x[1], x[2])
R6_Waits(a)                == a.nowait = {}
R0_NoDeath(E, a, done)     == Envelope(E, a) => done \in {"ok", "exit"}
R0_AllScanned(C, E, a)     == Envelope(E, a) => Enterable(C, E) \subseteq Completed(a)
R0_ExitOk(C, E, a, done)   == (Envelope(E, a) /\ (C.has => C.req \subseteq E.dom)) => done = "ok"
R1_Entered(C, E, a)        == \A s \in Sessions(a) : IF C.has THEN s \in C.req /\ s \in a.ent /\ Known(C, E, s) ELSE s = 0
R1_Attempted(C, E, a)      == (Envelope(E, a) /\ C.has) => C.req \subseteq a.att
R1_AllProbed(C, a)         == \A s \in Completed(a) : \A sf \in C.U : ~Skipped(C, s, sf) => <<s, sf>> \in a.pr
R3_OkOnly(C, E, a)         == \A s \in Sessions(a) : GotOk(a, s) \subseteq ExpOk(C, E, s)
R3_OkAll(C, E, a)          == \A s \in Completed(a) : ExpOk(C, E, s) \subseteq GotOk(a, s)
R3_ErrOnly(C, E, a)        == \A s \in Sessions(a) : GotErr(a, s) \subseteq ExpErr(C, E, s)
R3_ErrAll(C, E, a)         == \A s \in Completed(a) : ExpErr(C, E, s) \subseteq GotErr(a, s)
R3_ToOnly(C, E, a)         == \A s \in Sessions(a) : GotTo(a, s) \subseteq ExpTo(C, E, s)
R3_ToAll(C, E, a)          == \A s \in Completed(a) : ExpTo(C, E, s) \subseteq GotTo(a, s)

\* total verdict of one execution: "ok" or the label of the first clause broken.
\* done \in {"ok", "exit", "exc", "hang"}: returned / sys.exit(non-zero) / died with an exception / never ended
Verdict(C, E, ev, done) ==
  LET a == Acc(C, E, ev) IN
  IF ~M0_FakeConsistent(C, E, a)        THEN "M0/fake-ecu-inconsistent-with-its-model"
  ELSE IF done = "hang"                 THEN "T0/scan-does-not-terminate"
  ELSE IF ~R2_InSession(a)              THEN "R2/probe-outside-claimed-session"
  ELSE IF ~R4_SkipNotProbed(C, a)       THEN "R4/skipped-was-probed"
  ELSE IF ~R6_Waits(a)                  THEN "R6/request-before-the-ecu-answered-a-ping-again"
  ELSE IF ~R1_Entered(C, E, a)          THEN "R1/report-for-a-session-not-entered"
  ELSE IF ~R4_SkipNotReported(C, a)     THEN "R4/skipped-was-reported"
  ELSE IF ~R1_AllProbed(C, a)           THEN "R1/sub-function-not-probed"
  ELSE IF ~R3_OkOnly(C, E, a)           THEN "R3/ok-but-not-answered-positively"
  ELSE IF ~R3_OkAll(C, E, a)            THEN "R3/answered-positively-but-not-ok"
  ELSE IF ~R3_ErrOnly(C, E, a)          THEN "R3/error-entry-not-answered-so"
  ELSE IF ~R3_ErrAll(C, E, a)           THEN "R3/negative-answer-not-in-error-list"
  ELSE IF ~R3_ToOnly(C, E, a)           THEN "R3/timeout-entry-was-answered"
  ELSE IF ~R3_ToAll(C, E, a)            THEN "R3/never-answered-but-not-in-timeout-list"
  ELSE IF ~R0_NoDeath(E, a, done)       THEN "R0/scan-dies-although-the-ecu-came-back"
  ELSE IF ~R1_Attempted(C, E, a)        THEN "R1/requested-session-not-attempted"
  ELSE IF ~R0_AllScanned(C, E, a)       THEN "R0/enterable-session-not-scanned-to-the-end"
  ELSE IF ~R0_ExitOk(C, E, a, done)     THEN "R0/clean-scan-reports-failure"
  ELSE "ok"

\* 1 if the sources leave the way the scan ends open for this execution
Unspecified(C, E, ev) == LET a == Acc(C, E, ev) IN IF Envelope(E, a) THEN 0 ELSE 1
=============================================================================
