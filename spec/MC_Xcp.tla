------------------------------ MODULE MC_Xcp ------------------------------
(* Model-checking wrapper of Xcp: scripts and answer sets (cfg files cannot hold tuples). *)
EXTENDS Xcp

C(m)    == [m |-> m, arg |-> -1]
A(m, a) == [m |-> m, arg |-> a]

ConnLE    == <<255, 21, 192, 8, 1, 2, 1, 1>>      \* resource 0x15, COMM_MODE_BASIC 0xC0: Intel
ConnBE    == <<255, 21, 193, 8, 1, 2, 1, 1>>      \* COMM_MODE_BASIC 0xC1: Motorola
ConnShort == <<255, 21, 193>>                      \* truncated CONNECT response
ConnLong  == <<255, 37, 134, 255, 52, 18, 1, 1, 9, 9>>
StatusR   == <<255, 201, 21, 0, 18, 52>>
StatusSh  == <<255, 201, 21, 0, 18>>
CommR     == <<255, 0, 3, 0, 1, 2, 3, 4>>
Pos1      == <<255>>
Upl       == <<255, 1, 2, 3, 4>>
GetId1LE  == <<255, 1, 0, 0, 2, 0, 0, 0, 65, 66>>
GetId1BE  == <<255, 1, 0, 0, 0, 0, 0, 2, 65, 66>>
GetId0    == <<255, 0, 0, 0, 4, 3, 2, 1>>
ErrP      == <<254, 32>>
ErrBare   == <<254>>
EvP       == <<253, 1>>
Junk      == <<18, 52>>

PrimScript  == <<C("connect"), C("get_status"), C("get_comm_mode_info"), C("disconnect")>>
PrimAnswers == {ConnLE, ConnBE, ConnShort, StatusR, CommR, Pos1, ErrP, EvP}

IdScript    == <<C("connect"), A("get_id", 1), A("upload", 4), A("get_id", 300), C("connect"), A("get_id", 0)>>
IdAnswers   == {ConnLE, ConnBE, GetId1LE, GetId1BE, GetId0, Upl, ErrP}

MixScript   == <<C("get_status"), C("connect"), C("get_status"), C("connect"), C("get_status")>>
MixAnswers  == {ConnLE, ConnBE, ConnShort, ConnLong, StatusR, StatusSh}
Mix6Script  == <<C("get_status"), C("connect"), C("get_status"), C("connect"), C("get_status"), C("disconnect")>>
Mix6Answers == {ConnLE, ConnBE, ConnShort, ConnLong, StatusR, StatusSh, ErrBare, Junk}

CanScript   == <<C("connect"), C("get_status"), A("upload", 2)>>
CanAnswers  == {ConnBE, StatusR, ErrP, Upl}

\* quick tier: smaller scripts / answer sets
PrimAnswersQ == {ConnLE, ConnBE, StatusR, CommR, Pos1, ErrP}
IdScriptQ    == <<C("connect"), A("get_id", 1), A("upload", 4), A("get_id", 300), A("get_id", 0)>>
IdAnswersQ   == {ConnLE, ConnBE, GetId1LE, GetId1BE, GetId0, ErrP}
MixAnswersQ  == {ConnLE, ConnBE, ConnShort, StatusR}
CanScriptQ   == <<C("connect"), C("get_status")>>
CanAnswersQ  == {ConnBE, StatusR, ErrP}
CovScript    == <<C("connect"), C("get_status")>>
CovAnswers   == {ConnBE, ErrP}

\* simulation (spec -> code): longer scripts, every answer
SimScript    == <<C("connect"), C("get_status"), A("get_id", 1), C("get_comm_mode_info"), A("upload", 4), C("connect"),
                  C("get_status"), A("get_id", 0), C("disconnect")>>
SimAnswers   == {ConnLE, ConnBE, ConnShort, ConnLong, StatusR, StatusSh, CommR, Pos1, Upl, GetId1LE, GetId1BE, GetId0,
                 ErrP, ErrBare, EvP, Junk}
=============================================================================
