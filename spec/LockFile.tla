---------------------------- MODULE LockFile ----------------------------
(* Growth item X22, design layer: N gallia processes, each one run of BaseCommand.entry_point() with
   --lock-file, and the kernel's flock as a variable.

   Shape of the code (gallia/command/base.py):
     entry_point():  _open_lockfile(); _aquire_flock()            Start(p): non-blocking attempt -> in | waiting
                     (OSError -> critical + return OSFILE)         Start(p) for a group -1
                     prepare artifacts, pre-hook                   pc = "pre"
                     db, setup / main / teardown                   pc = "main"
                     META.json, post-hook                          pc = "post"
                     _release_flock(); return exit_code            pc = "after"  (the process is still alive)
     process exit                                                  pc = "dead"   (the kernel drops what is left)
   The kernel: lock[g] = the run that holds the exclusive flock on the file of group g (0 = nobody);
   Grant(p) = the kernel wakes ONE of the waiters when the lock is free.
   Environment (the driver of the real processes, harness/x22_run.py): Start / Go / Int / Kill / Probe, taken only
   when the system is at rest (Quiescent: no waiter could be admitted), exactly like the driver waits for the
   real processes to rest before its next action.  The model writes the SAME records into `hist` that the real
   runs and the driver write into the event file, and the contract judges `hist`.

   Deviations (negative controls):
     Dev_ReleaseBeforePostHook  _release_flock() moved in front of the post-hook
     Dev_LockAfterPreHook       lock taken after the pre-hook
     Dev_NoUnlockOnError        the unlock sits on the normal path only (a run that failed returns without it)
     Dev_ThreadWait             the blocking flock runs in a worker thread of the default executor: Ctrl-C cancels
                                the main task, but asyncio.run() joins the executor -> the interrupted waiter stays
                                until it GETS the lock (this is the tree as found, see findings/X22-...)
     Dev_SilentWait             no notice before the blocking wait
     Dev_LostWakeup             a waiter is never woken                                                           *)
EXTENDS Integers, Sequences, FiniteSets, TLC, LockFileContract

CONSTANTS N, Group, MaxInt, MaxKill, MaxProbe, KeepHist,
          Dev_ReleaseBeforePostHook, Dev_LockAfterPreHook, Dev_NoUnlockOnError, Dev_ThreadWait, Dev_SilentWait,
          Dev_LostWakeup

Procs == 1..N
Groups == {Group[p] : p \in Procs} \ {0, -1}
ProcTab == [p \in Procs |-> [g |-> Group[p]]]
Baseline == {1, 2}          \* log texts of a run that finds the lock free: "opening", "acquired"
MsgWaiting == 7
MsgUnable == 9

VARIABLES pc, lock, how, gaveup, hist, acts, nint, nkill, nprobe
vars == <<pc, lock, how, gaveup, hist, acts, nint, nkill, nprobe>>

Ev(k, p, ph, n, m) == [k |-> k, p |-> p, ph |-> ph, n |-> n, m |-> m, t |-> 0]
RECURSIVE Stamp(_, _)
Stamp(s, base) == IF s = <<>> THEN <<>> ELSE <<[Head(s) EXCEPT !.t = base + 1]>> \o Stamp(Tail(s), base + 1)
Add(s) == IF KeepHist THEN hist \o Stamp(s, Len(hist)) ELSE hist
Act(a) == IF KeepHist THEN Append(acts, a) ELSE acts

Rc(h) == CASE h = "ret" -> 0 [] h = "err" -> 70 [] h = "int" -> 130 [] h = "bad" -> 72 [] OTHER -> 1
InSec(p) == pc[p] \in {"pre", "main", "post"}
Locked(p) == Group[p] > 0
Frees(p, cond) == IF Locked(p) /\ lock[Group[p]] = p /\ cond THEN [lock EXCEPT ![Group[p]] = 0] ELSE lock
Quiescent == \A p \in Procs : pc[p] \in {"waiting", "zombie"} => (lock[Group[p]] # 0 \/ gaveup[p])

Init == /\ pc = [p \in Procs |-> "idle"] /\ lock = [g \in Groups |-> 0] /\ how = [p \in Procs |-> "ret"]
        /\ gaveup = [p \in Procs |-> FALSE] /\ hist = <<>> /\ acts = <<>> /\ nint = 0 /\ nkill = 0 /\ nprobe = 0

EnterRecs(p) == << Ev("B", p, "pre", 0, 0), Ev("at", p, "pre", 0, 0) >>
FreeLogs(p) == << Ev("log", p, "", 25, 1), Ev("log", p, "", 20, 2) >>

Start(p) ==
  /\ pc[p] = "idle" /\ Quiescent
  /\ \E h \in {"ret", "err"} :
       LET g == Group[p]
           head == << Ev("start", p, "", 0, 0), Ev("try", p, "", 0, 0) >>
       IN /\ acts' = Act(<<"start", p, h>>)
          /\ CASE g = -1 ->
                    /\ pc' = [pc EXCEPT ![p] = "after"] /\ how' = [how EXCEPT ![p] = "bad"] /\ lock' = lock
                    /\ hist' = Add(head \o << Ev("log", p, "", 50, MsgUnable), Ev("ret", p, "ret", 72, 0),
                                             Ev("at", p, "after", 0, 0) >>)
               [] g = 0 \/ (g > 0 /\ Dev_LockAfterPreHook) ->
                    /\ pc' = [pc EXCEPT ![p] = "pre"] /\ how' = [how EXCEPT ![p] = h] /\ lock' = lock
                    /\ hist' = Add(head \o EnterRecs(p))
               [] g > 0 /\ ~Dev_LockAfterPreHook /\ lock[g] = 0 ->
                    /\ pc' = [pc EXCEPT ![p] = "pre"] /\ how' = [how EXCEPT ![p] = h]
                    /\ lock' = [lock EXCEPT ![g] = p]
                    /\ hist' = Add(head \o FreeLogs(p) \o EnterRecs(p))
               [] OTHER ->
                    /\ pc' = [pc EXCEPT ![p] = "waiting"] /\ how' = [how EXCEPT ![p] = h] /\ lock' = lock
                    /\ hist' = Add(head \o << Ev("log", p, "", 25, 1) >>
                                   \o (IF Dev_SilentWait THEN <<>> ELSE << Ev("log", p, "", 25, MsgWaiting) >>)
                                   \o << Ev("blocked", p, "kernel-queue", 0, 0) >>)
  /\ UNCHANGED <<gaveup, nint, nkill, nprobe>>

\* the kernel admits one waiter (not an action of the environment)
Grant(p) ==
  /\ pc[p] \in {"waiting", "zombie"} /\ Locked(p) /\ lock[Group[p]] = 0 /\ ~Dev_LostWakeup
  /\ IF pc[p] = "waiting"
     THEN /\ pc' = [pc EXCEPT ![p] = "pre"] /\ lock' = [lock EXCEPT ![Group[p]] = p]
          /\ hist' = Add(<< Ev("log", p, "", 20, 2) >> \o EnterRecs(p))
     ELSE \* the worker thread of an interrupted waiter gets the lock, asyncio.run() ends, the process dies
          /\ pc' = [pc EXCEPT ![p] = "dead"] /\ lock' = lock
          /\ hist' = Add(<< Ev("ret", p, "raised", 0, 0), Ev("exit", p, "", -2, 0) >>)
  /\ UNCHANGED <<how, gaveup, acts, nint, nkill, nprobe>>

Go(p) ==
  /\ Quiescent /\ pc[p] \in {"pre", "main", "post", "after"}
  /\ acts' = Act(<<"go", p, "">>)
  /\ CASE pc[p] = "pre" ->
            /\ (Dev_LockAfterPreHook /\ Locked(p)) => lock[Group[p]] = 0
            /\ lock' = IF Dev_LockAfterPreHook /\ Locked(p) THEN [lock EXCEPT ![Group[p]] = p] ELSE lock
            /\ pc' = [pc EXCEPT ![p] = "main"]
            /\ hist' = Add(<< Ev("go", p, "pre", 0, 0), Ev("E", p, "pre", 0, 0), Ev("B", p, "main", 0, 0),
                              Ev("at", p, "main", 0, 0) >>)
       [] pc[p] = "main" ->
            /\ lock' = Frees(p, Dev_ReleaseBeforePostHook)
            /\ pc' = [pc EXCEPT ![p] = "post"]
            /\ hist' = Add(<< Ev("go", p, "main", 0, 0), Ev("E", p, "main", 0, 0), Ev("B", p, "post", 0, 0),
                              Ev("at", p, "post", 0, 0) >>)
       [] pc[p] = "post" ->
            /\ lock' = Frees(p, ~(Dev_NoUnlockOnError /\ how[p] # "ret"))
            /\ pc' = [pc EXCEPT ![p] = "after"]
            /\ hist' = Add(<< Ev("go", p, "post", 0, 0), Ev("E", p, "post", 0, 0), Ev("ret", p, "ret", Rc(how[p]), 0),
                              Ev("at", p, "after", 0, 0) >>)
       [] OTHER ->
            /\ lock' = Frees(p, TRUE)
            /\ pc' = [pc EXCEPT ![p] = "dead"]
            /\ hist' = Add(<< Ev("go", p, "after", 0, 0), Ev("exit", p, "", Rc(how[p]), 0) >>)
  /\ UNCHANGED <<how, gaveup, nint, nkill, nprobe>>

Interrupt(p) ==
  /\ Quiescent /\ nint < MaxInt /\ nint' = nint + 1
  /\ \/ /\ pc[p] = "waiting" /\ ~gaveup[p]
        /\ acts' = Act(<<"int", p, "">>)
        /\ IF Dev_ThreadWait
           THEN /\ pc' = [pc EXCEPT ![p] = "zombie"]
                /\ hist' = Add(<< Ev("int", p, "waiting", 0, 0), Ev("stuck", p, "int-not-ended", 0, 0) >>)
           ELSE /\ pc' = [pc EXCEPT ![p] = "dead"]
                /\ hist' = Add(<< Ev("int", p, "waiting", 0, 0), Ev("ret", p, "raised", 0, 0), Ev("exit", p, "", -2, 0) >>)
        /\ how' = how
     \/ /\ pc[p] = "main"
        /\ acts' = Act(<<"int", p, "">>)
        /\ how' = [how EXCEPT ![p] = "int"] /\ pc' = pc
        /\ hist' = Add(<< Ev("int", p, "main", 0, 0) >>)
  /\ UNCHANGED <<lock, gaveup, nkill, nprobe>>

Kill(p) ==
  /\ Quiescent /\ nkill < MaxKill /\ nkill' = nkill + 1
  /\ pc[p] \in {"waiting", "zombie", "pre", "main", "post", "after"}
  /\ acts' = Act(<<"kill", p, "">>)
  /\ pc' = [pc EXCEPT ![p] = "dead"] /\ lock' = Frees(p, TRUE)
  /\ hist' = Add(<< Ev("kill", p, pc[p], 0, 0), Ev("exit", p, "", -9, 0) >>)
  /\ UNCHANGED <<how, gaveup, nint, nprobe>>

\* the driver tries the lock itself while a run rests inside its section
Probe(g) ==
  /\ Quiescent /\ nprobe < MaxProbe /\ nprobe' = nprobe + 1
  /\ \E p \in Procs : Group[p] = g /\ InSec(p)
  /\ hist' = Add(<< Ev("probe", 0, "", IF lock[g] = 0 THEN 1 ELSE 0, g) >>)
  /\ UNCHANGED <<pc, lock, how, gaveup, acts, nint, nkill>>

\* the driver's deadline for a waiter that could be admitted but is not
ObserveStuck(q) ==
  /\ pc[q] = "waiting" /\ ~gaveup[q] /\ Locked(q)
  /\ \/ lock[Group[q]] = 0 /\ Dev_LostWakeup
     \/ lock[Group[q]] # 0 /\ pc[lock[Group[q]]] = "after"
  /\ gaveup' = [gaveup EXCEPT ![q] = TRUE]
  /\ hist' = Add(<< Ev("stuck", q, "not-entered", IF lock[Group[q]] = 0 THEN 1 ELSE 0, 0) >>)
  /\ UNCHANGED <<pc, lock, how, acts, nint, nkill, nprobe>>

Next == \/ \E p \in Procs : Start(p) \/ Grant(p) \/ Go(p) \/ Interrupt(p) \/ Kill(p) \/ ObserveStuck(p)
        \/ \E g \in Groups : Probe(g)
Spec == Init /\ [][Next]_vars /\ \A p \in Procs : WF_vars(Start(p)) /\ WF_vars(Grant(p)) /\ WF_vars(Go(p))

\* ---- the property
Done == \A p \in Procs : pc[p] = "dead" \/ (pc[p] = "waiting" /\ gaveup[p] /\ Dev_LostWakeup)
V == VerdictSafety(ProcTab, hist, Baseline)
Inv_Contract == V = "ok"   \* all clauses at once (the configs of the negative controls name them one by one)
Inv_Recording == V # "harness/run-made-no-progress-or-malformed-recording"
Inv_L1 == V \notin LabelsL1
Inv_L2 == V \notin LabelsL2
Inv_L3 == V \notin LabelsL3
Inv_L4 == V \notin LabelsL4
Inv_L5 == V \notin LabelsL5
Inv_L6 == V \notin LabelsL6
Inv_L7 == V \notin LabelsL7
Inv_Final == Done => Verdict(ProcTab, hist, Baseline) = "ok"
\* state-based (also without the history)
MutexInv == \A p, q \in Procs : (p # q /\ Locked(p) /\ Group[p] = Group[q]) => ~(InSec(p) /\ InSec(q))
LockInv == \A p \in Procs : (Locked(p) /\ InSec(p)) => lock[Group[p]] = p
NoLostWakeup == \A p \in Procs : (pc[p] = "waiting") ~> (pc[p] \in {"pre", "dead"})
Termination == <>(\A p \in Procs : pc[p] = "dead")
\* export: the environment's actions of every finished behaviour (replayed on the real processes by the driver)
ExitOf(p) == LET S == Of(hist, p, "exit") IN IF S = {} THEN 999 ELSE hist[Min(S)].n
Summary == [p \in Procs |-> <<IF Entered(hist, p) THEN 1 ELSE 0, ExitOf(p)>>]   \* design-level prediction (drift check)
Export == ~Done \/ PrintT(<<"S", acts, Summary>>)
=============================================================================
