------------------------- MODULE Trace_CanTransports -------------------------
(* Code -> spec (X23): validates recorded executions of the real CANMessage.pack / unpack, RawCANTransport and
   ISOTPTransport (kernel socket replaced by the in-memory bus of harness/x14_run.py, wrapped by harness/x23_run.py)
   against the contract layer.  One initial state per execution, total verdict. *)
EXTENDS CanTransportsContract, Json, IOUtils, TLC

Batch == JsonDeserialize(IOEnv.TRACE_FILE)
T == Batch.traces

VARIABLES tid, verdict
tvars == <<tid, verdict>>

TInit == tid \in 1..Len(T) /\ verdict = "?"
TNext == /\ verdict = "?"
         /\ LET O == T[tid] IN
              /\ verdict' = Verdict(O)
              /\ PrintT(<<"V", O.tid, verdict'>>)
              /\ PrintT(<<"U", O.tid, Unspecified(O), FailedAt(O)>>)
         /\ tid' = tid
TSpec == TInit /\ [][TNext]_tvars
=============================================================================
