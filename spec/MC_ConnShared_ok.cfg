SPECIFICATION Spec
CONSTANTS
  MaxData = 2
  Dev_ReaderNoMutex = FALSE
INVARIANT TypeOK
INVARIANT AckedWriteSucceeds
INVARIANT InOrder
INVARIANT NothingKept
INVARIANT OnlyHolderWaits
PROPERTY Terminates
CHECK_DEADLOCK FALSE
