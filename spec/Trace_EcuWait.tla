----------------------- MODULE Trace_EcuWait -----------------------
(* Code -> spec for C05: every recorded run of N concurrent users of one real
   gallia ECU/UDSClient is stepped through EcuWaitContract!Step. *)
EXTENDS EcuWaitContract, Json, IOUtils

Batch == JsonDeserialize(IOEnv.TRACE_FILE)
T == Batch.traces

VARIABLES tid, l, m
tvars == <<tid, l, m>>

TInit == tid \in 1..Len(T) /\ l = 1 /\ m = M0
TStep == /\ l >= 1 /\ l <= Len(T[tid].ev) /\ m.fail = "ok"
         /\ m' = Step(m, T[tid].ev[l])
         /\ l' = l + 1 /\ tid' = tid
TDone == /\ l >= 1 /\ (l > Len(T[tid].ev) \/ m.fail # "ok")
         /\ PrintT(<<"V", T[tid].id, m.fail, l - 1>>)
         /\ l' = 0 /\ UNCHANGED <<tid, m>>
TSpec == TInit /\ [][TStep \/ TDone]_tvars
=============================================================================
