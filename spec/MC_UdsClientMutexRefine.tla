---------------------- MODULE MC_UdsClientMutexRefine ----------------------
(* The C05 design layer refines the lock core whose inductive invariant Apalache
   discharges (spec/apalache): TLC checks the step simulation for 3 callers. *)
EXTENDS UdsClientMutex
Abs == INSTANCE UdsClientLockInd WITH cur <- mon.cur
AbsSpec == Abs!Spec
AbsIndInv == Abs!IndInv
AbsSafety == Abs!Safety
=============================================================================
