SPECIFICATION Spec
CONSTANTS
  Clients = {1, 2, 3}
  MaxReq = 2
  MaxLen = 7
  Dev_AsFound = FALSE
INVARIANT ContractHolds
INVARIANT StopEnds
INVARIANT Export
PROPERTY Eventually
CHECK_DEADLOCK FALSE
